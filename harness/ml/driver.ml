(* Driver for the extracted model (model.ml): reads one command per line on
   stdin and prints one result per line.  Everything that computes a result
   is extracted code; this file only parses, chooses the oracle parameters
   of the model and prints.

   Kernel oracle: for intervals below 100_000 the extracted, verified
   [primes_between] is used; above, a deterministic Miller-Rabin (unverified,
   part of the trusted base of the correspondence only). *)
open Model

let z = Z.of_string
let pr = Z.to_string

(* ---------- Miller-Rabin for n < 2^64 (bases 2..37 are sufficient) ---------- *)
let small = List.map Z.of_int [2;3;5;7;11;13;17;19;23;29;31;37]
let mr n =
  if Z.lt n (Z.of_int 2) then false
  else if List.exists (fun p -> Z.equal n p) small then true
  else if List.exists (fun p -> Z.equal (Z.rem n p) Z.zero) small then false
  else begin
    let n1 = Z.pred n in
    let r = ref 0 and d = ref n1 in
    while Z.equal (Z.rem !d (Z.of_int 2)) Z.zero do d := Z.div !d (Z.of_int 2); incr r done;
    List.for_all (fun a ->
      let x = ref (Z.powm a !d n) in
      if Z.equal !x Z.one || Z.equal !x n1 then true
      else begin
        let ok = ref false in
        (try for _ = 1 to !r - 1 do
           x := Z.rem (Z.mul !x !x) n;
           if Z.equal !x n1 then (ok := true; raise Exit)
         done with Exit -> ());
        !ok
      end) small
  end

let limit_verified = Z.of_int 100_000
let kernel_calls = ref 0 and kernel_verified = ref 0
let erat a b =
  incr kernel_calls;
  if Z.leq b limit_verified then (incr kernel_verified; primes_between a b)
  else begin
    let acc = ref [] in
    let x = ref b in
    while Z.geq !x a do
      if mr !x then acc := !x :: !acc;
      x := Z.pred !x
    done;
    !acc
  end

(* the iterator's kernel is the PrimeGenerator model (cached-prime tables from the source + sieve oracle) *)
let kernel a b = pg_primes erat a b

let rec nat_of_int n = if n <= 0 then O else S (nat_of_int (n - 1))
let rec int_of_nat = function O -> 0 | S n -> 1 + int_of_nat n
let fuel = nat_of_int 20000

(* ---------- iterator histories ---------- *)
(* oracle parameters (a, b, c, d, g, k): nextDist s _ = a + s mod b; prevDist s _ = c + s mod d;
   maxGap _ = g; blocks of k+1 primes.  Any choice must give the same values (theorem). *)
let run_iter args lines =
  let a, b, c, d, g, k = match args with
    | [a;b;c;d;g;k] -> z a, z b, z c, z d, z g, int_of_string k
    | _ -> failwith "ITER args" in
  let nextDist s _ = Z.add a (Z.rem s b) in
  let prevDist s _ = Z.add c (Z.rem s d) in
  let maxGap _ = g in
  let cut = chunks (nat_of_int k) in
  let it = ref (fresh_iter Z.zero mAX64) in
  let first = ref true in
  List.iter (fun line ->
    let toks = String.split_on_char ' ' (String.trim line) in
    let op = match toks with
      | ["N"] -> Some Next | ["P"] -> Some Prev
      | ["J"; s; h] -> Some (JumpTo (z s, z h))
      | ["S"; s; h] -> Some (Skipto (z s, z h))
      | ["C"] -> Some Clear
      | ["M"] -> Some MoveRoundTrip
      | ["F"] -> Some MovedFrom
      | ["NEW"; s; h] -> it := fresh_iter (z s) (z h); None
      | ["SS"; _] -> None
      | _ -> failwith ("bad op: " ^ line) in
    ignore first;
    match op with
    | None -> print_endline "-"
    | Some o ->
      (match step nextDist prevDist maxGap kernel cut fuel !it o with
       | Done (it', r) ->
         it := it';
         (match r with
          | Val v -> print_endline ("v " ^ pr v)
          | Err -> print_endline "err"
          | NoOut -> print_endline "-")
       | Thrown _ -> print_endline "thrown"
       | OutOfFuel -> print_endline "outoffuel")) lines

(* ---------- unit-level leaves ---------- *)
let run_leaf toks =
  match toks with
  | ["checkedAdd"; x; y] -> pr (checkedAdd (z x) (z y))
  | ["checkedSub"; x; y] -> pr (checkedSub (z x) (z y))
  | ["inBetween"; a; x; b] -> pr (inBetween (z a) (z x) (z b))
  | ["align"; stop; n] -> pr (align (z stop) (z n))
  | ["tdist"; md; th; a; b] ->
    let md' = if Z.equal (z md) Z.zero then z "10000000" else z md in
    pr (getThreadDistance md' (z th) (z a) (z b))
  | ["ideal"; md; nt; a; b] ->
    let thr = if Z.equal (z md) Z.zero then threshold (z "10000000") (z b) else z md in
    pr (idealNumThreads thr (z nt) (z a) (z b))
  | ["is_prime"; x] -> if is_prime (z x) then "1" else "0"
  | ["mr"; x] -> if mr (z x) then "1" else "0"
  | _ -> "?"

let read_block () =
  let rec go acc = match input_line stdin with
    | "END" -> List.rev acc
    | l -> go (l :: acc)
    | exception End_of_file -> List.rev acc in
  go []

let () =
  (try while true do
    let line = String.trim (input_line stdin) in
    if line <> "" then begin
      match String.split_on_char ' ' line with
      | "ITER" :: args -> let ls = read_block () in run_iter args ls; print_endline "END"
      | "LEAF" :: toks -> print_endline (run_leaf toks)
      | ["PLAN"; a; b; nt; md] ->
        (* hook distance md (0 = production constants): minDist = md, threshold = md *)
        let md' = if Z.equal (z md) Z.zero then z "10000000" else z md in
        let thr = if Z.equal (z md) Z.zero then threshold md' (z b) else z md in
        (match plan md' thr (z nt) (z a) (z b) with
         | None -> print_endline "single"
         | Some ps -> print_endline ("pieces" ^ String.concat "" (List.map (fun (s, e) -> " " ^ pr s ^ " " ^ pr e) ps)))
      | _ -> print_endline "?"
    end
  done with End_of_file -> ());
  Printf.eprintf "kernel_calls=%d verified=%d\n" !kernel_calls !kernel_verified

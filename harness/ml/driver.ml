(* Driver for the extracted model (model.ml): reads one command per line on
   stdin and prints one result per line.  Everything that computes a result
   is extracted code; this file only parses, chooses the oracle parameters
   of the model and prints.

   Kernel oracle: for intervals below 100_000 the extracted, verified
   [primes_between] is used; above, a deterministic Miller-Rabin (unverified,
   part of the trusted base of the correspondence only). *)
module Zr = Z   (* zarith; the extracted code defines its own module Z *)
open Model

let z = Zr.of_string
let pr = Zr.to_string

(* ---------- Miller-Rabin for n < 2^64 (bases 2..37 are sufficient) ---------- *)
let small = List.map Zr.of_int [2;3;5;7;11;13;17;19;23;29;31;37]
let mr n =
  if Zr.lt n (Zr.of_int 2) then false
  else if List.exists (fun p -> Zr.equal n p) small then true
  else if List.exists (fun p -> Zr.equal (Zr.rem n p) Zr.zero) small then false
  else begin
    let n1 = Zr.pred n in
    let r = ref 0 and d = ref n1 in
    while Zr.equal (Zr.rem !d (Zr.of_int 2)) Zr.zero do d := Zr.div !d (Zr.of_int 2); incr r done;
    List.for_all (fun a ->
      let x = ref (Zr.powm a !d n) in
      if Zr.equal !x Zr.one || Zr.equal !x n1 then true
      else begin
        let ok = ref false in
        (try for _ = 1 to !r - 1 do
           x := Zr.rem (Zr.mul !x !x) n;
           if Zr.equal !x n1 then (ok := true; raise Exit)
         done with Exit -> ());
        !ok
      end) small
  end

let limit_verified = Zr.of_int 100_000
let kernel_calls = ref 0 and kernel_verified = ref 0
let erat a b =
  incr kernel_calls;
  if Zr.leq b limit_verified then (incr kernel_verified; primes_between a b)
  else begin
    let acc = ref [] in
    let x = ref b in
    while Zr.geq !x a do
      if mr !x then acc := !x :: !acc;
      x := Zr.pred !x
    done;
    !acc
  end

(* the iterator's kernel is the PrimeGenerator model (cached-prime tables from the source + sieve oracle) *)
let kernel a b = pg_primes erat a b

let rec nat_of_int n = if n <= 0 then O else S (nat_of_int (n - 1))
let rec int_of_nat = function O -> 0 | S n -> 1 + int_of_nat n
let fuel = nat_of_int 20000

(* ---------- iterator histories ---------- *)
(* oracle parameters (a, b, c, d, g, k): nextDist s _ = a + s mod b; prevDist s _ = c + s mod d;
   maxGap _ = g; blocks of k+1 primes.  Any choice must give the same values (theorem). *)
let run_iter args lines =
  let a, b, c, d, g, k = match args with
    | [a;b;c;d;g;k] -> z a, z b, z c, z d, z g, int_of_string k
    | _ -> failwith "ITER args" in
  let nextDist s _ = Zr.add a (Zr.rem s b) in
  let prevDist s _ = Zr.add c (Zr.rem s d) in
  let maxGap _ = g in
  let cut = chunks (nat_of_int k) in
  let it = ref (fresh_iter Zr.zero mAX64) in
  let first = ref true in
  List.iter (fun line ->
    let toks = String.split_on_char ' ' (String.trim line) in
    let op = match toks with
      | ["N"] -> Some Next | ["P"] -> Some Prev
      | ["J"; s; h] -> Some (JumpTo (z s, z h))
      | ["S"; s; h] -> Some (Skipto (z s, z h))
      | ["C"] -> Some Clear
      | ["M"] -> Some MoveRoundTrip
      | ["F"] -> Some MovedFrom
      | ["NEW"; s; h] -> it := fresh_iter (z s) (z h); None
      | ["SS"; _] -> None
      | _ -> failwith ("bad op: " ^ line) in
    ignore first;
    match op with
    | None -> print_endline "-"
    | Some o ->
      (match step nextDist prevDist maxGap kernel cut fuel !it o with
       | Done (it', r) ->
         it := it';
         (match r with
          | Val v -> print_endline ("v " ^ pr v)
          | Err -> print_endline "err"
          | NoOut -> print_endline "-")
       | Thrown _ -> print_endline "thrown"
       | OutOfFuel -> print_endline "outoffuel")) lines

(* ---------- unit-level leaves ---------- *)
let run_leaf toks =
  match toks with
  | ["checkedAdd"; x; y] -> pr (checkedAdd (z x) (z y))
  | ["checkedSub"; x; y] -> pr (checkedSub (z x) (z y))
  | ["inBetween"; a; x; b] -> pr (inBetween (z a) (z x) (z b))
  | ["align"; stop; n] -> pr (align (z stop) (z n))
  | ["tdist"; md; th; a; b] ->
    let md' = if Zr.equal (z md) Zr.zero then z "10000000" else z md in
    pr (getThreadDistance md' (z th) (z a) (z b))
  | ["ideal"; md; nt; a; b] ->
    let thr = if Zr.equal (z md) Zr.zero then threshold (z "10000000") (z b) else z md in
    pr (idealNumThreads thr (z nt) (z a) (z b))
  | ["asp30"; stop; p; low] -> (match addSievingPrime30 (z stop) (z p) (z low) with Some (m, w) -> pr m ^ " " ^ pr w | None -> "none")
  | ["asp210"; stop; p; low] -> (match addSievingPrime210 (z stop) (z p) (z low) with Some (m, w) -> pr m ^ " " ^ pr w | None -> "none")
  | ["geom"; l1; kb; a; b] -> let g = initAlgorithms (z l1) (z kb) (z a) (z b) in
      pr g.a_segLow ^ " " ^ pr g.a_segHigh ^ " " ^ pr g.a_sieveSize ^ " " ^ pr g.a_maxSmall ^ " " ^ pr g.a_maxMedium
  | ["segs"; l1; kb; a; b] ->
      (match segments (nat_of_int 5001) (z l1) (z kb) (z a) (z b) with
       | None -> "fuel"
       | Some l -> let n = List.length l in
         String.concat "" (List.mapi (fun i sg -> if i < 40 then pr sg.s_low ^ " " ^ pr sg.s_high ^ " " ^ pr sg.s_bytes ^ " | " else "") l) ^ "n=" ^ string_of_int n)
  | ["xoff"; size; l1; prime; mi; wi] ->
      (* the model of EratSmall::crossOff for one sieving prime on an all-ones sieve: bytes that change, then the stored state *)
      let sz = Zr.to_int (z size) in
      (match cross_small (nat_of_int (sz + 2)) (nat_of_int (2 * sz + 10)) (z l1) (z size) Zr.zero (Zr.div (z prime) (Zr.of_int 30)) (z mi) (z wi) with
       | None -> "fuel"
       | Some ((cl, i), w) ->
         (* byte values through the model's byte_val (AND of the unset masks of a byte); only the touched bytes are printed *)
         let keys = List.sort_uniq compare (List.map (fun (b, _) -> Zr.to_int b) cl) in
         (* byte_val scans the whole list: group the pairs by byte first to keep this linear *)
         let tbl = Hashtbl.create 64 in
         List.iter (fun (b, m) -> let k = Zr.to_int b in Hashtbl.replace tbl k ((b, m) :: (try Hashtbl.find tbl k with Not_found -> []))) cl;
         String.concat "" (List.map (fun k -> string_of_int k ^ ":" ^ pr (byte_val (Hashtbl.find tbl k) (Zr.of_int k)) ^ " ") keys) ^ "| " ^ pr i ^ " " ^ pr w)
  | "ebig" :: log2 :: nseg :: rest ->
      (* the model of EratBig (bucket lists, wheel 210): per segment the changed bytes, then the bucket lists *)
      let rec triples = function p :: i :: w :: r -> ((z p, z i), z w) :: triples r | _ -> [] in
      let lg = z log2 in
      let size = 1 lsl (Zr.to_int lg) in
      (match eb_store_all lg [] (triples rest) with
       | None -> "oob-store"
       | Some b ->
         (match eb_run (nat_of_int (int_of_string nseg)) (nat_of_int ((List.length rest / 3 + 1) * (size + 2) + 100)) lg b with
          | None -> "oob-or-fuel"
          | Some (cls, b') ->
            let seg cl =
              let tbl = Hashtbl.create 64 in
              List.iter (fun (bb, m) -> let k = Zr.to_int bb in Hashtbl.replace tbl k ((bb, m) :: (try Hashtbl.find tbl k with Not_found -> []))) cl;
              let keys = List.sort_uniq compare (List.map (fun (bb, _) -> Zr.to_int bb) cl) in
              String.concat "" (List.map (fun k -> string_of_int k ^ ":" ^ pr (byte_val (Hashtbl.find tbl k) (Zr.of_int k)) ^ " ") keys) ^ "| " in
            let lists = List.mapi (fun k l ->
                if l = [] then "" else
                  let es = List.sort compare (List.map (fun ((sp, i), w) -> (Zr.to_int sp, Zr.to_int i, Zr.to_int w)) l) in
                  " " ^ string_of_int k ^ ":" ^ String.concat ";" (List.map (fun (a, b, c) -> Printf.sprintf "%d,%d,%d" a b c) es)) b' in
            String.concat "" (List.map seg cls) ^ "size=" ^ string_of_int (List.length b') ^ String.concat "" lists))
  | "emed" :: size :: nseg :: rest ->
      (* the model of EratMedium (64 bucket lists, one per wheel index): per segment the changed bytes, then the lists *)
      let rec triples = function p :: i :: w :: r -> ((z p, z i), z w) :: triples r | _ -> [] in
      let sz = Zr.to_int (z size) in
      (match em_store_all [] (triples rest) with
       | None -> "oob-store"
       | Some b ->
         (match em_run (nat_of_int (int_of_string nseg)) (nat_of_int (2 * sz + 10)) (z size) b with
          | None -> "oob-or-fuel"
          | Some (cls, b') ->
            let seg cl =
              let tbl = Hashtbl.create 64 in
              List.iter (fun (bb, m) -> let k = Zr.to_int bb in Hashtbl.replace tbl k ((bb, m) :: (try Hashtbl.find tbl k with Not_found -> []))) cl;
              let keys = List.sort_uniq compare (List.map (fun (bb, _) -> Zr.to_int bb) cl) in
              String.concat "" (List.map (fun k -> string_of_int k ^ ":" ^ pr (byte_val (Hashtbl.find tbl k) (Zr.of_int k)) ^ " ") keys) ^ "| " in
            let lists = List.mapi (fun k l ->
                if l = [] then "" else
                  let es = List.sort compare (List.map (fun (sp, i) -> (Zr.to_int sp, Zr.to_int i, k)) l) in
                  " " ^ string_of_int k ^ ":" ^ String.concat ";" (List.map (fun (a, b, c) -> Printf.sprintf "%d,%d,%d" a b c) es)) b' in
            String.concat "" (List.map seg cls) ^ "size=" ^ string_of_int (List.length b') ^ String.concat "" lists))
  | ["kernel3"; l1; kb; a; b] ->
      (* the three-algorithm model kernel (Model/Erat3M.sieve_loop3: sieving primes >= 164 dispatched to EratSmall / EratMedium /
         EratBig by the thresholds of the geometry model, EratBig's log2 = ilog2 of the sieve size) on [a, b], a >= 7; the
         pre-sieve is applied here as its specification (prime, or > 163 without a prime factor in 7..163): count of the
         surviving numbers in [a, b], their sum mod 2^61-1, first, last, then how many sieving primes each algorithm got *)
      let stop = z b and start = z a in
      let g = initAlgorithms (z l1) (z kb) start stop in
      (match segments (nat_of_int 5001) (z l1) (z kb) start stop with
       | None -> "fuel"
       | Some segs ->
         let ks = List.map (fun sg -> { k_low = sg.s_low; k_size = sg.s_bytes; k_high = sg.s_high }) segs in
         let maxsize = List.fold_left (fun m sg -> max m (Zr.to_int sg.s_bytes)) 0 segs in
         let sq = Zr.sqrt stop in
         (* the sieving primes 164 <= p <= sqrt(stop) (the extracted primes_between is quadratic: a plain sieve here) *)
         let nsq = Zr.to_int sq in
         let comp = Bytes.make (nsq + 1) '\000' in
         let pend = ref [] in
         for i = 2 to nsq do
           if Bytes.get comp i = '\000' then begin
             if i >= 164 then pend := Zr.of_int i :: !pend;
             let j = ref (i * i) in while !j <= nsq do Bytes.set comp !j '\001'; j := !j + i done end
         done;
         let pend = List.rev !pend in
         let lg = Zr.of_int (Zr.numbits g.a_sieveSize - 1) in
         let nsmall = List.length (List.filter (fun p -> Zr.leq p g.a_maxSmall) pend) in
         let nmed = List.length (List.filter (fun p -> Zr.gt p g.a_maxSmall && Zr.leq p g.a_maxMedium) pend) in
         let nbig = List.length pend - nsmall - nmed in
         let full = 1 lsl (Zr.to_int lg) in
         (match sieve_loop3 (nat_of_int (2 * (max maxsize full) + 8 * List.length pend + 100)) stop g.a_maxSmall g.a_maxMedium lg ks pend e3_init with
          | None -> "oob-or-fuel"
          | Some res ->
            let cnt = ref 0 and sum = ref Zr.zero and first = ref Zr.zero and last = ref Zr.zero in
            let bvs = [| 7; 11; 13; 17; 19; 23; 29; 31 |] in
            let smallp = List.filter (fun p -> is_prime (Zr.of_int p)) [7; 11; 13; 17; 19; 23; 29; 31; 37; 41; 43; 47; 53; 59; 61; 67; 71; 73; 79; 83; 89; 97; 101; 103; 107; 109; 113; 127; 131; 137; 139; 149; 151; 157; 163] in
            let presieved n =
              if Zr.leq n (Zr.of_int 163) then List.mem (Zr.to_int n) smallp
              else List.for_all (fun p -> not (Zr.equal (Zr.rem n (Zr.of_int p)) Zr.zero)) smallp in
            List.iter (fun (sg, cleared) ->
              let tbl = Hashtbl.create 100000 in
              List.iter (fun (bb, m) -> let k = Zr.to_int bb in
                           let old = try Hashtbl.find tbl k with Not_found -> 255 in Hashtbl.replace tbl k (old land (Zr.to_int m))) cleared;
              for j = 0 to Zr.to_int sg.k_size - 1 do
                let byte = try Hashtbl.find tbl j with Not_found -> 255 in
                for k = 0 to 7 do
                  if byte land (1 lsl k) <> 0 then begin
                    let n = Zr.add sg.k_low (Zr.of_int (30 * j + bvs.(k))) in
                    if Zr.leq n sg.k_high && Zr.leq n stop && Zr.geq n start && presieved n then begin
                      incr cnt; sum := Zr.rem (Zr.add !sum n) (Zr.of_string "2305843009213693951");
                      if !cnt = 1 then first := n; last := n end end
                done
              done) res;
            string_of_int !cnt ^ " " ^ pr !sum ^ " " ^ pr !first ^ " " ^ pr !last ^ " segs=" ^ string_of_int (List.length segs)
            ^ " small=" ^ string_of_int nsmall ^ " medium=" ^ string_of_int nmed ^ " big=" ^ string_of_int nbig))
  | ["tiny"; stop] ->
      (* the model of SievingPrimes::tinySieve for an Erat with the given stop: SievingPrimes' own stop is isqrt(stop), the table
         has isqrt(isqrt(stop)) + 1 entries and is built iff 165^2 <= isqrt(stop) *)
      let st = Zr.sqrt (z stop) in
      if not (tiny_built (Zr.of_int 165) st) then "built=0 size=0 count=0 sum=0 last=0 |"
      else begin
        let n = Zr.sqrt st in
        let sv = Array.of_list (tiny_sieve n) in
        let cnt = ref 0 and sum = ref 0 and last = ref 0 and first = Buffer.create 64 in
        let i = ref 3 in
        while !i < Array.length sv do
          if sv.(!i) then begin incr cnt; sum := !sum + !i; last := !i; if !cnt <= 40 then Buffer.add_string first (" " ^ string_of_int !i) end;
          i := !i + 2
        done;
        Printf.sprintf "built=1 size=%d count=%d sum=%d last=%d |%s" (Array.length sv) !cnt !sum !last (Buffer.contents first)
      end
  | ["kernel"; l1; kb; a; b] ->
      (* the model kernel (segments of the geometry model, addSievingPrime, EratSmall cross-off over the extracted step table)
         on [a, b], a >= 7: number of surviving numbers in [a, b], their sum mod 2^61-1 and the first / last one.
         Decoding of the cleared (byte, mask) pairs is done here with a hash table (the model's [surviving] is quadratic). *)
      let stop = z b and start = z a in
      (match segments (nat_of_int 5001) (z l1) (z kb) start stop with
       | None -> "fuel"
       | Some segs ->
         let ks = List.map (fun sg -> { k_low = sg.s_low; k_size = sg.s_bytes; k_high = sg.s_high }) segs in
         let maxsize = List.fold_left (fun m sg -> max m (Zr.to_int sg.s_bytes)) 0 segs in
         let sq = Zr.sqrt stop in
         let sp = List.filter (fun p -> Zr.geq p (Zr.of_int 7)) (primes_between (Zr.of_int 7) sq) in
         (match sieve_loop (nat_of_int (2 * maxsize + 10)) eratSmallSteps stop ks sp [] with
          | None -> "fuel2"
          | Some res ->
            let cnt = ref 0 and sum = ref Zr.zero and first = ref Zr.zero and last = ref Zr.zero in
            let bvs = [| 7; 11; 13; 17; 19; 23; 29; 31 |] in
            List.iter (fun (sg, cleared) ->
              let tbl = Hashtbl.create 100000 in
              List.iter (fun (bb, m) -> let k = Zr.to_int bb in
                           let old = try Hashtbl.find tbl k with Not_found -> 255 in Hashtbl.replace tbl k (old land (Zr.to_int m))) cleared;
              for j = 0 to Zr.to_int sg.k_size - 1 do
                let byte = try Hashtbl.find tbl j with Not_found -> 255 in
                for k = 0 to 7 do
                  if byte land (1 lsl k) <> 0 then begin
                    let n = Zr.add sg.k_low (Zr.of_int (30 * j + bvs.(k))) in
                    if Zr.leq n sg.k_high && Zr.leq n stop && Zr.geq n start then begin
                      incr cnt; sum := Zr.rem (Zr.add !sum n) (Zr.of_string "2305843009213693951");
                      if !cnt = 1 then first := n; last := n end end
                done
              done) res;
            string_of_int !cnt ^ " " ^ pr !sum ^ " " ^ pr !first ^ " " ^ pr !last ^ " segs=" ^ string_of_int (List.length segs)))
  | ["eratself"; l1; kb; a; b] ->
      (* the self-contained model kernel (produces its own sieving primes, decodes with the model's [surviving]): the whole list *)
      String.concat " " (List.map pr (erat_self (z l1) (z kb) (z a) (z b)))
  | ["decode"; bits; low] ->
      (* the decode loop over one 64-bit word, with both variants of nextPrime *)
      let a = String.concat " " (List.map pr (decode_word (nat_of_int 65) nextPrime_ctz (z bits) (z low))) in
      let b = String.concat " " (List.map pr (decode_word (nat_of_int 65) nextPrime_bruijn (z bits) (z low))) in
      if a = b then a else "VARIANTS-DIFFER " ^ a ^ " | " ^ b
  | ["kbytes"; l1; kb; a; b] ->
      (* the byte arrays of the model kernel (AND of the unset masks, end masks), all segments in order - small intervals only *)
      let stop = z b and start = z a in
      (match segments (nat_of_int 5001) (z l1) (z kb) start stop with
       | None -> "fuel"
       | Some segs ->
         let ks = List.map (fun sg -> { k_low = sg.s_low; k_size = sg.s_bytes; k_high = sg.s_high }) segs in
         let maxsize = List.fold_left (fun m sg -> max m (Zr.to_int sg.s_bytes)) 0 segs in
         let sp = primes_between (Zr.of_int 7) (Zr.sqrt stop) in
         (match sieve_loop (nat_of_int (2 * maxsize + 10)) eratSmallSteps stop ks sp [] with
          | None -> "fuel2"
          | Some res -> String.concat " " (List.map pr (run_bytes start stop res))))
  | ["kprint"; l1; kb; a; b] ->
      (* the whole pipeline of the model: segments, cross-off, byte arrays with end masks, zero padding, word-wise decoding
         (De Bruijn variant of nextPrime) - small intervals only *)
      let stop = z b and start = z a in
      (match segments (nat_of_int 5001) (z l1) (z kb) start stop with
       | None -> "fuel"
       | Some segs ->
         let ks = List.map (fun sg -> { k_low = sg.s_low; k_size = sg.s_bytes; k_high = sg.s_high }) segs in
         let maxsize = List.fold_left (fun m sg -> max m (Zr.to_int sg.s_bytes)) 0 segs in
         let sp = primes_between (Zr.of_int 7) (Zr.sqrt stop) in
         (match sieve_loop (nat_of_int (2 * maxsize + 10)) eratSmallSteps stop ks sp [] with
          | None -> "fuel2"
          | Some res ->
            let bytes = pad8 (run_bytes start stop res) in
            let low0 = (List.hd segs).s_low in
            String.concat " " (List.map pr (decode_array (nat_of_int (List.length bytes / 8)) nextPrime_bruijn bytes low0))))
  | ["gss"; user; l1; l2; l3; s1; s2; s3] -> pr (get_sieve_size (z user) { c_l1 = z l1; c_l2 = z l2; c_l3 = z l3; c_l1s = z s1; c_l2s = z s2; c_l3s = z s3 })
  | ["nbuf"; pcu; a; b] -> let (c, s) = next_buffer (z pcu) (z a) (z b) in pr c ^ " " ^ pr s
  | "vec" :: ops ->
      (* Vector.hpp growth: ops p | r<n> | z<n> | a<k> | c ; prints "size capacity" after every operation *)
      let op t = match t.[0] with
        | 'p' -> VPush | 'c' -> VClear
        | 'r' -> VReserve (z (String.sub t 1 (String.length t - 1)))
        | 'z' -> VResize (z (String.sub t 1 (String.length t - 1)))
        | _ -> VAppend (z (String.sub t 1 (String.length t - 1))) in
      let ops = List.map op ops in
      let rec prefixes acc = function [] -> [] | o :: r -> let a = acc @ [o] in a :: prefixes a r in
      String.concat " " (List.map (fun l -> let (s, c) = vec_run l in pr s ^ "," ^ pr c) (prefixes [] ops))
  | "pool" :: maxc :: ops ->
      (* MemoryPool.cpp bookkeeping: ops a0 | a1 (addBucket; the digit = std::align wasted a bucket, used only when it allocates) | f ;
         prints "nalloc,count,stock,inuse,total,peak" after every operation *)
      let op t = if t.[0] = 'f' then PFree else PAdd (String.length t > 1 && t.[1] = '1') in
      let st = ref pool_init in
      String.concat " " (List.map (fun t -> st := pool_step (z maxc) !st (op t);
        String.concat "," (List.map pr [ !st.nalloc; !st.count; !st.stock; !st.inuse; !st.total; !st.peak ])) ops)
  | ["is_prime"; x] -> if is_prime (z x) then "1" else "0"
  | ["mr"; x] -> if mr (z x) then "1" else "0"
  | _ -> "?"

(* CALC <type> <expression>: the checked algebra (= the code) and the exact algebra *)
let run_calc line =
  let n = String.length line in
  let i = try String.index_from line 5 ' ' with Not_found -> n in
  let ty = String.sub line 5 (i - 5) in
  let ex = if i >= n then "" else String.sub line (i + 1) (n - i - 1) in
  let t = match ty with "u64" -> ty_u64 | "i64" -> ty_i64 | _ -> ty_int in
  let chars = List.init (String.length ex) (fun k -> Zr.of_int (Char.code ex.[k])) in
  let show = function POk (v, _) -> "ok " ^ pr v | PErr _ -> "rej" in
  (* the exact algebra is only run on accepted inputs (unbounded powers of rejected inputs can be astronomically large) *)
  let c = eval (checked t) chars in
  (* the stdlib's Z.pow is linear in the exponent (1^(2^63) would not return): the exact algebra is evaluated only
     for inputs without a power/exponent operator; C16_checked_exact covers all inputs *)
  let has_pow = String.contains ex '^' || String.contains ex 'e' || String.contains ex 'E' ||
                (try ignore (Str.search_forward (Str.regexp_string "**") ex 0); true with Not_found -> false) in
  show c ^ " | exact " ^ (match c with POk _ when not has_pow -> show (eval (exact t) chars) | _ -> "-")

(* NTH n start bias: the model of nth_prime with the walks and the count supplied by the kernel oracle and
   estimate functions that are the exact answers shifted by <bias> percent (any function is allowed by the theorem) *)
let run_nth n start bias =
  let next_ge x = let x = ref x in while Zr.leq !x mAX64 && not (mr !x) do x := Zr.succ !x done; if Zr.leq !x mAX64 then Some !x else None in
  let prev_le x = let x = ref x in while Zr.geq !x (Zr.of_int 2) && not (mr !x) do x := Zr.pred !x done; if Zr.geq !x (Zr.of_int 2) then Some !x else None in
  let fwd s k = let rec go s k = match next_ge s with None -> None | Some p -> if Zr.equal k Zr.one then Some p else go (Zr.succ p) (Zr.pred k) in go s k in
  let bwd s k = let rec go s k = match prev_le s with None -> Zr.zero | Some p -> if Zr.equal k Zr.one then p else go (Zr.pred p) (Zr.pred k) in go s k in
  let cnt a b = let c = ref 0 and x = ref a in while Zr.leq !x b do (if mr !x then incr c); x := Zr.succ !x done; Zr.of_int !c in
  (* estimates (any functions are allowed by the theorem): the distance |n| * ln(start + |n|) to the target,
     scaled by (100 + bias) percent, so that the walk lands before or beyond the target *)
  let an = Zr.abs n in
  let d = Zr.of_float (Zr.to_float an *. (log (Zr.to_float start +. Zr.to_float an +. 3.0) +. 1.0)) in
  let d = Zr.div (Zr.mul d (Zr.of_int (100 + bias))) (Zr.of_int 100) in
  let pi_approx _ = Zr.zero in
  let nth_approx _ = if Zr.geq n Zr.zero then Zr.min mAX64 (Zr.add start d) else Zr.max Zr.zero (Zr.sub start d) in
  match nth_prime pi_approx nth_approx cnt fwd bwd n start with
  | NOk p -> "ok " ^ pr p
  | NThrow -> "err"

(* STOREP maxV start stop pre / STOREN maxV n start pre: the blocks of the iterator are supplied by the
   kernel oracle (all primes from start up to a bound safely beyond what the call can consume, or up to 2^64-1) *)
let primes_from start bound maxcount =
  let acc = ref [] and x = ref start and c = ref 0 in
  while Zr.leq !x bound && !c < maxcount do (if mr !x then (acc := !x :: !acc; incr c)); x := Zr.succ !x done;
  List.rev !acc
let show_sres = function
  | SOk v -> "ok" ^ String.concat "" (List.map (fun x -> " " ^ pr x) v)
  | SThrow v -> "err" ^ String.concat "" (List.map (fun x -> " " ^ pr x) v)
  | SCrash -> "crash"
let prefill n = List.init n (fun i -> Zr.of_int (i + 1))
let run_storep maxv start stop pre =
  let bound = Zr.min mAX64 (Zr.add (Zr.max start stop) (Zr.of_int 3000)) in
  let blocks = chunks (nat_of_int 6) (primes_from start bound max_int) in
  show_sres (store_primes maxv start stop blocks (prefill pre))
let run_storen maxv n start pre =
  let blocks = chunks (nat_of_int 6) (primes_from start mAX64 (n + 40)) in
  show_sres (store_n_primes maxv (nat_of_int n) blocks (prefill pre))

let read_block () =
  let rec go acc = match input_line stdin with
    | "END" -> List.rev acc
    | l -> go (l :: acc)
    | exception End_of_file -> List.rev acc in
  go []

let () =
  (try while true do
    let line = String.trim (input_line stdin) in
    if line <> "" then begin
      match String.split_on_char ' ' line with
      | "ITER" :: args -> let ls = read_block () in run_iter args ls; print_endline "END"
      | "CALC" :: _ -> print_endline (run_calc line)
      | ["STOREP"; mv; a; b; pre] -> print_endline (run_storep (z mv) (z a) (z b) (int_of_string pre))
      | ["STOREN"; mv; n; a; pre] -> print_endline (run_storen (z mv) (int_of_string n) (z a) (int_of_string pre))
      | ["NTH"; n; st; bias] -> print_endline (run_nth (z n) (z st) (int_of_string bias))
      | "LEAF" :: toks -> print_endline (run_leaf toks)
      | ["PLAN"; a; b; nt; md] ->
        (* hook distance md (0 = production constants): minDist = md, threshold = md *)
        let md' = if Zr.equal (z md) Zr.zero then z "10000000" else z md in
        let thr = if Zr.equal (z md) Zr.zero then threshold md' (z b) else z md in
        (match plan md' thr (z nt) (z a) (z b) with
         | None -> print_endline "single"
         | Some ps -> print_endline ("pieces" ^ String.concat "" (List.map (fun (s, e) -> " " ^ pr s ^ " " ^ pr e) ps)))
      | _ -> print_endline "?"
    end
  done with End_of_file -> ());
  Printf.eprintf "kernel_calls=%d verified=%d\n" !kernel_calls !kernel_verified

// C08 probe: what the library detected at start-up (with hook H2 the sysfs tree is read below
// $PRIMESIEVE_VERIF_SYSROOT) and what it computes with it.
//   prints: "l1 l2 l3 s1 s2 s3 cores get_sieve_size maxthreads count(1e6..2e6) nth(1000)"
#include <primesieve.hpp>
#include <primesieve/CpuInfo.hpp>
#include <primesieve/ParallelSieve.hpp>
#include <iostream>
int main(int argc, char** argv)
{
  using namespace primesieve;
  if (argc > 1) set_sieve_size(atoi(argv[1]));
  if (argc > 2) set_num_threads(atoi(argv[2]));
  const CpuInfo& c = cpuInfo;
  std::cout << c.l1CacheBytes() << " " << c.l2CacheBytes() << " " << c.l3CacheBytes() << " " << c.l1Sharing() << " " << c.l2Sharing() << " " << c.l3Sharing()
            << " " << c.logicalCpuCores() << " " << get_sieve_size() << " " << get_num_threads() << " " << ParallelSieve::getMaxThreads()
            << " " << count_primes(1000000, 2000000) << " " << nth_prime(1000, 7) << " " << count_twins(0, 30000000) << std::endl;
}

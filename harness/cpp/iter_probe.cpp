// Executes iterator histories on the real primesieve::iterator (C++) or
// primesieve_iterator (C) and prints one line per executed operation:
//   "<op> | v <value>"  |  "<op> | err"  |  "<op> | -"
// Macro operations NE k / PE k ("next/prev until the buffer edge") are
// expanded into the N / P operations actually executed, so that the printed
// history can be fed unchanged to the model.
#include <primesieve.hpp>
#include <primesieve.h>
#include "common.hpp"
#include <cerrno>
#include <memory>
#include <vector>

struct Cpp {
  std::unique_ptr<primesieve::iterator> it{new primesieve::iterator()};
  bool dead = false;
  void fresh(uint64_t s, uint64_t h) { it.reset(new primesieve::iterator(s, h)); }
  std::string next() { try { return "v " + std::to_string(it->next_prime()); } catch (const std::exception&) { return "err"; } }
  std::string prev() { try { return "v " + std::to_string(it->prev_prime()); } catch (const std::exception&) { return "err"; } }
  void jump(uint64_t s, uint64_t h) { it->jump_to(s, h); }
  bool skipto(uint64_t, uint64_t) { return false; }
  void clear() { it->clear(); }
  void roundtrip(int kind) {
    if (kind == 0) { primesieve::iterator tmp(std::move(*it)); *it = std::move(tmp); }
    else if (kind == 1) { primesieve::iterator tmp; tmp = std::move(*it); primesieve::iterator tmp2(std::move(tmp)); *it = std::move(tmp2); }
    else { primesieve::iterator& r = *it; *it = std::move(r); }   // self move assignment
  }
  void movedfrom() { primesieve::iterator tmp(std::move(*it)); (void) tmp; }
  size_t i() { return it->i_; } size_t size() { return it->size_; }
  std::string block(bool fwd) {
    try { if (fwd) it->generate_next_primes(); else it->generate_prev_primes(); } catch (const std::exception&) { return "err"; }
    std::string r = "b"; for (size_t k = 0; k < it->size_; k++) r += " " + std::to_string(it->primes_[k]); return r;
  }
};

struct C {
  primesieve_iterator it; bool dead = false;
  C() { primesieve_init(&it); }
  ~C() { primesieve_free_iterator(&it); }
  void fresh(uint64_t s, uint64_t h) { primesieve_free_iterator(&it); primesieve_init(&it); primesieve_jump_to(&it, s, h); }
  std::string next() { uint64_t v = primesieve_next_prime(&it); if (it.is_error) { dead = true; return "err"; } return "v " + std::to_string(v); }
  std::string prev() { uint64_t v = primesieve_prev_prime(&it); if (it.is_error) { dead = true; return "err"; } return "v " + std::to_string(v); }
  void jump(uint64_t s, uint64_t h) { primesieve_jump_to(&it, s, h); }
  bool skipto(uint64_t s, uint64_t h) { primesieve_skipto(&it, s, h); return true; }
  void clear() { primesieve_clear(&it); }
  void roundtrip(int) { }
  void movedfrom() { primesieve_free_iterator(&it); primesieve_init(&it); }
  size_t i() { return it.i; } size_t size() { return it.size; }
  std::string block(bool fwd) {
    if (fwd) primesieve_generate_next_primes(&it); else primesieve_generate_prev_primes(&it);
    if (it.is_error) { dead = true; return "err"; }
    std::string r = "b"; for (size_t k = 0; k < it.size; k++) r += " " + std::to_string(it.primes[k]); return r;
  }
};

template <class B> void run_history()
{
  B b; std::string line;
  while (std::getline(std::cin, line)) {
    auto t = split(line);
    if (t.empty()) continue;
    if (t[0] == "END") break;
    if (b.dead) continue;            // C binding: history ends at the first error (error state: C11)
    if (t[0] == "N") { std::string r = b.next(); std::cout << "N | " << r << " # " << b.i() << " " << b.size() << std::endl; }
    else if (t[0] == "P") { std::string r = b.prev(); std::cout << "P | " << r << " # " << b.i() << " " << b.size() << std::endl; }
    else if (t[0] == "NE") {         // next until i == size-1 (at most k times), at least once
      uint64_t k = u64(t[1]);
      for (uint64_t n = 0; n < k && !b.dead; n++) { std::string r = b.next(); std::cout << "N | " << r << " # " << b.i() << " " << b.size() << std::endl; if (r == "err" || b.i() + 1 >= b.size()) break; }
    }
    else if (t[0] == "PE") {
      uint64_t k = u64(t[1]);
      for (uint64_t n = 0; n < k && !b.dead; n++) { std::string r = b.prev(); std::cout << "P | " << r << " # " << b.i() << " " << b.size() << std::endl; if (r == "err" || b.i() == 0) break; }
    }
    else if (t[0] == "J") { b.jump(u64(t[1]), u64(t[2])); std::cout << line << " | -" << std::endl; }
    else if (t[0] == "S") { if (b.skipto(u64(t[1]), u64(t[2]))) std::cout << line << " | -" << std::endl; }
    else if (t[0] == "C") { b.clear(); std::cout << "C | -" << std::endl; }
    else if (t[0] == "M") { b.roundtrip(t.size() > 1 ? atoi(t[1].c_str()) : 0); std::cout << "M | -" << std::endl; }
    else if (t[0] == "F") { b.movedfrom(); std::cout << "F | -" << std::endl; }
    else if (t[0] == "GN") std::cout << "GN | " << b.block(true) << std::endl;
    else if (t[0] == "GP") std::cout << "GP | " << b.block(false) << std::endl;
    else if (t[0] == "SS") { primesieve_set_sieve_size(atoi(t[1].c_str())); std::cout << line << " | -" << std::endl; }
    else if (t[0] == "NEW") { b.fresh(u64(t[1]), u64(t[2])); std::cout << line << " | -" << std::endl; }
  }
  std::cout << "END" << std::endl;
}

// MULTI k: k independent C++ (even index) / C (odd index) iterators driven by lines "<idx> <op...>"
static void run_multi(int k)
{
  std::vector<std::unique_ptr<Cpp>> cpp; std::vector<std::unique_ptr<C>> c;
  for (int i = 0; i < k; i++) { cpp.emplace_back(new Cpp()); c.emplace_back(new C()); }
  std::string line;
  while (std::getline(std::cin, line)) {
    auto t = split(line);
    if (t.empty()) continue;
    if (t[0] == "END") break;
    int idx = atoi(t[0].c_str()); std::string r;
    bool isc = idx % 2 == 1;
    if (t[1] == "N") r = isc ? c[idx]->next() : cpp[idx]->next();
    else if (t[1] == "P") r = isc ? c[idx]->prev() : cpp[idx]->prev();
    else if (t[1] == "J") { if (isc) c[idx]->jump(u64(t[2]), u64(t[3])); else cpp[idx]->jump(u64(t[2]), u64(t[3])); r = "-"; }
    else if (t[1] == "C") { if (isc) c[idx]->clear(); else cpp[idx]->clear(); r = "-"; }
    else if (t[1] == "NEW") { if (isc) c[idx]->fresh(u64(t[2]), u64(t[3])); else cpp[idx]->fresh(u64(t[2]), u64(t[3])); r = "-"; }
    else r = "?";
    std::cout << idx << " | " << r << std::endl;
  }
  std::cout << "END" << std::endl;
}

int main()
{
  std::string line;
  while (std::getline(std::cin, line)) {
    auto t = split(line);
    if (t.empty()) continue;
    if (t[0] == "MULTI") { std::cout << line << std::endl; run_multi(atoi(t[1].c_str())); continue; }
    if (t[0] == "ITER") {
      std::cout << line << std::endl;
      if (t[1] == "cpp") run_history<Cpp>(); else run_history<C>();
    }
  }
  return 0;
}

// shared helpers for the probes
#pragma once
#include <stdint.h>
#include <string>
#include <vector>
#include <sstream>
#include <iostream>
#include <cstdlib>

static inline std::vector<std::string> split(const std::string& s)
{
  std::vector<std::string> v; std::istringstream is(s); std::string t;
  while (is >> t) v.push_back(t);
  return v;
}
static inline uint64_t u64(const std::string& s) { return strtoull(s.c_str(), nullptr, 10); }

// C14 probe: API calls from several user threads at once vs. the same calls run alone.
// input: task lines  "COUNT k a b" | "NTH n start" | "ITERSUM start n" | "GEN a b"   then "RUN m rounds"
// output: one line per task and round: "ok" or "MISMATCH task=<i> solo=<v> concurrent=<v>"
#include <primesieve.hpp>
#include <primesieve.h>
#include "common.hpp"
#include <thread>
#include <atomic>
#include <functional>

typedef uint64_t (*cntfn)(uint64_t, uint64_t);
static uint64_t run_task(const std::vector<std::string>& t)
{
  try {
    if (t[0] == "COUNT") { static cntfn f[6] = { primesieve::count_primes, primesieve::count_twins, primesieve::count_triplets, primesieve::count_quadruplets, primesieve::count_quintuplets, primesieve::count_sextuplets }; return f[atoi(t[1].c_str()) - 1](u64(t[2]), u64(t[3])); }
    if (t[0] == "NTH") return primesieve::nth_prime(strtoll(t[1].c_str(), 0, 10), u64(t[2]));
    if (t[0] == "ITERSUM") { primesieve::iterator it(u64(t[1])); uint64_t s = 0, n = u64(t[2]); for (uint64_t i = 0; i < n; i++) s += it.next_prime() * (i + 1); for (uint64_t i = 0; i < n / 2; i++) s ^= it.prev_prime(); return s; }
    if (t[0] == "GEN") { std::vector<uint64_t> v; primesieve::generate_primes(u64(t[1]), u64(t[2]), &v); uint64_t s = v.size(); for (auto x : v) s = s * 31 + x; return s; }
  } catch (const std::exception&) { return 0xDEADull; }
  return 0;
}

int main()
{
  std::vector<std::vector<std::string>> tasks; std::string line;
  while (std::getline(std::cin, line)) {
    auto t = split(line);
    if (t.empty()) continue;
    if (t[0] == "RUN") {
      int m = atoi(t[1].c_str()), rounds = atoi(t[2].c_str());
      std::vector<uint64_t> solo(tasks.size());
      for (size_t i = 0; i < tasks.size(); i++) { solo[i] = run_task(tasks[i]); std::cout << "SOLO " << i << " " << solo[i] << std::endl; }
      long bad = 0;
      for (int r = 0; r < rounds; r++) {
        std::vector<uint64_t> conc(tasks.size()); std::atomic<size_t> next(0); std::vector<std::thread> th;
        for (int k = 0; k < m; k++) th.emplace_back([&]() { size_t i; while ((i = next.fetch_add(1)) < tasks.size()) conc[i] = run_task(tasks[(i + r) % tasks.size()]); });
        for (auto& x : th) x.join();
        for (size_t i = 0; i < tasks.size(); i++) { size_t j = (i + r) % tasks.size(); if (conc[i] != solo[j]) { bad++; std::cout << "MISMATCH task=" << j << " solo=" << solo[j] << " concurrent=" << conc[i] << std::endl; } }
      }
      std::cout << "DONE tasks=" << tasks.size() << " threads=" << m << " rounds=" << rounds << " mismatches=" << bad << std::endl;
      tasks.clear();
    } else tasks.push_back(t);
  }
}

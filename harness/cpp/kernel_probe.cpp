// Kernel boundary probe: the segment geometry Erat::init computes for (start, stop, sieve size KiB)
//   GEOM start stop kb  -> "low high bytes maxSmall maxMedium"   (start >= 7)
//   BYTES start stop kb -> the final sieve bytes of every segment of a real Erat run
//   DECODE bits low -> the numbers Erat::nextPrime yields for the set bits of a 64-bit word
//   XOFF size l1 prime mi wi -> the bytes EratSmall::crossOff changes for one sieving prime, and its stored state
//   EBIG log2 nseg (prime mi wi)* -> the bytes EratBig::crossOff changes per segment and the bucket lists afterwards
//   EMED size nseg (prime mi wi)* -> the same for EratMedium (64 lists, one per wheel index)
//   TINY stop -> SievingPrimes::tinySieve_ of a SievingPrimes object made for an Erat with that stop
#include <stdint.h>
#include <cstddef>
#include <string>
#include <algorithm>
#include <vector>
#define private public
#define protected public
#include <primesieve/Erat.hpp>
#include <primesieve/MemoryPool.hpp>
#include <primesieve/config.hpp>
#include <primesieve/Bucket.hpp>
#include <primesieve/IteratorHelper.hpp>
#include <primesieve/PrimeGenerator.hpp>
#include <primesieve/iterator.hpp>
#include <primesieve/pmath.hpp>
#include <primesieve/PreSieve.hpp>
#include <primesieve/SievingPrimes.hpp>
#undef private
#undef protected
#include "common.hpp"
#include <primesieve.hpp>

#include <primesieve/Wheel.hpp>
template <class W> struct Rec : W {
  bool stored = false; uint64_t mi = 0, wi = 0;
  void storeSievingPrime(uint64_t, uint64_t m, uint64_t w) override { stored = true; mi = m; wi = w; }
};

int main()
{
  using namespace primesieve;
  std::string line;
  while (std::getline(std::cin, line)) {
    auto t = split(line);
    if (t.size() >= 4 && t[0] == "GEOM") {
      MemoryPool pool;
      Erat e;
      e.init(u64(t[1]), u64(t[2]), u64(t[3]), pool);
      std::cout << e.segmentLow_ << " " << e.segmentHigh_ << " " << e.sieve_.size() << " " << e.maxEratSmall_ << " " << e.maxEratMedium_ << " " << Erat::getL1CacheSize() << std::endl;
    } else if (t.size() >= 4 && t[0] == "SEGS") {
      // the segments Erat sieves for (start, stop, sieve size): "low high bytes | low high bytes | ..." (at most 40 printed,
      // then the total number); no sieving primes are added, so this is cheap at every magnitude
      MemoryPool pool; Erat e; e.init(u64(t[1]), u64(t[2]), u64(t[3]), pool);
      uint64_t n = 0; std::string out;
      while (e.hasNextSegment() && n < 5000) {
        uint64_t low = e.segmentLow_, high = e.segmentHigh_;
        e.sieveSegment();
        if (n < 40) out += std::to_string(low) + " " + std::to_string(high) + " " + std::to_string(e.sieve_.size()) + " | ";
        n++;
      }
      std::cout << out << "n=" << n << std::endl;
    } else if (t.size() >= 4 && (t[0] == "ASP30" || t[0] == "ASP210")) {
      // Wheel::addSievingPrime unit level: "<multipleIndex> <wheelIndex>" | "none"
      if (t[0] == "ASP30") { Rec<Wheel30_t> w; w.stop_ = u64(t[1]); w.addSievingPrime(u64(t[2]), u64(t[3])); if (w.stored) std::cout << w.mi << " " << w.wi << std::endl; else std::cout << "none" << std::endl; }
      else { Rec<Wheel210_t> w; w.stop_ = u64(t[1]); w.addSievingPrime(u64(t[2]), u64(t[3])); if (w.stored) std::cout << w.mi << " " << w.wi << std::endl; else std::cout << "none" << std::endl; }
    } else if (t.size() >= 4 && t[0] == "BYTES") {
      // BYTES start stop kb: the real Erat run segment by segment as PrimeGenerator drives it (sieving primes > 163 added when
      // prime <= isqrt(segmentHigh)); prints the final bytes of every segment (after preSieve, crossOff and the end masks)
      uint64_t start = u64(t[1]), stop = u64(t[2]);
      std::vector<uint64_t> sp; primesieve::generate_primes(isqrt(stop), &sp);
      MemoryPool pool; Erat e; e.init(start, stop, u64(t[3]), pool);
      std::size_t idx = 0; while (idx < sp.size() && sp[idx] <= PreSieve::getMaxPrime()) idx++;
      std::string out;
      while (e.hasNextSegment()) {
        uint64_t sqrtHigh = isqrt(e.segmentHigh_);
        while (idx < sp.size() && sp[idx] <= sqrtHigh) e.addSievingPrime(sp[idx++]);
        e.sieveSegment();
        for (std::size_t i = 0; i < e.sieve_.size(); i++) out += std::to_string((unsigned) e.sieve_[i]) + " ";
      }
      if (!out.empty()) out.pop_back();
      std::cout << out << std::endl;
    } else if (t.size() >= 3 && t[0] == "DECODE") {
      // DECODE bits low: for (; bits != 0; bits &= bits - 1) print Erat::nextPrime(bits, low)
      uint64_t bits = u64(t[1]), low = u64(t[2]); std::string out;
      for (; bits != 0; bits &= bits - 1) out += std::to_string(Erat::nextPrime(bits, low)) + " ";
      if (!out.empty()) out.pop_back();
      std::cout << out << std::endl;
    } else if (t.size() >= 3 && t[0] == "PRESIEVE") {
      // PRESIEVE segmentLow size: the bytes of the sieve array after PreSieve::preSieve (capacity >= 8 as in Erat::init)
      std::size_t size = (std::size_t) u64(t[2]);
      Vector<uint8_t> sieve; sieve.reserve(std::max<std::size_t>(size, 16)); sieve.resize(size);
      for (std::size_t i = 0; i < size; i++) sieve[i] = 0;
      PreSieve::preSieve(sieve, u64(t[1]));
      std::string out;
      for (std::size_t i = 0; i < size; i++) out += std::to_string((unsigned) sieve[i]) + (i + 1 < size ? " " : "");
      std::cout << out << std::endl;
    } else if (t.size() >= 6 && t[0] == "XOFF") {
      // XOFF size l1 prime multipleIndex wheelIndex: the real EratSmall::crossOff on an all-ones sieve of `size` bytes with one
      // sieving prime in the given state: "byte:value ..." for every byte that changed, then "| multipleIndex wheelIndex"
      std::size_t size = (std::size_t) u64(t[1]); uint64_t prime = u64(t[3]);
      EratSmall es; es.init(~0ull, u64(t[2]), prime);
      es.storeSievingPrime(prime, u64(t[4]), u64(t[5]));
      Vector<uint8_t> sieve; sieve.resize(size); for (std::size_t i = 0; i < size; i++) sieve[i] = 0xff;
      es.crossOff(sieve);
      std::string out;
      for (std::size_t i = 0; i < size; i++) if (sieve[i] != 0xff) out += std::to_string(i) + ":" + std::to_string((unsigned) sieve[i]) + " ";
      std::cout << out << "| " << es.primes_[0].getMultipleIndex() << " " << es.primes_[0].getWheelIndex() << std::endl;
    } else if (t.size() >= 3 && t[0] == "EBIG") {
      // EBIG log2 nseg (prime multipleIndex wheelIndex)*: the real EratBig on all-ones sieves of 2^log2 bytes: the given states are
      // stored with storeSievingPrime, then nseg segments are crossed off.  Output: per segment "byte:value ... |", then
      // "size=<buckets_.size()>" and every non-empty bucket list "k:sp,i,w;sp,i,w" (entries sorted)
      std::size_t log2 = (std::size_t) u64(t[1]); std::size_t size = (std::size_t) 1 << log2; uint64_t nseg = u64(t[2]);
      uint64_t maxp = 0; for (std::size_t k = 3; k + 2 < t.size(); k += 3) maxp = std::max(maxp, u64(t[k]));
      MemoryPool pool; EratBig eb; eb.init(~0ull, size, maxp, pool);
      for (std::size_t k = 3; k + 2 < t.size(); k += 3) eb.storeSievingPrime(u64(t[k]), u64(t[k + 1]), u64(t[k + 2]));
      std::string out;
      Vector<uint8_t> sieve; sieve.resize(size);
      for (uint64_t sgi = 0; sgi < nseg; sgi++) {
        for (std::size_t i = 0; i < size; i++) sieve[i] = 0xff;
        eb.crossOff(sieve);
        for (std::size_t i = 0; i < size; i++) if (sieve[i] != 0xff) out += std::to_string(i) + ":" + std::to_string((unsigned) sieve[i]) + " ";
        out += "| ";
      }
      out += "size=" + std::to_string(eb.buckets_.size());
      for (std::size_t k = 0; k < eb.buckets_.size(); k++) {
        SievingPrime* endp = eb.buckets_[k];
        if (!endp) continue;
        std::vector<std::vector<uint64_t>> es;
        Bucket* b = Bucket::get(endp);
        bool first = true;
        while (b) {
          SievingPrime* e = first ? endp : b->end();
          for (SievingPrime* q = b->begin(); q != e; q++) es.push_back({ (uint64_t) q->getSievingPrime(), (uint64_t) q->getMultipleIndex(), (uint64_t) q->getWheelIndex() });
          first = false; b = b->next();
        }
        std::sort(es.begin(), es.end());
        if (es.empty()) continue;
        out += " " + std::to_string(k) + ":";
        for (std::size_t j = 0; j < es.size(); j++) out += (j ? ";" : "") + std::to_string(es[j][0]) + "," + std::to_string(es[j][1]) + "," + std::to_string(es[j][2]);
      }
      std::cout << out << std::endl;
    } else if (t.size() >= 3 && t[0] == "EMED") {
      // EMED size nseg (prime multipleIndex wheelIndex)*: the real EratMedium on all-ones sieves of `size` bytes.  Output: per
      // segment "byte:value ... |", then "size=<buckets_.size()>" and every non-empty list "k:sp,i,w;..." (w = the wheel index
      // stored in the entry, k = the list it is filed under; entries sorted)
      std::size_t size = (std::size_t) u64(t[1]); uint64_t nseg = u64(t[2]);
      uint64_t maxp = 0; for (std::size_t k = 3; k + 2 < t.size(); k += 3) maxp = std::max(maxp, u64(t[k]));
      MemoryPool pool; EratMedium em; em.init(~0ull, maxp, pool);
      for (std::size_t k = 3; k + 2 < t.size(); k += 3) em.storeSievingPrime(u64(t[k]), u64(t[k + 1]), u64(t[k + 2]));
      std::string out;
      Vector<uint8_t> sieve; sieve.resize(size);
      for (uint64_t sgi = 0; sgi < nseg; sgi++) {
        for (std::size_t i = 0; i < size; i++) sieve[i] = 0xff;
        em.crossOff(sieve);
        for (std::size_t i = 0; i < size; i++) if (sieve[i] != 0xff) out += std::to_string(i) + ":" + std::to_string((unsigned) sieve[i]) + " ";
        out += "| ";
      }
      out += "size=" + std::to_string(em.buckets_.size());
      for (std::size_t k = 0; k < em.buckets_.size(); k++) {
        SievingPrime* endp = em.buckets_[k];
        if (!endp) continue;
        std::vector<std::vector<uint64_t>> es;
        Bucket* b = Bucket::get(endp);
        bool first = true;
        while (b) {
          SievingPrime* e = first ? endp : b->end();
          for (SievingPrime* q = b->begin(); q != e; q++) es.push_back({ (uint64_t) q->getSievingPrime(), (uint64_t) q->getMultipleIndex(), (uint64_t) q->getWheelIndex() });
          first = false; b = b->next();
        }
        std::sort(es.begin(), es.end());
        if (es.empty()) continue;
        out += " " + std::to_string(k) + ":";
        for (std::size_t j = 0; j < es.size(); j++) out += (j ? ";" : "") + std::to_string(es[j][0]) + "," + std::to_string(es[j][1]) + "," + std::to_string(es[j][2]);
      }
      std::cout << out << std::endl;
    } else if (t.size() >= 2 && t[0] == "TINY") {
      // TINY stop: the tinySieve_ table of the SievingPrimes object belonging to an Erat with the given stop:
      // "built=<0|1> size=<entries> count=<odd i >= 3 with tinySieve_[i]> sum=<their sum> last=<the largest> | the first 40"
      Erat e(7, u64(t[1])); MemoryPool pool; SievingPrimes sp(&e, 16, pool);
      uint64_t cnt = 0, sum = 0, last = 0; std::string first;
      for (std::size_t i = 3; i < sp.tinySieve_.size(); i += 2) if (sp.tinySieve_[i]) { cnt++; sum += i; last = i; if (cnt <= 40) first += " " + std::to_string(i); }
      std::cout << "built=" << (sp.tinySieve_.size() ? 1 : 0) << " size=" << sp.tinySieve_.size() << " count=" << cnt << " sum=" << sum << " last=" << last << " |" << first << std::endl;
    } else if (t.size() >= 3 && t[0] == "NBUF") {
      // forward buffer after the first generate_next_primes() of iterator(start, hint):
      // "<buffer size (Vector::size)> <size_> <chunk stop> <primeCountUpper(start, stop)>"
      primesieve::iterator it(u64(t[1]), u64(t[2]));
      try { it.generate_next_primes(); } catch (const std::exception&) { std::cout << "exc" << std::endl; continue; }
      auto& d = *(IteratorData*) it.memory_;
      std::cout << d.primes.size() << " " << it.size_ << " " << d.stop << " " << primeCountUpper(it.start_, d.stop) << std::endl;
    } else if (t.size() >= 1 && t[0] == "VEC") {
      // Vector.hpp growth: ops p | r<n> | z<n> | a<k> | c ; prints "size,capacity" after every operation
      primesieve::Vector<uint64_t> v;
      static const uint64_t src[4096] = {};
      std::string out;
      for (std::size_t i = 1; i < t.size(); i++) {
        char c = t[i][0]; uint64_t n = t[i].size() > 1 ? u64(t[i].substr(1)) : 0;
        if (c == 'p') v.push_back(i); else if (c == 'c') v.clear();
        else if (c == 'r') v.reserve(n); else if (c == 'z') v.resize(n);
        else v.insert(v.end(), src, src + n);
        out += (i > 1 ? " " : "") + std::to_string(v.size()) + "," + std::to_string(v.capacity());
      }
      std::cout << out << std::endl;
    } else if (t.size() >= 1 && t[0] == "POOL") {
      // MemoryPool bookkeeping: ops a (addBucket to a fresh list) | f (freeBucket of the bucket held longest);
      // first token printed: MAX_ALLOC_BYTES / sizeof(Bucket); then per operation
      // "<a0|a1|f>:nalloc,count_,stock length" (a1 = this addBucket allocated and std::align wasted a bucket)
      MemoryPool pool; std::vector<Bucket*> held; std::size_t next = 0;
      std::string out = std::to_string(config::MAX_ALLOC_BYTES / sizeof(Bucket));
      for (std::size_t i = 1; i < t.size(); i++) {
        std::string tag = t[i];
        if (t[i][0] == 'a') {
          std::size_t before = pool.memory_.size();
          SievingPrime* sp = nullptr; pool.addBucket(sp); held.push_back(Bucket::get(sp + 1));
          bool waste = pool.memory_.size() != before && pool.memory_.back().size() / sizeof(Bucket) != pool.count_;
          tag = waste ? "a1" : "a0";
        } else if (next < held.size()) pool.freeBucket(held[next++]);
        std::size_t stock = 0; for (Bucket* b = pool.stock_; b; b = b->next()) stock++;
        out += " " + tag + ":" + std::to_string(pool.memory_.size()) + "," + std::to_string(pool.count_) + "," + std::to_string(stock);
      }
      std::cout << out << std::endl;
    } else std::cout << "?" << std::endl;
  }
}

// C06/C11 probe: generate_primes / generate_n_primes into vectors of all 8 element types (C++ templates)
// and through the C API (14 type codes).
//   GP <type> start stop <prefill count>   GN <type> n start <prefill count>
//   CGP <typecode> start stop              CGN <typecode> n start
// output: "ok <elements...>" | "err <elements kept...>" ; C: "ok n <elements>" | "null size=<s> errno=<0|EDOM|other>"
#include <primesieve.hpp>
#include <primesieve.h>
#include "common.hpp"
#include <cerrno>
#include <vector>
#include <deque>

template <class V> static void run_cpp(const std::vector<std::string>& t)
{
  std::vector<V> v; size_t pre = (size_t) u64(t[4]);
  for (size_t i = 0; i < pre; i++) v.push_back((V) (i + 1));
  bool ok = true;
  try { if (t[0] == "GP") primesieve::generate_primes(u64(t[2]), u64(t[3]), &v); else primesieve::generate_n_primes(u64(t[2]), u64(t[3]), &v); }
  catch (const primesieve::primesieve_error&) { ok = false; }
  catch (const std::exception&) { std::cout << "otherexc" << std::endl; return; }
  std::cout << (ok ? "ok" : "err");
  for (auto x : v) std::cout << " " << (std::is_signed<V>::value ? std::to_string((long long) x) : std::to_string((unsigned long long) x));
  std::cout << std::endl;
}

template <class V> static void dump(void* p, size_t n) { V* a = (V*) p; for (size_t i = 0; i < n; i++) std::cout << " " << (std::is_signed<V>::value ? std::to_string((long long) a[i]) : std::to_string((unsigned long long) a[i])); }

int main()
{
  std::string line;
  while (std::getline(std::cin, line)) {
    auto t = split(line);
    if (t.empty()) continue;
    if (t[0] == "GP" || t[0] == "GN") {
      const std::string& ty = t[1];
      if (ty == "i8") run_cpp<int8_t>(t); else if (ty == "u8") run_cpp<uint8_t>(t);
      else if (ty == "i16") run_cpp<int16_t>(t); else if (ty == "u16") run_cpp<uint16_t>(t);
      else if (ty == "i32") run_cpp<int32_t>(t); else if (ty == "u32") run_cpp<uint32_t>(t);
      else if (ty == "i64") run_cpp<int64_t>(t); else run_cpp<uint64_t>(t);
    }
    else if (t[0] == "CGP" || t[0] == "CGN") {
      int code = atoi(t[1].c_str()); size_t size = 12345; errno = 0;
      void* p = (t[0] == "CGP") ? primesieve_generate_primes(u64(t[2]), u64(t[3]), &size, code)
                                : primesieve_generate_n_primes(u64(t[2]), u64(t[3]), code);
      int e = errno;
      if (t[0] == "CGN" && p) size = (size_t) u64(t[2]);
      if (!p) { std::cout << "null size=" << (t[0] == "CGP" ? std::to_string(size) : "-") << " errno=" << (e == 0 ? "0" : e == EDOM ? "EDOM" : "other") << std::endl; continue; }
      std::cout << "ok " << size << " errno=" << (e == EDOM ? "EDOM" : "0");
      switch (code) {
        case SHORT_PRIMES: dump<short>(p, size); break; case USHORT_PRIMES: dump<unsigned short>(p, size); break;
        case INT_PRIMES: dump<int>(p, size); break; case UINT_PRIMES: dump<unsigned int>(p, size); break;
        case LONG_PRIMES: dump<long>(p, size); break; case ULONG_PRIMES: dump<unsigned long>(p, size); break;
        case LONGLONG_PRIMES: dump<long long>(p, size); break; case ULONGLONG_PRIMES: dump<unsigned long long>(p, size); break;
        case INT16_PRIMES: dump<int16_t>(p, size); break; case UINT16_PRIMES: dump<uint16_t>(p, size); break;
        case INT32_PRIMES: dump<int32_t>(p, size); break; case UINT32_PRIMES: dump<uint32_t>(p, size); break;
        case INT64_PRIMES: dump<int64_t>(p, size); break; case UINT64_PRIMES: dump<uint64_t>(p, size); break;
      }
      std::cout << std::endl;
      primesieve_free(p);
    }
  }
}

// General API probe (C++ and C bindings). One command per line, one result line per command.
//   NTH n start [threads]                 -> "cpp <v|err> c <v|err> errno=<0|EDOM|other>"
//   COUNT k start stop [threads] [ssize]  -> "cpp <v|err> c <v|err>"       k = 1..6
//   SS kb | NT threads                    -> settings
#include <primesieve.hpp>
#include <primesieve.h>
#include "common.hpp"
#include <cerrno>

static std::string cpp_nth(int64_t n, uint64_t s) { try { return std::to_string(primesieve::nth_prime(n, s)); } catch (const std::exception&) { return "err"; } }
static std::string c_nth(int64_t n, uint64_t s, int& e) { errno = 0; uint64_t v = primesieve_nth_prime(n, s); e = errno; return v == PRIMESIEVE_ERROR ? "err" : std::to_string(v); }
typedef uint64_t (*cntfn)(uint64_t, uint64_t);
static std::string cpp_count(int k, uint64_t a, uint64_t b) {
  static cntfn f[6] = { primesieve::count_primes, primesieve::count_twins, primesieve::count_triplets, primesieve::count_quadruplets, primesieve::count_quintuplets, primesieve::count_sextuplets };
  try { return std::to_string(f[k - 1](a, b)); } catch (const std::exception&) { return "err"; } }
static std::string c_count(int k, uint64_t a, uint64_t b) {
  static cntfn f[6] = { primesieve_count_primes, primesieve_count_twins, primesieve_count_triplets, primesieve_count_quadruplets, primesieve_count_quintuplets, primesieve_count_sextuplets };
  uint64_t v = f[k - 1](a, b); return v == PRIMESIEVE_ERROR ? "err" : std::to_string(v); }

int main()
{
  std::string line;
  while (std::getline(std::cin, line)) {
    auto t = split(line);
    if (t.empty()) continue;
    if (t[0] == "NTH") {
      int64_t n = strtoll(t[1].c_str(), nullptr, 10); uint64_t s = u64(t[2]);
      if (t.size() > 3) primesieve::set_num_threads(atoi(t[3].c_str()));
      int e = 0; std::string a = cpp_nth(n, s); std::string b = c_nth(n, s, e);
      std::cout << "cpp " << a << " c " << b << " errno=" << (e == 0 ? "0" : e == EDOM ? "EDOM" : "other") << std::endl;
    }
    else if (t[0] == "COUNT") {
      int k = atoi(t[1].c_str()); uint64_t a = u64(t[2]), b = u64(t[3]);
      if (t.size() > 4) primesieve::set_num_threads(atoi(t[4].c_str()));
      if (t.size() > 5) primesieve::set_sieve_size(atoi(t[5].c_str()));
      std::cout << "cpp " << cpp_count(k, a, b) << " c " << c_count(k, a, b) << std::endl;
    }
    else if (t[0] == "SS") { primesieve::set_sieve_size(atoi(t[1].c_str())); std::cout << "-" << std::endl; }
    else if (t[0] == "NT") { primesieve::set_num_threads(atoi(t[1].c_str())); std::cout << "-" << std::endl; }
    else std::cout << "?" << std::endl;
  }
}

// General API probe (C++ and C bindings). One command per line, one result line per command.
//   NTH n start [threads]                 -> "cpp <v|err> c <v|err> errno=<0|EDOM|other>"
//   COUNT k start stop [threads] [ssize]  -> "cpp <v|err> c <v|err>"       k = 1..6
//   SS kb | NT threads                    -> settings
#include <primesieve.hpp>
#include <primesieve.h>
#include "common.hpp"
#include <cerrno>
#include <vector>
#include <algorithm>

static std::string cpp_nth(int64_t n, uint64_t s) { try { return std::to_string(primesieve::nth_prime(n, s)); } catch (const std::exception&) { return "err"; } }
static std::string c_nth(int64_t n, uint64_t s, int& e) { errno = 0; uint64_t v = primesieve_nth_prime(n, s); e = errno; return v == PRIMESIEVE_ERROR ? "err" : std::to_string(v); }
typedef uint64_t (*cntfn)(uint64_t, uint64_t);
static std::string cpp_count(int k, uint64_t a, uint64_t b) {
  static cntfn f[6] = { primesieve::count_primes, primesieve::count_twins, primesieve::count_triplets, primesieve::count_quadruplets, primesieve::count_quintuplets, primesieve::count_sextuplets };
  try { return std::to_string(f[k - 1](a, b)); } catch (const std::exception&) { return "err"; } }
static std::string c_count(int k, uint64_t a, uint64_t b) {
  static cntfn f[6] = { primesieve_count_primes, primesieve_count_twins, primesieve_count_triplets, primesieve_count_quadruplets, primesieve_count_quintuplets, primesieve_count_sextuplets };
  uint64_t v = f[k - 1](a, b); return v == PRIMESIEVE_ERROR ? "err" : std::to_string(v); }

// independent oracle for the top of the range: deterministic Miller-Rabin (bases 2..37), unverified,
// used only to classify disagreements / as reference where a python sieve cannot reach
static uint64_t mulmod(uint64_t a, uint64_t b, uint64_t m) { return (uint64_t) ((unsigned __int128) a * b % m); }
static uint64_t powmod(uint64_t a, uint64_t e, uint64_t m) { uint64_t r = 1; a %= m; while (e) { if (e & 1) r = mulmod(r, a, m); a = mulmod(a, a, m); e >>= 1; } return r; }
static bool mr_prime(uint64_t n) {
  if (n < 2) return false;
  static const uint64_t bs[12] = {2,3,5,7,11,13,17,19,23,29,31,37};
  for (uint64_t p : bs) { if (n == p) return true; if (n % p == 0) return false; }
  uint64_t d = n - 1; int r = 0; while ((d & 1) == 0) { d >>= 1; r++; }
  for (uint64_t a : bs) { uint64_t x = powmod(a, d, n); if (x == 1 || x == n - 1) continue; bool ok = false;
    for (int i = 1; i < r; i++) { x = mulmod(x, x, n); if (x == n - 1) { ok = true; break; } } if (!ok) return false; }
  return true;
}

int main()
{
  std::string line;
  while (std::getline(std::cin, line)) {
    auto t = split(line);
    if (t.empty()) continue;
    if (t[0] == "NTH") {
      int64_t n = strtoll(t[1].c_str(), nullptr, 10); uint64_t s = u64(t[2]);
      if (t.size() > 3) primesieve::set_num_threads(atoi(t[3].c_str()));
      int e = 0; std::string a = cpp_nth(n, s); std::string b = c_nth(n, s, e);
      std::cout << "cpp " << a << " c " << b << " errno=" << (e == 0 ? "0" : e == EDOM ? "EDOM" : "other") << std::endl;
    }
    else if (t[0] == "COUNT") {
      int k = atoi(t[1].c_str()); uint64_t a = u64(t[2]), b = u64(t[3]);
      if (t.size() > 4) primesieve::set_num_threads(atoi(t[4].c_str()));
      if (t.size() > 5) primesieve::set_sieve_size(atoi(t[5].c_str()));
      std::cout << "cpp " << cpp_count(k, a, b) << " c " << c_count(k, a, b) << std::endl;
    }
    else if (t[0] == "PRINT") {      // PRINT binding k a b : library print functions write to stdout between markers
      int k = atoi(t[2].c_str()); uint64_t a = u64(t[3]), b = u64(t[4]);
      std::cout << "BEGIN" << std::endl;
      if (t[1] == "cpp") {
        typedef void (*pf)(uint64_t, uint64_t);
        static pf f[6] = { primesieve::print_primes, primesieve::print_twins, primesieve::print_triplets, primesieve::print_quadruplets, primesieve::print_quintuplets, primesieve::print_sextuplets };
        try { f[k - 1](a, b); } catch (const std::exception&) { std::cout << "EXC" << std::endl; }
      } else {
        typedef void (*pf)(uint64_t, uint64_t);
        static pf f[6] = { primesieve_print_primes, primesieve_print_twins, primesieve_print_triplets, primesieve_print_quadruplets, primesieve_print_quintuplets, primesieve_print_sextuplets };
        f[k - 1](a, b);
      }
      std::cout.flush(); fflush(stdout);
      std::cout << "END" << std::endl;
    }
    else if (t[0] == "MRCOUNT") {    // MRCOUNT a b: the six counts of [a, b] by Miller-Rabin (oracle)
      uint64_t a = u64(t[1]), b = u64(t[2]); std::vector<uint64_t> ps;
      for (uint64_t n = a; ; n++) { if (mr_prime(n)) ps.push_back(n); if (n == b) break; }
      auto has = [&](uint64_t v) { return v <= b && std::binary_search(ps.begin(), ps.end(), v); };
      static const std::vector<std::vector<std::vector<int>>> shapes = { {{0}}, {{0,2}}, {{0,2,6},{0,4,6}}, {{0,2,6,8}}, {{0,2,6,8,12},{0,4,6,10,12}}, {{0,4,6,10,12,16}} };
      for (int k = 0; k < 6; k++) { uint64_t c = 0; for (uint64_t p : ps) for (auto& sh : shapes[k]) { bool ok = true; for (int d : sh) if (p + d < p || !has(p + d)) ok = false; if (ok) c++; } std::cout << (k ? " " : "") << c; }
      std::cout << std::endl;
    }
    else if (t[0] == "SS") { primesieve::set_sieve_size(atoi(t[1].c_str())); std::cout << "-" << std::endl; }
    else if (t[0] == "NT") { primesieve::set_num_threads(atoi(t[1].c_str())); std::cout << "-" << std::endl; }
    else std::cout << "?" << std::endl;
  }
}

// C13/C17 probe: allocation failure injection and heap accounting.
// Global operator new/delete are replaced and malloc/realloc/free are wrapped (-Wl,--wrap), so that the
// k-th allocation of a workload can be made to fail and live/peak bytes can be measured.
//   usage: fault_probe <workload> <k> [args...]      (k = 0: no failure)
// prints: "allocs=<n> outcome=<...> values=<...> live_after=<bytes> peak=<bytes>"
#include <primesieve.hpp>
#include <primesieve.h>
#include <atomic>
#include <cerrno>
#include <cstdio>
#include <cstdlib>
#include <cstring>
#include <new>
#include <string>
#include <vector>
#include <unistd.h>

extern "C" void* __real_malloc(size_t);
extern "C" void* __real_realloc(void*, size_t);
extern "C" void __real_free(void*);

static std::atomic<long> g_count(0), g_fail_at(0), g_fail_at2(0), g_live(0), g_peak(0);
static std::atomic<bool> g_on(false);
static const size_t HDR = 16;

static void* alloc_impl(size_t n, bool& failed)
{
  failed = false;
  if (g_on.load()) { long c = ++g_count; if (c == g_fail_at.load() || c == g_fail_at2.load()) { failed = true; return nullptr; } }
  char* p = (char*) __real_malloc(n + HDR);
  if (!p) return nullptr;
  *(size_t*) p = n;
  long l = (g_live += (long) n); long pk = g_peak.load(); while (l > pk && !g_peak.compare_exchange_weak(pk, l)) { }
  return p + HDR;
}
static void free_impl(void* q) { if (!q) return; char* p = (char*) q - HDR; g_live -= (long) *(size_t*) p; __real_free(p); }

extern "C" void* __wrap_malloc(size_t n) { bool f; return alloc_impl(n, f); }
extern "C" void __wrap_free(void* p) { free_impl(p); }
extern "C" void* __wrap_realloc(void* q, size_t n)
{
  if (!q) { bool f; return alloc_impl(n, f); }
  bool f; void* r = alloc_impl(n, f); if (!r) return nullptr;
  size_t old = *(size_t*) ((char*) q - HDR); memcpy(r, q, old < n ? old : n); free_impl(q); return r;
}
void* operator new(size_t n) { bool f; void* p = alloc_impl(n, f); if (!p) throw std::bad_alloc(); return p; }
void* operator new[](size_t n) { bool f; void* p = alloc_impl(n, f); if (!p) throw std::bad_alloc(); return p; }
void* operator new(size_t n, const std::nothrow_t&) noexcept { bool f; return alloc_impl(n, f); }
void* operator new[](size_t n, const std::nothrow_t&) noexcept { bool f; return alloc_impl(n, f); }
void operator delete(void* p) noexcept { free_impl(p); }
void operator delete[](void* p) noexcept { free_impl(p); }
void operator delete(void* p, size_t) noexcept { free_impl(p); }
void operator delete[](void* p, size_t) noexcept { free_impl(p); }

static std::string out;
static void val(uint64_t v) { char b[32]; snprintf(b, sizeof b, " %llu", (unsigned long long) v); out += b; }
static void tag(const char* s) { out += " "; out += s; }
static const char* classify() { try { throw; } catch (const std::bad_alloc&) { return "X:bad_alloc"; } catch (const primesieve::primesieve_error&) { return "X:primesieve_error"; } catch (const std::exception&) { return "X:other_exception"; } catch (...) { return "X:unknown"; } }

int main(int argc, char** argv)
{
  if (argc < 3) return 2;
  std::string w = argv[1]; long k = atol(argv[2]); { const char* c = strchr(argv[2], ','); if (c) g_fail_at2 = atol(c + 1); }
  uint64_t a1 = argc > 3 ? strtoull(argv[3], 0, 10) : 0, a2 = argc > 4 ? strtoull(argv[4], 0, 10) : 0, a3 = argc > 5 ? strtoull(argv[5], 0, 10) : 0;
  out.reserve(1 << 16);
  primesieve::set_sieve_size(32);
  long live0 = g_live.load();
  g_peak = g_live.load();
  g_fail_at = k; g_count = 0; g_on = true;
  std::string outcome = "ok";
  if (w == "iter_fwd" || w == "iter_bwd") {
    {
      primesieve::iterator it(a1);
      for (uint64_t i = 0; i < a2; i++) { try { val(w == "iter_fwd" ? it.next_prime() : it.prev_prime()); } catch (...) { tag(classify()); } }
      // resettable: jump_to and one more value in each direction
      it.jump_to(a1); try { tag("J"); val(it.next_prime()); val(it.prev_prime()); } catch (...) { tag(classify()); }
    }
  } else if (w == "iter_mixed") {
    {
      primesieve::iterator it(a1);
      for (uint64_t i = 0; i < a2; i++) { try { val((i / 7) % 2 == 0 ? it.next_prime() : it.prev_prime()); } catch (...) { tag(classify()); } }
    }
  } else if (w == "c_iter_fwd" || w == "c_iter_bwd" || w == "c_skipto_fwd" || w == "c_skipto_bwd") {
    bool sk = w.find("skipto") != std::string::npos; if (sk) w = w == "c_skipto_fwd" ? "c_iter_fwd" : "c_iter_bwd";
    primesieve_iterator it; primesieve_init(&it);
    if (sk) { errno = 0; primesieve_skipto(&it, a1, UINT64_MAX); if (it.is_error) tag(errno == EDOM ? "skipto-err" : "skipto-err?"); }   // deprecated entry point: allocates IteratorData itself
    else primesieve_jump_to(&it, a1, UINT64_MAX);
    for (uint64_t i = 0; i < a2 && !(sk && it.is_error); i++) {
      errno = 0; uint64_t v = w == "c_iter_fwd" ? primesieve_next_prime(&it) : primesieve_prev_prime(&it);
      if (it.is_error) { tag(v == PRIMESIEVE_ERROR && errno == EDOM ? "E" : "E?"); break; } val(v);
    }
    if (it.is_error) { for (int i = 0; i < 3; i++) { uint64_t v = primesieve_next_prime(&it); tag(v == PRIMESIEVE_ERROR ? "E" : "notE"); }
      it.is_error = 0; primesieve_jump_to(&it, a1, UINT64_MAX); tag("J"); val(primesieve_next_prime(&it)); }
    primesieve_free_iterator(&it);
  } else if (w == "count") {
    primesieve::set_num_threads((int) a3);
    try { val(primesieve::count_primes(a1, a2)); val(primesieve::count_twins(a1, a2)); } catch (...) { outcome = classify(); }
  } else if (w == "c_count") {
    primesieve::set_num_threads((int) a3); errno = 0;
    uint64_t v = primesieve_count_primes(a1, a2); if (v == PRIMESIEVE_ERROR) { outcome = errno == EDOM ? "cerr" : "cerr-no-errno"; } else val(v);
  } else if (w == "nth") {
    primesieve::set_num_threads((int) a3);
    try { val(primesieve::nth_prime((int64_t) a1, a2)); } catch (...) { outcome = classify(); }
  } else if (w == "gen") {
    { std::vector<uint64_t> v;
      try { v.push_back(1); primesieve::generate_primes(a1, a2, &v); } catch (...) { outcome = classify(); }
      for (auto x : v) val(x); }
  } else if (w == "gen_n") {
    { std::vector<uint32_t> v;
      try { primesieve::generate_n_primes(a1, a2, &v); } catch (...) { outcome = classify(); }
      for (auto x : v) val(x); }
  } else if (w == "c_gen") {
    size_t size = 777; errno = 0; uint64_t* p = (uint64_t*) primesieve_generate_primes(a1, a2, &size, UINT64_PRIMES);
    if (!p) { outcome = (errno == EDOM && size == 0) ? "cerr" : "cerr-bad-contract"; } else { for (size_t i = 0; i < size; i++) val(p[i]); }
    primesieve_free(p);
  } else if (w == "clearsize") {   // C17: what stays allocated after clear()/jump_to()
    { primesieve::iterator it(a1); for (uint64_t i = 0; i < a2; i++) it.next_prime(); if (a3) for (uint64_t i = 0; i < a2 + 5; i++) it.prev_prime();
      long before = g_live.load(); it.clear(); tag("held_before_clear"); val((uint64_t) (before - live0)); tag("held_after_clear"); val((uint64_t) (g_live.load() - live0));
      tag("buffered"); val((uint64_t) it.size_); }
  } else if (w == "peak_count") { primesieve::set_num_threads((int) a3); val(primesieve::count_primes(a1, a2)); }
  else if (w == "peak_iter_fwd") { { primesieve::iterator it(a1); size_t mx = 0; uint64_t p = 0; while ((p = it.next_prime()) <= a2) { if (it.size_ > mx) mx = it.size_; } tag("maxbuf"); val((uint64_t) mx); } }
  else if (w == "peak_iter_bwd") { { primesieve::iterator it(a2, a3 ? a1 : ~0ull); uint64_t p; while ((p = it.prev_prime()) >= a1 && p > 0) { } } }
  g_on = false;
  long n = g_count.load();
  printf("allocs=%ld outcome=%s values=%s live_after=%ld peak=%ld\n", n, outcome.c_str(), out.c_str(), g_live.load() - live0, g_peak.load() - live0);
  fflush(stdout);
  _exit(0);
}

// evaluates expressions with the real calculator: lines "<type> <expression...>" -> "ok <value>" | "rej"
#include <primesieve/calculator.hpp>
#include "common.hpp"
int main()
{
  std::string line;
  while (std::getline(std::cin, line)) {
    size_t sp = line.find(' ');
    std::string ty = line.substr(0, sp), ex = sp == std::string::npos ? "" : line.substr(sp + 1);
    try {
      if (ty == "u64") { auto v = calculator::eval<uint64_t>(ex); std::cout << "ok " << v << std::endl; }
      else if (ty == "i64") { auto v = calculator::eval<int64_t>(ex); std::cout << "ok " << v << std::endl; }
      else { auto v = calculator::eval<int>(ex); std::cout << "ok " << v << std::endl; }
    } catch (const std::exception&) { std::cout << "rej" << std::endl; }
  }
}

// C09 probe: piece plans (hook H1) and multi-threaded vs single-threaded counts.
//   PLAN start stop threads mindist     -> "pieces s e s e ..." (sorted by index) | "single"
//   COUNT start stop threads mindist    -> six counts with <threads> (hook distance) and six with one thread
//   LEAF align stop n | LEAF tdist mindist threads start stop | LEAF ideal mindist numthreads start stop
#include <stdint.h>
#include <cstddef>
#define private public
#define protected public
#include <primesieve/ParallelSieve.hpp>
#include <primesieve/PrimeSieve.hpp>
#undef private
#undef protected
#include <primesieve.hpp>
#include "common.hpp"
#include <mutex>
#include <map>

namespace primesieve { namespace verif {
extern void (*pieceCallback)(uint64_t, uint64_t, uint64_t);
extern uint64_t minThreadDistance;
extern bool planOnly;
}}

static std::mutex mtx;
static std::map<uint64_t, std::pair<uint64_t, uint64_t>> pieces;
static std::map<uint64_t, int> claimed;
static void cb(uint64_t i, uint64_t s, uint64_t e) { std::lock_guard<std::mutex> g(mtx); pieces[i] = {s, e}; claimed[i]++; }

int main()
{
  using namespace primesieve;
  std::string line;
  while (std::getline(std::cin, line)) {
    auto t = split(line);
    if (t.empty()) continue;
    if (t[0] == "PLAN" || t[0] == "COUNT") {
      uint64_t start = u64(t[1]), stop = u64(t[2]); int threads = atoi(t[3].c_str()); uint64_t md = u64(t[4]);
      pieces.clear(); claimed.clear();
      verif::minThreadDistance = md; verif::pieceCallback = cb; verif::planOnly = (t[0] == "PLAN");
      ParallelSieve ps; ps.setNumThreads(threads);
      int all = COUNT_PRIMES | COUNT_TWINS | COUNT_TRIPLETS | COUNT_QUADRUPLETS | COUNT_QUINTUPLETS | COUNT_SEXTUPLETS;
      ps.sieve(start, stop, all);
      std::cout << t[0] << " usedthreads " << ps.getNumThreads();
      if (pieces.empty()) std::cout << " single"; else { std::cout << " pieces"; for (auto& p : pieces) std::cout << " " << p.second.first << " " << p.second.second; }
      bool dup = false; for (auto& c : claimed) if (c.second != 1) dup = true;
      std::cout << (dup ? " DUPLICATE-INDEX" : "");
      if (t[0] == "COUNT") {
        std::cout << " counts"; for (int k = 0; k < 6; k++) std::cout << " " << ps.getCount(k);
        verif::minThreadDistance = 0; verif::pieceCallback = nullptr; verif::planOnly = false;
        ParallelSieve one; one.setNumThreads(1); one.sieve(start, stop, all);
        std::cout << " single"; for (int k = 0; k < 6; k++) std::cout << " " << one.getCount(k);
      }
      std::cout << std::endl;
      verif::minThreadDistance = 0; verif::pieceCallback = nullptr; verif::planOnly = false;
    }
    else if (t[0] == "LEAF") {
      ParallelSieve ps;
      if (t[1] == "align") { ps.stop_ = u64(t[2]); std::cout << ps.align(u64(t[3])) << std::endl; }
      else if (t[1] == "tdist") { verif::minThreadDistance = u64(t[2]); ps.start_ = u64(t[4]); ps.stop_ = u64(t[5]); std::cout << ps.getThreadDistance(atoi(t[3].c_str())) << std::endl; verif::minThreadDistance = 0; }
      else if (t[1] == "ideal") { verif::minThreadDistance = u64(t[2]); ps.numThreads_ = atoi(t[3].c_str()); ps.start_ = u64(t[4]); ps.stop_ = u64(t[5]); std::cout << ps.idealNumThreads() << std::endl; verif::minThreadDistance = 0; }
    }
  }
}

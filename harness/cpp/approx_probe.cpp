// C18 probe: the approximations of src/RiemannR.cpp, one command per line, one result line per command.
//   R x   -> RiemannR((long double) x)           printed with 45 significant digits
//   RI n  -> RiemannR_inverse((long double) n)
//   PA x  -> primePiApprox(x)        NA n -> nthPrimeApprox(n)
#include <primesieve/RiemannR.hpp>
#include "common.hpp"
#include <cstdio>
#include <cmath>

int main()
{
  std::string line;
  while (std::getline(std::cin, line)) {
    auto t = split(line);
    if (t.size() < 2) { std::puts("bad"); continue; }
    uint64_t v = std::strtoull(t[1].c_str(), nullptr, 10);
    if (t[0] == "R") { long double r = primesieve::RiemannR((long double) v); std::printf("%s %.45Lg\n", std::isfinite(r) ? "fin" : "nonfin", r); }
    else if (t[0] == "RI") { long double r = primesieve::RiemannR_inverse((long double) v); std::printf("%s %.45Lg\n", std::isfinite(r) ? "fin" : "nonfin", r); }
    else if (t[0] == "PA") std::printf("%llu\n", (unsigned long long) primesieve::primePiApprox(v));
    else if (t[0] == "NA") std::printf("%llu\n", (unsigned long long) primesieve::nthPrimeApprox(v));
    else std::puts("bad");
  }
  return 0;
}

// C11 probe: error contract of the C binding.
//   ERRNO <preset> COUNT k a b | NTH n s          -> "<value|err> errno=<n>"  (errno preset before the call)
//   ITERERR start k                                -> run the C iterator past 2^64 from start, then k more next calls,
//                                                     then prev, jump_to(100), next, clear, next, free; prints everything
//   NULLSIZE code a b                              -> primesieve_generate_primes with size == NULL
//   PRESIZE code a b                               -> primesieve_generate_primes with *size preset to 777777: "ptr|null size=<*size> errno=..."
#include <primesieve.h>
#include "common.hpp"
#include <cerrno>

int main()
{
  std::string line;
  while (std::getline(std::cin, line)) {
    auto t = split(line);
    if (t.empty()) continue;
    if (t[0] == "ERRNO") {
      int preset = atoi(t[1].c_str()); uint64_t v = 0;
      errno = preset;
      if (t[2] == "COUNT") {
        typedef uint64_t (*cntfn)(uint64_t, uint64_t);
        static cntfn f[6] = { primesieve_count_primes, primesieve_count_twins, primesieve_count_triplets, primesieve_count_quadruplets, primesieve_count_quintuplets, primesieve_count_sextuplets };
        v = f[atoi(t[3].c_str()) - 1](u64(t[4]), u64(t[5]));
      } else if (t[2] == "NTH") v = primesieve_nth_prime(strtoll(t[3].c_str(), nullptr, 10), u64(t[4]));
      int e = errno;
      std::cout << (v == PRIMESIEVE_ERROR ? std::string("err") : std::to_string(v)) << " errno=" << (e == EDOM ? "EDOM" : std::to_string(e)) << std::endl;
    }
    else if (t[0] == "ITERERR") {
      primesieve_iterator it; primesieve_init(&it); primesieve_jump_to(&it, u64(t[1]), UINT64_MAX);
      int k = atoi(t[2].c_str()); errno = 0;
      std::cout << "run";
      for (int i = 0; i < 200; i++) { uint64_t v = primesieve_next_prime(&it); if (it.is_error) { std::cout << " ERR(" << (v == PRIMESIEVE_ERROR ? "E" : std::to_string(v)) << ",errno=" << (errno == EDOM ? "EDOM" : std::to_string(errno)) << ")"; break; } std::cout << " " << v; }
      std::cout << " again";
      for (int i = 0; i < k; i++) { uint64_t v = primesieve_next_prime(&it); std::cout << " " << (v == PRIMESIEVE_ERROR ? "E" : std::to_string(v)) << "/" << it.is_error; }
      primesieve_generate_next_primes(&it); std::cout << " gen:" << (it.size == 1 && it.primes[0] == PRIMESIEVE_ERROR ? "E" : "other") << "/" << it.is_error;
      primesieve_jump_to(&it, 100, UINT64_MAX); std::cout << " jump100:" << primesieve_next_prime(&it);
      primesieve_clear(&it); std::cout << " clear:" << primesieve_next_prime(&it);
      primesieve_free_iterator(&it); primesieve_free_iterator(&it);
      std::cout << " freed" << std::endl;
    }
    else if (t[0] == "PRESIZE") {
      size_t size = 777777; errno = 0; void* p = primesieve_generate_primes(u64(t[2]), u64(t[3]), &size, atoi(t[1].c_str()));
      std::cout << (p ? "ptr" : "null") << " size=" << size << " errno=" << (errno == EDOM ? "EDOM" : std::to_string(errno)) << std::endl; primesieve_free(p);
    }
    else if (t[0] == "NULLSIZE") {
      errno = 0; void* p = primesieve_generate_primes(u64(t[2]), u64(t[3]), nullptr, atoi(t[1].c_str()));
      std::cout << (p ? "ptr" : "null") << " errno=" << (errno == EDOM ? "EDOM" : std::to_string(errno)) << std::endl; primesieve_free(p);
    }
  }
}

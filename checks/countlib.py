"""Interval generation for the counting / printing properties (C04, C05, C15), aimed at the case-split
boundaries of the sieving kernel: segment seams for several sieve sizes, stops just past a seam,
p^2 and p*q exactly on the last bit of a segment, byte and bit edges, start <= 5 < stop."""
import math
import ps, oracle

SIEVE_SIZES = [16, 17, 23, 32, 64, 100, 256]
SMALL_PRIMES = [p for p in range(7, 4000) if oracle.is_prime(p)]
MAX64 = (1 << 64) - 1


def geometry(queries):
    """queries: [(start>=7, stop, kb)] -> [(low, high, bytes)] from the real Erat::init"""
    exe = ps.build_probe("kernel_probe")
    rc, out, err = ps.run([exe], input="".join("GEOM %d %d %d\n" % q for q in queries), timeout=120)
    res = []
    for l in out.splitlines():
        t = l.split()
        res.append((int(t[0]), int(t[1]), int(t[2])) if len(t) >= 3 else None)
    return res


def seam_cases(rng, n):
    """(start, stop, kb, why): intervals whose stop / p^2 / p*q falls on or just past a segment seam"""
    base = []
    for _ in range(n):
        kb = rng.choice(SIEVE_SIZES)
        mag = rng.choice([3, 5, 6, 7, 7, 8, 8, 9, 10, 12])
        start = max(7, rng.below(10 ** mag))
        if rng.chance(1, 3):
            start = start - start % 30 + rng.choice([0, 1, 6, 7, 8, 11, 29, 30, 31, 36, 37])
        base.append((max(7, start), start + 40 * 10 ** 6, kb))
    geo = geometry(base)
    cases = []
    for (start, stop0, kb), g in zip(base, geo):
        if g is None:
            continue
        low, high, nbytes = g
        span = nbytes * 30
        if span > 12 * 10 ** 6:
            continue
        k = rng.between(1, 3)
        seam = low + k * span           # = segmentLow of segment k; the last bit of segment k-1 stands for seam + 1
        kind = rng.below(4)
        if kind == 0:
            d = rng.choice([-30, -1, 0, 1, 2, 3, 4, 5, 6, 7, 8, 11, 29, 30, 31, 32, 36, 37])
            cases.append((start, seam + d, kb, "stop at seam%+d" % d))
        elif kind == 1:
            # the first segment's upper end inside the interval, stop a few bytes later
            cases.append((start, seam + rng.between(0, 300), kb, "stop shortly after a seam"))
        elif kind == 2:
            # a square / product of two primes on the last bit of a segment: seam + 1 = p * q
            r = int(math.isqrt(seam + 1))
            found = None
            for p in range(r, max(6, r - 400), -1):
                if oracle.is_prime(p):
                    found = p
                    break
            if found:
                p = found
                for q in (p, oracle.next_prime_ge(p + 1)):
                    m = p * q
                    if m % 30 != 1:
                        continue
                    lo2 = m - 1 - k * span
                    if lo2 >= 0 and lo2 % 30 == 0:
                        cases.append((max(7, lo2 + rng.choice([7, 8, 11, 31, 36])), m + rng.between(0, 2000), kb, "p*q = %d*%d on the last bit of segment %d" % (p, q, k - 1)))
        else:
            cases.append((start, seam + span // 2 + rng.below(1000), kb, "stop inside a later segment"))
    return cases


def shape_cases(rng, n):
    """interval shapes named in the property: empty, one byte, start/stop on bit and byte edges, start <= 5 < stop, stop = p^2"""
    cases = []
    for _ in range(n):
        kb = rng.choice(SIEVE_SIZES)
        k = rng.below(9)
        if k == 0:
            a = rng.below(10 ** rng.between(1, 12)); cases.append((a, a + rng.below(31), kb, "at most one byte"))
        elif k == 1:
            a = 30 * rng.below(10 ** 6); b = a + 30 * rng.between(0, 20)
            cases.append((a + rng.choice([0, 1, 6, 7, 8, 30, 31]), b + rng.choice([0, 1, 6, 7, 8, 29, 30, 31, 32, 36]), kb, "byte edges"))
        elif k == 2:
            cases.append((rng.below(8), rng.between(5, 400), kb, "start <= 5 < stop"))
        elif k == 3:
            p = rng.choice(SMALL_PRIMES); q = rng.choice([p, oracle.next_prime_ge(p + 1), rng.choice(SMALL_PRIMES)])
            m = p * q; cases.append((max(0, m - rng.below(5000)), m + rng.choice([0, 0, 1, -1, 2]), kb, "stop = p*q"))
        elif k == 4:
            a = rng.below(10 ** rng.between(1, 9)); cases.append((a + rng.between(1, 50), a, kb, "start > stop"))
        elif k == 5:
            a = rng.below(10 ** rng.between(2, 10)); cases.append((a, a + rng.below(3 * 10 ** 6), kb, "random"))
        elif k == 6:
            p = oracle.next_prime_ge(rng.below(10 ** rng.between(1, 11))); cases.append((p, p + rng.choice([0, 2, 6, 8, 12, 16, 30]), kb, "start on a prime"))
        elif k == 7:
            a = (1 << 32) + rng.between(-10 ** 6, 10 ** 6); cases.append((a, a + rng.below(10 ** 6), kb, "around 2^32"))
        else:
            a = rng.below(10 ** rng.between(12, 15)); cases.append((a, a + rng.below(200000), kb, "large magnitude"))
    return cases


def layer_cases(rng, n):
    """stops at which a layer of the sieve switches on or off: isqrt(stop) crossing the largest pre-sieved prime (163: EratSmall
    is initialised above it), the start of SievingPrimes (165 = 163 + 2) and its square (SievingPrimes builds its tiny sieve iff
    165^2 <= isqrt(stop), i.e. stop >= 165^4), the usual EratSmall / EratMedium limits (0.2 * L1, 3 * sieve size); short intervals"""
    ts = [163, 164, 165, 166, 167, 169, 165 * 165, 165 * 165 + 1, 167 * 167, 6553, 6554, 9830, 9831, 49152, 49153, 98304, 3145728 // 30]
    cases = []
    for _ in range(n):
        t = rng.choice(ts)
        stop = rng.choice([t * t - 1, t * t, t * t, t * t + 1, (t + 1) * (t + 1) - 1, t * t + rng.below(2 * t + 1)])
        a = max(0, stop - rng.choice([0, 30, 1000, 60000, 400000]) - rng.below(100))
        cases.append((a, stop, rng.choice(SIEVE_SIZES), "layer threshold"))
    return cases


def ebig_units(rng, n):
    """inputs of the EBIG unit (the real EratBig vs the model's bucket machine): (log2 sieve size, segments, [(prime, multipleIndex,
    wheelIndex)], why).  The machine only uses prime / 30, so the "primes" need not be prime.  Besides arbitrary states (any wheel
    index, any index within one wheel step beyond the segment) the boundary of storeSievingPrime's sizing is aimed at: 10 * (prime / 30)
    a multiple of the sieve size, the multiple in the last bytes of the segment, every wheel index (factor 10 and correct up to 10)"""
    out = []
    for _ in range(n):
        lg = rng.between(4, 13) if rng.chance(4, 5) else rng.between(14, 16)
        size = 1 << lg
        trip = []
        for _k in range(rng.between(1, 6)):
            pr_ = oracle.next_prime_ge(rng.choice([31, 37, 100, 1000, 5000, 30000, 10 ** 6, 10 ** 8]) + rng.below(400))
            if (pr_ // 3) // size > 50000:      # keep buckets_ (one list per future segment) at a few ten thousand entries
                pr_ = oracle.next_prime_ge(31 + rng.below(5000))
            sp = pr_ // 30
            trip.append((pr_, rng.below(size + sp * 10 + 10), rng.below(384)))
        out.append((lg, rng.between(1, 6), trip, "arbitrary"))
    for lg in (4, 6):
        size = 1 << lg
        for j in (1, 3):
            sp = j * size // 2
            for w in range(384):
                out.append((lg, 2, [(30 * sp + 7, size - 1 - (w + j) % 11, w)], "sizing boundary"))
    return out


def emed_units(rng, n):
    """arbitrary inputs of the EMED unit: (sieve bytes, segments, [(prime, multipleIndex, wheelIndex < 64)])"""
    out = []
    for _ in range(n):
        size = rng.between(1, 3000)
        trip = []
        for _k in range(rng.between(1, 6)):
            pr_ = oracle.next_prime_ge(rng.choice([7, 31, 1000, 30000, 10 ** 6]) + rng.below(400))
            trip.append((pr_, rng.below(size + 6 * (pr_ // 30) + 6), rng.below(64)))
        out.append([size, rng.between(1, 5), trip])
    return out


def unit_line(kind, c):
    return "%s %d %d %s" % (kind, c[0], c[1], " ".join("%d %d %d" % t for t in c[2]))


def exhaustive_small(limit=70):
    return [(a, b, 16, "exhaustive small") for a in range(0, limit) for b in range(a, limit)]


def top_cases(rng, n):
    """multi-segment intervals ending within one segment of 2^64 (sieve size 16/17 KiB: span ~ 5e5 numbers)"""
    cases = []
    for _ in range(n):
        kb = rng.choice([16, 17])
        w = rng.between(600000, 1600000)
        stop = MAX64 - rng.choice([0, 0, 1, 58, 59, 60, rng.below(400000)])
        cases.append((stop - w, stop, kb, "multi-segment interval at the top of the range"))
    return cases


def big_sieve_cases(rng, n):
    """single-threaded counts whose sieve array exceeds 4 MiB (sieve size 8192 KiB, stop above 4.4e14, more than
    1.26e8 numbers): the only configuration in which SievingPrime's multipleIndex uses its top bit"""
    cases = []
    for _ in range(n):
        a = rng.choice([10 ** 15, 7 * 10 ** 14, 3 * 10 ** 15]) + rng.below(10 ** 9)
        cases.append((a, a + 160 * 10 ** 6 + rng.below(10 ** 6), 8192, "sieve array above 4 MiB"))
    return cases


def mr_prime_count_pieces(a, b, pieces=32):
    """pi(b) - pi(a-1) by Miller-Rabin, the interval cut into pieces (prime counts are additive)"""
    step = (b - a) // pieces + 1
    ivs = [(x, min(b, x + step - 1)) for x in range(a, b + 1, step)]
    res = mr_counts(ivs)
    if any(r is None for r in res):
        return None
    return sum(r[0] for r in res)


def mr_counts(intervals):
    """six counts per interval from the harness' Miller-Rabin (api_probe MRCOUNT), in parallel"""
    exe = ps.build_probe("api_probe")
    outs = ps.par_run(exe, ["MRCOUNT %d %d\n" % iv for iv in intervals], timeout=600)
    return [[int(x) for x in o.split()] if rc == 0 and o.strip() else None for rc, o, e in outs]

"""C08: results are independent of sieve size, threads, CPU dispatch and cache topology."""
import os, re, shutil, concurrent.futures
import ps, oracle, iterlib, countlib, C04

LEVEL = "proof"
THEOREMS = ["C08_set_sieve_size_clamped", "C08_set_num_threads_clamped", "C08_get_sieve_size_clamped", "C08_init_admissible", "C08_config_irrelevant_iterator", "C08_model_kernel_config_independent"]
ASSUMPTIONS = [
    "proved: clamps, admissibility of every configuration reaching the kernel, independence of the iterator from heuristics/hints/kernel implementation given the kernel specification; the SIMD code paths (AVX512 / SSE2 presieve, AVX512 bit decoding, popcnt variants) are not modelled: the multiarch build and the WITH_MULTIARCH=OFF build are compared at specification level only (partial)",
    "the sysfs parsers are exercised through hook H2 with synthetic trees; their string-level model is not in Coq",
    "floating point factors of initAlgorithms modelled as exact rationals (validated by the GEOM correspondence for every sieve size in the thorough tier)",
]
EXPLANATION = "Coq theorems on clamps and on admissibility of every reachable kernel configuration + correspondence: initAlgorithms/get_sieve_size model vs implementation, results across sieve sizes 16..8192 (non powers of two), threads 1..16, two dispatch builds, and synthetic sysfs cache topologies (hook H2)"


def make_tree(root, spec):
    """spec: dict with 'online' string and per cpu id a list of cache index dicts"""
    base = os.path.join(root, "sys/devices/system/cpu")
    os.makedirs(base, exist_ok=True)
    if spec.get("online") is not None:
        open(os.path.join(base, "online"), "w").write(spec["online"])
    for cpu, idxs in spec.get("cpus", {}).items():
        for i, d in enumerate(idxs):
            p = os.path.join(base, "cpu%d/cache/index%d" % (cpu, i))
            os.makedirs(p, exist_ok=True)
            for k, v in d.items():
                open(os.path.join(p, k), "w").write(v)


def trees(rng):
    std = lambda l1, l2, l3, sh2="0-1", sh3="0-15": [{"level": "1\n", "type": "Data\n", "size": l1, "shared_cpu_list": "0-1\n"}, {"level": "1\n", "type": "Instruction\n", "size": "32K\n", "shared_cpu_list": "0-1\n"},
                                                   {"level": "2\n", "type": "Unified\n", "size": l2, "shared_cpu_list": sh2 + "\n"}, {"level": "3\n", "type": "Unified\n", "size": l3, "shared_cpu_list": sh3 + "\n"}]
    t = [("missing tree", {}), ("online only", {"online": "0-7\n"}),
         ("typical", {"online": "0-15\n", "cpus": {0: std("48K\n", "2048K\n", "260M\n"), 15: std("48K\n", "2048K\n", "260M\n"), 8: std("48K\n", "2048K\n", "260M\n")}}),
         ("zero sizes", {"online": "0-3\n", "cpus": {0: std("0K\n", "0K\n", "0K\n")}}),
         ("huge sizes", {"online": "0-3\n", "cpus": {0: std("999999999999K\n", "18446744073709551615\n", "4G\n")}}),
         ("garbage", {"online": "abc\n", "cpus": {0: [{"level": "x\n", "type": "Data\n", "size": "-5Q\n"}]}}),
         ("size garbage", {"online": "0-1\n", "cpus": {0: std("48Q\n", "lots\n", "\n")}}),
         ("overflowing number", {"online": "0-1\n", "cpus": {0: std("99999999999999999999999K\n", "2M\n", "8M\n")}}),
         ("hybrid cores", {"online": "0-11\n", "cpus": {0: std("48K\n", "2M\n", "30M\n"), 11: std("32K\n", "4M\n", "30M\n", "8-11"), 6: std("32K\n", "4M\n", "30M\n", "4-7")}}),
         ("map instead of list", {"online": "0-3\n", "cpus": {0: [{"level": "1\n", "type": "Data\n", "size": "32K\n", "shared_cpu_map": "00000003\n"}, {"level": "2\n", "type": "Unified\n", "size": "512K\n", "shared_cpu_map": "ff,ffffffff\n"}]}}),
         ("many threads", {"online": "0-1048576\n", "cpus": {0: std("64K\n", "1M\n", "32M\n", "0-1048576")}}),
         ("l2 sharing 2", {"online": "0-3\n", "cpus": {0: std("32K\n", "1024K\n", "8M\n", "0-1")}}),
         ("l2 smaller than l1", {"online": "0-3\n", "cpus": {0: std("512K\n", "8K\n", "8M\n", "0-3")}}),
         ("tiny l2 per thread", {"online": "0-63\n", "cpus": {0: std("32K\n", "64K\n", "8M\n", "0-63")}}),
         ("empty files", {"online": "\n", "cpus": {0: std("\n", "\n", "\n", "", "")}}),
         ("level 4 and duplicate levels", {"online": "0-3\n", "cpus": {0: std("32K\n", "256K\n", "8M\n") + [{"level": "2\n", "type": "Unified\n", "size": "128K\n", "shared_cpu_list": "0\n"}]}})]
    return t


def correspond(ctx):
    rng = ctx.rng
    mismatches, samples, sigs = [], [], set()
    dist = {}
    ev = 0
    kp = ps.build_probe("kernel_probe")
    model = ps.build_model()
    # 1. initAlgorithms: model vs implementation for every kind of (sieve size, interval)
    geo = []
    sizes = list(range(16, 8193)) if ctx.thorough else sorted(set([16, 17, 23, 31, 32, 33, 48, 64, 100, 127, 128, 255, 256, 257, 511, 512, 1000, 1024, 2048, 4095, 4096, 6000, 8191, 8192] + [rng.between(16, 8192) for _ in range(40)]))
    for kb in sizes:
        for _ in range(2 if ctx.thorough else 6):
            start = max(7, rng.below(10 ** rng.between(1, 19)))
            stop = min((1 << 64) - 1, start + rng.below(10 ** rng.between(1, 12)))
            if rng.chance(1, 4):
                stop = (1 << 64) - 1 - rng.below(1000)
            geo.append((start, stop, kb))
    sh = ps.shard(geo)
    oi = ps.par_run(kp, ["".join("GEOM %d %d %d\n" % g for _, g in s) for s in sh], timeout=600)
    mq = []
    for s, (rc, o, e) in zip(sh, oi):
        for (idx, g), l in zip(s, o.splitlines()):
            mq.append((g, l))
    rcm, om, em = ps.run([model], input="".join("LEAF geom %s %d %d %d\n" % (l.split()[5], g[2], g[0], g[1]) for g, l in mq), timeout=600)
    for (g, l), m in zip(mq, om.splitlines()):
        ev += 1
        t = l.split()
        sigs.add(("geom", g[2] & (g[2] - 1) == 0, int(t[4]) < oracle_isqrt(g[1]), int(t[2]) < 16384))
        if " ".join(t[:5]) != m.strip():
            mismatches.append({"key": "initAlgorithms", "what": "Erat::init(start=%d, stop=%d, sieve size %d KiB): implementation (low high bytes maxSmall maxMedium) = %s, model = %s" % (g[0], g[1], g[2], " ".join(t[:5]), m.strip()), "failing_input": None})
        else:
            size, small, med = int(t[2]), int(t[3]), int(t[4])
            if size % 8 != 0 or size > 8192 * 1024 or not (small <= med <= oracle_isqrt(g[1])) or (med < oracle_isqrt(g[1]) and size & (size - 1)):
                mismatches.append({"key": "inadmissible", "what": "Erat::init(%d, %d, %d KiB) yields an inadmissible configuration %s" % (g[0], g[1], g[2], l), "failing_input": {"start": g[0], "stop": g[1], "sieve_size": g[2], "observed": l}})
    dist["geometry_cases"] = len(mq)
    # 2. results across sieve sizes / threads / builds: same workload, every configuration
    probe = {v: ps.build_probe("api_probe", v) for v in ("default", "portable")}
    a = rng.below(10 ** 9); b = a + 3 * 10 ** 6
    work = [(a, b)] + [(10 ** 12 + rng.below(10 ** 6), 10 ** 12 + 2 * 10 ** 6), (rng.below(100), 5 * 10 ** 6), (10 ** 15, 10 ** 15 + 400000)]
    exp = {w: oracle.counts_between(*w) for w in work[:3]}
    exp[work[3]] = countlib.mr_counts([work[3]])[0]
    jobs = []
    for w in work:
        for kb in (sizes if ctx.thorough else sizes[::2]):
            jobs.append((w, kb, rng.choice([1, 2, 3, 5, 8, 16]), "default" if rng.chance(2, 3) else "portable", rng.between(1, 6)))
    def run(j):
        w, kb, th, v, k = j
        rc, o, e = ps.run([probe[v]], input="COUNT %d %d %d %d %d\n" % (k, w[0], w[1], th, kb), timeout=120)
        return rc, o
    with concurrent.futures.ThreadPoolExecutor(ps.NPROC) as ex:
        res = list(ex.map(run, jobs))
    for (w, kb, th, v, k), (rc, o) in zip(jobs, res):
        ev += 1
        want = str(exp[w][k - 1])
        sigs.add(("cfg", kb & (kb - 1) == 0, th > 1, v, k))
        t = o.split()
        if rc != 0 or len(t) < 4 or t[1] != want or t[3] != want:
            mismatches.append({"key": "config-dependent", "what": "count kind %d of [%d, %d] with sieve size %d KiB, %d threads, build %s: %s, expected %s" % (k, w[0], w[1], kb, th, v, o.strip(), want),
                               "failing_input": {"kind": k, "start": w[0], "stop": w[1], "sieve_size": kb, "threads": th, "variant": v, "observed": o.strip(), "expected": want}})
    dist["config_runs"] = len(jobs)
    # 2a. the largest sieve array: with 8192 KiB and a stop above 4.4e14 a single-threaded run over more than 1.26e8 numbers uses
    # a sieve array above 4 MiB (the only configuration in which SievingPrime's 23-bit multipleIndex uses its top bit, and in
    # which EratBig runs with 2^23-byte segments); its counts must be those of a small sieve size
    for (a_, b_, kb_, why_) in countlib.big_sieve_cases(rng, 1 if not ctx.thorough else 3):
        outs = {}
        for kb2 in (kb_, 256):
            rc, o, e = ps.run([probe["default"]], input="COUNT 1 %d %d 1 %d\nCOUNT 2 %d %d 1 %d\n" % (a_, b_, kb2, a_, b_, kb2), timeout=600)
            outs[kb2] = (rc, [l.split()[1] if len(l.split()) > 1 else "?" for l in o.splitlines()])
        ev += 1
        sigs.add(("cfg-big-sieve", kb_))
        if outs[kb_][0] != 0 or outs[256][0] != 0 or outs[kb_][1] != outs[256][1]:
            mismatches.append({"key": "config-dependent", "what": "count_primes / count_twins of [%d, %d], single-threaded: %s with sieve size %d KiB but %s with 256 KiB" % (a_, b_, outs[kb_][1], kb_, outs[256][1]),
                               "failing_input": {"start": a_, "stop": b_, "threads": 1, "sieve_sizes": [kb_, 256], "observed": outs[kb_][1], "with_256": outs[256][1]}})
    dist["big_sieve_runs"] = 1 if not ctx.thorough else 3
    # 2b. printed output: the command line prints the same lines for every thread count, sieve size and dispatch build, on
    # intervals long enough (>= 2e7) to be split among threads (the reference is the single-threaded default-size run of
    # the default build; C15 compares that run with the specification)
    def plines(out):
        return [l for l in out.replace("\r", "\n").split("\n") if l.strip() and not re.match(r"^(Sieve size =|Threads =|Seconds:|\d+%$)", l.strip())]
    pbase = [["4e7", "-p"], ["1e10", "1e10+3e7", "-p2"]] + ([["1e12", "-d", "6e7", "-p3"], ["2e8", "-p"]] if ctx.thorough else [])
    dist["printed_runs"] = 0
    for base in pbase:
        rc0, o0, e0 = ps.run([ps.cli_path("default")] + base + ["-t1"], timeout=600)
        ref = plines(o0)
        for v, extra in (("default", ["-t2"]), ("default", ["-t4", "-s16"]), ("default", ["--threads=16", "-s", "100"]), ("default", ["-t3", "-s8192"]),
                         ("portable", ["-t1"]), ("portable", ["-t5", "-s", "23"])):
            rc1, o1, e1 = ps.run([ps.cli_path(v)] + base + extra, timeout=600)
            got = plines(o1)
            ev += 1; dist["printed_runs"] += 1
            sigs.add(("printed", base[-1], v, tuple(extra)))
            if rc0 != 0 or rc1 != rc0 or got != ref:
                j = next((i for i in range(min(len(got), len(ref))) if got[i] != ref[i]), min(len(got), len(ref)))
                mismatches.append({"key": "config-print", "what": "primesieve %s (build %s) prints something else than the single-threaded run (first difference at line %d: %r vs %r; %d vs %d lines)" %
                                   (" ".join(base + extra), v, j, got[j:j + 1], ref[j:j + 1], len(got), len(ref)),
                                   "failing_input": {"argv": base + extra, "variant": v, "reference_argv": base + ["-t1"], "first_difference_line": j, "observed": got[j:j + 2], "expected": ref[j:j + 2]}})
    # iterator sequences on both builds
    hists = [("cpp" if i % 2 else "c", ["SS %d" % rng.choice(sizes)] + iterlib.gen_history(rng, "cpp", maxlen=25, hi_frac=(85, 15, 0, 0))) for i in range(40)]
    for v in ("default", "portable"):
        executed, crashed = iterlib.run_probe(hists, v)
        for (b, ops), ex in zip(hists, executed):
            if ex is None: continue
            ev += 1
            sc = iterlib.spec_check(ex)
            if sc is not None:
                mismatches.append({"key": "config-iter", "what": "iterator on build %s: op %d expected %s observed %s" % (v, sc[0], sc[1], sc[2]), "failing_input": {"ops": ops, "variant": v}})
    # 3. cache topologies through hook H2: the library always initialises, clamps, and computes the same results
    cp = ps.build_probe("cpuinfo_probe")
    rc, ref, e = ps.run([cp], timeout=120)
    ref_t = ref.split()
    root = os.path.join(ps.BUILD, "sysroots")
    shutil.rmtree(root, ignore_errors=True)
    for i, (name, spec) in enumerate(trees(rng)):
        d = os.path.join(root, "t%d" % i)
        make_tree(d, spec)
        rc, o, e = ps.run([cp], env=dict(os.environ, PRIMESIEVE_VERIF_SYSROOT=d), timeout=120)
        ev += 1
        t = o.split()
        sigs.add(("sysfs", name))
        if rc != 0 or len(t) != len(ref_t):
            mismatches.append({"key": "sysfs-crash", "what": "process start-up with sysfs tree '%s' fails (rc=%d) %s" % (name, rc, e[-200:]), "failing_input": {"tree": name, "spec": spec}}); continue
        l1, l2, l3, s1, s2, s3, cores, gss = [int(x) for x in t[:8]]
        rcm, om, em = ps.run([model], input="LEAF gss 0 %d %d %d %d %d %d\n" % (l1, l2, l3, s1, s2, s3), timeout=60)
        if not (16 <= gss <= 8192):
            mismatches.append({"key": "sysfs-clamp", "what": "sysfs tree '%s': get_sieve_size() = %d outside [16, 8192]" % (name, gss), "failing_input": {"tree": name, "spec": spec, "observed": o.strip()}})
        elif om.strip() != str(gss):
            mismatches.append({"key": "sysfs-model", "what": "sysfs tree '%s' (detected %s): get_sieve_size() = %d, model %s" % (name, t[:7], gss, om.strip()), "failing_input": None})
        elif t[10:] != ref_t[10:]:
            mismatches.append({"key": "sysfs-results", "what": "sysfs tree '%s': results %s differ from %s" % (name, t[10:], ref_t[10:]), "failing_input": {"tree": name, "spec": spec, "observed": o.strip()}})
        elif len(samples) < 6:
            samples.append({"tree": name, "detected": t[:7], "sieve_size": gss})
    dist["sysfs_trees"] = len(trees(rng))
    # 4. clamps through the API
    for args, rng_ in ((["5"], (16, 16)), (["0"], (16, 16)), (["100000"], (8192, 8192)), (["-7"], (16, 16)), (["17", "0"], (17, 17)), (["4096", "9999"], (4096, 4096)), (["16", "-3"], (16, 16))):
        lo, hi = rng_
        rc, o, e = ps.run([cp] + args, timeout=60)
        ev += 1
        t = o.split()
        sigs.add(("clamp", tuple(args)))
        if rc != 0 or len(t) < 10 or (lo is not None and not (lo <= int(t[7]) <= hi)) or not (1 <= int(t[8]) <= int(t[9])) or t[10:] != ref_t[10:]:
            mismatches.append({"key": "clamp", "what": "set_sieve_size/set_num_threads %s: %s" % (args, o.strip()), "failing_input": {"args": args, "observed": o.strip()}})
    return {"evaluations": ev, "distinct_nontrivial": len(sigs),
            "rule": "Erat::init geometry for %d sieve sizes (all 16..8192 in the thorough tier) x random intervals up to 2^64-1: model vs implementation + admissibility; one workload set counted with every sieve size, 1..16 threads, both dispatch builds vs the oracle; printed output (-p, -p2) of long intervals with 6 thread/size/build settings vs the single-threaded run; iterator histories on both builds; %d synthetic sysfs trees (missing, zero, huge, garbage, overflow, hybrid, map/list sharing, 2^20+1 threads) through hook H2: start-up, clamp, model of get_sieve_size, unchanged results; out-of-range settings through the API" % (len(sizes), len(trees(rng))),
            "samples": samples, "mismatches": sorted(mismatches, key=lambda m: 0 if m.get("failing_input") else 1)[:20], "distribution": dist, "variants": ["default", "portable"]}


def oracle_isqrt(n):
    import math
    return math.isqrt(n)


def search(ctx, broken):
    sub = type(ctx)(ctx.pid, ctx.tier, ctx.seed + 217645177)
    res = correspond(sub)
    extra = C04.search(type(ctx)("C04", ctx.tier, ctx.seed + 1), broken)
    return [m for m in res["mismatches"] if m.get("failing_input")] + extra


def replay(ctx, obj):
    print(obj.get("what")); return 0

"""C01: forward iteration yields exactly the primes >= start, in order."""
import os, json, glob
import ps, iterlib, oracle

LEVEL = "proof"
THEOREMS = ["C01_next_calls_spec", "C01_every_call_returns", "pg_primes_spec", "smallPrimes_ok", "primePi_ok", "C01_next_calls_model_kernel", "C01_bitValues_ok", "C01_nextPrime_variants_agree", "C01_decode_word_spec"]
ASSUMPTIONS = [
    "erat_spec: the segmented sieve proper (Erat: presieve + EratSmall/Medium/Big cross-off + SievingPrimes) yields exactly the primes of [max(start,721), stop]; visible hypothesis of C01_next_calls_spec, exercised by the correspondence at all magnitudes, sieve sizes and both dispatch builds",
    "chunk-length heuristics, block layout, stop_hint: universally quantified",
    "AVX512 / portable bit decoding are compared at specification level only (both builds run)",
]
EXPLANATION = "Coq theorem on the iterator+PrimeGenerator model (tables regenerated from the source) + correspondence of model, implementation and an independent oracle on forward histories and blocks"
SIEVE_SIZES = [16, 17, 23, 32, 100, 256, 1000, 4096, 8192]


def forward_history(rng, binding):
    s = iterlib.interesting_starts(rng, 1)[0]
    h = iterlib.pick_hint(rng, s)
    ops = ["SS %d" % rng.choice(SIEVE_SIZES), "NEW %d %d" % (s, h)]
    n = rng.between(2, 12) if s > 10 ** 13 else rng.between(3, 60)
    for _ in range(n):
        r = rng.below(100)
        if r < 80:
            ops.append("N")
        elif r < 92:
            ops.append("NE %d" % rng.choice([40, 1100]))
        elif s < 10 ** 13:
            s = max(0, min(iterlib.MAX64, s + rng.between(-3000, 100000)))
            ops.append("J %d %d" % (s, iterlib.pick_hint(rng, s)))
    return ops


def block_history(rng, big_ok=True):
    k = rng.below(100)
    if k < 50:
        s = rng.below(10 ** rng.between(1, 9))
    elif k < 80:
        s = rng.below(10 ** rng.between(10, 14))
    elif k < 92 or not big_ok:
        p = rng.choice([65521, 65537, 1000003, 16777213, 4294967291, 4294967311])
        s = p * p - rng.between(0, 30000)
    else:
        s = iterlib.MAX64 - rng.below(10 ** 6)
    nblocks = rng.between(1, 3) if s > 10 ** 15 else rng.between(2, 12)
    return ["SS %d" % rng.choice(SIEVE_SIZES), "NEW %d %d" % (s, iterlib.pick_hint(rng, s))] + ["GN"] * nblocks


def correspond(ctx, scale=1, variants=None, use_oracle=False):
    rng = ctx.rng
    variants = variants or (("default", "portable") if ctx.thorough else ("default",))
    scale = scale * (6 if ctx.thorough else 1)
    hists = []
    for f in sorted(glob.glob(os.path.join(ps.ROOT, "corpus", "iter", "*.json"))):
        c = json.load(open(f))
        if c.get("property") in (None, "C01"):
            hists.append((c["binding"], c["ops"]))
    # 1. exhaustive sweep over the cached-prime table and its hand-over to the sieve
    for s in range(0, 800):
        b = "cpp" if s % 2 == 0 else "c"
        h = [iterlib.MAX64, s, s + 40, max(0, s - 3), 763][s % 5]
        hists.append((b, ["NEW %d %d" % (s, h), "N", "N", "N"]))
    # 2. random forward histories, several sieve sizes
    for k in range(150 * scale):
        b = "cpp" if k % 2 == 0 else "c"
        hists.append((b, forward_history(rng, b)))
    # 2b. a sieve array above 4 MiB (sieve size 8192 KiB, chunk = 2*sqrt(n) numbers at n >= 1e16): the only
    #     configuration in which the sieving primes' multipleIndex field uses its top bit
    for b in ("cpp", "c")[:2 if ctx.thorough else 1]:
        s0 = 10 ** 16 + rng.below(10 ** 12)
        hists.append((b, ["SS 8192", "NEW %d %d" % (s0, iterlib.MAX64)] + ["N"] * 150))
    nmodel = len(hists)
    # 3. blocks filled by generate_next_primes (checked against the specification with the independent oracle)
    for k in range(60 * scale):
        hists.append(("cpp" if k % 2 == 0 else "c", block_history(rng)))
    # 3b. p^2 on the last bit of a middle segment of one chunk: 16 KiB segments (491520 numbers), the chunk extended
    #     by the stop hint over k+1 segments; p only becomes a sieving prime if segmentHigh covers that last bit
    import math
    for k in range(4 * scale):
        while True:
            p = oracle.next_prime_ge(rng.choice([1000, 3000, 10 ** 4, 10 ** 5, 3 * 10 ** 5]) + rng.below(2000))
            if p % 30 in (1, 11, 19, 29):
                break
        nseg = rng.between(2, 3)
        low = p * p - 1 - nseg * 491520
        if low < 0:
            continue
        nblk = int(1.25 * (nseg * 491520 + 2000) / (math.log(p * p) - 1) / 1024) + 3
        hists.append(("cpp" if k % 2 == 0 else "c", ["SS 16", "NEW %d %d" % (low + 7, p * p + rng.between(100, 3000))] + ["GN"] * nblk))
    mismatches, samples, sigs = [], [], set()
    dist = {"magnitude": {}, "sieve_sizes": {}, "blocks": 0, "block_primes": 0, "errors": 0, "buffer_edge_refills": 0}
    evaluations = 0
    for variant in variants:
        executed, crashed = iterlib.run_probe(hists, variant, timeout=1500 if ctx.thorough else 600)
        if crashed:
            idx = crashed["history_index"]
            mismatches.append({"key": "crash", "what": "implementation crashed / timed out during a forward history (rc=%s)" % crashed["rc"],
                               "failing_input": {"binding": hists[idx][0], "ops": hists[idx][1]}, "stderr": crashed["stderr"], "variant": variant})
        params = [iterlib.oracle_params(rng) for _ in executed[:nmodel]]
        model = iterlib.run_model(executed[:nmodel], params)
        for hi, ex in enumerate(executed):
            if ex is None:
                continue
            evaluations += 1
            b, ops = hists[hi]
            for op, r, pos in ex:
                if op.startswith("SS"):
                    dist["sieve_sizes"][op.split()[1]] = dist["sieve_sizes"].get(op.split()[1], 0) + 1
                if r == "err": dist["errors"] += 1
                if pos and pos[0] == 0 and pos[1] > 0: dist["buffer_edge_refills"] += 1
                if r.startswith("v "):
                    m = "1e%d" % iterlib.magnitude(int(r[2:])); dist["magnitude"][m] = dist["magnitude"].get(m, 0) + 1
                if r.startswith("b "):
                    dist["blocks"] += 1; n = r.count(" "); dist["block_primes"] += n
                    m = "1e%d" % iterlib.magnitude(int(r.split()[1])); dist["magnitude"][m] = dist["magnitude"].get(m, 0) + n
            if hi < nmodel:
                mo = model[hi]
                imp = [r for _, r, _ in ex]
                sigs.add((b, variant) + iterlib.signature(ex) + (iterlib.magnitude(int(ops[-1].split()[1])) if False else len(ex) > 10,))
                sc0 = iterlib.spec_check(ex) if use_oracle else None
                if imp != mo[:len(imp)] or sc0 is not None:
                    j = next((i for i in range(len(imp)) if i >= len(mo) or imp[i] != mo[i]), sc0[0] if sc0 else 0)
                    sc = sc0 or iterlib.spec_check(ex)
                    m = {"key": "forward-history", "variant": variant, "binding": b, "ops": ops,
                         "executed": [[o, r] for o, r, _ in ex[:j + 1]], "model_says": mo[j] if j < len(mo) else None, "impl_says": imp[j]}
                    if sc is not None:
                        m["what"] = "next_prime returns %s where the specification requires %s (op %d)" % (sc[2], sc[1], sc[0])
                        m["failing_input"] = {"binding": b, "executed_prefix": [[o, r] for o, r, _ in ex[:sc[0] + 1]], "expected": sc[1], "observed": sc[2]}
                    else:
                        m["what"] = "model and implementation disagree on a history the independent oracle accepts"
                        m["failing_input"] = None
                    mismatches.append(m)
                elif len(samples) < 3 and len(ex) > 5:
                    samples.append({"binding": b, "history": ["%s -> %s" % (o, r) for o, r, _ in ex[:10]]})
            else:
                bc = iterlib.block_check(ex)
                sigs.add((b, variant, "blocks", ops[0], iterlib.magnitude(int(ops[1].split()[1]))))
                if bc is not None:
                    mismatches.append({"key": "forward-blocks", "variant": variant, "binding": b, "ops": ops,
                                       "what": "generate_next_primes block %d: expected %s, observed %s" % bc,
                                       "failing_input": {"binding": b, "ops": ops, "op_index": bc[0], "expected": bc[1], "observed": bc[2]}})
                elif len(samples) < 5:
                    samples.append({"binding": b, "ops": ops, "block_sizes": [r.count(" ") for _, r, _ in ex if r.startswith("b ")]})
    # bit decoding unit level: Erat::nextPrime over the set bits of 64-bit words vs the model's loop (both variants)
    words = [1, 1 << 63, (1 << 64) - 1, 0, 0x8000000000000001, 0xFF, 0xFF00000000000000, 0x5555555555555555, 0xAAAAAAAAAAAAAAAA]
    for _ in range(150):
        w = rng.below(1 << 64)
        k = rng.below(4)
        if k == 0: w &= rng.below(1 << 64) & rng.below(1 << 64)
        if k == 1: w = 1 << rng.below(64)
        if k == 2: w |= rng.below(1 << 64)
        words.append(w)
    lows = [0, 30, 30 * rng.below(1 << 50), ((1 << 64) - 1) // 30 * 30 - 240]
    dcases = [(w, lows[i % len(lows)]) for i, w in enumerate(words)]
    kp = ps.build_probe("kernel_probe"); model_exe = ps.build_model()
    rc, o, e = ps.run([kp], input="".join("DECODE %d %d\n" % c for c in dcases), timeout=120)
    rcm, om, em = ps.run([model_exe], input="".join("LEAF decode %d %d\n" % c for c in dcases), timeout=300)
    dist["decode_words"] = len(dcases)
    oi, omm = o.split("\n"), om.split("\n")
    for idx, c in enumerate(dcases):
        evaluations += 1
        a_ = oi[idx].strip() if idx < len(oi) else "?"; b_ = omm[idx].strip() if idx < len(omm) else "?"
        sigs.add(("decode", bin(c[0]).count("1") // 16))
        if a_ != b_:
            mismatches.append({"key": "decode", "what": "decoding the word %#x at base %d: Erat::nextPrime yields %s..., the model %s..." % (c[0], c[1], a_[:120], b_[:120]), "failing_input": None})
    return {"evaluations": evaluations, "distinct_nontrivial": len(sigs),
            "rule": "exhaustive starts 0..799 x 5 hint placements (cached-prime table, 719/721 hand-over); random forward histories (next, next-to-buffer-edge, jump_to) with sieve sizes %s; generate_next_primes block sequences at magnitudes up to 2^64 compared with an independent segmented sieve / Miller-Rabin. distinct = distinct (binding, build, transition kinds / sieve size, magnitude)" % SIEVE_SIZES,
            "samples": samples, "mismatches": sorted(mismatches, key=lambda m: 0 if m.get("failing_input") else 1)[:20], "distribution": dist, "variants": list(variants)}


def search(ctx, broken):
    sub = type(ctx)(ctx.pid, ctx.tier, ctx.seed + 104729)
    res = correspond(sub, scale=2, variants=("default", "portable"), use_oracle=True)
    return [m for m in res["mismatches"] if m.get("failing_input")]


def replay(ctx, obj):
    fi = obj.get("failing_input") or {}
    ops = obj.get("ops") or fi.get("ops") or [o for o, _ in fi.get("executed_prefix", [])]
    b = obj.get("binding") or fi.get("binding", "cpp")
    executed, crashed = iterlib.run_probe([(b, ops)], obj.get("variant", "default"))
    if crashed:
        print("VIOLATION property=%s replay=(given) crash" % ctx.pid); return 1
    sc = iterlib.block_check(executed[0]) if any(o == "GN" for o in ops) else iterlib.spec_check(executed[0])
    if sc:
        print("replayed: op %d expected %s observed %s" % sc)
        print("VIOLATION property=%s replay=(given)" % ctx.pid)
        return 1
    print("replayed: history satisfies the specification")
    return 0

"""Iterator histories: generation, execution on the implementation (probe) and
on the extracted model (driver), comparison, classification against the
cursor specification with an independent oracle, shrinking."""
import os, sys, math
import ps, oracle

U64 = 1 << 64
MAX64 = U64 - 1
MAXPRIME = 18446744073709551557


def interesting_starts(rng, n, hi_frac=(70, 20, 8, 2)):
    """structured start values: residues mod 30/240, 0..2, 719..721 (cached table edge),
    p^2 +- 1, powers of two and ten, the top of the range"""
    out = []
    for _ in range(n):
        r = rng.below(100)
        if r < hi_frac[0]:
            kind = rng.below(10)
            if kind == 0:
                v = rng.below(12)
            elif kind == 1:
                v = rng.between(700, 740)
            elif kind == 2:
                p = rng.choice([7, 11, 13, 17, 19, 23, 29, 31, 37, 41, 163, 167, 173, 251, 257, 719, 727, 1009, 3137, 3163])
                q = rng.choice([p, p + 2, p + 4, p + 6, 7, 11, 13, 31])
                v = max(0, p * q + rng.between(-2, 2))
            elif kind == 3:
                v = 30 * rng.below(40000) + rng.below(31)
            elif kind == 4:
                v = 240 * rng.below(4000) + rng.choice([0, 1, 6, 7, 8, 30, 31, 32, 36, 37, 239])
            elif kind == 5:
                v = (1 << rng.between(3, 23)) + rng.between(-3, 3)
            else:
                v = rng.below(10 ** rng.between(1, 7))
        elif r < hi_frac[0] + hi_frac[1]:
            kind = rng.below(5)
            if kind == 4:
                # layer thresholds of the sieve: the internal stop of the iterator's generator crosses T^4 (SievingPrimes builds its
                # tiny sieve iff 165^2 <= isqrt(stop)) or the EratSmall / EratMedium limits
                t = rng.choice([165, 165, 167, 169])
                v = t ** 4 + rng.between(-50000, 50000)
            elif kind == 0:
                v = (1 << 32) + rng.between(-3000, 3000)
            elif kind == 1:
                p = rng.choice([65521, 65537, 46337, 46349, 99991, 1000003])
                v = p * p + rng.between(-3, 3)
            else:
                v = rng.below(10 ** rng.between(8, 12))
        elif r < hi_frac[0] + hi_frac[1] + hi_frac[2]:
            v = rng.below(10 ** rng.between(13, 16))
        else:
            kind = rng.below(3)
            if kind == 0:
                v = MAX64 - rng.below(3000)
            elif kind == 1:
                v = MAXPRIME + rng.between(-200, 58)
            else:
                v = U64 - (1 << rng.between(12, 40)) + rng.between(-100, 100)
        out.append(max(0, min(MAX64, v)))
    return out


def boundary_hints():
    """hints h whose shortened backward chunk [h - maxPrimeGap(h), ...] starts exactly on a case-split
    boundary of the generator (0,1,2,3: sentinel; 719,720,721: cached-prime table / sieve hand-over)"""
    import math
    out = []
    for h in range(0, 900):
        g = int(math.log(max(8.0, float(h))) ** 2)
        if max(0, h - g) in (0, 1, 2, 3, 718, 719, 720, 721, 722):
            out.append(h)
    return out


BOUNDARY_HINTS = boundary_hints()


def hint_crossing_history(rng, binding):
    """descend (or ascend) through the region of the stop_hint"""
    h = rng.choice(BOUNDARY_HINTS) if rng.chance(1, 2) else rng.below(10 ** rng.between(1, 6))
    s = h + rng.between(0, 6000)
    ops = ["NEW %d %d" % (s, h), "PE 3000", "PE 3000", "P", "N", "N"]
    if rng.chance(1, 2):
        ops = ["NEW %d %d" % (max(0, h - rng.between(0, 3000)), h), "NE 1100", "NE 1100", "N", "P", "P"]
    return ops


def pick_hint(rng, s):
    k = rng.below(10)
    if k < 4:
        return MAX64
    if k == 4:
        return s
    if k == 5:
        return max(0, s - rng.between(1, 5000))
    if k == 6:
        return rng.below(min(s + 1, 1000))
    if k == 7:
        return min(MAX64, s + rng.between(1, 300))
    return min(MAX64, s + rng.between(300, 20000))


def gen_history(rng, binding, maxlen=40, hi_frac=(70, 20, 8, 2), ops_weights=None):
    """one random history (list of op strings incl. macros NE/PE)"""
    s = interesting_starts(rng, 1, hi_frac)[0]
    h = pick_hint(rng, s)
    ops = ["NEW %d %d" % (s, h)]
    n = rng.between(3, maxlen)
    big = s > 10 ** 13
    huge = s > 10 ** 17
    if big:
        n = min(n, 10)
    if huge:
        n = min(n, 6)
    cur = s
    resets = 0
    if not big:
        hi_frac = (88, 12, 0, 0)     # a history that starts low stays below 1e12 (cost control)
    for _ in range(n):
        r = rng.below(100)
        if big and r >= 60:
            # every re-initialisation at this magnitude costs O(sqrt(n)): keep them rare
            resets += 1
            if resets > (1 if huge else 3):
                r = rng.below(60)
            elif r < 76:
                r = 76
            if 76 <= r < 85 or r >= 98:
                cur = max(0, min(MAX64, cur + rng.between(-3000, 3000)))
                ops.append("J %d %d" % (cur, pick_hint(rng, cur)))
                continue
        if r < 30:
            ops.append("N")
        elif r < 60:
            ops.append("P")
        elif r < 68:
            ops.append("NE %d" % rng.choice([3, 40, 1100, 1100]))
        elif r < 76:
            ops.append("PE %d" % rng.choice([3, 40, 400, 3000]))
        elif r < 85:
            if rng.chance(1, 2):
                cur = max(0, min(MAX64, cur + rng.between(-3000, 3000)))
            else:
                cur = interesting_starts(rng, 1, hi_frac)[0]
            ops.append("J %d %d" % (cur, pick_hint(rng, cur)))
        elif r < 89:
            if binding == "c":
                cur = max(0, min(MAX64, cur + rng.between(-3000, 3000)))
                ops.append("S %d %d" % (cur, pick_hint(rng, cur)))
            else:
                ops.append("M %d" % rng.below(3))
        elif r < 93:
            ops.append("C")
            cur = 0
        elif r < 96:
            if binding == "cpp":
                ops.append("M %d" % rng.below(3))
            else:
                ops.append("N")
        elif r < 98:
            ops.append("F")
            cur = 0
        else:
            cur = interesting_starts(rng, 1, hi_frac)[0]
            ops.append("NEW %d %d" % (cur, pick_hint(rng, cur)))
    return ops


def _parse_probe(out):
    res = []
    cur = None
    for line in out.splitlines():
        if line.startswith("ITER"):
            cur = []
        elif line == "END":
            res.append(cur)
            cur = None
        elif cur is not None and " | " in line:
            op, r = line.split(" | ", 1)
            pos = None
            if " # " in r:
                r, ps_ = r.split(" # ")
                pos = tuple(int(x) for x in ps_.split())
            cur.append((op, r, pos))
    return res, cur


def run_probe(histories, variant="default", timeout=600):
    """histories: list of (binding, [ops]).  returns (list of executed [(op, result, (i,size))] per history
    (None for histories not executed because the probe died), crash-info or None)"""
    exe = ps.build_probe("iter_probe", variant)
    shards = ps.shard(histories)
    inputs = []
    for sh in shards:
        inp = []
        for _, (b, ops) in sh:
            inp.append("ITER %s" % b)
            inp += ops
            inp.append("END")
        inputs.append("\n".join(inp) + "\n")
    outs = ps.par_run(exe, inputs, timeout=timeout)
    result = [None] * len(histories)
    crashed = None
    for sh, (rc, out, err) in zip(shards, outs):
        res, cur = _parse_probe(out)
        for (idx, _), r in zip(sh, res):
            result[idx] = r
        if rc != 0 or len(res) != len(sh):
            bad = sh[len(res)][0] if len(res) < len(sh) else sh[-1][0]
            crashed = {"rc": rc, "history_index": bad, "partial": cur, "stderr": err[-1500:]}
    return result, crashed


def oracle_params(rng):
    return [rng.between(0, 400), rng.between(1, 2000), rng.between(0, 400), rng.between(1, 3000), rng.between(0, 60), rng.between(0, 6)]


def run_model(executed, params_list, timeout=900):
    """executed: list of [(op, result, pos)] (None entries skipped); returns list of [result strings] from the model"""
    exe = ps.build_model()
    items = [(ex, prm) for ex, prm in zip(executed, params_list)]
    shards = ps.shard(items)
    inputs = []
    for sh in shards:
        inp = []
        for _, (ex, prm) in sh:
            inp.append("ITER " + " ".join(map(str, prm)))
            inp += [op.split()[0] if op.startswith("M") else op for op, _, _ in (ex or [])]
            inp.append("END")
        inputs.append("\n".join(inp) + "\n")
    outs = ps.par_run(exe, inputs, timeout=timeout)
    result = [None] * len(items)
    for sh, (rc, out, err) in zip(shards, outs):
        if rc != 0:
            raise ps.BuildError("model driver failed rc=%d: %s" % (rc, err[-2000:]))
        res = []
        cur = []
        for line in out.splitlines():
            if line == "END":
                res.append(cur)
                cur = []
            else:
                cur.append(line)
        for (idx, _), r in zip(sh, res):
            result[idx] = r
    return result


def spec_check(executed):
    """independent check of an executed history against the cursor specification.
    returns None if it satisfies the spec, else (index, expected, observed)"""
    lo, hi1 = 0, 1
    for idx, (op, r, _) in enumerate(executed):
        t = op.split()
        if t[0] == "N":
            p = oracle.next_prime_ge(lo)
            exp = "err" if p is None else "v %d" % p
            if r != exp:
                return (idx, exp, r)
            if p is not None:
                lo, hi1 = p + 1, p
        elif t[0] == "P":
            p = oracle.prev_prime_lt(hi1)
            exp = "v %d" % (p if p is not None else 0)
            if r != exp:
                return (idx, exp, r)
            lo, hi1 = (p + 1, p) if p is not None else (1, 0)
        elif t[0] in ("J", "NEW"):
            lo, hi1 = int(t[1]), int(t[1]) + 1
        elif t[0] == "S":
            lo, hi1 = int(t[1]) + 1, int(t[1])
        elif t[0] in ("C", "F"):
            lo, hi1 = 0, 1
    return None


def signature(executed):
    """branch signature of a history: which kinds of transitions it contains (for distinct_nontrivial)"""
    sig = []
    prev = None
    ppos = None
    for op, r, pos in executed:
        k = op.split()[0]
        if k in ("N", "P") and prev in ("N", "P") and prev != k:
            edge = ppos is not None and ppos[1] > 0 and (ppos[0] == 0 or ppos[0] + 1 >= ppos[1])
            sig.append(prev + k + ("@edge" if edge else ""))
        ppos = pos
        if r == "err":
            sig.append("err")
        if r == "v 0":
            sig.append("zero")
        if k in ("J", "S", "C", "F", "M", "NEW"):
            sig.append(k)
        prev = k
    return tuple(sorted(set(sig)))


def magnitude(v):
    return 0 if v <= 0 else int(math.log10(v))


def primes_in(a, b):
    """oracle primes in [a, b] (segment sieve when the square root is affordable, else Miller-Rabin)"""
    if b < 2 * 10 ** 15:
        return oracle.segment_primes(a, b)
    return oracle.primes_between(a, b)


def block_check(executed):
    """check a history made of NEW/J/SS and GN (or GP) block operations against the specification:
    every block non-empty, made of consecutive primes, contiguous with the previous block.
    returns None or (index, expected, observed)"""
    lo, hi1 = 0, 1
    for idx, (op, r, _) in enumerate(executed):
        t = op.split()
        if t[0] in ("J", "NEW"):
            lo, hi1 = int(t[1]), int(t[1]) + 1
        elif t[0] == "GN":
            p = oracle.next_prime_ge(lo)
            if p is None:
                if r != "err":
                    return (idx, "err", r[:80])
                continue
            if not r.startswith("b ") :
                return (idx, "block starting at %d" % p, r[:80])
            blk = [int(x) for x in r.split()[1:]]
            if not blk or blk[0] != p:
                return (idx, "non-empty block starting at %d" % p, r[:80])
            exp = primes_in(blk[0], blk[-1])
            if blk != exp:
                j = next((i for i in range(min(len(blk), len(exp))) if blk[i] != exp[i]), min(len(blk), len(exp)))
                return (idx, "consecutive primes; element %d should be %s" % (j, exp[j] if j < len(exp) else "absent"),
                        "element %d is %s" % (j, blk[j] if j < len(blk) else "absent"))
            lo = blk[-1] + 1
        elif t[0] == "GP":
            p = oracle.prev_prime_lt(hi1)
            if not r.startswith("b "):
                return (idx, "a block", r[:80])
            blk = [int(x) for x in r.split()[1:]]
            if not blk:
                return (idx, "non-empty block", "empty block")
            top = blk[-1]
            if top != (p if p is not None else 0):
                return (idx, "block ending at %s" % (p if p is not None else 0), "block ending at %d" % top)
            body = blk[1:] if blk[0] == 0 else blk
            exp = primes_in(body[0], body[-1]) if body else []
            if body != exp:
                j = next((i for i in range(min(len(body), len(exp))) if body[i] != exp[i]), min(len(body), len(exp)))
                return (idx, "consecutive primes; element %d should be %s" % (j, exp[j] if j < len(exp) else "absent"),
                        "element %d is %s" % (j, body[j] if j < len(body) else "absent"))
            if blk[0] == 0 and body and body[0] != 2:
                return (idx, "0 sentinel only directly before 2", "0 followed by %d" % body[0])
            hi1 = blk[0]
    return None

"""C02: backward iteration yields exactly the primes <= start, then 0."""
import os, json, glob
import ps, iterlib, oracle

LEVEL = "proof"
THEOREMS = ["C02_prev_calls_spec", "C02_every_call_returns", "pg_primes_spec", "smallPrimes_ok", "primePi_ok", "C02_prev_calls_model_kernel"]
ASSUMPTIONS = [
    "erat_spec (the sieve proper is exact above 720): visible hypothesis of C02_prev_calls_spec, exercised by the correspondence",
    "getPrevDist / maxPrimeGap / stop_hint universally quantified; primeCountUpper only sizes the buffer (capacity is not part of the model)",
]
EXPLANATION = "Coq theorem on the iterator+PrimeGenerator model + correspondence of model, implementation and an independent oracle on backward histories and blocks"
SIEVE_SIZES = [16, 17, 23, 32, 100, 256, 1000, 4096, 8192]


def backward_history(rng, binding):
    s = iterlib.interesting_starts(rng, 1, (66, 30, 4, 0))[0]
    h = iterlib.pick_hint(rng, s)
    if rng.chance(1, 4):
        h = max(0, s - rng.between(0, 3000))       # hints inside / at / below the first chunk
    ops = ["SS %d" % rng.choice(SIEVE_SIZES), "NEW %d %d" % (s, h)]
    n = rng.between(1, 3) if s > 10 ** 13 else rng.between(3, 40)
    for _ in range(n):
        r = rng.below(100)
        if r < 75:
            ops.append("P")
        elif r < 92:
            ops.append("PE %d" % rng.choice([40, 400, 5000]) if s < 10 ** 13 else "P")
        elif s < 10 ** 13:
            s = max(0, min(iterlib.MAX64, s + rng.between(-100000, 3000)))
            ops.append("J %d %d" % (s, iterlib.pick_hint(rng, s)))
    return ops


def block_history(rng):
    # a backward block spans ~2*sqrt(start) numbers: keep the magnitudes where that is affordable
    k = rng.below(100)
    if k < 60:
        s = rng.below(10 ** rng.between(1, 8))
    elif k < 90:
        s = rng.below(10 ** rng.between(9, 11))
    else:
        p = rng.choice([65521, 65537, 99991, 300007])
        s = p * p + rng.between(0, 30000)
    nblocks = 1 if s > 10 ** 10 else rng.between(1, 4)
    return ["SS %d" % rng.choice(SIEVE_SIZES), "NEW %d %d" % (s, iterlib.pick_hint(rng, s))] + ["GP"] * nblocks


def correspond(ctx, scale=1, variants=None, use_oracle=False):
    rng = ctx.rng
    variants = variants or (("default", "portable") if ctx.thorough else ("default",))
    scale = scale * (6 if ctx.thorough else 1)
    hists = []
    for f in sorted(glob.glob(os.path.join(ps.ROOT, "corpus", "iter", "*.json"))):
        c = json.load(open(f))
        if c.get("property") in (None, "C02"):
            hists.append((c["binding"], c["ops"]))
    # 1. exhaustive starts around the cached-prime table; full descents to 0 and beyond
    for s in range(0, 800):
        b = "cpp" if s % 2 == 0 else "c"
        h = [iterlib.MAX64, s, max(0, s - 40), 763, 0][s % 5]
        hists.append((b, ["NEW %d %d" % (s, h), "P", "P", "P"]))
    for s in (0, 1, 2, 3, 5, 6, 7, 11, 719, 720, 721, 727, 763, 1000, 3595, 15100, 61117):
        for h in (iterlib.MAX64, 763, 0, s):
            hists.append(("cpp" if s % 2 else "c", ["NEW %d %d" % (s, h), "PE 8000", "PE 8000", "P", "P", "P", "P"]))
    # 2. random backward histories
    for k in range(130 * scale):
        b = "cpp" if k % 2 == 0 else "c"
        hists.append((b, backward_history(rng, b)))
    # the top of the range: one (quick) or a few (thorough) single calls; each costs seconds (a hint just below
    # the start shortens the chunk, which would otherwise span ~6e9 numbers)
    for k in range(2 if not ctx.thorough else 8):
        s = iterlib.MAX64 - rng.below(5000) if k % 2 == 0 else (1 << 64) - (1 << rng.between(33, 40)) + rng.below(1000)
        hists.append(("cpp" if k % 2 else "c", ["NEW %d %d" % (s, s - rng.between(0, 2000)), "P", "P"]))
    # a backward chunk of several sieve segments ending at the top of the range (16 KiB segments, hint 3e6 below)
    hists.append(("cpp", ["SS 16", "NEW %d %d" % (iterlib.MAX64 - rng.below(3), iterlib.MAX64 - 3 * 10 ** 6 - rng.below(10 ** 5)), "P", "P", "P"]))
    # a sieve array above 4 MiB (sieve size 8192 KiB, chunk = 2*sqrt(n) numbers at n >= 1e16): the only
    # configuration in which the sieving primes' multipleIndex field uses its top bit
    for b in ("c", "cpp")[:2 if ctx.thorough else 1]:
        hists.append((b, ["SS 8192", "NEW %d 0" % (10 ** 16 + rng.below(10 ** 12))] + ["P"] * 60))
    nmodel = len(hists)
    # 3. blocks filled by generate_prev_primes
    for k in range(50 * scale):
        hists.append(("cpp" if k % 2 == 0 else "c", block_history(rng)))
    mismatches, samples, sigs = [], [], set()
    dist = {"magnitude": {}, "sieve_sizes": {}, "blocks": 0, "block_primes": 0, "zeros": 0, "chunk_refills": 0}
    evaluations = 0
    for variant in variants:
        executed, crashed = iterlib.run_probe(hists, variant, timeout=1500 if ctx.thorough else 600)
        if crashed:
            idx = crashed["history_index"]
            mismatches.append({"key": "crash", "what": "implementation crashed / timed out during a backward history (rc=%s)" % crashed["rc"],
                               "failing_input": {"binding": hists[idx][0], "ops": hists[idx][1]}, "stderr": crashed["stderr"], "variant": variant})
        params = [iterlib.oracle_params(rng) for _ in executed[:nmodel]]
        model = iterlib.run_model(executed[:nmodel], params)
        for hi, ex in enumerate(executed):
            if ex is None:
                continue
            evaluations += 1
            b, ops = hists[hi]
            for op, r, pos in ex:
                if op.startswith("SS"):
                    dist["sieve_sizes"][op.split()[1]] = dist["sieve_sizes"].get(op.split()[1], 0) + 1
                if r == "v 0": dist["zeros"] += 1
                if pos and pos[1] > 0 and pos[0] + 1 == pos[1] and op == "P": dist["chunk_refills"] += 1
                if r.startswith("v "):
                    m = "1e%d" % iterlib.magnitude(int(r[2:])); dist["magnitude"][m] = dist["magnitude"].get(m, 0) + 1
                if r.startswith("b "):
                    dist["blocks"] += 1; n = r.count(" "); dist["block_primes"] += n
            if hi < nmodel:
                mo = model[hi]
                imp = [r for _, r, _ in ex]
                sigs.add((b, variant) + iterlib.signature(ex) + (len(ex) > 10,))
                sc0 = iterlib.spec_check(ex) if use_oracle else None
                if imp != mo[:len(imp)] or sc0 is not None:
                    j = next((i for i in range(len(imp)) if i >= len(mo) or imp[i] != mo[i]), sc0[0] if sc0 else 0)
                    sc = sc0 or iterlib.spec_check(ex)
                    m = {"key": "backward-history", "variant": variant, "binding": b, "ops": ops,
                         "executed": [[o, r] for o, r, _ in ex[max(0, j - 5):j + 1]], "model_says": mo[j] if j < len(mo) else None, "impl_says": imp[j]}
                    if sc is not None:
                        m["what"] = "prev_prime returns %s where the specification requires %s (op %d)" % (sc[2], sc[1], sc[0])
                        m["failing_input"] = {"binding": b, "ops": ops, "op_index": sc[0], "expected": sc[1], "observed": sc[2]}
                    else:
                        m["what"] = "model and implementation disagree on a history the independent oracle accepts"
                        m["failing_input"] = None
                    mismatches.append(m)
                elif len(samples) < 3 and len(ex) > 5:
                    samples.append({"binding": b, "history": ["%s -> %s" % (o, r) for o, r, _ in ex[:10]]})
            else:
                bc = iterlib.block_check(ex)
                sigs.add((b, variant, "blocks", ops[0], iterlib.magnitude(int(ops[1].split()[1]))))
                if bc is not None:
                    mismatches.append({"key": "backward-blocks", "variant": variant, "binding": b, "ops": ops,
                                       "what": "generate_prev_primes block %d: expected %s, observed %s" % bc,
                                       "failing_input": {"binding": b, "ops": ops, "op_index": bc[0], "expected": bc[1], "observed": bc[2]}})
                elif len(samples) < 5:
                    samples.append({"binding": b, "ops": ops, "block_sizes": [r.count(" ") for _, r, _ in ex if r.startswith("b ")]})
    return {"evaluations": evaluations, "distinct_nontrivial": len(sigs),
            "rule": "exhaustive starts 0..799 x 5 hint placements; full descents to 0 (and 4 calls beyond) from starts around the table edge and chunk seams; random backward histories with sieve sizes %s and hints inside/at/below the chunk; generate_prev_primes blocks up to 2^64 against an independent oracle. distinct = distinct (binding, build, transition kinds / sieve size, magnitude)" % SIEVE_SIZES,
            "samples": samples, "mismatches": sorted(mismatches, key=lambda m: 0 if m.get("failing_input") else 1)[:20], "distribution": dist, "variants": list(variants)}


def search(ctx, broken):
    sub = type(ctx)(ctx.pid, ctx.tier, ctx.seed + 15485863)
    res = correspond(sub, scale=2, variants=("default", "portable"), use_oracle=True)
    return [m for m in res["mismatches"] if m.get("failing_input")]


def replay(ctx, obj):
    fi = obj.get("failing_input") or {}
    ops = obj.get("ops") or fi.get("ops")
    b = obj.get("binding") or fi.get("binding", "cpp")
    executed, crashed = iterlib.run_probe([(b, ops)], obj.get("variant", "default"))
    if crashed:
        print("VIOLATION property=%s replay=(given) crash" % ctx.pid); return 1
    sc = iterlib.block_check(executed[0]) if any(o == "GP" for o in ops) else iterlib.spec_check(executed[0])
    if sc:
        print("replayed: op %d expected %s observed %s" % sc)
        print("VIOLATION property=%s replay=(given)" % ctx.pid)
        return 1
    print("replayed: history satisfies the specification")
    return 0

"""C04: count_primes equals pi(stop) - pi(start-1) exactly."""
import ps, oracle, countlib

LEVEL = "proof"
THEOREMS = ["C04_count_additive", "C04_small_primes_split", "C04_tiling_counts", "C04_segments_ok", "C04_segments_terminate", "C04_step_tables_ok", "C04_step_lift",
            "C04_cross_off_refines", "C04_kernel_segment", "C04_kernel_next_states", "C04_addSievingPrime_state", "C04_addSievingPrime_none",
            "C04_erat_kernel_correct", "C04_surviving_are_primes", "C04_kernel_run_example", "C04_presieve_tables_ok", "C04_primeBits_ok",
            "C04_presieve_bit_spec", "C04_erat_kernel_presieved", "C04_presieved_segment_spec", "C04_kernel_run_ps_example", "C04_erat_model_spec", "C04_count_model_kernel", "C04_end_masks_ok", "C04_erat_self_spec", "C04_kernel_popcount_spec"]
ASSUMPTIONS = [
    "erat_spec (the segmented sieve marks exactly the primes of [max(start,7), stop]) is the hypothesis under which the count equals the specification. Proved of the kernel: segment geometry, step tables, cross-off loop = specification, the per-segment theorem (bit set iff prime), state hand-over between segments, addSievingPrime's initial state. NOT proved: their assembly over the segment loop, SievingPrimes, presieve, EratMedium/EratBig bucket lists and SievingPrime bit packing, bit decoding, masking at the interval ends - exercised by the correspondence at segment seams, byte/bit edges, p*q boundaries, sieve arrays above 4 MiB, 7 sieve sizes, 1..16 threads, two dispatch builds, and by the cross-off unit comparison (XOFF)",
    "popcount (POPCNT instruction / Harley-Seal) is modelled as the number of set bits",
]
EXPLANATION = "Coq theorems on additivity / tiling / the 2,3,5 split + kernel-boundary correspondence of count_primes (C++ and C) with an independent segmented sieve"


def coq_eval_presieve(cases):
    """evaluate Model/PreSieveM.presieve_segment for the cases with vm_compute (one coqc run); one line of bytes per case"""
    import os, re
    d = os.path.join(ps.BUILD, "c04"); os.makedirs(d, exist_ok=True)
    f = os.path.join(d, "presieve_cases.v")
    with open(f, "w") as fh:
        fh.write("From Coq Require Import NArith List.\nImport ListNotations.\nFrom PS Require Import Model.PreSieveM.\nLocal Open Scope N_scope.\n")
        for low, size in cases:
            fh.write("Eval vm_compute in (presieve_segment %d %d).\n" % (low, size))
    rc, o, e = ps.run(["coqc", "-Q", ps.COQ, "PS", f], timeout=900, cwd=d)
    if rc != 0:
        return "coqc failed: " + (e or o)[-300:]
    out = []
    for blk in re.findall(r"=\s*\[(.*?)\]\s*:\s*list N", o, flags=re.S):
        out.append(" ".join(x.strip().replace("%N", "") for x in blk.replace("\n", " ").split(";") if x.strip()))
    return "\n".join(out)


def _oracle_counts(a, b):
    return oracle.counts_between(a, b) if a <= b else [0] * 6


def run_counts(ctx, cases, kinds, variants, key):
    mismatches, samples, sigs = [], [], set()
    dist = {"why": {}, "sieve_sizes": {}, "max_span": 0, "total_numbers": 0}
    evaluations = 0
    # the independent oracle (segmented sieve in python) is computed up-front in parallel
    import multiprocessing
    uniq = sorted(set((a, b) for (a, b, kb, why) in cases))
    huge = [iv for iv in uniq if iv[1] - iv[0] > 3 * 10 ** 7 and iv[0] >= 10 ** 13]
    big = [iv for iv in uniq if iv[1] >= 2 * 10 ** 15 and iv[0] <= iv[1] and iv not in huge]
    uniq_small = [iv for iv in uniq if iv not in big and iv not in huge]
    with multiprocessing.Pool(ps.NPROC) as pool:
        exp_cache = dict(zip(uniq_small, pool.starmap(_oracle_counts, uniq_small, chunksize=4)))
    exp_cache.update(dict(zip(big, countlib.mr_counts(big))))
    for iv in huge:      # prime count only (additive over pieces); k-tuplet kinds are not run on these
        exp_cache[iv] = [countlib.mr_prime_count_pieces(*iv)] + [None] * 5
    for (a, b) in uniq:
        dist["total_numbers"] += max(0, b - a)
    for variant in variants:
        probe = ps.build_probe("api_probe", variant)
        lines = []
        for (a, b, kb, why) in cases:
            for k in kinds:
                if exp_cache[(a, b)][k - 1] is None:
                    continue
                nthreads = 1 if why.startswith("sieve array above") else [1, 1, 2, 4, 16][(a + b + k) % 5]
                lines.append(("COUNT %d %d %d %d %d" % (k, a, b, nthreads, kb), (a, b, kb, why, k)))
        sh = ps.shard(lines)
        outs = ps.par_run(probe, ["\n".join(l for _, (l, _) in s) + "\n" for s in sh], timeout=900)
        for s, (rc, o, e) in zip(sh, outs):
            got = o.splitlines()
            if rc != 0 or len(got) != len(s):
                bad = s[min(len(got), len(s) - 1)][1][1]
                mismatches.append({"key": "crash", "what": "count crashed / timed out (rc=%d) on [%d, %d] sieve size %d" % (rc, bad[0], bad[1], bad[2]),
                                   "failing_input": {"start": bad[0], "stop": bad[1], "sieve_size": bad[2], "kind": bad[4]}, "stderr": e[-300:]})
                continue
            for (idx, (line, (a, b, kb, why, k))), g in zip(s, got):
                evaluations += 1
                t = g.split()
                cpp, c = t[1], t[3]
                exp = str(exp_cache[(a, b)][k - 1])
                dist["why"][why.split(" =")[0][:28]] = dist["why"].get(why.split(" =")[0][:28], 0) + 1
                dist["sieve_sizes"][str(kb)] = dist["sieve_sizes"].get(str(kb), 0) + 1
                dist["max_span"] = max(dist["max_span"], b - a)
                sigs.add((variant, k, why.split(" ")[0], kb, a % 30, b % 30, exp != "0"))
                if cpp != exp or c != exp:
                    mismatches.append({"key": key, "what": "count kind %d of [%d, %d] (sieve size %d KiB, %s): C++ %s, C %s, expected %s" % (k, a, b, kb, why, cpp, c, exp),
                                       "failing_input": {"kind": k, "start": a, "stop": b, "sieve_size": kb, "command": line, "observed": g, "expected": exp, "variant": variant}})
                elif len(samples) < 6 and exp not in ("0", "1") and why != "exhaustive small":
                    samples.append({"command": line, "why": why, "result": cpp})
    return evaluations, mismatches, samples, sigs, dist


def correspond(ctx, scale=1):
    rng = ctx.rng
    scale *= 4 if ctx.thorough else 1
    cases = countlib.seam_cases(rng, 110 * scale) + countlib.shape_cases(rng, 160 * scale) + countlib.layer_cases(rng, 40 * scale) + countlib.exhaustive_small(40) + countlib.top_cases(rng, 3 * scale) + countlib.big_sieve_cases(rng, 1 if scale == 1 else 3)
    variants = ("default", "portable") if ctx.thorough else ("default",)
    ev, mm, samples, sigs, dist = run_counts(ctx, cases, [1], variants, "count-primes")
    # segment skeleton: the segments the real Erat sieves vs the geometry model, at every magnitude (cheap: no sieving primes)
    kp = ps.build_probe("kernel_probe"); model = ps.build_model()
    sk = []
    for (a, b, kb, why) in cases:
        if a >= 7 and a <= b:
            sk.append((a, b, kb))
    for _ in range(300 * scale):
        kb = rng.choice(countlib.SIEVE_SIZES + [8192, 1000])
        a = max(7, rng.below(1 << rng.between(3, 64)))
        # at most a few thousand segments (16 KiB minimum segment = 491520 numbers)
        b = min((1 << 64) - 1, a + rng.below(min(1 << rng.between(3, 34), 2000 * 491520)))
        if rng.chance(1, 5):
            b = (1 << 64) - 1 - rng.below(40); a = b - rng.below(2000 * 491520)
        sk.append((a, b, kb))
    rc, o, e = ps.run([kp], input="".join("SEGS %d %d %d\nGEOM %d %d %d\n" % (c + c) for c in sk), timeout=600)
    li = o.splitlines()
    rcm, om, em = ps.run([model], input="".join("LEAF segs %s %d %d %d\n" % (li[2 * i + 1].split()[5], c[2], c[0], c[1]) for i, c in enumerate(sk) if 2 * i + 1 < len(li)), timeout=900)
    dist["segment_skeletons"] = len(sk)
    for i, (c, m) in enumerate(zip(sk, om.splitlines())):
        ev += 1
        impl = li[2 * i].strip()
        sigs.add(("segs", impl.count("|") > 1, c[1] > (1 << 64) - (1 << 40)))
        if impl != m.strip():
            mm.append({"key": "segments", "what": "segments of Erat(start=%d, stop=%d, %d KiB): implementation %s ; model %s" % (c[0], c[1], c[2], impl[:200], m.strip()[:200]), "failing_input": None})
    # cross-off unit level: the real EratSmall::crossOff for one sieving prime on an all-ones sieve (state from the real
    # addSievingPrime) vs the model's cross loop over the extracted step table (the loop the kernel theorem is about)
    xo = []
    for _ in range(150 * scale):
        pr_ = oracle.next_prime_ge(rng.choice([7, 11, 13, 17, 19, 23, 29, 31, 37, 100, 1000, 5000, 30000]) + rng.below(40))
        # the first multiple must lie within reach (SievingPrime packs multipleIndex into 23 bits; EratSmall only holds
        # primes whose next multiple is at most a few segments away): base within 3 segments below p^2, or anywhere above it
        low = 30 * (max(0, pr_ * pr_ - 30 * rng.below(3 * 20000)) // 30) if rng.chance(1, 2) else 30 * (pr_ * pr_ // 30 + rng.below(10 ** 9))
        l1 = rng.choice([64, 100, 1000, 16384, 32768])
        size = rng.between(1, 8) if rng.chance(1, 10) else rng.between(10, 20000)
        xo.append((pr_, low, l1, size))
    rc, o, e = ps.run([kp], input="".join("ASP30 %d %d %d\n" % ((1 << 64) - 1, c[0], c[1]) for c in xo), timeout=300)
    st = [l.split() for l in o.splitlines()]
    xq = [(c, s_) for c, s_ in zip(xo, st) if len(s_) == 2 and int(s_[0]) < (1 << 23) - 1]
    rc, o, e = ps.run([kp], input="".join("XOFF %d %d %d %s %s\n" % (c[3], c[2], c[0], s_[0], s_[1]) for c, s_ in xq), timeout=600)
    rcm, om, em = ps.run([model], input="".join("LEAF xoff %d %d %d %s %s\n" % (c[3], c[2], c[0], s_[0], s_[1]) for c, s_ in xq), timeout=900)
    dist["cross_off_units"] = len(xq)
    for (c, s_), a_, b_ in zip(xq, o.splitlines(), om.splitlines()):
        ev += 1
        sigs.add(("xoff", c[0] % 30, a_.startswith("|"), c[3] > c[2]))
        if a_.strip() != b_.strip():
            mm.append({"key": "cross-off", "what": "EratSmall::crossOff(prime %d, segment base %d, %d bytes, L1 %d, state %s): implementation changes %s..., model %s..." % (c[0], c[1], c[3], c[2], s_, a_[:120], b_[:120]), "failing_input": None})
    # EratBig unit level: the real EratBig (bucket lists in the MemoryPool, wheel-210 table, SievingPrime packing) on all-ones
    # sieves vs the model's bucket machine (the one C04_eratbig_buckets_refine / C12_eratbig_*_in_bounds are about): changed bytes
    # per segment, buckets_.size() and the content of every bucket list after the run.  States come from the real
    # Wheel210::addSievingPrime or are arbitrary (any wheel index, any index within one wheel step beyond the segment).
    eb = countlib.ebig_units(rng, 60 * scale)
    aq = []
    for _ in range(60 * scale):
        lg = rng.between(4, 14); size = 1 << lg
        pr_ = oracle.next_prime_ge(rng.choice([31, 100, 1000, 5000, 30000, 10 ** 6]) + rng.below(400))
        low = 30 * (max(0, pr_ * pr_ - 30 * rng.below(size)) // 30)
        aq.append((lg, pr_, low))
    rc, o, e = ps.run([kp], input="".join("ASP210 %d %d %d\n" % ((1 << 64) - 1, c[1], c[2]) for c in aq), timeout=300)
    for c, l in zip(aq, o.splitlines()):
        s_ = l.split()
        if len(s_) == 2 and int(s_[0]) <= (1 << c[0]) - 1 + (c[1] // 30) * 10 + 10:
            eb.append((c[0], rng.between(1, 5), [(c[1], int(s_[0]), int(s_[1]))], "addSievingPrime"))
    fmt = lambda c: "%d %d %s" % (c[0], c[1], " ".join("%d %d %d" % t for t in c[2]))
    rc, o, e = ps.run([kp], input="".join("EBIG %s\n" % fmt(c) for c in eb), timeout=600)
    rcm, om, em = ps.run([model], input="".join("LEAF ebig %s\n" % fmt(c) for c in eb), timeout=900)
    dist["eratbig_units"] = len(eb)
    if len(o.splitlines()) != len(eb) or len(om.splitlines()) != len(eb):
        mm.append({"key": "eratbig", "what": "EratBig unit comparison did not run: %d implementation results, %d model results for %d cases (%s)" % (len(o.splitlines()), len(om.splitlines()), len(eb), (e or em)[:200]), "failing_input": None})
    for c, a_, b_ in zip(eb, o.splitlines(), om.splitlines()):
        ev += 1
        sigs.add(("ebig", c[3], len(c[2]) > 1, c[0] > 10))
        if a_.strip() != b_.strip():
            mm.append({"key": "eratbig", "what": "EratBig(sieve 2^%d bytes, %d segments, states (prime, multipleIndex, wheelIndex) %s): implementation %s..., model %s..." % (c[0], c[1], c[2], a_[:160], b_[:160]), "failing_input": None})
    # EratMedium unit level: the real EratMedium (64 bucket lists, crossOff_7 .. crossOff_31, SievingPrime packing) vs the model's
    # 64-list machine (C04_eratmedium_buckets_refine / C12_eratmedium_*_in_bounds): changed bytes per segment and every list
    em_ = []
    aq = []
    for _ in range(80 * scale):
        size = rng.between(16, 4000) if rng.chance(4, 5) else rng.between(1, 15)
        np_ = rng.between(1, 8)
        for _k in range(np_):
            pr_ = oracle.next_prime_ge(rng.choice([7, 11, 13, 31, 100, 1000, 5000, 30000, 10 ** 6]) + rng.below(400))
            low = 30 * (max(0, pr_ * pr_ - 30 * rng.below(3 * size + 1)) // 30) if rng.chance(2, 3) else 30 * (pr_ * pr_ // 30 + rng.below(10 ** 9))
            aq.append((len(em_), pr_, low))
        em_.append([size, rng.between(1, 5), []])
    rc, o, e = ps.run([kp], input="".join("ASP30 %d %d %d\n" % ((1 << 64) - 1, c[1], c[2]) for c in aq), timeout=300)
    for c, l in zip(aq, o.splitlines()):
        s_ = l.split()
        if len(s_) == 2 and int(s_[0]) < (1 << 23) - 1:
            em_[c[0]][2].append((c[1], int(s_[0]), int(s_[1])))
    # plus arbitrary states: any wheel index below 64, any index within one wheel step beyond the segment
    em_ += countlib.emed_units(rng, 30 * scale)
    em_ = [c for c in em_ if c[2]]
    fmt = lambda c: "%d %d %s" % (c[0], c[1], " ".join("%d %d %d" % t for t in c[2]))
    rc, o, e = ps.run([kp], input="".join("EMED %s\n" % fmt(c) for c in em_), timeout=600)
    rcm, om, em2 = ps.run([model], input="".join("LEAF emed %s\n" % fmt(c) for c in em_), timeout=900)
    dist["eratmedium_units"] = len(em_)
    if len(o.splitlines()) != len(em_) or len(om.splitlines()) != len(em_):
        mm.append({"key": "eratmedium", "what": "EratMedium unit comparison did not run: %d implementation results, %d model results for %d cases (%s)" % (len(o.splitlines()), len(om.splitlines()), len(em_), (e or em2)[:200]), "failing_input": None})
    for c, a_, b_ in zip(em_, o.splitlines(), om.splitlines()):
        ev += 1
        sigs.add(("emed", len(c[2]) > 1, c[0] < 16, c[1] > 1))
        if a_.strip() != b_.strip():
            mm.append({"key": "eratmedium", "what": "EratMedium(sieve %d bytes, %d segments, states (prime, multipleIndex, wheelIndex) %s): implementation %s..., model %s..." % (c[0], c[1], c[2], a_[:160], b_[:160]), "failing_input": None})
    # SievingPrimes' tiny sieve (C04_tiny_sieve_spec, C12_tiny_read_in_range): the real table vs the model, for stops around the
    # threshold 165^4 at which it is first built and at every magnitude
    tq = [165 ** 4 - 1, 165 ** 4, 165 ** 4 + 1, 166 ** 4 - 1, 166 ** 4, 10 ** 9, 10 ** 12, 10 ** 15, (1 << 64) - 1, 7, 100, 27225, 741255075, 741255076]
    tq += [rng.below(1 << rng.between(20, 64)) for _ in range(20 * min(scale, 3))]
    rc, o, e = ps.run([kp], input="".join("TINY %d\n" % c for c in tq), timeout=300)
    rcm, om, emt = ps.run([model], input="".join("LEAF tiny %d\n" % c for c in tq), timeout=600)
    dist["tiny_sieve_units"] = len(tq)
    if len(o.splitlines()) != len(tq) or len(om.splitlines()) != len(tq):
        mm.append({"key": "tiny-sieve", "what": "tiny sieve comparison did not run: %d implementation results, %d model results for %d cases (%s)" % (len(o.splitlines()), len(om.splitlines()), len(tq), (e or emt)[-200:]), "failing_input": None})
    for c, a_, b_ in zip(tq, o.splitlines(), om.splitlines()):
        ev += 1
        sigs.add(("tiny", a_.split()[0] if a_.split() else "?", c > 10 ** 12))
        if a_.strip() != b_.strip():
            mm.append({"key": "tiny-sieve", "what": "SievingPrimes::tinySieve_ for an Erat with stop %d: implementation %s..., model %s..." % (c, a_[:140], b_[:140]), "failing_input": None})
    # pre-sieve unit level: PreSieve::preSieve on segments at every magnitude (incl. segmentLow <= 163 and the wrap-around of every
    # table) vs the model over the extracted tables
    pc = [(0, 40), (30, 20), (150, 10), (180, 10), (30 * 5957 - 60, 30), (30 * 6683 - 30, 64)]
    for _ in range(24 * min(scale, 2)):
        pc.append((30 * rng.below(1 << rng.between(1, 58)), rng.between(1, 80)))
    rc, o, e = ps.run([kp], input="".join("PRESIEVE %d %d\n" % c for c in pc), timeout=300)
    # the model is evaluated inside Coq (vm_compute): the 123 KB of tables are not extracted to OCaml
    om = coq_eval_presieve(pc)
    dist["presieve_units"] = len(pc)
    if len(om.splitlines()) != len(pc) or len(o.splitlines()) != len(pc):
        mm.append({"key": "presieve", "what": "pre-sieve unit comparison did not run: %d model results, %d implementation results for %d cases (%s)" % (len(om.splitlines()), len(o.splitlines()), len(pc), om[:200]), "failing_input": None})
    for c, a_, b_ in zip(pc, o.splitlines(), om.splitlines()):
        ev += 1
        sigs.add(("presieve", c[0] <= 163, c[1] > 64))
        if a_.strip() != b_.strip():
            av, bvv = a_.split(), b_.split()
            j = next((i for i in range(min(len(av), len(bvv))) if av[i] != bvv[i]), min(len(av), len(bvv)))
            mm.append({"key": "presieve", "what": "PreSieve::preSieve(segmentLow %d, %d bytes): byte %d is %s, the model over the source tables says %s" % (c[0], c[1], j, av[j:j + 1], bvv[j:j + 1]), "failing_input": None})
    # the model kernel as a whole (the function erat_kernel_correct is about: geometry model, addSievingPrime, cross-off loop over the
    # extracted table) on multi-segment intervals vs the implementation and the independent oracle: count, checksum, first, last
    kr = []
    for _ in range(6 * scale):
        kb = rng.choice([16, 16, 17, 23, 32])
        a = max(7, rng.below(10 ** rng.between(1, 7)))
        b = a + rng.between(1, 3) * kb * 1024 * 30 + rng.below(400000)
        kr.append((a, b, kb))
    kr += [(7, 3000, 16), (7, 7, 16), (8, 10, 16), (113, 127, 16)]
    l1s = [li[2 * i + 1].split()[5] for i in range(1)] if li else ["32768"]
    rcm, om, em = ps.run([model], input="".join("LEAF kernel %s %d %d %d\n" % (l1s[0], c[2], c[0], c[1]) for c in kr), timeout=900)
    rci, oi, ei = ps.run([ps.build_probe("api_probe")], input="".join("COUNT 1 %d %d 1 %d\n" % (c[0], c[1], c[2]) for c in kr), timeout=600)
    dist["kernel_model_runs"] = len(kr)
    for c, m_, i_ in zip(kr, om.splitlines(), oi.splitlines()):
        ev += 1
        prs = oracle.segment_primes(c[0], c[1])
        want = "%d %d %d %d" % (len(prs), sum(prs) % 2305843009213693951, prs[0] if prs else 0, prs[-1] if prs else 0)
        got = " ".join(m_.split()[:4])
        sigs.add(("kernel-run", m_.split()[-1] if m_.split() else "?", c[2]))
        if got != want or i_.split()[1] != str(len(prs)):
            mm.append({"key": "kernel-model", "what": "kernel on [%d, %d] (%d KiB): model kernel gives (count, checksum, first, last) = %s, the oracle %s, count_primes %s" % (c[0], c[1], c[2], got, want, i_),
                       "failing_input": ({"start": c[0], "stop": c[1], "sieve_size": c[2], "observed": i_, "expected": len(prs)} if i_.split()[1] != str(len(prs)) else None)})
    # the three-algorithm model kernel (C04_erat3_model_correct: sieving primes >= 164 dispatched to EratSmall / EratMedium / EratBig
    # by the thresholds of the geometry model) vs the implementation and the independent oracle; intervals on which one, two or
    # all three algorithms hold sieving primes (EratBig needs sqrt(stop) > 3 * sieve size)
    k3 = [(7, 3000, 16), (1000, 2 * 10 ** 6, 16), (10 ** 8, 10 ** 8 + 600000, 16), (10 ** 9 + rng.below(10 ** 6), 10 ** 9 + 10 ** 6 + 700000, 32)]
    for _ in range(8 * min(scale, 4)):
        kb = rng.choice([16, 17, 23, 32, 64] if scale > 1 else [16, 17, 23, 32])
        a = rng.choice([25 * 10 ** 8, 10 ** 10, 4 * 10 ** 10, 10 ** 11]) + rng.below(10 ** 9)
        k3.append((a, a + rng.between(1, 12 if scale > 1 else 5) * kb * 1024 * 30 + rng.below(400000), kb))
    a = 10 ** 10 + rng.below(10 ** 9); k3.append((a, a + 1200000, 32))
    rcm, om, em3 = ps.run([model], input="".join("LEAF kernel3 %s %d %d %d\n" % (l1s[0], c[2], c[0], c[1]) for c in k3), timeout=1800)
    rci, oi, ei = ps.run([ps.build_probe("api_probe")], input="".join("COUNT 1 %d %d 1 %d\n" % (c[0], c[1], c[2]) for c in k3), timeout=600)
    dist["kernel3_model_runs"] = len(k3)
    if len(om.splitlines()) != len(k3):
        mm.append({"key": "kernel3-model", "what": "three-algorithm kernel runs did not complete: %d of %d (%s)" % (len(om.splitlines()), len(k3), em3[-200:]), "failing_input": None})
    for c, m_, i_ in zip(k3, om.splitlines(), oi.splitlines()):
        ev += 1
        prs = oracle.segment_primes(c[0], c[1])
        want = "%d %d %d %d" % (len(prs), sum(prs) % 2305843009213693951, prs[0] if prs else 0, prs[-1] if prs else 0)
        got = " ".join(m_.split()[:4])
        sigs.add(("kernel3-run", tuple(x.split("=")[0] for x in m_.split()[5:] if not x.endswith("=0")), c[2]))
        if got != want or i_.split()[1] != str(len(prs)):
            mm.append({"key": "kernel3-model", "what": "kernel on [%d, %d] (%d KiB): three-algorithm model kernel gives (count, checksum, first, last) = %s (%s), the oracle %s, count_primes %s" % (c[0], c[1], c[2], got, " ".join(m_.split()[4:]), want, i_),
                       "failing_input": ({"start": c[0], "stop": c[1], "sieve_size": c[2], "observed": i_, "expected": len(prs)} if i_.split()[1] != str(len(prs)) else None)})
    # the final sieve bytes of a real Erat run (pre-sieve, sieving primes > 163, cross-off, end masks) vs the byte arrays of the model
    # kernel (all ones, every sieving prime >= 7, AND of the unset masks, end masks: the object of C05_kernel_bytes_spec): byte for byte
    kb_cases = [(7, 3000, 16), (100, 5000, 16), (1000, 1100, 16), (31, 31, 16), (7, 20000, 32), (123457, 140000, 16), (163, 400, 16), (164, 164 + 3000, 17)]
    for _ in range(6 * min(scale, 3)):
        a = max(7, rng.below(10 ** rng.between(2, 9)))
        kb_cases.append((a, a + rng.between(0, 25000), rng.choice([16, 17, 32])))
    rc, o, e = ps.run([kp], input="".join("BYTES %d %d %d\n" % c for c in kb_cases), timeout=300)
    rcm, om, em = ps.run([model], input="".join("LEAF kbytes %s %d %d %d\n" % (l1s[0], c[2], c[0], c[1]) for c in kb_cases), timeout=900)
    dist["kernel_byte_arrays"] = len(kb_cases)
    oi2, om2 = o.splitlines(), om.splitlines()
    for idx, c in enumerate(kb_cases):
        ev += 1
        a_ = oi2[idx].strip() if idx < len(oi2) else "?"; b_ = om2[idx].strip() if idx < len(om2) else "?"
        sigs.add(("kbytes", c[0] <= 163, len(a_.split()) > 300))
        if a_ != b_:
            av, bvv = a_.split(), b_.split()
            j = next((i for i in range(min(len(av), len(bvv))) if av[i] != bvv[i]), min(len(av), len(bvv)))
            mm.append({"key": "kernel-bytes", "what": "sieve bytes of Erat(%d, %d, %d KiB): byte %d is %s in the implementation, %s in the model kernel (%d vs %d bytes)" % (c[0], c[1], c[2], j, av[j:j + 1], bvv[j:j + 1], len(av), len(bvv)), "failing_input": None})
    # ... and the same runs decoded word by word by the model (pad8, decode_array with the De Bruijn nextPrime): the list of primes
    rcm, om, em = ps.run([model], input="".join("LEAF kprint %s %d %d %d\n" % (l1s[0], c[2], c[0], c[1]) for c in kb_cases), timeout=900)
    om3 = om.split("\n")
    for idx, c in enumerate(kb_cases):
        ev += 1
        want = " ".join(str(p_) for p_ in oracle.segment_primes(c[0], c[1]))
        got = om3[idx].strip() if idx < len(om3) else "?"
        if got != want:
            mm.append({"key": "kernel-model", "what": "the model's decoded output for [%d, %d] is %s..., the oracle %s..." % (c[0], c[1], got[:80], want[:80]), "failing_input": None})
    # the self-contained model kernel (erat_self: recursion for the sieving primes, model-side decoding) on small intervals: the whole list
    es = [(7, 5000, 16), (1000, 9000, 17), (7, 20000, 32), (7, 7, 16), (9000, 9000 + rng.below(3000), 16), (rng.between(7, 3000), 12000, 23)]
    rcm, om, em = ps.run([model], input="".join("LEAF eratself %s %d %d %d\n" % (l1s[0], c[2], c[0], c[1]) for c in es), timeout=900)
    dist["erat_self_runs"] = len(es)
    for c, m_ in zip(es, (om.splitlines() + [""] * len(es))[:len(es)]):
        ev += 1
        want = " ".join(str(p_) for p_ in oracle.segment_primes(c[0], c[1]))
        sigs.add(("erat-self", c[2]))
        if m_.strip() != want:
            mm.append({"key": "kernel-model", "what": "erat_self on [%d, %d] (%d KiB) returns %s..., the oracle %s..." % (c[0], c[1], c[2], m_[:80], want[:80]), "failing_input": None})
    mm.sort(key=lambda m_: 0 if m_.get("failing_input") else 1)
    return {"evaluations": ev, "distinct_nontrivial": len(sigs),
            "rule": "intervals aimed at segment seams (geometry queried from the real Erat::init for sieve sizes %s), stops on/just past a seam, p*q on the last bit of a segment, byte/bit edges, start <= 5 < stop, stop = p*q, empty and one-byte intervals, all 0 <= a <= b < 40; threads 1/2/4/16. distinct = distinct (build, reason, sieve size, start mod 30, stop mod 30)" % countlib.SIEVE_SIZES,
            "samples": samples, "mismatches": mm[:20], "distribution": dist, "variants": list(variants)}


def search(ctx, broken):
    sub = type(ctx)(ctx.pid, ctx.tier, ctx.seed + 49979687)
    res = correspond(sub, scale=3)
    return [m for m in res["mismatches"] if m.get("failing_input")]


def replay(ctx, obj):
    fi = obj.get("failing_input") or {}
    rc, o, e = ps.run([ps.build_probe("api_probe", fi.get("variant", "default"))], input=fi.get("command", "") + "\n", timeout=600)
    print(fi.get("command"), "->", o.strip(), "| expected", fi.get("expected"))
    return 0

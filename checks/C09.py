"""C09: parallel sieving tiles the interval exactly, splits no k-tuplet, is schedule independent."""
import os, json
import ps, oracle

LEVEL = "proof"
THEOREMS = ["C09_tiling_exact", "C09_tiling_counts", "C09_no_split", "C09_schedule_irrelevant"]
ASSUMPTIONS = [
    "stop < 2^64-1 in the tiling theorems (at stop = 2^64-1 an interior boundary within 32 of stop would wrap; unreachable with the production constants, see DESIGN C09)",
    "the schedule theorem is about an abstract machine: one sequentially consistent atomic counter, per-worker local sums; the source statements it mirrors are fingerprinted by translate/tables.py",
    "machine-level data races, std::async/future internals are outside the model (TSan run in the thorough tier as validation only)",
    "isqrt modelled as N.sqrt",
]
EXPLANATION = "Coq theorems on the piece arithmetic (explicit uint64 wrap) and on all worker interleavings + correspondence of plans/leaves with the real ParallelSieve through hook H1"
MAX64 = (1 << 64) - 1


def tiling_ok(pieces, start, stop):
    """independent check: the pieces follow each other from start to stop; interior boundaries = 2 mod 30, >= 32"""
    lo = start
    for (s, e) in pieces:
        if s != lo or s > e + 1:
            return "piece (%d,%d) does not start at %d" % (s, e, lo)
        if e < stop and (e % 30 != 2 or e < 32):
            return "interior boundary %d is not = 2 (mod 30) / < 32" % e
        lo = e + 1
    if lo != stop + 1:
        return "pieces end at %d, not at stop %d" % (lo - 1, stop)
    return None


def gen_cases(rng, n):
    plans, counts, leaves = [], [], []
    for _ in range(n):
        md = rng.choice([30, 31, 59, 60, 90, 100, 210, 300, 1000, 4999])
        k = rng.below(10)
        if k < 5:
            start = rng.below(10 ** rng.between(1, 7))
        elif k < 8:
            start = rng.below(10 ** rng.between(8, 18))
        else:
            start = (1 << 64) - (1 << 34) - rng.below(10 ** 9)       # hook runs stay below 2^64 - 2^33 (latent wrap, DESIGN C09)
        width = rng.choice([0, 1, 5, 29, 30, 31, 59, 61]) if rng.chance(1, 6) else rng.below(md * rng.between(1, 40) + 33)
        if rng.chance(1, 4):     # last piece only a few numbers long / boundary within 32 of stop
            width = md * rng.between(2, 12) + rng.choice([0, 1, 2, 29, 30, 31, 32, 33, 60]) + rng.below(3) * 30
        stop = min(start + width, MAX64 - (1 << 33))
        threads = rng.between(1, 16)
        plans.append("PLAN %d %d %d %d" % (start, stop, threads, md))
    # production constants, plan only: wide intervals at all magnitudes, incl. the top
    for _ in range(n // 3):
        k = rng.below(4)
        if k == 0:
            start = rng.below(10 ** 9); width = rng.between(2 * 10 ** 7, 4 * 10 ** 9)
            if rng.chance(1, 2):
                width = 10000020 * rng.between(2, 16) + rng.between(0, 64)
        elif k == 1:
            start = rng.below(10 ** 15); width = rng.below(10 ** rng.between(8, 17))
        elif k == 2:
            start = rng.below(1 << 63); width = rng.below(1 << 63)
        else:
            width = rng.below(10 ** rng.between(9, 19)); start = max(0, MAX64 - width - rng.choice([0, 0, 1, 31, 58, 1000]))
        stop = min(start + width, MAX64)
        # keep the number of pieces (~ dist / (200 * sqrt(stop))) below a few thousand
        import math
        cap = 400000 * max(1, math.isqrt(stop))
        if stop - start > cap:
            start = stop - cap + rng.below(1000)
        plans.append("PLAN %d %d %d 0" % (start, stop, rng.between(2, 16)))
    for _ in range(n // 2):
        md = rng.choice([30, 60, 90, 120, 300])
        start = rng.below(10 ** rng.between(1, 6)) if rng.chance(3, 4) else rng.below(10 ** rng.between(9, 12))
        if rng.chance(1, 5):
            start = rng.below(40)
        stop = start + rng.below(md * rng.between(2, 30) + 40)
        counts.append("COUNT %d %d %d %d" % (start, stop, rng.between(2, 16), md))
    vals = [0, 1, 2, 29, 30, 31, 32, 33, 59, 60, 61, 1000, 10 ** 7, 10 ** 7 + 20, (1 << 32) - 1, 1 << 32, 10 ** 15,
            MAX64 - 64, MAX64 - 33, MAX64 - 32, MAX64 - 31, MAX64 - 30, MAX64 - 2, MAX64 - 1, MAX64]
    for _ in range(n * 2):
        stop = rng.choice(vals) if rng.chance(1, 2) else rng.below(1 << rng.between(1, 64))
        nn = rng.choice(vals) if rng.chance(1, 2) else max(0, min(MAX64, stop + rng.between(-100, 100)))
        leaves.append("LEAF align %d %d" % (stop, nn))
    for _ in range(n):
        a = rng.below(1 << rng.between(1, 63)); w = rng.below(1 << rng.between(1, 63)) + 1
        b = min(MAX64, a + w); th = rng.between(1, 64)
        md = rng.choice([0, 30, 100, 10 ** 7])
        thr = md if md else max(int(__import__("math").isqrt(b)) // 5, 10 ** 7)
        if (b - a) // max(thr, 1) >= 2:             # getThreadDistance is only called with threads <= dist/threshold
            th = max(1, min(th, (b - a) // thr))
            leaves.append("LEAF tdist %d %d %d %d" % (md, th, a, b))
        leaves.append("LEAF ideal %d %d %d %d" % (md, th, a, b))
    return plans, counts, leaves


def correspond(ctx, n=None):
    rng = ctx.rng
    n = n or (2400 if ctx.thorough else 700)
    probe = ps.build_probe("tiling_probe")
    model = ps.build_model()
    plans, counts, leaves = gen_cases(rng, n)
    mismatches, samples, sigs = [], [], set()
    dist = {"plans": len(plans), "counts": len(counts), "leaves": len(leaves), "single": 0, "multi": 0,
            "max_pieces": 0, "tiny_last_piece": 0, "boundary_within_32_of_stop": 0, "top_of_range_plans": 0}
    # --- leaves and plans: model vs implementation
    cases = leaves + plans
    sh = ps.shard(cases)
    outs_i = ps.par_run(probe, ["\n".join(c for _, c in s) + "\n" for s in sh], timeout=600)
    outs_m = ps.par_run(model, ["\n".join(c for _, c in s) + "\n" for s in sh], timeout=600)
    evaluations = 0
    for s, (rci, oi, ei), (rcm, om, em) in zip(sh, outs_i, outs_m):
        li, lm = oi.splitlines(), om.splitlines()
        if rci != 0 or len(li) != len(s):
            bad = s[min(len(li), len(s) - 1)][1]
            mismatches.append({"key": "crash", "what": "tiling probe crashed or timed out (rc=%d) at %s" % (rci, bad), "failing_input": {"case": bad}, "stderr": ei[-800:]})
            continue
        for (idx, case), a, b in zip(s, li, lm):
            evaluations += 1
            t = case.split()
            if t[0] == "PLAN":
                start, stop = int(t[1]), int(t[2])
                ai = a.split()
                pieces = []
                if "pieces" in ai:
                    k = ai.index("pieces") + 1
                    nums = []
                    while k < len(ai) and ai[k].isdigit():
                        nums.append(int(ai[k])); k += 1
                    pieces = list(zip(nums[0::2], nums[1::2]))
                impl_norm = "single" if "single" in ai else "pieces " + " ".join("%d %d" % p for p in pieces)
                if start > stop:
                    impl_norm = "pieces" if impl_norm == "single" else impl_norm
                    b = b.strip()
                if pieces:
                    dist["multi"] += 1; dist["max_pieces"] = max(dist["max_pieces"], len(pieces))
                    if pieces[-1][1] - pieces[-1][0] < 32: dist["tiny_last_piece"] += 1
                    if any(stop - 32 <= e < stop for _, e in pieces): dist["boundary_within_32_of_stop"] += 1
                    if stop > MAX64 - (1 << 40): dist["top_of_range_plans"] += 1
                    sigs.add(("plan", len(pieces) > 2, pieces[-1][1] - pieces[-1][0] < 32, stop > MAX64 - (1 << 40), t[4] == "0", start % 30, stop % 30))
                else:
                    dist["single"] += 1; sigs.add(("single", t[4] == "0"))
                bad = tiling_ok(pieces, start, stop) if pieces else None
                if "DUPLICATE-INDEX" in a:
                    bad = "a piece index was claimed twice"
                if impl_norm.strip() != b.strip() or bad:
                    m = {"key": "plan", "case": case, "impl": a[:400], "model": b[:400]}
                    if bad:
                        m["what"] = "pieces of ParallelSieve do not tile [start, stop]: %s" % bad
                        m["failing_input"] = {"case": case, "pieces": pieces[:40], "violation": bad}
                    else:
                        m["what"] = "tiling model and implementation disagree on a plan that tiles correctly (correspondence Tiling.v <-> ParallelSieve.cpp broken)"
                        m["failing_input"] = None
                    mismatches.append(m)
                elif len(samples) < 3 and pieces:
                    samples.append({"case": case, "pieces": pieces[:6]})
            else:
                sigs.add(("leaf", t[1], a == t[2]))
                if a.strip() != b.strip():
                    mismatches.append({"key": "leaf-" + t[1], "case": case, "impl": a, "model": b,
                                       "what": "leaf %s: implementation %s, model %s" % (t[1], a, b), "failing_input": None})
    # --- counts: multi-threaded (pieces every ~md numbers) == single-threaded == oracle
    shc = ps.shard(counts)
    outs_c = ps.par_run(probe, ["\n".join(c for _, c in s) + "\n" for s in shc], timeout=900)
    for s, (rc, o, e) in zip(shc, outs_c):
        lines = o.splitlines()
        if rc != 0 or len(lines) != len(s):
            mismatches.append({"key": "crash", "what": "tiling probe crashed during COUNT (rc=%d)" % rc, "failing_input": {"case": s[min(len(lines), len(s) - 1)][1]}, "stderr": e[-800:]})
            continue
        for (idx, case), a in zip(s, lines):
            evaluations += 1
            t = case.split(); start, stop = int(t[1]), int(t[2])
            ai = a.split()
            try:
                multi = [int(x) for x in ai[ai.index("counts") + 1:ai.index("counts") + 7]]
                single = [int(x) for x in ai[len(ai) - 6:]]
            except ValueError:
                mismatches.append({"key": "count-format", "what": "unexpected probe output " + a[:200], "failing_input": None}); continue
            exp = oracle.counts_between(start, stop) if stop >= start else [0] * 6
            npieces = (ai.index("counts") - ai.index("pieces") - 1) // 2 if "pieces" in ai else 0
            sigs.add(("count", npieces > 1, exp[1] > 0, exp[5] > 0, start < 20))
            if multi != single or multi != exp:
                mismatches.append({"key": "count", "case": case,
                                   "what": "counts with %s threads %s, single thread %s, oracle %s" % (t[3], multi, single, exp),
                                   "failing_input": {"case": case, "multi": multi, "single": single, "expected": exp, "probe": a[:300]}})
            elif len(samples) < 5 and npieces > 1:
                samples.append({"case": case, "pieces": npieces, "counts": multi})
    res = {"evaluations": evaluations, "distinct_nontrivial": len(sigs),
           "rule": "PLAN: (start, stop, threads) with hook distances 30..4999 (boundaries every ~100 numbers; last piece / interior boundary within 32 of stop aimed at) and plan-only runs with production constants up to 2^64-1; COUNT: all six counts with 2..16 threads and dense boundaries vs one thread vs independent oracle; LEAF: align/getThreadDistance/idealNumThreads at boundary operands incl. 2^64-1-k. distinct = distinct (kind, #pieces class, tiny last piece, top of range, residues of start/stop mod 30, ...)",
           "samples": samples, "mismatches": sorted(mismatches, key=lambda m: 0 if m.get("failing_input") else 1)[:20], "distribution": dist, "variants": ["default"]}
    if ctx.thorough:
        res["tsan"] = tsan_run(ctx, counts[:60], mismatches)
    return res


def tsan_run(ctx, counts, mismatches):
    """validation of the footprint the schedule model assumes (not the proof): ThreadSanitizer on COUNT workloads"""
    try:
        probe = ps.build_probe("tiling_probe", "tsan")
    except ps.BuildError as e:
        return "tsan build failed: " + str(e)[-300:]
    rc, o, e = ps.run([probe], input="\n".join(counts) + "\n", timeout=1200, env=dict(os.environ, TSAN_OPTIONS="halt_on_error=0 exitcode=66"))
    if "ThreadSanitizer: data race" in e:
        mismatches.append({"key": "tsan", "what": "ThreadSanitizer reports a data race in ParallelSieve workers", "failing_input": {"cases": counts[:5], "report": e[:1500]}})
        return "data race reported"
    return "no race reported on %d workloads" % len(counts)


def search(ctx, broken):
    sub = type(ctx)(ctx.pid, ctx.tier, ctx.seed + 611953)
    res = correspond(sub, n=3000)
    return [m for m in res["mismatches"] if m.get("failing_input")]


def replay(ctx, obj):
    case = (obj.get("failing_input") or {}).get("case") or obj.get("case")
    probe = ps.build_probe("tiling_probe")
    rc, o, e = ps.run([probe], input=case + "\n", timeout=300)
    print(case, "->", o.strip()[:500])
    return 0

"""C18: the prime-count and nth-prime approximations stay within sqrt of the truth (partial)."""
import math, os, re, shutil, sys
from decimal import Decimal, getcontext
from fractions import Fraction
import ps, oracle

sys.path.insert(0, os.path.join(ps.ROOT, "translate"))
import approx, approx_blocks

getcontext().prec = 60

LEVEL = "other"
THEOREMS = ["C18_R_bound_partial", "C18_Rinv_bound_partial", "C18_series_increasing", "C18_clamp_saturates", "C18_clamp_monotone"]
ASSUMPTIONS = [
    "PARTIAL: the theorems cover every integer 2 <= x <= 65536 (and n = pi(x) <= 6542) on the real-valued Gram series over the source's zeta table; for larger arguments the sqrt bounds rest on unproved analytic number theory and are only tested (known pi(10^k), k <= 19, and arguments where pi(x) is computed by the implementation's own sieve)",
    "floating point rounding, libm's log and the data-dependent termination of the series / Newton loops are not modelled: the check measures the distance between the implementation's results and kernel-proved enclosures of the model (<= 1e-6 for R, <= 5e-3 for R^-1, n >= 2), which the proved slack of 1/100 absorbs",
    "at n = 1 the Newton iteration stalls near t = 1 (it divides by li'(t) = 1/log t) and returns 1.1425 instead of R^-1(1) = 1; |1.1425 - 2| < sqrt 2 is checked directly",
    "axioms: the standard library's classical reals (ClassicalDedekindReals.sig_forall_dec, sig_not_dec, functional_extensionality_dep), Classical_Prop.classic, and the primitive 63-bit integers with their specification axioms (PrimInt63.*, Uint63.*) used by coq-interval for the ln enclosures",
    "known values of pi(10^k) (OEIS A006880) are literature constants, not re-derived",
]
TRUSTED_EXTRA = [
    "coq-interval 4.x (interval tactic; its proofs are checked by the kernel with vm_compute over primitive 63-bit integers)",
    "translate/approx.py (zeta table of src/RiemannR.cpp as exact rationals + statement fingerprints) and translate/approx_blocks.py (proposes blocks and enclosures in floating point; every one is re-proved, nothing it computes is trusted)",
]
EXPLANATION = ("Coq theorems for the finite domain x <= 65536 over the source's zeta table (618 contiguous blocks: pi by computation, the series by a verified fixed-point evaluator, four ln enclosures per block by interval arithmetic, lifted by strict monotonicity of the series), the clamp for every input; "
               "correspondence = kernel-proved enclosures of the model at the implementation's own results; plus exhaustive evaluation of the implementation on the finite domain and tests at large arguments")

MAX64 = (1 << 64) - 1
PI_2_64 = 425656284035217743
PI_POW10 = [4, 25, 168, 1229, 9592, 78498, 664579, 5761455, 50847534, 455052511, 4118054813, 37607912018, 346065536839,
            3204941750802, 29844570422669, 279238341033925, 2623557157654233, 24739954287740860, 234057667276344607]
B = approx_blocks.B_DEFAULT

CASE_HEADER = """From Coq Require Import Reals ZArith NArith List.
From Interval Require Import Tactic.
From PS Require Import Spec.Primes Gen.Zeta Model.Approx Proofs.ApproxP.
Local Open Scope R_scope.
Ltac ev := rewrite !gram_horner; cbv [gramH NR q2r fst snd Z.of_N gram_terms gramK firstn zeta_tbl horner Pos.succ]; split; interval with (i_prec 90).
"""


def dec(s):
    return Decimal(s)


def frac_lit(d):
    """a Decimal as a Coq real literal num / den"""
    f = Fraction(d)
    return "(%d / %d)" % (f.numerator, f.denominator)


def run_cases(tag, cases):
    """cases: list of (name, statement).  Compiles them in NPROC shards; returns the names whose lemma fails."""
    d = os.path.join(ps.BUILD, "c18", tag)
    shutil.rmtree(d, ignore_errors=True)
    os.makedirs(d)
    failed = []
    pending = list(cases)
    for _round in range(4):
        if not pending:
            break
        shards = ps.shard(pending)
        files = []
        for si, sh in enumerate(shards):
            lines = [CASE_HEADER]
            index = {}
            for _, (name, stmt) in sh:
                index[len(lines) + 1] = name
                lines.append("Lemma %s : %s. Proof. ev. Qed." % (name, stmt))
            p = os.path.join(d, "cases_%d_%d.v" % (_round, si))
            open(p, "w").write("\n".join(lines) + "\n")
            files.append((p, index, sh))
        from concurrent.futures import ThreadPoolExecutor
        with ThreadPoolExecutor(ps.NPROC) as ex:
            res = list(ex.map(lambda f: ps.run(["coqc", "-Q", ps.COQ, "PS", f[0]], timeout=1200, cwd=d), files))
        nxt = []
        for (p, index, sh), (rc, o, e) in zip(files, res):
            if rc == 0:
                continue
            m = re.search(r'line (\d+), characters', e)
            # the header occupies CASE_HEADER.count("\n") lines; lemma k sits on line header+1+k
            bad_line = int(m.group(1)) if m else None
            hdr = CASE_HEADER.count("\n")
            k = (bad_line - hdr - 1) if bad_line else 0
            names = [c[1] for c in sh]
            if 0 <= k < len(names):
                failed.append((names[k][0], (e or o)[-300:]))
                nxt += names[k + 1:]
            else:
                failed += [(n[0], (e or o)[-300:]) for n in names]
        pending = nxt
    return failed


def correspond(ctx):
    rng = ctx.rng
    exe = ps.build_probe("approx_probe")
    api = ps.build_probe("api_probe")
    vals, problems, _ = approx.parse_zeta(ps.REPO)
    zeta = [float(Fraction(a, b)) for a, b in vals[2:2 + approx_blocks.K]] if vals and all(v for v in vals[2:]) else None
    mismatches, samples, sigs = [], [], set()
    dist = {"domain_R": 0, "domain_Rinv": 0, "coq_enclosures_R": 0, "coq_enclosures_Rinv": 0, "large_pi_known": 0, "large_pi_sieved": 0, "saturation": 0, "cli": 0}

    # ---- 1. the finite domain, exhaustively, on the implementation
    pi = approx_blocks.sieve(B)
    primes = [x for x in range(2, B + 1) if pi[x] != pi[x - 1]]
    xs = list(range(0, B + 1))
    ns = list(range(0, len(primes) + 1))
    rc, o, e = ps.run([exe], input="".join("R %d\n" % x for x in xs) + "".join("PA %d\n" % x for x in xs) +
                      "".join("RI %d\n" % n for n in ns) + "".join("NA %d\n" % n for n in ns), timeout=600)
    L = o.splitlines()
    if rc != 0 or len(L) != 2 * len(xs) + 2 * len(ns):
        raise ps.BuildError("approx_probe failed rc=%d: %s" % (rc, e[-500:]))
    Rv = L[:len(xs)]; PA = L[len(xs):2 * len(xs)]; RI = L[2 * len(xs):2 * len(xs) + len(ns)]; NA = L[2 * len(xs) + len(ns):]
    rvals, rivals = {}, {}
    for x, l, pa in zip(xs, Rv, PA):
        fin, v = l.split()
        dist["domain_R"] += 1
        if fin != "fin":
            mismatches.append({"key": "nonfinite", "what": "RiemannR(%d) is not finite: %s" % (x, v), "failing_input": {"fn": "RiemannR", "x": x, "value": v}}); continue
        v = dec(v); rvals[x] = v
        if x >= 2:
            err = abs(v - pi[x]); bound = Decimal(x).sqrt()
            sigs.add(("R", int(4 * err / bound)))
            if not err < bound:
                mismatches.append({"key": "R-bound", "what": "|R(%d) - pi(%d)| = |%s - %d| >= sqrt(%d)" % (x, x, v, pi[x], x),
                                   "failing_input": {"fn": "RiemannR", "x": x, "value": str(v), "pi": pi[x]}})
            if not abs(int(pa) - pi[x]) < bound + 1:
                mismatches.append({"key": "PA-bound", "what": "primePiApprox(%d) = %s, pi = %d" % (x, pa, pi[x]), "failing_input": {"fn": "primePiApprox", "x": x, "value": pa, "pi": pi[x]}})
        elif int(pa) > 1 or v < 0 or v > 2:
            mismatches.append({"key": "R-small", "what": "RiemannR(%d) = %s, primePiApprox = %s" % (x, v, pa), "failing_input": {"fn": "RiemannR", "x": x, "value": str(v)}})
    for n, l, na in zip(ns, RI, NA):
        fin, v = l.split()
        dist["domain_Rinv"] += 1
        if fin != "fin":
            mismatches.append({"key": "nonfinite", "what": "RiemannR_inverse(%d) is not finite: %s" % (n, v), "failing_input": {"fn": "RiemannR_inverse", "n": n, "value": v}}); continue
        v = dec(v); rivals[n] = v
        if n >= 1:
            p = primes[n - 1]; err = abs(v - p); bound = Decimal(p).sqrt()
            sigs.add(("RI", int(4 * err / bound)))
            if not err < bound:
                mismatches.append({"key": "Rinv-bound", "what": "|R^-1(%d) - p_n| = |%s - %d| >= sqrt(%d)" % (n, v, p, p),
                                   "failing_input": {"fn": "RiemannR_inverse", "n": n, "value": str(v), "nth_prime": p}})
            if not abs(int(na) - p) < bound + 1:
                mismatches.append({"key": "NA-bound", "what": "nthPrimeApprox(%d) = %s, p_n = %d" % (n, na, p), "failing_input": {"fn": "nthPrimeApprox", "n": n, "value": na, "nth_prime": p}})
        elif v != 0 or int(na) != 0:
            mismatches.append({"key": "Rinv-zero", "what": "RiemannR_inverse(0) = %s, nthPrimeApprox(0) = %s" % (v, na), "failing_input": {"fn": "RiemannR_inverse", "n": 0, "value": str(v)}})
    samples.append({"R(100)": str(rvals.get(100)), "pi(100)": pi[100], "R^-1(30)": str(rivals.get(30)), "p_30": primes[29]})

    # ---- 2. the model at the implementation's own results: kernel-proved enclosures (the correspondence)
    nR = 40 if not ctx.thorough else 400
    nI = 32 if not ctx.thorough else 320
    xsel = [2, 3, 4, 5, 7, 113, 114, 126, 127, 128, 1000, 4096, 32768, B - 1, B] + [rng.between(2, B) for _ in range(nR)]
    nsel = [2, 3, 4, 5, 6, 7, 30, 31, 100, 1229, len(primes) - 1, len(primes)] + [rng.between(2, len(primes)) for _ in range(nI)]
    cases = []
    tolR = Decimal("0.000001"); tolI = Decimal("0.005")
    for x in sorted(set(xsel)):
        if x in rvals:
            v = rvals[x].quantize(Decimal("0.0000000001"))
            cases.append(("r_%d" % x, "%s <= gram %d <= %s" % (frac_lit(v - tolR), x, frac_lit(v + tolR))))
    for n in sorted(set(nsel)):
        if n in rivals:
            t = rivals[n].quantize(Decimal("0.0000000001"))
            cases.append(("i_%d" % n, "gram %s <= %d <= gram %s" % (frac_lit(t - tolI), n, frac_lit(t + tolI))))
    failed = run_cases("corr", cases) if os.path.exists(os.path.join(ps.COQ, "Proofs", "ApproxP.vo")) else [(c[0], "model not built") for c in cases]
    dist["coq_enclosures_R"] = sum(1 for c in cases if c[0].startswith("r_"))
    dist["coq_enclosures_Rinv"] = sum(1 for c in cases if c[0].startswith("i_"))
    for name, msg in failed[:10]:
        kind, arg = name.split("_"); arg = int(arg)
        impl = rvals.get(arg) if kind == "r" else rivals.get(arg)
        mismatches.append({"key": "model-" + kind, "what": "the model does not enclose the implementation's %s(%d) = %s within %s (coqc: %s)" %
                           ("RiemannR" if kind == "r" else "RiemannR_inverse", arg, impl, tolR if kind == "r" else tolI, msg.strip().splitlines()[-1] if msg.strip() else ""),
                           "failing_input": None})
    # float pre-filter over the whole domain (cheap; not the official comparison)
    if zeta:
        worst = 0.0
        for x in range(2, B + 1, 1 if ctx.thorough else 7):
            if x in rvals:
                d = abs(float(rvals[x]) - approx_blocks.gram(zeta, x)); worst = max(worst, d)
                if d > 1e-6:
                    mismatches.append({"key": "model-float", "what": "RiemannR(%d) = %s differs from the 40-term series over the source table by %.3g" % (x, rvals[x], d), "failing_input": None}); break
        dist["max_float_distance_R"] = worst

    # ---- 3. beyond the proved domain: tests on the implementation only
    big = []
    for k, p in enumerate(PI_POW10, start=1):
        big.append((10 ** k, p, "known"))
    top = 3 * 10 ** 9 if not ctx.thorough else 10 ** 11
    rx = sorted({rng.between(B, 10 ** rng.between(5, int(math.log10(top)))) for _ in range(10 if not ctx.thorough else 40)} | {10 ** 8 - 1, 10 ** 8, 10 ** 8 + 1})
    rc, o, e = ps.run([api], input="".join("COUNT 1 0 %d\n" % x for x in rx), timeout=3000)
    for x, l in zip(rx, o.splitlines()):
        big.append((x, int(l.split()[1]), "sieved"))
    inp = "".join("R %d\nRI %d\n" % (x, p) for x, p, _ in big)
    rc, o, e = ps.run([exe], input=inp, timeout=600)
    out = o.splitlines()
    for idx, (x, p, how) in enumerate(big):
        dist["large_pi_" + how] += 1
        fr, r = out[2 * idx].split(); fi, ri = out[2 * idx + 1].split()
        if fr != "fin" or fi != "fin":
            mismatches.append({"key": "nonfinite", "what": "RiemannR(%d) = %s / RiemannR_inverse(%d) = %s" % (x, r, p, ri), "failing_input": {"x": x, "n": p}}); continue
        r, ri = dec(r), dec(ri)
        bound = Decimal(x).sqrt()
        sigs.add(("bigR", how, len(str(x))))
        if not abs(r - p) < bound:
            mismatches.append({"key": "R-bound", "what": "|R(%d) - pi| = |%s - %d| >= sqrt" % (x, r, p), "failing_input": {"fn": "RiemannR", "x": x, "value": str(r), "pi": p, "pi_source": how}})
        pn = oracle.prev_prime_lt(x + 1)
        if pn and not abs(ri - pn) < Decimal(pn).sqrt():
            mismatches.append({"key": "Rinv-bound", "what": "|R^-1(%d) - p_n| = |%s - %d| >= sqrt" % (p, ri, pn), "failing_input": {"fn": "RiemannR_inverse", "n": p, "value": str(ri), "nth_prime": pn, "pi_source": how}})
        if len(samples) < 6 and how == "known" and x >= 10 ** 17:
            samples.append({"x": x, "R(x)": str(r), "pi(x)": p, "R^-1(pi(x))": str(ri), "p_n": pn})

    # ---- 4. saturation, monotonicity near 2^64, finiteness
    R_2_64 = 425656284014012123     # R(2^64) rounded: above it R^-1 exceeds 2^64
    nlist = sorted({PI_2_64 - 10 ** k for k in range(0, 17)} | {PI_2_64, PI_2_64 + 1, R_2_64 + 10 ** 6, R_2_64 + 10 ** 9, 1 << 59, 1 << 60, 1 << 62, 1 << 63, MAX64 - 1, MAX64}
                   | {rng.between(PI_2_64 - 10 ** 12, MAX64) for _ in range(20)})
    rc, o, e = ps.run([exe], input="".join("NA %d\nRI %d\n" % (n, n) for n in nlist) + "".join("R %d\nPA %d\n" % (x, x) for x in (MAX64, MAX64 - 1, 1 << 63, 10 ** 19)), timeout=600)
    out = o.splitlines()
    prev = 0
    for idx, n in enumerate(nlist):
        dist["saturation"] += 1
        na = int(out[2 * idx]); fi, ri = out[2 * idx + 1].split()
        sigs.add(("sat", na == MAX64))
        if fi != "fin" or na > MAX64 or na + (1 << 20) < prev or (n >= R_2_64 + 10 ** 6 and na != MAX64) or (n <= PI_2_64 and na < 10 ** 18):
            mismatches.append({"key": "saturation", "what": "nthPrimeApprox(%d) = %d (R^-1 = %s): expected a finite, non-decreasing value that saturates at 2^64-1 (previous %d)" % (n, na, ri, prev),
                               "failing_input": {"fn": "nthPrimeApprox", "n": n, "value": na, "previous": prev}})
        prev = max(prev, na)
        if n == PI_2_64 and not abs(na - 18446744073709551557) < (1 << 32):
            mismatches.append({"key": "NA-bound", "what": "nthPrimeApprox(pi(2^64)) = %d" % na, "failing_input": {"fn": "nthPrimeApprox", "n": n, "value": na}})
    # rigorous bounds at the top of the range: for n = pi(2^64) - j the n-th prime is at most P_MAX - 2j (primes above 2 are at
    # least 2 apart), and for small j it is known exactly (walk down from the largest prime with Miller-Rabin)
    P_MAX = 18446744073709551557
    for idx, n in enumerate(nlist):
        if n > PI_2_64:
            continue
        j = PI_2_64 - n
        na = int(out[2 * idx]); ri = Decimal(out[2 * idx + 1].split()[1])
        bound = P_MAX - 2 * j + (1 << 32)
        if na > bound or ri > bound:
            mismatches.append({"key": "Rinv-bound", "what": "R^-1(%d) = %s, nthPrimeApprox = %d, but the n-th prime is at most %d (= largest 64-bit prime - 2*(pi(2^64) - n)) and sqrt < 2^32" % (n, ri, na, P_MAX - 2 * j),
                               "failing_input": {"fn": "RiemannR_inverse", "n": n, "value": str(ri), "nth_prime_at_most": P_MAX - 2 * j}})
    exact = {}
    p = P_MAX; jj = 0
    for target in (0, 1, 10, 100, 300):
        while jj < target:
            p -= 2
            while not oracle.is_prime(p):
                p -= 2
            jj += 1
        exact[PI_2_64 - target] = p
    rc3, o3, e3 = ps.run([exe], input="".join("RI %d\n" % n for n in sorted(exact)), timeout=120)
    for n, l in zip(sorted(exact), o3.splitlines()):
        dist["saturation"] += 1
        ri = Decimal(l.split()[1]); pn = exact[n]
        if abs(ri - pn) >= (1 << 32):
            mismatches.append({"key": "Rinv-bound", "what": "R^-1(%d) = %s, the n-th prime is %d (Miller-Rabin walk from the largest 64-bit prime): error %s >= sqrt" % (n, ri, pn, abs(ri - pn)),
                               "failing_input": {"fn": "RiemannR_inverse", "n": n, "value": str(ri), "nth_prime": pn}})
    # dense scan across the saturation threshold: n around R(2^64-1), where R^-1 crosses 2^64-1
    rc2, o2, e2 = ps.run([exe], input="PA %d\n" % MAX64, timeout=60)
    pa64 = int(o2.split()[0])
    scan = list(range(pa64 - 600, pa64 + 600))
    rc2, o2, e2 = ps.run([exe], input="".join("NA %d\n" % n for n in scan), timeout=120)
    prev2 = 0
    for n, l in zip(scan, o2.splitlines()):
        dist["saturation"] += 1
        na = int(l)
        # (the Newton iteration in long double is only monotone up to a few units at this magnitude; a wrap is a drop by ~2^64)
        if na + (1 << 20) < prev2 or na < (1 << 63) or na > MAX64:
            mismatches.append({"key": "saturation", "what": "nthPrimeApprox(%d) = %d after nthPrimeApprox(%d) = %d: not monotone / wrapped at the saturation threshold" % (n, na, n - 1, prev2),
                               "failing_input": {"fn": "nthPrimeApprox", "n": n, "value": na, "previous": prev2}})
            break
        prev2 = na
    base = 2 * len(nlist)
    for idx, x in enumerate((MAX64, MAX64 - 1, 1 << 63, 10 ** 19)):
        fr, r = out[base + 2 * idx].split(); pa = int(out[base + 2 * idx + 1])
        if fr != "fin" or not (0 < pa <= x) or abs(Decimal(r) - pa) > 1:
            mismatches.append({"key": "R-top", "what": "RiemannR(%d) = %s, primePiApprox = %d" % (x, r, pa), "failing_input": {"fn": "RiemannR", "x": x, "value": r}})
        if x == MAX64 and not abs(pa - PI_2_64) < (1 << 32):
            mismatches.append({"key": "PA-bound", "what": "primePiApprox(2^64-1) = %d, pi(2^64) = %d" % (pa, PI_2_64), "failing_input": {"fn": "primePiApprox", "x": x, "value": pa}})

    # ---- 5. the CLI glue: -R / --RiemannR-inverse print the library's values with 10 decimals, trailing zeros removed
    cli = ps.cli_path()
    # values printed without decimals (the library result is integral): the integer part must be printed unchanged,
    # in particular when it ends in 0
    special = {"R": [], "RI": []}
    for cmd, cand in (("R", [MAX64 - 37 * k for k in range(3000)]), ("RI", [250000000000000000 + k for k in range(60)] + [3 * 10 ** 17 + 7 * k for k in range(60)])):
        rc2, o2, e2 = ps.run([exe], input="".join("%s %d\n" % (cmd, x) for x in cand), timeout=120)
        ints = [(x, dec(l.split()[1])) for x, l in zip(cand, o2.splitlines()) if l.startswith("fin")]
        ints = [(x, v) for x, v in ints if v == v.to_integral_value()]
        special[cmd] = [x for x, v in ints if int(v) % 10 == 0][:4] + [x for x, v in ints if int(v) % 10 != 0][:2]
    for x in [0, 1, 2, 100, 10 ** 8, 10 ** 8 + 1, 10 ** 12, rng.between(2, 10 ** 15), MAX64, ("R", special["R"]), ("RI", special["RI"])]:
        if isinstance(x, tuple):
            todo = [((("-R", "R") if x[0] == "R" else ("--RiemannR-inverse", "RI")), v) for v in x[1]]
        else:
            todo = [(("-R", "R"), x), (("--RiemannR-inverse", "RI"), x)]
        for (opt, cmd), x in todo:
            dist["cli"] += 1
            rc1, o1, e1 = ps.run([cli, opt, str(x)], timeout=60)
            rc2, o2, e2 = ps.run([exe], input="%s %d\n" % (cmd, x), timeout=60)
            v = dec(o2.split()[1])
            want = format(v.quantize(Decimal("0.0000000001")), "f")
            if "." in want:
                want = want.rstrip("0").rstrip(".")
            got = o1.strip()
            ok = rc1 == 0 and got != "" and abs(dec(got) - v) <= Decimal("0.00000000011")
            if not ok:
                mismatches.append({"key": "cli", "what": "primesieve %s %d prints %r, the library value is %s" % (opt, x, got, v), "failing_input": {"argv": [opt, str(x)], "stdout": got, "library": str(v)}})
    ev = sum(v for k, v in dist.items() if isinstance(v, int))
    return {"evaluations": ev, "distinct_nontrivial": len(sigs),
            "rule": "implementation evaluated at every x <= 65536 and every n <= 6542 (sqrt bounds against an independent sieve, finiteness, integer variants); kernel-proved enclosures of the model at the implementation's results for boundary + seeded random x, n (tolerance 1e-6 / 5e-3); beyond the domain: pi(10^k) k <= 19 (literature), random x with pi(x) from the implementation's sieve, R^-1 against the largest prime <= x (Miller-Rabin); saturation / monotonicity of nthPrimeApprox up to n = 2^64-1; CLI -R / --RiemannR-inverse against the library. distinct = distinct (function, error quartile / magnitude / saturated) classes",
            "samples": samples[:8], "mismatches": sorted(mismatches, key=lambda m: 0 if m.get("failing_input") else 1)[:20], "distribution": dist, "variants": ["default"]}


def search(ctx, broken):
    res = correspond(ctx)
    return [m for m in res["mismatches"] if m.get("failing_input")]


def replay(ctx, obj):
    print(obj.get("what"))
    fi = obj.get("failing_input") or {}
    exe = ps.build_probe("approx_probe")
    if "x" in fi:
        print(ps.run([exe], input="R %d\nPA %d\n" % (fi["x"], fi["x"]), timeout=60)[1])
    if "n" in fi:
        print(ps.run([exe], input="RI %d\nNA %d\n" % (fi["n"], fi["n"]), timeout=60)[1])
    return 0

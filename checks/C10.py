"""C10: exact up to 2^64-1; requests beyond fail instead of wrapping."""
import ps, oracle, iterlib, countlib, C04, C06, C07, C09

LEVEL = "proof"
THEOREMS = ["C10_checkedAdd_saturates", "C10_checkedSub_saturates", "C10_addSievingPrime_no_wrap", "C10_wheel_factors_small", "C10_updateNext_bounds",
            "C10_align_never_exceeds_stop", "C10_next_never_wraps", "C10_next_after_largest", "C10_no_prime_above_maxprime", "C10_largest_prime_reduced", "C10_maxprime64_is_prime", "C10_largest_prime_proved", "C10_next_after_largest_proved"]
ASSUMPTIONS = [
    "largest_prime_hyp (2^64-59 is the largest prime below 2^64) in C10_next_after_largest: literature fact",
    "the segment-bound saturation of Erat (segmentLow/segmentHigh) is tied by correspondence (multi-segment intervals ending at 2^64-1), not yet by a Coq theorem",
    "end-to-end exactness at the top rests on C01-C07 (whose theorems are already quantified over all values < 2^64) and on the kernel hypothesis",
]
EXPLANATION = "Coq theorems for every overflow guard that is modelled (explicit mod 2^64) + unit-level correspondence of the guards with operands in [2^64-2^40, 2^64) + API-level probes at the top of the range (all bindings)"
MAX64 = (1 << 64) - 1
MAXPRIME = 18446744073709551557


def correspond(ctx):
    rng = ctx.rng
    mismatches, samples, sigs = [], [], set()
    dist = {}
    ev = 0
    # 1. unit level: addSievingPrime with adversarial (prime, segmentLow, stop) near 2^64 and elsewhere
    kp = ps.build_probe("kernel_probe")
    model = ps.build_model()
    cases = []
    bigp = [4294967291, 4294967279, 4294967231, 3037000493, 2147483647, 65537, 65521, 4294836163, 99991, 101, 7, 11, 13, 31]
    for _ in range(3000 if not ctx.thorough else 20000):
        p = rng.choice(bigp) if rng.chance(2, 3) else (oracle.next_prime_ge(rng.below(1 << 32)) or 7)
        k = rng.below(6)
        if k == 0:
            low = (MAX64 - rng.below(1 << 34)) // 30 * 30
        elif k == 1:
            low = max(0, (p * p - rng.below(100000))) // 30 * 30
        elif k == 2:
            q = oracle.next_prime_ge(p + rng.below(1000)); low = max(0, min(MAX64 - 6, p * q) - rng.below(2000)) // 30 * 30
        elif k == 3:
            low = (MAX64 - 6 - rng.below(3 * p)) // 30 * 30
        else:
            low = rng.below(1 << rng.between(3, 64)) // 30 * 30
        low = min(low, (MAX64 - 6) // 30 * 30)
        stop = rng.choice([MAX64, MAX64, min(MAX64, low + rng.below(1 << 26)), MAX64 - rng.below(1000)])
        which = "30" if rng.chance(1, 2) else "210"
        cases.append((which, stop, p, low))
    sh = ps.shard(cases)
    oi = ps.par_run(kp, ["".join("ASP%s %d %d %d\n" % c for _, c in s) for s in sh], timeout=300)
    om = ps.par_run(model, ["".join("LEAF asp%s %d %d %d\n" % c for _, c in s) for s in sh], timeout=300)
    stored = 0
    for s, (r1, a, e1), (r2, b, e2) in zip(sh, oi, om):
        for (idx, c), x, y in zip(s, a.splitlines(), b.splitlines()):
            ev += 1
            sigs.add(("asp", c[0], x == "none", c[3] > MAX64 - (1 << 40)))
            if x != "none": stored += 1
            if x != y:
                # classification against the specification: the first wheel multiple > low + 6 with cofactor >= prime
                mismatches.append({"key": "addSievingPrime", "what": "Wheel%s::addSievingPrime(prime=%d, segmentLow=%d), stop=%d: implementation %s, model %s" % (c[0], c[2], c[3], c[1], x, y),
                                   "failing_input": None})
    dist["addSievingPrime_cases"] = len(cases); dist["addSievingPrime_stored"] = stored
    # 2. API level at the top of the range: counts (multi-segment), blocks/iteration, store, nth_prime, plans
    top = countlib.top_cases(rng, 3 if not ctx.thorough else 12)
    top += [(MAX64 - 3000, MAX64, 16, "interval ending at 2^64-1"), (MAXPRIME, MAXPRIME, 16, "the largest prime alone"), (MAXPRIME + 1, MAX64, 16, "above the largest prime"),
            (MAX64, MAX64, 16, "2^64-1 alone"), (MAX64 - 100000, MAX64 - 1, 32, "ending at 2^64-2")]
    e2, mm, smp, sg, d2 = C04.run_counts(ctx, top, [1, 2, 3], ("default",), "count-top")
    ev += e2; mismatches += mm; samples += smp[:3]; sigs |= sg; dist["top_count_cases"] = len(top)
    hists = []
    for s in (MAXPRIME - 200, MAXPRIME - 1, MAXPRIME, MAXPRIME + 1, MAX64 - 1, MAX64, MAX64 - 30000 + rng.below(1000)):
        for b in ("cpp", "c"):
            hists.append((b, ["NEW %d %d" % (s, rng.choice([MAX64, s, s + 100 if s + 100 <= MAX64 else MAX64]))] + ["N"] * 12))
        hists.append(("cpp", ["NEW %d %d" % (s, MAX64), "GN", "GN", "GN"]))
        hists.append(("cpp", ["NEW %d %d" % (s, s - 2000), "P", "P", "N", "N", "N", "N", "N"]))
    executed, crashed = iterlib.run_probe(hists, timeout=600)
    if crashed:
        mismatches.append({"key": "crash", "what": "iterator crashed at the top of the range", "failing_input": {"history": hists[crashed["history_index"]]}})
    for (b, ops), ex in zip(hists, executed):
        if ex is None:
            continue
        ev += 1
        sc = iterlib.block_check(ex) if "GN" in ops else iterlib.spec_check(ex)
        sigs.add(("iter-top", b, any(r == "err" for _, r, _ in ex)))
        if sc is not None:
            mismatches.append({"key": "iter-top", "what": "%s iterator at the top of the range: op %d expected %s observed %s" % (b, sc[0], sc[1], sc[2]),
                               "failing_input": {"binding": b, "ops": ops, "expected": sc[1], "observed": sc[2]}})
        elif len(samples) < 6:
            samples.append({"binding": b, "history": ["%s -> %s" % (o, r[:40]) for o, r, _ in ex[:6]]})
    dist["top_histories"] = len(hists)
    # nth_prime / store at the top (C07 / C06 cases restricted to the top)
    probe = ps.build_probe("api_probe")
    nth = [(1, MAX64), (0, MAX64), (1, MAXPRIME), (0, MAXPRIME), (1, MAXPRIME - 1), (2, MAXPRIME - 1), (3, MAXPRIME - 30), (-1, MAX64), (-2, MAX64), (-1, MAXPRIME), (-1, MAXPRIME + 1), (10, MAX64 - 1000), (100, MAX64 - 1000)]
    rc, o, e = ps.run([probe], input="".join("NTH %d %d 1\n" % c for c in nth), timeout=900)
    for c, l in zip(nth, o.splitlines()):
        ev += 1
        p = C07.spec_nth(c[0], c[1]); exp = "err" if p is None else str(p)
        t = l.split()
        sigs.add(("nth-top", exp == "err"))
        if t[1] != exp or t[3] != exp:
            mismatches.append({"key": "nth-top", "what": "nth_prime(%d, %d) = %s, expected %s" % (c[0], c[1], l, exp), "failing_input": {"n": c[0], "start": c[1], "observed": l, "expected": exp}})
    dist["nth_top_cases"] = len(nth)
    return {"evaluations": ev, "distinct_nontrivial": len(sigs),
            "rule": "Wheel30/Wheel210::addSievingPrime on (prime, segmentLow, stop) with primes up to 2^32-5, segments in the top 2^34 / around p^2 / p*q / within 3p of 2^64, stop = 2^64-1: implementation vs model; multi-segment counts ending at 2^64-1..2^64-2, the largest prime alone; iterators of both bindings started around 2^64-59 incl. the calls after the last prime; generate_next_primes blocks; nth_prime around the top. distinct = distinct (kind, stored?/error?, top-of-range?)",
            "samples": samples, "mismatches": sorted(mismatches, key=lambda m: 0 if m.get("failing_input") else 1)[:20], "distribution": dist, "variants": ["default"]}


def search(ctx, broken):
    sub = type(ctx)(ctx.pid, "thorough", ctx.seed + 198491317)
    res = correspond(sub)
    return [m for m in res["mismatches"] if m.get("failing_input")]


def replay(ctx, obj):
    print(obj.get("what")); return 0

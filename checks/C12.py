"""C12: no undefined behaviour, memory error, failed assertion or leak for any input."""
import concurrent.futures, re
import ps, iterlib, countlib, C03, C06, C07, C09, C16, C13

LEVEL = "proof"
THEOREMS = ["C12_fill_round_in_bounds", "C12_buffer_slack", "C12_table_indices_in_range", "C12_checked_arith_in_range", "C12_iterator_index_in_range"]
ASSUMPTIONS = [
    "proved obligations: prime-buffer writes of the fill loop, slack of the forward buffer, indices into the source tables, range of every calculator result, the iterator's buffer index; everything else (alignment of casts, aliasing, uninitialised lanes, inline asm, libstdc++, bucket address arithmetic, SIMD paths) is not expressible in the model and is covered only by replaying the other checks' inputs on an ASan+UBSan+ENABLE_ASSERT build (partial)",
]
EXPLANATION = "Coq theorems for the listed bounds obligations + replay of the inputs of C03/C04/C05/C06/C07/C09/C11/C16 on a build with AddressSanitizer, UBSan (no recover) and ENABLE_ASSERT (bounds-checked Vector/Array), leak detection on"
SAN = re.compile(r"runtime error|AddressSanitizer|LeakSanitizer|Assertion .* failed|SUMMARY: |terminate called|Segmentation")


def san_run(exe, inp, timeout=900, argv=()):
    rc, o, e = ps.run([exe] + list(argv), input=inp, timeout=timeout)
    bad = rc != 0 or SAN.search(e or "")
    return rc, o, e, bool(bad)


def correspond(ctx):
    rng = ctx.rng
    variant = "asan"
    mismatches, samples, sigs = [], [], set()
    dist = {"batches": {}, "variant": variant}
    ev = 0
    scale = 3 if ctx.thorough else 1
    batches = []
    # iterator histories (C01/C02/C03 generators), incl. continued use after errors and lifecycle ops
    hists = []
    for k in range(140 * scale):
        b = "cpp" if k % 2 == 0 else "c"
        hists.append((b, iterlib.gen_history(rng, b, hi_frac=(80, 16, 3, 1))))
    for s in list(range(0, 12)) + [679, 700, 719, 720, 721, 763]:
        for h in ((1 << 64) - 1, s, 679, 721, 763):
            hists.append(("cpp", ["NEW %d %d" % (s, h), "N", "N", "GN", "P", "P"]))
    for s in ((1 << 64) - 1, (1 << 64) - 60, (1 << 64) - 500):
        # (a stop_hint just below keeps the backward chunk after the caught exception short: without it the
        #  chunk spans ~6e9 numbers, minutes under ASan)
        hists.append(("cpp", ["NEW %d %d" % (s, s - 3000)] + ["N"] * 8 + ["P", "P", "N", "C", "N", "F", "P"]))
        hists.append(("c", ["NEW %d %d" % (s, (1 << 64) - 1)] + ["N"] * 8))
    for shard in ps.shard(hists, 16):
        inp = []
        for _, (b, ops) in shard:
            inp += ["ITER %s" % b] + ops + ["END"]
        batches.append(("iterator histories", "iter_probe", "\n".join(inp) + "\n", len(shard)))
    # counts / prints / nth_prime at kernel boundaries
    cc = countlib.seam_cases(rng, 30 * scale) + countlib.shape_cases(rng, 50 * scale) + countlib.layer_cases(rng, 24 * scale) + countlib.exhaustive_small(14)
    lines = []
    for i, (a, b, kb, why) in enumerate(cc):
        lines.append("COUNT %d %d %d %d %d" % (1 + i % 6, a, b, [1, 2, 4][i % 3], kb))
    for i, (a, b, kb, why) in enumerate(cc[:40]):
        if b - a < 200000:
            lines.append("PRINT %s %d %d %d" % (["cpp", "c"][i % 2], 1 + i % 6, a, b))
    for n, s in [(0, 7), (1, 0), (-1, 100003), (-3, 5), (25, 0), (-(1 << 63), 100), ((1 << 63) - 1, 0), (1, (1 << 64) - 1), (500, 10 ** 9), (-500, 10 ** 9), (20000, 0)]:
        lines.append("NTH %d %d 2" % (n, s))
    for shard in ps.shard(lines, 6):
        batches.append(("counts, prints, nth_prime", "api_probe", "\n".join(l for _, l in shard) + "\n", len(shard)))
    # generate_primes / generate_n_primes, C arrays
    sc = C06.gen(rng, 1)
    for shard in ps.shard(sc, 16):
        batches.append(("generate_primes / generate_n_primes / C arrays", "store_probe", "\n".join(" ".join(str(x) for x in c) for _, c in shard) + "\n", len(shard)))
    # threads with dense piece boundaries
    _, tcounts, _ = C09.gen_cases(rng, 120 * scale)
    for shard in ps.shard(tcounts, 4):
        batches.append(("ParallelSieve with dense boundaries", "tiling_probe", "\n".join(l for _, l in shard) + "\n", len(shard)))
    # the bucket algorithms at unit level (real EratBig / EratMedium objects on all-ones sieves), incl. the boundary of EratBig's
    # sizing of buckets_ (the accesses go through raw pointers: only the sanitizer sees an overrun)
    ul = [countlib.unit_line("EBIG", c) for c in countlib.ebig_units(rng, 30 * scale)] + [countlib.unit_line("EMED", c) for c in countlib.emed_units(rng, 30 * scale)]
    for shard in ps.shard(ul, 4):
        batches.append(("EratBig / EratMedium units", "kernel_probe", "\n".join(l for _, l in shard) + "\n", len(shard)))
    # primesieve's own containers at unit level: Vector growth and MemoryPool bookkeeping histories (the models of C17) with
    # ENABLE_ASSERT and the sanitizers: placement new / raw pointer arithmetic / bucket alignment are only visible here
    cl2 = []
    for k in range(60 * scale):
        ops, size = [], 0
        for _ in range(rng.between(1, 40)):
            j = rng.below(10)
            if j < 4: ops.append("p"); size += 1
            elif j < 6: ops.append("r%d" % rng.below(3 * size + 8))
            elif j < 8: n = rng.below(2 * size + 6); ops.append("z%d" % n); size = n
            elif j < 9: n = rng.below(70); ops.append("a%d" % n); size += n
            else: ops.append("c"); size = 0
        cl2.append("VEC " + " ".join(ops))
    for k in range(6 * scale):
        ops, held = [], 0
        while len(ops) < 150 + 250 * k:
            run = rng.between(1, 120)
            if rng.chance(3, 5) or held == 0: ops += ["a"] * run; held += run
            else: run = min(run, held); ops += ["f"] * run; held -= run
        cl2.append("POOL " + " ".join(ops))
    for shard in ps.shard(cl2, 2):
        batches.append(("Vector / MemoryPool unit histories", "kernel_probe", "\n".join(l for _, l in shard) + "\n", len(shard)))
    # calculator
    ce = [("u64" if k % 2 else "int", C16.gen_malformed(rng) if k % 5 == 4 else C16.gen_expr(rng, "u64" if k % 2 else "int")) for k in range(800 * scale)]
    ce = [(t, e) for t, e in ce if "\n" not in e]
    batches.append(("calculator expressions", "calc_probe", "\n".join("%s %s" % c for c in ce) + "\n", len(ce)))
    # C error contract sequences
    cl = ["ITERERR %d 6" % ((1 << 64) - 1 - d) for d in (0, 58, 59, 700)] + ["ERRNO 0 NTH %d %d" % (n, s) for n, s in ((-5, 3), (5, 3), (-(1 << 63), 7))] + ["NULLSIZE %d 0 100" % c for c in (0, 5, 13, 99)]
    batches.append(("C error contract", "c_probe", "\n".join(cl) + "\n", len(cl)))
    def runb(b):
        name, probe, inp, n = b
        exe = ps.build_probe(probe, variant)
        return san_run(exe, inp)
    for b in batches:            # build sequentially (shared library build), run in parallel afterwards
        ps.build_probe(b[1], variant)
    with concurrent.futures.ThreadPoolExecutor(ps.NPROC) as ex:
        res = list(ex.map(runb, batches))
    for (name, probe, inp, n), (rc, o, e, bad) in zip(batches, res):
        ev += n
        dist["batches"][name] = dist["batches"].get(name, 0) + n
        sigs.add((name, bad))
        if bad:
            done = len(o.splitlines())
            rep = [l for l in (e or "").splitlines() if SAN.search(l)][:4]
            # isolate the failing line: the first input line the probe did not answer
            mismatches.append({"key": "sanitizer-" + probe, "what": "%s on the ASan+UBSan+ENABLE_ASSERT build: rc=%d %s" % (name, rc, " | ".join(rep)[:400]),
                               "failing_input": {"probe": probe, "answered_lines": done, "input_tail": inp.splitlines()[max(0, done - 3):done + 3], "report": (e or "")[-1500:]}})
        else:
            samples.append({"batch": name, "inputs": n, "result": "clean"})
    # the command line on the sanitizer build
    cli = ps.cli_path(variant)
    argvs = [["1e6", "-q"], ["2^64"], ["1<<64"], ["10", "-t", "2^31"], ["10", "-c", "99999999999"], ["461168601842738791", "-n"], ["9223372036854775808", "-n"],
             ["100", "-d", "18446744073709551615"], ["0", "100", "-p2"], ["18446744073709551000", "18446744073709551615", "-q"], ["1e3", "-c123456", "-q"], ["5", "-n"], ["abc"], ["1e3", "-s", "17", "-t", "3"]]
    for av in argvs:
        rc, o, e = ps.run([cli] + av, timeout=60)
        ev += 1
        sigs.add(("cli", rc))
        if rc not in (0, 1) or SAN.search(e or ""):
            mismatches.append({"key": "sanitizer-cli", "what": "primesieve %s on the sanitizer build: rc=%d %s" % (" ".join(av), rc, (e or "")[:300]), "failing_input": {"argv": av}})
    dist["cli_runs"] = len(argvs)
    return {"evaluations": ev, "distinct_nontrivial": len(sigs) + len(dist["batches"]),
            "rule": "the generators of C03 (histories incl. continued use after errors, moved-from, self-move, clear/free), C04/C05/C15 (kernel-boundary intervals), C06 (all element types), C07, C09 (dense thread boundaries), C11, C16 (expressions, argument vectors) replayed on the ASan+UBSan(-fno-sanitize-recover)+ENABLE_ASSERT build; any sanitizer report, failed assertion, leak or abnormal exit is a violation. distinct = batches x outcome",
            "samples": samples, "mismatches": mismatches[:20], "distribution": dist, "variants": [variant]}


def search(ctx, broken):
    res = correspond(ctx)
    return [m for m in res["mismatches"] if m.get("failing_input")]


def replay(ctx, obj):
    print(obj.get("what")); print(json.dumps(obj.get("failing_input"))[:2000]); return 0

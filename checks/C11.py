"""C11: the C API equals the C++ API and obeys its error contract."""
import ps, oracle, C06, C07

LEVEL = "proof"
THEOREMS = ["C11_wrapper_contract_u64", "C11_wrapper_contract_array", "C11_null_means_empty", "C11_invalid_type_code", "C11_error_sticky", "C11_error_entered"]
ASSUMPTIONS = [
    "the wrapper lemmas are about the outcome-to-(value, size, errno) mapping; that every C entry point has the try/catch shape is fingerprinted from the source by translate/tables.py and exercised by correspondence",
    "C11_error_sticky assumes kernel_spec (no prime in [2^64-1, 2^64-1] is all it uses) and holds for every heuristic and block layout",
    "equality of C and C++ results is by correspondence (C06: 14 type codes; C04/C05/C07/C15: counts, nth_prime, print; C03: iterator histories in both bindings)",
]
EXPLANATION = "Coq theorems on the wrapper contract and on the absorbing error state of primesieve_iterator + correspondence of every C entry point with its C++ counterpart incl. errno, *size, is_error and continued use after an error"
MAX64 = (1 << 64) - 1


def correspond(ctx, scale=1):
    rng = ctx.rng
    scale *= 3 if ctx.thorough else 1
    probe = ps.build_probe("c_probe")
    cases = []
    for _ in range(40 * scale):
        preset = rng.choice([0, 34, 2, 22])          # 0, ERANGE, ENOENT, EINVAL
        k = rng.between(1, 6); a = rng.below(10 ** rng.between(1, 9)); b = a + rng.below(100000)
        if rng.chance(1, 6): a, b = b + 1, a
        cases.append("ERRNO %d COUNT %d %d %d" % (preset, k, a, b))
    for _ in range(30 * scale):
        preset = rng.choice([0, 34, 2])
        n = rng.choice([0, 1, -1, 5, -5, 100, -100, -(1 << 63), (1 << 63) - 1])
        s = rng.choice([0, 3, 100, 10 ** 6, MAX64, MAX64 - 58, rng.below(10 ** 9)])
        cases.append("ERRNO %d NTH %d %d" % (preset, n, s))
    for s in [MAX64, MAX64 - 58, MAX64 - 59, MAX64 - 100, MAX64 - 3000] + [MAX64 - rng.below(6000) for _ in range(3 * scale)]:
        cases.append("ITERERR %d %d" % (s, rng.between(5, 12)))
    for code in list(range(14)) + [-1, 14, 1000]:
        cases.append("NULLSIZE %d 0 100" % code)
        cases.append("NULLSIZE %d 0 %d" % (code, 70000))
    # every failure must also report *size = 0: intervals whose result array cannot be allocated (all type codes), and invalid codes
    for code in list(range(14)) + [-1, 14]:
        cases.append("PRESIZE %d 0 %d" % (code, MAX64))
        cases.append("PRESIZE %d %d %d" % (code, 10 ** 15, 2 * 10 ** 18))
    sh = ps.shard(cases)
    outs = ps.par_run(probe, ["\n".join(c for _, c in s) + "\n" for s in sh], timeout=600)
    mismatches, samples, sigs = [], [], set()
    dist = {"kinds": {}, "errors": 0, "after_error_calls": 0}
    ev = 0
    for s, (rc, o, e) in zip(sh, outs):
        got = o.splitlines()
        if rc != 0 or len(got) != len(s):
            bad = s[min(len(got), len(s) - 1)][1]
            mismatches.append({"key": "crash", "what": "C probe crashed / timed out (rc=%d) on %s" % (rc, bad), "failing_input": {"command": bad}, "stderr": e[-300:]})
            continue
        for (idx, c), a in zip(s, got):
            ev += 1
            t = c.split(); dist["kinds"][t[0]] = dist["kinds"].get(t[0], 0) + 1
            bad = None
            if t[0] == "ERRNO":
                preset = t[1]
                if t[2] == "COUNT":
                    k, x, y = int(t[3]), int(t[4]), int(t[5])
                    exp = str(oracle.counts_between(x, y)[k - 1] if x <= y else 0)
                    want = "%s errno=%s" % (exp, preset)
                else:
                    n, st = int(t[3]), int(t[4])
                    if abs(n) > 10 ** 4:
                        want = "err errno=EDOM"
                    else:
                        p = C07.spec_nth(n, st)
                        want = "err errno=EDOM" if p is None else "%d errno=%s" % (p, preset)
                sigs.add((t[2], "err" in a, preset))
                if "err" in a: dist["errors"] += 1
                if a != want:
                    bad = "observed %r, contract requires %r" % (a, want)
            elif t[0] == "ITERERR":
                k = int(t[2]); st = int(t[1])
                primes = [p for p in oracle.primes_between(st, MAX64)]
                want = "run" + "".join(" %d" % p for p in primes) + " ERR(E,errno=EDOM) again" + " E/1" * k + " gen:E/1 jump100:101 clear:2 freed"
                dist["after_error_calls"] += k
                sigs.add(("itererr", len(primes), k))
                if a != want:
                    bad = "iterator history after the error: observed %r, expected %r" % (a[:300], want[:300])
            elif t[0] == "PRESIZE":
                want = "null size=0 errno=EDOM"
                sigs.add(("presize", int(t[1]), int(t[2]) == 0))
                if a != want:
                    bad = "a request that cannot be satisfied must return NULL with *size = 0 and errno = EDOM: observed %r" % a
            else:
                code, y = int(t[1]), int(t[3])
                ty = C06.CODES.get(code)
                ok = ty is not None and y <= C06.TYPES[ty[0]]
                want = "ptr errno=0" if ok else "null errno=EDOM"
                sigs.add(("nullsize", ok, code))
                if a != want:
                    bad = "size == NULL: observed %r, expected %r" % (a, want)
            if bad:
                mismatches.append({"key": "c-contract", "what": "%s: %s" % (c, bad), "failing_input": {"command": c, "observed": a[:400]}})
            elif len(samples) < 5 and t[0] not in ("NULLSIZE", "PRESIZE"):
                samples.append({"command": c, "observed": a[:160]})
    # the array entry points for all 14 type codes (shared with C06)
    sub = C06.correspond(ctx, scale=1)
    cm = [m for m in sub["mismatches"] if m["key"] in ("c-store", "crash")]
    mismatches += cm
    ev += sub["distribution"]["ops"].get("CGP", 0) + sub["distribution"]["ops"].get("CGN", 0)
    dist["array_calls_all_type_codes"] = sub["distribution"]["ops"].get("CGP", 0) + sub["distribution"]["ops"].get("CGN", 0)
    return {"evaluations": ev, "distinct_nontrivial": len(sigs) + dist["array_calls_all_type_codes"] // 3,
            "rule": "count_* / nth_prime through the C API with errno preset to 0/ERANGE/ENOENT/EINVAL (success must leave it, failure must set EDOM); the C iterator run past 2^64 from 8+ starts, then 5..12 further next calls, generate_next_primes, jump_to, clear, double free; generate_primes with size == NULL for all type codes and invalid codes; the array entry points for all 14 type codes at their limits (C06 cases). distinct = distinct (entry point, error?, errno preset / type code)",
            "samples": samples, "mismatches": sorted(mismatches, key=lambda m: 0 if m.get("failing_input") else 1)[:20], "distribution": dist, "variants": ["default"]}


def search(ctx, broken):
    sub = type(ctx)(ctx.pid, ctx.tier, ctx.seed + 160481183)
    res = correspond(sub, scale=3)
    return [m for m in res["mismatches"] if m.get("failing_input")]


def replay(ctx, obj):
    fi = obj.get("failing_input") or {}
    rc, o, e = ps.run([ps.build_probe("c_probe")], input=fi.get("command", "") + "\n", timeout=300)
    print(fi.get("command"), "->", o[:600])
    return 0

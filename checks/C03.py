"""C03: an iterator is a consistent cursor under any operation history."""
import os, json, glob
import ps, iterlib, oracle

LEVEL = "proof"
THEOREMS = ["iterator_refines_cursor", "iterator_total", "hint_irrelevant", "cleared_is_fresh"]
ASSUMPTIONS = [
    "kernel_ok: PrimeGenerator(a,b) yields exactly primes_between a b (statement of the kernel theorem; hypothesis of the Section, exercised by the correspondence at every magnitude)",
    "getNextDist/getPrevDist/maxPrimeGap and the block cutter are universally quantified: no assumption",
    "C++ exceptions modelled as an outcome value; memory is not modelled here (C12/C13/C17)",
]
EXPLANATION = "refinement proof (Coq) of the iterator model to the cursor specification + correspondence of the model with the real C++ and C iterators on random operation histories"


def correspond(ctx, nhist=None, variants=("default",), hi_frac=(70, 20, 8, 2), use_oracle=False):
    rng = ctx.rng
    nhist = nhist or (2400 if ctx.thorough else 400)
    hists = []
    # corpus of minimised past failures first
    for f in sorted(glob.glob(os.path.join(ps.ROOT, "corpus", "iter", "*.json"))):
        c = json.load(open(f))
        hists.append((c["binding"], c["ops"]))
    for k in range(nhist):
        b = "cpp" if k % 2 == 0 else "c"
        hists.append((b, iterlib.gen_history(rng, b, hi_frac=hi_frac)))
    for k in range(nhist // 8):
        b = "cpp" if k % 2 == 0 else "c"
        hists.append((b, iterlib.hint_crossing_history(rng, b)))
    # exhaustive sweep of re-targeting into the cached-prime table and its hand-over (every target 0..800,
    # jump_to / skipto, both directions first)
    for t in range(0, 801):
        b = "cpp" if t % 2 == 0 else "c"
        h = [iterlib.MAX64, t, t + 40, max(0, t - 3), 763][t % 5]
        op = "J %d %d" % (t, h) if t % 3 else "S %d %d" % (t, h)
        hists.append((b, ["NEW %d %d" % (rng.below(2000), iterlib.MAX64), "N", op] + (["N", "P", "P", "N"] if t % 2 else ["P", "N", "N", "P"])))
        hists.append((b, ["NEW %d %d" % (rng.below(2000), iterlib.MAX64), "P", op] + (["P", "N"] if t % 2 else ["N", "P"])))
        # ... and as the very first operation of a fresh iterator / right after clear() (no prime generated yet)
        op2 = "S %d %d" % (t, h) if b == "c" else "J %d %d" % (t, h)
        hists.append((b, ["NEW %d %d" % (rng.below(2000), iterlib.MAX64), op2] + (["N", "P"] if t % 2 else ["P", "N"])))
        if t % 4 == 0:
            hists.append((b, ["NEW %d %d" % (rng.below(2000), iterlib.MAX64), "N", "C", op2] + (["P", "N"] if t % 8 else ["N", "P"])))
    mismatches = []
    samples = []
    sigs = set()
    dist = {"magnitude": {}, "ops": {}, "edge_switches": 0, "switches": 0, "errors": 0, "zeros": 0}
    evaluations = 0
    for variant in variants:
        executed, crashed = iterlib.run_probe(hists, variant, timeout=1500 if ctx.thorough else 500)
        if crashed:
            idx = crashed["history_index"]
            b, ops = hists[idx] if idx < len(hists) else ("?", [])
            mismatches.append({"key": "crash", "what": "implementation crashed / timed out during an iterator history (rc=%s)" % crashed["rc"],
                               "failing_input": {"binding": b, "ops": ops, "executed": crashed["partial"]}, "stderr": crashed["stderr"], "variant": variant})
        params = [iterlib.oracle_params(rng) for _ in executed]
        model = iterlib.run_model(executed, params)
        for hi, (ex, mo) in enumerate(zip(executed, model)):
            if ex is None:
                continue
            evaluations += 1
            b = hists[hi][0]
            sg = iterlib.signature(ex)
            sigs.add((b,) + sg)
            for op, r, pos in ex:
                k = op.split()[0]
                dist["ops"][k] = dist["ops"].get(k, 0) + 1
                if r == "err": dist["errors"] += 1
                if r == "v 0": dist["zeros"] += 1
                if r.startswith("v "):
                    m = "1e%d" % iterlib.magnitude(int(r[2:]))
                    dist["magnitude"][m] = dist["magnitude"].get(m, 0) + 1
            dist["switches"] += sum(1 for s in sg if s[:2] in ("NP", "PN"))
            dist["edge_switches"] += sum(1 for s in sg if s.endswith("@edge"))
            imp = [r for _, r, _ in ex]
            sc0 = iterlib.spec_check(ex) if use_oracle else None
            if imp != mo[:len(imp)] or sc0 is not None:
                j = next((i for i in range(len(imp)) if i >= len(mo) or imp[i] != mo[i]), sc0[0] if sc0 else 0)
                sc = sc0 or iterlib.spec_check(ex)
                m = {"key": "iter-history", "variant": variant, "binding": b, "ops": hists[hi][1],
                     "executed": [[o, r] for o, r, _ in ex[:j + 1]], "model_says": mo[j] if j < len(mo) else None,
                     "impl_says": imp[j], "model_oracles": params[hi]}
                if sc is not None:
                    m["what"] = "iterator returns %s where the cursor specification requires %s (op %d of the history)" % (sc[2], sc[1], sc[0])
                    m["failing_input"] = {"binding": b, "executed_prefix": [[o, r] for o, r, _ in ex[:sc[0] + 1]], "expected": sc[1], "observed": sc[2]}
                else:
                    m["what"] = "model and implementation disagree on a history the independent oracle accepts (correspondence iterator model <-> code broken)"
                    m["failing_input"] = None
                mismatches.append(m)
            elif len(samples) < 4 and len(ex) > 4:
                samples.append({"binding": b, "history": ["%s -> %s" % (o, r) for o, r, _ in ex[:12]]})
    return {"evaluations": evaluations, "distinct_nontrivial": len(sigs),
            "rule": "random histories over {next, prev, next/prev-to-buffer-edge, jump_to, skipto (C), clear, move round trip/self move (C++), moved-from, re-construct} from one splitmix64 stream; a case is counted once per distinct (binding, set of transition kinds: direction switches in/at the edge of a buffer, error, zero sentinel, resets)",
            "samples": samples, "mismatches": sorted(mismatches, key=lambda m: 0 if m.get("failing_input") else 1)[:20], "distribution": dist, "variants": list(variants)}


def search(ctx, broken):
    """a proof obligation broke: look for a failing history with more seeds and all magnitudes"""
    sub = type(ctx)(ctx.pid, ctx.tier, ctx.seed + 7919)
    res = correspond(sub, nhist=800, variants=("default", "portable"), use_oracle=True)
    return [m for m in res["mismatches"] if m.get("failing_input")]


def replay(ctx, obj):
    fi = obj.get("failing_input") or {}
    ops = obj.get("ops") or [o for o, _ in fi.get("executed_prefix", [])]
    b = obj.get("binding") or fi.get("binding", "cpp")
    executed, crashed = iterlib.run_probe([(b, ops)], obj.get("variant", "default"))
    if crashed:
        print("VIOLATION property=%s replay=(given) crash" % ctx.pid); return 1
    sc = iterlib.spec_check(executed[0])
    if sc:
        print("replayed: op %d expected %s observed %s" % sc)
        print("VIOLATION property=%s replay=(given)" % ctx.pid)
        return 1
    print("replayed: history satisfies the cursor specification")
    return 0

"""C05: prime k-tuplet counts (k = 2..6) are exact, including small and boundary cases."""
import ps, oracle, countlib, C04

LEVEL = "proof"
THEOREMS = ["C05_mask_lemma", "C05_kcount_lemma", "C05_tuplet_one_byte", "C05_small_table_ok", "C05_no_split", "C05_segment_tuplets_spec", "C05_ktuplets_model_kernel", "C05_byte_values", "C05_full_segment_tuplets", "C05_kernel_bytes_spec"]
ASSUMPTIONS = [
    "the lemmas are about the source tables (bit masks, small-constellation table; regenerated from the source on every run) and the per-byte logic; that the sieve bytes hold exactly the primes of [start, stop] is the kernel hypothesis (erat_spec), exercised by the correspondence",
    "the summation over the bytes of all segments (countkTuplets reads 4 bytes at a time; zero padding) is tied by correspondence only",
]
EXPLANATION = "Coq lemmas (finite checks over all byte values / residues, lifted) on masks, byte containment, the small table and thread boundaries + correspondence of all five count functions with an independent oracle"


def correspond(ctx, scale=1):
    rng = ctx.rng
    scale *= 4 if ctx.thorough else 1
    cases = countlib.exhaustive_small(46)
    cases += countlib.seam_cases(rng, 60 * scale) + countlib.shape_cases(rng, 100 * scale) + countlib.layer_cases(rng, 16 * scale) + countlib.top_cases(rng, 2 * scale)
    # intervals cutting each member position of dense constellation regions
    for _ in range(60 * scale):
        base = rng.choice([0, 0, 90, 1480, 16050, 19410, 43770, 1006290, 2594940]) + rng.between(0, 40)
        cases.append((base, base + rng.between(0, 60), rng.choice(countlib.SIEVE_SIZES), "cut constellation"))
    variants = ("default", "portable") if ctx.thorough else ("default",)
    ev, mm, samples, sigs, dist = C04.run_counts(ctx, cases, [2, 3, 4, 5, 6], variants, "count-ktuplets")
    # several threads with piece boundaries every ~100 numbers (hook H1): no constellation may be split or lost
    import C09
    probe = ps.build_probe("tiling_probe")
    _, tcases, _ = C09.gen_cases(rng, 240 * scale)
    sh = ps.shard(tcases)
    outs = ps.par_run(probe, ["\n".join(c for _, c in s_) + "\n" for s_ in sh], timeout=600)
    for s_, (rc, o, e) in zip(sh, outs):
        for (idx, case), a in zip(s_, o.splitlines()):
            ev += 1
            t = case.split(); ai = a.split()
            try:
                multi = [int(x) for x in ai[ai.index("counts") + 1:ai.index("counts") + 7]]
            except ValueError:
                continue
            exp = oracle.counts_between(int(t[1]), int(t[2])) if int(t[2]) >= int(t[1]) else [0] * 6
            sigs.add(("threads", multi[1] > 0, multi[3] > 0, int(t[1]) < 20))
            if multi != exp:
                mm.append({"key": "count-ktuplets-threads", "what": "counts with %s threads and piece length ~%s: %s, expected %s (%s)" % (t[3], t[4], multi, exp, case),
                           "failing_input": {"case": case, "observed": multi, "expected": exp}})
    dist["threaded_dense_boundaries"] = len(tcases)
    return {"evaluations": ev, "distinct_nontrivial": len(sigs),
            "rule": "all 0 <= a <= b < 46 for the five kinds (every small constellation and every cut of it); intervals cutting each member of constellations in dense regions; segment-seam and byte-edge intervals as C04; threads 1/2/4/16, sieve sizes %s. distinct = distinct (build, kind, reason, sieve size, residues mod 30, nonzero?)" % countlib.SIEVE_SIZES,
            "samples": samples, "mismatches": sorted(mm, key=lambda m: 0 if m.get("failing_input") else 1)[:20], "distribution": dist, "variants": list(variants)}


def search(ctx, broken):
    sub = type(ctx)(ctx.pid, ctx.tier, ctx.seed + 67867967)
    res = correspond(sub, scale=3)
    return [m for m in res["mismatches"] if m.get("failing_input")]


replay = C04.replay

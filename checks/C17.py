"""C17: memory is bounded by sqrt(stop) and sieve size, not interval length; it is freed."""
import concurrent.futures, math, re
import ps, oracle, C13

LEVEL = "proof"
THEOREMS = ["C17_forward_buffer_bounded", "C17_vector_capacity_bounded", "C17_memory_pool_bounded"]
ASSUMPTIONS = [
    "proved: the size of the forward prime buffer (for every value of the floating point estimate), and the capacity of primesieve's Vector <= 2 x the largest size / reservation requested, for every operation history; measured (not proved): peak heap of counting / iterating via a replaced allocator - which buckets EratMedium / EratBig hold at a time (the pool's peak demand) is not modelled in Coq (partial); the pool's own bookkeeping is: no bucket lost, fewer than peak demand + MAX_ALLOC_BYTES/sizeof(Bucket) buckets owned, for every addBucket/freeBucket history",
    "allocator overhead, thread stacks and libstdc++ internals are outside the measurement's model",
]
EXPLANATION = "Coq theorem on the forward buffer size + correspondence of that size with the real IteratorData, and heap measurements (replaced operator new/delete, wrapped malloc): peak independent of the interval length over three orders of magnitude, bounded by an explicit function of sqrt(stop) and the sieve size, at most 2 KiB after clear(), zero after destruction"


def bound(stop, sieve_kb=32, threads=1):
    r = math.isqrt(stop)
    pi_up = int(r / max(1.0, math.log(max(r, 3)) - 1.1)) + 5
    return threads * (16 * pi_up + 3 * sieve_kb * 1024 + (1 << 20))


def correspond(ctx):
    rng = ctx.rng
    exe = ps.build_probe("fault_probe", "default", extra_flags=C13.WRAP)
    kp = ps.build_probe("kernel_probe")
    model = ps.build_model()
    mismatches, samples, sigs = [], [], set()
    dist = {"capacity_cases": 0, "max_capacity": 0, "measurements": 0}
    # 1. forward buffer size: implementation vs model vs 1024
    cases = []
    for s in list(range(0, 12)) + [100, 600, 700, 718, 719, 720, 721, 722, 1000, 10 ** 6, 10 ** 12]:
        for h in [(1 << 64) - 1, s, s + 40, 679, 719, 720, 721, 763, 5000, 5 * 10 ** 7, 10 ** 12, rng.below(10 ** 9)]:
            cases.append((s, h))
    for _ in range(60 if not ctx.thorough else 400):
        s = rng.below(10 ** rng.between(1, 14)); cases.append((s, s + rng.below(10 ** rng.between(1, 10))))
    rc, o, e = ps.run([kp], input="".join("NBUF %d %d\n" % c for c in cases), timeout=600)
    lines = o.splitlines()
    rcm, om, em = ps.run([model], input="".join("LEAF nbuf %s %d %s\n" % (l.split()[3], c[0], l.split()[2]) if l != "exc" else "LEAF none\n" for c, l in zip(cases, lines)), timeout=300)
    for c, l, m in zip(cases, lines, om.splitlines()):
        if l == "exc":
            continue
        dist["capacity_cases"] += 1
        cap = int(l.split()[0]); dist["max_capacity"] = max(dist["max_capacity"], cap)
        sigs.add(("cap", cap == 1024, c[0] <= 719, int(l.split()[2]) >= 721))
        if cap > 1024:
            mismatches.append({"key": "fwd-buffer", "what": "iterator(%d, %d): forward prime buffer holds %d entries (> 1024)" % (c[0], c[1], cap),
                               "failing_input": {"start": c[0], "stop_hint": c[1], "buffer_entries": cap}})
        elif str(cap) != m.split()[0]:
            mismatches.append({"key": "fwd-buffer-model", "what": "iterator(%d, %d): buffer size %d, model %s" % (c[0], c[1], cap, m), "failing_input": None})
    # 1b. Vector.hpp growth: random operation histories, real Vector<uint64_t> vs the extracted vec_run, and the proved bound
    def vec_hist():
        ops, size = [], 0
        for _ in range(rng.between(1, 40)):
            k = rng.below(10)
            if k < 4: ops.append("p"); size += 1
            elif k < 6: ops.append("r%d" % rng.below(3 * size + 8))
            elif k < 8: n = rng.below(2 * size + 6); ops.append("z%d" % n); size = n
            elif k < 9: n = rng.below(70); ops.append("a%d" % n); size += n
            else: ops.append("c"); size = 0
        return ops
    hists = [["p"] * 70, ["r5", "p", "p", "p", "p", "p", "p", "r9", "z13", "z14", "a1", "c", "p"], ["z3", "r4", "r5", "z6", "a0", "a3"]]
    hists += [vec_hist() for _ in range(150 if not ctx.thorough else 1500)]
    rc, o, e = ps.run([kp], input="".join("VEC %s\n" % " ".join(h) for h in hists), timeout=300)
    rcm, om, em = ps.run([model], input="".join("LEAF vec %s\n" % " ".join(h) for h in hists), timeout=300)
    dist["vector_histories"] = len(hists); dist["vector_ops"] = sum(len(h) for h in hists)
    for h, l, m in zip(hists, o.splitlines() + ["<no output>"] * len(hists), om.splitlines() + ["<no output>"] * len(hists)):
        sigs.add(("vec", len(h) // 8, "c" in h, any(x[0] == "a" for x in h)))
        if l != m:
            # a disagreement: look for a state that breaks the proved bound in the implementation
            high, bad = 0, None
            size = 0
            for op, st in zip(h, l.split()):
                try: sz, cap = (int(x) for x in st.split(","))
                except ValueError: break
                dem = size + 1 if op == "p" else (0 if op == "c" else (size + int(op[1:]) if op[0] == "a" else int(op[1:])))
                high = max(high, dem); size = sz
                if cap > 2 * high or sz > cap: bad = {"ops": h[:h.index(op) + 1] if False else h, "size": sz, "capacity": cap, "largest_request": high}; break
            mismatches.append({"key": "vector-growth", "what": "Vector<uint64_t> history %s: (size,capacity) per step %s, model %s%s" % (" ".join(h), l, m, "; capacity %d exceeds twice the largest request %d" % (bad["capacity"], bad["largest_request"]) if bad else ""),
                               "failing_input": bad})
    # 1c. MemoryPool bookkeeping: addBucket / freeBucket histories, real MemoryPool vs the extracted pool_step, and the proved bound
    def pool_hist(n):
        ops, held = [], 0
        while len(ops) < n:
            run = rng.between(1, 200)
            if rng.chance(3, 5) or held == 0:
                ops += ["a"] * run; held += run
            else:
                run = min(run, held + rng.below(3)); ops += ["f"] * run; held = max(0, held - run)
        return ops
    phists = [["a"] * 75 + ["f"] * 75 + ["a"] * 100, ["a"] * 73 + ["f"] + ["a"] * 2 + ["f"] * 80 + ["a"] * 200, ["f", "a", "f", "f", "a"]]
    phists += [pool_hist(rng.between(100, 1500)) for _ in range(12 if not ctx.thorough else 60)]
    phists.append(["a"] * (3000 if not ctx.thorough else 20000) + ["f"] * 500 + ["a"] * 700)
    rc, o, e = ps.run([kp], input="".join("POOL %s\n" % " ".join(h) for h in phists), timeout=600)
    real = [l.split() for l in o.splitlines()] + [["0"]] * len(phists)
    rcm, om, em = ps.run([model], input="".join("LEAF pool %s %s\n" % (r[0], " ".join(x.split(":")[0] for x in r[1:])) for r in real[:len(phists)]), timeout=600)
    dist["pool_histories"] = len(phists); dist["pool_ops"] = sum(len(h) for h in phists); dist["pool_max_allocations"] = 0
    def pool_scan(h, r, msteps):
        """walk one history: bucket conservation and the proved bound on the implementation's own numbers, then (msteps given) the model"""
        maxc = int(r[0]) if r and r[0].isdigit() else 0
        steps = r[1:]
        if maxc < 73 or len(steps) != len(h):
            return "MAX_ALLOC_BYTES / sizeof(Bucket) = %d (< 73) or probe output incomplete (%d of %d operations)" % (maxc, len(steps), len(h)), None, 0
        inuse = total = peak = 0; lastn = 0
        for i, st in enumerate(steps):
            tag, vals = st.split(":"); n, cnt, stock = (int(x) for x in vals.split(","))
            if tag[0] == "a": inuse += 1; peak = max(peak, inuse)
            elif inuse > 0: inuse -= 1
            if n != lastn: total += cnt; lastn = n
            if stock + inuse != total or total > peak + maxc or cnt > max(maxc, 73):
                bad = {"ops": "a*%d ..." % h.index("f") if len(h) > 2000 and "f" in h else "".join(h[:i + 1]), "operation": i + 1, "allocations": n, "count_": cnt, "stock": stock, "in_use": inuse, "buckets_allocated": total, "peak_in_use": peak, "maxCount": maxc}
                return "after operation %d: stock %d + in use %d vs %d buckets allocated (peak in use %d, count_ %d, maxCount %d): the pool lost a bucket or allocated beyond peak demand + maxCount" % (i + 1, stock, inuse, total, peak, cnt, maxc), bad, lastn
            if msteps is not None:
                mm = msteps[i].split(",")[:3] if i < len(msteps) else None
                if mm != [str(n), str(cnt), str(stock)]:
                    return "after operation %d (%s): implementation (allocations, count_, stock) = (%d, %d, %d), model %s" % (i + 1, tag, n, cnt, stock, mm), None, lastn
        return None, None, lastn
    deep_done = False
    for h, r, m in zip(phists, real, om.splitlines() + [""] * len(phists)):
        why, bad, lastn = pool_scan(h, r, m.split())
        dist["pool_max_allocations"] = max(dist["pool_max_allocations"], lastn)
        sigs.add(("pool", lastn, len(h) // 500))
        if why and bad is None and not deep_done:
            # the correspondence broke: look for a history on which the implementation itself breaks the proved bound
            deep_done = True
            for hh in (["a"] * 25000, ["a"] * 2500 + ["f"] * 2500 + ["a"] * 6000):
                rc2, o2, e2 = ps.run([kp], input="POOL %s\n" % " ".join(hh), timeout=600)
                w2, b2, _ = pool_scan(hh, o2.split(), None)
                if b2:
                    b2["ops"] = "a*25000" if "f" not in hh else "a*2500 f*2500 a*6000"
                    mismatches.append({"key": "memory-pool", "what": "MemoryPool history %s: %s" % (b2["ops"], w2), "failing_input": b2}); break
        if why:
            mismatches.append({"key": "memory-pool", "what": "MemoryPool history of %d operations: %s" % (len(h), why), "failing_input": bad})
    # 2. heap measurements
    jobs = []
    for mag, kb in ((10 ** 9, 32), (10 ** 12, 32), (10 ** 14, 32)):
        for L in (10 ** 6, 3 * 10 ** 7, 10 ** 9 if mag >= 10 ** 12 else 3 * 10 ** 8):
            jobs.append(("peak_count", mag, mag + L, 1))
    for L in (10 ** 5, 3 * 10 ** 6, 10 ** 8):
        jobs.append(("peak_iter_fwd", 10 ** 11, 10 ** 11 + L, 0))
    for L in (5 * 10 ** 5, 5 * 10 ** 6, 6 * 10 ** 7):
        jobs.append(("peak_iter_bwd", 10 ** 10 - L, 10 ** 10, 0))
        jobs.append(("peak_iter_bwd", 10 ** 10 - L, 10 ** 10, 1))      # the same with stop_hint = the lower end
    jobs.append(("peak_iter_fwd", 0, 3 * 10 ** 7, 0))
    for s, n, back in ((1000, 2000, 0), (10 ** 9, 3000, 0), (10 ** 6, 500, 1), (0, 1500, 1), (10 ** 13, 100, 0)):
        jobs.append(("clearsize", s, n, back))
    def run(j):
        return ps.run([exe, j[0], "0"] + [str(x) for x in j[1:]], timeout=600)
    with concurrent.futures.ThreadPoolExecutor(6) as ex:
        res = list(ex.map(run, jobs))
    peaks = {}
    for j, (rc, o, e) in zip(jobs, res):
        dist["measurements"] += 1
        r = C13.parse(o)
        if rc != 0 or r is None:
            mismatches.append({"key": "measure-crash", "what": "measurement %s failed rc=%d" % (j, rc), "failing_input": {"job": j}}); continue
        peaks[j] = r["peak"]
        sigs.add((j[0], int(math.log10(max(10, j[2] - j[1]))) if j[0] != "clearsize" else j[3]))
        if r["live"] != 0:
            mismatches.append({"key": "leak", "what": "%s: %d bytes still allocated after destruction" % (j, r["live"]), "failing_input": {"job": j, "live": r["live"]}})
        if j[0] in ("peak_count", "peak_iter_fwd", "peak_iter_bwd"):
            # backward: one chunk of max(MIN_CACHE_ITERATOR worth of primes, 2*sqrt(stop) numbers), times the resize slack
            b = bound(j[2]) + (2 * 4194304 + 2 * 8 * int(2.2 * math.isqrt(j[2]) / math.log(j[2])) + (1 << 16) if j[0] == "peak_iter_bwd" else 0)
            if r["peak"] > b:
                mismatches.append({"key": "peak-bound", "what": "%s: peak heap %d bytes exceeds the bound %d (function of sqrt(stop) and sieve size only)" % (j, r["peak"], b),
                                   "failing_input": {"job": j, "peak": r["peak"], "bound": b}})
        if j[0] == "peak_iter_fwd":
            mb = int(r["values"][r["values"].index("maxbuf") + 1])
            if mb > 1024:
                mismatches.append({"key": "fwd-buffer", "what": "%s: forward iterator buffered %d primes at once" % (j, mb), "failing_input": {"job": j, "maxbuf": mb}})
        if j[0] == "clearsize":
            v = r["values"]; held = int(v[v.index("held_after_clear") + 1])
            if held > 2048:
                mismatches.append({"key": "clear", "what": "%s: %d bytes held after clear() (> 2 KiB)" % (j, held), "failing_input": {"job": j, "held": held}})
            elif len(samples) < 3:
                samples.append({"job": j, "held_before_clear": int(v[v.index("held_before_clear") + 1]), "held_after_clear": held})
    # shape: same magnitude, span x1 / x30 / x1000 -> same peak
    groups = {}
    for j, p in peaks.items():
        if j[0] == "peak_iter_bwd" and j[3] == 1:
            # with a stop_hint at the far end the first chunk may only get shorter: never more memory than without the hint
            ref = peaks.get((j[0], j[1], j[2], 0))
            if ref is not None and p > 1.3 * ref + 65536:
                mismatches.append({"key": "peak-hint", "what": "backward iteration from %d down to %d: with stop_hint = %d the peak heap is %d bytes, without a hint %d" % (j[2], j[1], j[1], p, ref),
                                   "failing_input": {"jobs": [list(j), [j[0], j[1], j[2], 0]], "peaks": [p, ref]}})
            continue
        if j[0].startswith("peak_"):
            key = (j[0], j[1] if j[0] != "peak_iter_bwd" else j[2], j[3])
            groups.setdefault(key, []).append((j[2] - j[1], p, j))
    for key, lst in groups.items():
        lst.sort()
        if len(lst) >= 3:
            # the shortest span may need less (fewer segments / sieving primes in use); between the two long spans
            # (x30 .. x1000) the peak must not grow
            small, big = lst[-2], lst[-1]
            samples.append({"workload": key[0], "at": key[1], "span_and_peak": [(a, b) for a, b, _ in lst]})
            if big[1] > 1.3 * small[1] + 65536:
                mismatches.append({"key": "peak-shape", "what": "%s at %d: peak heap grows with the interval length: %s" % (key[0], key[1], [(a, b) for a, b, _ in lst]),
                                   "failing_input": {"jobs": [l[2] for l in lst], "peaks": [l[1] for l in lst]}})
    ev = dist["capacity_cases"] + dist["measurements"] + dist["vector_histories"] + dist["pool_histories"]
    return {"evaluations": ev, "distinct_nontrivial": len(sigs),
            "rule": "MemoryPool.cpp: addBucket/freeBucket histories (up to 3000 / 20000 buckets), real MemoryPool (allocations, count_, stock length after every operation, std::align waste observed) vs the extracted pool_step, bucket conservation and the proved bound checked on the implementation; Vector.hpp: random histories of push_back/reserve/resize/append/clear, real Vector<uint64_t> (size, capacity) after every operation vs the extracted vec_run; forward buffer size for (start, stop_hint) around the cached-prime table, explicit far hints and random pairs (implementation vs model vs 1024); peak heap of count_primes / forward / backward iteration (without and with a stop_hint at the far end) at fixed magnitude with the span varied over three orders of magnitude; bytes held after clear() and after destruction for 5 histories. distinct = distinct (measurement kind, span class) / (capacity class)",
            "samples": samples[:8], "mismatches": sorted(mismatches, key=lambda m: 0 if m.get("failing_input") else 1)[:20], "distribution": dist, "variants": ["default"]}


def search(ctx, broken):
    res = correspond(ctx)
    return [m for m in res["mismatches"] if m.get("failing_input")]


def replay(ctx, obj):
    print(obj.get("what")); return 0

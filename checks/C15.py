"""C15: printed primes and k-tuplets are exactly the counted ones, in order and format."""
import re
import ps, oracle, countlib

LEVEL = "proof"
THEOREMS = ["C15_printed_is_counted", "C15_small_strings_ok", "C15_kernel_decode_spec"]
ASSUMPTIONS = [
    "the per-byte lemma (printed = counted = constellations of the byte, ordered by first member) and the table strings are proved; batching (64 KiB), segment order and the ostream layer are tied by byte-exact correspondence of captured stdout only",
    "kernel hypothesis as C04/C05",
]
EXPLANATION = "Coq lemmas on the per-byte printing logic and the small-table strings + byte-exact comparison of the stdout of all 12 library print functions and of the CLI --print with an independent rendering"


def render(k, a, b):
    if a > b:
        return []
    if k == 1:
        ps_ = oracle.segment_primes(a, b) if b < 2 * 10 ** 15 else oracle.primes_between(a, b)
        return [str(p) for p in ps_]
    return ["(" + ", ".join(map(str, t)) + ")" for t in oracle.ktuplets_between(k, a, b)]


def correspond(ctx, scale=1):
    rng = ctx.rng
    scale *= 4 if ctx.thorough else 1
    cases = [(a, b, 16, "exhaustive small") for a in range(0, 24) for b in range(a, 24, 1)]
    cases += [c for c in countlib.seam_cases(rng, 40 * scale) if c[1] - c[0] < 3 * 10 ** 6]
    cases += [c for c in countlib.shape_cases(rng, 70 * scale) if c[1] - c[0] < 3 * 10 ** 6]
    cases += [c for c in countlib.layer_cases(rng, 16 * scale) if c[1] - c[0] < 100000]
    # one segment larger than the 64 KiB print batch (needs stop >~ 2.4e9 and a sieve size > 64 KiB)
    for _ in range(2 * scale):
        a = rng.between(3 * 10 ** 9, 10 ** 11)
        cases.append((a, a + rng.between(2100000, 2600000), rng.choice([128, 256]), "segment larger than the 64 KiB print batch"))
    probe = ps.build_probe("api_probe")
    cli = ps.cli_path("default")
    # printing with an explicit thread count on an interval wide enough for several threads: still one ordered stream
    cases.append((rng.below(1000), 21 * 10 ** 6 + rng.below(10 ** 6), 32, "print with -t 4 on a multi-thread sized interval"))
    jobs = []
    for i, (a, b, kb, why) in enumerate(cases):
        k = 1 + (i % 6)
        if why.startswith("segment larger"):
            k = 1
        if why.startswith("print with -t"):
            jobs.append((a, b, kb, why, rng.choice([1, 2]), "cli-t4")); continue
        binding = ["cpp", "c", "cli", "cli-q-count"][i % 4]
        jobs.append((a, b, kb, why, k, binding))
    import concurrent.futures
    def run1(job):
        a, b, kb, why, k, binding = job
        if binding in ("cpp", "c"):
            rc, o, e = ps.run([probe], input="SS %d\nPRINT %s %d %d %d\n" % (kb, binding, k, a, b), timeout=120)
            m = re.search(r"BEGIN\n(.*?)END\n", o, flags=re.S)
            return rc, (m.group(1) if m else None), o
        argv = [cli, str(a), str(b), "--print=%d" % k, "-s", str(kb)]
        if binding == "cli-q-count":
            argv = [cli, str(a), str(b), "-q", "-p%d" % k, "-c%d" % k, "--size=%d" % kb]
        if binding == "cli-t4":
            argv = [cli, str(a), str(b), "-p%d" % k, "-t", "4"]
        rc, o, e = ps.run(argv, timeout=120)
        return rc, o, o
    with concurrent.futures.ThreadPoolExecutor(ps.NPROC) as ex:
        results = list(ex.map(run1, jobs))
    mismatches, samples, sigs = [], [], set()
    dist = {"bindings": {}, "kinds": {}, "lines": 0, "bytes": 0, "why": {}}
    for job, (rc, got, raw) in zip(jobs, results):
        a, b, kb, why, k, binding = job
        exp_lines = render(k, a, b)
        exp = "".join(l + "\n" for l in exp_lines)
        if binding == "cli-q-count":
            exp += "%d\n" % len(exp_lines)
        dist["bindings"][binding] = dist["bindings"].get(binding, 0) + 1
        dist["kinds"][str(k)] = dist["kinds"].get(str(k), 0) + 1
        dist["lines"] += len(exp_lines); dist["bytes"] += len(exp)
        dist["why"][why[:28]] = dist["why"].get(why[:28], 0) + 1
        sigs.add((binding, k, why.split(" ")[0], len(exp_lines) > 0, len(exp_lines) > 1, a <= 5))
        if rc != 0 or got != exp:
            gl = (got or "").split("\n")
            j = next((i for i in range(min(len(gl), len(exp_lines))) if gl[i] != exp_lines[i]), min(len(gl), len(exp_lines)))
            mismatches.append({"key": "print", "what": "print kind %d of [%d, %d] via %s (sieve size %d): exit %d, %d bytes, expected %d bytes; first difference at line %d: got %r expected %r"
                               % (k, a, b, binding, kb, rc, len(got or ""), len(exp), j, gl[j] if j < len(gl) else None, exp_lines[j] if j < len(exp_lines) else None),
                               "failing_input": {"kind": k, "start": a, "stop": b, "binding": binding, "sieve_size": kb, "first_difference_line": j,
                                                 "got": gl[max(0, j - 1):j + 2], "expected": exp_lines[max(0, j - 1):j + 2]}})
        elif len(samples) < 6 and len(exp_lines) > 1 and why != "exhaustive small":
            samples.append({"kind": k, "start": a, "stop": b, "binding": binding, "first_lines": exp_lines[:3], "lines": len(exp_lines)})
    return {"evaluations": len(jobs), "distinct_nontrivial": len(sigs),
            "rule": "captured stdout of print_primes .. print_sextuplets (C++ and C) and of the CLI (--print=N; -q -pN -cN) for all 0 <= a <= b < 24, seam / byte-edge / p*q intervals, and one segment larger than the 64 KiB print batch; byte-exact against an independent rendering. distinct = distinct (binding, kind, reason, empty/one/many lines, small constellations involved)",
            "samples": samples, "mismatches": mismatches[:20], "distribution": dist, "variants": ["default"]}


def search(ctx, broken):
    sub = type(ctx)(ctx.pid, ctx.tier, ctx.seed + 122949829)
    res = correspond(sub, scale=3)
    return [m for m in res["mismatches"] if m.get("failing_input")]


def replay(ctx, obj):
    fi = obj.get("failing_input") or {}
    rc, o, e = ps.run([ps.build_probe("api_probe")], input="SS %d\nPRINT %s %d %d %d\n" % (fi.get("sieve_size", 16), "c" if fi.get("binding") == "c" else "cpp", fi["kind"], fi["start"], fi["stop"]), timeout=300)
    print(o[:2000])
    return 0

"""C07: nth_prime(n, start) returns exactly the documented prime or fails."""
import os
import ps, oracle, iterlib

LEVEL = "proof"
THEOREMS = ["C07_nth_prime_correct", "C07_nth_prime_large", "C07_nth_prime_model_kernel"]
ASSUMPTIONS = [
    "hypotheses of the theorem: countPrimes and the iterator walks meet their specifications (C04, C01, C02)",
    "primePiApprox / nthPrimeApprox are universally quantified (nthPrimeApprox <= 2^64-1); avgPrimeGap only sizes a stop_hint",
    "max_n = 425656284035217743 is the code's literal for pi(2^64) (literature value, not re-derived): for |n| above it the model, like the code, always throws",
    "results for huge n are not executed (years of sieving); covered by the theorem only",
]
EXPLANATION = "Coq theorem on the model of nthPrime/negativeNthPrime for all n, start and all approximation functions + correspondence of model, C++/C implementation and an independent oracle"
MAX64 = (1 << 64) - 1
INT64_MIN, INT64_MAX = -(1 << 63), (1 << 63) - 1
MAX_N = 425656284035217743


def spec_nth(n, start):
    """documented result or None (does not exist below 2^64); only for small |n|"""
    if n == 0:
        return oracle.next_prime_ge(start)
    if n > 0:
        p = start
        for _ in range(n):
            p = oracle.next_prime_ge(p + 1)
            if p is None:
                return None
        return p
    p = start
    for _ in range(-n):
        p = oracle.prev_prime_lt(p)
        if p is None:
            return None
    return p


def correspond(ctx, scale=1):
    rng = ctx.rng
    scale *= 5 if ctx.thorough else 1
    cases = []
    small_n = [0, 1, -1, 2, -2, 3, -3, 5, -7, 10, -10, 25, -25, 100, -100]
    starts = iterlib.interesting_starts(rng, 60 * scale, (60, 25, 12, 3))
    for s in starts:
        # prime starts and their neighbours matter (start itself is excluded for n != 0)
        p = oracle.next_prime_ge(s) or s
        for st in {s, p, max(0, p - 1), min(MAX64, p + 1)}:
            for n in (rng.choice(small_n), rng.choice(small_n[:7])):
                cases.append((n, st))
    for s in list(range(0, 40)) + [719, 720, 721, 727]:
        for n in (0, 1, -1, -2, 2, -3, -12, 12):
            cases.append((n, s))
    # existence boundary below: |n| = pi(start - 1) + {-1, 0, 1}
    for _ in range(25 * scale):
        s = rng.below(10 ** rng.between(1, 5))
        pi = len(oracle.primes_between(0, max(0, s - 1)))
        for d in (-1, 0, 1):
            if pi + d >= 1:
                cases.append((-(pi + d), s))
    # larger n: the bulk-count branch and both correction walks
    for _ in range(30 * scale):
        s = rng.below(10 ** rng.between(1, 11))
        n = rng.between(300, 6000) * rng.choice([1, -1])
        cases.append((n, s))
    # top of the range and extreme n
    for _ in range(6 * scale):
        s = MAX64 - rng.below(3000)
        cases.append((rng.choice([0, 1, 2, 3, 50]), s))
        cases.append((rng.choice([-1, -2, -20]), s))
    for n in (INT64_MIN, INT64_MIN + 1, INT64_MAX, MAX_N + 1, -(MAX_N + 1)):
        cases.append((n, rng.choice([0, 100, 1 << 63, MAX64])))
    cases.append((1, MAX64)); cases.append((0, MAX64)); cases.append((1, MAX64 - 58)); cases.append((0, MAX64 - 58)); cases.append((-1, 0)); cases.append((-1, 1)); cases.append((-1, 2)); cases.append((-1, 3))
    cases = list(dict.fromkeys(cases))
    probe = ps.build_probe("api_probe")
    model = ps.build_model()
    sh = ps.shard(cases)
    outs_i = ps.par_run(probe, ["\n".join("NTH %d %d %d" % (n, s, [1, 4, 16][(n + s) % 3]) for _, (n, s) in x) + "\n" for x in sh], timeout=900)
    outs_m = ps.par_run(model, ["\n".join("NTH %d %d %d" % (n, s, [-30, -5, 0, 5, 30][(n * 7 + s) % 5]) for _, (n, s) in x) + "\n" for x in sh], timeout=900)
    mismatches, samples, sigs = [], [], set()
    dist = {"n_sign": {"0": 0, "+": 0, "-": 0}, "errors": 0, "magnitude": {}, "bulk_count_cases": 0, "prime_start": 0}
    evaluations = 0
    for x, (rci, oi, ei), (rcm, om, em) in zip(sh, outs_i, outs_m):
        li, lm = oi.splitlines(), om.splitlines()
        if rci != 0 or len(li) != len(x):
            bad = x[min(len(li), len(x) - 1)][1]
            mismatches.append({"key": "crash", "what": "nth_prime(%d, %d) crashed / timed out (rc=%d)" % (bad[0], bad[1], rci), "failing_input": {"n": bad[0], "start": bad[1]}, "stderr": ei[-400:]})
            continue
        if rcm != 0 or len(lm) != len(x):
            raise ps.BuildError("model driver failed on NTH: " + em[-500:])
        for (idx, (n, s)), a, b in zip(x, li, lm):
            evaluations += 1
            t = a.split()
            cpp, c, en = t[1], t[3], t[4]
            mod = b.replace("ok ", "")
            dist["n_sign"]["0" if n == 0 else "+" if n > 0 else "-"] += 1
            if cpp == "err": dist["errors"] += 1
            if abs(n) >= 300: dist["bulk_count_cases"] += 1
            if oracle.is_prime(s): dist["prime_start"] += 1
            m_ = "1e%d" % iterlib.magnitude(s); dist["magnitude"][m_] = dist["magnitude"].get(m_, 0) + 1
            sigs.add((n == 0, n > 0, abs(n) >= 300, cpp == "err", oracle.is_prime(s), iterlib.magnitude(s) // 3))
            bad = None
            if cpp != c:
                bad = "C++ gives %s, C gives %s" % (cpp, c)
            elif (c == "err") != (en == "errno=EDOM"):
                bad = "C result %s with %s" % (c, en)
            elif cpp != mod:
                bad = "implementation %s, model %s" % (cpp, mod)
            if bad:
                exp = None
                if abs(n) <= 20000:
                    e = spec_nth(n, s); exp = "err" if e is None else str(e)
                elif abs(n) > MAX_N:
                    exp = "err"
                m = {"key": "nth", "n": n, "start": s, "impl": a, "model": b}
                if exp is not None and (cpp != exp or c != exp or (c == "err") != (en == "errno=EDOM")):
                    m["what"] = "nth_prime(%d, %d): %s; documented result %s" % (n, s, bad, exp)
                    m["failing_input"] = {"n": n, "start": s, "observed": a, "expected": exp}
                else:
                    m["what"] = "nth_prime(%d, %d): %s (model and implementation disagree, the implementation matches the oracle)" % (n, s, bad)
                    m["failing_input"] = None
                mismatches.append(m)
            elif len(samples) < 6 and abs(n) > 1:
                samples.append({"n": n, "start": s, "result": cpp})
    # a multi-segment walk into the top of the range (16 KiB segments): the count of primes above start comes from
    # Miller-Rabin; the last prime below 2^64 must be reached exactly, one more must fail
    s0 = MAX64 - 2 * 10 ** 6 - rng.below(10 ** 5)
    rc, o, e = ps.run([probe], input="MRCOUNT %d %d\n" % (s0 + 1, MAX64), timeout=300)
    if rc == 0 and o.strip():
        cnt = int(o.split()[0])
        rc, o, e = ps.run([probe], input="SS 16\nNTH %d %d 1\nNTH %d %d 1\nNTH %d %d 1\n" % (cnt, s0, cnt + 1, s0, cnt - 1, s0), timeout=600)
        li = [l for l in o.splitlines() if l.startswith("cpp")]
        p_last = 18446744073709551557
        want = [str(p_last), "err", str(oracle.prev_prime_lt(p_last))]
        for (n, exp), a in zip(((cnt, want[0]), (cnt + 1, want[1]), (cnt - 1, want[2])), li + ["cpp crash c crash errno=?"] * 3):
            evaluations += 1
            t = a.split()
            sigs.add(("top-walk", exp == "err"))
            if t[1] != exp or t[3] != exp:
                mismatches.append({"key": "nth-top", "n": n, "start": s0, "what": "nth_prime(%d, %d) with 16 KiB segments: %s; documented result %s" % (n, s0, a, exp),
                                   "failing_input": {"n": n, "start": s0, "sieve_size": 16, "observed": a, "expected": exp}})
    return {"evaluations": evaluations, "distinct_nontrivial": len(sigs),
            "rule": "(n, start): n in {0, +-1.. +-100} at structured starts (primes and their neighbours, 0..39, table edge, p^2, 2^32, top of range); |n| = pi(start-1)+{-1,0,1}; |n| in 300..6000 up to 1e11 (bulk-count branch, both correction walks; model run with estimates biased by -30..+30 percent); INT64_MIN/MAX, +-(max_n+1). C++ vs C (errno) vs model. distinct = distinct (sign/zero, size class of n, error?, prime start?, magnitude class)",
            "samples": samples, "mismatches": sorted(mismatches, key=lambda m: 0 if m.get("failing_input") else 1)[:20], "distribution": dist, "variants": ["default"]}


def search(ctx, broken):
    sub = type(ctx)(ctx.pid, ctx.tier, ctx.seed + 86028121)
    res = correspond(sub, scale=3)
    return [m for m in res["mismatches"] if m.get("failing_input")]


def replay(ctx, obj):
    fi = obj.get("failing_input") or obj
    rc, o, e = ps.run([ps.build_probe("api_probe")], input="NTH %d %d\n" % (fi["n"], fi["start"]), timeout=300)
    print(o.strip(), "| expected", fi.get("expected"))
    return 0

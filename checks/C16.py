"""C16: command line: same answers as the library; numeric arguments exact or rejected."""
import os, re
import ps, oracle

LEVEL = "proof"
THEOREMS = ["C16_checked_exact", "C16_parser_parametric", "C16_arith_in_range", "C16_rejects_2_64"]
ASSUMPTIONS = [
    "the theorem is about the model of calculator::ExpressionParser<T> (hand model, tied by correspondence on generated expressions for T = uint64_t, int, int64_t)",
    "operator precedence/associativity is part of the model (same table as the code) and is tied by correspondence against a reference precedence-climbing evaluator in the harness; it is not proved equivalent to a grammar",
    "option parsing, --dist, -n, -c/-p digits and main()'s exit status are compared with a reference written from doc/primesieve.txt (differential run of the real binary on tiny intervals); --stress-test, --test, --cpu-info and timing lines are excluded",
]
EXPLANATION = "Coq theorem (parametricity of the shift-reduce parser in the value algebra: accepted => exact) + correspondence model/real calculator + differential run of the primesieve binary"
MAX64 = (1 << 64) - 1
RANGES = {"big": (-(1 << 4000), 1 << 4000, 64, True), "u64": (0, MAX64, 64, False), "i64": (-(1 << 63), (1 << 63) - 1, 63, True), "int": (-(1 << 31), (1 << 31) - 1, 31, True)}


class Rej(Exception):
    pass


def ref_eval(expr, ty):
    """reference evaluator (precedence climbing, from the documented precedences): exact value, Rej if any
    intermediate result leaves the range of the type or the syntax is wrong"""
    lo, hi, digits, signed = RANGES[ty]
    pos = [0]
    s = expr

    def chk(v):
        if v < lo or v > hi:
            raise Rej()
        return v

    def peek():
        while pos[0] < len(s) and s[pos[0]] in " \t\n\r\v\f":
            pos[0] += 1
        return s[pos[0]] if pos[0] < len(s) else ""

    def value():
        c = peek()
        if c == "":
            raise Rej()
        if c.isdigit():
            if c == "0" and pos[0] + 2 < len(s) and s[pos[0] + 1] in "xX" and s[pos[0] + 2] in "0123456789abcdefABCDEF":
                pos[0] += 2
                v = 0
                while pos[0] < len(s) and s[pos[0]] in "0123456789abcdefABCDEF":
                    v = chk(chk(v * 16) + int(s[pos[0]], 16)); pos[0] += 1
                return v
            v = 0
            while pos[0] < len(s) and s[pos[0]].isdigit() and s[pos[0]] in "0123456789":
                v = chk(chk(v * 10) + int(s[pos[0]])); pos[0] += 1
            return v
        if c == "(":
            pos[0] += 1
            v = expression(0)
            if peek() != ")":
                raise Rej()
            pos[0] += 1
            return v
        if c == "~":
            pos[0] += 1
            v = value()
            return (-v - 1) if signed else (hi - v)
        if c == "+":
            pos[0] += 1
            return value()
        if c == "-":
            pos[0] += 1
            return chk(0 - value())
        raise Rej()

    OPS = [("**", 30, "R"), ("<<", 9, "L"), (">>", 9, "L"), ("|", 4, "L"), ("&", 6, "L"), ("+", 10, "L"), ("-", 10, "L"),
           ("*", 20, "L"), ("/", 20, "L"), ("%", 20, "L"), ("^", 30, "R"), ("e", 40, "R"), ("E", 40, "R")]

    def peek_op():
        c = peek()
        if c and c in "<>":
            if s[pos[0]:pos[0] + 2] not in ("<<", ">>"):
                raise Rej()
        for tok, prec, assoc in OPS:
            if s.startswith(tok, pos[0]):
                return tok, prec, assoc
        return None

    def tdiv(a, b):
        q = abs(a) // abs(b)
        return q if (a >= 0) == (b >= 0) else -q

    def apply(tok, a, b):
        if tok in ("**", "^"):
            if b <= 0:
                return 1
            r = 1
            # intermediate results of pow by squaring never exceed the result in magnitude
            return chk(a ** b) if abs(a) <= 1 or b < 200 else (_ for _ in ()).throw(Rej())
        if tok in ("e", "E"):
            p = 1 if b <= 0 else (chk(10 ** b) if b < 200 else (_ for _ in ()).throw(Rej()))
            return chk(a * p)
        if tok == "+": return chk(a + b)
        if tok == "-": return chk(a - b)
        if tok == "*": return chk(a * b)
        if tok == "/":
            if b == 0: raise Rej()
            return chk(tdiv(a, b))
        if tok == "%":
            if b == 0: raise Rej()
            return a - b * tdiv(a, b)
        if tok == "<<":
            if b < 0 or b >= digits: raise Rej()
            return chk(a * (1 << b))
        if tok == ">>":
            if b < 0 or b >= digits: raise Rej()
            return a >> b
        if tok == "|": return a | b
        if tok == "&": return a & b
        raise Rej()

    def expression(minprec):
        lhs = value()
        while True:
            op = peek_op()
            if op is None or op[1] < minprec:
                return lhs
            tok, prec, assoc = op
            pos[0] += len(tok)
            rhs = expression(prec + 1 if assoc == "L" else prec)
            lhs = apply(tok, lhs, rhs)

    v = expression(0)
    if peek() != "":
        raise Rej()
    return v


def gen_expr(rng, ty, depth=0):
    lo, hi, digits, signed = RANGES[ty]
    r = rng.below(100)
    if depth > 4 or r < 35:
        k = rng.below(12)
        if k == 0: v = hi - rng.below(3)
        elif k == 1: v = hi + 1 + rng.below(3)
        elif k == 2: v = 1 << rng.between(0, digits + 1)
        elif k == 3: v = (1 << rng.between(1, digits)) - 1
        elif k == 4: v = 10 ** rng.between(0, 20)
        elif k == 5: v = rng.below(1 << rng.between(1, 64))
        elif k == 6: v = (1 << (digits // 2)) + rng.between(-2, 2)
        else: v = rng.below(40)
        if rng.chance(1, 6):
            return ("0x%x" if rng.chance(1, 2) else "0X%X") % v
        return str(v)
    sp = lambda: " " * rng.below(2)
    if r < 45:
        return "(" + sp() + gen_expr(rng, ty, depth + 1) + sp() + ")"
    if r < 55:
        return rng.choice(["-", "+", "~", "-", "- ", "~~"]) + gen_expr(rng, ty, depth + 2)
    if r < 63:
        return gen_expr(rng, ty, depth + 2) + rng.choice(["e", "E"]) + str(rng.below(22))
    if r < 73:
        return gen_expr(rng, ty, depth + 2) + rng.choice(["^", "**"]) + rng.choice([str(rng.below(70)), gen_expr(rng, ty, depth + 3)])
    op = rng.choice(["+", "-", "*", "/", "%", "<<", ">>", "|", "&", "+", "-", "*"])
    return gen_expr(rng, ty, depth + 1) + sp() + op + sp() + gen_expr(rng, ty, depth + 1)


def gen_malformed(rng):
    base = gen_expr(rng, "u64", 2)
    k = rng.below(8)
    if k == 0: return base + rng.choice([")", "(", "x", "<", ">", "e", "**", ",", "."])
    if k == 1: return rng.choice([")", "*", "/", "e5", "x1", "0x", ""]) + base
    if k == 2: return base.replace("(", "", 1)
    if k == 3: return base + " " + base
    if k == 4: return "".join(rng.choice("0123456789+-*/%^()e x<>|&~") for _ in range(rng.between(1, 12)))
    if k == 5: return base + "/0"
    if k == 6: return base + "%(1-1)"
    return base[: max(1, len(base) // 2)]


def correspond(ctx, n=None):
    rng = ctx.rng
    n = n or (12000 if ctx.thorough else 2500)
    probe = ps.build_probe("calc_probe")
    model = ps.build_model()
    cases = []
    for k in range(n):
        ty = ["u64", "u64", "int", "i64"][k % 4]
        e = gen_malformed(rng) if k % 6 == 5 else gen_expr(rng, ty)
        if "\n" in e:
            continue
        cases.append((ty, e))
    # fixed corpus: the inputs of the repaired findings and documented examples
    for e in ["2^64", "2^64-1", "2^63*2", "1-2", "18446744073709551615", "18446744073709551616", "1e10", "2^32", "1e10+2^32", "0x10",
              "1<<64", "1<<63", "(2^32-1)*(2^32+1)", "-0", "-1", "1e19", "1e20", "2^3^2", "2**3^2", "2^3**2", "2+3*4", "(2+3)*4", "100/7%3", "7-2-1", "2^2^2^2"]:
        cases.append(("u64", e))
    for e in ["2^31", "2^32+1", "99999999999", "-2147483648", "-2147483647-1", "(-2147483647-1)/-1", "(-2147483647-1)%-1", "1<<31", "1<<30", "-8>>1"]:
        cases.append(("int", e))
    sh = ps.shard(cases)
    outs_i = ps.par_run(probe, ["\n".join("%s %s" % c for _, c in s) + "\n" for s in sh], timeout=300)
    outs_m = ps.par_run(model, ["\n".join("CALC %s %s" % c for _, c in s) + "\n" for s in sh], timeout=600)
    mismatches, samples, sigs = [], [], set()
    dist = {"accepted": 0, "rejected": 0, "exact_outside_range": 0, "malformed": 0, "by_type": {}, "max_len": 0}
    evaluations = 0
    for s, (rci, oi, ei), (rcm, om, em) in zip(sh, outs_i, outs_m):
        li, lm = oi.splitlines(), om.splitlines()
        if rci != 0 or len(li) != len(s):
            bad = s[min(len(li), len(s) - 1)][1]
            mismatches.append({"key": "calc-crash", "what": "calculator crashed (rc=%d) on %r" % (rci, bad), "failing_input": {"type": bad[0], "expression": bad[1]}, "stderr": ei[-500:]})
            continue
        for (idx, (ty, e)), a, b in zip(s, li, lm):
            evaluations += 1
            dist["by_type"][ty] = dist["by_type"].get(ty, 0) + 1
            dist["max_len"] = max(dist["max_len"], len(e))
            bm, bx = [x.strip() for x in b.split("| exact")]
            try:
                rv = "ok %d" % ref_eval(e, ty)
            except Rej:
                rv = "rej"
            except RecursionError:
                rv = None
            if a.startswith("ok"): dist["accepted"] += 1
            else: dist["rejected"] += 1
            if a == "rej" and rv == "rej":
                try:
                    ref_eval(e, "big"); dist["exact_outside_range"] += 1
                except Exception:
                    pass
            sigs.add((ty, a.startswith("ok"), bx.startswith("ok"), tuple(sorted(set(re.findall(r"\*\*|<<|>>|[-+*/%^|&~()eEx]", e))))))
            if a != bm:
                m = {"key": "calc", "type": ty, "expression": e, "impl": a, "model": bm, "exact": bx, "reference": rv}
                if rv is not None and a != rv:
                    m["what"] = "calculator::eval<%s>(%r) gives %s; exact-or-rejected semantics requires %s" % (ty, e, a, rv)
                    m["failing_input"] = {"type": ty, "expression": e, "observed": a, "expected": rv}
                else:
                    m["what"] = "calculator model and implementation disagree on %r (%s vs %s)" % (e, bm, a)
                    m["failing_input"] = None
                mismatches.append(m)
            elif rv is not None and rv != a:
                mismatches.append({"key": "calc-ref", "type": ty, "expression": e, "impl": a, "model": bm, "reference": rv,
                                   "what": "calculator::eval<%s>(%r) = %s (model agrees) but the reference evaluator (documented precedence) gives %s" % (ty, e, a, rv),
                                   "failing_input": {"type": ty, "expression": e, "observed": a, "expected": rv}})
            elif len(samples) < 4 and len(e) > 8:
                samples.append({"type": ty, "expression": e, "result": a, "exact": bx})
    cli = cli_runs(ctx, rng, mismatches, sigs, samples)
    dist["cli"] = cli
    evaluations += cli["runs"]
    return {"evaluations": evaluations, "distinct_nontrivial": len(sigs),
            "rule": "grammar-based expressions (depth <= 5, operands at 2^31/2^32/2^63/2^64 +-, hex, e-notation, spaces, unary chains, right-assoc power chains) for T = uint64_t/int/int64_t plus a malformed stream: real calculator vs extracted model vs reference evaluator; argument vectors for the primesieve binary on tiny intervals vs reference from the documentation. distinct = distinct (type, accepted?, exact in range?, operator set) resp. distinct option sets",
            "samples": samples, "mismatches": sorted(mismatches, key=lambda m: 0 if m.get("failing_input") else 1)[:20], "distribution": dist, "variants": ["default"]}


LABELS = ["Primes: ", "Twin primes: ", "Prime triplets: ", "Prime quadruplets: ", "Prime quintuplets: ", "Prime sextuplets: "]


def render_tuplets(k, a, b):
    if k == 1:
        return [str(p) for p in oracle.primes_between(a, b)]
    return ["(" + ", ".join(map(str, t)) + ")" for t in oracle.ktuplets_between(k, a, b)]


def expected_cli(args_spec):
    """reference behaviour written from doc/primesieve.txt. returns ('ok', [lines]) or ('fail', None)"""
    nums = args_spec["numbers"]          # list of (expr, value or None)
    if any(v is None for _, v in nums):
        return "fail", None
    vals = [v for _, v in nums]
    if args_spec.get("dist") is not None:
        d = args_spec["dist"][1]
        if d is None:
            return "fail", None
        start = vals[0] if vals else 0
        if start + d > MAX64:
            return "fail", None
        vals = vals + [start + d]
    for key in ("threads", "size"):
        if args_spec.get(key) is not None and args_spec[key][1] is None:
            return "fail", None
    if args_spec.get("nth"):
        if not vals:
            return "fail", None
        n = vals[0]; start = vals[1] if len(vals) > 1 else 0
        if n > (1 << 63) - 1:
            return "fail", None
        if n == 0:
            return "skip", None      # nth_prime(0, ...) is C07's business
        p = start
        for _ in range(n):
            p = oracle.next_prime_ge(p + 1)
            if p is None:
                return "fail", None
        return "ok", ["Nth prime: %d" % p if not args_spec["quiet"] else str(p)]
    if not vals:
        return "fail", None
    a, b = (0, vals[0]) if len(vals) < 2 else (vals[0], vals[1])
    lines = []
    pk = args_spec.get("print")
    quiet = args_spec["quiet"] or pk is not None
    counts = args_spec.get("count") or []
    if pk is not None:
        lines += render_tuplets(pk, a, b) if a <= b else []
    kinds = counts if counts else ([] if pk is not None else [1])
    cnts = oracle.counts_between(a, b) if a <= b else [0] * 6
    for k in sorted(set(kinds)):
        if quiet and len(set(kinds)) == 1:
            lines.append(str(cnts[k - 1]))
        else:
            lines.append(LABELS[k - 1] + str(cnts[k - 1]))
    return "ok", lines


def small_number(rng):
    k = rng.below(10)
    if k < 5:
        v = rng.below(3000); return rng.choice([str(v), "0x%x" % v, "%d+0" % v, "(%d)" % v]), v
    if k == 5:
        v = 10 ** rng.between(0, 3); return "1e%d" % (len(str(v)) - 1), v
    if k == 6:
        e = rng.between(1, 11); return "2^%d" % e, 2 ** e
    if k == 7:
        return rng.choice(["2^64", "1-2", "2^63*2", "1e20", "18446744073709551616", "abc", "1+", "(5", "0-1", "5/0"]), None
    v = rng.below(100); w = rng.below(100); return "%d*%d+%d" % (v, w, v), v * w + v


def cli_runs(ctx, rng, mismatches, sigs, samples):
    exe = ps.cli_path("default")
    nruns = 900 if ctx.thorough else 260
    specs = []
    for _ in range(nruns):
        spec = {"numbers": [], "quiet": False, "argv": []}
        argv = []
        nn = rng.choice([1, 1, 2, 2, 2, 0])
        nums = [small_number(rng) for _ in range(nn)]
        if nn == 2 and nums[0][1] is not None and nums[1][1] is not None and rng.chance(3, 4):
            nums.sort(key=lambda t: t[1])
        spec["numbers"] = nums
        argv += [e for e, _ in nums]
        if rng.chance(1, 5):
            spec["nth"] = True; argv.append(rng.choice(["-n", "--nth-prime", "--nthprime"]))
            spec["numbers"] = [(e, (v % 400 if v is not None else None)) for e, v in nums[:1]] + nums[1:]
            argv = [str(spec["numbers"][0][1]) if spec["numbers"] and spec["numbers"][0][1] is not None else (nums[0][0] if nums else "")] + [e for e, _ in nums[1:]] + argv[len(nums):]
            argv = [a for a in argv if a != ""]
        else:
            if rng.chance(1, 3):
                ds = rng.choice("123456") if rng.chance(2, 3) else "".join(rng.choice("123456") for _ in range(rng.between(2, 4)))
                form = rng.choice(["-c%s", "--count=%s", "-c %s", "--count %s"])
                argv += (form % ds).split(" ")
                spec["count"] = [int(c) for c in ds]
            elif rng.chance(1, 8):
                argv.append(rng.choice(["-c", "--count"])); spec["count"] = [1]
            if rng.chance(1, 4):
                k = rng.between(1, 6); form = rng.choice(["-p%d", "--print=%d", "-p %d"])
                argv += (form % k).split(" "); spec["print"] = k
            elif rng.chance(1, 12):
                argv.append("-p"); spec["print"] = 1
            if rng.chance(1, 6) and len(nums) <= 1:
                d = small_number(rng); form = rng.choice(["-d %s", "--dist=%s", "--dist %s", "-d%s"])
                if form == "-d%s" and not d[0][0].isdigit():
                    form = "-d %s"
                argv += (form % d[0]).split(" "); spec["dist"] = d
        if rng.chance(1, 2):
            argv.append(rng.choice(["-q", "--quiet"])); spec["quiet"] = True
        if rng.chance(1, 4):
            t = rng.choice([("1", 1), ("2", 2), ("16", 16), ("2^2", 4), ("2^32+1", None), ("99999999999", None), ("0", 0), ("100", 100)])
            argv += rng.choice([["-t", t[0]], ["--threads=" + t[0]], ["-t" + t[0]] if t[0][0].isdigit() else ["-t", t[0]]]); spec["threads"] = t
        if rng.chance(1, 4):
            t = rng.choice([("16", 16), ("17", 17), ("256", 256), ("8192", 8192), ("2^32+64", None), ("1", 1), ("99999", 99999)])
            argv += rng.choice([["-s", t[0]], ["--size=" + t[0]]]); spec["size"] = t
        if rng.chance(1, 6):
            argv.append("--no-status")
        if rng.chance(1, 10):
            argv.append(rng.choice(["--bogus", "-z", "--count=7", "-p0", "-c0", "--threads", "--dist"])); spec["bad"] = True
        # shuffle the options (numbers keep their relative order)
        opts = argv[len([a for a in argv[:len(nums)]]):]
        spec["argv"] = argv
        specs.append(spec)
    # -n with N beyond int64 must be rejected (never wrapped into a negative n), with and without a start
    for N in [(1 << 63), (1 << 63) + 5, (1 << 64) - 1, (1 << 64) - 16]:
        for S in [None, 1000, 10 ** 6]:
            for form in (str(N), "2^64-%d" % ((1 << 64) - N)):
                nums = [(form, N)] + ([(str(S), S)] if S is not None else [])
                argv = [e for e, _ in nums] + [rng.choice(["-n", "--nth-prime"])] + (["-q"] if rng.chance(1, 2) else [])
                specs.append({"numbers": nums, "quiet": "-q" in argv, "argv": argv, "nth": True})
    import concurrent.futures
    def run1(spec):
        rc, out, err = ps.run([exe] + spec["argv"], timeout=20)
        return rc, out, err
    with concurrent.futures.ThreadPoolExecutor(ps.NPROC) as ex:
        results = list(ex.map(run1, specs))
    st = {"runs": 0, "expected_ok": 0, "expected_fail": 0, "skipped": 0}
    for spec, (rc, out, err) in zip(specs, results):
        if spec.get("bad"):
            kind, lines = "fail", None
        else:
            try:
                kind, lines = expected_cli(spec)
            except Exception:
                kind, lines = "skip", None
        # option forms whose meaning depends on adjacency (optional parameters) are only checked for agreement of status
        if kind == "skip" or ("-c" in spec["argv"] and spec.get("count") == [1] and spec["argv"].index("-c") + 1 < len(spec["argv"]) and not spec["argv"][spec["argv"].index("-c") + 1].startswith("-")):
            st["skipped"] += 1; continue
        if any(a in ("-p", "--count", "-c", "--print") and i + 1 < len(spec["argv"]) and not spec["argv"][i + 1].startswith("-") for i, a in enumerate(spec["argv"])) and not any(" " in f for f in []):
            # "-c 12" style: the following word is the parameter; covered by construction above
            pass
        st["runs"] += 1
        sigs.add(("cli", kind, tuple(sorted(a.split("=")[0].rstrip("0123456789") for a in spec["argv"] if a.startswith("-")))))
        got = [l for l in out.replace("\r", "\n").split("\n") if l.strip() and not re.match(r"^(Sieve size =|Threads =|Seconds:|\d+%$)", l.strip())]
        if rc == 124:
            mismatches.append({"key": "cli-timeout", "what": "primesieve %s did not finish in 20 s" % " ".join(spec["argv"]), "failing_input": {"argv": spec["argv"]}})
        elif kind == "fail":
            st["expected_fail"] += 1
            if rc == 0:
                mismatches.append({"key": "cli-accepts", "what": "primesieve %s exits 0 (output %r) but the arguments are malformed / out of range" % (" ".join(spec["argv"]), got[:3]),
                                   "failing_input": {"argv": spec["argv"], "stdout": got[:5], "expected": "message and non-zero exit status"}})
        else:
            st["expected_ok"] += 1
            if rc != 0 or got != lines:
                mismatches.append({"key": "cli-output", "what": "primesieve %s: exit %d, output %r; expected exit 0 and %r" % (" ".join(spec["argv"]), rc, got[:6], lines[:6]),
                                   "failing_input": {"argv": spec["argv"], "exit": rc, "stdout": got[:20], "stderr": err[:200], "expected": lines[:20]}})
            elif len(samples) < 7:
                samples.append({"argv": spec["argv"], "stdout": got[:4]})
    # -t / -s only affect speed: on intervals long enough to be split among threads (>= 2e7) the output, including the
    # order of printed k-tuplets, must be the one of the single-threaded run
    def filt(out):
        return [l for l in out.replace("\r", "\n").split("\n") if l.strip() and not re.match(r"^(Sieve size =|Threads =|Seconds:|\d+%$)", l.strip())]
    base_sets = [["6e7", "-p4"], ["1e9", "1e9+5e7", "-p5", "-c3"], ["45000000", "-c123456"], ["3e7", "-p6", "--no-status"]]
    if ctx.thorough:
        base_sets += [["2e8", "-p4"], ["1e12", "-d", "6e7", "-p3", "-c2"]]
    for base in base_sets:
        rc0, o0, e0 = ps.run([exe] + base + ["-t1"], timeout=300)
        ref = filt(o0)
        for extra in (["-t2"], ["-t4"], ["--threads=16", "-s16"], ["-t3", "-s", "1024"]):
            st["runs"] += 1
            rc1, o1, e1 = ps.run([exe] + base + extra, timeout=300)
            got = filt(o1)
            sigs.add(("cli-threads", tuple(base[-1:]), tuple(extra)))
            if rc0 != 0 or rc1 != rc0 or got != ref:
                j = next((i for i in range(min(len(got), len(ref))) if got[i] != ref[i]), min(len(got), len(ref)))
                mismatches.append({"key": "cli-threads", "what": "primesieve %s prints something else than with -t1 (first difference at line %d: %r vs %r; %d vs %d lines)" %
                                   (" ".join(base + extra), j, got[j:j + 1], ref[j:j + 1], len(got), len(ref)),
                                   "failing_input": {"argv": base + extra, "reference_argv": base + ["-t1"], "first_difference_line": j, "observed": got[j:j + 2], "expected": ref[j:j + 2]}})
    return st


def search(ctx, broken):
    sub = type(ctx)(ctx.pid, ctx.tier, ctx.seed + 32452843)
    res = correspond(sub, n=8000)
    return [m for m in res["mismatches"] if m.get("failing_input")]


def replay(ctx, obj):
    fi = obj.get("failing_input") or {}
    if "argv" in fi:
        rc, out, err = ps.run([ps.cli_path("default")] + fi["argv"], timeout=30)
        print("exit", rc); print(out[:1000]); print(err[:300])
    else:
        rc, out, err = ps.run([ps.build_probe("calc_probe")], input="%s %s\n" % (fi.get("type", "u64"), fi.get("expression", "")))
        print(out)
    return 0

"""C13: a failed allocation is reported, never turned into a crash or a wrong answer."""
import concurrent.futures
import ps, oracle

LEVEL = "proof"
THEOREMS = ["C13_alloc_fault_safe", "C13_values_unaffected", "C13_c_error_state_nomem"]
ASSUMPTIONS = [
    "the theorem covers the iterator (C++ rollback, C error state): a fault is modelled as 'this refill throws', which is what every allocation point inside generate_next/prev_primes amounts to after the fix commits; counting, generate_*, nth_prime and the worker threads are covered by fault enumeration only",
    "allocations inside libstdc++ (std::async, std::string, iostream) are failure points of the enumeration but not of the model",
    "fault-free reference values come from the same binary with k = 0 and from the independent oracle",
]
EXPLANATION = "Coq theorem over all histories and fault patterns of the iterator model + exhaustive enumeration of the k-th allocation failure (operator new/delete replaced, malloc/realloc wrapped) for 12 workloads through the C++ and C API, with leak and crash detection"
WRAP = ("-Wl,--wrap=malloc", "-Wl,--wrap=realloc", "-Wl,--wrap=free")


def workloads(rng, thorough):
    w = [["iter_fwd", 1000000, 40], ["iter_bwd", 1000000, 40], ["iter_mixed", 5000, 60], ["iter_fwd", 10 ** 13, 6], ["iter_bwd", 10 ** 10, 5],
         ["c_iter_fwd", 1000000, 30], ["c_iter_bwd", 1000000, 30], ["c_skipto_fwd", 1000000, 30], ["c_skipto_bwd", 1000000, 30],
         ["count", 1000000, 3000000, 1], ["count", 10 ** 14, 10 ** 14 + 3000000, 1], ["count", 0, 30000000, 4], ["c_count", 100, 2000000, 1],
         ["nth", 20000, 100, 1], ["nth", 2000000, 0, 4], ["gen", 100, 30000], ["gen_n", 3000, 10 ** 9], ["c_gen", 5, 40000]]
    if thorough:
        w += [["iter_fwd", rng.below(10 ** 12), 30], ["iter_bwd", rng.below(10 ** 11), 30], ["count", 0, 10 ** 8, 16], ["nth", 5000000, 10 ** 10, 8]]
    return w


def parse(o):
    d = {}
    for part in o.strip().split(" "):
        pass
    import re
    m = re.match(r"allocs=(\d+) outcome=(\S+) values=(.*) live_after=(-?\d+) peak=(-?\d+)", o.strip())
    if not m:
        return None
    return {"allocs": int(m.group(1)), "outcome": m.group(2), "values": m.group(3).split(), "live": int(m.group(4)), "peak": int(m.group(5))}


def correspond(ctx):
    rng = ctx.rng
    exe = ps.build_probe("fault_probe", "default", extra_flags=WRAP)
    wl = workloads(rng, ctx.thorough) + [["iter_fwd", 1000000, 2200], ["iter_bwd", 1000000, 2200]]
    def run(args):
        rc, o, e = ps.run([exe] + [str(a) for a in args], timeout=300)
        return rc, o, e
    with concurrent.futures.ThreadPoolExecutor(ps.NPROC) as ex:
        base = list(ex.map(lambda w: run([w[0], 0] + w[1:]), wl))
    jobs = []
    refs = []
    for w, (rc, o, e) in zip(wl, base):
        r = parse(o)
        refs.append(r)
        if rc != 0 or r is None:
            continue
        n = r["allocs"]
        ks = list(range(1, n + 1))
        if n > 60 and not ctx.thorough:
            ks = list(range(1, 31)) + sorted(set(rng.between(31, n) for _ in range(30)))
        for k in ks:
            jobs.append((w, k, r))
        # pairs of failures on one object (the second one hits a later refill / the recovery path)
        if w[0] in ("iter_fwd", "iter_bwd", "iter_mixed", "c_iter_fwd") and n <= 25:
            pairs = [(k1, k2) for k1 in range(1, n + 1) for k2 in range(k1 + 1, n + 8)]
            if not ctx.thorough and len(pairs) > 90:
                pairs = [pairs[rng.below(len(pairs))] for _ in range(90)]
            for k1, k2 in pairs:
                jobs.append((w, "%d,%d" % (k1, k2), r))
    with concurrent.futures.ThreadPoolExecutor(ps.NPROC) as ex:
        results = list(ex.map(lambda j: run([j[0][0], j[1]] + j[0][1:]), jobs))
    mismatches, samples, sigs = [], [], set()
    dist = {"workloads": len(wl), "fault_points": len(jobs), "outcomes": {}, "allocs_per_workload": {" ".join(map(str, w)): (r["allocs"] if r else None) for w, r in zip(wl, refs)}}
    ev = len(base)
    for w, (rc, o, e), r in zip(wl, base, refs):
        if rc != 0 or r is None or r["live"] != 0 or r["outcome"] != "ok":
            mismatches.append({"key": "fault-free", "what": "fault-free run of %s: rc=%d %s" % (w, rc, o.strip()[:200]), "failing_input": {"workload": w, "k": 0}})
    for (w, k, ref), (rc, o, e) in zip(jobs, results):
        ev += 1
        name = " ".join(map(str, w))
        if rc != 0:
            mismatches.append({"key": "fault-crash", "what": "%s with allocation %s failing: process died (rc=%d) %s" % (name, k, rc, e.strip()[-200:]),
                               "failing_input": {"workload": w, "k": k, "rc": rc}})
            continue
        r = parse(o)
        if r is None:
            mismatches.append({"key": "fault-output", "what": "%s k=%s: unparsable output %r" % (name, k, o[:200]), "failing_input": {"workload": w, "k": k}}); continue
        dist["outcomes"][r["outcome"]] = dist["outcomes"].get(r["outcome"], 0) + 1
        sigs.add((w[0], r["outcome"], "X" in "".join(r["values"]), "E" in r["values"]))
        bad = None
        vals = r["values"]
        refv = ref["values"]
        if r["live"] != 0:
            bad = "%d bytes still allocated after the objects were destroyed (leak)" % r["live"]
        elif r["outcome"] in ("X:other_exception", "X:unknown", "cerr-no-errno", "cerr-bad-contract"):
            bad = "failure reported as %s" % r["outcome"]
        elif w[0].startswith("iter_"):
            # replay against the cursor specification: a call that reported an error leaves the cursor where it was
            if any(v in ("X:other_exception", "X:unknown") for v in vals):
                bad = "iterator threw something other than bad_alloc / primesieve_error"
            else:
                lo, hi1 = w[1], w[1] + 1
                idx = 0
                for v in vals:
                    if v == "J":
                        lo, hi1 = w[1], w[1] + 1; idx = 10 ** 9; continue
                    if idx >= 10 ** 9:
                        fwd = (idx == 10 ** 9)        # after the jump: one next, one prev
                    else:
                        fwd = w[0] == "iter_fwd" or (w[0] == "iter_mixed" and (idx // 7) % 2 == 0)
                    idx += 1
                    if v.startswith("X:"):
                        continue
                    if fwd:
                        p = oracle.next_prime_ge(lo)
                    else:
                        p = oracle.prev_prime_lt(hi1) or 0
                    if p is None or int(v) != p:
                        bad = "call %d returned %s where the cursor specification (faulted calls skipped) requires %s" % (idx, v, p); break
                    lo, hi1 = (p + 1, p) if p else (1, 0)
        elif w[0].startswith(("c_iter_", "c_skipto_")):
            got = [v for v in vals if v != "skipto-err"]      # primesieve_skipto itself failed: error state, errno = EDOM
            if "E?" in got or "notE" in got or "skipto-err?" in got:
                bad = "C iterator error contract violated (%s)" % got[-8:]
            else:
                j = got.index("E") if "E" in got else len(got)
                if got[:j] != refv[:j]:
                    bad = "values before the error differ from the fault-free run"
                elif "E" in got and got[-2:] != ["J", str(oracle.next_prime_ge(w[1]))] and not ("," in str(k) and got[-2:] == ["J", str((1 << 64) - 1)]):
                    bad = "after jump_to the iterator does not restart correctly: %s" % got[-4:]
        else:
            if r["outcome"] == "ok" and vals != refv:
                bad = "result %s differs from the fault-free result %s" % (vals[:6], refv[:6])
            elif r["outcome"] != "ok" and w[0] in ("gen", "gen_n") and vals != refv[:len(vals)]:
                bad = "vector after the exception is not an exact prefix"
        if bad:
            mismatches.append({"key": "fault", "what": "%s with allocation %s of %d failing: %s" % (name, k, ref["allocs"], bad),
                               "failing_input": {"workload": w, "k": k, "observed": o.strip()[:400]}})
        elif len(samples) < 6 and r["outcome"] != "ok" or (len(samples) < 6 and any(v.startswith("X:") for v in vals)):
            samples.append({"workload": name, "k": k, "outcome": r["outcome"], "values": vals[:6]})
    return {"evaluations": ev, "distinct_nontrivial": len(sigs),
            "rule": "for each of %d workloads (C++/C iterator forward, backward, mixed; count with 1/4 threads incl. EratBig magnitudes; nth_prime; generate_primes / generate_n_primes; C entry points) the k-th allocation fails for every k up to the fault-free allocation count (sampled above 60 in the quick tier); outcome class, continued-use values, reset, leak and crash are checked. distinct = distinct (workload kind, outcome class, error inside an iterator history)" % len(wl),
            "samples": samples, "mismatches": mismatches[:20], "distribution": dist, "variants": ["default"], "exhaustive": ctx.thorough}


def search(ctx, broken):
    res = correspond(ctx)
    return [m for m in res["mismatches"] if m.get("failing_input")]


def replay(ctx, obj):
    fi = obj.get("failing_input") or {}
    exe = ps.build_probe("fault_probe", "default", extra_flags=WRAP)
    w = fi.get("workload")
    rc, o, e = ps.run([exe, w[0], str(fi.get("k", 0))] + [str(a) for a in w[1:]], timeout=300)
    print("rc", rc, o[:600], e[-300:])
    return 0

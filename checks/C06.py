"""C06: generate_primes / generate_n_primes store exactly the requested primes."""
import ps, oracle

LEVEL = "proof"
THEOREMS = ["C06_store_primes_spec", "C06_store_primes_no_truncation", "C06_store_n_primes_spec", "C06_store_primes_model_kernel", "C06_store_primes_final"]
ASSUMPTIONS = [
    "blocks_of: the iterator delivers non-empty blocks whose concatenation is the ascending list of primes >= start below 2^64 (C01)",
    "largest_prime_hyp: 18446744073709551557 is the largest prime below 2^64 (the code's literal; literature fact, not re-derived in Coq)",
    "rejection rule of store_primes as implemented: stop > max(V) (recorded modelling decision, DESIGN C06)",
    "vector growth / reserve and the double arithmetic of the size estimates are not modelled (they do not affect contents)",
]
EXPLANATION = "Coq theorems on the model of store_primes / store_n_primes for every element-type maximum, start, stop, n and initial vector + correspondence with the 8 C++ instantiations and the 14 C type codes"
MAX64 = (1 << 64) - 1
MAXPRIME = 18446744073709551557
TYPES = {"i8": 127, "u8": 255, "i16": 32767, "u16": 65535, "i32": (1 << 31) - 1, "u32": (1 << 32) - 1, "i64": (1 << 63) - 1, "u64": MAX64}
CODES = {0: ("i16", "SHORT"), 1: ("u16", "USHORT"), 2: ("i32", "INT"), 3: ("u32", "UINT"), 4: ("i64", "LONG"), 5: ("u64", "ULONG"), 6: ("i64", "LONGLONG"),
         7: ("u64", "ULONGLONG"), 8: ("i16", "INT16"), 9: ("u16", "UINT16"), 10: ("i32", "INT32"), 11: ("u32", "UINT32"), 12: ("i64", "INT64"), 13: ("u64", "UINT64")}


def nth_from(start, n):
    out, p = [], start
    while len(out) < n:
        p = oracle.next_prime_ge(p)
        if p is None:
            break
        out.append(p); p += 1
    return out


def gen(rng, scale):
    cases = []
    for ty, mv in TYPES.items():
        for d in (-2, -1, 0, 1, 2, 60):
            stop = mv + d
            if 0 <= stop <= MAX64:
                start = max(0, stop - rng.between(0, 600))
                cases.append(("GP", ty, start, stop, rng.below(4)))
        cases.append(("GP", ty, rng.below(100), rng.below(100), rng.below(3)))
        cases.append(("GP", ty, 50, 10, 2))
        # n-th prime = largest prime <= max(V) and one more
        if mv < 10 ** 7:
            allp = oracle.primes_between(0, mv)
            for n in (len(allp) - 1, len(allp), len(allp) + 1):
                cases.append(("GN", ty, n, 0, rng.below(3)))
            k = rng.between(1, min(50, len(allp)))
            cases.append(("GN", ty, k, allp[-k] , 1)); cases.append(("GN", ty, k + 1, allp[-k], 1))
        else:
            p = oracle.prev_prime_lt(mv + 1)
            s0 = mv - 2000
            inside = [q for q in oracle.primes_between(s0, mv)] if mv < (1 << 40) else nth_from(s0, 500)
            inside = [q for q in inside if q <= mv]
            for n in (len(inside) - 1, len(inside), len(inside) + 1):
                cases.append(("GN", ty, n, s0, rng.below(3)))
        cases.append(("GN", ty, 0, rng.below(1000), 2))
    for _ in range(40 * scale):
        ty = rng.choice(list(TYPES))
        mv = TYPES[ty]
        start = rng.below(min(mv, 10 ** rng.between(1, 12)) + 1)
        cases.append(("GP", ty, start, min(mv, start + rng.below(30000)), rng.below(3)))
        n = rng.choice([1, 2, 63, 64, 65, 127, 128, 129, 959, 960, 961, 1023, 1024, 1025, 1919, 1920, 1921, 2048, rng.between(1, 3000)])
        cases.append(("GN", rng.choice(["u64", "i64", "u32"]), n, rng.below(10 ** rng.between(1, 11)), rng.below(3)))
    # top of the range
    for s in (MAXPRIME - 200, MAXPRIME - 1, MAXPRIME, MAXPRIME + 1, MAX64 - 1, MAX64):
        cases.append(("GP", "u64", s, MAX64, 1)); cases.append(("GP", "u64", min(s, MAXPRIME - 300), s, 0))
    for n in (1, 2, 3, 4, 10):
        cases.append(("GN", "u64", n, MAXPRIME - 100, 1))
    # C API: every type code at its own limit, plus invalid codes
    for code, (ty, name) in CODES.items():
        mv = TYPES[ty]
        cases.append(("CGP", code, max(0, mv - 1500), mv)); cases.append(("CGP", code, 0, 100)); cases.append(("CGP", code, 100, 10))
        if mv < MAX64:
            cases.append(("CGP", code, max(0, mv - 1500), mv + 1))
        cases.append(("CGN", code, 5, max(0, mv - 3000))); cases.append(("CGN", code, 0, 10)); cases.append(("CGN", code, 40, 0))
        if mv < 10 ** 6:
            cases.append(("CGN", code, len(oracle.primes_between(0, mv)) + 1, 0))
        # a request that ends exactly at the largest prime the type can hold, and one prime more
        s0 = max(0, mv - 2000)
        inside = [q for q in (oracle.primes_between(s0, mv) if mv < (1 << 40) else nth_from(s0, 500)) if q <= mv]
        if inside:
            cases.append(("CGN", code, len(inside), s0))
            if mv < MAXPRIME:
                cases.append(("CGN", code, len(inside) + 1, s0))
    for code in (-1, 14, 99):
        cases.append(("CGP", code, 0, 100)); cases.append(("CGN", code, 5, 0))
    # C API, short dense intervals: more primes than the up-front size estimate, so the malloc'ed array has to grow
    # while it already holds primes (windows of k consecutive primes with the smallest span among random picks)
    small = [i for i, b_ in enumerate(oracle.sieve_upto(3 * 10 ** 6)) if b_]
    for _ in range(40 * scale):
        k = rng.between(7, 14)
        best = None
        for _t in range(60):
            i = rng.below(len(small) - k)
            if small[i] > 50 and (best is None or small[i + k - 1] - small[i] < best[1] - best[0]):
                best = (small[i], small[i + k - 1])
        cases.append(("CGP", rng.choice([1, 2, 3, 5, 9, 11, 12, 13]), best[0], best[1]))
    # exhaustive small starts around the cached-prime table
    for st in range(0, 760):
        cases.append(("CGP" if st % 2 else "GP", (13 if st % 2 else "u64"), st, st + [0, 1, 7, 30, 200][st % 5]) + ((st % 3,) if st % 2 == 0 else ()))
        if st % 4 == 0:
            cases.append(("GN", "u32", 1 + st % 3, st, 0))
    return cases


def expected(c):
    if c[0] == "GP":
        _, ty, start, stop, pre = c
        mv = TYPES[ty]
        v0 = list(range(1, pre + 1))
        if start > stop or start > MAXPRIME:
            return "ok", v0
        if stop > mv:
            return "err", v0
        return "ok", v0 + (oracle.segment_primes(start, stop) if stop < 2 * 10 ** 15 else oracle.primes_between(start, stop))
    _, ty, n, start, pre = c
    mv = TYPES[ty]
    v0 = list(range(1, pre + 1))
    ps_ = nth_from(start, n)
    if len(ps_) == n and (n == 0 or ps_[-1] <= mv):
        return "ok", v0 + ps_
    return "err", v0 + ps_


def correspond(ctx, scale=1):
    rng = ctx.rng
    scale *= 4 if ctx.thorough else 1
    cases = gen(rng, scale)
    probe = ps.build_probe("store_probe")
    model = ps.build_model()
    def pline(c):
        return " ".join(str(x) for x in c)
    def mline(c):
        if c[0] == "GP": return "STOREP %d %d %d %d" % (TYPES[c[1]], c[2], c[3], c[4])
        if c[0] == "GN": return "STOREN %d %d %d %d" % (TYPES[c[1]], c[2], c[3], c[4])
        if c[0] == "CGP": return "STOREP %d %d %d 0" % (TYPES[CODES[c[1]][0]], c[2], c[3]) if c[1] in CODES else "LEAF none"
        return "STOREN %d %d %d 0" % (TYPES[CODES[c[1]][0]], c[2], c[3]) if c[1] in CODES else "LEAF none"
    sh = ps.shard(cases)
    outs_i = ps.par_run(probe, ["\n".join(pline(c) for _, c in s) + "\n" for s in sh], timeout=600)
    outs_m = ps.par_run(model, ["\n".join(mline(c) for _, c in s) + "\n" for s in sh], timeout=600)
    mismatches, samples, sigs = [], [], set()
    dist = {"ops": {}, "types": {}, "errors": 0, "elements_compared": 0}
    ev = 0
    for s, (rci, oi, ei), (rcm, om, em) in zip(sh, outs_i, outs_m):
        li = [l for l in oi.splitlines() if not l.startswith("primesieve_")]
        lm = om.splitlines()
        if rci != 0 or len(li) != len(s):
            bad = s[min(len(li), len(s) - 1)][1]
            mismatches.append({"key": "crash", "what": "store probe crashed / timed out (rc=%d) on %s" % (rci, pline(bad)), "failing_input": {"command": pline(bad)}, "stderr": ei[-300:]})
            continue
        for (idx, c), a, b in zip(s, li, lm):
            ev += 1
            dist["ops"][c[0]] = dist["ops"].get(c[0], 0) + 1
            at, bt = a.split(), b.split()
            if c[0] in ("GP", "GN"):
                dist["types"][c[1]] = dist["types"].get(c[1], 0) + 1
                est, ev_ = expected(c)
                ist, iv = at[0], [int(x) for x in at[1:]] if at[0] in ("ok", "err") else []
                mst, mvv = bt[0], [int(x) for x in bt[1:]]
                dist["elements_compared"] += len(iv)
                if ist == "err": dist["errors"] += 1
                sigs.add((c[0], c[1], ist, c[4] > 0, len(iv) > c[4]))
                bad = None
                if ist != est:
                    bad = "status %s, expected %s" % (ist, est)
                elif ist == "ok" and iv != ev_:
                    bad = "stored elements differ from the requested primes (first difference at index %d)" % next((i for i in range(min(len(iv), len(ev_))) if iv[i] != ev_[i]), min(len(iv), len(ev_)))
                elif ist == "err" and iv != ev_[:len(iv)]:
                    bad = "after the throw the vector is not old contents + an exact prefix"
                if bad:
                    mismatches.append({"key": "store", "what": "%s: %s" % (pline(c), bad),
                                       "failing_input": {"command": pline(c), "observed": a[:300], "expected_status": est, "expected_prefix": ev_[:12]}})
                elif mst != ist or (ist == "ok" and mvv != iv):
                    mismatches.append({"key": "store-model", "what": "%s: implementation matches the oracle but the model says %s" % (pline(c), b[:200]), "failing_input": None})
                elif len(samples) < 6 and len(iv) > 3:
                    samples.append({"command": pline(c), "status": ist, "elements": len(iv), "last": iv[-1]})
            else:
                code = c[1]
                sigs.add((c[0], code, at[0]))
                if code not in CODES:
                    if not a.startswith("null") or "errno=EDOM" not in a or (c[0] == "CGP" and "size=0" not in a):
                        mismatches.append({"key": "c-store", "what": "%s with invalid type code: %s (expected NULL, size 0, errno EDOM)" % (pline(c), a[:200]), "failing_input": {"command": pline(c), "observed": a[:200]}})
                    continue
                ty = CODES[code][0]
                est, ev_ = expected(("GP", ty, c[2], c[3], 0) if c[0] == "CGP" else ("GN", ty, c[2], c[3], 0))
                bad = None
                if est == "ok" and len(ev_) > 0:
                    if at[0] != "ok" or [int(x) for x in at[3:]] != ev_ or int(at[1]) != len(ev_) or at[2] != "errno=0":
                        bad = "expected array of %d primes, errno untouched" % len(ev_)
                elif est == "ok":
                    # no primes: NULL with size 0 and errno != EDOM, or a valid array of size 0 (both allowed by the contract)
                    null_ok = a.startswith("null") and "errno=EDOM" not in a and (c[0] != "CGP" or "size=0" in a)
                    empty_ok = at[0] == "ok" and len(at) >= 3 and at[1] == "0" and at[2] == "errno=0"
                    if not (null_ok or empty_ok):
                        bad = "expected no primes: NULL with size 0 and errno != EDOM, or an array of size 0 with errno untouched"
                else:
                    if not a.startswith("null") or "errno=EDOM" not in a or (c[0] == "CGP" and "size=0" not in a):
                        bad = "expected NULL, size 0, errno EDOM"
                dist["elements_compared"] += max(0, len(at) - 3)
                if bad:
                    mismatches.append({"key": "c-store", "what": "%s (%s_PRIMES): %s; observed %s" % (pline(c), CODES[code][1], bad, a[:200]),
                                       "failing_input": {"command": pline(c), "observed": a[:300], "expected": [est] + ev_[:10]}})
    return {"evaluations": ev, "distinct_nontrivial": len(sigs),
            "rule": "8 element types x (start, stop) at max(V)-2..max(V)+2, empty / reversed requests, non-empty destination vectors; generate_n_primes with the n-th prime the largest representable one and one more, n around the iterator's block sizes, n = 0; the top of the range; the 14 C type codes at their own limits and invalid codes. distinct = distinct (operation, type, status, prefill, anything appended)",
            "samples": samples, "mismatches": sorted(mismatches, key=lambda m: 0 if m.get("failing_input") else 1)[:20], "distribution": dist, "variants": ["default"]}


def search(ctx, broken):
    sub = type(ctx)(ctx.pid, ctx.tier, ctx.seed + 141650939)
    res = correspond(sub, scale=3)
    return [m for m in res["mismatches"] if m.get("failing_input")]


def replay(ctx, obj):
    fi = obj.get("failing_input") or {}
    rc, o, e = ps.run([ps.build_probe("store_probe")], input=fi.get("command", "") + "\n", timeout=300)
    print(fi.get("command"), "->", o[:600])
    return 0

"""C14: independent objects and concurrent calls do not influence each other."""
import os, re
import ps, iterlib, oracle

LEVEL = "other"
THEOREMS = ["C14_interleave_frame"]
ASSUMPTIONS = [
    "the frame theorem holds for objects whose behaviour is a function of their own state; that the library has no hidden shared mutable state is CHECKED by a scan of every writable static symbol of the built library (guard off) against an allow-list, not assumed",
    "machine-level data races between user threads are outside the model; ThreadSanitizer on the concurrent workloads is run in the thorough tier as validation",
    "the global settings sieve_size / num_threads are excluded by the property's own proviso",
]
EXPLANATION = "frame theorem (Coq) + static scan of writable symbols in the built library + correspondence: k interleaved C++/C iterators vs their solo histories (and vs the cursor specification), API calls from several user threads vs the same calls alone"
ALLOWED = [r"^\(anonymous namespace\)::cpu_supports_(avx512_bw|avx512_vbmi2|popcnt)$", r"^\(anonymous namespace\)::(num_threads|sieve_size)$",
           r"^primesieve::cpuInfo$", r"^std::__ioinit$", r"^\(anonymous namespace\)::(preSieveTables|smallPrimes)$", r"^(typeinfo|vtable) for ", r"^typeinfo name for ",
           r"^guard variable for .*(errorPrimes)", r"errorPrimes$"]


def static_scan():
    lib = ps.build_impl("nohook")
    rc, out, err = ps.run(["nm", "-C", "--defined-only", lib], timeout=120)
    writable, unexpected = [], []
    for l in out.splitlines():
        m = re.match(r"^[0-9a-f]+ ([BbDdCcSsGg]) (.+)$", l)
        if not m:
            continue
        name = m.group(2).strip()
        writable.append(name)
        if not any(re.search(p, name) for p in ALLOWED):
            unexpected.append(m.group(1) + " " + name)
    return sorted(set(writable)), sorted(set(unexpected))


def correspond(ctx):
    rng = ctx.rng
    mismatches, samples, sigs = [], [], set()
    dist = {}
    writable, unexpected = static_scan()
    dist["writable_symbols"] = len(writable)
    dist["unexpected_symbols"] = unexpected
    for u in unexpected:
        mismatches.append({"key": "static-scan", "what": "the library has a writable static object that is not on the allow-list: %s (hidden shared state?)" % u, "failing_input": None})
    # 1. k interleaved iterators
    probe = ps.build_probe("iter_probe")
    nruns = 60 if not ctx.thorough else 300
    inputs, plans = [], []
    for r in range(nruns):
        k = rng.choice([2, 3, 5])
        hs = []
        for j in range(k):
            ops = [o for o in iterlib.gen_history(rng, "cpp", maxlen=25, hi_frac=(90, 10, 0, 0)) if o.split()[0] in ("N", "P", "J", "C", "NEW")]
            hs.append(ops)
        merged, ptr = [], [0] * k
        while any(ptr[j] < len(hs[j]) for j in range(k)):
            j = rng.choice([j for j in range(k) if ptr[j] < len(hs[j])])
            merged.append("%d %s" % (j, hs[j][ptr[j]])); ptr[j] += 1
        inputs.append("MULTI %d\n" % k + "\n".join(merged) + "\nEND\n")
        plans.append((k, hs, merged))
    outs = ps.par_run(probe, inputs, timeout=300)
    ev = 0
    for (k, hs, merged), (rc, o, e) in zip(plans, outs):
        ev += 1
        lines = [l for l in o.splitlines() if " | " in l]
        if rc != 0 or len(lines) != len(merged):
            mismatches.append({"key": "multi-crash", "what": "interleaved run of %d iterators crashed / was cut short (rc=%d)" % (k, rc), "failing_input": {"interleaving": merged[:200]}}); continue
        per = {j: [] for j in range(k)}
        for l in lines:
            idx, r = l.split(" | "); per[int(idx)].append(r)
        sigs.add((k, len(merged) // 20))
        for j in range(k):
            ex = [(op, r, None) for op, r in zip(hs[j], per[j])]
            sc = iterlib.spec_check(ex)
            if sc is not None:
                mismatches.append({"key": "multi", "what": "iterator %d of %d used interleaved with the others returns %s where it returns %s alone (op %d of its own history)" % (j, k, sc[2], sc[1], sc[0]),
                                   "failing_input": {"iterators": k, "interleaving": merged[:300], "iterator": j, "own_history": hs[j], "expected": sc[1], "observed": sc[2]}})
        if len(samples) < 2:
            samples.append({"iterators": k, "interleaving": merged[:12]})
    dist["interleaved_runs"] = nruns
    # 2. concurrent API calls from user threads
    cp = ps.build_probe("conc_probe")
    def conc_batch():
        tasks = []
        for k in range(2, 7):
            a = rng.below(10 ** 6); tasks.append("COUNT %d %d %d" % (k, a, a + rng.between(2 * 10 ** 7, 4 * 10 ** 7)))
        tasks.append("COUNT 1 0 %d" % rng.between(3 * 10 ** 7, 6 * 10 ** 7))
        tasks.append("COUNT 1 %d %d" % (10 ** 12, 10 ** 12 + rng.between(2 * 10 ** 7, 5 * 10 ** 7)))
        tasks.append("NTH %d 0" % rng.between(2 * 10 ** 6, 4 * 10 ** 6)); tasks.append("NTH -%d %d" % (rng.between(10 ** 5, 10 ** 6), 10 ** 9))
        # several forward / backward nth_prime calls in flight at once (their final iterator phase runs in the calling thread)
        for _ in range(8):
            tasks.append("NTH %s%d %d" % (rng.choice(["", "", "-"]), rng.between(500, 60000), rng.choice([0, 10 ** 6, 10 ** 9, 10 ** 10]) + rng.below(10 ** 6) + 10 ** 6))
        tasks.append("ITERSUM %d 4000" % rng.below(10 ** 9)); tasks.append("GEN %d %d" % (10 ** 8, 10 ** 8 + 10 ** 6)); tasks.append("ITERSUM 0 3000")
        # calls whose value is checked against the independent oracle (a call must be right, not just repeatable)
        for k in range(1, 7):
            a = rng.below(10 ** 7); tasks.append("COUNT %d %d %d" % (k, a, a + rng.between(10 ** 5, 10 ** 6)))
        return "\n".join(tasks) + "\nRUN %d %d\n" % (rng.choice([2, 4, 6]), 2)
    def nth_storm():
        # many short nth_prime calls in flight at once: their final iterator phase (and everything it allocates) runs in the calling
        # thread, so any state shared between calls shows as a wrong value, an exception or a crash within a few batches
        tasks = ["NTH %s%d %d" % (rng.choice(["", "", "", "-"]), rng.between(500, 60000), rng.choice([10 ** 6, 10 ** 9, 10 ** 10, 10 ** 12]) + rng.below(10 ** 6)) for _ in range(24)]
        return "\n".join(tasks) + "\nRUN %d 4\n" % rng.choice([2, 3, 6])
    nb = 3 if not ctx.thorough else 12
    batches_in = [conc_batch() for _ in range(nb)] + [nth_storm() for _ in range(40 if not ctx.thorough else 200)]
    res = ps.par_run(cp, batches_in, timeout=900)
    for binp, (rc, o, e) in zip(batches_in, res):
        ev += 1
        tl = binp.splitlines()
        for l in o.splitlines():
            if l.startswith("SOLO "):
                _, i, v = l.split(); t = tl[int(i)].split()
                if t[0] == "COUNT" and int(t[3]) - int(t[2]) <= 10 ** 6:
                    exp = oracle.counts_between(int(t[2]), int(t[3]))[int(t[1]) - 1]
                    if int(v) != exp:
                        mismatches.append({"key": "sequence", "what": "%s called after other API calls in the same process returns %s, expected %d" % (tl[int(i)], v, exp),
                                           "failing_input": {"calls_before": tl[:int(i)], "call": tl[int(i)], "observed": v, "expected": exp}})
        done = [l for l in o.splitlines() if l.startswith("DONE")]
        sigs.add(("conc", done[0].split()[2] if done else None))
        bad = [l for l in o.splitlines() if l.startswith("MISMATCH")]
        if rc != 0 or not done or bad:
            mismatches.append({"key": "concurrent", "what": "API calls from several user threads differ from the same calls run alone: %s (rc=%d)" % (bad[:3], rc),
                               "failing_input": {"mismatches": bad[:10], "summary": done}})
        elif len(samples) < 4:
            samples.append({"concurrent_batch": done[0]})
    dist["concurrent_batches"] = len(batches_in)
    if ctx.thorough:
        try:
            tp = ps.build_probe("conc_probe", "tsan")
            rc, o, e = ps.run([tp], input=conc_batch(), timeout=1500, env=dict(os.environ, TSAN_OPTIONS="halt_on_error=0"))
            dist["tsan"] = "data race reported" if "ThreadSanitizer: data race" in e else "no race reported"
            if "ThreadSanitizer: data race" in e:
                mismatches.append({"key": "tsan", "what": "ThreadSanitizer reports a data race between user threads", "failing_input": {"report": e[:1500]}})
        except ps.BuildError as ex:
            dist["tsan"] = "build failed"
    return {"evaluations": ev, "distinct_nontrivial": len(sigs) + 1,
            "explanation": EXPLANATION,
            "rule": "static scan: every B/b/D/d symbol of libprimesieve.a (guard off) against the allow-list {sieve_size, num_threads, cpuInfo, cpu_supports_*, iostream init, relocated const tables, vtables/typeinfo}; k in {2,3,5} C++/C iterators with random interleaved histories, each stream checked against the cursor specification; 26 API calls (count_* incl. multi-threaded ones, 10 nth_prime calls forward and backward, iteration, generate_primes) from 2/4/6 user threads, each compared with the same call alone; 40 (200) storms of 24 short nth_prime calls from 2/3/6 threads, 4 rounds each",
            "samples": samples, "mismatches": sorted(mismatches, key=lambda m: 0 if m.get("failing_input") else 1)[:20], "distribution": dist, "variants": ["default", "nohook"]}


def search(ctx, broken):
    sub = type(ctx)(ctx.pid, "thorough", ctx.seed + 179424673)
    res = correspond(sub)
    return [m for m in res["mismatches"] if m.get("failing_input")]


def replay(ctx, obj):
    print(obj.get("what")); return 0

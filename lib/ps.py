"""Common helpers for the /verif checks: building the implementation from
/repo's working tree, building the Coq development and the extracted model,
running things under timeouts, writing evidence and violation reports."""
import hashlib, json, os, subprocess, sys, time, glob, shutil, re

ROOT = os.path.dirname(os.path.dirname(os.path.abspath(__file__)))
REPO = os.environ.get("VERIF_REPO", "/repo")
BUILD = os.path.join(ROOT, "build")
COQ = os.path.join(ROOT, "coq")
GUARD = "PRIMESIEVE_VERIF"
NPROC = os.cpu_count() or 4

LIB_SRC = """api-c.cpp api.cpp CountPrintPrimes.cpp CpuInfo.cpp Erat.cpp EratSmall.cpp EratMedium.cpp
EratBig.cpp iterator-c.cpp iterator.cpp IteratorHelper.cpp LookupTables.cpp MemoryPool.cpp
PrimeGenerator.cpp nthPrime.cpp ParallelSieve.cpp popcount.cpp PreSieve.cpp PrimeSieve.cpp
RiemannR.cpp SievingPrimes.cpp arch/x86/cpuid.cpp""".split()
BIN_SRC = "app/CmdOptions.cpp app/help.cpp app/main.cpp app/stressTest.cpp app/test.cpp".split()

MULTIARCH = ["-DENABLE_MULTIARCH_AVX512_BW", "-DENABLE_MULTIARCH_AVX512_VBMI2", "-DENABLE_MULTIARCH_x86_POPCNT"]
VARIANTS = {
    # what cmake builds on this machine (RelWithDebInfo, WITH_MULTIARCH=ON), plus the hook guard
    "default": ["-O2", "-DNDEBUG", "-D" + GUARD] + MULTIARCH,
    # WITH_MULTIARCH=OFF: SSE2 presieve, portable bit decoding, no popcnt instruction
    "portable": ["-O2", "-DNDEBUG", "-D" + GUARD],
    # guard off (what the test-suite sees)
    "nohook": ["-O2", "-DNDEBUG"] + MULTIARCH,
    "asan": ["-O1", "-g", "-fsanitize=address,undefined", "-fno-sanitize-recover=all",
             "-DENABLE_ASSERT", "-D" + GUARD] + MULTIARCH,
    "asan_portable": ["-O1", "-g", "-fsanitize=address,undefined", "-fno-sanitize-recover=all",
             "-DENABLE_ASSERT", "-D" + GUARD],
    "tsan": ["-O1", "-g", "-fsanitize=thread", "-D" + GUARD] + MULTIARCH,
}
LINK = {"asan": ["-fsanitize=address,undefined"], "asan_portable": ["-fsanitize=address,undefined"],
        "tsan": ["-fsanitize=thread"]}


def log(*a):
    print(*a, file=sys.stderr, flush=True)


def run(cmd, timeout=600, cwd=None, env=None, input=None, check=False):
    """run a command under a timeout; returns (rc, stdout, stderr); rc=124 on timeout"""
    try:
        p = subprocess.run(cmd, cwd=cwd, env=env, input=input, timeout=timeout,
                           stdout=subprocess.PIPE, stderr=subprocess.PIPE, text=True, errors="replace")
        rc, out, err = p.returncode, p.stdout, p.stderr
    except subprocess.TimeoutExpired as e:
        rc = 124
        out = e.stdout.decode(errors="replace") if isinstance(e.stdout, bytes) else (e.stdout or "")
        err = e.stderr.decode(errors="replace") if isinstance(e.stderr, bytes) else (e.stderr or "")
    if check and rc != 0:
        raise RuntimeError("command failed (%d): %s\n%s\n%s" % (rc, " ".join(map(str, cmd)), out[-2000:], err[-4000:]))
    return rc, out, err


def par_run(exe, inputs, timeout=600, env=None):
    """run `exe` once per input string, NPROC at a time; returns [(rc, out, err)] in order"""
    from concurrent.futures import ThreadPoolExecutor
    with ThreadPoolExecutor(max_workers=NPROC) as ex:
        return list(ex.map(lambda i: run(exe if isinstance(exe, list) else [exe], input=i, timeout=timeout, env=env), inputs))


def shard(xs, n=None):
    n = n or NPROC
    n = max(1, min(n, len(xs)))
    out = [[] for _ in range(n)]
    for i, x in enumerate(xs):
        out[i % n].append((i, x))
    return out


def tree_hash(paths, extra=""):
    h = hashlib.sha256()
    h.update(extra.encode())
    files = []
    for p in paths:
        if os.path.isdir(p):
            for d, _, fs in os.walk(p):
                for f in fs:
                    files.append(os.path.join(d, f))
        elif os.path.exists(p):
            files.append(p)
    for f in sorted(files):
        h.update(f.encode())
        with open(f, "rb") as fh:
            h.update(fh.read())
    return h.hexdigest()


def repo_hash():
    return tree_hash([os.path.join(REPO, "src"), os.path.join(REPO, "include")])


def _parallel(cmds, timeout=900):
    """run compile commands in parallel; raise on first failure"""
    procs = []
    pending = list(cmds)
    errors = []
    while pending or procs:
        while pending and len(procs) < NPROC:
            c = pending.pop(0)
            procs.append((c, subprocess.Popen(c, stdout=subprocess.PIPE, stderr=subprocess.STDOUT, text=True)))
        still = []
        for c, p in procs:
            if p.poll() is None:
                still.append((c, p))
            elif p.returncode != 0:
                errors.append((" ".join(c), p.stdout.read()))
        procs = still
        time.sleep(0.02)
    if errors:
        raise BuildError("\n".join("%s\n%s" % e for e in errors[:3]))


class BuildError(Exception):
    pass


import threading
_BUILD_LOCK = threading.RLock()


def build_impl(variant="default", with_cli=False):
    with _BUILD_LOCK:
        return _build_impl(variant, with_cli)


def _build_impl(variant="default", with_cli=False):
    """(re)build libprimesieve.a (and optionally the CLI) from REPO's working tree.
    Cached by a hash over src/ and include/ so an edit to the sources always rebuilds."""
    flags = VARIANTS[variant]
    out = os.path.join(BUILD, "impl", variant)
    os.makedirs(out, exist_ok=True)
    stamp = os.path.join(out, "stamp")
    h = tree_hash([os.path.join(REPO, "src"), os.path.join(REPO, "include")], " ".join(flags))
    lib = os.path.join(out, "libprimesieve.a")
    cli = os.path.join(out, "primesieve")
    have = open(stamp).read().split() if os.path.exists(stamp) else []
    need_lib = not (have[:1] == [h] and os.path.exists(lib))
    need_cli = with_cli and not (have[:1] == [h] and "cli" in have and os.path.exists(cli))
    if need_lib:
        for f in glob.glob(os.path.join(out, "*.o")) + [lib, cli]:
            if os.path.exists(f):
                os.remove(f)
        cmds = []
        objs = []
        for s in LIB_SRC:
            o = os.path.join(out, s.replace("/", "_") + ".o")
            objs.append(o)
            cmds.append(["g++", "-std=gnu++17", "-Wno-error", "-w"] + flags + ["-I", os.path.join(REPO, "include"),
                         "-c", os.path.join(REPO, "src", s), "-o", o])
        _parallel(cmds)
        run(["ar", "rcs", lib] + objs, check=True)
        have = [h]
    if need_cli:
        cmds = []
        objs = []
        for s in BIN_SRC:
            o = os.path.join(out, "bin_" + s.replace("/", "_") + ".o")
            objs.append(o)
            cmds.append(["g++", "-std=gnu++17", "-w"] + flags + ["-I", os.path.join(REPO, "include"), "-I", os.path.join(REPO, "src"),
                         "-c", os.path.join(REPO, "src", s), "-o", o])
        _parallel(cmds)
        rc, o_, e_ = run(["g++"] + LINK.get(variant, []) + objs + [lib, "-lpthread", "-o", cli])
        if rc != 0:
            raise BuildError(e_)
        have = [h, "cli"]
    with open(stamp, "w") as f:
        f.write(" ".join(have))
    return lib


def cli_path(variant="default"):
    build_impl(variant, with_cli=True)
    return os.path.join(BUILD, "impl", variant, "primesieve")


# probes that need special link flags (the fault-injection probe wraps malloc/realloc/free)
PROBE_FLAGS = {"fault_probe": ("-Wl,--wrap=malloc", "-Wl,--wrap=realloc", "-Wl,--wrap=free")}


def build_probe(name, variant="default", extra_flags=()):
    extra_flags = tuple(extra_flags) or PROBE_FLAGS.get(name, ())
    with _BUILD_LOCK:
        return _build_probe(name, variant, extra_flags)


def _build_probe(name, variant="default", extra_flags=()):
    """compile harness/cpp/<name>.cpp against the implementation built from the working tree"""
    lib = build_impl(variant)
    src = os.path.join(ROOT, "harness", "cpp", name + ".cpp")
    out = os.path.join(BUILD, "impl", variant, "probe_" + name)
    h = tree_hash([src, os.path.join(ROOT, "harness", "cpp", "common.hpp")], open(os.path.join(BUILD, "impl", variant, "stamp")).read() + " ".join(extra_flags))
    st = out + ".stamp"
    if os.path.exists(out) and os.path.exists(st) and open(st).read() == h:
        return out
    flags = [f for f in VARIANTS[variant]]
    rc, o, e = run(["g++", "-std=gnu++17", "-w"] + flags + list(extra_flags) +
                   ["-I", os.path.join(REPO, "include"), "-I", os.path.join(REPO, "src"), "-I", os.path.join(ROOT, "harness", "cpp"),
                    src, lib, "-lpthread", "-o", out] + LINK.get(variant, []), timeout=600)
    if rc != 0:
        raise BuildError("probe %s failed to compile:\n%s" % (name, e[-6000:]))
    open(st, "w").write(h)
    return out


# ---------------------------------------------------------------- Coq side

def regen():
    """T1/T2: regenerate coq/Gen/*.v from REPO's working tree (files only rewritten when they change).
    Returns a list of translation problems (strings)."""
    sys.path.insert(0, os.path.join(ROOT, "translate"))
    problems = []
    try:
        import tables
        problems += tables.generate(REPO, os.path.join(COQ, "Gen"))
    except Exception as e:  # a parse failure is itself reported
        problems.append("tables.py: %r" % (e,))
    try:
        import approx
        problems += approx.generate(REPO, os.path.join(COQ, "Gen"))
    except Exception as e:
        problems.append("approx.py: %r" % (e,))
    try:
        import leaf
        problems += leaf.generate(REPO, os.path.join(COQ, "Gen"))
    except ImportError:
        pass
    except Exception as e:
        problems.append("leaf.py: %r" % (e,))
    return problems


def coq_makefile():
    mk = os.path.join(COQ, "Makefile")
    vs = sorted(glob.glob(os.path.join(COQ, "*", "*.v")))
    listing = "\n".join(os.path.relpath(v, COQ) for v in vs)
    proj = open(os.path.join(COQ, "_CoqProject.in")).read() + listing + "\n"
    pj = os.path.join(COQ, "_CoqProject")
    if not os.path.exists(pj) or open(pj).read() != proj or not os.path.exists(mk):
        open(pj, "w").write(proj)
        run(["coq_makefile", "-f", "_CoqProject", "-o", "Makefile"], cwd=COQ, check=True)


def coq_make(targets, timeout=3000):
    """full .vo build (never -vos) of the given targets, keep going on errors.
    returns (ok, log)"""
    coq_makefile()
    rc, out, err = run(["make", "-k", "-j%d" % NPROC] + targets, cwd=COQ, timeout=timeout)
    return rc == 0, out + err


def build_model():
    """extract the executable model and build the OCaml driver"""
    ok, lg = coq_make(["Extract/Extract.vo"])
    if not ok:
        raise BuildError("Coq build of the model failed:\n" + lg[-6000:])
    d = os.path.join(BUILD, "model")
    os.makedirs(d, exist_ok=True)
    src_ml = os.path.join(COQ, "model.ml")
    drv = os.path.join(ROOT, "harness", "ml", "driver.ml")
    h = tree_hash([src_ml, os.path.join(COQ, "model.mli"), drv])
    exe = os.path.join(d, "driver")
    st = os.path.join(d, "stamp")
    if os.path.exists(exe) and os.path.exists(st) and open(st).read() == h:
        return exe
    for f in ("model.ml", "model.mli"):
        shutil.copy(os.path.join(COQ, f), d)
    shutil.copy(drv, d)
    # the extracted tables (384 wheel-210 entries, ...) are deeply nested expressions: ocamlopt needs more than the default
    # 8 MiB stack.  1st attempt: raise the soft stack limit; fallback: the bytecode compiler with its own stack limit.
    cmd = "ocamlfind ocamlopt -w -a -package zarith,str -linkpkg model.mli model.ml driver.ml -o driver"
    rc, o, e = run(["bash", "-c", "ulimit -s unlimited 2>/dev/null || ulimit -s $(ulimit -H -s) 2>/dev/null; exec " + cmd], cwd=d, timeout=900)
    if rc != 0:
        env = dict(os.environ, OCAMLFIND_COMMANDS="ocamlopt=ocamlopt.byte", OCAMLRUNPARAM="l=4000M")
        rc, o, e = run(cmd.split(), cwd=d, timeout=1800, env=env)
    if rc != 0:
        raise BuildError("OCaml build failed:\n" + e[-6000:])
    open(st, "w").write(h)
    return exe


FORBIDDEN = re.compile(r"\b(Admitted|admit|Axiom|Parameter|Conjecture|Admit Obligations)\b|Unset Guard|bypass_check|type-in-type|impredicative-set|Unset Universe Checking|Unset Positivity")


def audit_sources():
    """grep the development for anything that would declare an axiom or switch a check off"""
    bad = []
    for v in glob.glob(os.path.join(COQ, "*", "*.v")):
        txt = open(v).read()
        txt = re.sub(r"\(\*.*?\*\)", "", txt, flags=re.S)
        for m in FORBIDDEN.finditer(txt):
            bad.append("%s: %s" % (os.path.relpath(v, ROOT), m.group(0)))
    return bad


def deps_closure(vfile):
    """the .v files of this development that vfile depends on (transitively), via coqdep"""
    rc, out, err = run(["coqdep", "-Q", ".", "PS"] + sorted(os.path.relpath(v, COQ) for v in glob.glob(os.path.join(COQ, "*", "*.v"))), cwd=COQ)
    deps = {}
    for line in out.splitlines():
        if ":" not in line:
            continue
        lhs, rhs = line.split(":", 1)
        tgt = [t for t in lhs.split() if t.endswith(".vo")]
        if not tgt:
            continue
        deps[tgt[0][:-1]] = [r[:-1] for r in rhs.split() if r.endswith(".vo")]
    seen = []
    todo = [vfile]
    while todo:
        f = todo.pop()
        if f in seen:
            continue
        seen.append(f)
        todo += deps.get(f, [])
    return sorted(seen)


def count_obligations(vfiles):
    n = 0
    names = []
    for v in vfiles:
        txt = open(os.path.join(COQ, v)).read()
        txt = re.sub(r"\(\*.*?\*\)", "", txt, flags=re.S)
        for m in re.finditer(r"^\s*(?:Local\s+|Global\s+)?(Theorem|Lemma|Example|Corollary|Fact|Proposition)\s+([A-Za-z0-9_']+)", txt, flags=re.M):
            n += 1
            names.append(m.group(2))
    return n, names


def print_assumptions(log_text):
    """parse the output of Print Assumptions commands from a coqc log: one entry per command, either
    'Closed under the global context' or 'Axioms:' followed by one line per axiom (name [: type])"""
    res, cur = [], None
    for line in log_text.splitlines():
        if line.startswith("Closed under the global context"):
            if cur is not None:
                res.append("\n".join(cur)); cur = None
            res.append("Closed under the global context")
        elif line.startswith("Axioms:"):
            if cur is not None:
                res.append("\n".join(cur))
            cur = ["Axioms:"]
        elif cur is not None:
            if re.match(r"^(COQC|COQDEP|COQ|make|File |Finished|Warning|\[)", line) or not line.strip():
                res.append("\n".join(cur)); cur = None
            elif not line[0].isspace():
                cur.append(line.split(":")[0].strip() + " :")
    if cur is not None:
        res.append("\n".join(cur))
    return res


# ---------------------------------------------------------------- reporting

def write_evidence(pid, tier, seed, level, coverage, wall_s, violations=0, assumptions=()):
    os.makedirs(os.path.join(ROOT, "evidence"), exist_ok=True)
    ev = {"property_id": pid, "tier": tier, "seed": seed, "level": level, "coverage": coverage,
          "assumptions": list(assumptions), "wall_s": round(wall_s, 2), "violations": violations}
    p = os.path.join(ROOT, "evidence", pid + ".json")
    with open(p, "w") as f:
        json.dump(ev, f, indent=1, default=str)
    return p


def write_replay(pid, obj):
    d = os.path.join(ROOT, "replay", pid)
    os.makedirs(d, exist_ok=True)
    n = len(os.listdir(d))
    p = os.path.join(d, "%d.json" % n)
    with open(p, "w") as f:
        json.dump(obj, f, indent=1, default=str)
    return os.path.relpath(p, ROOT)


def known_findings():
    p = os.path.join(ROOT, "KNOWN_FINDINGS.json")
    if not os.path.exists(p):
        return {"known": [], "fixed": []}
    return json.load(open(p))


class SplitMix64:
    """the single PRNG stream all random choices derive from (VERIF_SEED)"""
    def __init__(self, seed):
        self.s = seed & 0xFFFFFFFFFFFFFFFF

    def next(self):
        self.s = (self.s + 0x9E3779B97F4A7C15) & 0xFFFFFFFFFFFFFFFF
        z = self.s
        z = ((z ^ (z >> 30)) * 0xBF58476D1CE4E5B9) & 0xFFFFFFFFFFFFFFFF
        z = ((z ^ (z >> 27)) * 0x94D049BB133111EB) & 0xFFFFFFFFFFFFFFFF
        return z ^ (z >> 31)

    def below(self, n):
        return self.next() % n if n > 0 else 0

    def choice(self, xs):
        return xs[self.below(len(xs))]

    def chance(self, num, den):
        return self.below(den) < num

    def between(self, a, b):
        return a + self.below(b - a + 1)

#!/usr/bin/env python3
"""MANIFEST.setup_cmd: build the framework from files on disk only (offline):
regenerate coq/Gen from /repo, full .vo build of every property file and of the
extraction, build the OCaml driver, build the default implementation variant and
the probes."""
import glob, os, sys, time
sys.path.insert(0, os.path.dirname(os.path.abspath(__file__)))
import ps

t0 = time.time()
problems = ps.regen()
for p in problems:
    print("translation problem:", p)
targets = sorted(os.path.relpath(v, ps.COQ) + "o" for v in glob.glob(os.path.join(ps.COQ, "Properties", "*.v")))
ok, lg = ps.coq_make(targets + ["Extract/Extract.vo"], timeout=5400)
print(lg[-3000:])
print("coq build ok:", ok, "(%.0fs)" % (time.time() - t0))
try:
    ps.build_model()
    ps.build_impl("default", with_cli=True)
    for pr in sorted(glob.glob(os.path.join(ps.ROOT, "harness", "cpp", "*.cpp"))):
        name = os.path.basename(pr)[:-4]
        if name.startswith("x_"):
            continue
        ps.build_probe(name)
except ps.BuildError as e:
    print("build error:", str(e)[-3000:])
    sys.exit(1)
print("setup done in %.0fs" % (time.time() - t0))
sys.exit(0 if ok else 1)

"""Generic per-property check runner.

  stage 1  regenerate coq/Gen from /repo (T1/T2), full .vo build of the
           property's theorem file and its closure, audit (no Admitted/Axiom...,
           Print Assumptions against the allow-list)
  stage 2  correspondence: the extracted model and the implementation rebuilt
           from /repo's working tree are run on the same inputs / histories
  stage 3  verdict.  A broken obligation or a disagreement triggers the search
           for a concrete failing input against the *specification* (python
           oracle independent of the model); found -> VIOLATION with replay,
           not found -> VIOLATION ... no-failing-input-found.
"""
import importlib, json, os, re, sys, time
import ps

ALLOWED_AXIOMS = {
    # per property: axioms of the standard library that may appear in Print Assumptions
    "C18": ["ClassicalDedekindReals.sig_forall_dec", "ClassicalDedekindReals.sig_not_dec",
            "FunctionalExtensionality.functional_extensionality_dep", "Classical_Prop.classic",
            # the standard library's primitive 63-bit integers and their specification axioms (Coq.Numbers.Cyclic.Int63),
            # used by coq-interval's big-number arithmetic in the four ln enclosures of each block
            "Uint63.*", "PrimInt63.*"],
}


class Ctx:
    def __init__(self, pid, tier, seed):
        self.pid, self.tier, self.seed = pid, tier, seed
        self.rng = ps.SplitMix64(seed * 1000003 + int(pid[1:]))
        self.thorough = tier == "thorough"
        self.notes = []


def proof_stage(pid):
    """returns dict(ok, obligations, discharged, names, checker_cmd, assumptions, problems, log)"""
    problems = ps.regen()
    target = "Properties/Properties_%s.vo" % pid
    vfile = "Properties/Properties_%s.v" % pid
    res = {"ok": True, "problems": list(problems), "broken": []}
    if not os.path.exists(os.path.join(ps.COQ, vfile)):
        res.update(ok=False, obligations=0, discharged=0, names=[], assumptions=[], checker_cmd="", log="no theorem file")
        res["broken"].append("missing " + vfile)
        return res
    # force Print Assumptions output of the property file to be regenerated: it is cheap
    vo = os.path.join(ps.COQ, target)
    if os.path.exists(vo):
        os.remove(vo)
    ok, lg = ps.coq_make([target])
    closure = ps.deps_closure(vfile)
    nobl, names = ps.count_obligations(closure)
    missing = [v for v in closure if not os.path.exists(os.path.join(ps.COQ, v + "o"))]
    # obligations in files whose .vo was not produced are not discharged
    ndis = nobl - sum(ps.count_obligations([v])[0] for v in missing)
    res["obligations"], res["discharged"], res["names"] = nobl, ndis, names
    res["checker_cmd"] = "cd coq && coq_makefile -f _CoqProject -o Makefile && make -k -j%d %s   (coqc 8.16.1, full .vo)" % (ps.NPROC, target)
    res["log"] = lg
    if not ok or missing:
        res["ok"] = False
        errs = re.findall(r'File "\./([^"]+)", line (\d+)[^\n]*\n(Error:[^\n]*(?:\n[^\n]+){0,3})', lg)
        for f, ln, msg in errs[:5]:
            res["broken"].append("%s:%s %s" % (f, ln, msg.replace("\n", " ")[:300]))
        if not errs:
            res["broken"].append("make failed: " + lg[-500:])
    bad = ps.audit_sources()
    if bad:
        res["ok"] = False
        res["broken"] += ["forbidden construct: " + b for b in bad]
    assum = ps.print_assumptions(lg)
    res["assumptions"] = assum
    allowed = ALLOWED_AXIOMS.get(pid, [])
    for a in assum:
        if a.startswith("Closed under"):
            continue
        axs = [x for x in re.findall(r"^([A-Za-z0-9_.']+)\s*:", a, flags=re.M) if x != "Axioms"]
        for ax in axs:
            if ax not in allowed and not any(p.endswith("*") and ax.startswith(p[:-1]) for p in allowed):
                res["ok"] = False
                res["broken"].append("unexpected axiom in Print Assumptions: " + ax)
    if res["problems"]:
        res["ok"] = False
        res["broken"] += ["translation: " + p for p in res["problems"]]
    return res


TRUSTED_BASE = [
    "Coq 8.16.1 kernel; vm_compute for finite table lemmas and refutation witnesses; native_compute not used",
    "translators translate/tables.py (regex over the source text) and translate/leaf.py (clang JSON AST) that regenerate coq/Gen/*.v from /repo on every run",
    "extraction: ExtrOcamlBasic (bool, option, unit, list, prod, sumbool, sumor, andb, orb) + ExtrOcamlZBigInt (positive/N/Z -> Big_int_Z); OCaml 4.13.1, zarith 1.12, harness/ml/driver.ml",
    "correspondence harness (python3, g++ 12.2, probes under harness/cpp compiled against the library rebuilt from /repo's working tree with -DPRIMESIEVE_VERIF)",
    "driver kernel oracle above 1e5: deterministic Miller-Rabin (unverified; affects the correspondence runs only, never a theorem)",
]


def main(argv=None):
    argv = argv or sys.argv[1:]
    if not argv:
        print("usage: check <ID> [--tier quick|thorough] [--replay file]")
        return 2
    pid = argv[0]
    tier = os.environ.get("VERIF_TIER", "quick")
    replay = None
    i = 1
    while i < len(argv):
        if argv[i] == "--tier":
            tier = argv[i + 1]; i += 2
        elif argv[i] == "--replay":
            replay = argv[i + 1]; i += 2
        else:
            i += 1
    seed = int(os.environ.get("VERIF_SEED", "1"))
    t0 = time.time()
    ctx = Ctx(pid, tier, seed)
    sys.path.insert(0, os.path.join(ps.ROOT, "checks"))
    mod = importlib.import_module(pid)
    if replay:
        return mod.replay(ctx, json.load(open(os.path.join(ps.ROOT, replay) if not os.path.isabs(replay) else replay)))

    violations = []      # (key, description, replay-object)
    pr = proof_stage(pid)
    ps.log("[%s] proof stage: ok=%s obligations=%d discharged=%d (%.1fs)" % (pid, pr["ok"], pr["obligations"], pr["discharged"], time.time() - t0))
    corr = {"evaluations": 0, "distinct_nontrivial": 0, "mismatches": [], "samples": [], "rule": ""}
    try:
        corr = mod.correspond(ctx)
    except ps.BuildError as e:
        corr["mismatches"] = []
        corr["build_error"] = str(e)[-3000:]
        violations.append(("build", "implementation/probe/model build failed", {"kind": "build-error", "detail": str(e)[-3000:]}))
    ps.log("[%s] correspondence: %d evaluations, %d mismatches (%.1fs)" % (pid, corr.get("evaluations", 0), len(corr.get("mismatches", [])), time.time() - t0))

    for m in corr.get("mismatches", []):
        violations.append((m.get("key", "mismatch"), m.get("what", "model and implementation disagree"), m))

    if not pr["ok"] and not any(v[2].get("failing_input") for v in violations):
        # broken obligation and no failing input yet: search
        found = []
        if hasattr(mod, "search"):
            try:
                found = mod.search(ctx, pr["broken"])
            except ps.BuildError as e:
                found = []
        if found:
            for m in found:
                m["broken_obligation"] = pr["broken"]
                violations.append((m.get("key", "search"), m.get("what", ""), m))
        else:
            violations.append(("proof", "proof obligation / translation no longer checks: " + "; ".join(pr["broken"])[:800],
                               {"kind": "broken-obligation", "broken": pr["broken"], "failing_input": None}))

    # known findings
    kf = ps.known_findings()
    known = [k for k in kf.get("known", []) if k["property"] == pid]
    reported = []
    known_hit = []
    for key, what, obj in violations:
        hit = None
        for k in known:
            if re.search(k["match"], key):
                hit = k
        if hit:
            known_hit.append(hit)
        else:
            reported.append((key, what, obj))
    for k in known:
        # a listed finding is announced on every run (the refuted theorem is part of the development)
        print("KNOWN-FINDING: property=%s %s" % (pid, k["what"]))

    level = getattr(mod, "LEVEL", "proof")
    cov = {
        "obligations": pr["obligations"], "discharged": pr["discharged"] if pr["ok"] else min(pr["discharged"], max(pr["obligations"] - 1, 0)),
        "checker_cmd": pr["checker_cmd"],
        "trusted_base": TRUSTED_BASE + ["Print Assumptions: " + (" | ".join(pr["assumptions"]) or "n/a")] + getattr(mod, "TRUSTED_EXTRA", []),
        "theorems": getattr(mod, "THEOREMS", []),
        "evaluations": corr.get("evaluations", 0),
        "distinct_nontrivial": corr.get("distinct_nontrivial", 0),
        "rule": corr.get("rule", ""),
        "samples": corr.get("samples", [])[:8] or ["(no correspondence cases run)"],
        "traces_validated_against_impl": corr.get("traces_validated", corr.get("evaluations", 0)),
        "distribution": corr.get("distribution", {}),
        "variants": corr.get("variants", []),
        "explanation": getattr(mod, "EXPLANATION", ""),
        "broken": pr["broken"],
    }
    for k, v in corr.items():
        if k not in cov and k not in ("mismatches",):
            cov[k] = v
    wall = time.time() - t0
    ps.write_evidence(pid, tier, seed, level, cov, wall, violations=len(reported),
                      assumptions=getattr(mod, "ASSUMPTIONS", []))
    rc = 0
    # concrete failing inputs first; a disagreement without one is only reported when nothing concrete was found
    with_input = [r for r in reported if r[2].get("failing_input")]
    without = [r for r in reported if not r[2].get("failing_input")]
    reported = with_input[:10] if with_input else without[:3]
    for key, what, obj in reported:
        obj = dict(obj)
        obj.update(property=pid, seed=seed, tier=tier, what=what)
        path = ps.write_replay(pid, obj)
        tail = "" if obj.get("failing_input") else " no-failing-input-found"
        print("VIOLATION property=%s replay=%s%s" % (pid, path, tail))
        rc = 1
    ps.log("[%s] done in %.1fs: %s" % (pid, wall, "VIOLATIONS" if rc else "ok"))
    return rc


if __name__ == "__main__":
    sys.exit(main())

"""Independent python oracle (used only by the counterexample search and to
classify a disagreement as a violation of the *specification*): deterministic
Miller-Rabin for n < 2^64 and the derived next/prev prime and counting
functions.  Never evidence for a theorem."""
U64 = 1 << 64
MAX64 = U64 - 1
_SMALL = [2, 3, 5, 7, 11, 13, 17, 19, 23, 29, 31, 37]


def is_prime(n):
    if n < 2:
        return False
    for p in _SMALL:
        if n == p:
            return True
        if n % p == 0:
            return False
    d, r = n - 1, 0
    while d % 2 == 0:
        d //= 2
        r += 1
    for a in _SMALL:
        x = pow(a, d, n)
        if x == 1 or x == n - 1:
            continue
        for _ in range(r - 1):
            x = x * x % n
            if x == n - 1:
                break
        else:
            return False
    return True


def next_prime_ge(n):
    """least prime >= n, or None if it is >= 2^64"""
    while n < U64:
        if is_prime(n):
            return n
        n += 1
    return None


def prev_prime_lt(n):
    """greatest prime < n, or None"""
    n -= 1
    while n >= 2:
        if is_prime(n):
            return n
        n -= 1
    return None


def primes_between(a, b):
    return [n for n in range(max(a, 2), b + 1) if is_prime(n)]


def sieve_upto(n):
    bs = bytearray([1]) * (n + 1)
    bs[0:2] = b"\0\0"
    i = 2
    while i * i <= n:
        if bs[i]:
            bs[i * i::i] = bytearray(len(bs[i * i::i]))
        i += 1
    return bs


def segment_primes(a, b):
    """primes in [a, b] by a plain segmented sieve (b - a up to ~1e7, b < 2^64)"""
    if b < 2 or a > b:
        return []
    a = max(a, 2)
    import math
    r = math.isqrt(b)
    base = sieve_upto(r)
    seg = bytearray([1]) * (b - a + 1)
    for p in range(2, r + 1):
        if base[p]:
            s = max(p * p, (a + p - 1) // p * p)
            if s <= b:
                seg[s - a::p] = bytearray(len(seg[s - a::p]))
    return [a + i for i, v in enumerate(seg) if v]


KSHAPES = {
    2: [(0, 2)],
    3: [(0, 2, 6), (0, 4, 6)],
    4: [(0, 2, 6, 8)],
    5: [(0, 2, 6, 8, 12), (0, 4, 6, 10, 12)],
    6: [(0, 4, 6, 10, 12, 16)],
}


def ktuplets_between(k, a, b, primes=None):
    """the prime constellations of kind k (k = 2..6) all of whose members lie in [a, b], as tuples"""
    if primes is None:
        primes = segment_primes(a, b) if b < 2 * 10 ** 15 else primes_between(a, b)
    ps = set(primes)
    out = []
    for p in primes:
        for shape in KSHAPES[k]:
            if all((p + d) in ps for d in shape) and p + shape[-1] <= b:
                out.append(tuple(p + d for d in shape))
    return sorted(out)


def counts_between(a, b):
    """[#primes, #twins, ..., #sextuplets] in [a, b]"""
    primes = segment_primes(a, b) if b < 2 * 10 ** 15 else primes_between(a, b)
    return [len(primes)] + [len(ktuplets_between(k, a, b, primes)) for k in range(2, 7)]

#!/usr/bin/env python3
"""usage: tools/seed_matrix.py [seed-dir-name ...]   (default: every directory under seeded/)
For each seeded change: apply its patch to /repo's working tree, run the check of its property (plus the
extra checks given in EXTRA), record exit codes and VIOLATION lines in seeded/<name>/meta.json, revert /repo.
Nothing is ever committed to /repo.  Must not run concurrently with other checks (it edits /repo's tree)."""
import json, os, re, subprocess, sys, time
ROOT = os.path.dirname(os.path.dirname(os.path.abspath(__file__)))
EXTRA = {"C02_r1b": ["C04"], "C08_r1a": ["C04"], "C08_r1b": ["C09"], "C09_r1b": ["C09", "C10"], "C10_r1a": ["C04"], "C10_r1b": ["C11"], "C11_r1b": ["C11"],
         "C04_r1b": ["C09"], "C05_r1b": ["C09"], "C12_r1b": ["C13"], "C01_r2b": ["C02", "C04"], "C02_r2a": ["C01", "C04"], "C07_r2a": ["C03"], "C06_r1b": ["C11"], "C16_r2b": ["C15"], "C18_r2b": ["C16"], "C10_r2a": ["C09"], "C09_r2a": ["C04", "C05"], "C11_r2b": ["C06"],
         "C12_r3a": ["C04", "C01"], "C12_r3b": ["C04"], "C14_r3a": ["C09", "C13"], "C14_r3b": ["C07", "C09"], "C15_r3a": ["C16"], "C15_r3b": ["C05"], "C17_r3a": ["C02"], "C17_r3b": ["C13"], "C08_r3a": ["C15", "C16"], "C08_r3b": ["C04", "C12"],
         "C01_r4a": ["C12", "C04"], "C01_r4b": ["C12", "C04"], "C04_r4a": ["C01", "C05"], "C04_r4b": ["C08", "C12"], "C05_r4a": ["C04", "C10"], "C05_r4b": ["C09"],
         "C06_r4a": ["C11", "C10"], "C06_r4b": ["C11", "C10"], "C09_r4a": ["C04", "C07"], "C09_r4b": ["C05"], "C13_r4a": ["C03"], "C13_r4b": ["C07"],
         "C02_r5a": ["C03", "C01"], "C02_r5b": ["C12", "C04"], "C03_r5a": ["C02"], "C03_r5b": ["C11"], "C07_r5a": ["C11"], "C07_r5b": ["C09", "C10"],
         "C10_r5a": ["C03", "C11", "C01"], "C10_r5b": ["C01", "C06", "C07"], "C11_r5a": ["C13", "C06"], "C11_r5b": ["C03", "C10"], "C16_r5b": ["C07"], "C18_r5a": ["C07"], "C18_r5b": ["C07"]}
names = sys.argv[1:] or sorted(os.listdir(os.path.join(ROOT, "seeded")))
for name in names:
    d = os.path.join(ROOT, "seeded", name)
    meta = json.load(open(os.path.join(d, "meta.json")))
    pid = meta["property"]
    patch = os.path.join(d, "patch.diff")
    subprocess.run(["git", "-C", "/repo", "checkout", "--", "."], check=True)
    ok = subprocess.run(["git", "-C", "/repo", "apply", patch]).returncode == 0
    if not ok:
        ok = subprocess.run("cd /repo && patch -p1 -F3 --no-backup-if-mismatch -r - < %s" % patch, shell=True, stdout=subprocess.DEVNULL).returncode == 0
    runs = []
    if not ok:
        subprocess.run(["git", "-C", "/repo", "checkout", "--", "."])
        runs.append({"check": pid, "result": "patch no longer applies to the current tree (the code it changed was rewritten by a fix commit)"})
    else:
        for chk in [pid] + [c for c in EXTRA.get(name, []) if c != pid]:
            t0 = time.time()
            p = subprocess.run(["./check", chk, "--tier", "quick"], cwd=ROOT, stdout=subprocess.PIPE, stderr=subprocess.PIPE, text=True, timeout=3600)
            vio = [l for l in p.stdout.splitlines() if l.startswith("VIOLATION")]
            what = []
            for l in vio[:3]:
                m = re.search(r"replay=(\S+)", l)
                if m and os.path.exists(os.path.join(ROOT, m.group(1))):
                    what.append(json.load(open(os.path.join(ROOT, m.group(1)))).get("what", "")[:300])
            runs.append({"check": chk, "cmd": "./check %s --tier quick" % chk, "exit": p.returncode, "violations": len(vio),
                         "with_failing_input": sum(1 for l in vio if not l.endswith("no-failing-input-found")),
                         "first_reports": what, "seconds": round(time.time() - t0)})
        subprocess.run(["git", "-C", "/repo", "checkout", "--", "."], check=True)
    meta["checks_run"] = runs
    meta["checks_run_at"] = {"repo_head": subprocess.run(["git", "-C", "/repo", "rev-parse", "--short", "HEAD"], stdout=subprocess.PIPE, text=True).stdout.strip(),
                             "verif_head": subprocess.run(["git", "-C", ROOT, "rev-parse", "--short", "HEAD"], stdout=subprocess.PIPE, text=True).stdout.strip()}
    json.dump(meta, open(os.path.join(d, "meta.json"), "w"), indent=1)
    print(name, [(r["check"], r.get("exit"), r.get("with_failing_input")) for r in runs], flush=True)
# replay files written while /repo was modified are not evidence of the unchanged tree
subprocess.run("rm -rf %s/replay/*" % ROOT, shell=True)

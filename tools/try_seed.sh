#!/bin/bash
# usage: tools/try_seed.sh <seed name> <check id>... : apply the seeded change to /repo's working tree, run the quick checks, revert
cd /verif; s=$1; shift
git -C /repo checkout -- . && git -C /repo apply /verif/seeded/$s/patch.diff || exit 2
for c in "$@"; do timeout 3000 ./check $c --tier quick 2>&1 | grep -E "VIOLATION|done in" ; done
git -C /repo checkout -- .
rm -rf /verif/replay/*

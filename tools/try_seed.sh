#!/bin/bash
# usage: tools/try_seed.sh <patch.diff> <ID> [<ID>...] : apply a seeded change to /repo, run the checks, undo it
patch=$1; shift
cd /repo || exit 2
if ! git apply --check "$patch" 2>/dev/null; then
  if ! git apply --check -3 "$patch" 2>/dev/null && ! patch -p1 --dry-run -F3 < "$patch" >/dev/null 2>&1; then echo "PATCH DOES NOT APPLY: $patch"; exit 3; fi
  patch -p1 -F3 --no-backup-if-mismatch -r - < "$patch" >/dev/null || { git -C /repo checkout -- .; echo "PATCH REJECTED: $patch"; exit 3; }
else
  git apply "$patch"
fi
git -C /repo diff --stat | tail -1
cd /verif
for id in "$@"; do
  out=$(timeout 3000 ./check $id 2>/tmp/try_seed_err.txt); rc=$?
  echo "== $id rc=$rc"; echo "$out" | grep -E "VIOLATION|KNOWN" | head -5
  tail -2 /tmp/try_seed_err.txt
done
git -C /repo checkout -- . ; git -C /repo status --short | grep -v _build | head

#!/bin/bash
# usage: confirm_seed.sh <seed dir with patch.diff + demo.*> <base commit> -> prints a one-line JSON result
# Confirms in a scratch worktree (outside /repo and /verif): the suite passes with the change, the demo
# fails with it and passes without it.  The worktree is removed afterwards.
sd=$1; base=$2; name=$(echo $sd | sed "s#.*/seedout[2345]\?/##; s#/#_#g")
wt=/tmp/confirm/$name
rm -rf $wt; mkdir -p /tmp/confirm
git -C /repo worktree add -f $wt $base >/dev/null 2>&1 || { echo "{\"seed\":\"$name\",\"error\":\"worktree\"}"; exit 1; }
cd $wt
build() { cmake -G Ninja -B build -DBUILD_TESTS=ON -DCMAKE_BUILD_TYPE=RelWithDebInfo -DCMAKE_CXX_FLAGS=-Wno-error . >/dev/null 2>&1 && cmake --build build -j4 >/dev/null 2>&1; }
rundemo() {
  if [ -f $sd/demo.sh ]; then timeout 900 bash $sd/demo.sh $wt/build/primesieve >/dev/null 2>&1; echo $?; return; fi
  extra=""; grep -q "fsanitize" $sd/demo.cpp && { g++ -O1 -g -std=c++17 -fsanitize=address,undefined -fno-sanitize-recover=all -DENABLE_ASSERT -I$wt/include $sd/demo.cpp $wt/src/*.cpp $wt/src/arch/x86/*.cpp -lpthread -o $wt/demo_bin >/dev/null 2>&1 || { echo build-fail; return; }; timeout 900 $wt/demo_bin >/dev/null 2>&1; echo $?; return; }
  wrapf=""; grep -q -- "--wrap=malloc" $sd/demo.cpp && wrapf="-Wl,--wrap=malloc,--wrap=realloc,--wrap=free"
  stdf="-std=c++17"; grep -q "quadmath" $sd/demo.cpp && { stdf="-std=gnu++17"; wrapf="$wrapf -lquadmath"; }
  g++ -O2 $stdf -I$wt/include -I$wt/src $sd/demo.cpp $wt/build/libprimesieve.a -lpthread $wrapf -o $wt/demo_bin >/dev/null 2>&1 || { echo build-fail; return; }
  timeout 900 $wt/demo_bin $wt/build/primesieve >/dev/null 2>&1; echo $?
}
git apply $sd/patch.diff 2>/dev/null || patch -p1 -F3 --no-backup-if-mismatch -r - < $sd/patch.diff >/dev/null 2>&1 || { cd /; git -C /repo worktree remove --force $wt; echo "{\"seed\":\"$name\",\"error\":\"patch does not apply at $base\"}"; exit 1; }
build || { cd /; git -C /repo worktree remove --force $wt; echo "{\"seed\":\"$name\",\"error\":\"build\"}"; exit 1; }
suite=$(timeout 2400 ctest --test-dir build -j4 --timeout 900 2>&1 | grep -E "tests passed|tests failed" | head -1)
with=$(rundemo)
git checkout -- . ; build
without=$(rundemo)
cd /; git -C /repo worktree remove --force $wt
echo "{\"seed\":\"$name\",\"base\":\"$base\",\"suite_with_change\":\"$suite\",\"demo_exit_with_change\":\"$with\",\"demo_exit_without\":\"$without\"}"

(** C17/C12: sizes of the iterator's prime buffer (src/PrimeGenerator.cpp, initNextPrimes /
    fillNextPrimes).  [pcu] is the value of primeCountUpper(start, stop) (double arithmetic in the
    code): an arbitrary number here.  No proofs. *)
From Coq Require Import NArith List Bool.
From PS Require Import Spec.Primes Gen.Tables Model.Pmath Model.PrimeGen.
Local Open Scope N_scope.

(** std::size_t maxSize = 1 << 10 *)
Definition next_max_size : N := 1024.

(** the size the forward buffer is resized to (if larger than its current size), and *size *)
Definition next_buffer (pcu start stop : N) : N * N :=
  if start <=? maxCachedPrime then
    let size := getStopIdx stop - getStartIdx start in
    if stop <? maxCachedPrime + 2 then (size, size)
    else let minSize := size + 64 in
         let pix := inBetween minSize (pcu + 64) next_max_size in
         (N.max size pix, size)
  else (inBetween 64 (pcu + 64) next_max_size, 0).

(** fillNextPrimes_default: the fill loop continues while i <= maxSize - 64 and writes at most 64
    primes per round, starting at index i: the highest index written is i + 63 *)
Definition fill_may_continue (i maxSize : N) : bool := i <=? maxSize - 64.

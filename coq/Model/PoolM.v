From Coq Require Import NArith List Bool.
Local Open Scope N_scope.

(** src/MemoryPool.cpp: the bucket pool's bookkeeping.  Buckets are counted, not represented:
    [stock] = length of the free list stock_, [inuse] = buckets handed out by addBucket and not yet
    returned by freeBucket, [count] = count_, [nalloc] = memory_.size(), [total] = buckets of all
    allocations, [peak] = largest [inuse] so far.  [maxCount] = MAX_ALLOC_BYTES / sizeof(Bucket)
    (2048 with the pinned constants, regenerated into Gen/Tables.v).  std::align may consume part
    of the first bucket of an allocation: then one bucket less is usable ([waste], an oracle bit
    chosen by the address the allocator returns). *)
Record pool := { stock : N; inuse : N; count : N; nalloc : N; total : N; peak : N }.
Definition pool_init : pool := {| stock := 0; inuse := 0; count := 0; nalloc := 0; total := 0; peak := 0 |}.

(** updateAllocCount *)
Definition update_alloc_count (maxCount allocationNr count : N) : N :=
  if allocationNr =? 1 then 73
  else if allocationNr =? 2 then N.max 16 (count / 4)
  else N.min (count + count / 8) maxCount.

Inductive pool_op := PAdd (waste : bool) | PFree.

Definition pool_step (maxCount : N) (p : pool) (o : pool_op) : pool :=
  match o with
  | PAdd waste =>
      let p1 :=
        if stock p =? 0 then
          let c := update_alloc_count maxCount (nalloc p + 1) (count p) in
          let c' := if waste then c - 1 else c in
          {| stock := c'; inuse := inuse p; count := c'; nalloc := nalloc p + 1; total := total p + c'; peak := peak p |}
        else p in
      {| stock := stock p1 - 1; inuse := inuse p1 + 1; count := count p1; nalloc := nalloc p1;
         total := total p1; peak := N.max (peak p1) (inuse p1 + 1) |}
  | PFree => (* callers only free buckets they hold *)
      if inuse p =? 0 then p
      else {| stock := stock p + 1; inuse := inuse p - 1; count := count p; nalloc := nalloc p; total := total p; peak := peak p |}
  end.

Definition pool_run (maxCount : N) (ops : list pool_op) : pool := fold_left (pool_step maxCount) ops pool_init.

(** L9 hand model of the piece arithmetic of ParallelSieve (src/ParallelSieve.cpp):
    align, idealNumThreads, getThreadDistance and the (start, stop) of the i-th
    piece computed by a worker.  uint64_t wrap-around is written explicitly
    ([wrap]).  isqrt is modelled by its specification N.sqrt.  No proofs here. *)
From Coq Require Import NArith List Bool.
From PS Require Import Spec.Primes Model.Pmath.
Import ListNotations.
Local Open Scope N_scope.

Definition wrap (x : N) : N := x mod U64.

(** uint64_t n32 = checkedAdd(n, 32); if (n32 >= stop_) return stop_; else return n32 - n % 30; *)
Definition align (stop n : N) : N :=
  let n32 := checkedAdd n 32 in
  if stop <=? n32 then stop else n32 - n mod 30.

(** [minDist]: config::MIN_THREAD_DISTANCE (or the hook override); [thr]: the
    thread threshold max(isqrt(stop)/5, MIN_THREAD_DISTANCE) (or the override) *)
Definition threshold (minDist stop : N) : N := N.max (N.sqrt stop / 5) minDist.

Definition idealNumThreads (thr numThreads start stop : N) : N :=
  if stop <? start then 1
  else inBetween 1 ((stop - start) / thr) numThreads.

Definition getThreadDistance (minDist threads start stop : N) : N :=
  let dist := stop - start in
  let balanced := wrap (N.sqrt stop * 200) in
  let unbalanced := dist / threads in
  let fastest := N.min balanced unbalanced in
  let iters := dist / fastest in
  let iters := (iters / threads) * threads in
  let iters := N.max iters threads in
  let threadDist := (dist - 1) / iters + 1 in
  let threadDist := N.max threadDist minDist in
  wrap (threadDist + (30 - threadDist mod 30)).

(** number of pieces: iters = ((dist - 1) / threadDist) + 1 *)
Definition numPieces (threadDist start stop : N) : N := (stop - start - 1) / threadDist + 1.

(** the piece a worker computes for index i *)
Definition piece (threadDist start stop i : N) : N * N :=
  let s := wrap (start + wrap (threadDist * i)) in
  let e := align stop (checkedAdd s threadDist) in
  let s' := if start <? s then wrap (align stop s + 1) else s in
  (s', e).

Definition pieces (threadDist start stop : N) : list (N * N) :=
  map (piece threadDist start stop) (map N.of_nat (seq 0 (N.to_nat (numPieces threadDist start stop)))).

(** the whole plan of ParallelSieve::sieve(): None = single threaded *)
Definition plan (minDist thr numThreads start stop : N) : option (list (N * N)) :=
  if stop <? start then Some []
  else let threads := idealNumThreads thr numThreads start stop in
       if threads =? 1 then None
       else Some (pieces (getThreadDistance minDist threads start stop) start stop).

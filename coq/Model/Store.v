(** Hand model of store_primes / store_n_primes (include/primesieve/StorePrimes.hpp)
    over the block interface of primesieve::iterator: [blocks] is the sequence of
    blocks successive generate_next_primes() calls deliver for iterator(start, hint);
    when it is exhausted the next call throws ("cannot generate primes > 2^64").
    [maxV] = std::numeric_limits<V>::max().  The result carries the vector. *)
From Coq Require Import NArith List Bool.
From PS Require Import Spec.Primes.
Import ListNotations.
Local Open Scope N_scope.

Inductive sres := SOk (v : list N) | SThrow (v : list N) | SCrash.

(** for (; it.primes_[it.size_ - 1] <= limit; it.generate_next_primes()) primes.insert(whole block);
    for (i = 0; it.primes_[i] <= limit; i++) primes.push_back(it.primes_[i]); *)
Fixpoint takewhile_le (limit : N) (b : list N) : option (list N) :=
  match b with
  | [] => None                                   (* reading past the block: undefined behaviour *)
  | x :: b' => if x <=? limit then option_map (cons x) (takewhile_le limit b') else Some []
  end.

Fixpoint store_blocks (limit : N) (blocks : list (list N)) (v : list N) : sres :=
  match blocks with
  | [] => SThrow v                               (* generate_next_primes() throws *)
  | b :: rest =>
      if last b 0 <=? limit then store_blocks limit rest (v ++ b)
      else match takewhile_le limit b with Some l => SOk (v ++ l) | None => SCrash end
  end.

Definition store_primes (maxV start stop : N) (blocks : list (list N)) (v0 : list N) : sres :=
  if stop <? start then SOk v0
  else if MAXPRIME64 <? start then SOk v0
  else if maxV <? stop then SThrow v0
  else
    let limit := N.min stop (MAXPRIME64 - 1) in
    match store_blocks limit blocks v0 with
    | SOk v => SOk (if MAXPRIME64 <=? stop then v ++ [MAXPRIME64] else v)
    | r => r
    end.

(** while (n >= it.size_) { check last; insert block; n -= size; if (n == 0) return; next block }
    check primes_[n-1]; push the first n *)
Fixpoint store_n_blocks (maxV : N) (n : nat) (blocks : list (list N)) (v : list N) : sres :=
  match blocks with
  | [] => SThrow v
  | b :: rest =>
      if Nat.leb (length b) n then
        if maxV <? last b 0 then SThrow v
        else if Nat.eqb (n - length b) 0 then SOk (v ++ b)
        else store_n_blocks maxV (n - length b) rest (v ++ b)
      else
        if maxV <? nth (n - 1) b 0 then SThrow v else SOk (v ++ firstn n b)
  end.

Definition store_n_primes (maxV : N) (n : nat) (blocks : list (list N)) (v0 : list N) : sres :=
  match n with O => SOk v0 | _ => store_n_blocks maxV n blocks v0 end.

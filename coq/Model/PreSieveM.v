(** L3 model of PreSieve::preSieve (src/PreSieve.cpp) over the 16 tables of the source (Gen/PreSieveTables.v):
    byte j of a segment based at segmentLow (a multiple of 30) is the AND of preSieveTables[t][(segmentLow/30 + j) mod size_t]
    (the copy loops with wrap-around implement this modular indexing), and for segmentLow <= 163 the first bytes are
    overwritten with primeBits (the pre-sieving primes themselves are restored).  No proofs. *)
From Coq Require Import NArith List Bool.
From PS Require Import Gen.Tables Gen.PreSieveTables Model.Count.
Import ListNotations.
Local Open Scope N_scope.

Definition table_byte (t : list N) (k : N) : N := nth (N.to_nat (k mod N.of_nat (length t))) t 255.
(** the AND of all tables at absolute byte index k (the byte of the numbers 30k+7 .. 30k+31) *)
Definition presieve_and (k : N) : N := fold_left N.land (map (fun t => table_byte t k) preSieveTables) 255.
(** byte j of the segment after preSieve() *)
Definition presieve_byte (segmentLow j : N) : N :=
  let i := segmentLow / 30 in
  if (segmentLow <=? presieve_maxprime) && (i + j <? N.of_nat (length primeBits))
  then nth (N.to_nat (i + j)) primeBits 255
  else presieve_and (i + j).
Definition presieve_segment (segmentLow size : N) : list N :=
  map (fun j => presieve_byte segmentLow (N.of_nat j)) (seq 0 (N.to_nat size)).

(** C13: allocation failure in the iterator.  All allocations of an iterator operation
    happen inside generate_next_primes / generate_prev_primes (IteratorData, prime buffer,
    sieve, sieving primes, bucket pool).  A failure anywhere in there throws std::bad_alloc;
    the catch block (fix commit) rolls the iterator back to the position it had before the
    call.  [fault = true] means: this operation's refill hits an allocation failure (at any of
    its allocation points - they all have the same effect on the iterator). *)
From Coq Require Import NArith List Bool.
From PS Require Import Spec.Primes Spec.Cursor Model.Pmath Model.Iterator.
Import ListNotations.
Local Open Scope N_scope.

Definition first_opt (l : list N) : option N := match l with [] => None | x :: _ => Some x end.

Section Fault.
  Variable nextDist : N -> N -> N.
  Variable prevDist : N -> N -> N.
  Variable maxGap : N -> N.
  Variable kernel : N -> N -> list N.
  Variable cut : list N -> list (list N).

  Definition step_f (fault : bool) (fuel : nat) (it : iter) (o : op) : res (iter * out) :=
    match o with
    | Next =>
        if Nat.ltb (S (it_i it)) (length (it_buf it)) then step nextDist prevDist maxGap kernel cut fuel it o
        else if fault then Done (rollback it (last_opt (it_buf it)), Err)
        else step nextDist prevDist maxGap kernel cut fuel it o
    | Prev =>
        match it_i it with
        | O => if fault then Done (rollback it (first_opt (it_buf it)), Err)
               else step nextDist prevDist maxGap kernel cut fuel it o
        | S _ => step nextDist prevDist maxGap kernel cut fuel it o
        end
    | _ => step nextDist prevDist maxGap kernel cut fuel it o      (* jump_to / clear / move are noexcept and do not allocate *)
    end.

  Fixpoint run_f (fuel : nat) (it : iter) (os : list (op * bool)) : res (iter * list out) :=
    match os with
    | [] => Done (it, [])
    | (o, f) :: os' =>
        match step_f f fuel it o with
        | Done (it', r) =>
            match run_f fuel it' os' with
            | Done (it'', rs) => Done (it'', r :: rs)
            | x => x
            end
        | Thrown (it', r) => Thrown (it', [r])
        | OutOfFuel => OutOfFuel
        end
    end.
End Fault.

(** the specification with faults: a faulted call reports an error and leaves the cursor where it was *)
Definition cursor_step_f (c : cursor) (o : op) (c' : cursor) (r : out) : Prop :=
  cursor_step c o c' r \/ ((o = Next \/ o = Prev) /\ r = Err /\ c' = c).

Inductive cursor_run_f : cursor -> list op -> list out -> Prop :=
| runf_nil c : cursor_run_f c [] []
| runf_cons c o c' r os rs : cursor_step_f c o c' r -> cursor_run_f c' os rs -> cursor_run_f c (o :: os) (r :: rs).

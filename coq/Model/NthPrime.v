(** Hand model of PrimeSieve::nthPrime / negativeNthPrime (src/nthPrime.cpp).
    Parameters (Section variables):
    - [primePiApprox], [nthPrimeApprox], [avgGap]: the floating point estimates;
      arbitrary functions (the result must not depend on them);
    - [cnt a b]: countPrimes(a, b)   (specified by C04);
    - [fwd s k]: the value of the k-th next_prime() call on iterator(s), None if it throws (C01);
    - [bwd s k]: the value of the k-th prev_prime() call on iterator(s)   (C02).
    n is a [Z] in the int64_t range, start an [N] < 2^64.  No proofs here. *)
From Coq Require Import ZArith NArith List Bool.
From PS Require Import Spec.Primes Model.Pmath.
Local Open Scope N_scope.

Inductive nres := NOk (p : N) | NThrow.
Definition max_n : N := 425656284035217743.

Section Nth.
  Variables primePiApprox nthPrimeApprox avgGap : N -> N.
  Variable cnt : N -> N -> N.
  Variable fwd : N -> N -> option N.
  Variable bwd : N -> N -> N.

  (** n >= 1: the n-th prime > start *)
  Definition nth_pos (n start : N) : nres :=
    if max_n <? n then NThrow else
    let nApprox := N.min (checkedAdd (primePiApprox start) n) max_n in
    let pa := N.max (nthPrimeApprox nApprox) start in
    let '(count, start1) :=
      if N.sqrt pa / 10 <? pa - start
      then let s1 := checkedAdd start 1 in
           let pa' := N.max s1 pa in
           (cnt s1 pa', pa')
      else (0, start) in
    if count <? n
    then match fwd (checkedAdd start1 1) (n - count) with Some p => NOk p | None => NThrow end
    else let p := bwd start1 (count - n + 1) in
         if p =? 0 then NThrow else NOk p.

  (** m = |n| >= 1: the m-th prime < start *)
  Definition nth_neg (m start : N) : nres :=
    if start <=? m then NThrow
    else if max_n <? m then NThrow else
    let nApprox := N.min (checkedSub (primePiApprox start) m) max_n in
    let pa := N.min (nthPrimeApprox nApprox) start in
    let '(count, start1) :=
      if N.sqrt start / 10 <? start - pa
      then let s1 := checkedSub start 1 in
           let pa' := N.min pa s1 in
           (cnt pa' s1, pa')
      else (0, start) in
    if m <=? count
    then match fwd start1 (count - m + 1) with Some p => NOk p | None => NThrow end
    else let p := bwd (checkedSub start1 1) (m - count) in
         if p =? 0 then NThrow else NOk p.

  Definition nth_prime (n : Z) (start : N) : nres :=
    match n with
    | Z0 => nth_pos 1 (checkedSub start 1)           (* 1st prime >= start *)
    | Zpos k => nth_pos (Npos k) start
    | Zneg k => if (Z.eqb n (-9223372036854775808))%Z then NThrow   (* -n is not representable *)
                else nth_neg (Npos k) start
    end.
End Nth.

(** the documented result *)
Definition nth_spec (n : Z) (start : N) : option N :=
  match n with
  | Z0 => nth_error (primes_between start MAX64) 0
  | Zpos k => nth_error (primes_between (start + 1) MAX64) (N.to_nat (Npos k - 1))
  | Zneg k => nth_error (rev (primes_between 0 (start - 1))) (N.to_nat (Npos k - 1))
  end.

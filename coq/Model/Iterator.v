(** L7 hand model of primesieve::iterator / primesieve_iterator
    (src/iterator.cpp, src/iterator-c.cpp, include/primesieve/iterator.h[pp],
    src/IteratorHelper.cpp).  No proofs in this file.

    Parameters of the model (Section variables):
    - [nextDist], [prevDist], [maxGap]: the floating point chunk-length
      heuristics getNextDist / getPrevDist / maxPrimeGap.  They are arbitrary
      functions: the theorems hold for every choice.
    - [kernel a b]: the primes the sieve (PrimeGenerator) finds in [a, b];
      the theorems assume [kernel a b = primes_between a b] (hypothesis
      [kernel_ok], the statement of the kernel theorem).
    - [cut]: how fillNextPrimes cuts a chunk's primes into blocks (depends on
      buffer capacity and word layout); arbitrary, blocks non-empty. *)
From Coq Require Import NArith List Bool.
From PS Require Import Spec.Primes Spec.Cursor Model.Pmath.
Import ListNotations.
Local Open Scope N_scope.

(** PrimeGenerator used in forward direction: the blocks not yet handed out,
    and whether its stop is 2^64-1 (then exhaustion throws). *)
Record gen := { g_blocks : list (list N); g_top : bool }.

(** struct IteratorData *)
Record idata := { d_stop : N; d_dist : N; d_incl : bool; d_gen : option gen }.

(** struct iterator; [it_buf] is the valid part primes_[0..size_) of the buffer *)
Record iter := { it_i : nat; it_start : N; it_hint : N; it_buf : list N; it_mem : option idata }.

Inductive res (A : Type) := Done (a : A) | Thrown (a : A) | OutOfFuel.
Arguments Done {A}. Arguments Thrown {A}. Arguments OutOfFuel {A}.

Definition fresh_iter (start hint : N) : iter :=
  {| it_i := 0; it_start := start; it_hint := hint; it_buf := []; it_mem := None |}.

Definition get_data (it : iter) : idata :=
  match it_mem it with
  | Some d => d
  | None => {| d_stop := it_start it; d_dist := 0; d_incl := true; d_gen := None |}
  end.

(** jump_to (C++ and C) *)
Definition jump_to (it : iter) (s h : N) : iter :=
  {| it_i := 0; it_start := s; it_hint := h; it_buf := [];
     it_mem := match it_mem it with
               | None => None
               | Some _ => Some {| d_stop := s; d_dist := 0; d_incl := true; d_gen := None |}
               end |}.

(** primesieve_skipto (C only): always has IteratorData afterwards *)
Definition skipto (it : iter) (s h : N) : iter :=
  {| it_i := 0; it_start := s; it_hint := h; it_buf := [];
     it_mem := Some {| d_stop := s; d_dist := 0; d_incl := false; d_gen := None |} |}.

Section Iterator.
  Variable nextDist : N -> N -> N.
  Variable prevDist : N -> N -> N.
  Variable maxGap : N -> N.
  Variable kernel : N -> N -> list N.
  Variable cut : list N -> list (list N).

  (** PrimeGenerator(a, b) as seen through fillNextPrimes / fillPrevPrimes *)
  Definition new_gen (a b : N) : gen := {| g_blocks := cut (kernel a b); g_top := MAX64 <=? b |}.
  Definition prev_block (a b : N) : list N := (if a <=? 2 then [0] else []) ++ kernel a b.

  (** IteratorHelper::updateNext: returns (start, stop, dist) *)
  Definition updateNext (hint : N) (d : idata) : N * N * N :=
    let start := if d_incl d then d_stop d else checkedAdd (d_stop d) 1 in
    let dist := nextDist start (d_dist d) in
    let stop := if (start <=? hint) && (hint <? MAX64)
                then checkedAdd hint (maxGap hint)
                else checkedAdd start dist in
    (start, stop, dist).

  (** IteratorHelper::updatePrev: returns (start, stop, dist) *)
  Definition updatePrev (start hint : N) (d : idata) : N * N * N :=
    let stop := if d_incl d then start else checkedSub start 1 in
    let dist := prevDist stop (d_dist d) in
    let start1 := checkedSub stop dist in
    let start2 := if (start1 <=? hint) && (hint <=? stop)
                  then checkedSub hint (maxGap hint) else start1 in
    (start2, stop, dist).

  (** the state an exception leaves behind (after the repair of
      generate_next_primes/generate_prev_primes): positioned exactly where the
      iterator was before the call, everything else released. *)
  Definition rollback (it0 : iter) (pos : option N) : iter :=
    match pos with
    | Some v => {| it_i := 0; it_start := v; it_hint := it_hint it0; it_buf := [];
                   it_mem := Some {| d_stop := v; d_dist := 0; d_incl := false; d_gen := None |} |}
    | None => let d := get_data it0 in
              {| it_i := 0; it_start := it_start it0; it_hint := it_hint it0; it_buf := [];
                 it_mem := Some {| d_stop := d_stop d; d_dist := 0; d_incl := d_incl d; d_gen := None |} |}
    end.

  (** the loop of iterator::generate_next_primes *)
  Fixpoint gen_next_loop (fuel : nat) (start hint : N) (d : idata) : res (N * list N * idata) :=
    match fuel with
    | O => OutOfFuel
    | S fuel' =>
        let '(start, d, g) :=
          match d_gen d with
          | Some g => (start, d, g)
          | None => let '(s, stop, dist) := updateNext hint d in
                    (s, {| d_stop := stop; d_dist := dist; d_incl := false; d_gen := None |},
                     new_gen s stop)
          end in
        match g_blocks g with
        | b :: rest =>
            Done (start, b, {| d_stop := d_stop d; d_dist := d_dist d; d_incl := d_incl d;
                               d_gen := Some {| g_blocks := rest; g_top := g_top g |} |})
        | [] =>
            if g_top g then Thrown (start, [], d)   (* "cannot generate primes > 2^64" *)
            else gen_next_loop fuel' start hint
                   {| d_stop := d_stop d; d_dist := d_dist d; d_incl := d_incl d; d_gen := None |}
        end
    end.

  Definition last_opt (l : list N) : option N :=
    match l with [] => None | _ => Some (last l 0) end.

  Definition generate_next_primes (fuel : nat) (it : iter) : res iter :=
    match gen_next_loop fuel (it_start it) (it_hint it) (get_data it) with
    | Done (start, b, d) =>
        Done {| it_i := 0; it_start := start; it_hint := it_hint it; it_buf := b; it_mem := Some d |}
    | Thrown _ => Thrown (rollback it (last_opt (it_buf it)))
    | OutOfFuel => OutOfFuel
    end.

  (** the do/while loop of iterator::generate_prev_primes *)
  Fixpoint gen_prev_loop (fuel : nat) (start hint : N) (d : idata) : res (N * list N * idata) :=
    match fuel with
    | O => OutOfFuel
    | S fuel' =>
        let '(s, stop, dist) := updatePrev start hint d in
        let d' := {| d_stop := stop; d_dist := dist; d_incl := false; d_gen := None |} in
        match prev_block s stop with
        | [] => gen_prev_loop fuel' s hint d'
        | b => Done (s, b, d')
        end
    end.

  Definition generate_prev_primes (fuel : nat) (it : iter) : res iter :=
    let d := get_data it in
    let '(start, d) :=
      match d_gen d with
      | Some _ => (hd 0 (it_buf it),
                   {| d_stop := d_stop d; d_dist := d_dist d; d_incl := d_incl d; d_gen := None |})
      | None => (it_start it, d)
      end in
    match gen_prev_loop fuel start (it_hint it) d with
    | Done (s, b, d') =>
        Done {| it_i := length b; it_start := s; it_hint := it_hint it; it_buf := b; it_mem := Some d' |}
    | Thrown _ => Thrown it   (* unreachable: nothing throws in the fault-free model *)
    | OutOfFuel => OutOfFuel
    end.

  Definition with_i (it : iter) (i : nat) : iter :=
    {| it_i := i; it_start := it_start it; it_hint := it_hint it; it_buf := it_buf it; it_mem := it_mem it |}.

  (** i_ += 1; if (i_ >= size_) generate_next_primes(); return primes_[i_]; *)
  Definition next_prime (fuel : nat) (it : iter) : res (iter * out) :=
    let i' := S (it_i it) in
    if Nat.ltb i' (length (it_buf it))
    then Done (with_i it i', Val (nth i' (it_buf it) 0))
    else match generate_next_primes fuel it with
         | Done it' => Done (it', Val (nth 0 (it_buf it') 0))
         | Thrown it' => Done (it', Err)
         | OutOfFuel => OutOfFuel
         end.

  (** if (i_ == 0) generate_prev_primes(); i_ -= 1; return primes_[i_]; *)
  Definition prev_prime (fuel : nat) (it : iter) : res (iter * out) :=
    match it_i it with
    | O => match generate_prev_primes fuel it with
           | Done it' => let i' := pred (it_i it') in Done (with_i it' i', Val (nth i' (it_buf it') 0))
           | Thrown it' => Done (it', Err)
           | OutOfFuel => OutOfFuel
           end
    | S i' => Done (with_i it i', Val (nth i' (it_buf it) 0))
    end.

  Definition step (fuel : nat) (it : iter) (o : op) : res (iter * out) :=
    match o with
    | Next => next_prime fuel it
    | Prev => prev_prime fuel it
    | JumpTo s h => Done (jump_to it s h, NoOut)
    | Skipto s h => Done (skipto it s h, NoOut)
    | Clear => Done (jump_to it 0 MAX64, NoOut)
    | MoveRoundTrip => Done (it, NoOut)
    | MovedFrom => Done (fresh_iter 0 MAX64, NoOut)
    end.

  Fixpoint run (fuel : nat) (it : iter) (os : list op) : res (iter * list out) :=
    match os with
    | [] => Done (it, [])
    | o :: os' =>
        match step fuel it o with
        | Done (it', r) =>
            match run fuel it' os' with
            | Done (it'', rs) => Done (it'', r :: rs)
            | Thrown x => Thrown x
            | OutOfFuel => OutOfFuel
            end
        | Thrown (it', r) => Thrown (it', [r])
        | OutOfFuel => OutOfFuel
        end
    end.
End Iterator.

(** a concrete block cutter: pieces of [n+1] elements *)
Fixpoint chunks_aux (n : nat) (k : nat) (cur : list N) (l : list N) : list (list N) :=
  match l with
  | [] => match cur with [] => [] | _ => [rev cur] end
  | x :: l' => match k with
               | O => rev (x :: cur) :: chunks_aux n n [] l'
               | S k' => chunks_aux n k' (x :: cur) l'
               end
  end.
Definition chunks (n : nat) (l : list N) : list (list N) := chunks_aux n n [] l.

(** Hand model of the C binding's error contract (src/api-c.cpp, src/iterator-c.cpp,
    include/primesieve/iterator.h).
    (1) every try/catch wrapper maps the outcome of the wrapped C++ call to
        (return value, errno): success leaves errno alone, any exception gives
        PRIMESIEVE_ERROR / NULL (with *size = 0) and errno = EDOM;
    (2) primesieve_iterator: like the C++ iterator model, but an exception inside
        generate_next_primes puts the iterator into the error state
        (clear; buffer = [PRIMESIEVE_ERROR]; stop = PRIMESIEVE_ERROR; is_error = 1). *)
From Coq Require Import NArith List Bool.
From PS Require Import Spec.Primes Spec.Cursor Model.Pmath Model.Iterator.
Import ListNotations.
Local Open Scope N_scope.

Definition PRIMESIEVE_ERROR : N := MAX64.
Definition EDOM : N := 33.

Inductive outcome (A : Type) := Returns (a : A) | Throws.
Arguments Returns {A}. Arguments Throws {A}.

(** uint64_t-valued wrappers (count_*, nth_prime): (value, errno after the call) *)
Definition wrap_u64 (r : outcome N) (errno : N) : N * N :=
  match r with Returns v => (v, errno) | Throws => (PRIMESIEVE_ERROR, EDOM) end.

(** array-valued wrappers: (pointer (None = NULL), *size, errno) *)
Definition wrap_array (r : outcome (list N)) (errno : N) : option (list N) * N * N :=
  match r with
  | Returns [] => (None, 0, errno)                                   (* malloc_vector::release() of an empty vector *)
  | Returns l => (Some l, N.of_nat (length l), errno)
  | Throws => (None, 0, EDOM)
  end.

(** the 14 type codes and the maximum of the element type they stand for (LP64) *)
Definition type_max (code : N) : option N :=
  match code with
  | 0 | 8 => Some 32767 | 1 | 9 => Some 65535
  | 2 | 10 => Some 2147483647 | 3 | 11 => Some 4294967295
  | 4 | 6 | 12 => Some 9223372036854775807 | 5 | 7 | 13 => Some 18446744073709551615
  | _ => None
  end.

(* ---------- primesieve_iterator ---------- *)
Record c_iter := { ci : iter; ci_error : bool }.

(** the state the catch block of primesieve_generate_next_primes establishes (setErrorState after
    primesieve_clear): start = stop = PRIMESIEVE_ERROR, primes = { PRIMESIEVE_ERROR } *)
Definition error_iter : iter :=
  {| it_i := 0; it_start := PRIMESIEVE_ERROR; it_hint := MAX64; it_buf := [PRIMESIEVE_ERROR];
     it_mem := Some {| d_stop := PRIMESIEVE_ERROR; d_dist := 0; d_incl := true; d_gen := None |} |}.
(** the same when the IteratorData could not even be allocated *)
Definition error_iter_nomem : iter :=
  {| it_i := 0; it_start := PRIMESIEVE_ERROR; it_hint := MAX64; it_buf := [PRIMESIEVE_ERROR]; it_mem := None |}.

Section CIter.
  Variable nextDist : N -> N -> N.
  Variable prevDist : N -> N -> N.
  Variable maxGap : N -> N.
  Variable kernel : N -> N -> list N.
  Variable cut : list N -> list (list N).

  (** primesieve_next_prime: it->i += 1; if (it->i >= it->size) primesieve_generate_next_primes(it); return it->primes[it->i]; *)
  Definition c_next_prime (fuel : nat) (c : c_iter) : res (c_iter * N) :=
    let it := ci c in
    let i' := S (it_i it) in
    if Nat.ltb i' (length (it_buf it))
    then Done ({| ci := with_i it i'; ci_error := ci_error c |}, nth i' (it_buf it) 0)
    else match gen_next_loop nextDist maxGap kernel cut fuel (it_start it) (it_hint it) (get_data it) with
         | Done (start, b, d) =>
             Done ({| ci := {| it_i := 0; it_start := start; it_hint := it_hint it; it_buf := b; it_mem := Some d |};
                      ci_error := ci_error c |}, nth 0 b 0)
         | Thrown _ => Done ({| ci := error_iter; ci_error := true |}, PRIMESIEVE_ERROR)
         | OutOfFuel => OutOfFuel
         end.

  Fixpoint c_next_n (fuel : nat) (k : nat) (c : c_iter) : res (c_iter * list N) :=
    match k with
    | O => Done (c, [])
    | S k' => match c_next_prime fuel c with
              | Done (c', v) => match c_next_n fuel k' c' with
                                | Done (c'', vs) => Done (c'', v :: vs)
                                | r => r
                                end
              | Thrown x => Thrown (fst x, [snd x])
              | OutOfFuel => OutOfFuel
              end
    end.
End CIter.

(** L3 model of SievingPrimes::tinySieve (src/SievingPrimes.cpp): the byte table of the primes up to stop^(1/4) from which
    SievingPrimes takes the sieving primes of its own Erat:

      n = isqrt(stop_); tinySieve_.resize(n + 1); fill(true);
      for (i = 3; i * i <= n; i += 2) if (tinySieve_[i]) for (j = i * i; j <= n; j += i * 2) tinySieve_[j] = false;

    and of the guard / the reads:   if (start * start <= stop) tinySieve();
                                    for (i = tinyIdx_; i * i <= high; i += 2) if (tinySieve_[i]) addSievingPrime(i);
    No proofs here. *)
From Coq Require Import NArith List Bool.
Import ListNotations.
Local Open Scope N_scope.

Fixpoint setf (j : nat) (l : list bool) : list bool :=
  match l, j with
  | [], _ => []
  | _ :: r, O => false :: r
  | b :: r, S j' => b :: setf j' r
  end.

Fixpoint mark (fuel : nat) (n step j : N) (sv : list bool) : list bool :=
  match fuel with
  | O => sv
  | S f => if n <? j then sv else mark f n step (j + step) (setf (N.to_nat j) sv)
  end.

Fixpoint tiny_loop (fuel : nat) (n i : N) (sv : list bool) : list bool :=
  match fuel with
  | O => sv
  | S f => if n <? i * i then sv
           else tiny_loop f n (i + 2) (if nth (N.to_nat i) sv false then mark (N.to_nat n + 1) n (2 * i) (i * i) sv else sv)
  end.

(** [n] = isqrt(stop_) of the SievingPrimes object *)
Definition tiny_sieve (n : N) : list bool := tiny_loop (N.to_nat n + 1) n 3 (repeat true (N.to_nat n + 1)).

(** the table is built iff start * start <= stop (start = 165, stop = isqrt of the outer stop) *)
Definition tiny_built (start stop : N) : bool := start * start <=? stop.

(** L2 model of SievingPrime (include/primesieve/Bucket.hpp): multipleIndex and wheelIndex packed into one uint32_t,
      indexes_ = (uint32_t) (multipleIndex | (wheelIndex << 23));  getMultipleIndex = indexes_ & MAX_MULTIPLEINDEX;
      getWheelIndex = indexes_ >> 23;   MAX_MULTIPLEINDEX = (1 << 23) - 1, MAX_WHEELINDEX = (1 << (32 - 23)) - 1
    (the number of index bits is Gen/Tables.sp_index_bits, read from the source).  No proofs. *)
From Coq Require Import NArith.
From PS Require Import Gen.Tables.
Local Open Scope N_scope.

Definition MAX_MULTIPLEINDEX : N := 2 ^ sp_index_bits - 1.
Definition MAX_WHEELINDEX : N := 2 ^ (32 - sp_index_bits) - 1.
Definition sp_pack (mi wi : N) : N := (N.lor mi (N.shiftl wi 23)) mod 2 ^ 32.
Definition sp_mi (x : N) : N := N.land x MAX_MULTIPLEINDEX.
Definition sp_wi (x : N) : N := N.shiftr x 23.

(** L3 model of EratMedium (src/EratMedium.cpp): 64 bucket lists, one per wheel index (wheel 30); a list holds the
    sieving primes (sievingPrime = prime / 30, multipleIndex) whose next multiple has that wheel index.

      storeSievingPrime:  if (buckets_.empty()) resize both vectors to 64 null lists;
                          buckets_[wheelIndex]++->set(prime / 30, multipleIndex, wheelIndex)
      crossOff(sieve):    currentBuckets_.swap(buckets_);
                          for i in 0..63: take list i (wheelIndex = i for all of its primes; switch (wheelIndex / 8)
                          selects crossOff_7 .. crossOff_31), for every prime run the wheel loop until i >= sieveSize,
                          then buckets[wheelIndex']++->set(sievingPrime, i - sieveSize, wheelIndex')

    The per-prime loop is Model/CrossOff.cross over the step table extracted from crossOff_7 .. crossOff_31
    (Gen/Tables.eratMediumSteps; the switch is Gen/Tables.eratMediumDispatch).  The linked Bucket lists are plain lists
    (order irrelevant: Proofs/EratMediumP.em_cross_spec is up to permutation); a write through buckets_[w] with w >= 64
    is [None].  No proofs here. *)
From Coq Require Import NArith List Bool.
From PS Require Import Gen.Tables Model.Count Model.CrossOff.
Import ListNotations.
Local Open Scope N_scope.

Definition em_buckets : Type := list (list (N * N)).

Fixpoint em_push (w : nat) (e : N * N) (b : em_buckets) : option em_buckets :=
  match b with
  | [] => None
  | l :: r => match w with
              | O => Some ((e :: l) :: r)
              | S s => match em_push s e r with Some r' => Some (l :: r') | None => None end
              end
  end.

Definition em_empty : em_buckets := repeat [] 64.

Definition em_store (b : em_buckets) (prime idx w : N) : option em_buckets :=
  em_push (N.to_nat w) (prime / 30, idx) (match b with [] => em_empty | _ => b end).

Fixpoint em_cross_list (fuel : nat) (size w : N) (l : list (N * N)) (nb : em_buckets) (acc : list (N * N))
  : option (list (N * N) * em_buckets) :=
  match l with
  | [] => Some (acc, nb)
  | (sp, i) :: r =>
      match cross fuel eratMediumSteps size sp i w with
      | None => None
      | Some (cl, i', w') =>
          match em_push (N.to_nat w') (sp, i') nb with
          | None => None
          | Some nb' => em_cross_list fuel size w r nb' (cl ++ acc)
          end
      end
  end.

Fixpoint em_cross_lists (fuel : nat) (size w : N) (cur nb : em_buckets) (acc : list (N * N))
  : option (list (N * N) * em_buckets) :=
  match cur with
  | [] => Some (acc, nb)
  | l :: r => match em_cross_list fuel size w l nb acc with
              | None => None
              | Some (acc', nb') => em_cross_lists fuel size (w + 1) r nb' acc'
              end
  end.

Definition em_cross (fuel : nat) (size : N) (b : em_buckets) : option (list (N * N) * em_buckets) :=
  em_cross_lists fuel size 0 b em_empty [].

Fixpoint em_store_all (b : em_buckets) (ps : list (N * N * N)) : option em_buckets :=
  match ps with
  | [] => Some b
  | (p, i, w) :: r => match em_store b p i w with Some b' => em_store_all b' r | None => None end
  end.

Fixpoint em_run (nseg fuel : nat) (size : N) (b : em_buckets) : option (list (list (N * N)) * em_buckets) :=
  match nseg with
  | O => Some ([], b)
  | S n => match em_cross fuel size b with
           | Some (cl, b') => match em_run n fuel size b' with
                              | Some (cls, b'') => Some (cl :: cls, b'')
                              | None => None
                              end
           | None => None
           end
  end.

(** L9 model of the worker loop of ParallelSieve::sieve():
      while ((i = a.fetch_add(1)) < iters) { counts += count(piece i); }
    on an abstract machine: one shared atomic counter, per-worker local sums.
    A schedule is the list of worker ids in the order in which their
    fetch_add operations take effect (the body of the loop touches only the
    worker's own state, so it is merged into the same step). *)
From Coq Require Import NArith List Bool Arith.
Import ListNotations.
Local Open Scope N_scope.

Record sched_state := { ctr : nat; sums : list N; finished : list bool }.

Fixpoint upd {A} (n : nat) (x : A) (l : list A) : list A :=
  match l, n with
  | [], _ => []
  | _ :: l', O => x :: l'
  | y :: l', S n' => y :: upd n' x l'
  end.

Definition init_state (workers : nat) : sched_state :=
  {| ctr := 0; sums := repeat 0 workers; finished := repeat false workers |}.

Section Sched.
  Variable iters : nat.
  Variable f : nat -> N.      (* the count of piece i *)

  Definition sched_step (s : sched_state) (w : nat) : sched_state :=
    if nth w (finished s) true then s        (* a finished (or non-existing) worker does nothing *)
    else
      let i := ctr s in                       (* i = a.fetch_add(1) *)
      if Nat.ltb i iters
      then {| ctr := S i; sums := upd w (nth w (sums s) 0 + f i) (sums s); finished := finished s |}
      else {| ctr := S i; sums := sums s; finished := upd w true (finished s) |}.

  Definition sched_run (sch : list nat) (s : sched_state) : sched_state := fold_left sched_step sch s.

  Definition total (s : sched_state) : N := fold_right N.add 0 (sums s).
  Fixpoint sum_f (n : nat) : N := match n with O => 0 | S n' => sum_f n' + f n' end.
End Sched.

From Coq Require Import NArith List Bool.
Local Open Scope N_scope.

(** include/primesieve/Vector.hpp: capacity growth of primesieve's own Vector<T>.  State =
    (size(), capacity()); the element values play no role.  [VAppend k] is insert(end(), first,
    first + k) (appending only, as the code asserts). *)
Inductive vec_op := VPush | VReserve (n : N) | VResize (n : N) | VAppend (k : N) | VClear.

(** reserve_unchecked(n): new_capacity = max(old_capacity * 3 / 2, n) *)
Definition vec_reserve_unchecked (cap n : N) : N := N.max (cap * 3 / 2) n.
(** reserve(n) *)
Definition vec_reserve (cap n : N) : N := if cap <? n then vec_reserve_unchecked cap n else cap.

Definition vec_step (s : N * N) (o : vec_op) : N * N :=
  let '(size, cap) := s in
  match o with
  | VPush => (size + 1, if size =? cap then vec_reserve_unchecked cap (N.max 1 (cap * 2)) else cap)
  | VReserve n => (size, vec_reserve cap n)
  | VResize n => if size <? n then (n, vec_reserve cap n) else (n, cap)
  | VAppend k => if 0 <? k then (size + k, vec_reserve cap (size + k)) else s
  | VClear => (0, cap)        (* clear() destroys the elements, the array stays *)
  end.

Definition vec_run (ops : list vec_op) : N * N := fold_left vec_step ops (0, 0).

(** the largest size / reservation the caller has asked for so far *)
Definition vec_demand (s : N * N) (o : vec_op) : N :=
  match o with
  | VPush => fst s + 1 | VReserve n => n | VResize n => n | VAppend k => fst s + k | VClear => 0
  end.
Fixpoint vec_high (s : N * N) (ops : list vec_op) : N :=
  match ops with
  | nil => 0
  | o :: r => N.max (vec_demand s o) (vec_high (vec_step s o) r)
  end.

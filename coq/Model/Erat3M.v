(** L3 model of the segment loop of Erat with its three cross-off algorithms (src/Erat.cpp, include/primesieve/Erat.hpp):

      Erat::addSievingPrime(prime):  if (prime > maxEratMedium_) eratBig_.addSievingPrime(prime, segmentLow_);
                                     else if (prime > maxEratSmall_) eratMedium_.addSievingPrime(prime, segmentLow_);
                                     else eratSmall_.addSievingPrime(prime, segmentLow_);
      Erat::crossOff():              if (eratSmall_.hasSievingPrimes()) eratSmall_.crossOff(sieve_);
                                     if (eratMedium_.hasSievingPrimes()) eratMedium_.crossOff(sieve_);
                                     if (eratBig_.hasSievingPrimes()) eratBig_.crossOff(sieve_);

    over the models of the three algorithms (Model/CrossOff.cross_all for EratSmall - its L1-sized chunks are
    Model/CrossOff.cross_chunks -, Model/EratMediumM, Model/EratBigM) and the sieving primes added when
    prime^2 <= segmentHigh (Model/CrossOff.span_sq), without the pre-sieve (an all-ones sieve array).  [log2] is
    EratBig's log2SieveSize_.  No proofs here. *)
From Coq Require Import NArith List Bool.
From PS Require Import Gen.Tables Model.Count Model.Wheel Model.CrossOff Model.EratMediumM Model.EratBigM.
Import ListNotations.
Local Open Scope N_scope.

Record e3 := mk3 { e_small : list (N * N * N); e_med : em_buckets; e_big : buckets }.
Definition e3_init : e3 := mk3 [] em_empty [].

Definition add_prime3 (stop low maxSmall maxMedium log2 : N) (s : e3) (p : N) : option e3 :=
  if maxMedium <? p then
    match addSievingPrime210 stop p low with
    | None => Some s
    | Some (mi, wi) => match eb_store log2 (e_big s) p mi wi with
                       | Some b' => Some (mk3 (e_small s) (e_med s) b')
                       | None => None
                       end
    end
  else if maxSmall <? p then
    match addSievingPrime30 stop p low with
    | None => Some s
    | Some (mi, wi) => match em_store (e_med s) p mi wi with
                       | Some b' => Some (mk3 (e_small s) b' (e_big s))
                       | None => None
                       end
    end
  else
    match addSievingPrime30 stop p low with
    | None => Some s
    | Some (mi, wi) => Some (mk3 (e_small s ++ [(p / 30, mi, wi)]) (e_med s) (e_big s))
    end.

Fixpoint add_primes3 (stop low maxSmall maxMedium log2 : N) (s : e3) (ps : list N) : option e3 :=
  match ps with
  | [] => Some s
  | p :: r => match add_prime3 stop low maxSmall maxMedium log2 s p with
              | Some s' => add_primes3 stop low maxSmall maxMedium log2 s' r
              | None => None
              end
  end.

Definition cross3 (fuel : nat) (size log2 : N) (s : e3) : option (list (N * N) * e3) :=
  match cross_all fuel eratSmallSteps size (e_small s) with
  | None => None
  | Some (cs, s1) =>
      match em_cross fuel size (e_med s) with
      | None => None
      | Some (cm, m1) =>
          match e_big s with
          | [] => Some (cs ++ cm ++ [], mk3 s1 m1 [])
          | _ :: _ => match eb_cross fuel log2 (e_big s) [] with
                      | None => None
                      | Some (cb, b1) => Some (cs ++ cm ++ cb, mk3 s1 m1 b1)
                      end
          end
      end
  end.

Fixpoint sieve_loop3 (fuel : nat) (stop maxSmall maxMedium log2 : N) (segs : list kseg) (pending : list N) (s : e3)
  : option (list (kseg * list (N * N))) :=
  match segs with
  | [] => Some []
  | sg :: rest =>
      let (now, later) := span_sq (k_high sg) pending in
      match add_primes3 stop (k_low sg) maxSmall maxMedium log2 s now with
      | None => None
      | Some s1 =>
          match cross3 fuel (k_size sg) log2 s1 with
          | None => None
          | Some (cleared, s2) =>
              match sieve_loop3 fuel stop maxSmall maxMedium log2 rest later s2 with
              | None => None
              | Some r => Some ((sg, cleared) :: r)
              end
          end
      end
  end.

(** L3 model of EratBig (src/EratBig.cpp): the bucket sieve for big sieving primes, wheel 210.

    buckets_[k] holds the sieving primes whose next multiple lies k segments ahead, as
    (sievingPrime = prime / 30, multipleIndex < sieveSize, wheelIndex < 384).  The linked lists of Bucket
    objects in the MemoryPool are modelled as plain lists (their order does not influence the result:
    Proofs/EratBigP.eb_cross_spec is stated up to permutation); a write through buckets_[segment] with
    segment >= buckets_.size() is undefined behaviour in the code and [None] here.

      init:               maxNextMultiple = maxSievingPrime * getMaxFactor() + getMaxFactor()   (reserve only)
      storeSievingPrime:  newSize = ((sieveSize - 1 + sp * maxFactor + maxFactor) >> log2) + 1;
                          segment = multipleIndex >> log2; multipleIndex &= sieveSize - 1;
                          while (buckets_.size() < newSize) buckets_.push_back(nullptr);
                          buckets_[segment]++->set(sp, multipleIndex, wheelIndex)
      crossOff(prime..end): sieve[i] &= wheel210[w].unsetBit; i += wheel210[w].nextMultipleFactor * sp + wheel210[w].correct;
                          w = wheel210[w].next; segment = i >> log2; i &= sieveSize - 1;
                          buckets[segment]++->set(sp, i, w)
      crossOff(sieve):    while (buckets_[0]) { take the list; process it }  then rotate buckets_ left by one

    [cross210] is the same loop seen from one sieving prime with an absolute index (the EratSmall/EratMedium
    shape), [spec_cross210] its specification: the multiples prime*q for the successive cofactors q coprime
    to 210.  No proofs here. *)
From Coq Require Import NArith List Bool.
From PS Require Import Gen.Tables Model.Count Model.CrossOff.
Import ListNotations.
Local Open Scope N_scope.

Definition step210 (w : N) : N * N * N * N := nth (N.to_nat w) eratBigWheel (0, 0, 0, 0).

Definition entry : Type := (N * N * N)%type.          (* (sievingPrime, multipleIndex, wheelIndex) *)
Definition buckets : Type := list (list entry).

Definition needed_size (log2 sp : N) : N :=
  (2 ^ log2 - 1 + (sp * wheel210_maxfactor + wheel210_maxfactor)) / 2 ^ log2 + 1.

Fixpoint grow (n : nat) (b : buckets) : buckets :=
  match n with
  | O => b
  | S n' => match b with [] => [] :: grow n' [] | l :: r => l :: grow n' r end
  end.

Fixpoint push_at (seg : nat) (e : entry) (b : buckets) : option buckets :=
  match b with
  | [] => None
  | l :: r => match seg with
              | O => Some ((e :: l) :: r)
              | S s => match push_at s e r with Some r' => Some (l :: r') | None => None end
              end
  end.

Definition eb_store (log2 : N) (b : buckets) (prime idx w : N) : option buckets :=
  let sp := prime / 30 in
  let b := grow (N.to_nat (needed_size log2 sp)) b in
  push_at (N.to_nat (idx / 2 ^ log2)) (sp, idx mod 2 ^ log2, w) b.

(** one sieving prime of the current segment: the cleared (byte, mask), the target segment and the new entry *)
Definition eb_step (log2 : N) (e : entry) : (N * N) * (N * entry) :=
  let '(sp, i, w) := e in
  let '(mask, a, c, nxt) := step210 w in
  let i' := i + a * sp + c in
  ((i, mask), (i' / 2 ^ log2, (sp, i' mod 2 ^ log2, nxt))).

Fixpoint eb_cross (fuel : nat) (log2 : N) (b : buckets) (acc : list (N * N)) : option (list (N * N) * buckets) :=
  match fuel with
  | O => None
  | S f =>
      match b with
      | [] => None
      | [] :: rest => Some (acc, rest ++ [[]])
      | (e :: es) :: rest =>
          let '(cl, (seg, e')) := eb_step log2 e in
          match push_at (N.to_nat seg) e' (es :: rest) with
          | Some b' => eb_cross f log2 b' (cl :: acc)
          | None => None
          end
      end
  end.

(** the same loop seen from one sieving prime, absolute index *)
Fixpoint cross210 (fuel : nat) (size sp i w : N) : option (list (N * N) * N * N) :=
  match fuel with
  | O => None
  | S f =>
      if size <=? i then Some ([], i - size, w)
      else let '(mask, a, c, nxt) := step210 w in
           match cross210 f size sp (i + a * sp + c) nxt with
           | Some (cl, i', w') => Some ((i, mask) :: cl, i', w')
           | None => None
           end
  end.

(** specification side: cofactors coprime to 210 *)
Definition cop210 : list N :=
  [1; 11; 13; 17; 19; 23; 29; 31; 37; 41; 43; 47; 53; 59; 61; 67; 71; 73; 79; 83; 89; 97; 101; 103; 107; 109; 113; 121; 127; 131; 137; 139; 143; 149; 151; 157; 163; 167; 169; 173; 179; 181; 187; 191; 193; 197; 199; 209].   (* = the residues coprime to 210: Proofs/CrossOff210P.cop210_gcd *)
Definition is_cop210 (q : N) : bool := N.gcd (q mod 210) 210 =? 1.
Fixpoint gap_from (fuel : nat) (qm d : N) : N :=
  match fuel with
  | O => d
  | S f => if is_cop210 (qm + d) then d else gap_from f qm (d + 1)
  end.
Definition gap210 (qm : N) : N := gap_from 12 qm 1.
Definition nextc210 (q : N) : N := q + gap210 (q mod 210).

Fixpoint spec_cross210 (fuel : nat) (low size p q : N) : option (list (N * N) * N) :=
  match fuel with
  | O => None
  | S f =>
      let n := p * q in
      if size <=? byteof low n then Some ([], q)
      else match spec_cross210 f low size p (nextc210 q) with
           | Some (l, qe) => Some ((byteof low n, maskof n) :: l, qe)
           | None => None
           end
  end.

(** a run of EratBig over several segments: store the given (prime, multipleIndex, wheelIndex) triples, then
    cross off [nseg] segments; returns the cleared pairs per segment and the final buckets *)
Fixpoint eb_store_all (log2 : N) (b : buckets) (ps : list (N * N * N)) : option buckets :=
  match ps with
  | [] => Some b
  | (p, i, w) :: r => match eb_store log2 b p i w with Some b' => eb_store_all log2 b' r | None => None end
  end.

Fixpoint eb_run (nseg fuel : nat) (log2 : N) (b : buckets) : option (list (list (N * N)) * buckets) :=
  match nseg with
  | O => Some ([], b)
  | S n => match eb_cross fuel log2 b [] with
           | Some (cl, b') => match eb_run n fuel log2 b' with
                              | Some (cls, b'') => Some (cl :: cls, b'')
                              | None => None
                              end
           | None => None
           end
  end.

(** C14: several independent objects (iterators, API calls) used in any interleaving.
    In the functional model every object carries its whole state (the static scan of the
    library's writable symbols, run by the check, is what justifies modelling it so);
    an interleaved run is a run of a vector of states. *)
From Coq Require Import List Arith.
Import ListNotations.

Section Frame.
  Variables (St Op Rs : Type).
  Variable stepf : St -> Op -> St * Rs.

  Fixpoint upd_nth (n : nat) (x : St) (l : list St) : list St :=
    match l, n with
    | [], _ => []
    | _ :: l', O => x :: l'
    | y :: l', S n' => y :: upd_nth n' x l'
    end.

  (** operations tagged with the index of the object they are applied to; an index outside the vector is a no-op *)
  Fixpoint run_multi (sts : list St) (ops : list (nat * Op)) : list St * list (nat * Rs) :=
    match ops with
    | [] => (sts, [])
    | (j, o) :: ops' =>
        match nth_error sts j with
        | None => run_multi sts ops'
        | Some s => let '(s', r) := stepf s o in
                    let '(fin, rs) := run_multi (upd_nth j s' sts) ops' in
                    (fin, (j, r) :: rs)
        end
    end.

  Fixpoint run_solo (s : St) (ops : list Op) : St * list Rs :=
    match ops with
    | [] => (s, [])
    | o :: ops' => let '(s', r) := stepf s o in let '(fin, rs) := run_solo s' ops' in (fin, r :: rs)
    end.

  Definition proj_ops (j : nat) (ops : list (nat * Op)) : list Op :=
    map snd (filter (fun p => Nat.eqb (fst p) j) ops).
  Definition proj_out (j : nat) (rs : list (nat * Rs)) : list Rs :=
    map snd (filter (fun p => Nat.eqb (fst p) j) rs).
End Frame.

(** L6 hand model of PrimeGenerator (src/PrimeGenerator.cpp): which primes a
    generator for [start, stop] produces, in terms of the source tables
    [smallPrimes] / [primePi] (Gen/Tables.v, regenerated from the source on
    every run) and of the sieve proper ([erat], the Erat base class).
    No proofs in this file. *)
From Coq Require Import NArith List Bool.
From PS Require Import Spec.Primes Gen.Tables.
Import ListNotations.
Local Open Scope N_scope.

Definition nthN (l : list N) (i : N) : N := nth (N.to_nat i) l 0.

(** PrimeGenerator::maxCachedPrime() = smallPrimes.back() *)
Definition maxCachedPrime : N := last smallPrimes 0.

(** if (start_ > 1) startIdx = primePi[start_ - 1]; *)
Definition getStartIdx (start : N) : N := if 1 <? start then nthN primePi (start - 1) else 0.
(** if (stop_ < maxCachedPrime()) stopIdx = primePi[stop_]; else stopIdx = smallPrimes.size(); *)
Definition getStopIdx (stop : N) : N :=
  if stop <? maxCachedPrime then nthN primePi stop else N.of_nat (length smallPrimes).

(** std::copy(smallPrimes.begin() + a, smallPrimes.begin() + b, ...) *)
Definition slice (a b : N) (l : list N) : list N := firstn (N.to_nat (b - a)) (skipn (N.to_nat a) l).

(** the table part of initNextPrimes / initPrevPrimes: if (start_ <= maxCachedPrime()) ... *)
Definition small_part (start stop : N) : list N :=
  if start <=? maxCachedPrime then slice (getStartIdx start) (getStopIdx stop) smallPrimes else [].

(** initErat: startErat = max(maxCachedPrime() + 2, start_);
    if (startErat <= stop_ && startErat < UINT64_MAX) Erat::init(startErat, stop_, ...) *)
Definition erat_range (start stop : N) : option (N * N) :=
  let s := N.max (maxCachedPrime + 2) start in
  if (s <=? stop) && (s <? MAX64) then Some (s, stop) else None.

Section PG.
  Variable erat : N -> N -> list N.     (* the primes the segmented sieve finds in [s, e] *)
  Definition pg_primes (start stop : N) : list N :=
    small_part start stop ++
    match erat_range start stop with Some (s, e) => erat s e | None => [] end.
End PG.

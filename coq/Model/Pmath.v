(** Hand model of the saturating helpers of include/primesieve/pmath.hpp on
    uint64_t values represented as [N] (< 2^64).  Tied to the source by the
    leaf translator (Gen/Leaf.v, theorem [leaf_agree] in Proofs/LeafAgree.v)
    and by unit-level correspondence. *)
From Coq Require Import NArith.
From PS Require Import Spec.Primes.
Local Open Scope N_scope.

(** if (x >= max - y) return max; else return x + y; *)
Definition checkedAdd (x y : N) : N := if MAX64 - y <=? x then MAX64 else x + y.
(** if (x > y) return x - y; else return 0; *)
Definition checkedSub (x y : N) : N := if y <? x then x - y else 0.
(** if (x < min) return min; if (x > max) return max; return x; *)
Definition inBetween (lo x hi : N) : N := if x <? lo then lo else if hi <? x then hi else x.
Definition ceilDiv (x y : N) : N := (x + y - 1) / y.

(** L2 hand model of Wheel<MODULO, SIZE, ...>::addSievingPrime (include/primesieve/Wheel.hpp) with
    explicit uint64_t wrap-around, over the source tables wheel30Init / wheel210Init / wheelOffsets_
    (Gen/Tables.v).  The statements it mirrors are fingerprinted by translate/tables.py. No proofs. *)
From Coq Require Import NArith List Bool.
From PS Require Import Spec.Primes Gen.Tables.
Import ListNotations.
Local Open Scope N_scope.

Definition wrap64 (x : N) : N := x mod U64.

(** returns (multipleIndex, wheelIndex) or None when the prime is not needed for sieving *)
Definition addSievingPrime (modulo : N) (init : list (N * N)) (offsets : list N) (stop prime segmentLow : N) : option (N * N) :=
  let segmentLow := wrap64 (segmentLow + 6) in
  let quotient := segmentLow / prime + 1 in
  let quotient := N.max prime quotient in
  let multiple := wrap64 (prime * quotient) in
  if (stop <? multiple) || (multiple <? segmentLow) then None
  else
    let e := nth (N.to_nat (quotient mod modulo)) init (0, 0) in
    let nextMultiple := wrap64 (prime * fst e) in
    if stop - multiple <? nextMultiple then None
    else
      let multiple := wrap64 (multiple + nextMultiple) in
      let multipleIndex := (multiple - segmentLow) / 30 in
      let wheelIndex := nth (N.to_nat (prime mod 30)) offsets 0 + snd e in
      Some (multipleIndex, wheelIndex).

Definition addSievingPrime30 := addSievingPrime wheel30_modulo wheel30Init wheel30_offsets.
Definition addSievingPrime210 := addSievingPrime wheel210_modulo wheel210Init wheel210_offsets.

(** the first wheel multiple the function is meant to find: the least m = prime * q with q >= prime,
    q coprime to the wheel modulus and m > segmentLow + 6 *)
Definition coprime_to (modulo q : N) : bool := N.gcd q modulo =? 1.

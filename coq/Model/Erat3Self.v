(** L3/L4: the three-algorithm kernel as a function from (configuration, interval) to the list of primes it reports, with the
    sieving primes produced the way SievingPrimes produces them: a second, inner three-algorithm kernel over
    [165, isqrt(stop)] whose own sieving primes come from the tiny sieve (Model/SievingPrimesM.v).  The bits that survive a
    segment are decoded with Model/KernelPs.surviving_ps (pre-sieved bit set and not cleared).  No proofs here. *)
From Coq Require Import NArith List Bool.
From PS Require Import Spec.Primes Gen.Tables Model.Pmath Model.Config Model.EratGeom Model.Count Model.CrossOff Model.KernelPs
     Model.EratMediumM Model.EratBigM Model.Erat3M Model.SievingPrimesM.
Import ListNotations.
Local Open Scope N_scope.

Definition fuel3 (a : algo) (npend : nat) : nat :=
  N.to_nat (30 * a_sieveSize a + 38 + N.of_nat npend * 2 ^ N.log2 (a_sieveSize a) + 1).

Definition erat3_with (pending : list N) (l1 maxKB start stop : N) : list N :=
  let a := initAlgorithms l1 maxKB start stop in
  let fuelg := (N.to_nat ((stop - a_segLow a) / (30 * a_sieveSize a)) + 2)%nat in
  match segments fuelg l1 maxKB start stop with
  | None => []
  | Some l =>
      match sieve_loop3 (fuel3 a (length pending)) stop (a_maxSmall a) (a_maxMedium a) (N.log2 (a_sieveSize a))
                        (map (fun sg => {| k_low := s_low sg; k_size := s_bytes sg; k_high := s_high sg |}) l) pending e3_init with
      | None => []
      | Some result => filter (fun n => start <=? n) (flat_map (fun r => surviving_ps (fst r) (snd r)) result)
      end
  end.

(** SievingPrimes::sieveSegment: the odd i >= 165 with tinySieve_[i] ([st] = SievingPrimes' stop = isqrt of the outer stop) *)
Definition tiny_pending (st : N) : list N :=
  if tiny_built 165 st
  then filter (fun i => (i mod 2 =? 1) && nth (N.to_nat i) (tiny_sieve (N.sqrt st)) false) (Nrange 165 (N.sqrt st + 1 - 165))
  else [].

(** what SievingPrimes delivers: the primes of [165, isqrt(stop)] from its own Erat *)
Definition sieving_primes3 (l1 maxKB stop : N) : list N :=
  let st := N.sqrt stop in
  if st <? 165 then [] else erat3_with (tiny_pending st) l1 maxKB 165 st.

Definition erat3_self (l1 maxKB start stop : N) : list N :=
  erat3_with (sieving_primes3 l1 maxKB stop) l1 maxKB start stop.

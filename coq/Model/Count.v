(** Hand model of the per-byte k-tuplet logic of CountPrintPrimes
    (initCounts / countkTuplets / printkTuplets) and of
    PrimeSieve::processSmallPrimes, over the source tables kBitmasks and
    smallTuplets (Gen/Tables.v).  No proofs here. *)
From Coq Require Import NArith List Bool String.
From PS Require Import Spec.Primes Gen.Tables.
Import ListNotations.
Local Open Scope N_scope.

(** the numbers the 8 bits of a sieve byte stand for, relative to the byte's base *)
Definition bv : list N := [7; 11; 13; 17; 19; 23; 29; 31].

(** numbers of the set bits of byte value j (bit 0 first), base low *)
Definition byte_numbers (low j : N) : list N :=
  map (fun i => low + nth i bv 0) (filter (fun i => N.testbit j (N.of_nat i)) (seq 0 8)).

(** for (b = bitmasks[k]; *b <= j; b++) if ((j & *b) == *b) ...   over the row [masks] *)
Fixpoint matching_masks (masks : list N) (j : N) : list N :=
  match masks with
  | [] => []                       (* running off the row: excluded by the ~0 terminator *)
  | m :: ms => if m <=? j then (if N.land j m =? m then [m] else []) ++ matching_masks ms j else []
  end.

(** kCounts_[k][j] as filled by initCounts *)
Definition kcount (masks : list N) (j : N) : N := N.of_nat (List.length (matching_masks masks j)).

(** the k-tuplets printkTuplets prints for byte j at base low *)
Definition byte_tuplets (masks : list N) (low j : N) : list (list N) :=
  map (byte_numbers low) (matching_masks masks j).

(** countkTuplets / printkTuplets over a whole segment (list of bytes, base low) *)
Fixpoint segment_tuplets (masks : list N) (low : N) (bytes : list N) : list (list N) :=
  match bytes with
  | [] => []
  | j :: bs => byte_tuplets masks low j ++ segment_tuplets masks (low + 30) bs
  end.

(** the constellation shapes of kind k = 2..6 (index k-1 into kBitmasks) *)
Definition shapes (idx : nat) : list (list N) :=
  match idx with
  | 1%nat => [[0; 2]]
  | 2%nat => [[0; 2; 6]; [0; 4; 6]]
  | 3%nat => [[0; 2; 6; 8]]
  | 4%nat => [[0; 2; 6; 8; 12]; [0; 4; 6; 10; 12]]
  | 5%nat => [[0; 4; 6; 10; 12; 16]]
  | _ => []
  end.

(** specification: the constellations of kind idx all of whose members are in the set S (ascending list),
    ordered by first member *)
Definition mem (x : N) (S : list N) : bool := existsb (N.eqb x) S.
Definition tuplets_of_set (idx : nat) (S : list N) : list (list N) :=
  flat_map (fun p => flat_map (fun sh => let t := map (N.add p) sh in
                                         if forallb (fun x => mem x S) t then [t] else []) (shapes idx)) S.

(** processSmallPrimes: rows (first, last, index, text) counted/printed iff first >= start && last <= stop *)
Definition small_rows (idx : N) (start stop : N) : list (N * N * N * string) :=
  filter (fun r => let '(f, l, i, _) := r in (i =? idx) && (start <=? f) && (l <=? stop)) smallTuplets.

(** Hand model of the configuration arithmetic: set_sieve_size / set_num_threads / get_sieve_size
    (src/api.cpp) and the integer part of Erat::initAlgorithms (src/Erat.cpp).  size_t/uint64_t
    wrap-around explicit.  The double factors are modelled exactly: sqrtStop * 2.0 = 2 * sqrtStop,
    minSieveSize * 0.2 = minSieveSize / 5 (fl(0.2) > 0.2, operands < 2^53), sieveSize * 3.0 = 3 * sieveSize;
    the constants come from config.hpp via Gen/Tables.v.  No proofs. *)
From Coq Require Import NArith List Bool.
From PS Require Import Spec.Primes Gen.Tables Model.Pmath.
Local Open Scope N_scope.

Definition wrap_sz (x : N) : N := x mod U64.
Definition floorPow2 (x : N) : N := if x =? 0 then 0 else 2 ^ N.log2 x.
Definition isPow2 (x : N) : bool := negb (x =? 0) && (x =? 2 ^ N.log2 x).

(** int arguments are modelled as Z-like: here the clamp on naturals plus "negative" = below 16 *)
Definition set_sieve_size (size : N) : N := inBetween 16 size 8192.
Definition set_num_threads (maxThreads threads : N) : N := inBetween 1 threads maxThreads.

Record cpuinfo := { c_l1 : N; c_l2 : N; c_l3 : N; c_l1s : N; c_l2s : N; c_l3s : N }.   (* bytes, sharing *)
Definition hasL1 c := (4096 <=? c_l1 c) && (c_l1 c <=? 2 ^ 30).
Definition hasL2 c := (4096 <=? c_l2 c) && (c_l2 c <=? 2 ^ 40).
Definition hasL2s c := (1 <=? c_l2s c) && (c_l2s c <=? 2 ^ 20).
Definition hasL3s c := (1 <=? c_l3s c) && (c_l3s c <=? 2 ^ 20).

(** get_sieve_size(): [user] = the value stored by set_sieve_size (0: not set) *)
Definition get_sieve_size (user : N) (c : cpuinfo) : N :=
  if negb (user =? 0) then user
  else if hasL1 c && hasL2 c then
    let l1Size := c_l1 c / 1024 in
    let l2Size := c_l2 c / 1024 in
    if hasL2s c && ((1 <? c_l2s c) || (hasL3s c && (1 <? c_l3s c))) then
      let maxSize := l2Size / c_l2s c in
      let maxSize := if c_l2s c =? 2 then floorPow2 maxSize else floorPow2 (wrap_sz (maxSize + U64 - 1)) in
      let maxSize := N.max l1Size maxSize in
      inBetween 16 (N.min (l1Size * 16) maxSize) 8192
    else
      let maxSize := floorPow2 (wrap_sz (l2Size + U64 - 1)) in
      let maxSize := N.max l1Size maxSize in
      inBetween 16 (N.min (l1Size * 8) maxSize) 8192
  else if hasL1 c then inBetween 16 (c_l1 c / 1024) 8192
  else inBetween 16 (cfg_L1D_CACHE_BYTES / 1024 * 8) 8192.

(** Erat::byteRemainder *)
Definition byteRemainder (n : N) : N := (n - 7) mod 30 + 7.

Record algo := { a_sieveSize : N; a_maxSmall : N; a_maxMedium : N; a_segLow : N; a_segHigh : N; a_bigUsed : bool }.

Definition ceil8 (x : N) : N := ceilDiv x 8 * 8.

(** Erat::init + initAlgorithms: start >= 7, start <= stop, [l1] = getL1CacheSize() in bytes,
    [maxKB] = the sieve size setting in KiB *)
Definition initAlgorithms (l1 maxKB start stop : N) : algo :=
  let maxSieveSize := maxKB * 1024 in
  let sqrtStop := N.sqrt stop in
  let l1 := inBetween (16 * 1024) l1 (8192 * 1024) in
  let l1 := ceil8 l1 in
  let maxSieveSize := ceil8 maxSieveSize in
  let minSieveSize := N.min l1 maxSieveSize in
  let sieveSize := sqrtStop * cfg_FACTOR_SIEVESIZE_num / cfg_FACTOR_SIEVESIZE_den in
  let sieveSize := if minSieveSize <? sieveSize then sieveSize - sieveSize mod minSieveSize else sieveSize in
  let sieveSize := inBetween minSieveSize sieveSize maxSieveSize in
  let sieveSize := inBetween (16 * 1024) sieveSize (8192 * 1024) in
  let sieveSize := ceil8 sieveSize in
  let minSieveSize := N.min l1 sieveSize in
  let maxSmall := minSieveSize * cfg_FACTOR_ERATSMALL_num / cfg_FACTOR_ERATSMALL_den in
  let maxMedium := sieveSize * cfg_FACTOR_ERATMEDIUM_num / cfg_FACTOR_ERATMEDIUM_den in
  let big := maxMedium <? sqrtStop in
  let sieveSize := if big then floorPow2 sieveSize else sieveSize in
  let minSieveSize := N.min l1 sieveSize in
  let maxSmall := if big then minSieveSize * cfg_FACTOR_ERATSMALL_num / cfg_FACTOR_ERATSMALL_den else maxSmall in
  let maxMedium := if big then sieveSize * cfg_FACTOR_ERATMEDIUM_num / cfg_FACTOR_ERATMEDIUM_den else maxMedium in
  let maxSmall := N.min maxSmall sqrtStop in
  let maxMedium := N.min maxMedium sqrtStop in
  let rem := byteRemainder start in
  let dist := sieveSize * 30 + 6 in
  let segLow := start - rem in
  let segHigh := N.min (checkedAdd segLow dist) stop in
  let sieveSize :=
    if (stop <=? segHigh) && (sqrtStop <=? maxMedium)
    then ceil8 ((stop - byteRemainder stop - segLow) / 30 + 1)
    else sieveSize in
  {| a_sieveSize := sieveSize; a_maxSmall := maxSmall; a_maxMedium := maxMedium;
     a_segLow := segLow; a_segHigh := segHigh; a_bigUsed := maxMedium <? sqrtStop |}.

(** L3 model of the bit decoding Erat::nextPrime (include/primesieve/Erat.hpp) and of the loops
    "for (; bits != 0; bits &= bits - 1) ... nextPrime(bits, low)" over a 64-bit word of the sieve array
    (8 bytes, little endian): both variants, count-trailing-zeros with bitValues[] and the De Bruijn hash with
    bruijnBitValues[] (tables and constant from the source, Gen/Tables.v).  No proofs. *)
From Coq Require Import NArith List Bool.
From PS Require Import Spec.Primes Gen.Tables.
Import ListNotations.
Local Open Scope N_scope.

Definition tbl (l : list N) (i : N) : N := nth (N.to_nat i) l 0.

(** index of the lowest set bit of a non-zero word below 2^64 (64 for 0) *)
Fixpoint ctz_from (n : nat) (i : N) (bits : N) : N :=
  match n with O => i | S k => if N.testbit bits i then i else ctz_from k (i + 1) bits end.
Definition ctz64 (bits : N) : N := ctz_from 64 0 bits.

Definition nextPrime_ctz (bits low : N) : N := low + tbl bitValues (ctz64 bits).
(** hash = ((bits ^ (bits - 1)) * debruijn) >> 58, in uint64_t arithmetic *)
Definition bruijn_hash (bits : N) : N := N.shiftr ((N.lxor bits (bits - 1) * debruijn64) mod U64) 58.
Definition nextPrime_bruijn (bits low : N) : N := low + tbl bruijnBitValues (bruijn_hash bits).

(** for (; bits != 0; bits &= bits - 1) out << nextPrime(bits, low) *)
Fixpoint decode_word (fuel : nat) (next : N -> N -> N) (bits low : N) : list N :=
  match fuel with
  | O => []
  | S f => if bits =? 0 then [] else next bits low :: decode_word f next (N.land bits (bits - 1)) low
  end.

(** littleendian_cast<uint64_t>(&sieve[i]): the 64-bit word formed by 8 consecutive bytes *)
Fixpoint word_of_bytes (bs : list N) : N :=
  match bs with [] => 0 | b :: r => N.lor b (N.shiftl (word_of_bytes r) 8) end.

(** CountPrintPrimes::printPrimes / PrimeGenerator::fillNextPrimes over a byte array whose length is a multiple of 8
    (the sieve array is zero-padded to a multiple of 8 bytes):
      for (i = 0; i < size; i += 8) { bits = littleendian_cast<uint64_t>(&sieve[i]); decode the word; low += 8 * 30; } *)
Fixpoint decode_array (words : nat) (next : N -> N -> N) (bytes : list N) (low : N) : list N :=
  match words with
  | O => []
  | S k => decode_word 65 next (word_of_bytes (firstn 8 bytes)) low ++ decode_array k next (skipn 8 bytes) (low + 240)
  end.
(** zero padding to a multiple of 8 bytes *)
Definition pad8 (bytes : list N) : list N := bytes ++ repeat 0 (Nat.modulo (8 - Nat.modulo (length bytes) 8) 8).

(** Hand model of the expression evaluator of the command line
    (include/primesieve/calculator.hpp, class ExpressionParser<T>): a
    shift-reduce operator-precedence parser over the characters of the
    argument, parametric in the value algebra.  Characters are their codes
    ([N]); values are [Z].  Two algebras:
    - [checked ty]: the arithmetic of the code after the overflow fix (every
      result must lie in the range of the C++ type [ty], otherwise an error),
    - [exact]: unbounded integer arithmetic (the mathematical value).
    No proofs in this file. *)
From Coq Require Import ZArith NArith List Bool.
Import ListNotations.
Local Open Scope Z_scope.

Inductive opk := ONull | OOr | OAnd | OShl | OShr | OAdd | OSub | OMul | ODiv | OMod | OPow | OExp.
Record oper := { o_kind : opk; o_prec : N; o_left : bool }.

Inductive perr := ESyntax | EDivZero | EOverflow | EFuel.
Inductive pres (A : Type) := POk (a : A) (rest : list N) | PErr (e : perr).
Arguments POk {A}. Arguments PErr {A}.

(** the integer type T: range [lo, hi], number of value bits *)
Record ity := { t_lo : Z; t_hi : Z; t_digits : Z; t_signed : bool }.
Definition ty_u64 : ity := {| t_lo := 0; t_hi := 18446744073709551615; t_digits := 64; t_signed := false |}.
Definition ty_i64 : ity := {| t_lo := -9223372036854775808; t_hi := 9223372036854775807; t_digits := 63; t_signed := true |}.
Definition ty_int : ity := {| t_lo := -2147483648; t_hi := 2147483647; t_digits := 31; t_signed := true |}.

Definition in_range (ty : ity) (z : Z) : bool := (t_lo ty <=? z) && (z <=? t_hi ty).

(** value algebra *)
Record alg := {
  a_lit : Z -> Z -> Z -> option Z;        (* value * base + digit *)
  a_neg : Z -> option Z;                  (* unary minus: 0 - v *)
  a_not : Z -> option Z;                  (* ~v *)
  a_bin : opk -> Z -> Z -> option Z       (* None: overflow *)
}.

(** pow by squaring, as in the code; [mul] is the algebra's multiplication *)
Fixpoint pow_loop (mul : Z -> Z -> option Z) (fuel : nat) (res x n : Z) : option Z :=
  match fuel with
  | O => None
  | S f =>
      if n <=? 0 then Some res
      else
        let r1 := if Z.odd n then mul res x else Some res in
        match r1 with
        | None => None
        | Some res' =>
            let n' := (if Z.odd n then n - 1 else n) / 2 in
            if 0 <? n' then
              match mul x x with
              | Some x' => pow_loop mul f res' x' n'
              | None => None
              end
            else Some res'
        end
  end.

(** more than enough: the exponent is halved in every round and is < 2^64 *)
Definition pow_fuel : nat := 70.

Definition bitnot (ty : ity) (v : Z) : Z := if t_signed ty then - v - 1 else t_hi ty - v.

Section Algebras.
  Variable ty : ity.
  Definition chk (z : Z) : option Z := if in_range ty z then Some z else None.
  Definition cmul (a b : Z) : option Z := chk (a * b).

  Definition checked_bin (k : opk) (a b : Z) : option Z :=
    match k with
    | ONull => Some 0
    | OOr => Some (Z.lor a b)
    | OAnd => Some (Z.land a b)
    | OShl => if (b <? 0) || (t_digits ty <=? b) then None else cmul a (2 ^ b)
    | OShr => if (b <? 0) || (t_digits ty <=? b) then None else Some (Z.shiftr a b)
    | OAdd => chk (a + b)
    | OSub => chk (a - b)
    | OMul => cmul a b
    | ODiv => chk (Z.quot a b)
    | OMod => Some (Z.rem a b)
    | OPow => pow_loop cmul pow_fuel 1 a b
    | OExp => match pow_loop cmul pow_fuel 1 10 b with Some p => cmul a p | None => None end
    end.

  Definition checked : alg :=
    {| a_lit := fun v base d => match cmul v base with Some m => chk (m + d) | None => None end;
       a_neg := fun v => chk (0 - v);
       a_not := fun v => Some (bitnot ty v);
       a_bin := checked_bin |}.

  (** unbounded arithmetic; only the type-dependent operations (~, shift width) refer to [ty] *)
  Definition zpow (a b : Z) : Z := if b <=? 0 then 1 else a ^ b.
  Definition exact_bin (k : opk) (a b : Z) : option Z :=
    match k with
    | ONull => Some 0
    | OOr => Some (Z.lor a b)
    | OAnd => Some (Z.land a b)
    | OShl => if (b <? 0) || (t_digits ty <=? b) then None else Some (a * 2 ^ b)
    | OShr => if (b <? 0) || (t_digits ty <=? b) then None else Some (Z.shiftr a b)
    | OAdd => Some (a + b)
    | OSub => Some (a - b)
    | OMul => Some (a * b)
    | ODiv => Some (Z.quot a b)
    | OMod => Some (Z.rem a b)
    | OPow => Some (zpow a b)
    | OExp => Some (a * zpow 10 b)
    end.
  Definition exact : alg :=
    {| a_lit := fun v base d => Some (v * base + d);
       a_neg := fun v => Some (0 - v);
       a_not := fun v => Some (bitnot ty v);
       a_bin := exact_bin |}.
End Algebras.

(* ---------- lexical helpers ---------- *)
Local Open Scope N_scope.
Definition is_space (c : N) : bool := (c =? 32) || ((9 <=? c) && (c <=? 13)).
Fixpoint eat_spaces (s : list N) : list N :=
  match s with c :: s' => if is_space c then eat_spaces s' else s | [] => [] end.

(** toInteger: '0'..'9' -> 0..9, 'a'..'f','A'..'F' -> 10..15, otherwise 16 *)
Definition to_integer (c : N) : N :=
  if (48 <=? c) && (c <=? 57) then c - 48
  else if (97 <=? c) && (c <=? 102) then c - 97 + 10
  else if (65 <=? c) && (c <=? 70) then c - 65 + 10
  else 16.

Definition mk (k : opk) (p : N) (l : bool) : oper := {| o_kind := k; o_prec := p; o_left := l |}.
Definition null_op : oper := mk ONull 0 true.

(** parseOp: returns the operator and the remaining input; Error for a lone '<' or '>' *)
Definition parse_op (s : list N) : pres oper :=
  let s := eat_spaces s in
  match s with
  | 124 :: r => POk (mk OOr 4 true) r                              (* | *)
  | 38 :: r => POk (mk OAnd 6 true) r                              (* & *)
  | 60 :: 60 :: r => POk (mk OShl 9 true) r                        (* << *)
  | 60 :: _ => PErr ESyntax
  | 62 :: 62 :: r => POk (mk OShr 9 true) r                        (* >> *)
  | 62 :: _ => PErr ESyntax
  | 43 :: r => POk (mk OAdd 10 true) r                             (* + *)
  | 45 :: r => POk (mk OSub 10 true) r                             (* - *)
  | 47 :: r => POk (mk ODiv 20 true) r                             (* / *)
  | 37 :: r => POk (mk OMod 20 true) r                             (* % *)
  | 42 :: 42 :: r => POk (mk OPow 30 false) r                      (* ** *)
  | 42 :: r => POk (mk OMul 20 true) r                             (* * *)
  | 94 :: r => POk (mk OPow 30 false) r                            (* ^ *)
  | 101 :: r => POk (mk OExp 40 false) r                           (* e *)
  | 69 :: r => POk (mk OExp 40 false) r                            (* E *)
  | _ => POk null_op s
  end.

Section Parser.
  Variable A : alg.

  (** parseDecimal / parseHex: digits while toInteger(c) <= 9 (resp. <= 15) *)
  Fixpoint parse_digits (base : N) (v : Z) (s : list N) : pres Z :=
    match s with
    | c :: s' =>
        let d := to_integer c in
        if d <? base then
          match a_lit A v (Z.of_N base) (Z.of_N d) with
          | Some v' => parse_digits base v' s'
          | None => PErr EOverflow
          end
        else POk v s
    | [] => POk v s
    end.

  (** isHex: index_ + 2 < size && tolower(expr[index_+1]) == 'x' && toInteger(expr[index_+2]) <= 15 *)
  Definition is_hex (s : list N) : bool :=
    match s with
    | _ :: x :: h :: _ => ((x =? 120) || (x =? 88)) && (to_integer h <=? 15)
    | _ => false
    end.

  (** the reduce loop of parseExpr: returns either (Some v): the sentinel was reached,
      the expression is finished with value v; or the new (stack, value) to continue with *)
  Fixpoint reduce (op : oper) (stack : list (oper * Z)) (value : Z) : option (option Z * list (oper * Z) * Z) :=
    match stack with
    | [] => Some (Some value, [], value)               (* unreachable: the sentinel is always there *)
    | (top, tv) :: rest =>
        if (o_prec op <? o_prec top) || ((o_prec op =? o_prec top) && o_left op) then
          match o_kind top with
          | ONull => Some (Some value, rest, value)
          | k =>
              match (match k with
                     | ODiv | OMod => if (value =? 0)%Z then None else Some tt
                     | _ => Some tt end) with
              | None => None                             (* division by 0: reported through [reduce_err] *)
              | Some _ =>
                  match a_bin A k tv value with
                  | Some v' => reduce op rest v'
                  | None => None
                  end
              end
          end
        else Some (None, stack, value)
    end.

  (** which error a failed reduce stands for *)
  Fixpoint reduce_err (op : oper) (stack : list (oper * Z)) (value : Z) : perr :=
    match stack with
    | [] => ESyntax
    | (top, tv) :: rest =>
        if (o_prec op <? o_prec top) || ((o_prec op =? o_prec top) && o_left op) then
          match o_kind top with
          | ONull => ESyntax
          | k =>
              if (match k with ODiv | OMod => (value =? 0)%Z | _ => false end) then EDivZero
              else match a_bin A k tv value with
                   | Some v' => reduce_err op rest v'
                   | None => EOverflow
                   end
          end
        else ESyntax
    end.

  (** parseValue and parseExpr are mutually recursive; they are written as two
      non-recursive step functions over the functions of the previous fuel level *)
  Definition value_step (pv : list N -> pres Z) (pl : list (oper * Z) -> option Z -> list N -> pres Z)
                        (s : list N) : pres Z :=
    let s := eat_spaces s in
    match s with
    | [] => PErr ESyntax
    | c :: r =>
        if c =? 48 then                                  (* '0' *)
          (if is_hex s then parse_digits 16 0%Z (tl r) else parse_digits 10 0%Z s)
        else if (49 <=? c) && (c <=? 57) then parse_digits 10 0%Z s
        else if c =? 40 then                             (* '(' *)
          match pl [(null_op, 0%Z)] None r with
          | POk v r' =>
              match eat_spaces r' with
              | 41 :: r'' => POk v r''                   (* ')' *)
              | _ => PErr ESyntax
              end
          | PErr e => PErr e
          end
        else if c =? 126 then                            (* '~' *)
          match pv r with
          | POk v r' => match a_not A v with Some v' => POk v' r' | None => PErr EOverflow end
          | PErr e => PErr e
          end
        else if c =? 43 then pv r                        (* '+' *)
        else if c =? 45 then                             (* '-' *)
          match pv r with
          | POk v r' => match a_neg A v with Some v' => POk v' r' | None => PErr EOverflow end
          | PErr e => PErr e
          end
        else PErr ESyntax
    end.

  (** the body of parseExpr: [cur] = None: a value has to be parsed first (start of the
      expression or after a shift); Some v: the current value *)
  Definition loop_step (pv : list N -> pres Z) (pl : list (oper * Z) -> option Z -> list N -> pres Z)
                       (stack : list (oper * Z)) (cur : option Z) (s : list N) : pres Z :=
    match cur with
    | None =>
        match pv s with
        | POk v r => pl stack (Some v) r
        | PErr e => PErr e
        end
    | Some value =>
        match parse_op s with
        | PErr e => PErr e
        | POk op r =>
            match reduce op stack value with
            | None => PErr (reduce_err op stack value)
            | Some (Some v, _, _) => POk v r             (* sentinel reached: return value *)
            | Some (None, stack', value') => pl ((op, value') :: stack') None r
            end
        end
    end.

  Fixpoint parse_both (fuel : nat) :
    (list N -> pres Z) * (list (oper * Z) -> option Z -> list N -> pres Z) :=
    match fuel with
    | O => (fun _ => PErr EFuel, fun _ _ _ => PErr EFuel)
    | S f => let p := parse_both f in (value_step (fst p) (snd p), loop_step (fst p) (snd p))
    end.
  Definition parse_value (fuel : nat) := fst (parse_both fuel).
  Definition parse_loop (fuel : nat) := snd (parse_both fuel).

  (** eval: parseExpr, then the whole input must be consumed *)
  Definition eval (s : list N) : pres Z :=
    let fuel := (3 * length s + 3)%nat in
    match parse_loop fuel [(null_op, 0%Z)] None s with
    | POk v [] => POk v []
    | POk _ _ => PErr ESyntax
    | PErr e => PErr e
    end.
End Parser.

(** L4 hand model of the segment bookkeeping of Erat (src/Erat.cpp): init/initAlgorithms (Model/Config.v),
    hasNextSegment, sieveSegment's advance, sieveLastSegment.  A segment is (low, high, bytes): byte j,
    bit k of its sieve array stands for the number low + 30*j + bv[k], bv = 7,11,13,17,19,23,29,31.
    uint64_t saturation explicit (checkedAdd).  No proofs. *)
From Coq Require Import NArith List Bool.
From PS Require Import Spec.Primes Model.Pmath Model.Config.
Import ListNotations.
Local Open Scope N_scope.

Record seg := { s_low : N; s_high : N; s_bytes : N; s_last : bool }.

(** one call of Erat::sieveSegment() in state (segmentLow, segmentHigh, sieve_.size()):
    returns the segment that is sieved and the next state *)
Definition sieve_segment (stop low high size : N) : seg * (N * N * N) :=
  if high <? stop then
    (* preSieve(); crossOff(); then advance *)
    let dist := size * 30 in
    let low' := checkedAdd low dist in
    let high' := N.min (checkedAdd high dist) stop in
    ({| s_low := low; s_high := high; s_bytes := size; s_last := false |}, (low', high', size))
  else
    (* sieveLastSegment: rem = byteRemainder(stop); dist = (stop - rem) - segmentLow (uint64 arithmetic);
       sieve_.resize(dist / 30 + 1); ...; segmentLow_ = stop_ *)
    let rem := byteRemainder stop in
    let dist := wrap_sz (wrap_sz (stop + U64 - rem) + U64 - low) in
    let size' := dist / 30 + 1 in
    ({| s_low := low; s_high := high; s_bytes := size'; s_last := true |}, (stop, high, size')).

(** while (hasNextSegment()) sieveSegment();   hasNextSegment: segmentLow_ < stop_ *)
Fixpoint segments_loop (fuel : nat) (stop low high size : N) : option (list seg) :=
  match fuel with
  | O => None
  | S f =>
      if low <? stop then
        let '(sg, (low', high', size')) := sieve_segment stop low high size in
        option_map (cons sg) (segments_loop f stop low' high' size')
      else Some []
  end.

(** all segments Erat sieves for [start, stop] (7 <= start <= stop) with L1 size l1 and sieve size maxKB *)
Definition segments (fuel : nat) (l1 maxKB start stop : N) : option (list seg) :=
  let a := initAlgorithms l1 maxKB start stop in
  segments_loop fuel stop (a_segLow a) (a_segHigh a) (a_sieveSize a).

(** C18 model: the Gram series of src/RiemannR.cpp over the reals, with the source's zeta table
    (Gen/Zeta.v) as exact rationals, and the integer clamp of nthPrimeApprox.  Floating-point rounding
    and libm's log are NOT modelled: the series is the real-valued function the code approximates, cut
    after [gramK] terms (the code runs until the sum stops changing); checks/C18.py measures the
    distance between the implementation's results and kernel-proved enclosures of this model. *)
From Coq Require Import Reals ZArith NArith List Bool.
From PS Require Import Spec.Primes Gen.Zeta.
Import ListNotations.
Local Open Scope bool_scope.
Local Open Scope R_scope.

Definition q2r (p : Z * Z) : R := IZR (fst p) / IZR (snd p).

(** the loop of RiemannR: term *= logx / k; sum += term / (zeta[k + 1] * k) *)
Fixpoint gram_aux (L term : R) (k : positive) (zs : list (Z * Z)) : R :=
  match zs with
  | [] => 0
  | z :: zs' => let term' := term * (L / IZR (Zpos k)) in
                term' / (q2r z * IZR (Zpos k)) + gram_aux L term' (Pos.succ k) zs'
  end.

(** the same sum in Horner form (what the interval proofs evaluate) *)
Fixpoint horner (L : R) (k : positive) (zs : list (Z * Z)) : R :=
  match zs with
  | [] => 0
  | z :: zs' => (L / IZR (Zpos k)) * (1 / (q2r z * IZR (Zpos k)) + horner L (Pos.succ k) zs')
  end.

Definition gramK : nat := 40.
Definition gram_terms : list (Z * Z) := firstn gramK zeta_tbl.

(** RiemannR(x) for x >= 1e-5: sum = 1 + ... *)
Definition gram (x : R) : R := 1 + gram_aux (ln x) 1 1 gram_terms.
Definition gramH (x : R) : R := 1 + horner (ln x) 1 gram_terms.

(** the slack every bound is proved with: room for rounding, truncation of the series and of the
    Newton iteration (measured by the correspondence check to be below 1e-6) *)
Definition margin : R := 1 / 100.

Definition piR (x : N) : R := IZR (Z.of_N (count_primes_spec 0 x)).
Definition NR (x : N) : R := IZR (Z.of_N x).

(** nthPrimeApprox: res > (long double) UINT64_MAX ? UINT64_MAX : (uint64_t) res, on floor(res) *)
Definition clamp64 (fl : Z) : Z := if (fl >? Z.of_N MAX64)%Z then Z.of_N MAX64 else fl.

(** a block of the finite-domain proof: for the integers a..b, pi(a) = i, pi(b) = j, and the reals
    lo, hi (as fractions) enclose every t with gram t in [i, j] *)
Record blk := { b_a : N; b_b : N; b_i : N; b_j : N; b_lo : Z * Z; b_hi : Z * Z }.

Definition blk_real_ok (k : blk) : Prop :=
  gramH (NR (b_b k)) - NR (b_i k) < sqrt (NR (b_a k)) - margin /\
  NR (b_j k) - gramH (NR (b_a k)) < sqrt (NR (b_a k)) - margin /\
  1 <= q2r (b_lo k) <= q2r (b_hi k) /\ gramH (q2r (b_lo k)) <= NR (b_i k) /\ NR (b_j k) <= gramH (q2r (b_hi k)) /\
  q2r (b_hi k) - NR (b_a k) < sqrt (NR (b_a k)) - margin /\
  NR (b_b k) - q2r (b_lo k) < sqrt (NR (b_a k)) - margin.

(** the blocks are contiguous: a_1 = s, a_(k+1) = b_k + 1; returns the first number not covered *)
Fixpoint contig (s : N) (l : list blk) : option N :=
  match l with
  | [] => Some s
  | k :: r => if (b_a k =? s)%N && (b_a k <=? b_b k)%N then contig (b_b k + 1)%N r else None
  end.

(** pi at the block ends, computed incrementally: acc = pi(prev) *)
Fixpoint pi_check (prev acc : N) (l : list blk) : bool :=
  match l with
  | [] => true
  | k :: r => (prev <? b_a k)%N && (b_a k <=? b_b k)%N &&
              (b_i k =? acc + count_primes_spec (prev + 1) (b_a k))%N &&
              (b_j k =? b_i k + count_primes_spec (b_a k + 1) (b_b k))%N &&
              pi_check (b_b k) (b_j k) r
  end.
(** (b, pi(b)) of the last block, or the starting point *)
Fixpoint last_pt (pb pj : N) (l : list blk) : N * N :=
  match l with [] => (pb, pj) | k :: r => last_pt (b_b k) (b_j k) r end.

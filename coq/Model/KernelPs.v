(** L3 model of the kernel with the pre-sieve: the sieve array of every segment starts as PreSieve::preSieve leaves it
    (Model/PreSieveM.v) and only the primes above 163 are sieving primes (SievingPrimes starts after the pre-sieve's
    largest prime).  No proofs. *)
From Coq Require Import NArith List Bool.
From PS Require Import Spec.Primes Gen.Tables Model.Count Model.EratGeom Model.CrossOff Model.PreSieveM.
Import ListNotations.
Local Open Scope N_scope.

(** the bit of the number n in the pre-sieved array of the segment based at low *)
Definition presieve_bit (low n : N) : bool := N.testbit (presieve_byte low (byteof low n)) (rankb (offb n)).

Definition surviving_ps (sg : kseg) (cleared : list (N * N)) : list N :=
  filter (fun n => existsb (N.eqb (n mod 30)) cop30 && (n <=? k_high sg) && presieve_bit (k_low sg) n &&
                   negb (pair_mem (byteof (k_low sg) n) (maskof n) cleared))
         (map (fun i => k_low sg + 7 + N.of_nat i) (seq 0 (N.to_nat (30 * k_size sg)))).

Definition kernel_run_ps (fuelg fuel : nat) (l1 maxKB start stop : N) (sieving_primes : list N) : option (list N) :=
  match segments fuelg l1 maxKB start stop with
  | None => None
  | Some l =>
      match sieve_loop fuel eratSmallSteps stop (map (fun sg => {| k_low := s_low sg; k_size := s_bytes sg; k_high := s_high sg |}) l) sieving_primes [] with
      | None => None
      | Some result => Some (flat_map (fun r => surviving_ps (fst r) (snd r)) result)
      end
  end.

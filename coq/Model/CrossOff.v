(** L3 model of the cross-off loop of EratSmall::crossOff (src/EratSmall.cpp) for one sieving prime in one
    segment, over the step table extracted from the source (Gen/Tables.eratSmallSteps; the 8-way unrolled
    fast path equals eight of these steps by WheelStepsP.eratSmallUnrolled_ok):

      while (i < sieveSize) { sieve[i] &= mask[w]; i += sievingPrime * a[w] + b[w]; w = next(w); }
      prime.set(i - sieveSize, w);

    [cross] returns the cleared (byte index, unset mask) pairs in order and the state stored for the next
    segment.  [spec_cross] is the specification: the multiples prime*q for the successive cofactors q coprime
    to 30.  No proofs here. *)
From Coq Require Import NArith List Bool.
From PS Require Import Gen.Tables Model.Count.
Import ListNotations.
Local Open Scope N_scope.

Definition step_of (steps : list (N * N * N)) (w : N) : N * N * N := nth (N.to_nat w) steps (0, 0, 0).
(** case 8k+7 falls back to case 8k (the for (;;) around each residue class) *)
Definition next_w (w : N) : N := 8 * (w / 8) + (w mod 8 + 1) mod 8.

Fixpoint cross (fuel : nat) (steps : list (N * N * N)) (size sp i w : N) : option (list (N * N) * N * N) :=
  match fuel with
  | O => None
  | S f =>
      if size <=? i then Some ([], i - size, w)
      else let '(mask, a, b) := step_of steps w in
           match cross f steps size sp (i + sp * a + b) (next_w w) with
           | Some (cl, i', w') => Some ((i, mask) :: cl, i', w')
           | None => None
           end
  end.

(** specification side *)
Definition cop30 : list N := [1; 7; 11; 13; 17; 19; 23; 29].
Definition gap30 (qm : N) : N :=
  match qm with 1 => 6 | 7 => 4 | 11 => 2 | 13 => 4 | 17 => 2 | 19 => 4 | 23 => 6 | 29 => 2 | _ => 1 end.
(** the next cofactor coprime to 30 *)
Definition nextc (q : N) : N := q + gap30 (q mod 30).
(** position of a number coprime to 30 inside its byte (7..31) and the byte's unset mask *)
Definition offb (x : N) : N := if x mod 30 =? 1 then 31 else x mod 30.
Definition rankb (o : N) : N := N.of_nat (length (filter (fun b => b <? o) bv)).
Definition maskof (n : N) : N := nth (N.to_nat (rankb (offb n))) BITS 0.
Definition byteof (low n : N) : N := (n - low - 7) / 30.

Fixpoint spec_cross (fuel : nat) (low size p q : N) : option (list (N * N) * N) :=
  match fuel with
  | O => None
  | S f =>
      let n := p * q in
      if size <=? byteof low n then Some ([], q)
      else match spec_cross f low size p (nextc q) with
           | Some (l, qe) => Some ((byteof low n, maskof n) :: l, qe)
           | None => None
           end
  end.

(** all sieving primes of a segment: state (sievingPrime, multipleIndex, wheelIndex) per prime, as stored in
    EratSmall::primes_; returns every cleared (byte, mask) pair and the states for the next segment *)
Fixpoint cross_all (fuel : nat) (steps : list (N * N * N)) (size : N) (sts : list (N * N * N)) : option (list (N * N) * list (N * N * N)) :=
  match sts with
  | [] => Some ([], [])
  | (sp, i, w) :: r =>
      match cross fuel steps size sp i w, cross_all fuel steps size r with
      | Some (cl, i', w'), Some (cls, r') => Some (cl ++ cls, (sp, i', w') :: r')
      | _, _ => None
      end
  end.

(** EratSmall::crossOff(Vector<uint8_t>&): the sieve array is processed in chunks of l1CacheSize bytes, the
    state being stored and reloaded between chunks; cleared byte indices are reported relative to the array *)
Fixpoint cross_chunks (n fuel : nat) (steps : list (N * N * N)) (l1 total off sp i w : N) : option (list (N * N) * N * N) :=
  match n with
  | O => None
  | S n' =>
      if total <=? off then Some ([], i, w)
      else
        let size := N.min l1 (total - off) in
        match cross fuel steps size sp i w with
        | None => None
        | Some (cl, i', w') =>
            match cross_chunks n' fuel steps l1 total (off + l1) sp i' w' with
            | None => None
            | Some (cls, i'', w'') => Some (map (fun c => (fst c + off, snd c)) cl ++ cls, i'', w'')
            end
        end
  end.
Definition cross_small (n fuel : nat) := cross_chunks n fuel eratSmallSteps.

(** ---- the segment loop of the kernel (Erat::sieveSegment driven by PrimeGenerator / CountPrintPrimes ::sieveSegment):
      sqrtHigh = isqrt(segmentHigh); for (; prime <= sqrtHigh; prime = sievingPrimes.next()) addSievingPrime(prime);
      crossOff();
    with EratSmall as the only cross-off algorithm and without the pre-sieve (an all-ones sieve array).
    [pending]: the sieving primes not yet added, ascending (what SievingPrimes::next() will deliver). *)
From PS Require Import Model.Wheel Model.EratGeom.
Record kseg := { k_low : N; k_size : N; k_high : N }.

Fixpoint span_sq (high : N) (ps : list N) : list N * list N :=
  match ps with
  | [] => ([], [])
  | p :: r => if p * p <=? high then let (a, b) := span_sq high r in (p :: a, b) else ([], ps)
  end.

Definition add_primes (stop low : N) (ps : list N) : list (N * N * N) :=
  flat_map (fun p => match addSievingPrime30 stop p low with Some (mi, wi) => [(p / 30, mi, wi)] | None => [] end) ps.

Fixpoint sieve_loop (fuel : nat) (steps : list (N * N * N)) (stop : N) (segs : list kseg) (pending : list N)
    (sts : list (N * N * N)) : option (list (kseg * list (N * N))) :=
  match segs with
  | [] => Some []
  | sg :: rest =>
      let (now, later) := span_sq (k_high sg) pending in
      let sts1 := sts ++ add_primes stop (k_low sg) now in
      match cross_all fuel steps (k_size sg) sts1 with
      | None => None
      | Some (cleared, sts2) =>
          match sieve_loop fuel steps stop rest later sts2 with
          | None => None
          | Some r => Some ((sg, cleared) :: r)
          end
      end
  end.

(** the numbers of a segment whose bit is still set after the cross-off (bits above segmentHigh are ignored:
    the real code masks them with unsetLarger / never reads them) *)
Definition pair_mem (b m : N) (l : list (N * N)) : bool := existsb (fun c => (fst c =? b) && (snd c =? m)) l.
Definition surviving (sg : kseg) (cleared : list (N * N)) : list N :=
  filter (fun n => existsb (N.eqb (n mod 30)) cop30 && (n <=? k_high sg) &&
                   negb (pair_mem (byteof (k_low sg) n) (maskof n) cleared))
         (map (fun i => k_low sg + 7 + N.of_nat i) (seq 0 (N.to_nat (30 * k_size sg)))).

(** the whole model kernel for [start, stop] under a configuration: the surviving numbers of all segments *)
Definition kernel_run (fuelg fuel : nat) (l1 maxKB start stop : N) (sieving_primes : list N) : option (list N) :=
  match EratGeom.segments fuelg l1 maxKB start stop with
  | None => None
  | Some l =>
      match sieve_loop fuel eratSmallSteps stop (map (fun sg => {| k_low := EratGeom.s_low sg; k_size := EratGeom.s_bytes sg; k_high := EratGeom.s_high sg |}) l) sieving_primes [] with
      | None => None
      | Some result => Some (flat_map (fun r => surviving (fst r) (snd r)) result)
      end
  end.

(** the model kernel as a total function of the interval (fuel computed from the geometry): what Erat delivers to its
    clients for [start, stop] under the configuration (l1, maxKB) *)
Definition erat_with (sieving_primes : list N) (l1 maxKB start stop : N) : list N :=
  let a := Config.initAlgorithms l1 maxKB start stop in
  let fuelg := (N.to_nat ((stop - Config.a_segLow a) / (30 * Config.a_sieveSize a)) + 2)%nat in
  match EratGeom.segments fuelg l1 maxKB start stop with
  | None => []
  | Some l =>
      let fuel := N.to_nat (3 * fold_right N.max 0 (map EratGeom.s_bytes l) + 4) in
      match sieve_loop fuel eratSmallSteps stop
              (map (fun sg => {| k_low := EratGeom.s_low sg; k_size := EratGeom.s_bytes sg; k_high := EratGeom.s_high sg |}) l)
              sieving_primes [] with
      | None => []
      | Some result => filter (fun n => start <=? n) (flat_map (fun r => surviving (fst r) (snd r)) result)
      end
  end.

(** with the sieving primes taken from the specification *)
Definition erat_model (l1 maxKB start stop : N) : list N :=
  erat_with (Primes.primes_between 7 (N.sqrt stop)) l1 maxKB start stop.

(** SievingPrimes: the sieving primes are themselves produced by the kernel, for [7, sqrt(stop)], recursively
    (2^64 -> 2^32 -> 2^16 -> 2^8 -> 16 -> no sieving primes needed: depth 5) *)
Fixpoint erat_rec (depth : nat) (l1 maxKB start stop : N) : list N :=
  match depth with
  | O => erat_with [] l1 maxKB start stop
  | S d => erat_with (if N.sqrt stop <? 7 then [] else erat_rec d l1 maxKB 7 (N.sqrt stop)) l1 maxKB start stop
  end.
Definition erat_self (l1 maxKB start stop : N) : list N := erat_rec 6 l1 maxKB start stop.

(** the byte values of the sieve array after the cross-off: all ones AND every unset mask applied to the byte *)
Definition byte_val (cleared : list (N * N)) (j : N) : N :=
  fold_left N.land (map snd (filter (fun c => fst c =? j) cleared)) 255.
Definition sieve_bytes (sg : kseg) (cleared : list (N * N)) : list N :=
  map (fun j => byte_val cleared (N.of_nat j)) (seq 0 (N.to_nat (k_size sg))).

(** the end masks of Erat::preSieve / sieveLastSegment on the byte array of a segment *)
Definition and_first (m : N) (bytes : list N) : list N :=
  match bytes with [] => [] | b :: r => N.land b m :: r end.
Fixpoint and_last (m : N) (bytes : list N) : list N :=
  match bytes with [] => [] | [b] => [N.land b m] | b :: r => b :: and_last m r end.
Definition final_bytes (start stop : N) (is_last : bool) (sg : kseg) (cleared : list (N * N)) : list N :=
  let b0 := sieve_bytes sg cleared in
  let b1 := if k_low sg <=? start then and_first (nth (N.to_nat (Config.byteRemainder start)) unsetSmaller 0) b0 else b0 in
  if is_last then and_last (nth (N.to_nat (Config.byteRemainder stop)) unsetLarger 0) b1 else b1.

(** the byte arrays of all segments of a run, in order (the last one gets the stop mask) *)
Fixpoint run_bytes (start stop : N) (result : list (kseg * list (N * N))) : list N :=
  match result with
  | [] => []
  | [r] => final_bytes start stop true (fst r) (snd r)
  | r :: rest => final_bytes start stop false (fst r) (snd r) ++ run_bytes start stop rest
  end.

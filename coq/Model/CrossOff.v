(** L3 model of the cross-off loop of EratSmall::crossOff (src/EratSmall.cpp) for one sieving prime in one
    segment, over the step table extracted from the source (Gen/Tables.eratSmallSteps; the 8-way unrolled
    fast path equals eight of these steps by WheelStepsP.eratSmallUnrolled_ok):

      while (i < sieveSize) { sieve[i] &= mask[w]; i += sievingPrime * a[w] + b[w]; w = next(w); }
      prime.set(i - sieveSize, w);

    [cross] returns the cleared (byte index, unset mask) pairs in order and the state stored for the next
    segment.  [spec_cross] is the specification: the multiples prime*q for the successive cofactors q coprime
    to 30.  No proofs here. *)
From Coq Require Import NArith List Bool.
From PS Require Import Gen.Tables Model.Count.
Import ListNotations.
Local Open Scope N_scope.

Definition step_of (steps : list (N * N * N)) (w : N) : N * N * N := nth (N.to_nat w) steps (0, 0, 0).
(** case 8k+7 falls back to case 8k (the for (;;) around each residue class) *)
Definition next_w (w : N) : N := 8 * (w / 8) + (w mod 8 + 1) mod 8.

Fixpoint cross (fuel : nat) (steps : list (N * N * N)) (size sp i w : N) : option (list (N * N) * N * N) :=
  match fuel with
  | O => None
  | S f =>
      if size <=? i then Some ([], i - size, w)
      else let '(mask, a, b) := step_of steps w in
           match cross f steps size sp (i + sp * a + b) (next_w w) with
           | Some (cl, i', w') => Some ((i, mask) :: cl, i', w')
           | None => None
           end
  end.

(** specification side *)
Definition cop30 : list N := [1; 7; 11; 13; 17; 19; 23; 29].
Definition gap30 (qm : N) : N :=
  match qm with 1 => 6 | 7 => 4 | 11 => 2 | 13 => 4 | 17 => 2 | 19 => 4 | 23 => 6 | 29 => 2 | _ => 1 end.
(** the next cofactor coprime to 30 *)
Definition nextc (q : N) : N := q + gap30 (q mod 30).
(** position of a number coprime to 30 inside its byte (7..31) and the byte's unset mask *)
Definition offb (x : N) : N := if x mod 30 =? 1 then 31 else x mod 30.
Definition rankb (o : N) : N := N.of_nat (length (filter (fun b => b <? o) bv)).
Definition maskof (n : N) : N := nth (N.to_nat (rankb (offb n))) BITS 0.
Definition byteof (low n : N) : N := (n - low - 7) / 30.

Fixpoint spec_cross (fuel : nat) (low size p q : N) : option (list (N * N) * N) :=
  match fuel with
  | O => None
  | S f =>
      let n := p * q in
      if size <=? byteof low n then Some ([], q)
      else match spec_cross f low size p (nextc q) with
           | Some (l, qe) => Some ((byteof low n, maskof n) :: l, qe)
           | None => None
           end
  end.

(** all sieving primes of a segment: state (sievingPrime, multipleIndex, wheelIndex) per prime, as stored in
    EratSmall::primes_; returns every cleared (byte, mask) pair and the states for the next segment *)
Fixpoint cross_all (fuel : nat) (steps : list (N * N * N)) (size : N) (sts : list (N * N * N)) : option (list (N * N) * list (N * N * N)) :=
  match sts with
  | [] => Some ([], [])
  | (sp, i, w) :: r =>
      match cross fuel steps size sp i w, cross_all fuel steps size r with
      | Some (cl, i', w'), Some (cls, r') => Some (cl ++ cls, (sp, i', w') :: r')
      | _, _ => None
      end
  end.

(** EratSmall::crossOff(Vector<uint8_t>&): the sieve array is processed in chunks of l1CacheSize bytes, the
    state being stored and reloaded between chunks; cleared byte indices are reported relative to the array *)
Fixpoint cross_chunks (n fuel : nat) (steps : list (N * N * N)) (l1 total off sp i w : N) : option (list (N * N) * N * N) :=
  match n with
  | O => None
  | S n' =>
      if total <=? off then Some ([], i, w)
      else
        let size := N.min l1 (total - off) in
        match cross fuel steps size sp i w with
        | None => None
        | Some (cl, i', w') =>
            match cross_chunks n' fuel steps l1 total (off + l1) sp i' w' with
            | None => None
            | Some (cls, i'', w'') => Some (map (fun c => (fst c + off, snd c)) cl ++ cls, i'', w'')
            end
        end
  end.
Definition cross_small (n fuel : nat) := cross_chunks n fuel eratSmallSteps.

(** L3/L4: list level.  The numbers the model kernel reports for [start, stop] (the surviving numbers of all segments
    in order, restricted to >= start) are exactly primes_between start stop. *)
From Coq Require Import NArith ZArith List Bool Lia Sorted.
From PS Require Import Spec.Primes Gen.Tables Model.Pmath Model.Config Model.EratGeom Model.Count Model.Wheel Model.CrossOff
  Proofs.TablesP Proofs.PmathP Proofs.ConfigP Proofs.EratGeomP Proofs.CrossOffP Proofs.KernelP Proofs.KernelInitP Proofs.KernelLoopP Proofs.KernelTopP
  Proofs.CountAddP Proofs.KernelTotalP.
Import ListNotations.
Local Open Scope N_scope.
Ltac Zify.zify_post_hook ::= Z.to_euclidean_division_equations.

(** the last segment's segmentHigh is stop *)
Lemma segments_loop_last_high stop : stop <= MAX64 -> forall fuel low high size l,
  geom_inv stop low high size -> segments_loop fuel stop low high size = Some l ->
  Forall (fun sg => s_last sg = true -> s_high sg = stop) l.
Proof.
  intros Hstop. induction fuel as [|f IH]; intros low high size l Hinv H; cbn [segments_loop] in H; [discriminate|].
  destruct (N.ltb_spec low stop) as [Hlt|]; [|injection H as <-; constructor].
  pose proof (sieve_segment_spec stop low high size Hstop Hinv) as HS.
  assert (Hhigh : s_last (fst (sieve_segment stop low high size)) = true -> s_high (fst (sieve_segment stop low high size)) = stop).
  { unfold sieve_segment. destruct Hinv as (_ & _ & _ & Hh). destruct (N.ltb_spec high stop) as [Hl2|Hg2]; cbn [fst s_last s_high]; [discriminate|].
    intros _. lia. }
  destruct (sieve_segment stop low high size) as [sg [[low' high'] size']]. cbn [fst] in Hhigh.
  destruct HS as (Hok & Hl & Hnext).
  destruct (segments_loop f stop low' high' size') as [rest|] eqn:Er; [|discriminate]. cbn in H. injection H as <-.
  constructor; [exact Hhigh|].
  destruct (s_last sg) eqn:Elast.
  - subst low'. destruct f as [|f']; [discriminate|]. cbn [segments_loop] in Er. rewrite N.ltb_irrefl in Er. injection Er as <-. constructor.
  - destruct Hnext as (Hinv' & _). apply (IH _ _ _ _ Hinv' Er).
Qed.

(** the numbers a segment can report *)
Definition hi_of (sg : kseg) : N := N.min (k_high sg) (k_low sg + 30 * k_size sg + 6).

(** the ranges [low + 7, hi_of] of consecutive segments tile [a, b] *)
Fixpoint covers (a : N) (segs : list kseg) (b : N) : Prop :=
  match segs with
  | [] => a = b + 1
  | sg :: r => k_low sg + 7 = a /\ k_low sg mod 30 = 0 /\ a <= hi_of sg + 1 /\ covers (hi_of sg + 1) r b
  end.

Lemma covers_of_segments stop : forall l,
  Forall (seg_ok stop) l -> adjacent l -> Forall (fun sg => s_last sg = true -> s_high sg = stop) l -> l <> [] ->
  covers (s_low (hd {| s_low := 0; s_high := 0; s_bytes := 0; s_last := false |} l) + 7) (map to_kseg l) stop.
Proof.
  induction l as [|sg r IH]; intros Hok Hadj Hlast Hne; [congruence|].
  inversion Hok as [|? ? Hsg Hr]; subst. inversion Hlast as [|? ? Hl1 Hlr]; subst.
  cbn [hd map covers to_kseg k_low]. destruct Hsg as (H30 & Hb & H7 & Hcase).
  split; [reflexivity|]. split; [exact H30|].
  unfold hi_of. cbn [to_kseg k_low k_size k_high].
  destruct r as [|sg' r'].
  - cbn [adjacent] in Hadj. rewrite Hadj in Hcase. rewrite (Hl1 Hadj). cbn [map covers].
    unfold byteRemainder in Hcase. split; lia.
  - cbn [adjacent] in Hadj. destruct Hadj as (Hnl & Hnext & Hadj'). rewrite Hnl in Hcase. destruct Hcase as (Hh & _).
    rewrite Hh, N.min_id. split; [lia|].
    specialize (IH Hr Hadj' Hlr ltac:(discriminate)). cbn [hd] in IH. rewrite Hnext in IH.
    replace (s_low sg + 30 * s_bytes sg + 6 + 1) with (s_low sg + 30 * s_bytes sg + 7) by lia. exact IH.
Qed.

Lemma sorted_app (l1 l2 : list N) : StronglySorted N.lt l1 -> StronglySorted N.lt l2 ->
  (forall x y, In x l1 -> In y l2 -> x < y) -> StronglySorted N.lt (l1 ++ l2).
Proof.
  induction l1 as [|a l1 IH]; intros S1 S2 H; cbn [app]; [exact S2|].
  inversion S1 as [|? ? S1' A1]; subst. constructor.
  - apply IH; [exact S1'|exact S2|]. intros x y Hx Hy. apply H; [right; exact Hx|exact Hy].
  - apply Forall_app. split; [exact A1|]. apply Forall_forall. intros y Hy. apply H; [left; reflexivity|exact Hy].
Qed.

Lemma surviving_sorted sg cleared : StronglySorted N.lt (surviving sg cleared).
Proof.
  unfold surviving. apply StronglySorted_filter.
  generalize (N.to_nat (30 * k_size sg)). intros len. generalize 0%nat.
  induction len as [|len IH]; intros s; cbn [seq map]; [constructor|]. constructor; [apply IH|].
  apply Forall_forall. intros y Hy. apply in_map_iff in Hy. destruct Hy as (i & <- & Hi). apply in_seq in Hi. lia.
Qed.

(** membership and order of everything the loop reports *)
Lemma flat_surviving : forall result a b,
  Forall seg_result_ok result -> covers a (map fst result) b ->
  (forall n, In n (flat_map (fun r => surviving (fst r) (snd r)) result) <-> prime n /\ a <= n /\ n <= b) /\
  StronglySorted N.lt (flat_map (fun r => surviving (fst r) (snd r)) result) /\
  (forall n, In n (flat_map (fun r => surviving (fst r) (snd r)) result) -> a <= n).
Proof.
  induction result as [|[sg cleared] rest IH]; intros a b Hok Hcov; cbn [map fst covers flat_map] in *.
  - split; [|split; [constructor|intros n []]]. intros n. split; [intros []|intros (_ & H1 & H2); lia].
  - inversion Hok as [|? ? Hsg Hrest]; subst. destruct Hcov as (Ha & H30 & Hne & Hcov).
    destruct (IH _ _ Hrest Hcov) as (Hmem & Hsorted & Hlow).
    pose proof (surviving_spec sg cleared H30 Hsg) as Hs.
    assert (Hhi : forall n, In n (surviving sg cleared) <-> prime n /\ a <= n /\ n <= hi_of sg).
    { intros n. rewrite Hs. unfold hi_of. split.
      - intros (H1 & H2 & H3 & H4). split; [exact H1|]. lia.
      - intros (H1 & H2 & H3). split; [exact H1|]. lia. }
    cbn [fst snd]. split; [|split].
    + intros n. rewrite in_app_iff, Hhi, Hmem. split.
      * intros [(H1 & H2 & H3)|(H1 & H2 & H3)]; (split; [exact H1|]).
        -- split; [exact H2|]. (* hi_of sg <= b: the remaining ranges start above it *)
           set (h := hi_of sg) in *. clearbody h. clear - H3 Hcov.
           assert (G : forall l x, covers x l b -> x <= b + 1).
           { induction l as [|s l IHl]; intros x Hx; cbn [covers] in Hx; [lia|]. destruct Hx as (E & _ & Hn & Hx). specialize (IHl _ Hx). lia. }
           specialize (G _ _ Hcov). lia.
        -- split; [|exact H3]. (* a <= hi_of sg + 1 <= n *)
           lia.
      * intros (H1 & H2 & H3). destruct (N.le_gt_cases n (hi_of sg)) as [Hle|Hgt]; [left|right]; (split; [exact H1|]); lia.
    + apply sorted_app; [apply surviving_sorted|exact Hsorted|].
      intros x y Hx Hy. apply Hhi in Hx. specialize (Hlow y Hy). lia.
    + intros n Hn. apply in_app_iff in Hn. destruct Hn as [Hn|Hn]; [apply Hhi in Hn; lia|].
      specialize (Hlow n Hn). lia.
Qed.

Lemma result_bases fuel steps stop : forall segs pending sts res,
  sieve_loop fuel steps stop segs pending sts = Some res -> map fst res = segs.
Proof.
  induction segs as [|sg rest IH]; intros pending sts res H; cbn [sieve_loop] in H.
  - injection H as <-. reflexivity.
  - destruct (span_sq (k_high sg) pending) as [now later].
    destruct (cross_all fuel steps (k_size sg) (sts ++ add_primes stop (k_low sg) now)) as [[cl st2]|]; [|discriminate].
    destruct (sieve_loop fuel steps stop rest later st2) as [r|] eqn:E; [|discriminate]. injection H as <-.
    cbn [map fst]. rewrite (IH _ _ _ E). reflexivity.
Qed.

Lemma max_bytes_ge (l : list seg) sg : In sg l -> s_bytes sg <= fold_right N.max 0 (map s_bytes l).
Proof.
  induction l as [|x r IH]; intros H; [destruct H|]. cbn [map fold_right]. destruct H as [->|H]; [lia|]. specialize (IH H). lia.
Qed.

(** the model kernel meets the specification the iterator / counting theorems assume of the sieve: for every
    configuration it returns exactly the primes of the interval, in ascending order *)
Theorem erat_model_spec l1 maxKB : 16 <= maxKB -> maxKB <= 8192 ->
  forall s e, 7 <= s -> s <= e -> e <= MAX64 -> erat_model l1 maxKB s e = primes_between s e.
Proof.
  intros K1 K2 s e S1 S2 S3. unfold erat_model, erat_with.
  pose proof (initAlgorithms_admissible l1 maxKB s e K1 K2 S1 S2 S3) as A. cbn zeta in A.
  set (a := initAlgorithms l1 maxKB s e) in *.
  destruct A as (A1 & A2 & A3 & A4 & A5 & A6 & A7 & A8 & A9 & A10 & A11).
  assert (Hinv : geom_inv e (a_segLow a) (a_segHigh a) (a_sieveSize a)) by (unfold geom_inv; repeat split; try assumption; lia).
  set (fuelg := (N.to_nat ((e - a_segLow a) / (30 * a_sieveSize a)) + 2)%nat).
  pose proof (segments_loop_total e S3 fuelg _ _ _ Hinv (Nat.le_refl _)) as Htot.
  unfold segments. fold a.
  destruct (segments_loop fuelg e (a_segLow a) (a_segHigh a) (a_sieveSize a)) as [l|] eqn:El; [|congruence].
  assert (Hsegs : segments fuelg l1 maxKB s e = Some l) by (unfold segments; fold a; exact El).
  destruct (segments_ok l1 maxKB s e fuelg l K1 K2 S1 S2 S3 Hsegs) as (Hne & Hall & Hadj & Hfirst). cbn zeta in Hfirst.
  pose proof (segments_loop_last_high e S3 fuelg _ _ _ l Hinv El) as Hlast.
  assert (Hhigh : Forall (fun sg => s_high sg <= e) l) by exact (segments_loop_high e _ _ _ _ _ A10 El).
  set (fuel := N.to_nat (3 * fold_right N.max 0 (map s_bytes l) + 4)).
  change (map (fun sg => {| k_low := s_low sg; k_size := s_bytes sg; k_high := s_high sg |}) l) with (map to_kseg l).
  destruct l as [|sg0 r0]; [congruence|].
  pose proof (segs_ok_of_segments e S3 (sg0 :: r0) Hall Hadj Hhigh (s_low sg0) eq_refl) as Hsok.
  (* the loop terminates *)
  assert (Hpend : Forall (sp_ok e 7) (primes_between 7 (N.sqrt e))).
  { apply Forall_forall. intros p Hp. apply In_primes_between in Hp. destruct Hp as (H7 & Hs & Hpr).
    split; [exact Hpr|]. split; [exact H7|]. apply sqrt_sq_le. exact Hs. }
  assert (Hfuel : Forall (fun sg => 30 * k_size sg + 38 <= 14 * N.of_nat fuel) (map to_kseg (sg0 :: r0))).
  { apply Forall_forall. intros k Hk. apply in_map_iff in Hk. destruct Hk as (sg & <- & Hsg). cbn [to_kseg k_size].
    pose proof (max_bytes_ge (sg0 :: r0) sg Hsg) as Hm. unfold fuel. rewrite N2Nat.id. lia. }
  pose proof (Proofs.KernelTotalP.sieve_loop_total eratSmallSteps eratSmallSteps_entries e S3 7 (N.le_refl 7) fuel
                (map to_kseg (sg0 :: r0)) (s_low sg0) (primes_between 7 (N.sqrt e)) [] ltac:(unfold fuel; lia) Hfuel Hsok (Forall_nil _) Hpend) as Hlt.
  cbn [map] in Hlt.
  destruct (sieve_loop fuel eratSmallSteps e (map to_kseg (sg0 :: r0)) (primes_between 7 (N.sqrt e)) []) as [result|] eqn:Er; [|cbn [map] in Er; congruence].
  pose proof (erat_kernel_correct l1 maxKB s e fuelg fuel (sg0 :: r0) result K1 K2 S1 S2 S3 Hsegs Er) as Hres.
  pose proof (covers_of_segments e (sg0 :: r0) Hall Hadj Hlast ltac:(discriminate)) as Hcov. cbn [hd] in Hcov, Hfirst.
  rewrite <- (result_bases _ _ _ _ _ _ _ Er) in Hcov.
  destruct (flat_surviving result _ _ Hres Hcov) as (Hmem & Hsorted & _).
  apply sorted_ext.
  - apply StronglySorted_filter. exact Hsorted.
  - apply primes_between_sorted.
  - intros x. rewrite filter_In, Hmem, In_primes_between, N.leb_le. destruct Hfirst as (_ & Hf1 & _). split.
    + intros ((Hp & H1 & H2) & H3). split; [exact H3|]. split; [exact H2|exact Hp].
    + intros (H1 & H2 & Hp). split; [split; [exact Hp|]; lia|exact H1].
Qed.

(** the kernel that produces its own sieving primes (SievingPrimes): same result, no specification inside the model *)
Lemma erat_with_spec l1 maxKB pending s e : 16 <= maxKB -> maxKB <= 8192 -> 7 <= s -> s <= e -> e <= MAX64 ->
  pending = primes_between 7 (N.sqrt e) -> erat_with pending l1 maxKB s e = primes_between s e.
Proof. intros K1 K2 S1 S2 S3 ->. exact (erat_model_spec l1 maxKB K1 K2 s e S1 S2 S3). Qed.

Lemma sqrt_lt_49 e : N.sqrt e < 7 -> primes_between 7 (N.sqrt e) = [].
Proof. intros H. apply primes_between_empty. exact H. Qed.

Lemma erat_rec_spec l1 maxKB : 16 <= maxKB -> maxKB <= 8192 ->
  forall depth s e, 7 <= s -> s <= e -> e <= MAX64 -> e < 2 ^ (2 ^ N.of_nat (depth + 2)) ->
  erat_rec depth l1 maxKB s e = primes_between s e.
Proof.
  intros K1 K2. induction depth as [|d IH]; intros s e S1 S2 S3 Hd; cbn [erat_rec].
  - (* e < 2^4 = 16: sqrt e <= 3, no sieving primes *)
    apply erat_with_spec; try assumption. symmetry. apply sqrt_lt_49.
    change (2 ^ (2 ^ N.of_nat (0 + 2))) with 16 in Hd. assert (N.sqrt e * N.sqrt e <= e) by (apply N.sqrt_spec; lia). nia.
  - apply erat_with_spec; try assumption.
    destruct (N.ltb_spec (N.sqrt e) 7) as [Hlt|Hge]; [symmetry; apply sqrt_lt_49; exact Hlt|].
    assert (Hsq : N.sqrt e * N.sqrt e <= e) by (apply N.sqrt_spec; lia).
    apply IH; [lia|exact Hge|unfold MAX64 in *; nia|].
    (* sqrt e < 2^(2^(d+2)) because e < 2^(2^(d+3)) = (2^(2^(d+2)))^2 *)
    replace (N.of_nat (Datatypes.S d + 2)) with (N.of_nat (d + 2) + 1) in Hd by lia.
    rewrite N.pow_add_r, N.pow_1_r in Hd. set (k := 2 ^ N.of_nat (d + 2)) in *.
    rewrite N.mul_comm in Hd. change (2 * k) with (k + k)%N in Hd || replace (2 * k) with (k + k) in Hd by lia.
    rewrite N.pow_add_r in Hd. set (P := 2 ^ k) in *.
    destruct (N.lt_ge_cases (N.sqrt e) P) as [|Hc]; [assumption|exfalso].
    pose proof (N.mul_le_mono _ _ _ _ Hc Hc). lia.
Qed.

Theorem erat_self_spec l1 maxKB : 16 <= maxKB -> maxKB <= 8192 ->
  forall s e, 7 <= s -> s <= e -> e <= MAX64 -> erat_self l1 maxKB s e = primes_between s e.
Proof.
  intros K1 K2 s e S1 S2 S3. unfold erat_self. apply erat_rec_spec; try assumption.
  change (2 ^ (2 ^ N.of_nat (6 + 2))) with (2 ^ 256). unfold MAX64 in S3.
  apply N.le_lt_trans with 18446744073709551615; [exact S3|]. apply N.lt_trans with (2 ^ 64); [reflexivity|]. apply N.pow_lt_mono_r; lia.
Qed.

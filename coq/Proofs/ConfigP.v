(** C08: every reachable configuration is admissible: the clamps are total and in range for arbitrary
    settings and arbitrary cache descriptions; Erat::initAlgorithms yields a legal sieve geometry for
    every L1 size, sieve-size setting and interval. *)
From Coq Require Import NArith ZArith List Bool Lia.
From PS Require Import Spec.Primes Gen.Tables Model.Pmath Model.Config Proofs.PmathP.
Local Open Scope N_scope.

Lemma set_sieve_size_range s : 16 <= set_sieve_size s /\ set_sieve_size s <= 8192.
Proof. apply inBetween_range. lia. Qed.

Lemma set_num_threads_range maxThreads t : 1 <= maxThreads -> 1 <= set_num_threads maxThreads t /\ set_num_threads maxThreads t <= maxThreads.
Proof. intros H. apply inBetween_range. exact H. Qed.

(** get_sieve_size is in [16, 8192] KiB for EVERY cache description (zero, huge, inconsistent values
    included) once a user value, if any, has gone through set_sieve_size *)
Theorem get_sieve_size_range user c :
  (user = 0 \/ (16 <= user /\ user <= 8192)) -> 16 <= get_sieve_size user c /\ get_sieve_size user c <= 8192.
Proof.
  intros Hu. unfold get_sieve_size.
  destruct (N.eqb_spec user 0) as [->|Hne]; cbn [negb].
  - destruct (hasL1 c && hasL2 c).
    + destruct (hasL2s c && ((1 <? c_l2s c) || hasL3s c && (1 <? c_l3s c))); apply inBetween_range; lia.
    + destruct (hasL1 c); apply inBetween_range; lia.
  - destruct Hu as [|H]; [congruence|exact H].
Qed.

(* ---------- floorPow2 ---------- *)
Lemma floorPow2_spec x : 1 <= x -> floorPow2 x <= x /\ x < 2 * floorPow2 x /\ floorPow2 x = 2 ^ N.log2 x.
Proof.
  intros H. unfold floorPow2. destruct (N.eqb_spec x 0); [lia|].
  pose proof (N.log2_spec x ltac:(lia)) as [H1 H2]. rewrite N.pow_succ_r' in H2. lia.
Qed.

Lemma floorPow2_ge_16K x : 16384 <= x -> 16384 <= floorPow2 x /\ floorPow2 x mod 8 = 0 /\ isPow2 (floorPow2 x) = true.
Proof.
  intros H. destruct (floorPow2_spec x ltac:(lia)) as (H1 & H2 & H3).
  assert (Hl : 14 <= N.log2 x).
  { change 14 with (N.log2 16384). apply N.log2_le_mono. exact H. }
  assert (E : 2 ^ N.log2 x = 16384 * 2 ^ (N.log2 x - 14)).
  { change 16384 with (2 ^ 14). rewrite <- N.pow_add_r. f_equal. lia. }
  rewrite H3, E. split; [|split].
  - assert (1 <= 2 ^ (N.log2 x - 14)) by (pose proof (N.pow_nonzero 2 (N.log2 x - 14) ltac:(lia)); lia). nia.
  - replace (16384 * 2 ^ (N.log2 x - 14)) with (2 ^ (N.log2 x - 14) * 2048 * 8) by lia. apply N.mod_mul. lia.
  - rewrite <- E. unfold isPow2. rewrite N.log2_pow2 by lia.
    pose proof (N.pow_nonzero 2 (N.log2 x) ltac:(lia)). destruct (N.eqb_spec (2 ^ N.log2 x) 0); [lia|]. cbn [negb andb]. apply N.eqb_refl.
Qed.

Ltac Zify.zify_post_hook ::= Z.to_euclidean_division_equations.

Lemma ceil8_spec x : ceil8 x mod 8 = 0 /\ x <= ceil8 x /\ ceil8 x < x + 8.
Proof. unfold ceil8, ceilDiv. lia. Qed.

Lemma cfg_values :
  cfg_FACTOR_SIEVESIZE_num = 20 /\ cfg_FACTOR_SIEVESIZE_den = 10 /\ cfg_FACTOR_ERATSMALL_num = 2 /\ cfg_FACTOR_ERATSMALL_den = 10 /\
  cfg_FACTOR_ERATMEDIUM_num = 30 /\ cfg_FACTOR_ERATMEDIUM_den = 10.
Proof. vm_compute. repeat split; reflexivity. Qed.

(** C08: initAlgorithms is admissible for every configuration *)
Theorem initAlgorithms_admissible l1 maxKB start stop :
  16 <= maxKB -> maxKB <= 8192 -> 7 <= start -> start <= stop -> stop <= MAX64 ->
  let a := initAlgorithms l1 maxKB start stop in
  a_sieveSize a mod 8 = 0 /\ 8 <= a_sieveSize a /\ a_sieveSize a <= 8192 * 1024 /\
  a_maxSmall a <= a_maxMedium a /\ a_maxMedium a <= N.sqrt stop /\
  (a_bigUsed a = true -> isPow2 (a_sieveSize a) = true /\ 16384 <= a_sieveSize a) /\
  a_segLow a mod 30 = 0 /\ a_segLow a + 7 <= start /\ start <= a_segLow a + 36 /\
  a_segHigh a <= stop /\ a_segHigh a = N.min (a_segLow a + 30 * a_sieveSize a + 6) stop.
Proof.
  intros HK1 HK2 Hst1 Hst2 Hst3. destruct cfg_values as (F1 & F2 & F3 & F4 & F5 & F6).
  unfold initAlgorithms. rewrite F1, F2, F3, F4, F5, F6. cbn zeta.
  set (sq := N.sqrt stop).
  set (l1c := ceil8 (inBetween (16 * 1024) l1 (8192 * 1024))).
  assert (Hl1 : 16384 <= l1c /\ l1c <= 8388608 /\ l1c mod 8 = 0).
  { subst l1c. pose proof (inBetween_range (16 * 1024) l1 (8192 * 1024) ltac:(lia)). pose proof (ceil8_spec (inBetween (16 * 1024) l1 (8192 * 1024))). lia. }
  set (mss := ceil8 (maxKB * 1024)).
  assert (Hmss : mss = maxKB * 1024) by (subst mss; unfold ceil8, ceilDiv; lia).
  set (minS := N.min l1c mss).
  set (s0 := sq * 20 / 10).
  set (s1 := if minS <? s0 then s0 - s0 mod minS else s0).
  set (s2 := ceil8 (inBetween (16 * 1024) (inBetween minS s1 mss) (8192 * 1024))).
  assert (Hs2r : 16384 <= s2 /\ s2 <= 8388608 /\ s2 mod 8 = 0).
  { subst s2. pose proof (inBetween_range (16 * 1024) (inBetween minS s1 mss) (8192 * 1024) ltac:(lia)). pose proof (ceil8_spec (inBetween (16 * 1024) (inBetween minS s1 mss) (8192 * 1024))). lia. }
  set (big := s2 * 30 / 10 <? sq).
  set (s3 := if big then floorPow2 s2 else s2).
  assert (Hs3 : 16384 <= s3 /\ s3 <= 8388608 /\ s3 mod 8 = 0 /\ (big = true -> isPow2 s3 = true)).
  { subst s3. destruct big.
    - destruct (floorPow2_ge_16K s2 ltac:(lia)) as (G1 & G2 & G3). destruct (floorPow2_spec s2 ltac:(lia)) as (G4 & _). repeat split; try lia; auto.
    - repeat split; try lia; try discriminate. }
  set (minS2 := N.min l1c s3).
  set (mSmall := N.min (if big then minS2 * 2 / 10 else N.min l1c s2 * 2 / 10) sq).
  set (mMed := N.min (if big then s3 * 30 / 10 else s2 * 30 / 10) sq).
  assert (HmM : mSmall <= mMed /\ mMed <= sq).
  { subst mSmall mMed minS2 s3. destruct big; lia. }
  assert (Hbig : (mMed <? sq) = big).
  { subst mMed big s3. destruct (N.ltb_spec (s2 * 30 / 10) sq) as [Hb|Hb]; cbn.
    - destruct (floorPow2_spec s2 ltac:(lia)) as (G4 & _). apply N.ltb_lt. lia.
    - apply N.ltb_ge. lia. }
  cbn [a_sieveSize a_maxSmall a_maxMedium a_segLow a_segHigh a_bigUsed].
  fold sq l1c mss minS s0 s1 s2 big s3 minS2 mSmall mMed.
  clearbody mMed mSmall minS2 s3 big s2 s1 s0 minS mss l1c sq.
  set (rem := byteRemainder start). assert (Hrem : 7 <= rem /\ rem <= 36 /\ (start - rem) mod 30 = 0 /\ rem <= start) by (subst rem; unfold byteRemainder; lia).
  set (segLow := start - rem).
  set (segHigh := N.min (checkedAdd segLow (s3 * 30 + 6)) stop).
  set (tiny := (stop <=? segHigh) && (sq <=? mMed)).
  set (s4 := if tiny then ceil8 ((stop - byteRemainder stop - segLow) / 30 + 1) else s3).
  assert (Hs4 : s4 mod 8 = 0 /\ 8 <= s4 /\ s4 <= 8388608 /\ (tiny = false -> s4 = s3)).
  { subst s4. destruct tiny eqn:Et; [|lia].
    pose proof (ceil8_spec ((stop - byteRemainder stop - segLow) / 30 + 1)) as (C1 & C2 & C3).
    split; [exact C1|]. split; [lia|]. split; [|discriminate].
    subst tiny. apply andb_true_iff in Et. destruct Et as [Et _]. apply N.leb_le in Et.
    assert (Hst : stop <= checkedAdd segLow (s3 * 30 + 6)) by (subst segHigh; lia).
    pose proof (checkedAdd_min segLow (s3 * 30 + 6) ltac:(subst segLow; lia)) as Hca. rewrite Hca in Hst.
    assert (Hd : stop <= segLow + s3 * 30 + 6) by lia.
    assert (Hx : (stop - byteRemainder stop - segLow) / 30 + 1 <= s3).
    { unfold byteRemainder. clear - Hd Hs3. generalize dependent segLow. intros. lia. }
    clear - C1 C2 C3 Hx Hs3. lia. }
  rewrite Hbig.
  assert (Hnt : big = true -> tiny = false).
  { intros Hb. subst tiny. destruct (N.leb_spec sq mMed) as [Hle|]; [|apply andb_false_r].
    exfalso. rewrite <- Hbig in Hb. apply N.ltb_lt in Hb. lia. }
  split; [tauto|]. split; [tauto|]. split; [tauto|]. split; [tauto|]. split; [tauto|].
  split.
  { intros Hb. destruct Hs3 as (G1 & _ & _ & Hp). specialize (Hp Hb). destruct Hs4 as (_ & _ & _ & E). rewrite (E (Hnt Hb)). split; [exact Hp|exact G1]. }
  split; [tauto|]. split; [lia|]. split; [lia|]. split; [subst segHigh; lia|].
  pose proof (checkedAdd_min segLow (s3 * 30 + 6) ltac:(subst segLow; lia)) as Hca.
  subst s4. destruct tiny eqn:Et.
  - subst tiny. apply andb_true_iff in Et. destruct Et as [Et _]. apply N.leb_le in Et.
    pose proof (ceil8_spec ((stop - byteRemainder stop - segLow) / 30 + 1)) as (C1 & C2 & C3).
    assert (Hh : segHigh = stop) by (subst segHigh; lia). rewrite Hh.
    assert (stop <= segLow + 30 * ceil8 ((stop - byteRemainder stop - segLow) / 30 + 1) + 6).
    { unfold byteRemainder in *. clear - C2 Hrem Hst2. generalize dependent (ceil8 ((stop - ((stop - 7) mod 30 + 7) - segLow) / 30 + 1)). intros. subst segLow. lia. }
    lia.
  - subst segHigh. rewrite Hca. lia.
Qed.

(** L3: Wheel210::addSievingPrime (model Model/Wheel.v over the source's wheel210Init / wheelOffsets_ tables) puts a
    big sieving prime into exactly the state the EratBig theorems need: byte index and wheel index of the multiple
    prime*q, q the least cofactor coprime to 210 with q >= prime and prime*q > segmentLow + 6 - and, when the prime is
    added no later than the segment containing its square, an index that storeSievingPrime's sizing of buckets_ covers. *)
From Coq Require Import NArith ZArith List Bool Lia Znumtheory.
From PS Require Import Spec.Primes Gen.Tables Model.Count Model.Wheel Model.CrossOff Model.EratBigM
  Proofs.TablesP Proofs.PmathP Proofs.WheelP Proofs.CrossOffP Proofs.KernelP Proofs.KernelInitP Proofs.CrossOff210P
  Proofs.EratBigP Proofs.EratBigSegP.
Import ListNotations.
Local Open Scope N_scope.
Ltac Zify.zify_post_hook ::= Z.to_euclidean_division_equations.

Lemma wheel210Init_sweep : forallb (fun x =>
    let e := nth (N.to_nat x) wheel210Init (0, 0) in
    (fst e <=? 9) && (snd e <? 48) && (nthd cop210 (snd e) =? (x + fst e) mod 210) &&
    forallb (fun d => negb (existsb (N.eqb ((x + d) mod 210)) cop210)) (filter (fun d => d <? fst e) (Nseq 10))) (Nseq 210) = true.
Proof. vm_compute. reflexivity. Qed.

Lemma wheel210_offsets_sweep : forallb (fun ri => nthd wheel210_offsets (nthd pres8 ri mod 30) =? 48 * ri) (Nseq 8) = true.
Proof. vm_compute. reflexivity. Qed.

Lemma prime_coprime210 p : prime p -> 11 <= p -> coprime210 p.
Proof.
  intros Hp H11. apply coprime30_210; [apply prime_coprime30; [exact Hp|lia]|].
  intros H7. assert (D : (7 | Z.of_N p)%Z) by (exists (Z.of_N (p / 7)); lia).
  destruct (prime_divisors _ Hp _ D) as [H|[H|[H|H]]]; lia.
Qed.

Lemma least_gap210 Q f q' : (forall d, d < f -> ~ coprime210 (Q + d)) -> Q <= q' -> coprime210 q' -> Q + f <= q'.
Proof.
  intros H HQ Hc. destruct (N.lt_ge_cases q' (Q + f)) as [Hlt|]; [exfalso|assumption].
  apply (H (q' - Q)); [lia|]. replace (Q + (q' - Q)) with q' by lia. exact Hc.
Qed.

(** the byte index stays within what storeSievingPrime's sizing covers *)
Lemma index_bound p P F low size mi :
  mi = (P + F - (low + 6)) / 30 -> F <= 9 * p -> (P <= low + 30 * size + 6 \/ P <= low + 6 + p) -> 1 <= size ->
  mi <= size - 1 + (p / 30 * 10 + 10).
Proof. intros -> HF HP Hs. lia. Qed.

Theorem asp210_state_ok stop p low mi wi :
  prime p -> 11 <= p -> p < 2 ^ 32 -> low mod 30 = 0 -> stop <= MAX64 -> low + 6 <= MAX64 ->
  addSievingPrime210 stop p low = Some (mi, wi) ->
  exists ri qi q, wi = 48 * ri + qi /\ sprime (p / 30) ri = p /\ w_ok210 low (p / 30, ri, qi, q, mi) /\ p * q <= stop /\
                  wi < 384 /\
                  (forall size, 1 <= size -> p * p <= low + 30 * size + 6 -> mi <= size - 1 + (p / 30 * 10 + 10)).
Proof.
  intros Hp H11 H32 Hl Hstop Hlow H. unfold addSievingPrime210 in H.
  destruct init_factor_bounds as (_ & B210 & _ & _ & _ & M210).
  assert (Hb10 : 10 <= 10) by (clear; lia). assert (Hp1 : 1 <= p) by (clear - H11; lia).
  assert (H7 : 7 <= p) by (clear - H11; lia).
  pose proof (addSievingPrime_no_wrap _ _ _ 10 stop p low mi wi B210 Hb10 Hp1 H32 Hstop Hlow H) as NW. cbv zeta in NW.
  assert (Hl6 : low + 6 < U64) by (clear - Hlow; unfold U64, MAX64 in *; lia).
  pose proof (asp_wi _ _ _ _ _ _ _ _ Hl6 H) as Hwi. rewrite M210 in *.
  set (Q := N.max p ((low + 6) / p + 1)) in *.
  pose proof wheel210Init_sweep as T. rewrite forallb_forall in T.
  assert (HQ : Q mod 210 < N.of_nat 210) by (change (N.of_nat 210) with 210; apply N.mod_lt; clear; lia).
  specialize (T _ (In_Nseq 210 _ HQ)). cbv zeta in T.
  set (e := nth (N.to_nat (Q mod 210)) wheel210Init (0, 0)) in *.
  apply andb_true_iff in T. destruct T as [T T4]. apply andb_true_iff in T. destruct T as [T T3].
  apply andb_true_iff in T. destruct T as [T1 T2]. apply N.leb_le in T1. apply N.ltb_lt in T2. apply N.eqb_eq in T3.
  destruct NW as (Nlow & Nstop & Nmi & NpQ).
  pose proof (prime_coprime30 p Hp H7) as Hcp.
  destruct (residue_class p Hcp) as (ri & Hri & Hres & Hsp).
  set (q := Q + fst e) in *.
  assert (Hqm : q mod 210 = nthd cop210 (snd e)).
  { rewrite T3. unfold q. rewrite N.add_mod_idemp_l by (clear; lia). reflexivity. }
  assert (Hcq : coprime210 q).
  { unfold coprime210. rewrite Hqm.
    assert (T8 : forallb (fun k => existsb (N.eqb (nthd cop210 k)) cop210) (Nseq 48) = true) by (vm_compute; reflexivity).
    rewrite forallb_forall in T8. apply existsb_eqb_In. apply T8. apply In_Nseq. exact T2. }
  assert (Hgap : forall d, d < fst e -> ~ coprime210 (Q + d)).
  { intros d Hd Hc. rewrite forallb_forall in T4.
    assert (Hin : In d (filter (fun d => d <? fst e) (Nseq 10))).
    { apply filter_In. split; [apply In_Nseq; change (N.of_nat 10) with 10; clear - Hd T1; lia|apply N.ltb_lt; exact Hd]. }
    specialize (T4 _ Hin). apply negb_true_iff in T4. unfold coprime210 in Hc.
    rewrite <- N.add_mod_idemp_l in Hc by (clear; lia). apply existsb_eqb_In in Hc. congruence. }
  assert (Ewi : wi = 48 * ri + snd e).
  { rewrite Hwi. pose proof wheel210_offsets_sweep as O. rewrite forallb_forall in O. specialize (O ri (In_Nseq 8 _ Hri)).
    apply N.eqb_eq in O. unfold nthd in O at 1. rewrite Hres in O. rewrite O. reflexivity. }
  exists ri, (snd e), q. split; [exact Ewi|].
  split; [symmetry; exact Hsp|]. split; [|split; [exact Nstop|split]].
  - cbn [w_ok210]. rewrite <- Hsp.
    pose proof (coprime30_prod p q Hcp (coprime210_30 q Hcq)) as Hcm.
    assert (Hm7 : low + 7 <= p * q) by (clear - Nlow; lia).
    split.
    + split; [exact Hri|]. split; [exact T2|]. split; [exact Hqm|].
      rewrite <- Hsp. pose proof (position (p * q) low Hl Hcm Hm7) as P.
      replace mi with (byteof low (p * q)); [exact P|].
      rewrite Nmi. symmetry. apply mi_byteof; [exact Hl|exact Nlow|apply coprime30_res; exact Hcm].
    + split; [exact Hp|]. split; [exact H7|]. split; [unfold q; clear - NpQ; lia|].
      intros q' Hq' Hc' Hge. unfold q. apply least_gap210; [exact Hgap| |exact Hc'].
      unfold Q. apply N.max_lub; [exact Hq'|]. apply quotient_le; [clear - H7; lia|exact Hge].
  - clear - Ewi Hri T2. lia.
  - intros size Hs Hsq. apply (index_bound p (p * Q) (p * fst e) low size mi); [| | |exact Hs].
    + rewrite Nmi. unfold q. rewrite N.mul_add_distr_l. reflexivity.
    + rewrite N.mul_comm. apply N.mul_le_mono_r. exact T1.
    + unfold Q. destruct (N.max_spec p ((low + 6) / p + 1)) as [[_ ->]|[_ ->]].
      * right. rewrite N.mul_add_distr_l, N.mul_1_r. pose proof (N.mul_div_le (low + 6) p ltac:(clear - H7; lia)) as Hd. clear - Hd. lia.
      * left. exact Hsq.
Qed.

(** hence storing a prime handed over by addSievingPrime never writes outside buckets_ *)
Theorem asp210_store_ok log2 b stop p low mi wi :
  wf log2 b -> prime p -> 31 <= p -> p < 2 ^ 32 -> low mod 30 = 0 -> stop <= MAX64 -> low + 6 <= MAX64 ->
  p * p <= low + 30 * 2 ^ log2 + 6 ->
  addSievingPrime210 stop p low = Some (mi, wi) ->
  exists b', eb_store log2 b p mi wi = Some b' /\ wf log2 b'.
Proof.
  intros Hwf Hp H31 H32 Hl Hstop Hlow Hsq H.
  destruct (asp210_state_ok stop p low mi wi Hp ltac:(lia) H32 Hl Hstop Hlow H) as (ri & qi & q & _ & _ & _ & _ & Hw & Hb).
  pose proof (size_pos log2) as Hs. fold (size log2) in Hsq.
  destruct (eb_store_ok log2 b p mi wi Hwf ltac:(lia) Hw (Hb (size log2) ltac:(lia) Hsq)) as (b' & H1 & H2 & _).
  exists b'. split; assumption.
Qed.

(** when addSievingPrime stores nothing, no multiple prime*q (q >= prime coprime to 210) of this or any later segment lies at
    or below stop (the multiples with a cofactor divisible by 7 are multiples of 7: pre-sieved) *)
Theorem asp210_none_dead stop p low :
  prime p -> 11 <= p -> p < 2 ^ 32 -> low mod 30 = 0 -> stop <= MAX64 -> low + 6 <= MAX64 ->
  addSievingPrime210 stop p low = None ->
  forall q, p <= q -> coprime210 q -> low + 7 <= p * q -> stop < p * q.
Proof.
  intros Hp H11 H32 Hl Hstop Hlow H q Hq Hc Hge. unfold addSievingPrime210, addSievingPrime in H. cbv zeta in H.
  assert (H7 : 7 <= p) by (clear - H11; lia).
  assert (Hl6 : low + 6 < U64) by (clear - Hlow; unfold U64, MAX64 in *; lia).
  rewrite (wrap64_small (low + 6) Hl6) in H.
  destruct init_factor_bounds as (_ & _ & _ & _ & _ & M210). rewrite M210 in H.
  set (Q := N.max p ((low + 6) / p + 1)) in *.
  pose proof wheel210Init_sweep as T. rewrite forallb_forall in T.
  assert (HQ : Q mod 210 < N.of_nat 210) by (change (N.of_nat 210) with 210; apply N.mod_lt; clear; lia).
  specialize (T _ (In_Nseq 210 _ HQ)). cbv zeta in T.
  set (e := nth (N.to_nat (Q mod 210)) wheel210Init (0, 0)) in *.
  apply andb_true_iff in T. destruct T as [T T4]. apply andb_true_iff in T. destruct T as [T _].
  apply andb_true_iff in T. destruct T as [T1 _]. apply N.leb_le in T1.
  assert (Hgap : forall d, d < fst e -> ~ coprime210 (Q + d)).
  { intros d Hd Hc'. rewrite forallb_forall in T4.
    assert (Hin : In d (filter (fun d => d <? fst e) (Nseq 10))).
    { apply filter_In. split; [apply In_Nseq; change (N.of_nat 10) with 10; clear - Hd T1; lia|apply N.ltb_lt; exact Hd]. }
    specialize (T4 _ Hin). apply negb_true_iff in T4. unfold coprime210 in Hc'.
    rewrite <- N.add_mod_idemp_l in Hc' by (clear; lia). apply existsb_eqb_In in Hc'. congruence. }
  assert (HQq : Q + fst e <= q).
  { apply least_gap210; [exact Hgap| |exact Hc]. unfold Q. apply N.max_lub; [exact Hq|]. apply quotient_le; [clear - H7; lia|exact Hge]. }
  assert (Hpq : p * (Q + fst e) <= p * q) by (apply N.mul_le_mono_l; exact HQq).
  assert (HpQ : p * Q <= p * (Q + fst e)) by (apply N.mul_le_mono_l; clear; lia).
  assert (Hprod : low + 6 < p * Q).
  { assert (HQ1 : (low + 6) / p + 1 <= Q) by (unfold Q; apply N.le_max_r).
    assert (p * ((low + 6) / p + 1) <= p * Q) by (apply N.mul_le_mono_l; exact HQ1).
    pose proof (N.div_mod (low + 6) p ltac:(clear - H7; lia)) as E. pose proof (N.mod_lt (low + 6) p ltac:(clear - H7; lia)) as L.
    clear - H0 E L. lia. }
  destruct (N.lt_ge_cases (p * Q) U64) as [Hnw|Hw].
  - rewrite (wrap64_small (p * Q) Hnw) in H.
    destruct (N.ltb_spec stop (p * Q)) as [Hs|Hs]; [clear - Hs Hpq HpQ; lia|].
    destruct (N.ltb_spec (p * Q) (low + 6)) as [Hs2|Hs2]; [clear - Hs2 Hprod; lia|]. cbn [orb] in H.
    assert (Hpf : p * fst e < U64).
    { change (2 ^ 32) with 4294967296 in H32. assert (p * fst e <= p * 9) by (apply N.mul_le_mono_l; exact T1). clear - H0 H32. unfold U64. lia. }
    rewrite (wrap64_small (p * fst e) Hpf) in H.
    destruct (N.ltb_spec (stop - p * Q) (p * fst e)) as [Hs3|Hs3]; [|discriminate].
    rewrite N.mul_add_distr_l in Hpq. clear - Hs3 Hpq Hs. lia.
  - clear - Hw Hpq HpQ Hstop. unfold U64, MAX64 in *. lia.
Qed.

(** L3: EratBig's bucket machine (Model/EratBigM.eb_cross) -
    (1) never writes through buckets_[segment] with segment >= buckets_.size(), for every sieving prime, sieve
        size 2^log2 and state, given the sizing of storeSievingPrime (sp * maxFactor + maxFactor) - [eb_push_ok];
    (2) terminates - [eb_cross_total];
    (3) computes, up to the order inside the lists, exactly what the single-prime loop with an absolute index
        computes for every stored sieving prime - [eb_cross_spec]: the cleared (byte, mask) pairs are those of
        [steps_to] for every prime, and the new bucket lists hold the states shifted by one segment. *)
From Coq Require Import NArith ZArith List Bool Lia Permutation.
From PS Require Import Gen.Tables Model.Count Model.CrossOff Model.EratBigM Proofs.TablesP.
Import ListNotations.
Local Open Scope N_scope.
Ltac Zify.zify_post_hook ::= Z.to_euclidean_division_equations.

(** the table: factors and corrections are at most getMaxFactor(), next stays inside the table *)
Definition entry_bounds (w : N) : bool :=
  let '(mask, a, c, nxt) := step210 w in
  (a <=? wheel210_maxfactor) && (c <=? wheel210_maxfactor) && (nxt <? 384) && (1 <=? a).
Lemma wheel210_bounds : forallb entry_bounds (Nseq 384) = true.
Proof. vm_compute. reflexivity. Qed.

Lemma step210_bounds w mask a c nxt : w < 384 -> step210 w = (mask, a, c, nxt) ->
  a <= 10 /\ c <= 10 /\ nxt < 384 /\ 1 <= a.
Proof.
  intros Hw E. pose proof wheel210_bounds as T. rewrite forallb_forall in T.
  specialize (T w (In_Nseq 384 _ Hw)). unfold entry_bounds in T. rewrite E in T.
  change wheel210_maxfactor with 10 in T.
  apply andb_true_iff in T. destruct T as [T T4]. apply andb_true_iff in T. destruct T as [T T3].
  apply andb_true_iff in T. destruct T as [T1 T2].
  apply N.leb_le in T1, T2, T4. apply N.ltb_lt in T3. repeat split; assumption.
Qed.

(** ---- generic list lemmas *)
Lemma Forall2_perm {A B} (R : A -> B -> Prop) l l' : Permutation l l' ->
  forall rs, Forall2 R l rs -> exists rs', Permutation rs rs' /\ Forall2 R l' rs'.
Proof.
  induction 1 as [|x l l' HP IH|x y l|l l' l'' HP1 IH1 HP2 IH2]; intros rs HF.
  - inversion HF. subst. exists []. split; constructor.
  - inversion HF as [|? r ? rs0 Hr Hrest]. subst. destruct (IH _ Hrest) as (rs' & P' & F').
    exists (r :: rs'). split; [constructor; exact P'|constructor; assumption].
  - inversion HF as [|? r1 ? rs1 Hr1 Hrest1]. subst. inversion Hrest1 as [|? r2 ? rs2 Hr2 Hrest2]. subst.
    exists (r2 :: r1 :: rs2). split; [apply perm_swap|]. constructor; [assumption|constructor; assumption].
  - destruct (IH1 _ HF) as (rs1 & P1 & F1). destruct (IH2 _ F1) as (rs2 & P2 & F2).
    exists rs2. split; [eapply perm_trans; eassumption|exact F2].
Qed.

Section EB.
Variable log2 : N.
Definition size : N := 2 ^ log2.
Lemma size_pos : 0 < size.
Proof. unfold size. apply N.neq_0_lt_0. apply N.pow_nonzero. lia. Qed.

Definition shift_e (d : N) (e : entry) : entry := let '(sp, i, w) := e in (sp, d + i, w).

Fixpoint abs_from (k : N) (b : buckets) : list entry :=
  match b with [] => [] | l :: r => map (shift_e (k * size)) l ++ abs_from (k + 1) r end.
Definition abs_of (b : buckets) : list entry := abs_from 0 b.

Definition e_ok (len : nat) (e : entry) : Prop :=
  let '(sp, i, w) := e in 1 <= sp /\ i < size /\ w < 384 /\ (N.to_nat (needed_size log2 sp) <= len)%nat.
Definition wf (b : buckets) : Prop := Forall (Forall (e_ok (length b))) b.

(** the single-prime loop with an absolute index, as a relation *)
Inductive steps_to : entry -> list (N * N) -> entry -> Prop :=
| st_done sp i w : size <= i -> steps_to (sp, i, w) [] (sp, i - size, w)
| st_step sp i w mask a c nxt cl e' : i < size -> step210 w = (mask, a, c, nxt) ->
    steps_to (sp, i + a * sp + c, nxt) cl e' -> steps_to (sp, i, w) ((i, mask) :: cl) e'.

Lemma cross210_steps_to : forall fuel sp i w cl i' w',
  cross210 fuel size sp i w = Some (cl, i', w') -> steps_to (sp, i, w) cl (sp, i', w').
Proof.
  induction fuel as [|f IH]; intros sp i w cl i' w' H; cbn [cross210] in H; [discriminate|].
  destruct (N.leb_spec size i) as [Hge|Hlt].
  - injection H as <- <- <-. apply st_done. exact Hge.
  - destruct (step210 w) as [[[mask a] c] nxt] eqn:E.
    destruct (cross210 f size sp (i + a * sp + c) nxt) as [[[cl0 i0] w0]|] eqn:E2; [|discriminate].
    injection H as <- <- <-. eapply st_step; [exact Hlt|exact E|]. apply IH. exact E2.
Qed.

Lemma steps_to_det e cl1 e1 : steps_to e cl1 e1 -> forall cl2 e2, steps_to e cl2 e2 -> cl1 = cl2 /\ e1 = e2.
Proof.
  induction 1 as [sp i w Hge|sp i w mask a c nxt cl e' Hlt E H IH]; intros cl2 e2 H2; inversion H2; subst; try lia.
  - split; reflexivity.
  - match goal with H : step210 w = _ |- _ => rewrite E in H; injection H as <- <- <- <- end.
    match goal with H : steps_to _ _ e2 |- _ => destruct (IH _ _ H) as [-> ->] end. split; reflexivity.
Qed.

(** ---- push_at *)
Lemma push_at_some : forall seg e b, (seg < length b)%nat -> exists b', push_at seg e b = Some b'.
Proof.
  induction seg as [|s IH]; intros e b H; destruct b as [|l r]; cbn [length] in H; try lia; cbn [push_at].
  - eexists. reflexivity.
  - destruct (IH e r) as (r' & ->); [lia|]. eexists. reflexivity.
Qed.

Lemma push_at_length : forall seg e b b', push_at seg e b = Some b' -> length b' = length b.
Proof.
  induction seg as [|s IH]; intros e b b' H; destruct b as [|l r]; cbn [push_at] in H; try discriminate.
  - injection H as <-. reflexivity.
  - destruct (push_at s e r) as [r'|] eqn:E; [|discriminate]. injection H as <-. cbn [length]. f_equal. eapply IH. exact E.
Qed.

Lemma push_at_Forall (P : entry -> Prop) : forall seg e b b', push_at seg e b = Some b' -> P e ->
  Forall (Forall P) b -> Forall (Forall P) b'.
Proof.
  induction seg as [|s IH]; intros e b b' H He HF; destruct b as [|l r]; cbn [push_at] in H; try discriminate.
  - injection H as <-. inversion HF. subst. constructor; [constructor; assumption|assumption].
  - destruct (push_at s e r) as [r'|] eqn:E; [|discriminate]. injection H as <-. inversion HF. subst.
    constructor; [assumption|]. eapply IH; eassumption.
Qed.

Lemma push_at_abs : forall seg e b b' k, push_at seg e b = Some b' ->
  Permutation (abs_from k b') (shift_e ((k + N.of_nat seg) * size) e :: abs_from k b).
Proof.
  induction seg as [|s IH]; intros e b b' k H; destruct b as [|l r]; cbn [push_at] in H; try discriminate.
  - injection H as <-. cbn [abs_from map app]. replace (k + N.of_nat 0) with k by lia. apply Permutation_refl.
  - destruct (push_at s e r) as [r'|] eqn:E; [|discriminate]. injection H as <-. cbn [abs_from].
    specialize (IH e r r' (k + 1) E). replace (k + 1 + N.of_nat s) with (k + N.of_nat (S s)) in IH by lia.
    eapply perm_trans; [apply Permutation_app_head; exact IH|]. symmetry. apply Permutation_middle.
Qed.

(** ---- abs_from: shifting the bucket vector by one segment *)
Lemma shift_shift d d' e : shift_e d (shift_e d' e) = shift_e (d + d') e.
Proof. destruct e as [[sp i] w]. cbn. f_equal. f_equal. lia. Qed.

Lemma abs_from_succ : forall b k, abs_from (k + 1) b = map (shift_e size) (abs_from k b).
Proof.
  induction b as [|l r IH]; intros k; cbn [abs_from map]; [reflexivity|].
  rewrite map_app, map_map, IH. f_equal. apply map_ext. intros e. rewrite shift_shift. f_equal. lia.
Qed.

Lemma abs_from_snoc : forall b k, abs_from k (b ++ [[]]) = abs_from k b.
Proof.
  induction b as [|l r IH]; intros k; cbn [app abs_from map]; [reflexivity|]. rewrite IH. reflexivity.
Qed.

(** ---- one step *)
Lemma seg_bound sp i a c : i < size -> a <= 10 -> c <= 10 -> (i + a * sp + c) / size < needed_size log2 sp.
Proof.
  intros Hi Ha Hc. unfold needed_size. fold size. change wheel210_maxfactor with 10.
  pose proof size_pos as Hs.
  assert (H : (i + a * sp + c) / size <= (size - 1 + (sp * 10 + 10)) / size).
  { apply N.div_le_mono; [lia|]. assert (a * sp <= 10 * sp) by (apply N.mul_le_mono_r; exact Ha). lia. }
  lia.
Qed.

Lemma eb_push_ok e es rest : wf ((e :: es) :: rest) ->
  let '(cl, (seg, e')) := eb_step log2 e in
  exists b', push_at (N.to_nat seg) e' (es :: rest) = Some b' /\ wf b'.
Proof.
  intros Hwf. unfold wf in Hwf. cbn [length] in Hwf.
  inversion Hwf as [|? ? Hhd Hrest]. subst. inversion Hhd as [|? ? He Hes]. subst.
  destruct e as [[sp i] w]. destruct He as (Hsp & Hi & Hw & Hn). unfold eb_step.
  destruct (step210 w) as [[[mask a] c] nxt] eqn:E. fold size.
  destruct (step210_bounds _ _ _ _ _ Hw E) as (Ha & Hc & Hnx & _).
  pose proof (seg_bound sp i a c Hi Ha Hc) as Hseg. pose proof size_pos as Hs.
  destruct (push_at_some (N.to_nat ((i + a * sp + c) / size)) (sp, (i + a * sp + c) mod size, nxt) (es :: rest)) as (b' & Hb').
  { cbn [length]. lia. }
  exists b'. split; [exact Hb'|].
  unfold wf. rewrite (push_at_length _ _ _ _ Hb'). cbn [length].
  eapply push_at_Forall; [exact Hb'| |constructor; assumption].
  cbn. split; [exact Hsp|]. split; [apply N.mod_lt; lia|]. split; [exact Hnx|exact Hn].
Qed.

(** ---- termination *)
Definition mu (b : buckets) : N :=
  match b with [] => 0 | l :: _ => fold_right (fun e acc => let '(_, i, _) := e in (size - i) + acc) 0 l end.

Lemma mu_push seg e es rest b' : push_at seg e (es :: rest) = Some b' ->
  mu b' = match seg with O => (let '(_, i, _) := e in size - i) + mu (es :: rest) | S _ => mu (es :: rest) end.
Proof.
  destruct seg as [|s]; cbn [push_at]; intros H.
  - injection H as <-. destruct e as [[sp i] w]. cbn. reflexivity.
  - destruct (push_at s e rest) as [r'|]; [|discriminate]. injection H as <-. reflexivity.
Qed.

Lemma eb_cross_total : forall n b acc, wf b -> b <> [] -> (N.to_nat (mu b) < n)%nat ->
  exists cl b', eb_cross n log2 b acc = Some (cl, b').
Proof.
  induction n as [|n IH]; intros b acc Hwf Hne Hmu; [lia|].
  destruct b as [|l rest]; [contradiction|]. cbn [eb_cross].
  destruct l as [|e es]; [eexists; eexists; reflexivity|].
  pose proof (eb_push_ok e es rest Hwf) as P.
  assert (He : e_ok (length ((e :: es) :: rest)) e) by (inversion Hwf as [|? ? Hhd _]; inversion Hhd; assumption).
  destruct e as [[sp i] w]. destruct He as (Hsp & Hi & Hw & _).
  unfold eb_step in *. destruct (step210 w) as [[[mask a] c] nxt] eqn:E. fold size in *.
  destruct (step210_bounds _ _ _ _ _ Hw E) as (_ & _ & _ & Ha1).
  destruct P as (b' & Hb' & Hwf'). rewrite Hb'.
  apply IH; [exact Hwf'| |].
  - intros ->. apply push_at_length in Hb'. cbn in Hb'. discriminate.
  - rewrite (mu_push _ _ _ _ _ Hb'). cbn [mu fold_right] in Hmu |- *. pose proof size_pos as Hs.
    destruct (N.to_nat ((i + a * sp + c) / size)) eqn:Es.
    + assert (Hz : (i + a * sp + c) / size = 0) by lia.
      assert (Hlt : i + a * sp + c < size) by (apply N.div_small_iff in Hz; lia).
      rewrite N.mod_small by exact Hlt.
      set (m := fold_right (fun e acc0 => let '(_, i0, _) := e in size - i0 + acc0) 0 es) in *. clearbody m.
      assert (1 <= a * sp) by (apply (N.le_trans _ (1 * 1)); [lia|apply N.mul_le_mono; assumption]). lia.
    + set (m := fold_right (fun e acc0 => let '(_, i0, _) := e in size - i0 + acc0) 0 es) in *. clearbody m. lia.
Qed.

(** ---- refinement to the single-prime loop *)
Definition Rst (e : entry) (r : list (N * N) * entry) : Prop := steps_to e (fst r) (snd r).

Lemma shift_0 e : shift_e (0 * size) e = e.
Proof. destruct e as [[sp i] w]. cbn. reflexivity. Qed.

Lemma far_steps : forall L, Forall2 Rst (map (shift_e size) L) (map (fun e => ([], e)) L).
Proof.
  induction L as [|e L IH]; cbn [map]; constructor; [|exact IH].
  destruct e as [[sp i] w]. unfold Rst. cbn [shift_e fst snd].
  assert (X : steps_to (sp, size + i, w) [] (sp, size + i - size, w)) by (apply st_done; lia).
  replace (size + i - size) with i in X by lia. exact X.
Qed.

Lemma flat_map_nil (L : list entry) : flat_map fst (map (fun e : entry => (@nil (N * N), e)) L) = [].
Proof. induction L as [|e L IH]; cbn; [reflexivity|exact IH]. Qed.

Theorem eb_cross_spec : forall fuel b acc cl bf, wf b -> eb_cross fuel log2 b acc = Some (cl, bf) ->
  exists rs, Forall2 Rst (abs_of b) rs /\ Permutation cl (flat_map fst rs ++ acc) /\
             Permutation (abs_of bf) (map snd rs) /\ wf bf.
Proof.
  induction fuel as [|f IH]; intros b acc cl bf Hwf H; cbn [eb_cross] in H; [discriminate|].
  destruct b as [|l rest]; [discriminate|]. destruct l as [|e es].
  - injection H as <- <-. exists (map (fun e => ([], e)) (abs_from 0 rest)).
    unfold abs_of. cbn [abs_from map app]. change (0 + 1) with (0 + 1). rewrite abs_from_succ, abs_from_snoc.
    split; [apply far_steps|]. rewrite flat_map_nil. split; [apply Permutation_refl|].
    split; [rewrite map_map; cbn [snd]; rewrite map_id; apply Permutation_refl|].
    unfold wf in *. rewrite app_length. cbn [length] in *. replace (length rest + 1)%nat with (S (length rest)) by lia.
    inversion Hwf. subst. apply Forall_app. split; [assumption|constructor; constructor].
  - pose proof (eb_push_ok e es rest Hwf) as P.
    assert (He : e_ok (length ((e :: es) :: rest)) e) by (inversion Hwf as [|? ? Hhd _]; inversion Hhd; assumption).
    destruct e as [[sp i] w]. destruct He as (Hsp & Hi & Hw & _).
    unfold eb_step in *. destruct (step210 w) as [[[mask a] c] nxt] eqn:E. fold size in *.
    destruct P as (b' & Hb' & Hwf'). rewrite Hb' in H.
    destruct (IH _ _ _ _ Hwf' H) as (rs' & F' & Pcl & Pbf & Hwfbf).
    pose proof (push_at_abs _ _ _ _ 0 Hb') as Pab. fold (abs_of b') in Pab. fold (abs_of (es :: rest)) in Pab.
    pose proof size_pos as Hs.
    assert (Ee : shift_e ((0 + N.of_nat (N.to_nat ((i + a * sp + c) / size))) * size) (sp, (i + a * sp + c) mod size, nxt)
                 = (sp, i + a * sp + c, nxt)).
    { cbn [shift_e]. f_equal. f_equal. rewrite N2Nat.id.
      set (x := i + a * sp + c). clearbody x. pose proof (N.div_mod x size). lia. }
    rewrite Ee in Pab.
    destruct (Forall2_perm Rst _ _ Pab _ F') as (rs'' & Prs & F'').
    inversion F'' as [|? r0 ? rsr Hr0 Frest]. subst.
    exists (((i, mask) :: fst r0, snd r0) :: rsr).
    split.
    { unfold abs_of. cbn [abs_from map]. rewrite shift_0. cbn [app]. constructor; [|exact Frest].
      unfold Rst. cbn [fst snd]. eapply st_step; [exact Hi|exact E|exact Hr0]. }
    split.
    { eapply perm_trans; [exact Pcl|]. cbn [flat_map fst app].
      eapply perm_trans; [apply Permutation_app_tail; apply Permutation_flat_map; exact Prs|].
      cbn [flat_map]. symmetry. apply Permutation_middle. }
    split; [|exact Hwfbf].
    eapply perm_trans; [exact Pbf|]. cbn [map snd]. apply (Permutation_map snd) in Prs. cbn [map] in Prs. exact Prs.
Qed.

(** ---- storeSievingPrime *)
Lemma grow_length : forall n b, length (grow n b) = Nat.max n (length b).
Proof.
  induction n as [|n IH]; intros b; cbn [grow]; [reflexivity|].
  destruct b as [|l r]; cbn [length]; rewrite IH; cbn [length]; lia.
Qed.

Lemma grow_abs : forall n b k, abs_from k (grow n b) = abs_from k b.
Proof.
  induction n as [|n IH]; intros b k; cbn [grow]; [reflexivity|].
  destruct b as [|l r]; cbn [abs_from map app]; rewrite IH; reflexivity.
Qed.

Lemma grow_Forall (P : entry -> Prop) : forall n b, Forall (Forall P) b -> Forall (Forall P) (grow n b).
Proof.
  induction n as [|n IH]; intros b H; cbn [grow]; [exact H|].
  destruct b as [|l r]; [constructor; [constructor|apply IH; constructor]|].
  inversion H. subst. constructor; [assumption|apply IH; assumption].
Qed.

Lemma e_ok_mono len len' e : (len <= len')%nat -> e_ok len e -> e_ok len' e.
Proof. destruct e as [[sp i] w]. unfold e_ok. intros Hl (H1 & H2 & H3 & H4). repeat split; try assumption. lia. Qed.

Lemma Forall2_mono (P Q : entry -> Prop) (b : buckets) : (forall e, P e -> Q e) -> Forall (Forall P) b -> Forall (Forall Q) b.
Proof. intros HPQ H. eapply Forall_impl; [|exact H]. intros l Hl. eapply Forall_impl; [|exact Hl]. exact HPQ. Qed.

(** the multiple index Wheel::addSievingPrime hands over is at most one wheel step beyond the segment *)
Theorem eb_store_ok b prime idx w : wf b -> 30 <= prime -> w < 384 ->
  idx <= size - 1 + (prime / 30 * 10 + 10) ->
  exists b', eb_store log2 b prime idx w = Some b' /\ wf b' /\
             Permutation (abs_of b') ((prime / 30, idx, w) :: abs_of b).
Proof.
  intros Hwf Hp Hw Hidx. unfold eb_store. set (sp := prime / 30). fold size. fold sp in Hidx.
  set (g := grow (N.to_nat (needed_size log2 sp)) b).
  pose proof size_pos as Hs.
  assert (Hlen : length g = Nat.max (N.to_nat (needed_size log2 sp)) (length b)) by apply grow_length.
  assert (Hseg : idx / size < needed_size log2 sp).
  { unfold needed_size. fold size. change wheel210_maxfactor with 10.
    assert (idx / size <= (size - 1 + (sp * 10 + 10)) / size) by (apply N.div_le_mono; lia). lia. }
  destruct (push_at_some (N.to_nat (idx / size)) (sp, idx mod size, w) g) as (b' & Hb'); [lia|].
  exists b'. split; [exact Hb'|]. split.
  - unfold wf. rewrite (push_at_length _ _ _ _ Hb'). eapply push_at_Forall; [exact Hb'| |].
    + cbn. split; [subst sp; lia|]. split; [apply N.mod_lt; lia|]. split; [exact Hw|lia].
    + subst g. apply grow_Forall. rewrite grow_length. eapply Forall2_mono; [|exact Hwf].
      intros e. apply e_ok_mono. lia.
  - pose proof (push_at_abs _ _ _ _ 0 Hb') as Pab. fold (abs_of b') in Pab.
    subst g. rewrite grow_abs in Pab. fold (abs_of b) in Pab.
    replace (shift_e ((0 + N.of_nat (N.to_nat (idx / size))) * size) (sp, idx mod size, w)) with (sp, idx, w) in Pab; [exact Pab|].
    cbn [shift_e]. f_equal. f_equal. rewrite N2Nat.id. pose proof (N.div_mod idx size). lia.
Qed.
End EB.

(** the hypotheses are satisfiable: storing a sieving prime into the empty vector gives a well-formed state *)
Example wf_inhabited : exists b, eb_store 4 [] 1009 5 3 = Some b /\ wf 4 b.
Proof.
  destruct (eb_store_ok 4 [] 1009 5 3) as (b' & H1 & H2 & _); [constructor|lia|lia|vm_compute; discriminate|].
  exists b'. split; assumption.
Qed.

(** L3: EratBig for one segment.  If the bucket lists hold, for every big sieving prime, a correct and minimal state
    (next multiple prime*q, q the least cofactor coprime to 210 not yet crossed), then EratBig::crossOff clears exactly
    the bits of the multiples prime*q', q' >= q coprime to 210, that lie in the segment, and leaves such a state for
    the next segment - for every sieve size 2^log2, every number of sieving primes and every distribution over the
    bucket lists ([eratbig_segment_spec]).  Together with the pre-sieve (multiples of 7) this is what the wheel-30
    algorithms clear for the same primes ([segment_crossed_mix]). *)
From Coq Require Import NArith ZArith List Bool Lia Permutation Znumtheory.
From PS Require Import Spec.Primes Gen.Tables Model.Count Model.CrossOff Model.EratBigM Proofs.TablesP Proofs.CrossOffP
     Proofs.KernelP Proofs.CrossOff210P Proofs.EratBigP.
Import ListNotations.
Local Open Scope N_scope.
Ltac Zify.zify_post_hook ::= Z.to_euclidean_division_equations.

Lemma cop210_30_sweep : forallb (fun r => existsb (N.eqb (r mod 30)) cop30) cop210 = true.
Proof. vm_compute. reflexivity. Qed.

Lemma coprime210_30 q : coprime210 q -> coprime30 q.
Proof.
  unfold coprime210, coprime30. intros H. pose proof cop210_30_sweep as T. rewrite forallb_forall in T.
  specialize (T _ H). apply existsb_eqb_In in T. replace (q mod 30) with ((q mod 210) mod 30) by lia. exact T.
Qed.

Lemma coprime210_not7 q : coprime210 q -> q mod 7 <> 0.
Proof.
  unfold coprime210. intros H.
  assert (T : forallb (fun r => negb (r mod 7 =? 0)) cop210 = true) by (vm_compute; reflexivity).
  rewrite forallb_forall in T. specialize (T _ H). apply negb_true_iff in T. apply N.eqb_neq in T.
  replace (q mod 7) with ((q mod 210) mod 7) by lia. exact T.
Qed.

Lemma coprime30_210 q : coprime30 q -> q mod 7 <> 0 -> coprime210 q.
Proof.
  unfold coprime210, coprime30. intros H H7.
  assert (T : forallb (fun r => implb (existsb (N.eqb (r mod 30)) cop30 && negb (r mod 7 =? 0)) (existsb (N.eqb r) cop210)) (Nseq 210) = true)
    by (vm_compute; reflexivity).
  rewrite forallb_forall in T.
  assert (Hr : q mod 210 < N.of_nat 210) by (change (N.of_nat 210) with 210; apply N.mod_lt; lia).
  specialize (T _ (In_Nseq 210 _ Hr)).
  assert (E1 : existsb (N.eqb ((q mod 210) mod 30)) cop30 = true).
  { apply existsb_eqb_In. replace ((q mod 210) mod 30) with (q mod 30) by lia. exact H. }
  assert (E2 : negb ((q mod 210) mod 7 =? 0) = true).
  { apply negb_true_iff. apply N.eqb_neq. replace ((q mod 210) mod 7) with (q mod 7) by lia. exact H7. }
  rewrite E1, E2 in T. cbn [andb implb] in T. apply existsb_eqb_In in T. exact T.
Qed.

(** ---- what the wheel-210 loop specification produces *)
Lemma spec_cross210_mem : forall fuel low size p q l qe,
  0 < p -> coprime210 q ->
  spec_cross210 fuel low size p q = Some (l, qe) ->
  coprime210 qe /\ q <= qe /\ size <= byteof low (p * qe) /\
  (forall q', q <= q' -> q' < qe -> coprime210 q' -> byteof low (p * q') < size) /\
  (forall b m, In (b, m) l <-> exists q', q <= q' /\ q' < qe /\ coprime210 q' /\ b = byteof low (p * q') /\ m = maskof (p * q')).
Proof.
  induction fuel as [|f IH]; intros low size p q l qe Hp Hq H; cbn [spec_cross210] in H; [discriminate|].
  destruct (N.leb_spec size (byteof low (p * q))) as [Hge|Hlt].
  - injection H as <- <-. split; [exact Hq|]. split; [lia|]. split; [exact Hge|]. split; [intros; lia|].
    intros b m. split; [intros []|intros (q' & ? & ? & _); lia].
  - destruct (spec_cross210 f low size p (nextc210 q)) as [[l0 qe0]|] eqn:E; [|discriminate]. injection H as <- <-.
    destruct (nextc210_spec q Hq) as (Hnc & Hnlt & Hgap).
    destruct (IH _ _ _ _ _ _ Hp Hnc E) as (Hce & Hle & Hsz & Hin & Hmem).
    split; [exact Hce|]. split; [lia|]. split; [exact Hsz|]. split.
    + intros q' H1 H2 H3. destruct (N.lt_ge_cases q' (nextc210 q)) as [Hlt'|Hge'].
      * destruct (N.eq_dec q' q) as [->|Hne]; [exact Hlt|]. exfalso. apply (Hgap q'); [lia|exact H3].
      * apply Hin; assumption.
    + intros b m. cbn [In]. rewrite Hmem. split.
      * intros [E1|(q' & A & B & C & D1 & D2)].
        -- injection E1 as <- <-. exists q. repeat split; try lia; assumption.
        -- exists q'. repeat split; try lia; assumption.
      * intros (q' & A & B & C & D1 & D2). destruct (N.eq_dec q' q) as [->|Hne].
        -- left. subst. reflexivity.
        -- right. exists q'. repeat split; try assumption.
           destruct (N.lt_ge_cases q' (nextc210 q)) as [Hlt'|]; [|assumption].
           exfalso. apply (Hgap q'); [lia|exact C].
Qed.

(** ---- one sieving prime *)
Definition w_state210 (x : wstate) : N * N * N := let '(sp, ri, qi, _, i) := x in (sp, i, 48 * ri + qi).

Definition w_ok210 (low : N) (x : wstate) : Prop :=
  let '(sp, ri, qi, q, i) := x in
  Inv210 low sp ri qi q i /\ prime (sprime sp ri) /\ 7 <= sprime sp ri /\ sprime sp ri <= q /\
  (forall q', sprime sp ri <= q' -> coprime210 q' -> low + 7 <= sprime sp ri * q' -> q <= q').

Lemma inv_coprime210 low sp ri qi q i : Inv210 low sp ri qi q i -> coprime210 q.
Proof.
  intros (_ & Hq & Hm & _). unfold coprime210. rewrite Hm.
  assert (T : forallb (fun k => existsb (N.eqb (nthd cop210 k)) cop210) (Nseq 48) = true) by (vm_compute; reflexivity).
  rewrite forallb_forall in T. apply existsb_eqb_In. apply T. apply In_Nseq. exact Hq.
Qed.

Lemma cross_one210 fuel low size x cl i' w' : low mod 30 = 0 ->
  w_ok210 low x -> (let '(sp, i, w) := w_state210 x in cross210 fuel size sp i w) = Some (cl, i', w') ->
  (forall b m, In (b, m) cl <-> exists q', w_q x <= q' /\ coprime210 q' /\ byteof low (w_prime x * q') < size /\
                                     b = byteof low (w_prime x * q') /\ m = maskof (w_prime x * q')) /\
  exists x', w_ok210 (low + 30 * size) x' /\ w_prime x' = w_prime x /\ w_state210 x' = (let '(sp, _, _) := w_state210 x in sp, i', w').
Proof.
  intros Hl. destruct x as [[[[sp ri] qi] q] i]. cbn [w_ok210 w_state210 w_q w_prime]. intros (HI & Hpr & Hp7 & Hpq & Hmin) H.
  destruct (cross210_refines _ _ _ _ _ _ _ _ _ _ _ HI H) as (qe & qie & Hs & HI' & Hw).
  pose proof (inv_coprime210 _ _ _ _ _ _ HI) as Hcq.
  assert (Hp0 : 0 < sprime sp ri) by lia.
  destruct (spec_cross210_mem _ _ _ _ _ _ _ Hp0 Hcq Hs) as (Hce & Hle & Hsz & Hin & Hmem).
  split.
  - intros b m. rewrite Hmem. split.
    + intros (q' & A & B & C & D1 & D2). exists q'. repeat split; try assumption. apply Hin; assumption.
    + intros (q' & A & C & Hb & D1 & D2). exists q'. repeat split; try assumption.
      destruct (N.lt_ge_cases q' qe) as [|Hge]; [assumption|exfalso].
      pose proof (byteof_mono low (sprime sp ri * qe) (sprime sp ri * q') ltac:(nia)). lia.
  - exists (sp, ri, qie, qe, i'). cbn [w_ok210 w_state210 w_prime]. split; [|split; [reflexivity|rewrite Hw; reflexivity]].
    split; [exact HI'|]. split; [exact Hpr|]. split; [exact Hp7|]. split; [lia|].
    intros q' Hq' Hc' Hge. destruct (N.lt_ge_cases q' qe) as [Hlt|]; [exfalso|assumption].
    destruct (N.lt_ge_cases q' q) as [Hlq|Hgq].
    + destruct (N.lt_ge_cases (sprime sp ri * q') (low + 7)) as [|Hge2]; [lia|]. specialize (Hmin q' Hq' Hc' Hge2). lia.
    + pose proof (Hin q' Hgq Hlt Hc') as Hb. unfold byteof in Hb. lia.
Qed.

(** the relation of EratBigP is the loop function with enough fuel *)
Lemma steps_to_cross210 log2 e cl e' : steps_to log2 e cl e' ->
  exists fuel, let '(sp, i, w) := e in let '(sp', i', w') := e' in sp' = sp /\ cross210 fuel (size log2) sp i w = Some (cl, i', w').
Proof.
  induction 1 as [sp i w Hge|sp i w mask a c nxt cl e' Hlt E H IH].
  - exists 1%nat. split; [reflexivity|]. cbn [cross210]. destruct (N.leb_spec (size log2) i); [reflexivity|lia].
  - destruct IH as (f & IH). destruct e' as [[sp' i'] w']. destruct IH as (-> & IH).
    exists (S f). split; [reflexivity|]. cbn [cross210]. destruct (N.leb_spec (size log2) i); [lia|]. rewrite E, IH. reflexivity.
Qed.

Section Seg.
Variables (log2 low : N).
Hypothesis Hlow : low mod 30 = 0.
Let sz := size log2.

Definition clears (ws : list wstate) (b m : N) : Prop :=
  exists x q', In x ws /\ w_q x <= q' /\ coprime210 q' /\ byteof low (w_prime x * q') < sz /\
               b = byteof low (w_prime x * q') /\ m = maskof (w_prime x * q').

Lemma all210 : forall (ws : list wstate) rs, Forall (w_ok210 low) ws -> Forall2 (Rst log2) (map w_state210 ws) rs ->
  (forall b m, In (b, m) (flat_map fst rs) <-> clears ws b m) /\
  exists ws', Forall (w_ok210 (low + 30 * sz)) ws' /\ map w_prime ws' = map w_prime ws /\ map w_state210 ws' = map snd rs.
Proof.
  induction ws as [|x ws IH]; intros rs Hok HF; cbn [map] in HF.
  - inversion HF. subst. split; [|exists []; repeat split; constructor].
    intros b m. split; [intros []|intros (x & q' & [] & _)].
  - inversion HF as [|? r ? rs0 Hr Hrest]. subst. inversion Hok as [|? ? Hx Hws]. subst.
    destruct (IH rs0 Hws Hrest) as (Hm2 & ws' & Hws' & Hps & Hss).
    unfold Rst in Hr. destruct (steps_to_cross210 _ _ _ _ Hr) as (fuel & Hc).
    destruct (w_state210 x) as [[sp i] w] eqn:Ex. destruct (snd r) as [[sp' i'] w'] eqn:Er. destruct Hc as (-> & Hc).
    assert (Hc' : (let '(sp, i, w) := w_state210 x in cross210 fuel sz sp i w) = Some (fst r, i', w')) by (rewrite Ex; exact Hc).
    destruct (cross_one210 fuel low sz x (fst r) i' w' Hlow Hx Hc') as (Hm1 & x' & Hx' & Hp' & Hs').
    split.
    + intros b m. cbn [flat_map]. rewrite in_app_iff, Hm1, Hm2. unfold clears. split.
      * intros [(q' & A)|(y & q' & Hy & A)]; [exists x, q'; split; [left; reflexivity|exact A]|exists y, q'; split; [right; exact Hy|exact A]].
      * intros (y & q' & [<-|Hy] & A); [left; exists q'; exact A|right; exists y, q'; split; [exact Hy|exact A]].
    + exists (x' :: ws'). split; [constructor; assumption|]. cbn [map]. rewrite Hp', Hps, Hs', Hss, Ex, Er. split; reflexivity.
Qed.

Theorem eratbig_segment_spec fuel (b : buckets) (ws : list wstate) cl bf :
  wf log2 b -> Forall (w_ok210 low) ws -> Permutation (abs_of log2 b) (map w_state210 ws) ->
  eb_cross fuel log2 b [] = Some (cl, bf) ->
  (forall bb m, In (bb, m) cl <-> clears ws bb m) /\
  exists ws', Forall (w_ok210 (low + 30 * sz)) ws' /\ map w_prime ws' = map w_prime ws /\
              Permutation (abs_of log2 bf) (map w_state210 ws') /\ wf log2 bf.
Proof.
  intros Hwf Hok Hperm H.
  destruct (eb_cross_spec log2 fuel b [] cl bf Hwf H) as (rs & F & Pcl & Pbf & Hwfbf).
  destruct (Forall2_perm (Rst log2) _ _ Hperm _ F) as (rs' & Prs & F').
  destruct (all210 ws rs' Hok F') as (Hm & ws' & Hws' & Hps & Hss).
  rewrite app_nil_r in Pcl. split.
  - intros bb m. rewrite <- Hm. split; intros Hin.
    + eapply Permutation_in; [|exact Hin]. eapply perm_trans; [exact Pcl|]. apply Permutation_flat_map. exact Prs.
    + eapply Permutation_in; [|exact Hin]. symmetry. eapply perm_trans; [exact Pcl|]. apply Permutation_flat_map. exact Prs.
  - exists ws'. split; [exact Hws'|]. split; [exact Hps|]. split; [|exact Hwfbf].
    rewrite Hss. eapply perm_trans; [exact Pbf|]. apply Permutation_map. exact Prs.
Qed.
End Seg.

(** ---- the segment theorem with both kinds of sieving primes: wheel 30 (EratSmall / EratMedium) and wheel 210 (EratBig) *)
Section SegmentMix.
Variables low size high stop pmin : N.
Variable sps30 sps210 : list (N * N).
Hypothesis sps30_ok : forall p q0, In (p, q0) sps30 ->
  prime p /\ 7 <= p /\ coprime30 q0 /\ p <= q0 /\
  (forall q, p <= q -> coprime30 q -> low + 7 <= p * q -> q0 <= q).
Hypothesis sps210_ok : forall p q0, In (p, q0) sps210 ->
  prime p /\ 7 <= p /\ coprime210 q0 /\ p <= q0 /\
  (forall q, p <= q -> coprime210 q -> low + 7 <= p * q -> q0 <= q).
Hypothesis sps_min : forall p q0, In (p, q0) sps30 \/ In (p, q0) sps210 -> pmin <= p.
Hypothesis sps_complete : forall p, prime p -> pmin <= p -> p * p <= high ->
  (exists q0, In (p, q0) sps30) \/ (exists q0, In (p, q0) sps210) \/
  (forall q, p <= q -> coprime30 q -> low + 7 <= p * q -> stop < p * q).

Definition crossed210 (n : N) : Prop :=
  exists p q0 q, In (p, q0) sps210 /\ q0 <= q /\ coprime210 q /\ n = p * q.

(** a number of the segment is crossed off by one of the two algorithms or is a multiple of 7 (pre-sieved) iff it is
    p*q for a prime p >= pmin and a cofactor q >= p coprime to 30, or a multiple of 7 *)
Theorem segment_crossed_mix n : low + 7 <= n -> n <= high -> n <= stop ->
  (crossed sps30 n \/ crossed210 n \/ n mod 7 = 0 <-> bigfactor pmin n \/ n mod 7 = 0).
Proof.
  intros Hn Hnh Hns. split.
  - intros [(p & q0 & q & Hin & Hq & Hcq & E)|[(p & q0 & q & Hin & Hq & Hcq & E)|H7]]; [left|left|right; exact H7].
    + destruct (sps30_ok p q0 Hin) as (Hp & _ & _ & Hpq0 & _).
      exists p, q. split; [exact Hp|]. split; [apply (sps_min p q0); left; exact Hin|]. split; [lia|]. split; [exact Hcq|exact E].
    + destruct (sps210_ok p q0 Hin) as (Hp & _ & _ & Hpq0 & _).
      exists p, q. split; [exact Hp|]. split; [apply (sps_min p q0); right; exact Hin|]. split; [lia|].
      split; [apply coprime210_30; exact Hcq|exact E].
  - intros [(p & q & Hp & Hpm & Hpq & Hcq & E)|H7]; [|right; right; exact H7].
    assert (Hsq : p * p <= high) by (subst n; nia).
    destruct (sps_complete p Hp Hpm Hsq) as [(q0 & Hin)|[(q0 & Hin)|Hdead]].
    + left. destruct (sps30_ok p q0 Hin) as (_ & _ & _ & _ & Hmin).
      exists p, q0, q. split; [exact Hin|]. split; [apply Hmin; [exact Hpq|exact Hcq|lia]|]. split; [exact Hcq|exact E].
    + destruct (N.eq_dec (q mod 7) 0) as [Hq7|Hq7].
      * right. right. subst n. rewrite N.mul_mod by lia. rewrite Hq7, N.mul_0_r. reflexivity.
      * right. left. destruct (sps210_ok p q0 Hin) as (_ & _ & _ & _ & Hmin).
        pose proof (coprime30_210 q Hcq Hq7) as Hc2.
        exists p, q0, q. split; [exact Hin|]. split; [apply Hmin; [exact Hpq|exact Hc2|lia]|]. split; [exact Hc2|exact E].
    + exfalso. specialize (Hdead q Hpq Hcq ltac:(lia)). lia.
Qed.
End SegmentMix.

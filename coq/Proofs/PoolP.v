From Coq Require Import ZArith NArith List Bool Lia ZifyBool ZifyN.
From PS Require Import Model.PoolM.
Local Open Scope N_scope.
Ltac Zify.zify_post_hook ::= Z.div_mod_to_equations.

Section Pool.
Variable maxCount : N.
Hypothesis maxCount_ge : 73 <= maxCount.

(** every allocation holds between 10 and maxCount buckets (initBuckets throws below 10) *)
Definition pool_inv (p : pool) : Prop :=
  stock p + inuse p = total p /\ inuse p <= peak p /\ total p + 1 <= peak p + N.max 1 maxCount + (if nalloc p =? 0 then 1 else 0)
  /\ (nalloc p = 0 -> count p = 0 /\ total p = 0) /\ (nalloc p <> 0 -> 15 <= count p <= maxCount).

Lemma update_alloc_count_range : forall nr c, nr <> 0 -> (nr = 1 \/ 15 <= c <= maxCount) ->
  16 <= update_alloc_count maxCount nr c <= maxCount.
Proof.
  intros nr c Hnr Hc. unfold update_alloc_count.
  destruct (nr =? 1) eqn:?; [lia|]. destruct (nr =? 2) eqn:?; lia.
Qed.

Lemma pool_step_inv : forall p o, pool_inv p -> pool_inv (pool_step maxCount p o).
Proof.
  intros p o (H1 & H2 & H3 & H4 & H5). destruct o as [w|]; cbn [pool_step].
  - destruct (stock p =? 0) eqn:Es.
    + pose proof (update_alloc_count_range (nalloc p + 1) (count p) ltac:(lia)) as R.
      assert (Hr : nalloc p + 1 = 1 \/ 15 <= count p <= maxCount).
      { destruct (N.eq_dec (nalloc p) 0) as [E|E]; [left; lia|right; apply H5; exact E]. }
      specialize (R Hr). set (c := update_alloc_count maxCount (nalloc p + 1) (count p)) in *. clearbody c.
      unfold pool_inv; cbn [stock inuse count nalloc total peak].
      destruct (nalloc p =? 0) eqn:?; destruct (nalloc p + 1 =? 0) eqn:?; destruct w; lia.
    + unfold pool_inv; cbn [stock inuse count nalloc total peak].
      destruct (nalloc p =? 0) eqn:?; lia.
  - destruct (inuse p =? 0) eqn:?; [unfold pool_inv; tauto|].
    unfold pool_inv; cbn [stock inuse count nalloc total peak]. destruct (nalloc p =? 0) eqn:?; lia.
Qed.

Lemma pool_init_inv : pool_inv pool_init.
Proof. unfold pool_inv, pool_init; cbn [stock inuse count nalloc total peak]. cbn. lia. Qed.

Lemma pool_fold_inv : forall ops p, pool_inv p -> pool_inv (fold_left (pool_step maxCount) ops p).
Proof. induction ops as [|o r IH]; intros p H; cbn [fold_left]; [exact H|apply IH, pool_step_inv, H]. Qed.

(** for every history of addBucket / freeBucket and every placement of the allocations: no bucket
    is lost (stock + in use = all buckets ever allocated), and the pool owns fewer than
    [peak demand + maxCount] buckets: an allocation happens only when the stock is empty *)
Theorem pool_bounded : forall ops, let p := pool_run maxCount ops in
  stock p + inuse p = total p /\ inuse p <= peak p /\ total p < peak p + maxCount + 1 /\ count p <= maxCount.
Proof.
  intros ops. cbn zeta. destruct (pool_fold_inv ops pool_init pool_init_inv) as (H1 & H2 & H3 & H4 & H5).
  fold (pool_run maxCount ops) in *. set (p := pool_run maxCount ops) in *. clearbody p.
  destruct (nalloc p =? 0) eqn:?; lia.
Qed.
End Pool.

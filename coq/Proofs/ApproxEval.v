(** C18: a small verified fixed-point evaluator for the Gram series.  [hu] / [hd] compute, in integer
    arithmetic scaled by 2^48 with outward rounding, an upper / lower bound of the Horner form for every
    real argument above / below the given fixed-point bound; the per-block facts then reduce to one
    boolean computed by vm_compute plus four enclosures of ln proved by interval arithmetic. *)
From Coq Require Import Reals ZArith NArith List Bool Lia Lra.
From PS Require Import Spec.Primes Gen.Zeta Model.Approx Proofs.ApproxP.
Import ListNotations.
Local Open Scope Z_scope.

Definition FS : Z := 2 ^ 48.
Definition fx (v : Z) : R := (IZR v / IZR FS)%R.
(** ceiling division *)
Definition cdiv (a b : Z) : Z := - ((- a) / b).

(** rounded coefficients 1 / (zeta(k+1) * k), computed once *)
Fixpoint cu (k : positive) (zs : list (Z * Z)) : list Z :=
  match zs with [] => [] | z :: r => cdiv (FS * snd z) (fst z * Zpos k) :: cu (Pos.succ k) r end.
Fixpoint cd (k : positive) (zs : list (Z * Z)) : list Z :=
  match zs with [] => [] | z :: r => (FS * snd z) / (fst z * Zpos k) :: cd (Pos.succ k) r end.
Fixpoint hu (L : Z) (k : positive) (cs : list Z) : Z :=
  match cs with
  | [] => 0
  | c :: r => cdiv (cdiv L (Zpos k) * (c + hu L (Pos.succ k) r)) FS
  end.
Fixpoint hd (L : Z) (k : positive) (cs : list Z) : Z :=
  match cs with
  | [] => 0
  | c :: r => (L / Zpos k * (c + hd L (Pos.succ k) r)) / FS
  end.

(** the extended block: fixed-point enclosures of the four logarithms and of sqrt a *)
Record xblk := { x_blk : blk; x_la : Z; x_lb : Z; x_llo : Z; x_lhi : Z; x_sa : Z }.

Definition xblk_ln_ok (x : xblk) : Prop :=
  let k := x_blk x in
  (fx (x_la x) <= ln (NR (b_a k)) /\ ln (NR (b_b k)) <= fx (x_lb x) /\
   ln (q2r (b_lo k)) <= fx (x_llo x) /\ fx (x_lhi x) <= ln (q2r (b_hi k)))%R.

Definition xblk_num_ok (CU CD : list Z) (x : xblk) : bool :=
  let k := x_blk x in
  let a := Z.of_N (b_a k) in let b := Z.of_N (b_b k) in
  let i := Z.of_N (b_i k) in let j := Z.of_N (b_j k) in
  let ln_ := fst (b_lo k) in let ld := snd (b_lo k) in
  let hn := fst (b_hi k) in let hd_ := snd (b_hi k) in
  let m := cdiv FS 100 in
  let sa := x_sa x in
  (1 <=? a) && (a <=? b) &&
  (0 <=? x_la x) && (0 <=? x_lhi x) && (0 <=? sa) && (sa * sa <=? a * FS * FS) &&
  (0 <? ld) && (0 <? hd_) && (ld <=? ln_) && (ln_ * hd_ <=? hn * ld) &&
  (FS + hu (x_lb x) 1 CU - i * FS <? sa - m) &&
  (j * FS - (FS + hd (x_la x) 1 CD) <? sa - m) &&
  (FS + hu (x_llo x) 1 CU <=? i * FS) &&
  (j * FS <=? FS + hd (x_lhi x) 1 CD) &&
  (cdiv (FS * hn) hd_ - a * FS <? sa - m) &&
  (b * FS - (FS * ln_) / ld <? sa - m).

Definition xblks_num_ok (l : list xblk) : bool :=
  let CU := cu 1 gram_terms in let CD := cd 1 gram_terms in forallb (xblk_num_ok CU CD) l.

Local Open Scope R_scope.

Lemma FS_pos : 0 < IZR FS.
Proof. apply IZR_lt. reflexivity. Qed.

Lemma fx_le u v : (u <= v)%Z -> fx u <= fx v.
Proof. intros H. unfold fx. apply Rmult_le_compat_r; [left; apply Rinv_0_lt_compat, FS_pos|apply IZR_le, H]. Qed.
Lemma fx_lt u v : (u < v)%Z -> fx u < fx v.
Proof. intros H. unfold fx. apply Rmult_lt_compat_r; [apply Rinv_0_lt_compat, FS_pos|apply IZR_lt, H]. Qed.
Lemma fx_add u v : fx (u + v) = fx u + fx v.
Proof. unfold fx. rewrite plus_IZR. field. apply Rgt_not_eq, FS_pos. Qed.
Lemma fx_sub u v : fx (u - v) = fx u - fx v.
Proof. unfold fx. rewrite minus_IZR. field. apply Rgt_not_eq, FS_pos. Qed.
Lemma fx_scale n : fx (n * FS) = IZR n.
Proof. unfold fx. rewrite mult_IZR. field. apply Rgt_not_eq, FS_pos. Qed.
Lemma fx_FS : fx FS = 1.
Proof. unfold fx. field. apply Rgt_not_eq, FS_pos. Qed.
Lemma fx_nonneg v : (0 <= v)%Z -> 0 <= fx v.
Proof. intros H. unfold fx. apply Rmult_le_pos; [apply IZR_le, H|left; apply Rinv_0_lt_compat, FS_pos]. Qed.
Lemma fx_nonneg_inv v : 0 <= fx v -> (0 <= v)%Z.
Proof.
  intros H. destruct (Z.le_gt_cases 0 v) as [|Hn]; [assumption|exfalso].
  assert (fx v < 0); [|lra]. unfold fx. apply IZR_lt in Hn.
  pose proof (Rinv_0_lt_compat _ FS_pos). nra.
Qed.

Lemma cdiv_spec a b : (0 < b)%Z -> (a <= b * cdiv a b)%Z.
Proof. intros H. unfold cdiv. pose proof (Z.div_mod (- a) b ltac:(lia)). pose proof (Z.mod_pos_bound (- a) b H). lia. Qed.
Lemma cdiv_ge a b : (0 < b)%Z -> IZR a / IZR b <= IZR (cdiv a b).
Proof.
  intros H. pose proof (cdiv_spec a b H) as Hs. apply IZR_le in Hs. rewrite mult_IZR in Hs. apply IZR_lt in H.
  apply Rmult_le_reg_l with (IZR b); [assumption|]. replace (IZR b * (IZR a / IZR b)) with (IZR a) by (field; lra). exact Hs.
Qed.
Lemma cdiv_nonneg a b : (0 <= a)%Z -> (0 < b)%Z -> (0 <= cdiv a b)%Z.
Proof. intros Ha Hb. pose proof (cdiv_spec a b Hb). nia. Qed.
Lemma fdiv_le a b : (0 < b)%Z -> IZR (a / b) <= IZR a / IZR b.
Proof.
  intros H. pose proof (Z.mul_div_le a b H) as Hs. apply IZR_le in Hs. rewrite mult_IZR in Hs. apply IZR_lt in H.
  apply Rmult_le_reg_l with (IZR b); [assumption|]. replace (IZR b * (IZR a / IZR b)) with (IZR a) by (field; lra). exact Hs.
Qed.

Lemma coef_eq z k : 0 < q2r z -> pos_entry z = true ->
  1 / (q2r z * IZR (Zpos k)) = IZR (snd z) / IZR (fst z * Zpos k).
Proof.
  intros _ Hp. unfold pos_entry in Hp. apply andb_true_iff in Hp. destruct Hp as [H1 H2]. apply Z.ltb_lt in H1, H2.
  apply IZR_lt in H1, H2. unfold q2r. rewrite mult_IZR. pose proof (kpos k). field. repeat split; lra.
Qed.

(** upper bound *)
Lemma hu_sound Lr L zs : forallb pos_entry zs = true -> 0 <= Lr <= fx L ->
  forall k, (0 <= hu L k (cu k zs))%Z /\ horner Lr k zs <= fx (hu L k (cu k zs)).
Proof.
  intros Hp HL. assert (HLz : (0 <= L)%Z) by (apply fx_nonneg_inv; lra).
  induction zs as [|z zs IH]; intros k; cbn [hu cu horner].
  - split; [lia|]. unfold fx. lra.
  - cbn [forallb] in Hp. apply andb_true_iff in Hp. destruct Hp as [Hz Hp]. destruct (IH Hp (Pos.succ k)) as [IH0 IH1].
    pose proof (pos_entry_q2r z Hz) as Hq. pose proof (coef_pos z k Hq) as Hc. rewrite (coef_eq z k Hq Hz) in *.
    pose proof (horner_mono Lr Lr zs ltac:(lra) Hp (Pos.succ k)) as [Hh0 _].
    unfold pos_entry in Hz. apply andb_true_iff in Hz. destruct Hz as [Hz1 Hz2]. apply Z.ltb_lt in Hz1, Hz2.
    set (A := cdiv L (Zpos k)). set (C := cdiv (FS * snd z) (fst z * Zpos k)). set (H := hu L (Pos.succ k) (cu (Pos.succ k) zs)) in *.
    assert (HA0 : (0 <= A)%Z) by (apply cdiv_nonneg; lia).
    assert (HC0 : (0 <= C)%Z) by (apply cdiv_nonneg; [unfold FS|]; lia).
    assert (HA : Lr / IZR (Zpos k) <= fx A).
    { unfold fx, A. pose proof (cdiv_ge L (Zpos k) ltac:(lia)) as G. pose proof (kpos k) as Kp. pose proof FS_pos as Fp.
      unfold fx in HL. apply Rle_trans with (IZR L / IZR FS / IZR (Zpos k)).
      - apply Rmult_le_compat_r; [left; apply Rinv_0_lt_compat; assumption|lra].
      - replace (IZR L / IZR FS / IZR (Zpos k)) with (IZR L / IZR (Zpos k) / IZR FS) by (field; split; lra).
        apply Rmult_le_compat_r; [left; apply Rinv_0_lt_compat; assumption|exact G]. }
    assert (HC : IZR (snd z) / IZR (fst z * Zpos k) <= fx C).
    { unfold fx, C. pose proof (cdiv_ge (FS * snd z) (fst z * Zpos k) ltac:(lia)) as G. pose proof FS_pos as Fp.
      rewrite mult_IZR in G. assert (0 < IZR (fst z * Zpos k)) by (apply IZR_lt; lia).
      apply Rmult_le_reg_l with (IZR FS); [assumption|].
      replace (IZR FS * (IZR (cdiv (FS * snd z) (fst z * Zpos k)) / IZR FS)) with (IZR (cdiv (FS * snd z) (fst z * Zpos k))) by (field; lra).
      replace (IZR FS * (IZR (snd z) / IZR (fst z * Zpos k))) with (IZR FS * IZR (snd z) / IZR (fst z * Zpos k)) by (field; lra). exact G. }
    split; [apply cdiv_nonneg; [|reflexivity]; nia|].
    assert (HL0 : 0 <= Lr / IZR (Zpos k)) by (apply Rmult_le_pos; [lra|left; apply Rinv_0_lt_compat, kpos]).
    apply Rle_trans with (fx A * (fx C + fx H)).
    + apply Rmult_le_compat; lra.
    + rewrite <- fx_add. unfold fx at 1 2. pose proof (cdiv_ge (A * (C + H)) FS ltac:(reflexivity)) as G.
      rewrite mult_IZR in G. pose proof FS_pos as Fp. unfold fx.
      replace (IZR A / IZR FS * (IZR (C + H) / IZR FS)) with (IZR A * IZR (C + H) / IZR FS / IZR FS) by (field; lra).
      apply Rmult_le_compat_r; [left; apply Rinv_0_lt_compat; assumption|exact G].
Qed.

(** lower bound *)
Lemma hd_sound Lr L zs : forallb pos_entry zs = true -> (0 <= L)%Z -> fx L <= Lr ->
  forall k, (0 <= hd L k (cd k zs))%Z /\ fx (hd L k (cd k zs)) <= horner Lr k zs.
Proof.
  intros Hp HLz HL.
  induction zs as [|z zs IH]; intros k; cbn [hd cd horner].
  - split; [lia|]. unfold fx. lra.
  - cbn [forallb] in Hp. apply andb_true_iff in Hp. destruct Hp as [Hz Hp]. destruct (IH Hp (Pos.succ k)) as [IH0 IH1].
    pose proof (pos_entry_q2r z Hz) as Hq. pose proof (coef_pos z k Hq) as Hc. rewrite (coef_eq z k Hq Hz) in *.
    unfold pos_entry in Hz. apply andb_true_iff in Hz. destruct Hz as [Hz1 Hz2]. apply Z.ltb_lt in Hz1, Hz2.
    set (A := (L / Zpos k)%Z). set (C := ((FS * snd z) / (fst z * Zpos k))%Z). set (H := hd L (Pos.succ k) (cd (Pos.succ k) zs)) in *.
    assert (HA0 : (0 <= A)%Z) by (apply Z.div_pos; lia).
    assert (HC0 : (0 <= C)%Z) by (apply Z.div_pos; [unfold FS|]; lia).
    pose proof (fx_nonneg L HLz) as HfL.
    assert (HA : fx A <= Lr / IZR (Zpos k)).
    { unfold fx, A. pose proof (fdiv_le L (Zpos k) ltac:(lia)) as G. pose proof (kpos k) as Kp. pose proof FS_pos as Fp.
      unfold fx in HL. apply Rle_trans with (IZR L / IZR FS / IZR (Zpos k)).
      - replace (IZR L / IZR FS / IZR (Zpos k)) with (IZR L / IZR (Zpos k) / IZR FS) by (field; split; lra).
        apply Rmult_le_compat_r; [left; apply Rinv_0_lt_compat; assumption|exact G].
      - apply Rmult_le_compat_r; [left; apply Rinv_0_lt_compat; assumption|lra]. }
    assert (HC : fx C <= IZR (snd z) / IZR (fst z * Zpos k)).
    { unfold fx, C. pose proof (fdiv_le (FS * snd z) (fst z * Zpos k) ltac:(lia)) as G. pose proof FS_pos as Fp.
      rewrite mult_IZR in G. assert (0 < IZR (fst z * Zpos k)) by (apply IZR_lt; lia).
      apply Rmult_le_reg_l with (IZR FS); [assumption|].
      replace (IZR FS * (IZR ((FS * snd z) / (fst z * Zpos k)) / IZR FS)) with (IZR ((FS * snd z) / (fst z * Zpos k))) by (field; lra).
      replace (IZR FS * (IZR (snd z) / IZR (fst z * Zpos k))) with (IZR FS * IZR (snd z) / IZR (fst z * Zpos k)) by (field; lra). exact G. }
    split; [apply Z.div_pos; [nia|reflexivity]|].
    pose proof (fx_nonneg A HA0) as HfA. pose proof (fx_nonneg C HC0) as HfC. pose proof (fx_nonneg H IH0) as HfH.
    apply Rle_trans with (fx A * (fx C + fx H)).
    + rewrite <- fx_add. unfold fx at 2 3. pose proof (fdiv_le (A * (C + H)) FS ltac:(reflexivity)) as G.
      rewrite mult_IZR in G. pose proof FS_pos as Fp. unfold fx.
      replace (IZR A / IZR FS * (IZR (C + H) / IZR FS)) with (IZR A * IZR (C + H) / IZR FS / IZR FS) by (field; lra).
      apply Rmult_le_compat_r; [left; apply Rinv_0_lt_compat; assumption|exact G].
    + apply Rmult_le_compat; lra.
Qed.

Lemma gramH_up t L : 1 <= t -> ln t <= fx L -> gramH t <= 1 + fx (hu L 1 (cu 1 gram_terms)).
Proof.
  intros Ht HL. unfold gramH. apply Rplus_le_compat_l.
  assert (0 <= ln t) by (destruct Ht as [Ht|<-]; [left; rewrite <- ln_1; apply ln_increasing; lra|rewrite ln_1; lra]).
  apply (hu_sound (ln t) L gram_terms gram_terms_pos); lra.
Qed.
Lemma gramH_dn t L : (0 <= L)%Z -> fx L <= ln t -> 1 + fx (hd L 1 (cd 1 gram_terms)) <= gramH t.
Proof. intros HLz HL. unfold gramH. apply Rplus_le_compat_l. apply (hd_sound (ln t) L gram_terms gram_terms_pos HLz HL). Qed.

Lemma sqrt_lower sa a : (0 <= sa)%Z -> (sa * sa <= a * FS * FS)%Z -> fx sa <= sqrt (IZR a).
Proof.
  intros H0 H2. pose proof (fx_nonneg sa H0) as Hf. rewrite <- (sqrt_Rsqr (fx sa) Hf). apply sqrt_le_1_alt.
  unfold Rsqr, fx. apply IZR_le in H2. rewrite !mult_IZR in H2. pose proof FS_pos as Fp.
  apply Rmult_le_reg_r with (IZR FS * IZR FS); [nra|].
  replace (IZR sa / IZR FS * (IZR sa / IZR FS) * (IZR FS * IZR FS)) with (IZR sa * IZR sa) by (field; lra). lra.
Qed.

Lemma margin_fx : margin <= fx (cdiv FS 100).
Proof.
  unfold margin, fx. pose proof (cdiv_ge FS 100 ltac:(reflexivity)) as G. pose proof FS_pos as Fp.
  apply Rmult_le_reg_r with (IZR FS); [assumption|].
  replace (IZR (cdiv FS 100) / IZR FS * IZR FS) with (IZR (cdiv FS 100)) by (field; lra). lra.
Qed.

(** the boolean and the four ln enclosures give the block facts *)
Theorem xblk_ok x : xblk_ln_ok x -> xblk_num_ok (cu 1 gram_terms) (cd 1 gram_terms) x = true -> blk_real_ok (x_blk x).
Proof.
  intros (La & Lb & Llo & Lhi) Hn. unfold xblk_num_ok in Hn. cbv zeta in Hn.
  repeat (apply andb_true_iff in Hn; destruct Hn as [Hn ?]).
  repeat match goal with
  | H : (_ <=? _)%Z = true |- _ => apply Z.leb_le in H
  | H : (_ <? _)%Z = true |- _ => apply Z.ltb_lt in H
  end.
  set (k := x_blk x) in *.
  destruct (b_lo k) as [ln_ ld] eqn:Elo. destruct (b_hi k) as [hn hd_] eqn:Ehi. cbn [fst snd] in *.
  match goal with H : (1 <= Z.of_N (b_a k))%Z |- _ => rename H into A1 end.
  match goal with H : (Z.of_N (b_a k) <= Z.of_N (b_b k))%Z |- _ => rename H into AB end.
  match goal with H : (0 <= x_la x)%Z |- _ => rename H into La0 end.
  match goal with H : (0 <= x_lhi x)%Z |- _ => rename H into Lhi0 end.
  match goal with H : (0 <= x_sa x)%Z |- _ => rename H into S0 end.
  match goal with H : (x_sa x * x_sa x <= _)%Z |- _ => rename H into S2 end.
  match goal with H : (0 < ld)%Z |- _ => rename H into D1 end.
  match goal with H : (0 < hd_)%Z |- _ => rename H into D2 end.
  match goal with H : (ld <= ln_)%Z |- _ => rename H into Lo1 end.
  match goal with H : (ln_ * hd_ <= hn * ld)%Z |- _ => rename H into LoHi end.
  match goal with H : (FS + hu (x_lb x) 1 _ - _ < _)%Z |- _ => rename H into C1 end.
  match goal with H : (_ - (FS + hd (x_la x) 1 _) < _)%Z |- _ => rename H into C2 end.
  match goal with H : (FS + hu (x_llo x) 1 _ <= _)%Z |- _ => rename H into C4 end.
  match goal with H : (_ <= FS + hd (x_lhi x) 1 _)%Z |- _ => rename H into C5 end.
  match goal with H : (cdiv (FS * hn) hd_ - _ < _)%Z |- _ => rename H into C6 end.
  match goal with H : (_ - FS * ln_ / ld < _)%Z |- _ => rename H into C7 end.
  pose proof margin_fx as Hm. pose proof (sqrt_lower _ _ S0 S2) as Hs. fold (NR (b_a k)) in Hs.
  assert (Ea : 1 <= NR (b_a k)) by (unfold NR; apply IZR_le in A1; exact A1).
  assert (Eab : NR (b_a k) <= NR (b_b k)) by (unfold NR; apply IZR_le; exact AB).
  pose proof FS_pos as Fp.
  assert (Qlo : 1 <= q2r (ln_, ld)).
  { unfold q2r. cbn [fst snd]. apply IZR_lt in D1. apply IZR_le in Lo1.
    apply Rmult_le_reg_r with (IZR ld); [assumption|]. replace (IZR ln_ / IZR ld * IZR ld) with (IZR ln_) by (field; lra). lra. }
  assert (Qlh : q2r (ln_, ld) <= q2r (hn, hd_)).
  { unfold q2r. cbn [fst snd]. apply IZR_lt in D1, D2. apply IZR_le in LoHi. rewrite !mult_IZR in LoHi.
    apply Rmult_le_reg_r with (IZR ld * IZR hd_); [nra|].
    replace (IZR ln_ / IZR ld * (IZR ld * IZR hd_)) with (IZR ln_ * IZR hd_) by (field; lra).
    replace (IZR hn / IZR hd_ * (IZR ld * IZR hd_)) with (IZR hn * IZR ld) by (field; lra). exact LoHi. }
  (* the four evaluations *)
  pose proof (gramH_up (NR (b_b k)) (x_lb x) ltac:(lra) Lb) as Gb.
  pose proof (gramH_dn (NR (b_a k)) (x_la x) La0 La) as Ga.
  pose proof (gramH_up (q2r (ln_, ld)) (x_llo x) Qlo Llo) as Glo.
  pose proof (gramH_dn (q2r (hn, hd_)) (x_lhi x) Lhi0 Lhi) as Ghi.
  apply fx_lt in C1, C2, C6, C7. apply fx_le in C4, C5.
  repeat rewrite fx_sub in C1, C2, C6, C7. repeat rewrite fx_add in C1, C2, C4, C5.
  repeat rewrite fx_scale in C1, C2, C4, C5, C6, C7. repeat rewrite fx_FS in C1, C2, C4, C5.
  assert (Hhi : q2r (hn, hd_) <= fx (cdiv (FS * hn) hd_)).
  { unfold q2r, fx. cbn [fst snd]. pose proof (cdiv_ge (FS * hn) hd_ D2) as G. rewrite mult_IZR in G. apply IZR_lt in D2.
    apply Rmult_le_reg_r with (IZR FS); [assumption|].
    replace (IZR (cdiv (FS * hn) hd_) / IZR FS * IZR FS) with (IZR (cdiv (FS * hn) hd_)) by (field; lra).
    replace (IZR hn / IZR hd_ * IZR FS) with (IZR FS * IZR hn / IZR hd_) by (field; lra). exact G. }
  assert (Hlo : fx (FS * ln_ / ld) <= q2r (ln_, ld)).
  { unfold q2r, fx. cbn [fst snd]. pose proof (fdiv_le (FS * ln_) ld D1) as G. rewrite mult_IZR in G. apply IZR_lt in D1.
    apply Rmult_le_reg_r with (IZR FS); [assumption|].
    replace (IZR (FS * ln_ / ld) / IZR FS * IZR FS) with (IZR (FS * ln_ / ld)) by (field; lra).
    replace (IZR ln_ / IZR ld * IZR FS) with (IZR FS * IZR ln_ / IZR ld) by (field; lra). exact G. }
  unfold blk_real_ok. fold k. rewrite Elo, Ehi. unfold NR in *.
  repeat split; lra.
Qed.

Lemma xblks_ok l : Forall xblk_ln_ok l -> xblks_num_ok l = true -> Forall blk_real_ok (map x_blk l).
Proof.
  unfold xblks_num_ok. cbv zeta.
  induction l as [|x l IH]; intros HL HN; cbn [map]; [constructor|].
  cbn [forallb] in HN. apply andb_true_iff in HN. destruct HN as [Hx HN].
  inversion HL as [|? ? Lx Ll]; subst. constructor; [apply xblk_ok; assumption|apply IH; assumption].
Qed.

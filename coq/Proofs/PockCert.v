From mathcomp Require Import all_ssreflect.
From PS Require Import Proofs.PockCore Proofs.PockBridge.
From Coq Require Import ZArith Znumtheory Zpow_facts Lia.

Lemma p1427 : is_true (prime.prime 1427). Proof. by vm_cast_no_check (erefl true). Qed.
Lemma p2131 : is_true (prime.prime 2131). Proof. by vm_cast_no_check (erefl true). Qed.
Lemma p15331 : is_true (prime.prime 15331). Proof. by vm_cast_no_check (erefl true). Qed.

Definition Q : Z := 5594472617641.
Definition N64 : Z := 18446744073709551557.

Lemma prime_Q : is_true (prime.prime (Z.to_nat Q)).
Proof.
apply: (@pock3_Z Q 2 1427 3920443320 2490305414854 2131 2625280440 1933328135809 15331 364912440 3161697676777);
  try (by vm_compute); try (rewrite /Q; lia).
Qed.

Lemma prime_N64 : is_true (prime.prime (Z.to_nat N64)).
Proof.
apply: (@pock1_Z N64 2 Q 3297316 1898613474652435203 _ _ _ _ _ _ prime_Q); try (rewrite /Q /N64; lia); by vm_compute.
Qed.

Theorem prime_maxprime64 : Znumtheory.prime 18446744073709551557%Z.
Proof. have := @prime_to_Z _ prime_N64. by rewrite Z2Nat.id. Qed.
Print Assumptions prime_maxprime64.

(** in terms of the specification's [prime] on N, and the hypothesis of the top-of-range theorems discharged *)
From PS Require Import Spec.Primes Proofs.StoreP Proofs.TopGapP.
Theorem prime_MAXPRIME64 : Primes.prime MAXPRIME64.
Proof. exact prime_maxprime64. Qed.
Theorem largest_prime_proved : largest_prime_hyp.
Proof. exact (largest_prime_reduced prime_MAXPRIME64). Qed.
Print Assumptions largest_prime_proved.

From mathcomp Require Import all_ssreflect.
From PS Require Import Proofs.PockCore.
From Coq Require Import ZArith Znumtheory Zpow_facts Lia.
Set Implicit Arguments.
Unset Strict Implicit.
Unset Printing Implicit Defensive.

Lemma expnE (a n : nat) : expn a n = Nat.pow a n.
Proof. by elim: n => [|n IH] //; rewrite expnS IH Nat.pow_succ_r' multE. Qed.

Lemma of_nat_expn (a e : nat) : Z.of_nat (expn a e) = (Z.of_nat a ^ Z.of_nat e)%Z.
Proof. by rewrite expnE Nat2Z.inj_pow. Qed.

Lemma of_nat_modn (x n : nat) : is_true (leq 1 n) -> Z.of_nat (modn x n) = (Z.of_nat x mod Z.of_nat n)%Z.
Proof.
move=> n0. apply: (Z.mod_unique _ _ (Z.of_nat (divn x n))).
  left. have /ltP := ltn_mod x n. rewrite n0 => H. lia.
rewrite {1}(divn_eq x n) -plusE -multE. lia.
Qed.

Lemma eqmod_of_Z (x y n : nat) : is_true (leq 1 n) ->
  (Z.of_nat x mod Z.of_nat n = Z.of_nat y mod Z.of_nat n)%Z -> modn x n = modn y n.
Proof. by move=> n0 H; apply: Nat2Z.inj; rewrite !of_nat_modn. Qed.

(* a^e = 1 (mod n) from the fast modular power on Z *)
Lemma pow_cert (a e n : Z) : (0 <= a)%Z -> (0 <= e)%Z -> (1 < n)%Z -> Zpow_mod a e n = 1%Z ->
  modn (expn (Z.to_nat a) (Z.to_nat e)) (Z.to_nat n) = modn 1 (Z.to_nat n).
Proof.
move=> a0 e0 n1 H. have n0 : is_true (leq 1 (Z.to_nat n)) by apply/leP; lia.
apply: eqmod_of_Z => //. rewrite of_nat_expn !Z2Nat.id; try lia.
rewrite -Zpow_mod_correct; [|lia]. rewrite H Z.mod_small; [reflexivity|lia].
Qed.

(* u * (a^m - 1) = 1 (mod n) from Z computations *)
Lemma inv_cert (a m n u : Z) : (0 < a)%Z -> (0 <= m)%Z -> (1 < n)%Z -> (0 <= u)%Z ->
  (1 <= Zpow_mod a m n)%Z -> ((u * (Zpow_mod a m n - 1)) mod n = 1)%Z ->
  modn (muln (Z.to_nat u) (subn (expn (Z.to_nat a) (Z.to_nat m)) 1)) (Z.to_nat n) = modn 1 (Z.to_nat n).
Proof.
move=> a0 m0 n1 u0 Hx H. have n0 : is_true (leq 1 (Z.to_nat n)) by apply/leP; lia.
apply: eqmod_of_Z => //.
have X1 : is_true (leq 1 (expn (Z.to_nat a) (Z.to_nat m))) by rewrite expn_gt0; apply/orP; left; apply/leP; lia.
have Esub : Z.of_nat (subn (expn (Z.to_nat a) (Z.to_nat m)) 1) = (Z.of_nat (expn (Z.to_nat a) (Z.to_nat m)) - 1)%Z.
  by rewrite -minusE Nat2Z.inj_sub //; apply/leP.
rewrite -multE Nat2Z.inj_mul Esub of_nat_expn !Z2Nat.id; try lia.
rewrite Zpow_mod_correct in Hx H; try lia.
rewrite (Z.mod_small 1); try lia.
rewrite -Z.mul_mod_idemp_r; [|lia]. rewrite -Zminus_mod_idemp_l Z.mul_mod_idemp_r; [|lia]. exact H.
Qed.

Lemma pred_cert (N q m : Z) : (1 < N)%Z -> (0 < q)%Z -> (0 < m)%Z -> (N - 1 = q * m)%Z ->
  predn (Z.to_nat N) = muln (Z.to_nat q) (Z.to_nat m).
Proof.
move=> N1 q0 m0 E.
have -> : muln (Z.to_nat q) (Z.to_nat m) = Z.to_nat (q * m) by rewrite -multE Z2Nat.inj_mul; lia.
by rewrite -E Z.sub_1_r Z2Nat.inj_pred.
Qed.

Lemma lt_cert (x y : Z) : (0 <= x)%Z -> (x < y)%Z -> is_true (leq (S (Z.to_nat x)) (Z.to_nat y)).
Proof. by move=> x0 xy; apply/ltP; lia. Qed.

Lemma pock1_Z (N a q m u : Z) :
  (1 < N)%Z -> (0 < q)%Z -> (0 < m)%Z -> (0 < a)%Z -> (0 <= u)%Z ->
  (N - 1 = q * m)%Z -> is_true (prime.prime (Z.to_nat q)) -> (N < q * q)%Z ->
  Zpow_mod a (N - 1) N = 1%Z -> (1 <= Zpow_mod a m N)%Z -> ((u * (Zpow_mod a m N - 1)) mod N = 1)%Z ->
  is_true (prime.prime (Z.to_nat N)).
Proof.
move=> N1 q0 m0 a0 u0 E qP Nq Ha Hx Hu.
apply: (@pock1 (Z.to_nat N) (Z.to_nat a) (Z.to_nat q) (Z.to_nat m) (Z.to_nat u)).
- by apply: (@lt_cert 1 N); lia.
- exact: pred_cert.
- exact: qP.
- rewrite expnS expn1 -multE -Z2Nat.inj_mul; try lia. apply: lt_cert => //; lia.
- have := @pow_cert a (N - 1) N. rewrite Z.sub_1_r Z2Nat.inj_pred -Z.sub_1_r. apply => //; lia.
- apply: inv_cert => //; lia.
Qed.

Lemma pock3_Z (N a q1 m1 u1 q2 m2 u2 q3 m3 u3 : Z) :
  (1 < N)%Z -> (0 < a)%Z ->
  (0 < q1)%Z -> (0 < m1)%Z -> (0 <= u1)%Z -> (0 < q2)%Z -> (0 < m2)%Z -> (0 <= u2)%Z -> (0 < q3)%Z -> (0 < m3)%Z -> (0 <= u3)%Z ->
  (N - 1 = q1 * m1)%Z -> (N - 1 = q2 * m2)%Z -> (N - 1 = q3 * m3)%Z ->
  is_true (prime.prime (Z.to_nat q1)) -> is_true (prime.prime (Z.to_nat q2)) -> is_true (prime.prime (Z.to_nat q3)) ->
  q1 <> q2 -> q1 <> q3 -> q2 <> q3 ->
  (N < (q1 * q2 * q3) * (q1 * q2 * q3))%Z ->
  Zpow_mod a (N - 1) N = 1%Z ->
  (1 <= Zpow_mod a m1 N)%Z -> ((u1 * (Zpow_mod a m1 N - 1)) mod N = 1)%Z ->
  (1 <= Zpow_mod a m2 N)%Z -> ((u2 * (Zpow_mod a m2 N - 1)) mod N = 1)%Z ->
  (1 <= Zpow_mod a m3 N)%Z -> ((u3 * (Zpow_mod a m3 N - 1)) mod N = 1)%Z ->
  is_true (prime.prime (Z.to_nat N)).
Proof.
move=> N1 a0 q10 m10 u10 q20 m20 u20 q30 m30 u30 E1 E2 E3 P1 P2 P3 d12 d13 d23 NF Ha X1 H1 X2 H2 X3 H3.
apply: (@pock3 (Z.to_nat N) (Z.to_nat a) (Z.to_nat q1) (Z.to_nat m1) (Z.to_nat u1) (Z.to_nat q2) (Z.to_nat m2) (Z.to_nat u2) (Z.to_nat q3) (Z.to_nat m3) (Z.to_nat u3)).
- by apply: (@lt_cert 1 N); lia.
- exact: pred_cert.
- exact: pred_cert.
- exact: pred_cert.
- exact: P1.
- exact: P2.
- exact: P3.
- by apply/eqP => /Z2Nat.inj H; apply: d12; apply: H; lia.
- by apply/eqP => /Z2Nat.inj H; apply: d13; apply: H; lia.
- by apply/eqP => /Z2Nat.inj H; apply: d23; apply: H; lia.
- have -> : muln (muln (Z.to_nat q1) (Z.to_nat q2)) (Z.to_nat q3) = Z.to_nat (q1 * q2 * q3) by rewrite -!multE !Z2Nat.inj_mul; lia.
  rewrite expnS expn1 -multE -Z2Nat.inj_mul; try lia. apply: lt_cert => //; lia.
- have := @pow_cert a (N - 1) N. rewrite Z.sub_1_r Z2Nat.inj_pred -Z.sub_1_r. apply => //; lia.
- apply: inv_cert => //; lia.
- apply: inv_cert => //; lia.
- apply: inv_cert => //; lia.
Qed.

(** mathcomp's prime implies Znumtheory's prime *)
Lemma prime_to_Z (n : nat) : is_true (prime.prime n) -> Znumtheory.prime (Z.of_nat n).
Proof.
move=> /primeP [n1 Hd]. apply/prime_alt. split; first by move/ltP: n1; lia.
move=> d [d1 dn] [k Ek].
have k0 : (0 <= k)%Z by nia.
have Hdvd : is_true (dvdn (Z.to_nat d) n).
  apply/dvdnP. exists (Z.to_nat k). have En : n = Z.to_nat (k * d) by rewrite -Ek Nat2Z.id.
  rewrite {1}En Z2Nat.inj_mul; try lia. by rewrite multE.
have := Hd _ Hdvd. move=> /orP [/eqP E|/eqP E]; lia.
Qed.

From mathcomp Require Import all_ssreflect all_fingroup cyclic.
Set Implicit Arguments.
Unset Strict Implicit.
Unset Printing Implicit Defensive.

Lemma expn_gcd_1 a p : forall m n, a ^ m = 1 %[mod p] -> a ^ n = 1 %[mod p] -> a ^ (gcdn m n) = 1 %[mod p].
Proof.
move=> m; elim: m {-2}m (leqnn m) => [|k IH] m.
  by rewrite leqn0 => /eqP-> n _; rewrite gcd0n.
rewrite leq_eqVlt => /orP[/eqP Em|]; last by rewrite ltnS; apply: IH.
move=> n Hm Hn.
have E : a ^ n = (a ^ m) ^ (n %/ m) * a ^ (n %% m) by rewrite -expnM -expnD mulnC -divn_eq.
have Hr : a ^ (n %% m) = 1 %[mod p].
  by rewrite -Hn E -modnMml -(modnXm (n %/ m) p (a ^ m)) Hm modnXm exp1n modnMml mul1n.
rewrite -gcdn_modr gcdnC.
apply: IH => //.
by rewrite -ltnS -Em ltn_mod Em.
Qed.

Lemma mod_sub x y N p : p %| N -> x = y %[mod N] -> x = y %[mod p].
Proof. by move=> pN E; rewrite -(modn_dvdm x pN) E (modn_dvdm y pN). Qed.

(* one prime factor q of N-1: q divides p-1 for every prime divisor p of N *)
Lemma pock_step N a q m p u :
  1 < N -> N.-1 = q * m -> prime q ->
  a ^ N.-1 = 1 %[mod N] -> u * (a ^ m - 1) = 1 %[mod N] ->
  prime p -> p %| N -> q %| p.-1.
Proof.
move=> N1 EN qP HaN Hu pP pN.
have p1 : 1 < p := prime_gt1 pP.
have Hap : a ^ N.-1 = 1 %[mod p] := mod_sub pN HaN.
have Hup : u * (a ^ m - 1) = 1 %[mod p] := mod_sub pN Hu.
(* a is coprime to p *)
have cap : coprime a p.
  rewrite coprime_sym prime_coprime //; apply/negP => pa.
  have : a ^ N.-1 %% p = 0.
    have N0 : 0 < N.-1 by rewrite -ltnS prednK // ltnW.
    by apply/eqP; rewrite -/(dvdn _ _) -(prednK N0) expnS dvdn_mulr.
  by rewrite Hap modn_small.
have Hfer : a ^ p.-1 = 1 %[mod p] by rewrite -(totient_prime pP); apply: Euler_exp_totient.
have Hg := expn_gcd_1 Hap Hfer.
case: (boolP (q %| p.-1)) => // nq.
have cq : coprime (gcdn N.-1 p.-1) q.
  rewrite coprime_sym prime_coprime //; apply/negP => qd.
  by move/negP: nq; apply; apply: dvdn_trans qd (dvdn_gcdr _ _).
have dm : gcdn N.-1 p.-1 %| m.
  by rewrite -(Gauss_dvdr _ cq) -EN dvdn_gcdl.
have Ham : a ^ m = 1 %[mod p].
  case/dvdnP: dm => k ->; rewrite mulnC expnM -modnXm Hg modnXm exp1n. by [].
(* then p divides a^m - 1, so u * (a^m - 1) = 0 mod p, contradiction *)
have apos : 0 < a.
  by case: (a) cap => //; rewrite /coprime gcd0n => /eqP Ep; rewrite Ep in p1.
have : p %| a ^ m - 1.
  rewrite -eqn_mod_dvd; first by apply/eqP.
  by rewrite expn_gt0 apos.
move=> pd; have : u * (a ^ m - 1) %% p = 0 by apply/eqP; rewrite -/(dvdn _ _) dvdn_mull.
by rewrite Hup modn_small.
Qed.

(** Pocklington with one prime factor q of N-1, q^2 > N *)
Lemma pock1 N a q m u :
  1 < N -> N.-1 = q * m -> prime q -> N < q ^ 2 ->
  a ^ N.-1 = 1 %[mod N] -> u * (a ^ m - 1) = 1 %[mod N] -> prime N.
Proof.
move=> N1 EN qP Nq HaN Hu.
apply: ltn_pdiv2_prime; first by apply: ltnW.
have pP := pdiv_prime N1; have pN := pdiv_dvd N.
have qd := pock_step N1 EN qP HaN Hu pP pN.
have p1 := prime_gt1 pP.
have qp : q < pdiv N.
  have : q <= (pdiv N).-1 by apply: dvdn_leq qd; rewrite -ltnS prednK // ltnW.
  by rewrite -ltnS prednK // ltnW.
apply: ltn_trans Nq _.
by rewrite ltn_exp2r.
Qed.

(** Pocklington with three distinct prime factors of N-1 whose product squared exceeds N *)
Lemma pock3 N a q1 m1 u1 q2 m2 u2 q3 m3 u3 :
  1 < N -> N.-1 = q1 * m1 -> N.-1 = q2 * m2 -> N.-1 = q3 * m3 ->
  prime q1 -> prime q2 -> prime q3 -> q1 != q2 -> q1 != q3 -> q2 != q3 ->
  N < (q1 * q2 * q3) ^ 2 -> a ^ N.-1 = 1 %[mod N] ->
  u1 * (a ^ m1 - 1) = 1 %[mod N] -> u2 * (a ^ m2 - 1) = 1 %[mod N] -> u3 * (a ^ m3 - 1) = 1 %[mod N] -> prime N.
Proof.
move=> N1 E1 E2 E3 P1 P2 P3 d12 d13 d23 NF HaN H1 H2 H3.
apply: ltn_pdiv2_prime; first by apply: ltnW.
have pP := pdiv_prime N1; have pN := pdiv_dvd N.
have D1 := pock_step N1 E1 P1 HaN H1 pP pN.
have D2 := pock_step N1 E2 P2 HaN H2 pP pN.
have D3 := pock_step N1 E3 P3 HaN H3 pP pN.
have c12 : coprime q1 q2 by rewrite prime_coprime // dvdn_prime2.
have c13 : coprime q1 q3 by rewrite prime_coprime // dvdn_prime2.
have c23 : coprime q2 q3 by rewrite prime_coprime // dvdn_prime2.
have Fd : q1 * q2 * q3 %| (pdiv N).-1.
  by rewrite Gauss_dvd ?coprimeMl ?c13 ?c23 // Gauss_dvd // D1 D2 D3.
have p1 := prime_gt1 pP.
have Fp : q1 * q2 * q3 < pdiv N.
  have : q1 * q2 * q3 <= (pdiv N).-1 by apply: dvdn_leq Fd; rewrite -ltnS prednK // ltnW.
  by rewrite -ltnS prednK // ltnW.
apply: ltn_trans NF _.
by rewrite ltn_exp2r.
Qed.

(** Lemmas about the saturating helpers (pmath.hpp): on values < 2^64 they
    equal their unbounded meaning except where they saturate. *)
From Coq Require Import NArith Lia Bool ZArith Znumtheory.
From PS Require Import Spec.Primes Model.Pmath.
Local Open Scope N_scope.

Ltac u64 := unfold U64, MAX64, MAXPRIME64 in *.

Lemma checkedAdd_le x y : checkedAdd x y <= MAX64.
Proof. unfold checkedAdd. destruct (N.leb_spec (MAX64 - y) x); u64; lia. Qed.

Lemma checkedAdd_ge x y : x <= MAX64 -> x <= checkedAdd x y.
Proof. unfold checkedAdd. destruct (N.leb_spec (MAX64 - y) x); u64; lia. Qed.

Lemma checkedAdd_exact x y : x + y < MAX64 -> checkedAdd x y = x + y.
Proof. unfold checkedAdd. destruct (N.leb_spec (MAX64 - y) x); u64; lia. Qed.

Lemma checkedAdd_sat x y : x <= MAX64 -> MAX64 <= x + y -> checkedAdd x y = MAX64.
Proof. unfold checkedAdd. destruct (N.leb_spec (MAX64 - y) x); u64; lia. Qed.

(** the uint64 result is min(x + y, 2^64 - 1): never a wrapped value *)
Lemma checkedAdd_min x y : x <= MAX64 -> checkedAdd x y = N.min (x + y) MAX64.
Proof. unfold checkedAdd. destruct (N.leb_spec (MAX64 - y) x); u64; lia. Qed.

Lemma checkedSub_sub x y : checkedSub x y = x - y.
Proof. unfold checkedSub. destruct (N.ltb_spec y x); lia. Qed.

Lemma inBetween_range lo x hi : lo <= hi -> lo <= inBetween lo x hi /\ inBetween lo x hi <= hi.
Proof. unfold inBetween. destruct (N.ltb_spec x lo), (N.ltb_spec hi x); lia. Qed.

Lemma not_prime_MAX64 : ~ prime MAX64.
Proof.
  intros H. assert (Hd : (3 | Z.of_N MAX64)%Z) by (exists 6148914691236517205%Z; reflexivity).
  apply prime_divisors in Hd; [|exact H]. u64. lia.
Qed.

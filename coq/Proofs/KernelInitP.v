(** L3: Wheel::addSievingPrime (model Model/Wheel.v over the source's wheel30Init / wheelOffsets_ tables) puts a
    new sieving prime into exactly the state the cross-off theorem needs: byte index and wheel index of the
    multiple prime*q, q the least cofactor coprime to 30 with q >= prime and prime*q > segmentLow + 6. *)
From Coq Require Import NArith ZArith List Bool Lia Znumtheory.
From PS Require Import Spec.Primes Gen.Tables Model.Count Model.Wheel Model.CrossOff
  Proofs.TablesP Proofs.PmathP Proofs.WheelP Proofs.CrossOffP Proofs.KernelP.
Import ListNotations.
Local Open Scope N_scope.
Ltac Zify.zify_post_hook ::= Z.to_euclidean_division_equations.

(** the init table in terms of the residues coprime to 30: entry x = (f, rank) with x + f the next residue
    coprime to 30 (none in between) and rank its index *)
Lemma wheel30Init_sweep : forallb (fun x =>
    let e := nth (N.to_nat x) wheel30Init (0, 0) in
    (fst e <=? 6) && (snd e <? 8) && (nthd cop30 (snd e) =? (x + fst e) mod 30) &&
    forallb (fun d => negb (existsb (N.eqb ((x + d) mod 30)) cop30)) (filter (fun d => d <? fst e) (Nseq 7))) (Nseq 30) = true.
Proof. vm_compute. reflexivity. Qed.

(** wheelOffsets_[prime % 30] = 8 * (index of the prime's residue class) *)
Lemma wheel30_offsets_sweep : forallb (fun ri => nthd wheel30_offsets (nthd pres8 ri mod 30) =? 8 * ri) (Nseq 8) = true.
Proof. vm_compute. reflexivity. Qed.

Lemma non_coprime_sweep : forallb (fun r => existsb (N.eqb r) cop30 || (r mod 2 =? 0) || (r mod 3 =? 0) || (r mod 5 =? 0)) (Nseq 30) = true.
Proof. vm_compute. reflexivity. Qed.

Lemma prime_coprime30 p : prime p -> 7 <= p -> coprime30 p.
Proof.
  intros Hp H7. unfold coprime30. pose proof non_coprime_sweep as T. rewrite forallb_forall in T.
  assert (Hr : p mod 30 < N.of_nat 30) by (change (N.of_nat 30) with 30; apply N.mod_lt; lia).
  specialize (T _ (In_Nseq 30 _ Hr)).
  apply orb_true_iff in T. destruct T as [T|T]; [apply orb_true_iff in T; destruct T as [T|T]; [apply orb_true_iff in T; destruct T as [T|T]|]|].
  - apply existsb_eqb_In. exact T.
  - exfalso. apply N.eqb_eq in T. assert (D : (2 | Z.of_N p)%Z) by (exists (Z.of_N (p / 2)); lia).
    destruct (prime_divisors _ Hp _ D) as [H|[H|[H|H]]]; lia.
  - exfalso. apply N.eqb_eq in T. assert (D : (3 | Z.of_N p)%Z) by (exists (Z.of_N (p / 3)); lia).
    destruct (prime_divisors _ Hp _ D) as [H|[H|[H|H]]]; lia.
  - exfalso. apply N.eqb_eq in T. assert (D : (5 | Z.of_N p)%Z) by (exists (Z.of_N (p / 5)); lia).
    destruct (prime_divisors _ Hp _ D) as [H|[H|[H|H]]]; lia.
Qed.

Lemma residue_class p : coprime30 p -> exists ri, ri < 8 /\ nthd pres8 ri mod 30 = p mod 30 /\ p = sprime (p / 30) ri.
Proof.
  unfold coprime30, cop30. cbn [In]. intros H. unfold sprime.
  destruct H as [H|[H|[H|[H|[H|[H|[H|[H|[]]]]]]]]].
  - exists 7. change (nthd pres8 7) with 1. split; [lia|]. split; [rewrite <- H; reflexivity|lia].
  - exists 0. change (nthd pres8 0) with 7. split; [lia|]. split; [rewrite <- H; reflexivity|lia].
  - exists 1. change (nthd pres8 1) with 11. split; [lia|]. split; [rewrite <- H; reflexivity|lia].
  - exists 2. change (nthd pres8 2) with 13. split; [lia|]. split; [rewrite <- H; reflexivity|lia].
  - exists 3. change (nthd pres8 3) with 17. split; [lia|]. split; [rewrite <- H; reflexivity|lia].
  - exists 4. change (nthd pres8 4) with 19. split; [lia|]. split; [rewrite <- H; reflexivity|lia].
  - exists 5. change (nthd pres8 5) with 23. split; [lia|]. split; [rewrite <- H; reflexivity|lia].
  - exists 6. change (nthd pres8 6) with 29. split; [lia|]. split; [rewrite <- H; reflexivity|lia].
Qed.

Lemma asp_wi modulo init offsets stop prime low mi wi : low + 6 < U64 ->
  addSievingPrime modulo init offsets stop prime low = Some (mi, wi) ->
  wi = nth (N.to_nat (prime mod 30)) offsets 0 +
       snd (nth (N.to_nat (N.max prime ((low + 6) / prime + 1) mod modulo)) init (0, 0)).
Proof.
  intros Hl H. unfold addSievingPrime in H. cbv zeta in H. rewrite (wrap64_small (low + 6) Hl) in H.
  destruct (_ || _); [discriminate|]. destruct (_ <? _); [discriminate|]. injection H as _ <-. reflexivity.
Qed.

Lemma coprime30_prod a b : coprime30 a -> coprime30 b -> coprime30 (a * b).
Proof.
  unfold coprime30. intros Ha Hb. rewrite N.mul_mod by lia.
  assert (T : forallb (fun x => forallb (fun y => existsb (N.eqb ((x * y) mod 30)) cop30) cop30) cop30 = true) by (vm_compute; reflexivity).
  rewrite forallb_forall in T. specialize (T _ Ha). rewrite forallb_forall in T. specialize (T _ Hb).
  apply existsb_eqb_In. exact T.
Qed.

(** small-context arithmetic facts (kept apart: with the whole proof context the division equations make lia slow) *)
Lemma coprime30_res n : coprime30 n -> n mod 30 = 1 \/ 7 <= n mod 30.
Proof. unfold coprime30, cop30. cbn [In]. lia. Qed.

Lemma mi_byteof low m : low mod 30 = 0 -> low + 6 < m -> (m mod 30 = 1 \/ 7 <= m mod 30) ->
  (m - (low + 6)) / 30 = byteof low m.
Proof. intros H1 H2 H3. unfold byteof. lia. Qed.

Lemma quotient_le p low q' : 0 < p -> low + 7 <= p * q' -> (low + 6) / p + 1 <= q'.
Proof.
  intros Hp Hge. destruct (N.lt_ge_cases q' ((low + 6) / p + 1)) as [Hlt|]; [exfalso|assumption].
  assert (H1 : q' <= (low + 6) / p) by lia.
  assert (H2 : p * q' <= p * ((low + 6) / p)) by (apply N.mul_le_mono_l; exact H1).
  pose proof (N.mul_div_le (low + 6) p ltac:(lia)) as H3. lia.
Qed.

Lemma least_gap Q f q' : (forall d, d < f -> ~ coprime30 (Q + d)) -> Q <= q' -> coprime30 q' -> Q + f <= q'.
Proof.
  intros H HQ Hc. destruct (N.lt_ge_cases q' (Q + f)) as [Hlt|]; [exfalso|assumption].
  apply (H (q' - Q)); [lia|]. replace (Q + (q' - Q)) with q' by lia. exact Hc.
Qed.

(** the state stored by addSievingPrime is correct and minimal for the segment based at low *)
Theorem asp30_state_ok stop p low mi wi :
  prime p -> 7 <= p -> p < 2 ^ 32 -> low mod 30 = 0 -> stop <= MAX64 -> low + 6 <= MAX64 ->
  addSievingPrime30 stop p low = Some (mi, wi) ->
  exists ri qi q, wi = 8 * ri + qi /\ sprime (p / 30) ri = p /\ w_ok low (p / 30, ri, qi, q, mi) /\ p * q <= stop.
Proof.
  intros Hp H7 H32 Hl Hstop Hlow H. unfold addSievingPrime30 in H.
  destruct init_factor_bounds as (B30 & _ & _ & _ & M30 & _).
  assert (Hb6 : 6 <= 10) by (clear; lia). assert (Hp1 : 1 <= p) by (clear - H7; lia).
  pose proof (addSievingPrime_no_wrap _ _ _ 6 stop p low mi wi B30 Hb6 Hp1 H32 Hstop Hlow H) as NW. cbv zeta in NW.
  assert (Hl6 : low + 6 < U64) by (clear - Hlow; unfold U64, MAX64 in *; lia).
  pose proof (asp_wi _ _ _ _ _ _ _ _ Hl6 H) as Hwi. rewrite M30 in *.
  set (Q := N.max p ((low + 6) / p + 1)) in *.
  pose proof wheel30Init_sweep as T. rewrite forallb_forall in T.
  assert (HQ : Q mod 30 < N.of_nat 30) by (change (N.of_nat 30) with 30; apply N.mod_lt; clear; lia).
  specialize (T _ (In_Nseq 30 _ HQ)). cbv zeta in T.
  set (e := nth (N.to_nat (Q mod 30)) wheel30Init (0, 0)) in *.
  apply andb_true_iff in T. destruct T as [T T4]. apply andb_true_iff in T. destruct T as [T T3].
  apply andb_true_iff in T. destruct T as [T1 T2]. apply N.leb_le in T1. apply N.ltb_lt in T2. apply N.eqb_eq in T3.
  destruct NW as (Nlow & Nstop & Nmi & NpQ).
  pose proof (prime_coprime30 p Hp H7) as Hcp.
  destruct (residue_class p Hcp) as (ri & Hri & Hres & Hsp).
  set (q := Q + fst e) in *.
  assert (Hqm : q mod 30 = nthd cop30 (snd e)).
  { rewrite T3. unfold q. rewrite N.add_mod_idemp_l by (clear; lia). reflexivity. }
  assert (Hcq : coprime30 q).
  { unfold coprime30. rewrite Hqm.
    assert (T8 : forallb (fun k => existsb (N.eqb (nthd cop30 k)) cop30) (Nseq 8) = true) by (vm_compute; reflexivity).
    rewrite forallb_forall in T8. apply existsb_eqb_In. apply T8. apply In_Nseq. exact T2. }
  assert (Hgap : forall d, d < fst e -> ~ coprime30 (Q + d)).
  { intros d Hd Hc. rewrite forallb_forall in T4.
    assert (Hin : In d (filter (fun d => d <? fst e) (Nseq 7))).
    { apply filter_In. split; [apply In_Nseq; change (N.of_nat 7) with 7; clear - Hd T1; lia|apply N.ltb_lt; exact Hd]. }
    specialize (T4 _ Hin). apply negb_true_iff in T4. unfold coprime30 in Hc.
    rewrite <- N.add_mod_idemp_l in Hc by (clear; lia). apply existsb_eqb_In in Hc. congruence. }
  exists ri, (snd e), q. split.
  - rewrite Hwi. pose proof wheel30_offsets_sweep as O. rewrite forallb_forall in O. specialize (O ri (In_Nseq 8 _ Hri)).
    apply N.eqb_eq in O. unfold nthd in O at 1. rewrite Hres in O. rewrite O. reflexivity.
  - split; [symmetry; exact Hsp|]. split; [|exact Nstop].
    cbn [w_ok]. rewrite <- Hsp.
    pose proof (coprime30_prod p q Hcp Hcq) as Hcm.
    assert (Hm7 : low + 7 <= p * q) by (clear - Nlow; lia).
    split.
    + (* Inv *)
      split; [exact Hri|]. split; [exact T2|]. split; [exact Hqm|].
      rewrite <- Hsp. pose proof (position (p * q) low Hl Hcm Hm7) as P.
      replace mi with (byteof low (p * q)); [exact P|].
      rewrite Nmi. symmetry. apply mi_byteof; [exact Hl|exact Nlow|apply coprime30_res; exact Hcm].
    + split; [exact Hp|]. split; [exact H7|]. split; [unfold q; clear - NpQ; lia|].
      intros q' Hq' Hc' Hge. unfold q. apply least_gap; [exact Hgap| |exact Hc'].
      unfold Q. apply N.max_lub; [exact Hq'|]. apply quotient_le; [clear - H7; lia|exact Hge].
Qed.

(** when addSievingPrime stores nothing, no multiple prime*q (q >= prime coprime to 30) of this or any later
    segment lies at or below stop: the prime is not needed *)
Theorem asp30_none_dead stop p low :
  prime p -> 7 <= p -> p < 2 ^ 32 -> low mod 30 = 0 -> stop <= MAX64 -> low + 6 <= MAX64 ->
  addSievingPrime30 stop p low = None ->
  forall q, p <= q -> coprime30 q -> low + 7 <= p * q -> stop < p * q.
Proof.
  intros Hp H7 H32 Hl Hstop Hlow H q Hq Hc Hge. unfold addSievingPrime30, addSievingPrime in H. cbv zeta in H.
  assert (Hl6 : low + 6 < U64) by (clear - Hlow; unfold U64, MAX64 in *; lia).
  rewrite (wrap64_small (low + 6) Hl6) in H.
  destruct init_factor_bounds as (_ & _ & _ & _ & M30 & _). rewrite M30 in H.
  set (Q := N.max p ((low + 6) / p + 1)) in *.
  (* q is at least the first cofactor the function would use *)
  pose proof wheel30Init_sweep as T. rewrite forallb_forall in T.
  assert (HQ : Q mod 30 < N.of_nat 30) by (change (N.of_nat 30) with 30; apply N.mod_lt; clear; lia).
  specialize (T _ (In_Nseq 30 _ HQ)). cbv zeta in T.
  set (e := nth (N.to_nat (Q mod 30)) wheel30Init (0, 0)) in *.
  apply andb_true_iff in T. destruct T as [T T4]. apply andb_true_iff in T. destruct T as [T _].
  apply andb_true_iff in T. destruct T as [T1 _]. apply N.leb_le in T1.
  assert (Hgap : forall d, d < fst e -> ~ coprime30 (Q + d)).
  { intros d Hd Hc'. rewrite forallb_forall in T4.
    assert (Hin : In d (filter (fun d => d <? fst e) (Nseq 7))).
    { apply filter_In. split; [apply In_Nseq; change (N.of_nat 7) with 7; clear - Hd T1; lia|apply N.ltb_lt; exact Hd]. }
    specialize (T4 _ Hin). apply negb_true_iff in T4. unfold coprime30 in Hc'.
    rewrite <- N.add_mod_idemp_l in Hc' by (clear; lia). apply existsb_eqb_In in Hc'. congruence. }
  assert (HQq : Q + fst e <= q).
  { apply least_gap; [exact Hgap| |exact Hc]. unfold Q. apply N.max_lub; [exact Hq|]. apply quotient_le; [clear - H7; lia|exact Hge]. }
  assert (Hpq : p * (Q + fst e) <= p * q) by (apply N.mul_le_mono_l; exact HQq).
  assert (HpQ : p * Q <= p * (Q + fst e)) by (apply N.mul_le_mono_l; clear; lia).
  assert (Hprod : low + 6 < p * Q).
  { assert (HQ1 : (low + 6) / p + 1 <= Q) by (unfold Q; apply N.le_max_r).
    assert (p * ((low + 6) / p + 1) <= p * Q) by (apply N.mul_le_mono_l; exact HQ1).
    pose proof (N.div_mod (low + 6) p ltac:(clear - H7; lia)) as E. pose proof (N.mod_lt (low + 6) p ltac:(clear - H7; lia)) as L.
    clear - H0 E L. lia. }
  destruct (N.lt_ge_cases (p * Q) U64) as [Hnw|Hw].
  - rewrite (wrap64_small (p * Q) Hnw) in H.
    destruct (N.ltb_spec stop (p * Q)) as [Hs|Hs]; [clear - Hs Hpq HpQ; lia|].
    destruct (N.ltb_spec (p * Q) (low + 6)) as [Hs2|Hs2]; [clear - Hs2 Hprod; lia|]. cbn [orb] in H.
    assert (Hpf : p * fst e < U64).
    { change (2 ^ 32) with 4294967296 in H32. assert (p * fst e <= p * 6) by (apply N.mul_le_mono_l; exact T1). clear - H0 H32. unfold U64. lia. }
    rewrite (wrap64_small (p * fst e) Hpf) in H.
    destruct (N.ltb_spec (stop - p * Q) (p * fst e)) as [Hs3|Hs3]; [|discriminate].
    rewrite N.mul_add_distr_l in Hpq. clear - Hs3 Hpq Hs. lia.
  - (* the product does not fit into 64 bits: it exceeds stop *)
    clear - Hw Hpq HpQ Hstop. unfold U64, MAX64 in *. lia.
Qed.

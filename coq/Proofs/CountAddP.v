(** C04: spec-level facts the counting code relies on. *)
From Coq Require Import NArith List Bool Lia Sorted.
From PS Require Import Spec.Primes Proofs.PrimeGenP Proofs.TablesP.
Import ListNotations.
Local Open Scope N_scope.

Lemma count_additive a m b : a <= m + 1 -> m <= b ->
  count_primes_spec a b = count_primes_spec a m + count_primes_spec (m + 1) b.
Proof.
  intros H1 H2. unfold count_primes_spec. rewrite (primes_between_split a m b H1 H2), app_length. lia.
Qed.

(** two strictly ascending lists with the same members are equal *)
Lemma sorted_ext : forall l1 l2 : list N,
  StronglySorted N.lt l1 -> StronglySorted N.lt l2 -> (forall x, In x l1 <-> In x l2) -> l1 = l2.
Proof.
  induction l1 as [|a l1 IH]; intros l2 S1 S2 H.
  - destruct l2 as [|b l2]; [reflexivity|]. exfalso. apply (H b). left. reflexivity.
  - destruct l2 as [|b l2]; [exfalso; apply (H a); left; reflexivity|].
    inversion S1 as [|? ? S1' A1]; inversion S2 as [|? ? S2' A2]; subst.
    rewrite Forall_forall in A1, A2.
    assert (a = b).
    { destruct (proj1 (H a) (or_introl eq_refl)) as [E|Hin]; [congruence|].
      destruct (proj2 (H b) (or_introl eq_refl)) as [E|Hin2]; [congruence|].
      specialize (A1 b Hin2). specialize (A2 a Hin). lia. }
    subst b. f_equal. apply IH; try assumption.
    intros x. split; intros Hx.
    + destruct (proj1 (H x) (or_intror Hx)) as [E|Hin]; [|exact Hin]. subst x. specialize (A1 a Hx). lia.
    + destruct (proj2 (H x) (or_intror Hx)) as [E|Hin]; [|exact Hin]. subst x. specialize (A2 a Hx). lia.
Qed.

Lemma sorted_app (l1 l2 : list N) :
  StronglySorted N.lt l1 -> StronglySorted N.lt l2 -> (forall x y, In x l1 -> In y l2 -> x < y) ->
  StronglySorted N.lt (l1 ++ l2).
Proof.
  induction l1 as [|a l1 IH]; intros S1 S2 H; cbn [app]; [exact S2|].
  inversion S1 as [|? ? S1' A1]; subst. constructor.
  - apply IH; [exact S1'|exact S2|]. intros x y Hx Hy. apply H; [right; exact Hx|exact Hy].
  - apply Forall_forall. intros x Hx. apply in_app_or in Hx. destruct Hx as [Hx|Hx].
    + rewrite Forall_forall in A1. apply A1. exact Hx.
    + apply H; [left; reflexivity|exact Hx].
Qed.

Lemma small_prime_cases p : prime p -> p < 7 -> p = 2 \/ p = 3 \/ p = 5.
Proof.
  intros Hp Hlt. assert (Hin : In p (primes_between 0 6)) by (apply In_primes_between; split; [lia|split; [lia|exact Hp]]).
  replace (primes_between 0 6) with [2; 3; 5] in Hin by (vm_compute; reflexivity).
  cbn in Hin. intuition.
Qed.

Lemma prime_2_3_5 : prime 2 /\ prime 3 /\ prime 5.
Proof. split; [|split]; apply is_prime_spec; vm_compute; reflexivity. Qed.

(** PrimeSieve::sieve(): the primes 2, 3, 5 come from the small table (counted iff inside [start, stop]),
    all others from the sieve on [max(start, 7), stop] *)
Theorem small_primes_split start stop :
  primes_between start stop =
  filter (fun p => (start <=? p) && (p <=? stop)) [2; 3; 5] ++ primes_between (N.max start 7) stop.
Proof.
  apply sorted_ext.
  - apply primes_between_sorted.
  - apply sorted_app.
    + apply StronglySorted_filter. repeat constructor; lia.
    + apply primes_between_sorted.
    + intros x y Hx Hy. apply filter_In in Hx. destruct Hx as [Hx _]. apply In_primes_between in Hy.
      cbn in Hx. lia.
  - intros x. rewrite in_app_iff, filter_In, !In_primes_between. rewrite andb_true_iff, !N.leb_le.
    destruct prime_2_3_5 as (P2 & P3 & P5). split.
    + intros (H1 & H2 & Hp). destruct (N.lt_ge_cases x 7) as [Hlt|Hge].
      * left. destruct (small_prime_cases x Hp Hlt) as [-> | [-> | ->]]; (split; [cbn; auto|split; assumption]).
      * right. split; [lia|split; assumption].
    + intros [(Hin & H1 & H2)|(H1 & H2 & Hp)].
      * cbn in Hin. destruct Hin as [<- | [<- | [<- | []]]]; (split; [assumption|split; assumption]).
      * split; [lia|split; assumption].
Qed.

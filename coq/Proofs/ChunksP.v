(** L3: EratSmall::crossOff processes the sieve array in chunks of l1CacheSize bytes, storing and reloading the sieving
    prime's state between chunks ([cross_chunks]).  For every sieving prime, state, array size and chunk size this clears
    exactly what the single loop over the whole array clears and leaves the same state ([cross_chunks_spec]) - so the
    kernel theorems, stated over the plain loop, hold for the chunked EratSmall. *)
From Coq Require Import NArith ZArith List Bool Lia.
From PS Require Import Gen.Tables Model.Count Model.CrossOff.
Import ListNotations.
Local Open Scope N_scope.

Definition shift (d : N) (c : N * N) : N * N := (fst c + d, snd c).

Lemma cross_fuel_mono steps : forall f size sp i w r, cross f steps size sp i w = Some r -> cross (S f) steps size sp i w = Some r.
Proof.
  induction f as [|f IH]; intros size sp i w r H; [discriminate|].
  cbn [cross] in H. change (cross (S (S f)) steps size sp i w) with
    (if size <=? i then Some ([], i - size, w)
     else let '(mask, a, b) := step_of steps w in
          match cross (S f) steps size sp (i + sp * a + b) (next_w w) with
          | Some (cl, i', w') => Some ((i, mask) :: cl, i', w') | None => None end).
  destruct (size <=? i); [exact H|]. destruct (step_of steps w) as [[mask a] b].
  destruct (cross f steps size sp (i + sp * a + b) (next_w w)) as [[[cl i'] w']|] eqn:E; [|discriminate].
  rewrite (IH _ _ _ _ _ E). exact H.
Qed.

Lemma cross_fuel_le steps f f' size sp i w r : (f <= f')%nat -> cross f steps size sp i w = Some r -> cross f' steps size sp i w = Some r.
Proof. induction 1 as [|f' _ IH]; intros H; [exact H|]. apply cross_fuel_mono. apply IH. exact H. Qed.

(** a loop over the second part of the array is the loop over the whole array started beyond the first part *)
Lemma cross_shift steps s1 : forall f s2 sp i w cl i' w', s1 <= i ->
  cross f steps s2 sp (i - s1) w = Some (cl, i', w') ->
  cross f steps (s1 + s2) sp i w = Some (map (shift s1) cl, i', w').
Proof.
  induction f as [|f IH]; intros s2 sp i w cl i' w' Hi H; [discriminate|]. cbn [cross] in *.
  destruct (N.leb_spec s2 (i - s1)) as [Hge|Hlt].
  - injection H as <- <- <-. destruct (N.leb_spec (s1 + s2) i); [|lia]. cbn [map]. replace (i - (s1 + s2)) with (i - s1 - s2) by lia. reflexivity.
  - destruct (N.leb_spec (s1 + s2) i); [lia|]. destruct (step_of steps w) as [[mask a] b].
    replace (i - s1 + sp * a + b) with (i + sp * a + b - s1) in H by lia.
    destruct (cross f steps s2 sp (i + sp * a + b - s1) (next_w w)) as [[[cl0 i0] w0]|] eqn:E; [|discriminate].
    injection H as <- <- <-. rewrite (IH s2 sp (i + sp * a + b) (next_w w) cl0 i0 w0 ltac:(lia) E).
    cbn [map]. change (shift s1 (i - s1, mask)) with (i - s1 + s1, mask). replace (i - s1 + s1) with i by lia. reflexivity.
Qed.

(** two consecutive loops are one loop over the concatenated array *)
Lemma cross_split steps s1 s2 : forall f sp i w cl1 i1 w1 f2 cl2 i2 w2,
  cross f steps s1 sp i w = Some (cl1, i1, w1) -> cross f2 steps s2 sp i1 w1 = Some (cl2, i2, w2) ->
  cross (f + f2) steps (s1 + s2) sp i w = Some (cl1 ++ map (shift s1) cl2, i2, w2).
Proof.
  induction f as [|f IH]; intros sp i w cl1 i1 w1 f2 cl2 i2 w2 H1 H2; [discriminate|]. cbn [cross] in H1.
  destruct (N.leb_spec s1 i) as [Hge|Hlt].
  - injection H1 as <- <- <-. cbn [app].
    apply (cross_fuel_le steps f2); [lia|]. apply cross_shift; assumption.
  - destruct (step_of steps w) as [[mask a] b] eqn:Es.
    destruct (cross f steps s1 sp (i + sp * a + b) (next_w w)) as [[[cl0 i0] w0]|] eqn:E; [|discriminate].
    injection H1 as <- <- <-. change (S f + f2)%nat with (S (f + f2)). cbn [cross].
    destruct (N.leb_spec (s1 + s2) i); [lia|]. rewrite Es.
    rewrite (IH _ _ _ _ _ _ _ _ _ _ E H2). reflexivity.
Qed.

Theorem cross_chunks_spec steps l1 total : 1 <= l1 -> forall n fuel off sp i w cl i' w',
  off <= total -> cross_chunks n fuel steps l1 total off sp i w = Some (cl, i', w') ->
  exists fuel' cl0, cross fuel' steps (total - off) sp i w = Some (cl0, i', w') /\ cl = map (shift off) cl0.
Proof.
  intros Hl1. induction n as [|n IH]; intros fuel off sp i w cl i' w' Hoff H; [discriminate|]. cbn [cross_chunks] in H.
  destruct (N.leb_spec total off) as [Hge|Hlt].
  - injection H as <- <- <-. exists 1%nat, []. cbn [cross map].
    destruct (N.leb_spec (total - off) i); [|lia]. replace (total - off) with 0 by lia. rewrite N.sub_0_r. split; reflexivity.
  - destruct (cross fuel steps (N.min l1 (total - off)) sp i w) as [[[cl1 i1] w1]|] eqn:E1; [|discriminate].
    destruct (cross_chunks n fuel steps l1 total (off + l1) sp i1 w1) as [[[cls i2] w2]|] eqn:E2; [|discriminate].
    injection H as <- <- <-.
    destruct (N.le_gt_cases (off + l1) total) as [Hin|Hout].
    + (* a full chunk, more follow *)
      rewrite N.min_l in E1 by lia.
      destruct (IH fuel (off + l1) sp i1 w1 cls i2 w2 Hin E2) as (f2 & cl2 & Hc2 & ->).
      exists (fuel + f2)%nat, (cl1 ++ map (shift l1) cl2).
      split.
      * replace (total - off) with (l1 + (total - (off + l1))) by lia. exact (cross_split steps l1 _ fuel sp i w cl1 i1 w1 f2 cl2 i2 w2 E1 Hc2).
      * rewrite map_app, map_map. f_equal. apply map_ext. intros c. unfold shift. cbn [fst snd]. f_equal. lia.
    + (* the last, shorter chunk *)
      rewrite N.min_r in E1 by lia.
      destruct n as [|n']; [discriminate|]. cbn [cross_chunks] in E2. destruct (N.leb_spec total (off + l1)); [|lia].
      injection E2 as <- <- <-. exists fuel, cl1. split; [exact E1|]. rewrite app_nil_r. reflexivity.
Qed.

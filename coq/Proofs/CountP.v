(** C05: the per-byte bit masks of the source select exactly the prime
    constellations inside a sieve byte; a constellation with least member >= 7
    whose members are all coprime to 30 never straddles two bytes; the
    small-constellation table is exact. *)
From Coq Require Import NArith ZArith List Bool String Lia DecimalString.
From PS Require Import Spec.Primes Gen.Tables Model.Count Proofs.TablesP.
Import ListNotations.
Local Open Scope N_scope.

Definition lists_eqb (a b : list (list N)) : bool :=
  if list_eq_dec (list_eq_dec N.eq_dec) a b then true else false.
Lemma lists_eqb_eq a b : lists_eqb a b = true -> a = b.
Proof. unfold lists_eqb. destruct (list_eq_dec _ a b); [auto|discriminate]. Qed.

(** for every kind (twins .. sextuplets) and every byte value j < 256: walking the source's mask
    row with the loop condition "*b <= j" yields exactly the constellations among the numbers
    represented by the byte, ordered by first member *)
Definition masks_ok_at (idx : nat) (j : N) : bool :=
  lists_eqb (byte_tuplets (nth idx kBitmasks []) 0 j) (tuplets_of_set idx (byte_numbers 0 j)).

Lemma masks_ok_all : forallb (fun idx => forallb (masks_ok_at idx) (Nseq 256)) [1; 2; 3; 4; 5]%nat = true.
Proof. vm_compute. reflexivity. Qed.

Theorem mask_lemma idx j :
  (1 <= idx <= 5)%nat -> j < 256 ->
  byte_tuplets (nth idx kBitmasks []) 0 j = tuplets_of_set idx (byte_numbers 0 j).
Proof.
  intros Hi Hj. pose proof masks_ok_all as H. rewrite forallb_forall in H.
  assert (Hin : In idx [1; 2; 3; 4; 5]%nat) by (cbn; lia).
  specialize (H idx Hin). rewrite forallb_forall in H.
  apply lists_eqb_eq. apply H. apply In_Nseq. exact Hj.
Qed.

(** hence the count table entry is the number of constellations in the byte *)
Corollary kcount_lemma idx j :
  (1 <= idx <= 5)%nat -> j < 256 ->
  kcount (nth idx kBitmasks []) j = N.of_nat (List.length (tuplets_of_set idx (byte_numbers 0 j))).
Proof.
  intros Hi Hj. unfold kcount. rewrite <- (mask_lemma idx j Hi Hj). unfold byte_tuplets. rewrite map_length. reflexivity.
Qed.

(** a byte's numbers at base low are those at base 0 shifted *)
Lemma byte_numbers_shift low j : byte_numbers low j = map (N.add low) (byte_numbers 0 j).
Proof. unfold byte_numbers. rewrite map_map. apply map_ext. intros i. lia. Qed.

(** residue check: if p and all p + d (d in the shape) are coprime to 30 then, with r = (p - 7) mod 30 + 7
    the position of p inside its byte, r + (last d) <= 31: the constellation ends inside the same byte *)
Definition coprime30 (x : N) : bool := negb ((x mod 2 =? 0) || (x mod 3 =? 0) || (x mod 5 =? 0)).
Definition one_byte_at (idx : nat) (r : N) : bool :=
  forallb (fun sh => if forallb (fun d => coprime30 (r + d)) sh
                     then (r + 23) mod 30 + 7 + last sh 0 <=? 31 else true) (shapes idx).
Lemma one_byte_all : forallb (fun idx => forallb (one_byte_at idx) (Nseq 30)) [1; 2; 3; 4; 5]%nat = true.
Proof. vm_compute. reflexivity. Qed.

Ltac Zify.zify_post_hook ::= Z.to_euclidean_division_equations.

Lemma coprime30_mod x : coprime30 x = coprime30 (x mod 30).
Proof.
  unfold coprime30.
  assert (E2 : (x mod 30) mod 2 = x mod 2) by lia.
  assert (E3 : (x mod 30) mod 3 = x mod 3) by lia.
  assert (E5 : (x mod 30) mod 5 = x mod 5) by lia.
  rewrite E2, E3, E5. reflexivity.
Qed.

(** C05: a constellation of kind idx with least member p >= 7 all of whose members are coprime
    to 30 (in particular: all prime) lies inside the sieve byte of p *)
Theorem tuplet_one_byte idx sh p :
  (1 <= idx <= 5)%nat -> In sh (shapes idx) -> 7 <= p ->
  (forall d, In d sh -> coprime30 (p + d) = true) ->
  let low := p - ((p - 7) mod 30 + 7) in
  low mod 30 = 0 /\ low + 7 <= p /\ p + last sh 0 <= low + 31.
Proof.
  intros Hi Hsh Hp Hco low.
  pose proof one_byte_all as H. rewrite forallb_forall in H.
  assert (Hin : In idx [1; 2; 3; 4; 5]%nat) by (cbn; lia).
  specialize (H idx Hin). rewrite forallb_forall in H.
  assert (Hlt : p mod 30 < N.of_nat 30) by (change (N.of_nat 30) with 30; apply N.mod_lt; lia).
  specialize (H (p mod 30) (In_Nseq 30 _ Hlt)). unfold one_byte_at in H. rewrite forallb_forall in H.
  specialize (H sh Hsh).
  assert (Hall : forallb (fun d => coprime30 (p mod 30 + d)) sh = true).
  { apply forallb_forall. intros d Hd. rewrite coprime30_mod. rewrite <- (Hco d Hd). rewrite (coprime30_mod (p + d)).
    f_equal. rewrite N.add_mod_idemp_l by lia. reflexivity. }
  rewrite Hall in H. apply N.leb_le in H. subst low.
  assert (E : (p mod 30 + 23) mod 30 = (p - 7) mod 30) by lia.
  rewrite E in H. lia.
Qed.

(** the small-constellation table of PrimeSieve.cpp: the rows with index k >= 1 are exactly the
    constellations of that kind having a member below 7 (with all members prime), together with
    their first/last member and their printed text *)
Local Open Scope string_scope.
Definition dec (n : N) : string := NilEmpty.string_of_uint (N.to_uint n).
Fixpoint join (l : list string) : string :=
  match l with [] => "" | [x] => x | x :: l' => x ++ ", " ++ join l' end.
Definition render (t : list N) : string :=
  match t with [p] => dec p | _ => "(" ++ join (map dec t) ++ ")" end.
Local Open Scope N_scope.
Definition small_row_of (idx : nat) (t : list N) : N * N * N * string :=
  (hd 0 t, last t 0, N.of_nat idx, render t).
Definition small_spec : list (N * N * N * string) :=
  map (fun p => small_row_of 0 [p]) [2; 3; 5] ++
  flat_map (fun idx => flat_map (fun p => flat_map (fun sh =>
      let t := map (N.add p) sh in if forallb is_prime t then [small_row_of idx t] else []) (shapes idx)) [2; 3; 5])
    [1; 2; 3; 4; 5]%nat.

Definition row_eqb (a b : N * N * N * string) : bool :=
  let '(f, l, i, s) := a in let '(f', l', i', s') := b in (f =? f') && (l =? l') && (i =? i') && String.eqb s s'.
Lemma small_table_ok :
  (List.length smallTuplets =? List.length small_spec)%nat &&
  forallb (fun r => existsb (row_eqb r) small_spec) smallTuplets &&
  forallb (fun r => existsb (row_eqb r) smallTuplets) small_spec = true.
Proof. vm_compute. reflexivity. Qed.

(** L3: EratMedium's 64 bucket lists (Model/EratMediumM.em_cross) compute, up to the order inside the lists, exactly
    what the plain per-prime loop [cross_all] over the EratMedium step table computes for all stored sieving primes
    ([em_cross_spec]); a store through buckets_[wheelIndex] always has wheelIndex < 64 ([em_cross_safe]).  With
    KernelP.cross_all_spec / kernel_segment_g (which hold for every step table satisfying entry_ok2, and
    CrossOffP.eratMediumSteps_entries) this gives the segment theorem for EratMedium ([em_segment_spec]). *)
From Coq Require Import NArith ZArith List Bool Lia Permutation.
From PS Require Import Spec.Primes Gen.Tables Model.Count Model.CrossOff Model.EratMediumM Proofs.TablesP Proofs.CrossOffP Proofs.KernelP.
Import ListNotations.
Local Open Scope N_scope.
Ltac Zify.zify_post_hook ::= Z.to_euclidean_division_equations.

Definition tag (w : N) (e : N * N) : N * N * N := (fst e, snd e, w).
Fixpoint em_abs_from (w : N) (b : em_buckets) : list (N * N * N) :=
  match b with [] => [] | l :: r => map (tag w) l ++ em_abs_from (w + 1) r end.
Definition em_abs (b : em_buckets) : list (N * N * N) := em_abs_from 0 b.

Lemma em_push_some : forall w e b, (w < length b)%nat -> exists b', em_push w e b = Some b'.
Proof.
  induction w as [|s IH]; intros e b H; destruct b as [|l r]; cbn [length] in H; try lia; cbn [em_push].
  - eexists. reflexivity.
  - destruct (IH e r) as (r' & ->); [lia|]. eexists. reflexivity.
Qed.

Lemma em_push_length : forall w e b b', em_push w e b = Some b' -> length b' = length b.
Proof.
  induction w as [|s IH]; intros e b b' H; destruct b as [|l r]; cbn [em_push] in H; try discriminate.
  - injection H as <-. reflexivity.
  - destruct (em_push s e r) as [r'|] eqn:E; [|discriminate]. injection H as <-. cbn [length]. f_equal. eapply IH. exact E.
Qed.

Lemma em_push_abs : forall w e b b' k, em_push w e b = Some b' ->
  Permutation (em_abs_from k b') (tag (k + N.of_nat w) e :: em_abs_from k b).
Proof.
  induction w as [|s IH]; intros e b b' k H; destruct b as [|l r]; cbn [em_push] in H; try discriminate.
  - injection H as <-. cbn [em_abs_from map app]. replace (k + N.of_nat 0) with k by lia. apply Permutation_refl.
  - destruct (em_push s e r) as [r'|] eqn:E; [|discriminate]. injection H as <-. cbn [em_abs_from].
    specialize (IH e r r' (k + 1) E). replace (k + 1 + N.of_nat s) with (k + N.of_nat (S s)) in IH by lia.
    eapply perm_trans; [apply Permutation_app_head; exact IH|]. symmetry. apply Permutation_middle.
Qed.

Lemma cross_w_lt steps : forall fuel size sp i w cl i' w', cross fuel steps size sp i w = Some (cl, i', w') -> w < 64 -> w' < 64.
Proof.
  induction fuel as [|f IH]; intros size sp i w cl i' w' H Hw; cbn [cross] in H; [discriminate|].
  destruct (size <=? i); [injection H as _ _ <-; exact Hw|].
  destruct (step_of steps w) as [[mask a] b].
  destruct (cross f steps size sp (i + sp * a + b) (next_w w)) as [[[cl0 i0] w0]|] eqn:E; [|discriminate].
  injection H as _ _ <-. eapply IH; [exact E|]. unfold next_w. lia.
Qed.

Lemma cross_all_app fuel steps size : forall l1 l2 c1 s1 c2 s2,
  cross_all fuel steps size l1 = Some (c1, s1) -> cross_all fuel steps size l2 = Some (c2, s2) ->
  cross_all fuel steps size (l1 ++ l2) = Some (c1 ++ c2, s1 ++ s2).
Proof.
  induction l1 as [|[[sp i] w] r IH]; intros l2 c1 s1 c2 s2 H1 H2; cbn [cross_all app] in *.
  - injection H1 as <- <-. exact H2.
  - destruct (cross fuel steps size sp i w) as [[[cl i'] w']|]; [|discriminate].
    destruct (cross_all fuel steps size r) as [[cls r']|] eqn:E; [|discriminate]. injection H1 as <- <-.
    rewrite (IH l2 cls r' c2 s2 eq_refl H2). rewrite app_assoc. reflexivity.
Qed.

Section EM.
Variables (fuel : nat) (size : N).
Notation steps := eratMediumSteps.

Lemma em_cross_list_spec w : w < 64 -> forall l nb acc cl nb', length nb = 64%nat ->
  em_cross_list fuel size w l nb acc = Some (cl, nb') ->
  exists cls sts, cross_all fuel steps size (map (tag w) l) = Some (cls, sts) /\
                  Permutation cl (cls ++ acc) /\ Permutation (em_abs nb') (sts ++ em_abs nb) /\ length nb' = 64%nat.
Proof.
  intros Hw. induction l as [|[sp i] r IH]; intros nb acc cl nb' Hlen H; cbn [em_cross_list map cross_all] in *.
  - injection H as <- <-. exists [], []. repeat split; try apply Permutation_refl. exact Hlen.
  - cbn [tag fst snd]. destruct (cross fuel steps size sp i w) as [[[cl0 i'] w']|] eqn:E; [|discriminate].
    destruct (em_push (N.to_nat w') (sp, i') nb) as [nb1|] eqn:Ep; [|discriminate].
    assert (Hlen1 : length nb1 = 64%nat) by (rewrite (em_push_length _ _ _ _ Ep); exact Hlen).
    destruct (IH nb1 (cl0 ++ acc) cl nb' Hlen1 H) as (cls & sts & Hc & P1 & P2 & Hl').
    exists (cl0 ++ cls), ((sp, i', w') :: sts). rewrite Hc. split; [reflexivity|]. split; [|split; [|exact Hl']].
    + eapply perm_trans; [exact P1|]. rewrite <- app_assoc. apply Permutation_app_swap_app.
    + eapply perm_trans; [exact P2|]. pose proof (em_push_abs _ _ _ _ 0 Ep) as Pa. fold (em_abs nb1) in Pa. fold (em_abs nb) in Pa.
      replace (tag (0 + N.of_nat (N.to_nat w')) (sp, i')) with (sp, i', w') in Pa by (unfold tag; cbn [fst snd]; f_equal; lia).
      eapply perm_trans; [apply Permutation_app_head; exact Pa|]. cbn [app]. symmetry. apply Permutation_middle.
Qed.

Lemma em_cross_lists_spec : forall cur w nb acc cl nb', (N.to_nat w + length cur <= 64)%nat -> length nb = 64%nat ->
  em_cross_lists fuel size w cur nb acc = Some (cl, nb') ->
  exists cls sts, cross_all fuel steps size (em_abs_from w cur) = Some (cls, sts) /\
                  Permutation cl (cls ++ acc) /\ Permutation (em_abs nb') (sts ++ em_abs nb) /\ length nb' = 64%nat.
Proof.
  induction cur as [|l r IH]; intros w nb acc cl nb' Hw Hlen H; cbn [em_cross_lists em_abs_from] in *.
  - injection H as <- <-. exists [], []. cbn [cross_all]. repeat split; try apply Permutation_refl. exact Hlen.
  - cbn [length] in Hw.
    destruct (em_cross_list fuel size w l nb acc) as [[acc1 nb1]|] eqn:E1; [|discriminate].
    destruct (em_cross_list_spec w ltac:(lia) l nb acc acc1 nb1 Hlen E1) as (c1 & s1 & Hc1 & P1 & P2 & Hl1).
    destruct (IH (w + 1) nb1 acc1 cl nb' ltac:(lia) Hl1 H) as (c2 & s2 & Hc2 & Q1 & Q2 & Hl2).
    exists (c1 ++ c2), (s1 ++ s2). split; [apply cross_all_app; assumption|]. split; [|split; [|exact Hl2]].
    + eapply perm_trans; [exact Q1|]. eapply perm_trans; [apply Permutation_app_head; exact P1|].
      rewrite <- app_assoc. apply Permutation_app_swap_app.
    + eapply perm_trans; [exact Q2|]. eapply perm_trans; [apply Permutation_app_head; exact P2|].
      rewrite <- app_assoc. apply Permutation_app_swap_app.
Qed.

Theorem em_cross_spec b cl nb : length b = 64%nat -> em_cross fuel size b = Some (cl, nb) ->
  exists cls sts, cross_all fuel steps size (em_abs b) = Some (cls, sts) /\
                  Permutation cl cls /\ Permutation (em_abs nb) sts /\ length nb = 64%nat.
Proof.
  intros Hlen H. unfold em_cross in H.
  destruct (em_cross_lists_spec b 0 em_empty [] cl nb ltac:(cbn; lia) eq_refl H) as (cls & sts & Hc & P1 & P2 & Hl).
  exists cls, sts. split; [exact Hc|]. rewrite app_nil_r in P1. change (em_abs em_empty) with (@nil (N * N * N)) in P2. rewrite app_nil_r in P2.
  repeat split; assumption.
Qed.

(** no store goes outside the 64 lists: the machine fails only when a per-prime loop runs out of fuel *)
Lemma em_cross_list_safe w : w < 64 -> forall l nb acc, length nb = 64%nat ->
  (forall sp i, In (sp, i) l -> cross fuel steps size sp i w <> None) ->
  exists cl nb', em_cross_list fuel size w l nb acc = Some (cl, nb') /\ length nb' = 64%nat.
Proof.
  intros Hw. induction l as [|[sp i] r IH]; intros nb acc Hlen Hok; cbn [em_cross_list]; [eexists; eexists; split; [reflexivity|exact Hlen]|].
  destruct (cross fuel steps size sp i w) as [[[cl0 i'] w']|] eqn:E; [|exfalso; apply (Hok sp i); [left; reflexivity|exact E]].
  pose proof (cross_w_lt _ _ _ _ _ _ _ _ _ E Hw) as Hw'.
  destruct (em_push_some (N.to_nat w') (sp, i') nb ltac:(lia)) as (nb1 & Ep). rewrite Ep.
  apply IH; [rewrite (em_push_length _ _ _ _ Ep); exact Hlen|intros sp0 i0 Hin; apply Hok; right; exact Hin].
Qed.

Lemma em_cross_lists_safe : forall cur w nb acc, (N.to_nat w + length cur <= 64)%nat -> length nb = 64%nat ->
  (forall sp i w', In (sp, i, w') (em_abs_from w cur) -> cross fuel steps size sp i w' <> None) ->
  exists cl nb', em_cross_lists fuel size w cur nb acc = Some (cl, nb').
Proof.
  induction cur as [|l r IH]; intros w nb acc Hw Hlen Hok; cbn [em_cross_lists em_abs_from] in *; [eexists; eexists; reflexivity|].
  cbn [length] in Hw.
  destruct (em_cross_list_safe w ltac:(lia) l nb acc Hlen) as (cl1 & nb1 & E1 & Hl1).
  { intros sp i Hin. apply Hok. apply in_or_app. left. apply (in_map (tag w) _ (sp, i)) in Hin. exact Hin. }
  rewrite E1. apply IH; [lia|exact Hl1|]. intros sp i w' Hin. apply Hok. apply in_or_app. right. exact Hin.
Qed.

Theorem em_cross_safe b : length b = 64%nat ->
  (forall sp i w, In (sp, i, w) (em_abs b) -> cross fuel steps size sp i w <> None) ->
  exists cl nb, em_cross fuel size b = Some (cl, nb).
Proof. intros Hlen Hok. unfold em_cross. apply em_cross_lists_safe; [cbn; lia|reflexivity|exact Hok]. Qed.
End EM.

(** storing: the wheel index handed over by Wheel30::addSievingPrime is below 64 *)
Theorem em_store_ok b prime idx w : (b = [] \/ length b = 64%nat) -> w < 64 ->
  exists b', em_store b prime idx w = Some b' /\ length b' = 64%nat /\
             Permutation (em_abs b') ((prime / 30, idx, w) :: em_abs b).
Proof.
  intros Hb Hw. unfold em_store.
  set (b0 := match b with [] => em_empty | _ => b end).
  assert (Hl0 : length b0 = 64%nat) by (subst b0; destruct Hb as [->|Hb]; [reflexivity|destruct b; [discriminate|exact Hb]]).
  assert (Ha : em_abs b0 = em_abs b) by (subst b0; destruct b; reflexivity).
  destruct (em_push_some (N.to_nat w) (prime / 30, idx) b0 ltac:(lia)) as (b' & Ep).
  exists b'. split; [exact Ep|]. split; [rewrite (em_push_length _ _ _ _ Ep); exact Hl0|].
  pose proof (em_push_abs _ _ _ _ 0 Ep) as Pa. fold (em_abs b') in Pa. fold (em_abs b0) in Pa. rewrite Ha in Pa.
  replace (tag (0 + N.of_nat (N.to_nat w)) (prime / 30, idx)) with (prime / 30, idx, w) in Pa by (unfold tag; cbn [fst snd]; f_equal; lia).
  exact Pa.
Qed.

(** the plain loop over a permutation of the states *)
Lemma cross_all_perm fuel steps size l l' : Permutation l l' -> forall c s,
  cross_all fuel steps size l = Some (c, s) ->
  exists c' s', cross_all fuel steps size l' = Some (c', s') /\ Permutation c c' /\ Permutation s s'.
Proof.
  induction 1 as [|[[sp i] w] l l' HP IH|[[sp1 i1] w1] [[sp2 i2] w2] l|l l' l'' HP1 IH1 HP2 IH2]; intros c s H.
  - exists c, s. split; [exact H|split; apply Permutation_refl].
  - cbn [cross_all] in *. destruct (cross fuel steps size sp i w) as [[[cl i'] w']|]; [|discriminate].
    destruct (cross_all fuel steps size l) as [[cls r']|] eqn:E; [|discriminate]. injection H as <- <-.
    destruct (IH _ _ eq_refl) as (c' & s' & -> & Pc & Ps).
    eexists; eexists. split; [reflexivity|]. split; [apply Permutation_app_head; exact Pc|constructor; exact Ps].
  - cbn [cross_all] in *.
    destruct (cross fuel steps size sp2 i2 w2) as [[[cl2 i2'] w2']|]; [|discriminate].
    destruct (cross fuel steps size sp1 i1 w1) as [[[cl1 i1'] w1']|]; [|discriminate].
    destruct (cross_all fuel steps size l) as [[cls r']|]; [|discriminate]. injection H as <- <-.
    eexists; eexists. split; [reflexivity|]. split; [apply Permutation_app_swap_app|apply perm_swap].
  - destruct (IH1 _ _ H) as (c1 & s1 & H1 & Pc1 & Ps1). destruct (IH2 _ _ H1) as (c2 & s2 & H2 & Pc2 & Ps2).
    exists c2, s2. split; [exact H2|]. split; eapply perm_trans; eassumption.
Qed.

(** the segment theorem for EratMedium: cleared bits and next states as for the plain loop *)
Theorem em_segment_spec fuel low size (b : em_buckets) (ws : list wstate) cl nb :
  low mod 30 = 0 -> length b = 64%nat -> Forall (w_ok low) ws -> Permutation (em_abs b) (map w_state ws) ->
  em_cross fuel size b = Some (cl, nb) ->
  (forall bb m, In (bb, m) cl <-> exists x q', In x ws /\ w_q x <= q' /\ coprime30 q' /\ byteof low (w_prime x * q') < size /\
                                          bb = byteof low (w_prime x * q') /\ m = maskof (w_prime x * q')) /\
  exists ws', Forall (w_ok (low + 30 * size)) ws' /\ map w_prime ws' = map w_prime ws /\
              Permutation (em_abs nb) (map w_state ws') /\ length nb = 64%nat.
Proof.
  intros Hl Hlen Hok Hperm H.
  destruct (em_cross_spec fuel size b cl nb Hlen H) as (cls & sts & Hc & P1 & P2 & Hl').
  destruct (cross_all_perm _ _ _ _ _ Hperm _ _ Hc) as (c' & s' & Hc' & Pc & Ps).
  destruct (cross_all_spec eratMediumSteps eratMediumSteps_entries fuel low size Hl ws c' s' Hok Hc') as (Hm & ws' & Hws' & Hps & Hss).
  split.
  - intros bb m. rewrite <- Hm. split; intros Hin.
    + eapply Permutation_in; [|exact Hin]. eapply perm_trans; eassumption.
    + eapply Permutation_in; [|exact Hin]. symmetry. eapply perm_trans; eassumption.
  - exists ws'. split; [exact Hws'|]. split; [exact Hps|]. split; [|exact Hl'].
    rewrite Hss. eapply perm_trans; eassumption.
Qed.

Example em_inhabited : exists b, em_store [] 1009 5 3 = Some b /\ length b = 64%nat.
Proof. destruct (em_store_ok [] 1009 5 3 (or_introl eq_refl) ltac:(lia)) as (b & H1 & H2 & _). exists b. split; assumption. Qed.

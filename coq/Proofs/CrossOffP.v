(** L3: the cross-off loop of EratSmall / EratMedium for one sieving prime in one segment clears exactly
    the bits of the multiples prime*q, q running through the successive cofactors coprime to 30, and
    leaves the state of the next multiple for the following segment - for every sieving prime, segment
    base, segment size and starting cofactor.  The step tables are the ones extracted from the source. *)
From Coq Require Import NArith ZArith List Bool Lia.
From PS Require Import Spec.Primes Gen.Tables Model.Count Model.CrossOff Proofs.TablesP.
Import ListNotations.
Local Open Scope N_scope.
Ltac Zify.zify_post_hook ::= Z.to_euclidean_division_equations.

Definition pres8 : list N := [7; 11; 13; 17; 19; 23; 29; 1].
Definition nthd (l : list N) (i : N) : N := nth (N.to_nat i) l 0.

(** what one table entry must satisfy (checked by computation for both tables below) *)
Definition entry_ok2 (steps : list (N * N * N)) (w : N) : bool :=
  let '(mask, a, b) := step_of steps w in
  let r := nthd pres8 (w / 8) in
  let qq := nthd cop30 (w mod 8) in
  let qq' := nthd cop30 ((w mod 8 + 1) mod 8) in
  (a =? gap30 qq) && ((qq + a) mod 30 =? qq') && (mask =? maskof (r * qq)) &&
  (offb (r * qq) + a * r =? 30 * b + offb (r * qq')) && (7 <=? offb (r * qq)) && (offb (r * qq) <=? 31).

Lemma eratSmallSteps_entries : forallb (entry_ok2 eratSmallSteps) (Nseq 64) = true.
Proof. vm_compute. reflexivity. Qed.
Lemma eratMediumSteps_entries : forallb (entry_ok2 eratMediumSteps) (Nseq 64) = true.
Proof. vm_compute. reflexivity. Qed.

(** offb / maskof only depend on the residue mod 30 *)
Lemma offb_mod x y : x mod 30 = y mod 30 -> offb x = offb y.
Proof. unfold offb. intros ->. reflexivity. Qed.
Lemma maskof_mod x y : x mod 30 = y mod 30 -> maskof x = maskof y.
Proof. unfold maskof. intros H. rewrite (offb_mod x y H). reflexivity. Qed.

Lemma mul_mod30 sp r q qq : q mod 30 = qq mod 30 -> ((30 * sp + r) * q) mod 30 = (r * qq) mod 30.
Proof.
  intros H. rewrite N.mul_mod by lia. rewrite (N.mul_mod r qq) by lia.
  replace ((30 * sp + r) mod 30) with (r mod 30).
  - rewrite H. reflexivity.
  - rewrite N.add_comm, N.mul_comm, N.mod_add by lia. reflexivity.
Qed.

Section CrossOff.
Variable steps : list (N * N * N).
Hypothesis Hsteps : forallb (entry_ok2 steps) (Nseq 64) = true.

Definition sprime (sp ri : N) : N := 30 * sp + nthd pres8 ri.

(** the state (i, 8*ri + qi) stands for the multiple prime*q at byte i of the segment based at low *)
Definition Inv (low sp ri qi q i : N) : Prop :=
  ri < 8 /\ qi < 8 /\ q mod 30 = nthd cop30 qi /\
  sprime sp ri * q = low + 30 * i + offb (sprime sp ri * q).

Lemma cop30_lt qi : qi < 8 -> nthd cop30 qi < 30.
Proof.
  intros H. assert (T : forallb (fun k => nthd cop30 k <? 30) (Nseq 8) = true) by (vm_compute; reflexivity).
  rewrite forallb_forall in T. apply N.ltb_lt. apply T. apply In_Nseq. exact H.
Qed.

Lemma entry_facts ri qi : ri < 8 -> qi < 8 ->
  let '(mask, a, b) := step_of steps (8 * ri + qi) in
  let r := nthd pres8 ri in let qq := nthd cop30 qi in let qq' := nthd cop30 ((qi + 1) mod 8) in
  a = gap30 qq /\ (qq + a) mod 30 = qq' /\ mask = maskof (r * qq) /\
  offb (r * qq) + a * r = 30 * b + offb (r * qq') /\ 7 <= offb (r * qq) <= 31.
Proof.
  intros Hr Hq. pose proof Hsteps as T. rewrite forallb_forall in T.
  assert (Hw : 8 * ri + qi < N.of_nat 64) by (change (N.of_nat 64) with 64; lia).
  specialize (T (8 * ri + qi) (In_Nseq 64 _ Hw)). unfold entry_ok2 in T.
  replace ((8 * ri + qi) / 8) with ri in T by lia. replace ((8 * ri + qi) mod 8) with qi in T by lia.
  destruct (step_of steps (8 * ri + qi)) as [[mask a] b]. cbv zeta.
  repeat (apply andb_true_iff in T; destruct T as [T ?]).
  repeat match goal with H : (_ =? _) = true |- _ => apply N.eqb_eq in H | H : (_ <=? _) = true |- _ => apply N.leb_le in H end.
  repeat split; assumption.
Qed.

Lemma next_w_eq ri qi : ri < 8 -> qi < 8 -> next_w (8 * ri + qi) = 8 * ri + (qi + 1) mod 8.
Proof. intros Hr Hq. unfold next_w. replace ((8 * ri + qi) / 8) with ri by lia. replace ((8 * ri + qi) mod 8) with qi by lia. reflexivity. Qed.

(** the position equation determines the byte *)
Lemma byteof_pos low n i o : n = low + 30 * i + o -> 7 <= o <= 31 -> byteof low n = i.
Proof. intros -> Ho. unfold byteof. lia. Qed.

Lemma inv_off low sp ri qi q i : Inv low sp ri qi q i ->
  offb (sprime sp ri * q) = offb (nthd pres8 ri * nthd cop30 qi) /\ maskof (sprime sp ri * q) = maskof (nthd pres8 ri * nthd cop30 qi) /\
  7 <= offb (sprime sp ri * q) <= 31.
Proof.
  intros (Hr & Hq & Hm & _).
  assert (E : (sprime sp ri * q) mod 30 = (nthd pres8 ri * nthd cop30 qi) mod 30).
  { unfold sprime. apply mul_mod30. rewrite Hm. symmetry. apply N.mod_small. apply cop30_lt. exact Hq. }
  pose proof (entry_facts ri qi Hr Hq) as F. destruct (step_of steps (8 * ri + qi)) as [[mask a] b]. cbv zeta in F.
  destruct F as (_ & _ & _ & _ & Ho).
  rewrite (offb_mod _ _ E), (maskof_mod _ _ E). repeat split; lia.
Qed.

(** one step of the loop *)
Lemma cross_step low sp ri qi q i : Inv low sp ri qi q i ->
  let '(mask, a, b) := step_of steps (8 * ri + qi) in
  mask = maskof (sprime sp ri * q) /\ nextc q = q + a /\
  Inv low sp ri ((qi + 1) mod 8) (nextc q) (i + sp * a + b).
Proof.
  intros HI. pose proof (inv_off _ _ _ _ _ _ HI) as (Eo & Em & Ho). destruct HI as (Hr & Hq & Hm & Hp).
  pose proof (entry_facts ri qi Hr Hq) as F. destruct (step_of steps (8 * ri + qi)) as [[mask a] b]. cbv zeta in F.
  destruct F as (Fa & Fq & Fm & Fo & _).
  assert (Hn : nextc q = q + a) by (unfold nextc; rewrite Hm, Fa; reflexivity).
  split; [rewrite Em; exact Fm|]. split; [exact Hn|].
  assert (Hq' : (qi + 1) mod 8 < 8) by (apply N.mod_lt; lia).
  assert (Hm' : (q + a) mod 30 = nthd cop30 ((qi + 1) mod 8)).
  { rewrite N.add_mod by lia. rewrite Hm. rewrite <- Fq. rewrite (N.add_mod (nthd cop30 qi) a) by lia.
    rewrite (N.mod_small (nthd cop30 qi)) by (apply cop30_lt; exact Hq). reflexivity. }
  rewrite Hn. split; [exact Hr|]. split; [exact Hq'|]. split; [exact Hm'|].
  assert (E' : (sprime sp ri * (q + a)) mod 30 = (nthd pres8 ri * nthd cop30 ((qi + 1) mod 8)) mod 30).
  { unfold sprime. apply mul_mod30. rewrite Hm'. symmetry. apply N.mod_small. apply cop30_lt. exact Hq'. }
  rewrite (offb_mod _ _ E'). rewrite Eo in Hp. unfold sprime in *.
  set (r := nthd pres8 ri) in *. set (o := offb (r * nthd cop30 qi)) in *. set (o' := offb (r * nthd cop30 ((qi + 1) mod 8))) in *.
  clearbody r o o'. lia.
Qed.

(** refinement: the loop computes the specification and leaves the invariant for the next segment *)
Theorem cross_refines : forall fuel size low sp ri qi q i cl i' w',
  Inv low sp ri qi q i ->
  cross fuel steps size sp i (8 * ri + qi) = Some (cl, i', w') ->
  exists qe qie, spec_cross fuel low size (sprime sp ri) q = Some (cl, qe) /\
                 Inv (low + 30 * size) sp ri qie qe i' /\ w' = 8 * ri + qie.
Proof.
  induction fuel as [|f IH]; intros size low sp ri qi q i cl i' w' HI H; cbn [cross spec_cross] in *; [discriminate|].
  pose proof (inv_off _ _ _ _ _ _ HI) as (_ & _ & Ho).
  assert (Hb : byteof low (sprime sp ri * q) = i) by (destruct HI as (_ & _ & _ & Hp); apply (byteof_pos low _ i _ Hp Ho)).
  rewrite Hb. destruct (N.leb_spec size i) as [Hge|Hlt].
  - injection H as <- <- <-. exists q, qi. split; [reflexivity|]. split; [|reflexivity].
    destruct HI as (Hr & Hq & Hm & Hp). repeat split; try assumption. lia.
  - pose proof (cross_step _ _ _ _ _ _ HI) as S. destruct (step_of steps (8 * ri + qi)) as [[mask a] b].
    destruct S as (Sm & Sn & SI). destruct HI as (Hr & Hq & _).
    rewrite (next_w_eq ri qi Hr Hq) in H.
    destruct (cross f steps size sp (i + sp * a + b) (8 * ri + (qi + 1) mod 8)) as [[[cl0 i0] w0]|] eqn:E; [|discriminate].
    injection H as <- <- <-.
    destruct (IH _ _ _ _ _ _ _ _ _ _ SI E) as (qe & qie & Hs & HI' & Hw).
    exists qe, qie. rewrite Hs, Sm. split; [reflexivity|split; [exact HI'|exact Hw]].
Qed.

(** termination: every step advances the byte index (a >= 2, sp >= 0 ... ) - the loop needs at most
    size + 1 rounds when every step moves forward by at least one byte or ... ; we only need existence of
    enough fuel, which the correspondence exercises; the theorem above holds for every fuel that suffices *)
End CrossOff.

(** ---- the specification side: which numbers are crossed off *)

Definition coprime30 (q : N) : Prop := In (q mod 30) cop30.

Lemma nextc_facts : forallb (fun qm => let g := gap30 qm in
    existsb (N.eqb ((qm + g) mod 30)) cop30 && (1 <=? g) &&
    forallb (fun d => negb (existsb (N.eqb ((qm + d) mod 30)) cop30)) (filter (fun d => (1 <=? d) && (d <? g)) (Nseq 7))) cop30 = true.
Proof. vm_compute. reflexivity. Qed.

Lemma existsb_eqb_In x l : existsb (N.eqb x) l = true <-> In x l.
Proof. rewrite existsb_exists. split; [intros (y & Hy & E); apply N.eqb_eq in E; subst; assumption|intros H; exists x; split; [assumption|apply N.eqb_refl]]. Qed.

Lemma nextc_spec q : coprime30 q ->
  coprime30 (nextc q) /\ q < nextc q /\ forall x, q < x < nextc q -> ~ coprime30 x.
Proof.
  intros Hq. unfold coprime30 in *. pose proof nextc_facts as T. rewrite forallb_forall in T. specialize (T _ Hq). cbv zeta in T.
  apply andb_true_iff in T. destruct T as [T T3]. apply andb_true_iff in T. destruct T as [T1 T2].
  apply existsb_eqb_In in T1. apply N.leb_le in T2. unfold nextc.
  split; [|split; [lia|]].
  - rewrite N.add_mod by lia. rewrite N.add_mod in T1 by lia. rewrite N.mod_mod in T1 by lia. exact T1.
  - intros x Hx Hc. rewrite forallb_forall in T3.
    set (g := gap30 (q mod 30)) in *.
    assert (Hg : g <= 6).
    { subst g. clear - Hq. unfold cop30 in Hq. cbn [In] in Hq. repeat (destruct Hq as [Hq|Hq]; [rewrite <- Hq; cbn; lia|]). contradiction. }
    assert (Hd : In (x - q) (filter (fun d => (1 <=? d) && (d <? g)) (Nseq 7))).
    { apply filter_In. split; [apply In_Nseq; change (N.of_nat 7) with 7; lia|].
      apply andb_true_iff. split; [apply N.leb_le; lia|apply N.ltb_lt; lia]. }
    specialize (T3 _ Hd). apply negb_true_iff in T3.
    assert (In ((q mod 30 + (x - q)) mod 30) cop30).
    { replace ((q mod 30 + (x - q)) mod 30) with (x mod 30); [exact Hc|].
      rewrite N.add_mod by lia. rewrite N.mod_mod by lia. rewrite <- N.add_mod by lia. f_equal. lia. }
    apply existsb_eqb_In in H. congruence.
Qed.

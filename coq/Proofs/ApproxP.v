(** C18: generic lemmas behind the finite-domain error bounds of the Gram series:
    the running-term loop equals its Horner form, the series is strictly increasing on [1, oo),
    and a list of contiguous blocks with kernel-checked interval facts yields the bounds for every
    integer the blocks cover. *)
From Coq Require Import Reals ZArith NArith List Bool Lia Lra.
From PS Require Import Spec.Primes Gen.Zeta Model.Approx.
Import ListNotations.
Local Open Scope R_scope.

Lemma gram_aux_horner L zs : forall term k, gram_aux L term k zs = term * horner L k zs.
Proof.
  induction zs as [|z zs IH]; intros term k; cbn [gram_aux horner]; [ring|].
  rewrite IH. unfold Rdiv. ring.
Qed.

Lemma gram_horner x : gram x = gramH x.
Proof. unfold gram, gramH. rewrite gram_aux_horner. ring. Qed.

Definition pos_entry (z : Z * Z) : bool := ((0 <? fst z) && (0 <? snd z))%Z.

Lemma pos_entry_q2r z : pos_entry z = true -> 0 < q2r z.
Proof.
  unfold pos_entry, q2r. intros H. apply andb_true_iff in H. destruct H as [H1 H2].
  apply Z.ltb_lt in H1, H2. apply Rdiv_lt_0_compat; apply IZR_lt; assumption.
Qed.

Lemma gram_terms_pos : forallb pos_entry gram_terms = true.
Proof. vm_compute. reflexivity. Qed.

Lemma gram_terms_nonempty : gram_terms <> [].
Proof. vm_compute. discriminate. Qed.

Lemma kpos k : 0 < IZR (Zpos k).
Proof. apply IZR_lt. reflexivity. Qed.

Lemma coef_pos z k : 0 < q2r z -> 0 < 1 / (q2r z * IZR (Zpos k)).
Proof. intros H. apply Rdiv_lt_0_compat; [lra|]. apply Rmult_lt_0_compat; [assumption|apply kpos]. Qed.

(** for 0 <= L1 <= L2 and positive table entries: 0 <= horner L1 <= horner L2 *)
Lemma horner_mono L1 L2 zs : 0 <= L1 <= L2 -> forallb pos_entry zs = true ->
  forall k, 0 <= horner L1 k zs <= horner L2 k zs.
Proof.
  intros HL. induction zs as [|z zs IH]; intros Hp k; cbn [horner]; [lra|].
  cbn [forallb] in Hp. apply andb_true_iff in Hp. destruct Hp as [Hz Hp].
  specialize (IH Hp (Pos.succ k)). pose proof (coef_pos z k (pos_entry_q2r z Hz)) as Hc. pose proof (kpos k) as Hk.
  assert (H1 : 0 <= L1 / IZR (Zpos k)) by (apply Rmult_le_pos; [lra|left; apply Rinv_0_lt_compat; assumption]).
  assert (H2 : L1 / IZR (Zpos k) <= L2 / IZR (Zpos k)) by (apply Rmult_le_compat_r; [left; apply Rinv_0_lt_compat; assumption|lra]).
  split.
  - apply Rmult_le_pos; lra.
  - apply Rmult_le_compat; lra.
Qed.

Lemma horner_strict L1 L2 zs : 0 <= L1 < L2 -> forallb pos_entry zs = true -> zs <> [] ->
  forall k, horner L1 k zs < horner L2 k zs.
Proof.
  intros HL Hp Hne k. destruct zs as [|z zs]; [congruence|]. cbn [horner].
  cbn [forallb] in Hp. apply andb_true_iff in Hp. destruct Hp as [Hz Hp].
  pose proof (horner_mono L1 L2 zs ltac:(lra) Hp (Pos.succ k)) as IH.
  pose proof (coef_pos z k (pos_entry_q2r z Hz)) as Hc. pose proof (kpos k) as Hk.
  assert (H1 : 0 <= L1 / IZR (Zpos k)) by (apply Rmult_le_pos; [lra|left; apply Rinv_0_lt_compat; assumption]).
  assert (H2 : L1 / IZR (Zpos k) < L2 / IZR (Zpos k)) by (apply Rmult_lt_compat_r; [apply Rinv_0_lt_compat; assumption|lra]).
  apply Rle_lt_trans with (L1 / IZR (Zpos k) * (1 / (q2r z * IZR (Zpos k)) + horner L2 (Pos.succ k) zs)).
  - apply Rmult_le_compat_l; lra.
  - apply Rmult_lt_compat_r; lra.
Qed.

(** the series is strictly increasing on [1, oo) *)
Lemma gramH_strict t1 t2 : 1 <= t1 -> t1 < t2 -> gramH t1 < gramH t2.
Proof.
  intros H1 H2. unfold gramH. apply Rplus_lt_compat_l.
  apply horner_strict; [|exact gram_terms_pos|exact gram_terms_nonempty].
  split.
  - destruct H1 as [H1|<-]; [left; rewrite <- ln_1; apply ln_increasing; lra|rewrite ln_1; lra].
  - apply ln_increasing; lra.
Qed.

Lemma gramH_le t1 t2 : 1 <= t1 -> t1 <= t2 -> gramH t1 <= gramH t2.
Proof. intros H1 [H2|<-]; [left; apply gramH_strict; assumption|lra]. Qed.

(** pi is monotone *)
Lemma pi_mono a x : (a <= x)%N -> (count_primes_spec 0 a <= count_primes_spec 0 x)%N.
Proof.
  intros H. unfold count_primes_spec. rewrite (primes_between_split 0 a x) by lia. rewrite app_length.
  generalize (length (primes_between 0 a)) (length (primes_between (a + 1) x)). intros; lia.
Qed.

Lemma pi_split a x : (a <= x)%N -> (count_primes_spec 0 x = count_primes_spec 0 a + count_primes_spec (a + 1) x)%N.
Proof.
  intros H. unfold count_primes_spec. rewrite (primes_between_split 0 a x) by lia. rewrite app_length.
  generalize (length (primes_between 0 a)) (length (primes_between (a + 1) x)). intros; lia.
Qed.

Lemma NR_le a b : (a <= b)%N -> NR a <= NR b.
Proof. intros H. unfold NR. apply IZR_le. lia. Qed.

Definition blk_pi_ok (k : blk) : Prop :=
  count_primes_spec 0 (b_a k) = b_i k /\ count_primes_spec 0 (b_b k) = b_j k.

(** the conclusions for one integer x with n = pi(x) *)
Definition R_bound (x : N) : Prop := Rabs (gram (NR x) - piR x) < sqrt (NR x) - margin.
Definition Rinv_bound (x : N) : Prop :=
  forall t, 1 <= t -> gram t = piR x -> Rabs (t - NR x) < sqrt (NR x) - margin.

Lemma block_bounds k x : blk_real_ok k -> blk_pi_ok k -> (1 <= b_a k)%N -> (b_a k <= x <= b_b k)%N ->
  R_bound x /\ Rinv_bound x.
Proof.
  intros (HR1 & HR2 & (Hlo1 & Hlh) & Hlo & Hhi & Hh1 & Hh2) (Hi & Hj) Ha1 (Hax & Hxb).
  pose proof (NR_le _ _ Hax) as Ea. pose proof (NR_le _ _ Hxb) as Eb.
  assert (Epi : NR (b_i k) <= piR x <= NR (b_j k)).
  { unfold piR. rewrite <- Hi, <- Hj. split; apply IZR_le; apply N2Z.inj_le; apply pi_mono; assumption. }
  assert (Esq : sqrt (NR (b_a k)) <= sqrt (NR x)) by (apply sqrt_le_1_alt; exact Ea).
  assert (E1 : 1 <= NR (b_a k)) by (change 1 with (NR 1); apply NR_le; assumption).
  split.
  - unfold R_bound. rewrite gram_horner.
    pose proof (gramH_le (NR (b_a k)) (NR x) E1 Ea) as G1.
    pose proof (gramH_le (NR x) (NR (b_b k)) ltac:(lra) Eb) as G2.
    apply Rabs_def1; lra.
  - intros t Ht Hg. rewrite gram_horner in Hg.
    assert (T1 : q2r (b_lo k) <= t).
    { destruct (Rle_lt_dec (q2r (b_lo k)) t) as [|Hc]; [assumption|]. exfalso.
      pose proof (gramH_strict t (q2r (b_lo k)) Ht Hc). lra. }
    assert (T2 : t <= q2r (b_hi k)).
    { destruct (Rle_lt_dec t (q2r (b_hi k))) as [|Hc]; [assumption|]. exfalso.
      pose proof (gramH_strict (q2r (b_hi k)) t ltac:(lra) Hc). lra. }
    apply Rabs_def1; lra.
Qed.

(** contiguity: every integer of [s, e) lies in some block *)
Lemma contig_cover l : forall s e, contig s l = Some e ->
  (s <= e)%N /\ forall x, (s <= x < e)%N -> exists k, In k l /\ (b_a k <= x <= b_b k)%N.
Proof.
  induction l as [|k r IH]; intros s e H; cbn [contig] in H.
  - injection H as <-. split; [lia|]. intros x Hx. lia.
  - destruct ((b_a k =? s)%N && (b_a k <=? b_b k)%N) eqn:E; [|discriminate].
    apply andb_true_iff in E. destruct E as [E1 E2]. apply N.eqb_eq in E1. apply N.leb_le in E2.
    destruct (IH _ _ H) as [Hle Hcov]. split; [lia|]. intros x Hx.
    destruct (N.le_gt_cases x (b_b k)) as [Hin|Hout].
    + exists k. split; [left; reflexivity|lia].
    + destruct (Hcov x ltac:(lia)) as (k' & Hk' & Hr). exists k'. split; [right; assumption|assumption].
Qed.

(** the incremental pi computation is right *)
Lemma pi_check_ok l : forall prev acc, count_primes_spec 0 prev = acc -> pi_check prev acc l = true ->
  Forall blk_pi_ok l /\ count_primes_spec 0 (fst (last_pt prev acc l)) = snd (last_pt prev acc l).
Proof.
  induction l as [|k r IH]; intros prev acc Hacc H; cbn [pi_check] in H.
  - split; [constructor|]. cbn. exact Hacc.
  - repeat (apply andb_true_iff in H; destruct H as [H ?]).
    match goal with H1 : pi_check _ _ _ = true |- _ => rename H1 into Hrest end.
    apply N.ltb_lt in H. 
    match goal with H1 : (b_a k <=? b_b k)%N = true |- _ => apply N.leb_le in H1; rename H1 into Hab end.
    match goal with H1 : (b_i k =? _)%N = true |- _ => apply N.eqb_eq in H1; rename H1 into Hi end.
    match goal with H1 : (b_j k =? _)%N = true |- _ => apply N.eqb_eq in H1; rename H1 into Hj end.
    assert (Pa : count_primes_spec 0 (b_a k) = b_i k).
    { rewrite (pi_split prev (b_a k)) by lia. rewrite Hacc. symmetry. exact Hi. }
    assert (Pb : count_primes_spec 0 (b_b k) = b_j k).
    { rewrite (pi_split (b_a k) (b_b k)) by lia. rewrite Pa. symmetry. exact Hj. }
    destruct (IH (b_b k) (b_j k) Pb Hrest) as [F L]. split.
    + constructor; [split; assumption|exact F].
    + cbn [last_pt]. exact L.
Qed.

(** all blocks together *)
Theorem blocks_bounds l s e :
  Forall blk_real_ok l -> Forall blk_pi_ok l -> contig s l = Some e -> (1 <= s)%N ->
  forall x, (s <= x < e)%N -> R_bound x /\ Rinv_bound x.
Proof.
  intros HR HP HC Hs x Hx. destruct (contig_cover l s e HC) as [_ Hcov].
  destruct (Hcov x Hx) as (k & Hin & Hk).
  assert (Hak : (s <= b_a k)%N).
  { clear - HC Hin. revert s HC. induction l as [|k0 r IH]; intros s HC; [contradiction|]. cbn [contig] in HC.
    destruct ((b_a k0 =? s)%N && (b_a k0 <=? b_b k0)%N) eqn:E; [|discriminate].
    apply andb_true_iff in E. destruct E as [E1 E2]. apply N.eqb_eq in E1. apply N.leb_le in E2.
    destruct Hin as [<-|Hin]; [lia|]. specialize (IH Hin _ HC). lia. }
  rewrite Forall_forall in HR, HP.
  apply (block_bounds k x (HR k Hin) (HP k Hin)); [lia|assumption].
Qed.

(** the clamp of nthPrimeApprox never wraps: its result is floor(res) when that fits and 2^64-1 otherwise *)
Lemma clamp64_spec fl : (0 <= fl)%Z ->
  (0 <= clamp64 fl <= Z.of_N MAX64)%Z /\
  (fl <= Z.of_N MAX64 -> clamp64 fl = fl)%Z /\ (Z.of_N MAX64 < fl -> clamp64 fl = Z.of_N MAX64)%Z.
Proof. intros H. unfold clamp64. destruct (Z.gtb_spec fl (Z.of_N MAX64)); unfold MAX64 in *; lia. Qed.

Lemma clamp64_mono f1 f2 : (f1 <= f2)%Z -> (clamp64 f1 <= clamp64 f2)%Z.
Proof. intros H. unfold clamp64. destruct (Z.gtb_spec f1 (Z.of_N MAX64)), (Z.gtb_spec f2 (Z.of_N MAX64)); lia. Qed.

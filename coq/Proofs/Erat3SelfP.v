(** L3/L4: the self-contained three-algorithm kernel (Model/Erat3Self.erat3_self: outer kernel with the thresholds of
    initAlgorithms, sieving primes from an inner kernel over [165, isqrt(stop)] fed by the tiny sieve, decoding of the
    surviving pre-sieved bits) returns exactly the primes of [start, stop] in ascending order - for every configuration and
    every interval 7 <= start <= stop < 2^64 ([erat3_self_spec]).  No hypothesis about sieving primes, fuel or the sieve. *)
From Coq Require Import NArith ZArith List Bool Lia Sorted.
From PS Require Import Spec.Primes Gen.Tables Model.Pmath Model.Config Model.EratGeom Model.Count Model.Wheel Model.CrossOff
  Model.KernelPs Model.EratMediumM Model.EratBigM Model.Erat3M Model.SievingPrimesM Model.Erat3Self
  Proofs.TablesP Proofs.PmathP Proofs.ConfigP Proofs.EratGeomP Proofs.CountAddP Proofs.CrossOffP Proofs.KernelP Proofs.KernelInitP
  Proofs.KernelTopP Proofs.KernelListP Proofs.BytesTopP Proofs.EratBigP Proofs.Erat3LoopP Proofs.Erat3TotalP Proofs.Erat3TopP
  Proofs.SievingPrimesP.
Import ListNotations.
Local Open Scope N_scope.

(** what the bit-level theorems say about one segment *)
Definition seg_bits_ok (r : kseg * list (N * N)) : Prop :=
  let '(sg, cleared) := r in
  forall n, coprime30 n -> k_low sg + 7 <= n -> byteof (k_low sg) n < k_size sg -> 7 <= n -> n <= k_high sg ->
  (presieve_bit (k_low sg) n = true /\ ~ In (byteof (k_low sg) n, maskof n) cleared <-> prime n).

Theorem surviving_ps_spec sg cleared : k_low sg mod 30 = 0 -> seg_bits_ok (sg, cleared) ->
  forall n, In n (surviving_ps sg cleared) <->
            prime n /\ k_low sg + 7 <= n /\ n <= k_high sg /\ n <= k_low sg + 30 * k_size sg + 6.
Proof.
  intros Hl Hok n. unfold surviving_ps. rewrite filter_In, in_map_iff. cbn [seg_bits_ok] in Hok. split.
  - intros ((i & E & Hi) & Hf). apply in_seq in Hi.
    apply andb_true_iff in Hf. destruct Hf as [Hf Hnc]. apply andb_true_iff in Hf. destruct Hf as [Hf Hps].
    apply andb_true_iff in Hf. destruct Hf as [Hc Hh].
    apply existsb_eqb_In in Hc. apply N.leb_le in Hh. apply negb_true_iff in Hnc.
    assert (Hn7 : k_low sg + 7 <= n) by lia.
    assert (Hup : n <= k_low sg + 30 * k_size sg + 6) by lia.
    assert (Hb : byteof (k_low sg) n < k_size sg).
    { pose proof (position n (k_low sg) Hl Hc Hn7) as P. destruct (offb_range n Hc) as [Ho _].
      set (b := byteof (k_low sg) n) in *. clearbody b. lia. }
    assert (Hpr : prime n).
    { apply (Hok n Hc Hn7 Hb ltac:(lia) Hh). split; [exact Hps|]. intros Hin. apply pair_mem_In in Hin. congruence. }
    split; [exact Hpr|split; [exact Hn7|split; [exact Hh|exact Hup]]].
  - intros (Hpr & Hn7 & Hh & Hup).
    assert (H7 : 7 <= n) by lia.
    pose proof (prime_coprime30 n Hpr H7) as Hc.
    assert (Hb : byteof (k_low sg) n < k_size sg).
    { pose proof (position n (k_low sg) Hl Hc Hn7) as P. destruct (offb_range n Hc) as [Ho _].
      set (b := byteof (k_low sg) n) in *. clearbody b. lia. }
    destruct (proj2 (Hok n Hc Hn7 Hb H7 Hh) Hpr) as (Hps & Hnc).
    split.
    + exists (N.to_nat (n - k_low sg - 7)). split; [lia|]. apply in_seq. lia.
    + apply andb_true_iff. split; [apply andb_true_iff; split; [apply andb_true_iff; split; [apply existsb_eqb_In; exact Hc|apply N.leb_le; exact Hh]|exact Hps]|].
      apply negb_true_iff. destruct (pair_mem _ _ cleared) eqn:E; [|reflexivity].
      apply pair_mem_In in E. contradiction.
Qed.

Lemma surviving_ps_sorted sg cleared : StronglySorted N.lt (surviving_ps sg cleared).
Proof.
  unfold surviving_ps. apply StronglySorted_filter.
  generalize (N.to_nat (30 * k_size sg)). intros len. generalize 0%nat.
  induction len as [|len IH]; intros s; cbn [seq map]; [constructor|]. constructor; [apply IH|].
  apply Forall_forall. intros y Hy. apply in_map_iff in Hy. destruct Hy as (i & <- & Hi). apply in_seq in Hi. lia.
Qed.

Lemma flat_surviving_ps : forall result a b,
  Forall seg_bits_ok result -> covers a (map fst result) b ->
  (forall n, In n (flat_map (fun r => surviving_ps (fst r) (snd r)) result) <-> prime n /\ a <= n /\ n <= b) /\
  StronglySorted N.lt (flat_map (fun r => surviving_ps (fst r) (snd r)) result) /\
  (forall n, In n (flat_map (fun r => surviving_ps (fst r) (snd r)) result) -> a <= n).
Proof.
  induction result as [|[sg cleared] rest IH]; intros a b Hok Hcov; cbn [map fst covers flat_map] in *.
  - split; [|split; [constructor|intros n []]]. intros n. split; [intros []|intros (_ & H1 & H2); lia].
  - inversion Hok as [|? ? Hsg Hrest]; subst. destruct Hcov as (Ha & H30 & Hne & Hcov).
    destruct (IH _ _ Hrest Hcov) as (Hmem & Hsorted & Hlow).
    pose proof (surviving_ps_spec sg cleared H30 Hsg) as Hs.
    assert (Hhi : forall n, In n (surviving_ps sg cleared) <-> prime n /\ a <= n /\ n <= hi_of sg).
    { intros n. rewrite Hs. unfold hi_of. split.
      - intros (H1 & H2 & H3 & H4). split; [exact H1|]. lia.
      - intros (H1 & H2 & H3). split; [exact H1|]. lia. }
    cbn [fst snd]. split; [|split].
    + intros n. rewrite in_app_iff, Hhi, Hmem. split.
      * intros [(H1 & H2 & H3)|(H1 & H2 & H3)]; (split; [exact H1|]).
        -- split; [exact H2|]. set (h := hi_of sg) in *. clearbody h. clear - H3 Hcov.
           assert (G : forall l x, covers x l b -> x <= b + 1).
           { induction l as [|s l IHl]; intros x Hx; cbn [covers] in Hx; [lia|]. destruct Hx as (E & _ & Hn & Hx). specialize (IHl _ Hx). lia. }
           specialize (G _ _ Hcov). lia.
        -- split; [|exact H3]. lia.
      * intros (H1 & H2 & H3). destruct (N.le_gt_cases n (hi_of sg)) as [Hle|Hgt]; [left|right]; (split; [exact H1|]); lia.
    + apply sorted_app; [apply surviving_ps_sorted|exact Hsorted|].
      intros x y Hx Hy. apply Hhi in Hx. specialize (Hlow y Hy). lia.
    + intros n Hn. apply in_app_iff in Hn. destruct Hn as [Hn|Hn]; [apply Hhi in Hn; lia|].
      specialize (Hlow n Hn). lia.
Qed.

Lemma result_bases3 fuel stop ms mm lg : forall segs pending s res,
  sieve_loop3 fuel stop ms mm lg segs pending s = Some res -> map fst res = segs.
Proof.
  induction segs as [|sg rest IH]; intros pending s res H; cbn [sieve_loop3] in H.
  - injection H as <-. reflexivity.
  - destruct (span_sq (k_high sg) pending) as [now later].
    destruct (add_primes3 stop (k_low sg) ms mm lg s now) as [s1|]; [|discriminate].
    destruct (cross3 fuel (k_size sg) lg s1) as [[cl s2]|]; [|discriminate].
    destruct (sieve_loop3 fuel stop ms mm lg rest later s2) as [r|] eqn:E; [|discriminate]. injection H as <-.
    cbn [map fst]. rewrite (IH _ _ _ E). reflexivity.
Qed.

(** with the sieving primes 164..isqrt(stop) the kernel returns the primes of the interval *)
Theorem erat3_with_spec l1 maxKB s e pending : 16 <= maxKB -> maxKB <= 8192 -> 7 <= s -> s <= e -> e <= MAX64 ->
  pending = primes_between 164 (N.sqrt e) -> erat3_with pending l1 maxKB s e = primes_between s e.
Proof.
  intros K1 K2 S1 S2 S3 ->. unfold erat3_with. cbv zeta.
  pose proof (initAlgorithms_admissible l1 maxKB s e K1 K2 S1 S2 S3) as A. cbn zeta in A.
  set (a := initAlgorithms l1 maxKB s e) in *.
  destruct A as (A1 & A2 & A3 & A4 & A5 & A6 & A7 & A8 & A9 & A10 & A11).
  assert (Hinv : geom_inv e (a_segLow a) (a_segHigh a) (a_sieveSize a)) by (unfold geom_inv; repeat split; try assumption; lia).
  set (fuelg := (N.to_nat ((e - a_segLow a) / (30 * a_sieveSize a)) + 2)%nat).
  pose proof (segments_loop_total e S3 fuelg _ _ _ Hinv (Nat.le_refl _)) as Htot.
  unfold segments. fold a.
  destruct (segments_loop fuelg e (a_segLow a) (a_segHigh a) (a_sieveSize a)) as [l|] eqn:El; [|congruence].
  assert (Hsegs : segments fuelg l1 maxKB s e = Some l) by (unfold segments; fold a; exact El).
  destruct (segments_ok l1 maxKB s e fuelg l K1 K2 S1 S2 S3 Hsegs) as (Hne & Hall & Hadj & Hfirst). cbn zeta in Hfirst.
  pose proof (segments_loop_last_high e S3 fuelg _ _ _ l Hinv El) as Hlast.
  change (map (fun sg => {| k_low := s_low sg; k_size := s_bytes sg; k_high := s_high sg |}) l) with (map to_kseg l).
  set (pend := primes_between 164 (N.sqrt e)).
  (* the loop returns *)
  destruct (erat3_geometry l1 maxKB s e fuelg l K1 K2 S1 S2 S3 Hsegs) as (sg0 & r0 & El0 & Hs3 & Hszs & Hle). fold a in Hszs, Hle.
  assert (H31 : 31 <= 164) by lia.
  assert (Hret : sieve_loop3 (fuel3 a (length pend)) e (a_maxSmall a) (a_maxMedium a) (N.log2 (a_sieveSize a)) (map to_kseg l) pend e3_init <> None).
  { unfold fuel3. set (F := 30 * a_sieveSize a + 38 + N.of_nat (length pend) * 2 ^ N.log2 (a_sieveSize a) + 1).
    apply (sieve_loop3_total e (a_maxSmall a) (a_maxMedium a) (N.log2 (a_sieveSize a)) 164 S3 H31 (N.to_nat F) ltac:(subst F; lia)
             (map to_kseg l) (s_low sg0) pend e3_init (mkW [] [] []) Hs3 Hszs (st_ok_init _ _) (fun _ => eq_refl)).
    - apply Forall_forall. intros p Hp. apply pending_spec. exact Hp.
    - apply Forall_forall. intros sg Hin. apply in_map_iff in Hin. destruct Hin as (x & <- & Hx). rewrite Forall_forall in Hle. specialize (Hle x Hx).
      cbn [to_kseg k_size]. rewrite N2Nat.id. subst F. lia.
    - rewrite N2Nat.id. subst F. cbn [biglen e3_init e_big abs_of abs_from length plus]. unfold EratBigP.size. lia. }
  destruct (sieve_loop3 (fuel3 a (length pend)) e (a_maxSmall a) (a_maxMedium a) (N.log2 (a_sieveSize a)) (map to_kseg l) pend e3_init) as [result|] eqn:Er; [|congruence].
  pose proof (erat3_model_correct l1 maxKB s e fuelg (fuel3 a (length pend)) l result K1 K2 S1 S2 S3 Hsegs Er) as Hres.
  pose proof (covers_of_segments e l Hall Hadj Hlast Hne) as Hcov.
  rewrite <- (result_bases3 _ _ _ _ _ _ _ _ _ Er) in Hcov.
  destruct (flat_surviving_ps result _ _ Hres Hcov) as (Hmem & Hsorted & _).
  apply sorted_ext.
  - apply StronglySorted_filter. exact Hsorted.
  - apply primes_between_sorted.
  - intros x. rewrite filter_In, Hmem, In_primes_between, N.leb_le. destruct Hfirst as (_ & Hf1 & _). split.
    + intros ((Hp & H1 & H2) & H3). split; [exact H3|]. split; [exact H2|exact Hp].
    + intros (H1 & H2 & Hp). split; [split; [exact Hp|]; lia|exact H1].
Qed.

(** ---- the sieving primes *)
Lemma not_prime_164 : ~ prime 164.
Proof. intros H. apply is_prime_spec in H. vm_compute in H. discriminate. Qed.

Lemma pb_164_165 b : primes_between 164 b = primes_between 165 b.
Proof.
  apply sorted_ext; try apply primes_between_sorted. intros x. rewrite !In_primes_between. split.
  - intros (H1 & H2 & H3). split; [|split; assumption]. destruct (N.eq_dec x 164) as [->|]; [exfalso; exact (not_prime_164 H3)|lia].
  - intros (H1 & H2 & H3). split; [lia|split; assumption].
Qed.

Lemma prime_odd p : prime p -> 3 <= p -> p mod 2 = 1.
Proof.
  intros Hp H3. destruct (N.eq_dec (p mod 2) 1) as [E|E]; [exact E|exfalso].
  assert (D : (2 | Z.of_N p)%Z) by (exists (Z.of_N (p / 2)); lia).
  destruct (Znumtheory.prime_divisors _ Hp _ D) as [H|[H|[H|H]]]; lia.
Qed.

(** SievingPrimes takes from its tiny sieve exactly the primes 165..isqrt(its stop) *)
Theorem tiny_pending_spec st : tiny_pending st = primes_between 165 (N.sqrt st).
Proof.
  unfold tiny_pending, tiny_built. destruct (N.leb_spec (165 * 165) st) as [Hb|Hb].
  - apply sorted_ext.
    + apply StronglySorted_filter, Nrange_sorted.
    + apply primes_between_sorted.
    + intros x. rewrite filter_In, In_Nrange, In_primes_between, andb_true_iff, N.eqb_eq. fold (at_ (tiny_sieve (N.sqrt st)) x).
      assert (Hsq : 165 <= N.sqrt st) by (apply N.sqrt_le_square; lia).
      split.
      * intros ((H1 & H2) & Ho & Ht). split; [exact H1|]. split; [lia|]. apply (tiny_sieve_spec (N.sqrt st) x Ho); [lia|lia|exact Ht].
      * intros (H1 & H2 & Hp). pose proof (prime_odd x Hp ltac:(lia)) as Ho. split; [lia|]. split; [exact Ho|].
        apply (tiny_sieve_spec (N.sqrt st) x Ho); [lia|exact H2|exact Hp].
  - symmetry. apply primes_between_empty. apply N.sqrt_lt_square; lia.
Qed.

Lemma no_members_nil (l : list N) : (forall x, ~ In x l) -> l = [].
Proof. destruct l as [|a l]; [reflexivity|]. intros H. exfalso. apply (H a). left. reflexivity. Qed.

Theorem sieving_primes3_spec l1 maxKB stop : 16 <= maxKB -> maxKB <= 8192 -> stop <= MAX64 ->
  sieving_primes3 l1 maxKB stop = primes_between 164 (N.sqrt stop).
Proof.
  intros K1 K2 S3. unfold sieving_primes3. cbv zeta. set (st := N.sqrt stop).
  destruct (N.ltb_spec st 165) as [Hlt|Hge].
  - symmetry. apply no_members_nil. intros x Hx. apply In_primes_between in Hx. destruct Hx as (H1 & H2 & H3).
    assert (x = 164) by lia. subst x. exact (not_prime_164 H3).
  - rewrite pb_164_165. apply erat3_with_spec; try assumption; try lia.
    + subst st. pose proof (N.sqrt_le_lin stop). unfold MAX64 in *. lia.
    + rewrite tiny_pending_spec. symmetry. apply pb_164_165.
Qed.

(** the self-contained three-algorithm kernel: exactly the primes of the interval, for every configuration *)
Theorem erat3_self_spec l1 maxKB : 16 <= maxKB -> maxKB <= 8192 ->
  forall s e, 7 <= s -> s <= e -> e <= MAX64 -> erat3_self l1 maxKB s e = primes_between s e.
Proof.
  intros K1 K2 s e S1 S2 S3. unfold erat3_self.
  apply erat3_with_spec; try assumption. apply sieving_primes3_spec; assumption.
Qed.

(** ---- the general theorems instantiated with the three-algorithm kernel *)
From PS Require Import Spec.Cursor Model.Iterator Model.PrimeGen Proofs.PrimeGenP Proofs.IteratorCor.

Theorem erat3_self_erat_spec l1 maxKB : 16 <= maxKB -> maxKB <= 8192 -> erat_spec (erat3_self l1 maxKB).
Proof. intros K1 K2 s e H1 H2 H3 _. apply erat3_self_spec; [exact K1|exact K2|lia|exact H2|exact H3]. Qed.

Theorem pg_model3_spec l1 maxKB : 16 <= maxKB -> maxKB <= 8192 ->
  forall a b, a <= b -> b <= MAX64 -> pg_primes (erat3_self l1 maxKB) a b = primes_between a b.
Proof. intros K1 K2. apply pg_primes_spec. apply erat3_self_erat_spec; assumption. Qed.

Theorem next_calls_model3 l1 maxKB nextDist prevDist maxGap cut : 16 <= maxKB -> maxKB <= 8192 -> cut_spec cut ->
  forall fuel s h k it' rs,
    s <= MAX64 ->
    run nextDist prevDist maxGap (pg_primes (erat3_self l1 maxKB)) cut fuel (fresh_iter s h) (repeat Next k) = Done (it', rs) ->
    let P := primes_between s MAX64 in
    rs = map Val (firstn k P) ++ repeat Err (k - length P).
Proof. intros K1 K2 HC. apply next_calls_spec_pg; [apply erat3_self_erat_spec; assumption|exact HC]. Qed.

Theorem prev_calls_model3 l1 maxKB nextDist prevDist maxGap cut : 16 <= maxKB -> maxKB <= 8192 -> cut_spec cut ->
  forall fuel s h k it' rs,
    s <= MAX64 ->
    run nextDist prevDist maxGap (pg_primes (erat3_self l1 maxKB)) cut fuel (fresh_iter s h) (repeat Prev k) = Done (it', rs) ->
    let P := rev (primes_between 0 s) in
    rs = map Val (firstn k P) ++ repeat (Val 0) (k - length P).
Proof. intros K1 K2 HC. apply prev_calls_spec_pg; [apply erat3_self_erat_spec; assumption|exact HC]. Qed.

(** count_primes over the three-algorithm kernel: 2, 3, 5 from the small table, the rest from the kernel *)
Definition sieve_model3 (l1 maxKB start stop : N) : list N :=
  filter (fun p => (start <=? p) && (p <=? stop)) [2; 3; 5] ++
  (if N.max start 7 <=? stop then erat3_self l1 maxKB (N.max start 7) stop else []).

Theorem count_model3_spec l1 maxKB : 16 <= maxKB -> maxKB <= 8192 ->
  forall start stop, stop <= MAX64 ->
  N.of_nat (length (sieve_model3 l1 maxKB start stop)) = count_primes_spec start stop.
Proof.
  intros K1 K2 start stop Hs. unfold sieve_model3, count_primes_spec.
  replace (filter (fun p => (start <=? p) && (p <=? stop)) [2; 3; 5] ++ (if N.max start 7 <=? stop then erat3_self l1 maxKB (N.max start 7) stop else []))
    with (primes_between start stop); [reflexivity|].
  rewrite (small_primes_split start stop). f_equal.
  destruct (N.leb_spec (N.max start 7) stop) as [Hle|Hgt].
  - symmetry. apply erat3_self_spec; [exact K1|exact K2|lia|exact Hle|exact Hs].
  - apply primes_between_empty. exact Hgt.
Qed.

(** Corollaries of the refinement: the statements quoted by the property files. *)
From Coq Require Import NArith List Bool Lia Sorted Arith.
From PS Require Import Spec.Primes Spec.Cursor Model.Pmath Model.Iterator Proofs.PmathP Proofs.IteratorP Proofs.CursorP.
Import ListNotations.
Local Open Scope N_scope.

Definition kernel_spec (kernel : N -> N -> list N) : Prop :=
  forall a b, a <= b -> b <= MAX64 -> kernel a b = primes_between a b.
Definition cut_spec (cut : list N -> list (list N)) : Prop :=
  forall l, concat (cut l) = l /\ Forall nonempty (cut l).

Lemma chunks_aux_ok n : forall l k cur,
  concat (chunks_aux n k cur l) = rev cur ++ l /\ Forall nonempty (chunks_aux n k cur l).
Proof.
  induction l as [|x l IH]; intros k cur; cbn [chunks_aux].
  - destruct cur as [|c cur]; cbn [concat rev app].
    + split; [reflexivity|constructor].
    + rewrite !app_nil_r. split; [reflexivity|]. constructor; [|constructor].
      unfold nonempty. intros H. apply app_eq_nil in H. destruct H; discriminate.
  - destruct k as [|k].
    + destruct (IH n []) as [H1 H2]. cbn [concat]. rewrite H1. cbn [rev app]. split.
      * rewrite <- app_assoc. reflexivity.
      * constructor; [|exact H2]. unfold nonempty. intros H. apply app_eq_nil in H. destruct H; discriminate.
    + destruct (IH k (x :: cur)) as [H1 H2]. rewrite H1. cbn [rev]. rewrite <- app_assoc. split; [reflexivity|exact H2].
Qed.

Lemma chunks_ok n : cut_spec (chunks n).
Proof. intros l. unfold chunks. destruct (chunks_aux_ok n l n []) as [H1 H2]. split; assumption. Qed.

Lemma R_fresh s h : s <= MAX64 -> R (fresh_iter s h) (s, s + 1).
Proof. intros Hs. unfold R, fresh_iter. cbn. repeat split; try reflexivity. exact Hs. Qed.

Section Cor.
  Variables (nextDist prevDist : N -> N -> N) (maxGap : N -> N) (kernel : N -> N -> list N) (cut : list N -> list (list N)).
  Hypothesis kernel_ok : kernel_spec kernel.
  Hypothesis cut_ok : cut_spec cut.
  Notation run := (run nextDist prevDist maxGap kernel cut).
  Notation step := (step nextDist prevDist maxGap kernel cut).

  (** C03: every history of a (freshly constructed or jumped) iterator is a run of the cursor *)
  Theorem iterator_refines_cursor fuel s h os it' rs :
    s <= MAX64 -> Forall op_ok os ->
    run fuel (fresh_iter s h) os = Done (it', rs) ->
    cursor_run (s, s + 1) os rs.
  Proof.
    intros Hs Hok Hrun.
    exact (proj1 (run_refines nextDist prevDist maxGap kernel cut kernel_ok cut_ok fuel os _ _ _ _ (R_fresh s h Hs) Hok Hrun)).
  Qed.

  Lemma step_never_thrown fuel it o x : step fuel it o <> Thrown x.
  Proof.
    destruct o; cbn [Iterator.step]; try discriminate.
    - unfold next_prime. destruct (Nat.ltb _ _); [discriminate|]. destruct (generate_next_primes _ _ _ _ _ _); discriminate.
    - unfold prev_prime. destruct (it_i it); [|discriminate]. destruct (generate_prev_primes _ _ _ _ _); discriminate.
  Qed.

  (** every call returns: with [enough_fuel] no history runs out of fuel, and no exception escapes [step] *)
  Theorem iterator_total : forall os it c,
    R it c -> Forall op_ok os -> exists it' rs, run enough_fuel it os = Done (it', rs).
  Proof.
    induction os as [|o os IH]; intros it c HR Hok; cbn [Iterator.run].
    - eexists _, _. reflexivity.
    - apply Forall_cons_iff in Hok. destruct Hok as [Ho Hos].
      assert (Ht : step enough_fuel it o <> OutOfFuel) by (eapply step_total; eassumption).
      destruct (step enough_fuel it o) as [[it1 r]|x|] eqn:Es; [| exfalso; exact (step_never_thrown _ _ _ _ Es) | congruence].
      destruct (step_refines nextDist prevDist maxGap kernel cut kernel_ok cut_ok _ _ _ _ _ _ HR Ho Es) as (c1 & _ & HR1).
      destruct (IH it1 c1 HR1 Hos) as (it2 & rs2 & E). rewrite E. eexists _, _. reflexivity.
  Qed.

  (** C01: k calls of next_prime on an iterator positioned at s *)
  Theorem next_calls_spec fuel s h k it' rs :
    s <= MAX64 -> run fuel (fresh_iter s h) (repeat Next k) = Done (it', rs) ->
    let P := primes_between s MAX64 in
    rs = map Val (firstn k P) ++ repeat Err (k - length P).
  Proof.
    intros Hs Hrun. apply (next_runs k s (s + 1)).
    apply (iterator_refines_cursor fuel s h _ it'); [exact Hs| |exact Hrun].
    apply Forall_forall. intros o Ho. apply repeat_spec in Ho. subst o. exact I.
  Qed.

  (** C02: k calls of prev_prime on an iterator positioned at s *)
  Theorem prev_calls_spec fuel s h k it' rs :
    s <= MAX64 -> run fuel (fresh_iter s h) (repeat Prev k) = Done (it', rs) ->
    let P := rev (primes_between 0 s) in
    rs = map Val (firstn k P) ++ repeat (Val 0) (k - length P).
  Proof.
    intros Hs Hrun. pose proof (prev_runs k s (s + 1)) as H. replace (s + 1 - 1) with s in H by lia. apply H.
    apply (iterator_refines_cursor fuel s h _ it'); [exact Hs| |exact Hrun].
    apply Forall_forall. intros o Ho. apply repeat_spec in Ho. subst o. exact I.
  Qed.
End Cor.

(** C03: stop_hint, the distance heuristics, the block cutter and the fuel never change a returned value *)
Theorem hint_irrelevant
  nextDist prevDist maxGap kernel cut nextDist' prevDist' maxGap' kernel' cut'
  fuel fuel' s h h' os os' it1 rs it2 rs' :
  kernel_spec kernel -> cut_spec cut -> kernel_spec kernel' -> cut_spec cut' ->
  s <= MAX64 -> Forall op_ok os -> Forall op_ok os' ->
  map erase_hint os = map erase_hint os' ->
  run nextDist prevDist maxGap kernel cut fuel (fresh_iter s h) os = Done (it1, rs) ->
  run nextDist' prevDist' maxGap' kernel' cut' fuel' (fresh_iter s h') os' = Done (it2, rs') ->
  rs = rs'.
Proof.
  intros K C K' C' Hs Hok Hok' He H1 H2.
  apply (iterator_refines_cursor _ _ _ _ _ K C) in H1; [|exact Hs|exact Hok].
  apply (iterator_refines_cursor _ _ _ _ _ K' C') in H2; [|exact Hs|exact Hok'].
  apply cursor_run_erase in H1, H2. rewrite He in H1. exact (cursor_run_det _ _ _ _ H1 H2).
Qed.

(** C03: after clear / moved-from / jump_to the iterator behaves like a freshly constructed one *)
Theorem cleared_is_fresh
  nextDist prevDist maxGap kernel cut fuel fuel' s h o s' h' os it1 rs it2 rs' :
  kernel_spec kernel -> cut_spec cut ->
  s <= MAX64 -> Forall op_ok os ->
  (o = Clear /\ s' = 0 \/ o = MovedFrom /\ s' = 0 \/ (exists hh, o = JumpTo s' hh) /\ s' <= MAX64) ->
  forall pre, Forall op_ok pre ->
  run nextDist prevDist maxGap kernel cut fuel (fresh_iter s h) (pre ++ o :: os) = Done (it1, rs) ->
  run nextDist prevDist maxGap kernel cut fuel' (fresh_iter s' h') os = Done (it2, rs') ->
  skipn (S (length pre)) rs = rs'.
Proof.
  intros K C Hs Hok Ho pre Hpre H1 H2.
  assert (Hs' : s' <= MAX64) by (destruct Ho as [[_ ->]|[[_ ->]|[_ H]]]; [u64; lia|u64; lia|exact H]).
  assert (Hoo : op_ok o) by (destruct Ho as [[-> _]|[[-> _]|[[hh ->] H]]]; [exact I|exact I|exact H]).
  apply (iterator_refines_cursor _ _ _ _ _ K C) in H1; [|exact Hs|apply Forall_app; split; [exact Hpre|constructor; assumption]].
  apply (iterator_refines_cursor _ _ _ _ _ K C) in H2; [|exact Hs'|exact Hok].
  revert H1. generalize (s, s + 1). revert rs.
  induction pre as [|p pre IH]; intros rs c H1.
  - cbn [app] in H1. inversion H1; subst. cbn [length skipn].
    match goal with H : cursor_step c o _ _ |- _ => rename H into Hst end.
    assert (c' = (s', s' + 1)).
    { destruct c as [lo hi1]. destruct Ho as [[-> ->]|[[-> ->]|[[hh ->] _]]]; cbn [cursor_step] in Hst; destruct Hst as [_ ->]; reflexivity. }
    subst c'. eapply cursor_run_det; eassumption.
  - cbn [app] in H1. inversion H1; subst. cbn [length]. cbn [skipn].
    apply Forall_cons_iff in Hpre. eapply IH; [tauto|eassumption].
Qed.

(** non-vacuity: a concrete history evaluated in the model with concrete heuristics *)
Example iterator_example :
  run (fun s _ => 10 + s mod 7) (fun s _ => 5 + s mod 11) (fun _ => 3) primes_between (chunks 2) 50
      (fresh_iter 100 MAX64) [Next; Next; Prev; Prev; Prev; JumpTo 2 0; Prev; Prev; Next; Clear; Next]
  = Done (match run (fun s _ => 10 + s mod 7) (fun s _ => 5 + s mod 11) (fun _ => 3) primes_between (chunks 2) 50
      (fresh_iter 100 MAX64) [Next; Next; Prev; Prev; Prev; JumpTo 2 0; Prev; Prev; Next; Clear; Next] with Done (i, _) => i | _ => fresh_iter 0 0 end,
      [Val 101; Val 103; Val 101; Val 97; Val 89; NoOut; Val 2; Val 0; Val 2; NoOut; Val 2]).
Proof. vm_compute. reflexivity. Qed.

(** the kernel of the iterator is the PrimeGenerator: table part (proved from
    the source tables) + the sieve proper above 720 *)
From PS Require Import Model.PrimeGen Proofs.PrimeGenP.
Lemma pg_kernel_spec erat : erat_spec erat -> kernel_spec (pg_primes erat).
Proof. intros HE a b Hab Hb. apply pg_primes_spec; assumption. Qed.

Theorem next_calls_spec_pg nextDist prevDist maxGap erat cut :
  erat_spec erat -> cut_spec cut ->
  forall fuel s h k it' rs,
    s <= MAX64 ->
    run nextDist prevDist maxGap (pg_primes erat) cut fuel (fresh_iter s h) (repeat Next k) = Done (it', rs) ->
    let P := primes_between s MAX64 in
    rs = map Val (firstn k P) ++ repeat Err (k - length P).
Proof. intros HE HC. apply next_calls_spec; [apply pg_kernel_spec; exact HE|exact HC]. Qed.

Theorem prev_calls_spec_pg nextDist prevDist maxGap erat cut :
  erat_spec erat -> cut_spec cut ->
  forall fuel s h k it' rs,
    s <= MAX64 ->
    run nextDist prevDist maxGap (pg_primes erat) cut fuel (fresh_iter s h) (repeat Prev k) = Done (it', rs) ->
    let P := rev (primes_between 0 s) in
    rs = map Val (firstn k P) ++ repeat (Val 0) (k - length P).
Proof. intros HE HC. apply prev_calls_spec; [apply pg_kernel_spec; exact HE|exact HC]. Qed.

Theorem iterator_total_pg nextDist prevDist maxGap erat cut :
  erat_spec erat -> cut_spec cut ->
  forall os it c, R it c -> Forall op_ok os ->
    exists it' rs, run nextDist prevDist maxGap (pg_primes erat) cut enough_fuel it os = Done (it', rs).
Proof. intros HE HC. apply iterator_total; [apply pg_kernel_spec; exact HE|exact HC]. Qed.

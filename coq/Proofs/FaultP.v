(** C13: for every history and every pattern of allocation failures, the values the iterator
    returns are those of the cursor specification; a failed call only reports an error. *)
From Coq Require Import NArith List Bool Lia Arith.
From PS Require Import Spec.Primes Spec.Cursor Model.Pmath Model.Iterator Model.Fault Proofs.PmathP Proofs.IteratorP Proofs.IteratorCor.
Import ListNotations.
Local Open Scope N_scope.

Lemma R_cur_first it c :
  R it c -> it_buf it <> [] -> it_i it = 0%nat ->
  c = (hd 0 (it_buf it) + 1, hd 0 (it_buf it)).
Proof.
  unfold R, cur_val. intros HR Hne Hi. destruct (it_buf it) as [|x0 buf0]; [congruence|].
  destruct HR as (_ & Hc & _). rewrite Hi in Hc. exact Hc.
Qed.

Section FaultP.
  Variables (nextDist prevDist : N -> N -> N) (maxGap : N -> N) (kernel : N -> N -> list N) (cut : list N -> list (list N)).
  Hypothesis kernel_ok : kernel_spec kernel.
  Hypothesis cut_ok : cut_spec cut.
  Notation step_f := (step_f nextDist prevDist maxGap kernel cut).
  Notation run_f := (run_f nextDist prevDist maxGap kernel cut).

  Theorem step_f_refines fault fuel it c o it' r :
    R it c -> op_ok o -> step_f fault fuel it o = Done (it', r) ->
    exists c', cursor_step_f c o c' r /\ R it' c'.
  Proof.
    intros HR Hok H.
    assert (Hplain : step nextDist prevDist maxGap kernel cut fuel it o = Done (it', r) -> exists c', cursor_step_f c o c' r /\ R it' c').
    { intros Hs. destruct (step_refines nextDist prevDist maxGap kernel cut kernel_ok cut_ok fuel it c o it' r HR Hok Hs) as (c' & H1 & H2).
      exists c'. split; [left; exact H1|exact H2]. }
    destruct o; cbn [Fault.step_f] in H; try (apply Hplain; exact H).
    - destruct (Nat.ltb_spec (S (it_i it)) (length (it_buf it))) as [Hlt|Hge]; [apply Hplain; exact H|].
      destruct fault; [|apply Hplain; exact H]. injection H as <- <-.
      exists c. split; [right; auto|].
      destruct (it_buf it) as [|x0 b0] eqn:EB.
      + cbn [last_opt]. apply R_rollback_none; assumption.
      + assert (Hne : it_buf it <> []) by (rewrite EB; discriminate).
        rewrite <- EB in *.
        destruct (R_cur_last it c HR Hne ltac:(lia)) as [_ Hc].
        replace (last_opt (it_buf it)) with (Some (last (it_buf it) 0)) by (rewrite EB; reflexivity).
        rewrite Hc. apply R_rollback_some.
        apply (R_buf_le it c _ HR). apply In_last. exact Hne.
    - destruct (it_i it) as [|i'] eqn:Ei; [|apply Hplain; exact H].
      destruct fault; [|apply Hplain; exact H]. injection H as <- <-.
      exists c. split; [right; auto|].
      destruct (it_buf it) as [|x0 b0] eqn:EB.
      + cbn [first_opt]. apply R_rollback_none; assumption.
      + assert (Hne : it_buf it <> []) by (rewrite EB; discriminate).
        rewrite <- EB in *.
        pose proof (R_cur_first it c HR Hne Ei) as Hc.
        replace (first_opt (it_buf it)) with (Some (hd 0 (it_buf it))) by (rewrite EB; reflexivity).
        rewrite Hc. apply R_rollback_some.
        apply (R_buf_le it c _ HR). rewrite EB. left. reflexivity.
  Qed.

  (** C13 (iterator): every history with every fault pattern is a run of the cursor specification in
      which a faulted call yields an error and changes nothing *)
  Theorem alloc_fault_safe fuel : forall os it c it' rs,
    R it c -> Forall (fun p => op_ok (fst p)) os ->
    run_f fuel it os = Done (it', rs) ->
    cursor_run_f c (map fst os) rs /\ exists c', R it' c'.
  Proof.
    induction os as [|[o f] os IH]; intros it c it' rs HR Hok Hrun; cbn [Fault.run_f map fst] in *.
    - injection Hrun as <- <-. split; [constructor|exists c; exact HR].
    - apply Forall_cons_iff in Hok. destruct Hok as [Ho Hos]. cbn [fst] in Ho.
      destruct (step_f f fuel it o) as [[it1 r]|[it1 r]|] eqn:Es; [|discriminate|discriminate].
      destruct (step_f_refines f fuel it c o it1 r HR Ho Es) as (c1 & Hstep & HR1).
      destruct (run_f fuel it1 os) as [[it2 rs2]|x|] eqn:Er; [|discriminate|discriminate].
      injection Hrun as <- <-.
      destruct (IH it1 c1 it2 rs2 HR1 Hos Er) as (Hrun2 & Hc').
      split; [econstructor; eassumption|exact Hc'].
  Qed.
End FaultP.

(** the values (non-error outputs) of a run with faults are the values of the fault-free specification run
    of the history with the faulted calls removed *)
Lemma cursor_run_f_erase : forall os c rs,
  cursor_run_f c os rs ->
  exists os' rs', cursor_run c os' rs' /\
    filter (fun r => match r with Val _ => true | _ => false end) rs =
    filter (fun r => match r with Val _ => true | _ => false end) rs'.
Proof.
  induction os as [|o os IH]; intros c rs H; inversion H; subst.
  - exists [], []. split; [constructor|reflexivity].
  - match goal with Hs : cursor_step_f c o _ _, Hr : cursor_run_f _ os _ |- _ =>
      destruct (IH _ _ Hr) as (os' & rs' & Hrun & Hf); destruct Hs as [Hs|(_ & -> & ->)] end.
    + exists (o :: os'), (r :: rs'). split; [econstructor; eassumption|]. cbn [filter]. destruct r; try exact Hf. f_equal. exact Hf.
    + exists os', rs'. split; [exact Hrun|]. cbn [filter]. exact Hf.
Qed.

(** L3, bit level, whole run: the byte arrays the model kernel computes segment by segment (all ones AND the unset masks of
    the cross-off, AND the end masks), concatenated, have exactly the primes of [start, stop] as the numbers of their set
    bits; hence counting / printing k-tuplets byte by byte over them finds exactly the constellations of those primes. *)
From Coq Require Import NArith ZArith List Bool Lia Sorted.
From PS Require Import Spec.Primes Gen.Tables Model.Pmath Model.Config Model.EratGeom Model.Count Model.Wheel Model.CrossOff
  Proofs.TablesP Proofs.PmathP Proofs.ConfigP Proofs.EratGeomP Proofs.CountP Proofs.CountAddP Proofs.WheelStepsP
  Proofs.CrossOffP Proofs.KernelP Proofs.KernelInitP Proofs.KernelLoopP Proofs.KernelTopP Proofs.KernelTotalP Proofs.KernelListP
  Proofs.TupletsP Proofs.TupletsTopP Proofs.BytesP Proofs.BytesEndP.
Import ListNotations.
Local Open Scope N_scope.
Ltac Zify.zify_post_hook ::= Z.to_euclidean_division_equations.

Lemma sieve_bytes_length sg cleared : length (sieve_bytes sg cleared) = N.to_nat (k_size sg).
Proof. unfold sieve_bytes. rewrite map_length, seq_length. reflexivity. Qed.

Lemma rem_range n : 7 <= byteRemainder n /\ byteRemainder n < 37.
Proof. unfold byteRemainder. lia. Qed.

(** one segment: the numbers of the set bits of its final byte array *)
Theorem seg_final_numbers (start stop : N) (is_last : bool) (sg : kseg) (cleared : list (N * N)) :
  k_low sg mod 30 = 0 -> seg_result_ok (sg, cleared) -> masks_are_bits cleared -> 1 <= k_size sg ->
  (k_low sg <= start -> k_low sg + byteRemainder start = start) ->
  (if is_last then k_low sg + 30 * (k_size sg - 1) + byteRemainder stop = stop /\ stop <= k_high sg
   else k_low sg + 30 * k_size sg + 1 <= k_high sg) ->
  seg_numbers (k_low sg) (final_bytes start stop is_last sg cleared)
  = primes_between (N.max start (k_low sg + 7)) (if is_last then stop else k_low sg + 30 * k_size sg + 1).
Proof.
  intros Hl Hok Hm Hsz Hfirst Hlast. unfold final_bytes.
  destruct (rem_range start) as [Rs7 Rs37]. destruct (rem_range stop) as [Re7 Re37].
  set (b0 := sieve_bytes sg cleared).
  assert (Hb0 : seg_numbers (k_low sg) b0 = filter (fun n => negb (pair_mem (byteof (k_low sg) n) (maskof n) cleared)) (cands (k_low sg) (N.to_nat (k_size sg)))).
  { unfold b0, sieve_bytes. rewrite (sieve_bytes_numbers cleared Hm _ 0%nat (k_low sg) Hl). apply filter_ext. intros n. reflexivity. }
  set (b1 := if k_low sg <=? start then and_first (nth (N.to_nat (byteRemainder start)) unsetSmaller 0) b0 else b0).
  assert (Hb1 : seg_numbers (k_low sg) b1 = filter (fun n => start <=? n) (seg_numbers (k_low sg) b0)).
  { unfold b1. destruct (N.leb_spec (k_low sg) start) as [Hle|Hgt].
    - change (nth (N.to_nat (byteRemainder start)) unsetSmaller 0) with (nthN' unsetSmaller (byteRemainder start)).
      rewrite (seg_numbers_and_first (k_low sg) (byteRemainder start) b0 Hl Rs37). rewrite (Hfirst Hle). reflexivity.
    - symmetry. apply filter_true_in. intros x Hx. apply N.leb_le. pose proof (seg_numbers_ge b0 (k_low sg) x Hl Hx). lia. }
  assert (Hlen1 : length b1 = N.to_nat (k_size sg)).
  { unfold b1. destruct (k_low sg <=? start); [|apply sieve_bytes_length]. pose proof (sieve_bytes_length sg cleared) as L. fold b0 in L.
    destruct b0; [exact L|exact L]. }
  set (up := if is_last then stop else k_low sg + 30 * k_size sg + 1).
  assert (Hfin : seg_numbers (k_low sg) (if is_last then and_last (nth (N.to_nat (byteRemainder stop)) unsetLarger 0) b1 else b1)
                 = filter (fun n => n <=? up) (seg_numbers (k_low sg) b1)).
  { unfold up. destruct is_last.
    - destruct Hlast as [Hl1 _].
      change (nth (N.to_nat (byteRemainder stop)) unsetLarger 0) with (nthN' unsetLarger (byteRemainder stop)).
      rewrite (seg_numbers_and_last (byteRemainder stop) Re37 Re7 b1 (k_low sg) Hl ltac:(intros E; rewrite E in Hlen1; cbn in Hlen1; lia)).
      apply filter_ext. intros n. f_equal. rewrite Hlen1. replace (N.of_nat (N.to_nat (k_size sg) - 1)) with (k_size sg - 1) by lia. exact Hl1.
    - symmetry. apply filter_true_in. intros x Hx. apply N.leb_le. pose proof (seg_numbers_le b1 (k_low sg) x Hl Hx). rewrite Hlen1, N2Nat.id in H. exact H. }
  rewrite Hfin, Hb1, Hb0. fold up.
  assert (Hup : up <= k_high sg /\ up <= k_low sg + 30 * k_size sg + 6).
  { unfold up. destruct is_last; [destruct Hlast as [Hl1 Hl2]; split; [exact Hl2|destruct (rem_range stop); lia]|split; [exact Hlast|lia]]. }
  apply sorted_ext.
  - repeat apply StronglySorted_filter. apply cands_sorted.
  - apply primes_between_sorted.
  - intros n. rewrite !filter_In, In_primes_between, !N.leb_le. cbn [seg_result_ok] in Hok. split.
    + intros (((Hc & Hnb) & Hs) & Hu). destruct (cands_in _ _ _ Hl Hc) as (Hcop & Hr & Hb). rewrite N2Nat.id in Hb.
      split; [lia|]. split; [exact Hu|].
      apply (Hok n Hcop Hr Hb ltac:(lia) ltac:(lia)). intros Hin. apply pair_mem_In in Hin. rewrite Hin in Hnb. discriminate.
    + intros (H1 & H2 & Hp).
      assert (Hcb : CountP.coprime30 n = true) by (apply prime_coprime30_bool; [exact Hp|lia]).
      assert (Hn1 : n <= k_low sg + 30 * k_size sg + 1).
      { unfold CountP.coprime30 in Hcb. apply negb_true_iff in Hcb. apply orb_false_iff in Hcb. destruct Hcb as [Hcb H5].
        apply orb_false_iff in Hcb. destruct Hcb as [H2' H3']. apply N.eqb_neq in H2', H3', H5. lia. }
      assert (Hc : In n (cands (k_low sg) (N.to_nat (k_size sg)))) by (apply In_cands; [exact Hl|lia|rewrite N2Nat.id; exact Hn1|exact Hcb]).
      destruct (cands_in _ _ _ Hl Hc) as (Hcop & Hr & Hb). rewrite N2Nat.id in Hb.
      split; [split; [split; [exact Hc|]|lia]|exact H2].
      apply negb_true_iff. destruct (pair_mem (byteof (k_low sg) n) (maskof n) cleared) eqn:E; [|reflexivity]. apply pair_mem_In in E.
      exfalso. apply (proj2 (Hok n Hcop Hr Hb ltac:(lia) ltac:(lia)) Hp). exact E.
Qed.

Lemma seg_numbers_app : forall b1 b2 low, seg_numbers low (b1 ++ b2) = seg_numbers low b1 ++ seg_numbers (low + 30 * N.of_nat (length b1)) b2.
Proof.
  induction b1 as [|j bs IH]; intros b2 low; cbn [app seg_numbers length].
  - change (N.of_nat 0) with 0. rewrite N.mul_0_r, N.add_0_r. reflexivity.
  - rewrite IH, <- app_assoc. f_equal. f_equal. f_equal. rewrite Nat2N.inj_succ. lia.
Qed.

Lemma final_bytes_length start stop is_last sg cleared : length (final_bytes start stop is_last sg cleared) = N.to_nat (k_size sg).
Proof.
  unfold final_bytes. pose proof (sieve_bytes_length sg cleared) as L. set (b0 := sieve_bytes sg cleared) in *.
  assert (L1 : forall m, length (and_first m b0) = N.to_nat (k_size sg)) by (intros m; destruct b0; exact L).
  assert (L2 : forall m l, length (and_last m l) = length l).
  { intros m. induction l as [|b r IHl]; [reflexivity|]. destruct r as [|b2 r]; [reflexivity|].
    change (and_last m (b :: b2 :: r)) with (b :: and_last m (b2 :: r)). cbn [length]. rewrite IHl. reflexivity. }
  destruct (k_low sg <=? start), is_last; rewrite ?L2, ?L1; try exact L; reflexivity.
Qed.

(** no prime has a residue 2..6 modulo 30 above 30: the numbers between two consecutive bytes *)
Lemma primes_between_gap L stop : L mod 30 = 0 -> 30 <= L -> primes_between (L + 2) stop = primes_between (L + 7) stop.
Proof.
  intros Hl HL. apply sorted_ext; [apply primes_between_sorted|apply primes_between_sorted|].
  intros p. rewrite !In_primes_between. split; [|intros (H1 & H2 & H3); split; [lia|split; assumption]].
  intros (H1 & H2 & Hp). split; [|split; assumption].
  pose proof (prime_coprime30_bool p Hp ltac:(lia)) as Hcb.
  unfold CountP.coprime30 in Hcb. apply negb_true_iff in Hcb. apply orb_false_iff in Hcb. destruct Hcb as [Hcb H5].
  apply orb_false_iff in Hcb. destruct Hcb as [H2' H3']. apply N.eqb_neq in H2', H3', H5. lia.
Qed.

(** what has to hold of the segments of a run (established for the model kernel below) *)
Fixpoint run_ok (start stop : N) (first : bool) (result : list (kseg * list (N * N))) : Prop :=
  match result with
  | [] => True
  | r :: rest =>
      let sg := fst r in
      k_low sg mod 30 = 0 /\ seg_result_ok r /\ masks_are_bits (snd r) /\ 1 <= k_size sg /\
      (if first then k_low sg + byteRemainder start = start else start < k_low sg) /\
      match rest with
      | [] => k_low sg + 30 * (k_size sg - 1) + byteRemainder stop = stop /\ stop <= k_high sg
      | r' :: _ => k_low sg + 30 * k_size sg + 1 <= k_high sg /\ k_low (fst r') = k_low sg + 30 * k_size sg /\ k_low sg + 30 * k_size sg + 1 <= stop
      end /\
      run_ok start stop false rest
  end.

Theorem run_bytes_numbers start stop : forall result first, result <> [] -> run_ok start stop first result ->
  seg_numbers (k_low (fst (hd ({| k_low := 0; k_size := 0; k_high := 0 |}, []) result))) (run_bytes start stop result)
  = primes_between (N.max start (k_low (fst (hd ({| k_low := 0; k_size := 0; k_high := 0 |}, []) result)) + 7)) stop.
Proof.
  induction result as [|r rest IH]; intros first Hne Hok; [congruence|]. cbn [hd].
  destruct r as [sg cleared]. cbn [fst]. cbn [run_ok fst snd] in Hok. destruct Hok as (Hl & Hres & Hm & Hsz & Hfirst & Hnext & Hrest).
  assert (Hf' : k_low sg <= start -> k_low sg + byteRemainder start = start).
  { intros Hle. destruct first; [exact Hfirst|lia]. }
  destruct rest as [|r' rest'].
  - cbn [run_bytes fst snd]. rewrite (seg_final_numbers start stop true sg cleared Hl Hres Hm Hsz Hf' Hnext). reflexivity.
  - change (run_bytes start stop ((sg, cleared) :: r' :: rest')) with (final_bytes start stop false sg cleared ++ run_bytes start stop (r' :: rest')).
    destruct Hnext as (Hfull & Hlow' & Hstop').
    rewrite seg_numbers_app, final_bytes_length, N2Nat.id.
    rewrite (seg_final_numbers start stop false sg cleared Hl Hres Hm Hsz Hf' Hfull).
    assert (Hs' : start < k_low (fst r')).
    { destruct r' as [sg' cl']. cbn [run_ok fst snd] in Hrest. destruct Hrest as (_ & _ & _ & _ & Hx & _). exact Hx. }
    specialize (IH false ltac:(discriminate) Hrest). cbn [hd] in IH. rewrite Hlow' in IH, Hs'. rewrite IH.
    (* the two ranges are adjacent *)
    replace (N.max start (k_low sg + 30 * k_size sg + 7)) with (k_low sg + 30 * k_size sg + 7) by lia.
    rewrite <- (primes_between_gap (k_low sg + 30 * k_size sg) stop ltac:(lia) ltac:(lia)).
    replace (k_low sg + 30 * k_size sg + 2) with (k_low sg + 30 * k_size sg + 1 + 1) by lia.
    symmetry. apply primes_between_split; lia.
Qed.

(** ---- the model kernel's run satisfies run_ok *)
Section Masks.
Variable steps : list (N * N * N).
Hypothesis Hsteps : forallb (entry_ok2 steps) (Nseq 64) = true.
Variable stop : N.
Hypothesis Hstop : stop <= MAX64.

Lemma sieve_loop_masks fuel : forall segs low pending (ws : list wstate) result,
  segs_ok stop low segs -> Forall (w_ok low) ws -> Forall (sp_ok stop 7) pending ->
  sieve_loop fuel steps stop segs pending (map w_state ws) = Some result ->
  Forall (fun r => masks_are_bits (snd r)) result.
Proof.
  induction segs as [|sg rest IH]; intros low pending ws result Hsegs Hws Hpend H; cbn [sieve_loop] in H.
  - injection H as <-. constructor.
  - destruct Hsegs as (Hlow & Hl30 & Hl6 & Hhigh & Hrest). subst low.
    destruct (span_sq (k_high sg) pending) as [now later] eqn:Esp.
    destruct (span_sq_spec _ _ _ _ Esp) as (Epend & _ & _).
    assert (Hnow_ok : Forall (sp_ok stop 7) now) by (rewrite Epend in Hpend; apply Forall_app in Hpend; tauto).
    assert (Hlater_ok : Forall (sp_ok stop 7) later) by (rewrite Epend in Hpend; apply Forall_app in Hpend; tauto).
    destruct (add_primes_ok stop Hstop 7 (N.le_refl 7) (k_low sg) now Hl30 Hl6 Hnow_ok) as (wsn & Hwsn & Hstn & _ & _).
    rewrite <- Hstn, <- map_app in H.
    destruct (cross_all fuel steps (k_size sg) (map w_state (ws ++ wsn))) as [[cleared sts2]|] eqn:Ec; [|discriminate].
    destruct (sieve_loop fuel steps stop rest later sts2) as [r|] eqn:Er; [|discriminate]. injection H as <-.
    assert (Hws1 : Forall (w_ok (k_low sg)) (ws ++ wsn)) by (apply Forall_app; split; assumption).
    constructor; [cbn [snd]; exact (cross_all_masks steps Hsteps fuel (k_low sg) (k_size sg) (ws ++ wsn) cleared sts2 Hl30 Hws1 Ec)|].
    destruct (cross_all_spec steps Hsteps fuel (k_low sg) (k_size sg) Hl30 (ws ++ wsn) cleared sts2 Hws1 Ec) as (_ & ws' & Hws' & _ & Hstates).
    rewrite <- Hstates in Er. exact (IH _ _ _ _ Hrest Hws' Hlater_ok Er).
Qed.
End Masks.

(** every segment that is not the last one has the full sieve size *)
Lemma segments_loop_sizes stop : stop <= MAX64 -> forall fuel low high size l,
  geom_inv stop low high size -> segments_loop fuel stop low high size = Some l ->
  Forall (fun sg => s_last sg = false -> s_bytes sg = size) l.
Proof.
  intros Hstop. induction fuel as [|f IH]; intros low high size l Hinv H; cbn [segments_loop] in H; [discriminate|].
  destruct (N.ltb_spec low stop) as [Hlt|]; [|injection H as <-; constructor].
  pose proof (sieve_segment_spec stop low high size Hstop Hinv) as HS.
  destruct (sieve_segment stop low high size) as [sg [[low' high'] size']].
  destruct HS as (Hok & Hl & Hnext).
  destruct (segments_loop f stop low' high' size') as [rest|] eqn:Er; [|discriminate]. cbn in H. injection H as <-.
  destruct (s_last sg) eqn:Elast.
  - constructor; [cbv beta; intros Hx; congruence|]. subst low'. destruct f as [|f']; [discriminate|]. cbn [segments_loop] in Er. rewrite N.ltb_irrefl in Er. injection Er as <-. constructor.
  - destruct Hnext as (Hinv' & _ & Hsz' & Hbs). constructor; [cbv beta; intros _; exact Hbs|]. subst size'. apply (IH _ _ _ _ Hinv' Er).
Qed.

Lemma run_ok_of_segments (start stop size0 : N) : 8 <= size0 -> 7 <= start -> stop <= MAX64 -> forall (l : list seg) (result : list (kseg * list (N * N))) (first : bool),
  Forall (seg_ok stop) l -> adjacent l ->
  Forall (fun sg => s_last sg = true -> s_high sg = stop) l ->
  Forall (fun sg => s_last sg = false -> s_bytes sg = size0) l ->
  map fst result = map to_kseg l ->
  Forall seg_result_ok result -> Forall (fun r => masks_are_bits (snd r)) result ->
  (match l with [] => True | sg :: _ =>
     if first then s_low sg + 7 <= start /\ start <= s_low sg + 36 else start + 24 < s_low sg end) ->
  run_ok start stop first result.
Proof.
  intros Hs0 H7 Hstop. induction l as [|sg r IH]; intros result first Hok Hadj Hlast Hsizes Hmap Hres Hmasks Hfirst.
  - destruct result; [exact I|discriminate].
  - destruct result as [|[k cleared] rest]; [discriminate|]. change (k :: map fst rest = to_kseg sg :: map to_kseg r) in Hmap. injection Hmap as Ek Hmap'. subst k.
    inversion Hok as [|? ? Hsg Hr]; subst. inversion Hlast as [|? ? Hl1 Hlr]; subst. inversion Hsizes as [|? ? Hz1 Hzr]; subst.
    inversion Hres as [|? ? Hres1 Hresr]; subst. inversion Hmasks as [|? ? Hm1 Hmr]; subst.
    destruct Hsg as (H30 & Hb & Hl7 & Hcase).
    cbn [run_ok fst snd to_kseg k_low k_size k_high].
    split; [exact H30|]. split; [exact Hres1|]. split; [exact Hm1|]. split; [exact Hb|].
    split.
    { destruct first; [unfold byteRemainder; lia|lia]. }
    destruct r as [|sg' r'].
    + destruct rest; [|discriminate]. cbn [adjacent] in Hadj. rewrite Hadj in Hcase. split; [|exact I].
      split; [unfold byteRemainder in *; lia|rewrite (Hl1 Hadj); lia].
    + destruct rest as [|[k' cl'] rest']; [discriminate|]. cbn [adjacent] in Hadj. destruct Hadj as (Hnl & Hnext & Hadj').
      rewrite Hnl in Hcase. destruct Hcase as (Hh & Hlt). specialize (Hz1 Hnl).
      change (k' :: map fst rest' = to_kseg sg' :: map to_kseg r') in Hmap'. injection Hmap' as Ek' Hmap''. subst k'. cbn [fst to_kseg k_low].
      split; [split; [lia|split; [exact Hnext|lia]]|].
      apply (IH ((to_kseg sg', cl') :: rest') false Hr Hadj' Hlr Hzr); [cbn [map fst]; rewrite Hmap''; reflexivity|exact Hresr|exact Hmr|].
      destruct first; lia.
Qed.

(** ---- byte values stay below 256 *)
Lemma land_lt256 a m : a < 256 -> N.land a m < 256.
Proof.
  intros Ha. destruct (N.eq_dec (N.land a m) 0) as [->|Hz]; [lia|]. change 256 with (2 ^ 8). apply N.log2_lt_pow2; [lia|].
  pose proof (N.log2_land a m) as Hl2. pose proof (N.le_min_l (N.log2 a) (N.log2 m)) as Hmin.
  assert (Ha0 : a <> 0) by (intros ->; apply Hz; apply N.land_0_l).
  assert (N.log2 a < 8) by (apply N.log2_lt_pow2; [lia|exact Ha]). lia.
Qed.
Lemma byte_val_lt cleared j : byte_val cleared j < 256.
Proof.
  unfold byte_val. generalize (map snd (filter (fun c => fst c =? j) cleared)). intros l.
  assert (G : forall l a, a < 256 -> fold_left N.land l a < 256).
  { clear. induction l as [|m r IH]; intros a Ha; cbn [fold_left]; [exact Ha|]. apply IH. apply land_lt256. exact Ha. }
  apply G. lia.
Qed.
Lemma final_bytes_lt start stop is_last sg cleared : Forall (fun j => j < 256) (final_bytes start stop is_last sg cleared).
Proof.
  unfold final_bytes.
  assert (H0 : Forall (fun j => j < 256) (sieve_bytes sg cleared)).
  { unfold sieve_bytes. apply Forall_forall. intros x Hx. apply in_map_iff in Hx. destruct Hx as (j & <- & _). apply byte_val_lt. }
  assert (H1 : forall m l, Forall (fun j => j < 256) l -> Forall (fun j => j < 256) (and_first m l)).
  { intros m l Hl. destruct l as [|b r]; [constructor|]. inversion Hl; subst. constructor; [apply land_lt256; assumption|assumption]. }
  assert (H2 : forall m l, Forall (fun j => j < 256) l -> Forall (fun j => j < 256) (and_last m l)).
  { intros m. induction l as [|b r IHl]; intros Hl; [constructor|]. inversion Hl; subst. destruct r as [|b2 r].
    - constructor; [apply land_lt256; assumption|constructor].
    - change (and_last m (b :: b2 :: r)) with (b :: and_last m (b2 :: r)). constructor; [assumption|apply IHl; assumption]. }
  destruct (k_low sg <=? start), is_last; auto.
Qed.
Lemma run_bytes_lt start stop : forall result, Forall (fun j => j < 256) (run_bytes start stop result).
Proof.
  induction result as [|r rest IH]; [constructor|]. destruct rest as [|r' rest'].
  - cbn [run_bytes]. apply final_bytes_lt.
  - change (run_bytes start stop (r :: r' :: rest')) with (final_bytes start stop false (fst r) (snd r) ++ run_bytes start stop (r' :: rest')).
    apply Forall_app. split; [apply final_bytes_lt|exact IH].
Qed.

(** the kernel's byte arrays, for every configuration and interval: the numbers of the set bits are exactly the primes of
    [start, stop]; counting / printing k-tuplets over them byte by byte finds exactly the constellations of those primes *)
Theorem kernel_bytes_spec l1 maxKB start stop fuelg fuel l result :
  16 <= maxKB -> maxKB <= 8192 -> 7 <= start -> start <= stop -> stop <= MAX64 ->
  segments fuelg l1 maxKB start stop = Some l ->
  sieve_loop fuel eratSmallSteps stop (map to_kseg l) (primes_between 7 (N.sqrt stop)) [] = Some result ->
  let low0 := a_segLow (initAlgorithms l1 maxKB start stop) in
  seg_numbers low0 (run_bytes start stop result) = primes_between start stop /\
  forall idx, (1 <= idx <= 5)%nat ->
    segment_tuplets (nth idx kBitmasks []) low0 (run_bytes start stop result) = tuplets_of_set idx (primes_between start stop).
Proof.
  intros K1 K2 S1 S2 S3 Hsegs Hloop low0.
  pose proof (initAlgorithms_admissible l1 maxKB start stop K1 K2 S1 S2 S3) as A. cbn zeta in A.
  set (a := initAlgorithms l1 maxKB start stop) in *.
  destruct A as (A1 & A2 & A3 & A4 & A5 & A6 & A7 & A8 & A9 & A10 & A11).
  assert (Hinv : geom_inv stop (a_segLow a) (a_segHigh a) (a_sieveSize a)) by (unfold geom_inv; repeat split; try assumption; lia).
  assert (El : segments_loop fuelg stop (a_segLow a) (a_segHigh a) (a_sieveSize a) = Some l) by (unfold segments in Hsegs; fold a in Hsegs; exact Hsegs).
  destruct (segments_ok l1 maxKB start stop fuelg l K1 K2 S1 S2 S3 Hsegs) as (Hne & Hall & Hadj & Hfirst). cbn zeta in Hfirst.
  pose proof (segments_loop_last_high stop S3 fuelg _ _ _ l Hinv El) as Hlast.
  pose proof (segments_loop_sizes stop S3 fuelg _ _ _ l Hinv El) as Hsizes.
  assert (Hhigh : Forall (fun sg => s_high sg <= stop) l) by exact (segments_loop_high stop _ _ _ _ _ A10 El).
  pose proof (erat_kernel_correct l1 maxKB start stop fuelg fuel l result K1 K2 S1 S2 S3 Hsegs Hloop) as Hres.
  destruct l as [|sg0 r0]; [congruence|].
  pose proof (segs_ok_of_segments stop S3 (sg0 :: r0) Hall Hadj Hhigh (s_low sg0) eq_refl) as Hsok.
  assert (Hpend : Forall (sp_ok stop 7) (primes_between 7 (N.sqrt stop))).
  { apply Forall_forall. intros p Hp. apply In_primes_between in Hp. destruct Hp as (H7 & Hs & Hpr).
    split; [exact Hpr|]. split; [exact H7|]. apply sqrt_sq_le. exact Hs. }
  pose proof (sieve_loop_masks eratSmallSteps eratSmallSteps_entries stop S3 fuel _ _ _ [] result Hsok (Forall_nil _) Hpend Hloop) as Hmasks.
  pose proof (result_bases _ _ _ _ _ _ _ Hloop) as Hb.
  (* the first segment starts at the base computed by initAlgorithms *)
  assert (Hlow0 : s_low sg0 = a_segLow a).
  { destruct (segments_loop_ok stop S3 fuelg _ _ _ (sg0 :: r0) Hinv ltac:(lia) El) as (_ & _ & _ & G4). exact G4. }
  cbn [hd] in Hfirst.
  pose proof (run_ok_of_segments start stop (a_sieveSize a) A2 S1 S3 (sg0 :: r0) result true Hall Hadj Hlast Hsizes Hb Hres Hmasks
               ltac:(destruct Hfirst as (_ & F1 & F2); split; assumption)) as Hrun.
  assert (Hrne : result <> []) by (intros E; rewrite E in Hb; discriminate).
  pose proof (run_bytes_numbers start stop result true Hrne Hrun) as Hn.
  assert (Hhd : k_low (fst (hd ({| k_low := 0; k_size := 0; k_high := 0 |}, []) result)) = low0).
  { destruct result as [|[k c] rest]; [congruence|]. change (k :: map fst rest = to_kseg sg0 :: map to_kseg r0) in Hb. injection Hb as Ek _. subst k.
    cbn [hd fst to_kseg k_low]. unfold low0. fold a. exact Hlow0. }
  rewrite Hhd in Hn. destruct Hfirst as (F0 & F1 & F2).
  replace (N.max start (low0 + 7)) with start in Hn by (unfold low0; fold a; rewrite <- Hlow0; lia).
  split; [exact Hn|]. intros idx Hi.
  rewrite (segment_tuplets_spec idx Hi _ low0 ltac:(unfold low0; fold a; exact A7) (run_bytes_lt start stop result)). rewrite Hn. reflexivity.
Qed.

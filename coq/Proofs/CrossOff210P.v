(** L3 for EratBig: the single-prime cross-off loop over the wheel-210 table extracted from src/EratBig.cpp
    ([cross210], the loop the bucket machine refines by Proofs/EratBigP.eb_cross_spec) clears exactly the bits of the
    multiples prime*q, q running through the successive cofactors coprime to 210, and leaves the state of the next
    multiple for the following segment - for every sieving prime, segment base, segment size and starting cofactor. *)
From Coq Require Import NArith ZArith List Bool Lia.
From PS Require Import Spec.Primes Gen.Tables Model.Count Model.CrossOff Model.EratBigM Proofs.TablesP Proofs.CrossOffP.
Import ListNotations.
Local Open Scope N_scope.
Ltac Zify.zify_post_hook ::= Z.to_euclidean_division_equations.

Definition entry_ok210 (w : N) : bool :=
  let '(mask, a, c, nxt) := step210 w in
  let r := nthd pres8 (w / 48) in
  let qq := nthd cop210 (w mod 48) in
  let qq' := nthd cop210 ((w mod 48 + 1) mod 48) in
  (a =? gap210 qq) && ((qq + a) mod 210 =? qq') && (mask =? maskof (r * qq)) &&
  (offb (r * qq) + a * r =? 30 * c + offb (r * qq')) && (7 <=? offb (r * qq)) && (offb (r * qq) <=? 31) &&
  (nxt =? 48 * (w / 48) + (w mod 48 + 1) mod 48).

Lemma eratBigWheel_entries : forallb entry_ok210 (Nseq 384) = true.
Proof. vm_compute. reflexivity. Qed.

Lemma mul_mod30' sp r q qq : q mod 210 = qq -> ((30 * sp + r) * q) mod 30 = (r * qq) mod 30.
Proof. intros H. apply mul_mod30. lia. Qed.

(** the state (i, 48*ri + qi) stands for the multiple prime*q at byte i of the segment based at low *)
Definition Inv210 (low sp ri qi q i : N) : Prop :=
  ri < 8 /\ qi < 48 /\ q mod 210 = nthd cop210 qi /\
  sprime sp ri * q = low + 30 * i + offb (sprime sp ri * q).

Lemma cop210_lt qi : qi < 48 -> nthd cop210 qi < 210.
Proof.
  intros H. assert (T : forallb (fun k => nthd cop210 k <? 210) (Nseq 48) = true) by (vm_compute; reflexivity).
  rewrite forallb_forall in T. apply N.ltb_lt. apply T. apply In_Nseq. exact H.
Qed.

Lemma entry_facts210 ri qi : ri < 8 -> qi < 48 ->
  let '(mask, a, c, nxt) := step210 (48 * ri + qi) in
  let r := nthd pres8 ri in let qq := nthd cop210 qi in let qq' := nthd cop210 ((qi + 1) mod 48) in
  a = gap210 qq /\ (qq + a) mod 210 = qq' /\ mask = maskof (r * qq) /\
  offb (r * qq) + a * r = 30 * c + offb (r * qq') /\ 7 <= offb (r * qq) <= 31 /\ nxt = 48 * ri + (qi + 1) mod 48.
Proof.
  intros Hr Hq. pose proof eratBigWheel_entries as T. rewrite forallb_forall in T.
  assert (Hw : 48 * ri + qi < N.of_nat 384) by (change (N.of_nat 384) with 384; lia).
  specialize (T (48 * ri + qi) (In_Nseq 384 _ Hw)). unfold entry_ok210 in T.
  replace ((48 * ri + qi) / 48) with ri in T by lia. replace ((48 * ri + qi) mod 48) with qi in T by lia.
  destruct (step210 (48 * ri + qi)) as [[[mask a] c] nxt]. cbv zeta.
  repeat (apply andb_true_iff in T; destruct T as [T ?]).
  repeat match goal with H : (_ =? _) = true |- _ => apply N.eqb_eq in H | H : (_ <=? _) = true |- _ => apply N.leb_le in H end.
  repeat split; assumption.
Qed.

Lemma inv_off210 low sp ri qi q i : Inv210 low sp ri qi q i ->
  offb (sprime sp ri * q) = offb (nthd pres8 ri * nthd cop210 qi) /\ maskof (sprime sp ri * q) = maskof (nthd pres8 ri * nthd cop210 qi) /\
  7 <= offb (sprime sp ri * q) <= 31.
Proof.
  intros (Hr & Hq & Hm & _).
  assert (E : (sprime sp ri * q) mod 30 = (nthd pres8 ri * nthd cop210 qi) mod 30).
  { unfold sprime. apply mul_mod30'. exact Hm. }
  pose proof (entry_facts210 ri qi Hr Hq) as F. destruct (step210 (48 * ri + qi)) as [[[mask a] c] nxt]. cbv zeta in F.
  destruct F as (_ & _ & _ & _ & Ho & _).
  rewrite (offb_mod _ _ E), (maskof_mod _ _ E). repeat split; lia.
Qed.

(** one step of the loop *)
Lemma cross_step210 low sp ri qi q i : Inv210 low sp ri qi q i ->
  let '(mask, a, c, nxt) := step210 (48 * ri + qi) in
  mask = maskof (sprime sp ri * q) /\ nextc210 q = q + a /\ nxt = 48 * ri + (qi + 1) mod 48 /\
  Inv210 low sp ri ((qi + 1) mod 48) (nextc210 q) (i + a * sp + c).
Proof.
  intros HI. pose proof (inv_off210 _ _ _ _ _ _ HI) as (Eo & Em & Ho). destruct HI as (Hr & Hq & Hm & Hp).
  pose proof (entry_facts210 ri qi Hr Hq) as F. destruct (step210 (48 * ri + qi)) as [[[mask a] c] nxt]. cbv zeta in F.
  destruct F as (Fa & Fq & Fm & Fo & _ & Fn).
  assert (Hn : nextc210 q = q + a) by (unfold nextc210; rewrite Hm, Fa; reflexivity).
  split; [rewrite Em; exact Fm|]. split; [exact Hn|]. split; [exact Fn|].
  assert (Hq' : (qi + 1) mod 48 < 48) by (apply N.mod_lt; lia).
  assert (Hm' : (q + a) mod 210 = nthd cop210 ((qi + 1) mod 48)).
  { rewrite N.add_mod by lia. rewrite Hm. rewrite <- Fq. rewrite (N.add_mod (nthd cop210 qi) a) by lia.
    rewrite (N.mod_small (nthd cop210 qi)) by (apply cop210_lt; exact Hq). reflexivity. }
  rewrite Hn. split; [exact Hr|]. split; [exact Hq'|]. split; [exact Hm'|].
  assert (E' : (sprime sp ri * (q + a)) mod 30 = (nthd pres8 ri * nthd cop210 ((qi + 1) mod 48)) mod 30).
  { unfold sprime. apply mul_mod30'. exact Hm'. }
  rewrite (offb_mod _ _ E'). rewrite Eo in Hp. unfold sprime in *.
  set (r := nthd pres8 ri) in *. set (o := offb (r * nthd cop210 qi)) in *. set (o' := offb (r * nthd cop210 ((qi + 1) mod 48))) in *.
  clearbody r o o'. lia.
Qed.

(** refinement: the loop computes the specification and leaves the invariant for the next segment *)
Theorem cross210_refines : forall fuel size low sp ri qi q i cl i' w',
  Inv210 low sp ri qi q i ->
  cross210 fuel size sp i (48 * ri + qi) = Some (cl, i', w') ->
  exists qe qie, spec_cross210 fuel low size (sprime sp ri) q = Some (cl, qe) /\
                 Inv210 (low + 30 * size) sp ri qie qe i' /\ w' = 48 * ri + qie.
Proof.
  induction fuel as [|f IH]; intros size low sp ri qi q i cl i' w' HI H; cbn [cross210 spec_cross210] in *; [discriminate|].
  pose proof (inv_off210 _ _ _ _ _ _ HI) as (_ & _ & Ho).
  assert (Hb : byteof low (sprime sp ri * q) = i) by (destruct HI as (_ & _ & _ & Hp); apply (byteof_pos low _ i _ Hp Ho)).
  rewrite Hb. destruct (N.leb_spec size i) as [Hge|Hlt].
  - injection H as <- <- <-. exists q, qi. split; [reflexivity|]. split; [|reflexivity].
    destruct HI as (Hr & Hq & Hm & Hp). repeat split; try assumption. lia.
  - pose proof (cross_step210 _ _ _ _ _ _ HI) as S. destruct (step210 (48 * ri + qi)) as [[[mask a] c] nxt].
    destruct S as (Sm & Sn & Sx & SI). subst nxt.
    destruct (cross210 f size sp (i + a * sp + c) (48 * ri + (qi + 1) mod 48)) as [[[cl0 i0] w0]|] eqn:E; [|discriminate].
    injection H as <- <- <-.
    destruct (IH _ _ _ _ _ _ _ _ _ _ SI E) as (qe & qie & Hs & HI' & Hw).
    exists qe, qie. rewrite Hs, Sm. split; [reflexivity|split; [exact HI'|exact Hw]].
Qed.

(** ---- the specification side: the cofactors are exactly the numbers coprime to 210, in order *)
Definition coprime210 (q : N) : Prop := In (q mod 210) cop210.

Lemma nextc210_facts : forallb (fun qm => let g := gap210 qm in
    existsb (N.eqb ((qm + g) mod 210)) cop210 && (1 <=? g) && (g <=? 10) &&
    forallb (fun d => negb (existsb (N.eqb ((qm + d) mod 210)) cop210)) (filter (fun d => (1 <=? d) && (d <? g)) (Nseq 11))) cop210 = true.
Proof. vm_compute. reflexivity. Qed.

Lemma nextc210_aux qm g q : qm = q mod 210 ->
  (existsb (N.eqb ((qm + g) mod 210)) cop210 && (1 <=? g) && (g <=? 10) &&
   forallb (fun d => negb (existsb (N.eqb ((qm + d) mod 210)) cop210)) (filter (fun d => (1 <=? d) && (d <? g)) (Nseq 11))) = true ->
  coprime210 (q + g) /\ q < q + g /\ forall x, q < x < q + g -> ~ coprime210 x.
Proof.
  intros Eq T. unfold coprime210.
  apply andb_true_iff in T. destruct T as [T T3]. apply andb_true_iff in T. destruct T as [T Tg].
  apply andb_true_iff in T. destruct T as [T1 T2].
  apply existsb_eqb_In in T1. apply N.leb_le in T2. apply N.leb_le in Tg. subst qm.
  split; [|split; [lia|]].
  - rewrite N.add_mod by lia. rewrite N.add_mod in T1 by lia. rewrite N.mod_mod in T1 by lia. exact T1.
  - intros x Hx Hc. rewrite forallb_forall in T3.
    assert (Hd : In (x - q) (filter (fun d => (1 <=? d) && (d <? g)) (Nseq 11))).
    { apply filter_In. split; [apply In_Nseq; change (N.of_nat 11) with 11; lia|].
      apply andb_true_iff. split; [apply N.leb_le; lia|apply N.ltb_lt; lia]. }
    specialize (T3 _ Hd). apply negb_true_iff in T3.
    assert (H : In ((q mod 210 + (x - q)) mod 210) cop210).
    { replace ((q mod 210 + (x - q)) mod 210) with (x mod 210); [exact Hc|].
      rewrite N.add_mod by lia. rewrite N.mod_mod by lia. rewrite <- N.add_mod by lia. f_equal. lia. }
    apply existsb_eqb_In in H. congruence.
Qed.

Lemma nextc210_spec q : coprime210 q ->
  coprime210 (nextc210 q) /\ q < nextc210 q /\ forall x, q < x < nextc210 q -> ~ coprime210 x.
Proof.
  intros Hq. unfold coprime210 in Hq. pose proof nextc210_facts as T. rewrite forallb_forall in T. specialize (T _ Hq).
  unfold nextc210. exact (nextc210_aux (q mod 210) (gap210 (q mod 210)) q eq_refl T).
Qed.

(** membership in cop210 is coprimality with 210 *)
Lemma cop210_gcd q : coprime210 q <-> N.gcd (q mod 210) 210 = 1.
Proof.
  unfold coprime210.
  assert (T : forallb (fun r => Bool.eqb (existsb (N.eqb r) cop210) (N.gcd r 210 =? 1)) (Nseq 210) = true) by (vm_compute; reflexivity).
  rewrite forallb_forall in T.
  assert (Hr : q mod 210 < N.of_nat 210) by (change (N.of_nat 210) with 210; apply N.mod_lt; lia).
  specialize (T _ (In_Nseq 210 _ Hr)). apply Bool.eqb_prop in T.
  rewrite <- existsb_eqb_In, T. apply N.eqb_eq.
Qed.

(** Facts about the cursor specification itself: determinism, independence of
    stop_hint, and the list form of pure forward / backward runs. *)
From Coq Require Import NArith List Bool Lia Sorted Arith.
From PS Require Import Spec.Primes Spec.Cursor Proofs.PmathP.
Import ListNotations.
Local Open Scope N_scope.

Lemma lt_prev_prime_unique hi1 p q : lt_prev_prime hi1 p -> lt_prev_prime hi1 q -> p = q.
Proof. intros (H1 & H2 & H3) (G1 & G2 & G3). specialize (H3 q G1 G2). specialize (G3 p H1 H2). lia. Qed.

Lemma cursor_step_det c o c1 r1 c2 r2 :
  cursor_step c o c1 r1 -> cursor_step c o c2 r2 -> c1 = c2 /\ r1 = r2.
Proof.
  destruct c as [lo hi1]. destruct o; cbn [cursor_step].
  - intros [(p & Hp & Hlt & -> & ->)|(Hn & -> & ->)] [(q & Hq & Hlt' & -> & ->)|(Hn' & -> & ->)].
    + rewrite (is_next_prime_unique _ _ _ Hp Hq). split; reflexivity.
    + exfalso. destruct Hp as (Hp & Hle & _). specialize (Hn' p Hp Hle). lia.
    + exfalso. destruct Hq as (Hq & Hle & _). specialize (Hn q Hq Hle). lia.
    + split; reflexivity.
  - intros [(p & Hp & -> & ->)|(Hn & -> & ->)] [(q & Hq & -> & ->)|(Hn' & -> & ->)].
    + rewrite (lt_prev_prime_unique _ _ _ Hp Hq). split; reflexivity.
    + exfalso. destruct Hp as (Hp & Hlt & _). exact (Hn' p Hp Hlt).
    + exfalso. destruct Hq as (Hq & Hlt & _). exact (Hn q Hq Hlt).
    + split; reflexivity.
  - intros (-> & ->) (-> & ->). split; reflexivity.
  - intros (-> & ->) (-> & ->). split; reflexivity.
  - intros (-> & ->) (-> & ->). split; reflexivity.
  - intros (-> & ->) (-> & ->). split; reflexivity.
  - intros (-> & ->) (-> & ->). split; reflexivity.
Qed.

Lemma cursor_run_det : forall os c rs1 rs2, cursor_run c os rs1 -> cursor_run c os rs2 -> rs1 = rs2.
Proof.
  induction os as [|o os IH]; intros c rs1 rs2 H1 H2; inversion H1; inversion H2; subst; [reflexivity|].
  match goal with
  | Ha : cursor_step c o ?c1 ?r1, Hb : cursor_step c o ?c2 ?r2 |- _ =>
      destruct (cursor_step_det _ _ _ _ _ _ Ha Hb) as [-> ->]
  end.
  f_equal. eapply IH; eassumption.
Qed.

(** stop_hint is not part of the specification *)
Definition erase_hint (o : op) : op :=
  match o with
  | JumpTo s _ => JumpTo s 0
  | Skipto s _ => Skipto s 0
  | o => o
  end.

Lemma cursor_step_erase c o c' r : cursor_step c o c' r <-> cursor_step c (erase_hint o) c' r.
Proof. destruct c, o; cbn; tauto. Qed.

Lemma cursor_run_erase : forall os c rs, cursor_run c os rs <-> cursor_run c (map erase_hint os) rs.
Proof.
  induction os as [|o os IH]; intros c rs; cbn [map]; split; intros H; inversion H; subst.
  - constructor.
  - constructor.
  - econstructor; [apply -> cursor_step_erase; eassumption|apply -> IH; eassumption].
  - econstructor; [apply <- cursor_step_erase; eassumption|apply <- IH; eassumption].
Qed.

(* ---------- list form of forward runs (C01) ---------- *)

Lemma primes_between_single p : prime p -> primes_between p p = [p].
Proof.
  intros Hp. unfold primes_between. replace (p + 1 - p) with 1 by lia.
  unfold Nrange. change (N.to_nat 1) with 1%nat. cbn [seq map N.of_nat filter]. rewrite N.add_0_r.
  apply is_prime_spec in Hp. rewrite Hp. reflexivity.
Qed.

Lemma primes_between_next lo p b :
  is_next_prime lo p -> p <= b -> primes_between lo b = p :: primes_between (p + 1) b.
Proof.
  intros (Hp & Hle & Hmin) Hb. pose proof (prime_ge_2 _ Hp).
  rewrite (primes_between_split lo p b) by lia.
  rewrite (primes_between_split lo (p - 1) p) by lia.
  replace (p - 1 + 1) with p by lia. rewrite primes_between_single by exact Hp.
  assert (E : primes_between lo (p - 1) = []).
  { apply primes_between_nil_iff. intros q Hq H1 H2. specialize (Hmin q Hq H1). lia. }
  rewrite E. reflexivity.
Qed.

Lemma primes_between_prev hi1 p :
  lt_prev_prime hi1 p -> primes_between 0 (hi1 - 1) = primes_between 0 (p - 1) ++ [p].
Proof.
  intros (Hp & Hlt & Hmax). pose proof (prime_ge_2 _ Hp).
  rewrite (primes_between_split 0 p (hi1 - 1)) by lia.
  rewrite (primes_between_split 0 (p - 1) p) by lia.
  replace (p - 1 + 1) with p by lia. rewrite primes_between_single by exact Hp.
  assert (E : primes_between (p + 1) (hi1 - 1) = []).
  { apply primes_between_nil_iff. intros q Hq H1 H2. specialize (Hmax q Hq ltac:(lia)). lia. }
  rewrite E, app_nil_r. reflexivity.
Qed.

(** k calls of Next from a cursor whose lower bound is lo: the first k primes
    >= lo below 2^64, then errors for ever *)
Theorem next_runs : forall k lo hi1 rs,
  cursor_run (lo, hi1) (repeat Next k) rs ->
  let P := primes_between lo MAX64 in
  rs = map Val (firstn k P) ++ repeat Err (k - length P).
Proof.
  induction k as [|k IH]; intros lo hi1 rs Hrun P; cbn [repeat] in Hrun; inversion Hrun; subst; [reflexivity|].
  match goal with H : cursor_step _ Next _ _ |- _ => cbn [cursor_step] in H; destruct H as [(p & Hp & Hlt & -> & ->)|(Hn & -> & ->)] end.
  - subst P. rewrite (primes_between_next lo p MAX64 Hp) by (u64; lia).
    cbn [firstn map length app]. f_equal.
    match goal with H : cursor_run (p + 1, p) _ _ |- _ => apply IH in H; cbn zeta in H; rewrite H end.
    f_equal.
  - assert (E : P = []).
    { subst P. apply primes_between_nil_iff. intros q Hq H1 H2. specialize (Hn q Hq H1). u64. lia. }
    match goal with H : cursor_run (lo, hi1) _ _ |- _ => apply IH in H; cbn zeta in H; fold P in H; rewrite H end.
    rewrite E. cbn [firstn map length app]. destruct k; cbn [firstn map app repeat Nat.sub]; reflexivity.
Qed.

(** k calls of Prev from a cursor whose strict upper bound is hi1: the primes
    < hi1 in descending order, then 0 for ever *)
Theorem prev_runs : forall k lo hi1 rs,
  cursor_run (lo, hi1) (repeat Prev k) rs ->
  let P := rev (primes_between 0 (hi1 - 1)) in
  rs = map Val (firstn k P) ++ repeat (Val 0) (k - length P).
Proof.
  induction k as [|k IH]; intros lo hi1 rs Hrun P; cbn [repeat] in Hrun; inversion Hrun; subst; [reflexivity|].
  match goal with H : cursor_step _ Prev _ _ |- _ => cbn [cursor_step] in H; destruct H as [(p & Hp & -> & ->)|(Hn & -> & ->)] end.
  - subst P. rewrite (primes_between_prev hi1 p Hp), rev_app_distr. cbn [rev app firstn map length]. f_equal.
    match goal with H : cursor_run (p + 1, p) _ _ |- _ => apply IH in H; cbn zeta in H; rewrite H end.
    reflexivity.
  - assert (E : primes_between 0 (hi1 - 1) = []).
    { apply primes_between_nil_iff. intros q Hq H1 H2. pose proof (prime_ge_2 _ Hq). apply (Hn q Hq). lia. }
    match goal with H : cursor_run (1, 0) _ _ |- _ => apply IH in H; cbn zeta in H; rewrite H end.
    subst P. rewrite E. cbn [N.sub rev firstn map length app].
    replace (primes_between 0 0) with (@nil N) by (symmetry; apply primes_between_nil_iff; intros q Hq H1 H2; pose proof (prime_ge_2 _ Hq); lia).
    cbn [rev length firstn map app]. destruct k; cbn [firstn map app repeat Nat.sub]; reflexivity.
Qed.

(** C11: the error contract of the C binding. *)
From Coq Require Import NArith List Bool Lia.
From PS Require Import Spec.Primes Spec.Cursor Model.Pmath Model.Iterator Model.CApi Proofs.PmathP Proofs.IteratorP.
Import ListNotations.
Local Open Scope N_scope.

(** wrappers: success never produces EDOM by itself; any exception gives the error value and EDOM *)
Lemma wrap_u64_contract r errno :
  match r with
  | Returns v => wrap_u64 r errno = (v, errno)
  | Throws => wrap_u64 r errno = (PRIMESIEVE_ERROR, EDOM)
  end.
Proof. destruct r; reflexivity. Qed.

Lemma wrap_array_contract r errno :
  match r with
  | Returns l => wrap_array r errno = ((if l then None else Some l), N.of_nat (length l), errno)
  | Throws => wrap_array r errno = (None, 0, EDOM)
  end.
Proof. destruct r as [[|x l]|]; reflexivity. Qed.

(** a NULL result with errno <> EDOM (given errno <> EDOM before the call) means "no primes", never an error *)
Lemma null_means_empty r errno p s e :
  errno <> EDOM -> wrap_array r errno = (p, s, e) -> p = None -> e <> EDOM -> r = Returns [].
Proof.
  intros He H Hp Hne. destruct r as [[|x l]|]; cbn in H; injection H as <- <- <-; [reflexivity|discriminate|congruence].
Qed.

Lemma type_max_invalid code : 14 <= code -> type_max code = None.
Proof.
  intros H. unfold type_max.
  destruct code as [|p]; [lia|].
  do 4 (destruct p as [p|p|]; try reflexivity; try lia).
Qed.

Section Sticky.
  Variable nextDist : N -> N -> N.
  Variable prevDist : N -> N -> N.
  Variable maxGap : N -> N.
  Variable kernel : N -> N -> list N.
  Variable cut : list N -> list (list N).
  Hypothesis kernel_ok : forall a b, a <= b -> b <= MAX64 -> kernel a b = primes_between a b.
  Hypothesis cut_ok : forall l, concat (cut l) = l /\ Forall nonempty (cut l).

  (** from the error state the next call throws again (the chunk is [2^64-1, 2^64-1], which holds no prime)
      and re-establishes the error state: PRIMESIEVE_ERROR is returned for ever *)
  Lemma error_state_step fuel :
    (1 <= fuel)%nat ->
    c_next_prime nextDist maxGap kernel cut fuel {| ci := error_iter; ci_error := true |} =
      Done ({| ci := error_iter; ci_error := true |}, PRIMESIEVE_ERROR).
  Proof.
    intros Hf. destruct fuel as [|f]; [lia|]. unfold c_next_prime, error_iter. cbn [ci it_i it_buf length Nat.ltb Nat.leb].
    cbn [it_start it_hint get_data it_mem gen_next_loop d_gen updateNext d_incl d_stop d_dist].
    unfold PRIMESIEVE_ERROR.
    assert (E1 : (MAX64 <=? MAX64) && (MAX64 <? MAX64) = false) by (rewrite N.ltb_irrefl; apply andb_false_r).
    rewrite E1.
    assert (E2 : checkedAdd MAX64 (nextDist MAX64 0) = MAX64) by (apply checkedAdd_sat; lia).
    rewrite E2. cbn [new_gen g_blocks g_top].
    rewrite kernel_ok by lia.
    assert (E3 : primes_between MAX64 MAX64 = []).
    { apply primes_between_nil_iff. intros q Hq H1 H2. assert (q = MAX64) by lia. subst q. exact (not_prime_MAX64 Hq). }
    rewrite E3. destruct (cut_ok []) as [Hc _]. destruct (cut []) as [|b l] eqn:Ec.
    - rewrite N.leb_refl. reflexivity.
    - exfalso. destruct (cut_ok []) as [Hc2 Hne]. rewrite Ec in Hc2, Hne. apply Forall_cons_iff in Hne. destruct Hne as [Hb _].
      cbn in Hc2. apply app_eq_nil in Hc2. destruct Hc2. apply Hb. assumption.
  Qed.

  Lemma error_state_step_nomem fuel :
    (1 <= fuel)%nat ->
    c_next_prime nextDist maxGap kernel cut fuel {| ci := error_iter_nomem; ci_error := true |} =
      Done ({| ci := error_iter; ci_error := true |}, PRIMESIEVE_ERROR).
  Proof.
    intros Hf. destruct fuel as [|f]; [lia|]. unfold c_next_prime, error_iter_nomem. cbn [ci it_i it_buf length Nat.ltb Nat.leb].
    cbn [it_start it_hint get_data it_mem gen_next_loop d_gen updateNext d_incl d_stop d_dist].
    unfold PRIMESIEVE_ERROR.
    assert (E1 : (MAX64 <=? MAX64) && (MAX64 <? MAX64) = false) by (rewrite N.ltb_irrefl; apply andb_false_r).
    rewrite E1.
    assert (E2 : checkedAdd MAX64 (nextDist MAX64 0) = MAX64) by (apply checkedAdd_sat; lia).
    rewrite E2. cbn [new_gen g_blocks g_top].
    rewrite kernel_ok by lia.
    assert (E3 : primes_between MAX64 MAX64 = []).
    { apply primes_between_nil_iff. intros q Hq H1 H2. assert (q = MAX64) by lia. subst q. exact (not_prime_MAX64 Hq). }
    rewrite E3. destruct (cut []) as [|b l] eqn:Ec.
    - rewrite N.leb_refl. reflexivity.
    - exfalso. destruct (cut_ok []) as [Hc2 Hne]. rewrite Ec in Hc2, Hne. apply Forall_cons_iff in Hne. destruct Hne as [Hb _].
      cbn in Hc2. apply app_eq_nil in Hc2. destruct Hc2. apply Hb. assumption.
  Qed.

  Theorem error_sticky fuel k :
    (1 <= fuel)%nat ->
    c_next_n nextDist maxGap kernel cut fuel k {| ci := error_iter; ci_error := true |} =
      Done ({| ci := error_iter; ci_error := true |}, repeat PRIMESIEVE_ERROR k).
  Proof.
    intros Hf. induction k as [|k IH]; [reflexivity|]. cbn [c_next_n repeat].
    rewrite (error_state_step fuel Hf). rewrite IH. reflexivity.
  Qed.

  (** an exception inside primesieve_next_prime leads to the error state, whatever the iterator's state was *)
  Theorem error_entered fuel c c' v :
    c_next_prime nextDist maxGap kernel cut fuel c = Done (c', v) ->
    ci_error c' = true -> ci_error c = false -> c' = {| ci := error_iter; ci_error := true |} /\ v = PRIMESIEVE_ERROR.
  Proof.
    unfold c_next_prime. intros H He Hc.
    destruct (Nat.ltb (S (it_i (ci c))) (length (it_buf (ci c)))).
    - injection H as <- <-. cbn in He. congruence.
    - destruct (gen_next_loop nextDist maxGap kernel cut fuel _ _ _) as [[[s b] d]|x|]; [| |discriminate].
      + injection H as <- <-. cbn in He. congruence.
      + injection H as <- <-. split; reflexivity.
  Qed.
End Sticky.

(** L3/L4: the kernel theorem over the segments the geometry model produces for any configuration and interval,
    with the sieving primes = the primes 7 <= p <= sqrt(stop) in ascending order (what SievingPrimes delivers). *)
From Coq Require Import NArith ZArith List Bool Lia Sorted.
From PS Require Import Spec.Primes Gen.Tables Model.Pmath Model.Config Model.EratGeom Model.Count Model.Wheel Model.CrossOff
  Proofs.TablesP Proofs.PmathP Proofs.ConfigP Proofs.EratGeomP Proofs.CrossOffP Proofs.KernelP Proofs.KernelInitP Proofs.KernelLoopP.
Import ListNotations.
Local Open Scope N_scope.

Definition to_kseg (sg : seg) : kseg := {| k_low := s_low sg; k_size := s_bytes sg; k_high := s_high sg |}.

(** segmentHigh never exceeds stop *)
Lemma segments_loop_high stop : forall fuel low high size l,
  high <= stop -> segments_loop fuel stop low high size = Some l -> Forall (fun sg => s_high sg <= stop) l.
Proof.
  induction fuel as [|f IH]; intros low high size l Hh H; cbn [segments_loop] in H; [discriminate|].
  destruct (low <? stop); [|injection H as <-; constructor].
  unfold sieve_segment in H. destruct (high <? stop).
  - destruct (segments_loop f stop (checkedAdd low (size * 30)) (N.min (checkedAdd high (size * 30)) stop) size) as [r|] eqn:E; [|discriminate].
    cbn in H. injection H as <-. constructor; [cbn; exact Hh|]. apply (IH _ _ _ _ (N.le_min_r _ _) E).
  - match type of H with option_map _ (segments_loop f stop ?a ?b ?c) = _ => destruct (segments_loop f stop a b c) as [r|] eqn:E; [|discriminate] end.
    cbn in H. injection H as <-. constructor; [cbn; exact Hh|]. apply (IH _ _ _ _ Hh E).
Qed.

Lemma segs_ok_of_segments stop : stop <= MAX64 -> forall l,
  Forall (seg_ok stop) l -> adjacent l -> Forall (fun sg => s_high sg <= stop) l ->
  forall low, (match l with [] => True | sg :: _ => s_low sg = low end) -> segs_ok stop low (map to_kseg l).
Proof.
  intros Hstop. induction l as [|sg r IH]; intros Hok Hadj Hhi low Hlow; cbn [map segs_ok]; [exact I|].
  inversion Hok as [|? ? Hsg Hr]; subst. inversion Hhi as [|? ? Hh1 Hhr]; subst.
  destruct Hsg as (H30 & Hb & H7 & _). cbn [to_kseg k_low k_size k_high].
  split; [reflexivity|]. split; [exact H30|]. split; [unfold MAX64 in *; lia|]. split; [exact Hh1|].
  destruct r as [|sg' r'].
  - cbn. exact I.
  - cbn [adjacent] in Hadj. destruct Hadj as (_ & Hnext & Hadj').
    apply IH; [exact Hr|exact Hadj'|exact Hhr|exact Hnext].
Qed.

Lemma sqrt_sq_le p n : p * p <= n <-> p <= N.sqrt n.
Proof.
  split; intros H.
  - destruct (N.le_gt_cases p (N.sqrt n)) as [|Hgt]; [assumption|exfalso].
    pose proof (N.sqrt_spec n (N.le_0_l n)) as [_ Hs]. rewrite <- N.add_1_r in Hs.
    assert (H1 : N.sqrt n + 1 <= p) by lia.
    pose proof (N.mul_le_mono _ _ _ _ H1 H1). lia.
  - pose proof (N.sqrt_spec n (N.le_0_l n)) as [Hs _].
    pose proof (N.mul_le_mono _ _ _ _ H H). lia.
Qed.

(** the kernel theorem: for every configuration (L1 size, sieve size setting) and interval, after sieving each
    segment, the bit of a number n <= segmentHigh of that segment is still set iff n is prime *)
Theorem erat_kernel_correct l1 maxKB start stop fuelg fuel l result :
  16 <= maxKB -> maxKB <= 8192 -> 7 <= start -> start <= stop -> stop <= MAX64 ->
  segments fuelg l1 maxKB start stop = Some l ->
  sieve_loop fuel eratSmallSteps stop (map to_kseg l) (primes_between 7 (N.sqrt stop)) [] = Some result ->
  Forall seg_result_ok result.
Proof.
  intros K1 K2 S1 S2 S3 Hsegs Hloop.
  destruct (segments_ok l1 maxKB start stop fuelg l K1 K2 S1 S2 S3 Hsegs) as (Hne & Hall & Hadj & _).
  assert (Hhigh : Forall (fun sg => s_high sg <= stop) l).
  { unfold segments in Hsegs.
    assert (Hh0 : a_segHigh (initAlgorithms l1 maxKB start stop) <= stop).
    { pose proof (initAlgorithms_admissible l1 maxKB start stop K1 K2 S1 S2 S3) as A. cbn zeta in A.
      destruct A as (_ & _ & _ & _ & _ & _ & _ & _ & _ & _ & A11). rewrite A11. apply N.le_min_r. }
    exact (segments_loop_high stop _ _ _ _ _ Hh0 Hsegs). }
  destruct l as [|sg0 r0]; [congruence|].
  pose proof (segs_ok_of_segments stop S3 (sg0 :: r0) Hall Hadj Hhigh (s_low sg0) eq_refl) as Hsok.
  apply (sieve_loop_spec eratSmallSteps eratSmallSteps_entries stop S3 fuel (map to_kseg (sg0 :: r0)) (s_low sg0)
           (primes_between 7 (N.sqrt stop)) [] result Hsok (Forall_nil _)).
  - apply primes_between_sorted.
  - apply Forall_forall. intros p Hp. apply In_primes_between in Hp. destruct Hp as (H7 & Hs & Hpr).
    split; [exact Hpr|]. split; [exact H7|]. apply sqrt_sq_le. exact Hs.
  - intros p (Hpr & H7 & Hsq). right. left. apply In_primes_between. split; [exact H7|]. split; [apply sqrt_sq_le; exact Hsq|exact Hpr].
  - exact Hloop.
Qed.

(** list level: the numbers whose bit survives in a segment are exactly the primes of
    [low + 7, min(segmentHigh, low + 30*size + 6)] *)
Lemma pair_mem_In b m l : pair_mem b m l = true <-> In (b, m) l.
Proof.
  unfold pair_mem. rewrite existsb_exists. split.
  - intros ([b' m'] & Hin & E). cbn in E. apply andb_true_iff in E. destruct E as [E1 E2].
    apply N.eqb_eq in E1, E2. subst. exact Hin.
  - intros H. exists (b, m). split; [exact H|]. cbn. rewrite !N.eqb_refl. reflexivity.
Qed.

Theorem surviving_spec sg cleared : k_low sg mod 30 = 0 -> seg_result_ok (sg, cleared) ->
  forall n, In n (surviving sg cleared) <->
            prime n /\ k_low sg + 7 <= n /\ n <= k_high sg /\ n <= k_low sg + 30 * k_size sg + 6.
Proof.
  intros Hl Hok n. unfold surviving. rewrite filter_In, in_map_iff. cbn [seg_result_ok] in Hok. split.
  - intros ((i & E & Hi) & Hf). apply in_seq in Hi.
    apply andb_true_iff in Hf. destruct Hf as [Hf Hnc]. apply andb_true_iff in Hf. destruct Hf as [Hc Hh].
    apply existsb_eqb_In in Hc. apply N.leb_le in Hh. apply negb_true_iff in Hnc.
    assert (Hn7 : k_low sg + 7 <= n) by lia.
    assert (Hup : n <= k_low sg + 30 * k_size sg + 6) by lia.
    assert (Hb : byteof (k_low sg) n < k_size sg).
    { pose proof (position n (k_low sg) Hl Hc Hn7) as P. destruct (offb_range n Hc) as [Ho _].
      set (b := byteof (k_low sg) n) in *. clearbody b. lia. }
    assert (Hpr : prime n).
    { apply (Hok n Hc Hn7 Hb ltac:(lia) Hh). intros Hin. apply pair_mem_In in Hin. congruence. }
    split; [exact Hpr|split; [exact Hn7|split; [exact Hh|exact Hup]]].
  - intros (Hpr & Hn7 & Hh & Hup).
    assert (H7 : 7 <= n) by lia.
    pose proof (prime_coprime30 n Hpr H7) as Hc.
    assert (Hb : byteof (k_low sg) n < k_size sg).
    { pose proof (position n (k_low sg) Hl Hc Hn7) as P. destruct (offb_range n Hc) as [Ho _].
      set (b := byteof (k_low sg) n) in *. clearbody b. lia. }
    split.
    + exists (N.to_nat (n - k_low sg - 7)). split; [lia|]. apply in_seq. lia.
    + apply andb_true_iff. split; [apply andb_true_iff; split; [apply existsb_eqb_In; exact Hc|apply N.leb_le; exact Hh]|].
      apply negb_true_iff. destruct (pair_mem _ _ cleared) eqn:E; [|reflexivity].
      apply pair_mem_In in E. exfalso. apply (proj2 (Hok n Hc Hn7 Hb H7 Hh) Hpr). exact E.
Qed.

(** non-vacuity: the model kernel run in the assistant on a two-segment... a small interval: it returns exactly
    the primes of [7, 3000] (one last segment; multi-segment runs are exercised through the extracted model) *)
Example kernel_run_small :
  kernel_run 10 4000 32768 16 7 3000 (primes_between 7 (N.sqrt 3000)) = Some (primes_between 7 3000).
Proof. vm_compute. reflexivity. Qed.

(** C09 (1): the pieces computed by the workers tile [start, stop] exactly;
    every interior boundary is = 2 (mod 30) and >= 32, so no sieve byte (hence
    no prime k-tuplet) is split. *)
From Coq Require Import NArith List Bool Lia ZArith Arith.
From PS Require Import Spec.Primes Model.Pmath Model.Tiling Proofs.PmathP.
Import ListNotations.
Local Open Scope N_scope.
Ltac Zify.zify_post_hook ::= Z.to_euclidean_division_equations.

(** align on unbounded numbers *)
Definition alignN (stop n : N) : N := if n + 32 <? stop then n + 32 - n mod 30 else stop.

Lemma align_alignN stop n : stop <= MAX64 -> n <= MAX64 -> align stop n = alignN stop n.
Proof.
  intros Hs Hn. unfold align, alignN. rewrite checkedAdd_min by assumption.
  destruct (N.leb_spec stop (N.min (n + 32) MAX64)), (N.ltb_spec (n + 32) stop); try reflexivity; try lia.
Qed.

Lemma align_checkedAdd stop s td : stop <= MAX64 -> s <= MAX64 -> align stop (checkedAdd s td) = alignN stop (s + td).
Proof.
  intros Hs Hn. rewrite align_alignN by (try assumption; apply checkedAdd_le).
  rewrite checkedAdd_min by assumption. unfold alignN.
  destruct (N.le_gt_cases MAX64 (s + td)) as [H|H].
  - replace (N.min (s + td) MAX64) with MAX64 by lia.
    destruct (N.ltb_spec (MAX64 + 32) stop), (N.ltb_spec (s + td + 32) stop); try reflexivity; lia.
  - replace (N.min (s + td) MAX64) with (s + td) by lia. reflexivity.
Qed.

Lemma alignN_le stop n : alignN stop n <= stop.
Proof. unfold alignN. destruct (N.ltb_spec (n + 32) stop); lia. Qed.

Lemma alignN_mono stop n m : n <= m -> alignN stop n <= alignN stop m.
Proof. intros H. unfold alignN. destruct (N.ltb_spec (n + 32) stop), (N.ltb_spec (m + 32) stop); lia. Qed.

Lemma alignN_ge stop n : n <= stop -> n <= alignN stop n.
Proof. intros H. unfold alignN. destruct (N.ltb_spec (n + 32) stop); lia. Qed.

(** an aligned interior boundary lies between two sieve bytes *)
Lemma alignN_boundary stop n : alignN stop n < stop -> alignN stop n mod 30 = 2 /\ 32 <= alignN stop n.
Proof. unfold alignN. destruct (N.ltb_spec (n + 32) stop); lia. Qed.

Lemma boundary_splits_no_byte e : e mod 30 = 2 -> forall j, ~ (30 * j + 7 <= e /\ e < 30 * j + 31).
Proof. intros H j. lia. Qed.

Section Pieces.
  Variables td start stop : N.
  Hypothesis Htd : 1 <= td.
  Hypothesis Hss : start <= stop.
  Hypothesis Hstop : stop < MAX64.

  Let np := numPieces td start stop.
  Let s_ (i : N) := start + td * i.

  Lemma np_pos : 1 <= np.
  Proof. unfold np, numPieces. generalize ((stop - start - 1) / td). intros; lia. Qed.

  Lemma s_bound i : i < np -> s_ i <= stop /\ (1 <= i -> s_ i < stop) /\ td * i <= stop - start.
  Proof.
    unfold np, numPieces, s_. intros Hi.
    assert (i <= (stop - start - 1) / td) by lia.
    assert (td * i <= stop - start - 1 \/ i = 0) by nia. nia.
  Qed.

  Lemma s_final : stop <= s_ (np - 1) + td.
  Proof. unfold np, numPieces, s_. nia. Qed.

  Lemma piece_eq i : i < np ->
    piece td start stop i = ((if i =? 0 then start else alignN stop (s_ i) + 1), alignN stop (s_ i + td)).
  Proof.
    intros Hi. destruct (s_bound i Hi) as (H1 & H2 & H3). unfold piece.
    assert (Hw1 : wrap (td * i) = td * i) by (unfold wrap; apply N.mod_small; u64; lia).
    rewrite Hw1. assert (Hw2 : wrap (start + td * i) = s_ i) by (unfold wrap, s_; apply N.mod_small; u64; lia).
    rewrite Hw2. rewrite align_checkedAdd by (u64; lia). f_equal.
    destruct (N.eqb_spec i 0) as [->|Hne].
    - unfold s_. rewrite N.mul_0_r, N.add_0_r. rewrite N.ltb_irrefl. reflexivity.
    - assert (start < s_ i) by (unfold s_; nia). destruct (N.ltb_spec start (s_ i)); [|lia].
      rewrite align_alignN by (u64; lia). pose proof (alignN_le stop (s_ i)).
      unfold wrap. apply N.mod_small. u64. lia.
  Qed.

  (** consecutive pieces: the next one starts right after the previous one ends *)
  Lemma piece_chain i : i + 1 < np ->
    snd (piece td start stop i) + 1 = fst (piece td start stop (i + 1)).
  Proof.
    intros Hi. rewrite (piece_eq i) by lia. rewrite (piece_eq (i + 1)) by lia. cbn [fst snd].
    destruct (N.eqb_spec (i + 1) 0); [lia|]. unfold s_. f_equal. f_equal. lia.
  Qed.

  Lemma piece_first : fst (piece td start stop 0) = start.
  Proof. rewrite piece_eq by (pose proof np_pos; lia). reflexivity. Qed.

  Lemma piece_last : snd (piece td start stop (np - 1)) = stop.
  Proof.
    pose proof np_pos. rewrite piece_eq by lia. cbn [snd]. pose proof s_final.
    unfold alignN. destruct (N.ltb_spec (s_ (np - 1) + td + 32) stop); lia.
  Qed.

  (** a piece is never "inverted" by more than the empty interval *)
  Lemma piece_ordered i : i < np -> fst (piece td start stop i) <= snd (piece td start stop i) + 1.
  Proof.
    intros Hi. rewrite piece_eq by assumption. cbn [fst snd]. destruct (s_bound i Hi) as (H1 & _ & _).
    destruct (N.eqb_spec i 0) as [->|Hne].
    - pose proof (alignN_ge stop (s_ 0 + td)). unfold s_ in *. rewrite N.mul_0_r, N.add_0_r in *.
      unfold alignN in *. destruct (N.ltb_spec (start + td + 32) stop); lia.
    - pose proof (alignN_mono stop (s_ i) (s_ i + td)). lia.
  Qed.

  (** interior piece ends are byte boundaries *)
  Lemma piece_end_boundary i : i < np -> snd (piece td start stop i) < stop ->
    snd (piece td start stop i) mod 30 = 2 /\ 32 <= snd (piece td start stop i).
  Proof. intros Hi. rewrite piece_eq by assumption. cbn [snd]. apply alignN_boundary. Qed.
End Pieces.

(** a list of intervals that follow each other without gap or overlap from lo to hi *)
Fixpoint chain (lo : N) (l : list (N * N)) (hi : N) : Prop :=
  match l with
  | [] => lo = hi + 1
  | (a, b) :: l' => a = lo /\ a <= b + 1 /\ chain (b + 1) l' hi
  end.

Lemma chain_seq (f : N -> N * N) hi : forall n k,
  (forall i, k <= i -> i < k + N.of_nat n -> fst (f i) <= snd (f i) + 1) ->
  (forall i, k <= i -> i + 1 < k + N.of_nat n -> snd (f i) + 1 = fst (f (i + 1))) ->
  (n <> 0%nat -> snd (f (k + N.of_nat n - 1)) = hi) ->
  (n = 0%nat -> fst (f k) = hi + 1) ->
  chain (fst (f k)) (map f (map N.of_nat (seq (N.to_nat k) n))) hi.
Proof.
  induction n as [|n IH]; intros k H1 H2 H3 H4; cbn [seq map chain].
  - apply H4. reflexivity.
  - rewrite N2Nat.id. destruct (f k) as [a b] eqn:E. cbn [fst]. split; [reflexivity|]. split.
    + specialize (H1 k ltac:(lia) ltac:(lia)). rewrite E in H1. exact H1.
    + destruct n as [|n'].
      * cbn [seq map chain]. specialize (H3 ltac:(discriminate)). replace (k + N.of_nat 1 - 1) with k in H3 by lia.
        rewrite E in H3. cbn in H3. lia.
      * assert (Hn : snd (f k) + 1 = fst (f (k + 1))) by (apply H2; lia). rewrite E in Hn. cbn [snd] in Hn. rewrite Hn.
        replace (S (N.to_nat k)) with (N.to_nat (k + 1)) by lia.
        apply IH.
        -- intros i Hi1 Hi2. apply H1; lia.
        -- intros i Hi1 Hi2. apply H2; lia.
        -- intros _. replace (k + 1 + N.of_nat (S n') - 1) with (k + N.of_nat (S (S n')) - 1) by lia. apply H3. discriminate.
        -- discriminate.
Qed.

(** C09: the pieces tile [start, stop] exactly *)
Theorem tiling_exact td start stop :
  1 <= td -> start <= stop -> stop < MAX64 ->
  chain start (pieces td start stop) stop.
Proof.
  intros Htd Hss Hstop. unfold pieces.
  pose proof (np_pos td start stop) as Hnp.
  rewrite <- (piece_first td start stop Htd Hss Hstop) at 1.
  change 0%nat with (N.to_nat 0).
  apply chain_seq.
  - intros i _ Hi. apply piece_ordered; try assumption. lia.
  - intros i _ Hi. apply piece_chain; try assumption. lia.
  - intros _. rewrite N2Nat.id. replace (0 + numPieces td start stop - 1) with (numPieces td start stop - 1) by lia.
    apply piece_last; assumption.
  - intros H. lia.
Qed.

(** the primes of a chain of intervals are the primes of the whole interval: counts add up *)
Lemma chain_primes : forall l lo hi, chain lo l hi -> lo <= hi + 1 ->
  concat (map (fun p => primes_between (fst p) (snd p)) l) = primes_between lo hi.
Proof.
  induction l as [|[a b] l IH]; intros lo hi Hc Hle; cbn [chain map concat] in *.
  - subst lo. symmetry. apply primes_between_empty. lia.
  - destruct Hc as (-> & Hab & Hc). cbn [fst snd].
    assert (Hb : b + 1 <= hi + 1).
    { clear IH. revert Hc. generalize (b + 1). induction l as [|[a' b'] l IHl]; cbn [chain]; intros x Hx; [lia|].
      destruct Hx as (-> & H1 & H2). specialize (IHl _ H2). lia. }
    rewrite (IH (b + 1) hi Hc Hb).
    destruct (N.eq_dec lo (b + 1)) as [->|Hne].
    + rewrite (primes_between_empty (b + 1) b) by lia. reflexivity.
    + symmetry. apply primes_between_split; lia.
Qed.

Theorem tiling_counts td start stop :
  1 <= td -> start <= stop -> stop < MAX64 ->
  concat (map (fun p => primes_between (fst p) (snd p)) (pieces td start stop)) = primes_between start stop.
Proof. intros H1 H2 H3. apply chain_primes; [apply tiling_exact; assumption|lia]. Qed.

(** C09: no interior boundary separates the numbers of one sieve byte 30j+7 .. 30j+31,
    and every interior boundary is >= 32 (above the small k-tuplets, whose members are <= 17) *)
Theorem no_split td start stop p :
  1 <= td -> start <= stop -> stop < MAX64 ->
  In p (pieces td start stop) -> snd p < stop ->
  32 <= snd p /\ forall j, ~ (30 * j + 7 <= snd p /\ snd p < 30 * j + 31).
Proof.
  intros H1 H2 H3 Hin Hlt. unfold pieces in Hin. apply in_map_iff in Hin. destruct Hin as (i & <- & Hi).
  apply in_map_iff in Hi. destruct Hi as (k & <- & Hk). apply in_seq in Hk.
  destruct (piece_end_boundary td start stop H1 H2 H3 (N.of_nat k) ltac:(lia) Hlt) as [Hm Hge].
  split; [exact Hge|]. apply boundary_splits_no_byte. exact Hm.
Qed.


(** the assumption-free instances: the iterator / PrimeGenerator theorems with the model kernel plugged in *)
From Coq Require Import NArith List Bool Lia.
From PS Require Import Spec.Primes Spec.Cursor Model.Iterator Model.PrimeGen Model.CrossOff
  Proofs.PrimeGenP Proofs.IteratorCor Proofs.KernelListP Proofs.CountAddP.
Import ListNotations.
Local Open Scope N_scope.

Theorem erat_self_erat_spec l1 maxKB : 16 <= maxKB -> maxKB <= 8192 -> erat_spec (erat_self l1 maxKB).
Proof. intros K1 K2 s e H1 H2 H3 _. apply erat_self_spec; [exact K1|exact K2|lia|exact H2|exact H3]. Qed.

(** PrimeGenerator over the model kernel generates exactly the primes of [start, stop] *)
Theorem pg_model_spec l1 maxKB : 16 <= maxKB -> maxKB <= 8192 ->
  forall a b, a <= b -> b <= MAX64 -> pg_primes (erat_self l1 maxKB) a b = primes_between a b.
Proof. intros K1 K2. apply pg_primes_spec. apply erat_self_erat_spec; assumption. Qed.

(** forward / backward iteration over the complete model (iterator + PrimeGenerator + model kernel): no kernel
    hypothesis left *)
Theorem next_calls_model l1 maxKB nextDist prevDist maxGap cut : 16 <= maxKB -> maxKB <= 8192 -> cut_spec cut ->
  forall fuel s h k it' rs,
    s <= MAX64 ->
    run nextDist prevDist maxGap (pg_primes (erat_self l1 maxKB)) cut fuel (fresh_iter s h) (repeat Next k) = Done (it', rs) ->
    let P := primes_between s MAX64 in
    rs = map Val (firstn k P) ++ repeat Err (k - length P).
Proof. intros K1 K2 HC. apply next_calls_spec_pg; [apply erat_self_erat_spec; assumption|exact HC]. Qed.

Theorem prev_calls_model l1 maxKB nextDist prevDist maxGap cut : 16 <= maxKB -> maxKB <= 8192 -> cut_spec cut ->
  forall fuel s h k it' rs,
    s <= MAX64 ->
    run nextDist prevDist maxGap (pg_primes (erat_self l1 maxKB)) cut fuel (fresh_iter s h) (repeat Prev k) = Done (it', rs) ->
    let P := rev (primes_between 0 s) in
    rs = map Val (firstn k P) ++ repeat (Val 0) (k - length P).
Proof. intros K1 K2 HC. apply prev_calls_spec_pg; [apply erat_self_erat_spec; assumption|exact HC]. Qed.

(** PrimeSieve::sieve / count_primes over the model kernel: 2, 3, 5 from the small table, the rest from the kernel on
    [max(start, 7), stop]; the count is exactly pi(stop) - pi(start - 1) *)
Definition sieve_model (l1 maxKB start stop : N) : list N :=
  filter (fun p => (start <=? p) && (p <=? stop)) [2; 3; 5] ++
  (if N.max start 7 <=? stop then erat_self l1 maxKB (N.max start 7) stop else []).

Theorem sieve_model_spec l1 maxKB : 16 <= maxKB -> maxKB <= 8192 ->
  forall start stop, stop <= MAX64 -> sieve_model l1 maxKB start stop = primes_between start stop.
Proof.
  intros K1 K2 start stop Hs. unfold sieve_model. rewrite (Proofs.CountAddP.small_primes_split start stop). f_equal.
  destruct (N.leb_spec (N.max start 7) stop) as [Hle|Hgt].
  - apply erat_self_spec; [exact K1|exact K2|lia|exact Hle|exact Hs].
  - symmetry. apply primes_between_empty. exact Hgt.
Qed.

Theorem count_model_spec l1 maxKB : 16 <= maxKB -> maxKB <= 8192 ->
  forall start stop, stop <= MAX64 ->
  N.of_nat (length (sieve_model l1 maxKB start stop)) = count_primes_spec start stop.
Proof. intros K1 K2 start stop Hs. rewrite (sieve_model_spec l1 maxKB K1 K2 start stop Hs). reflexivity. Qed.

(** nth_prime with every source of primes taken from the model kernel *)
From PS Require Import Model.NthPrime Proofs.NthPrimeP.
From Coq Require Import ZArith.
Definition cnt_model (l1 maxKB a b : N) : N := N.of_nat (length (sieve_model l1 maxKB a b)).
Definition fwd_model (l1 maxKB s k : N) : option N := nth_error (sieve_model l1 maxKB s MAX64) (N.to_nat (k - 1)).
Definition bwd_model (l1 maxKB s k : N) : N := nth (N.to_nat (k - 1)) (rev (sieve_model l1 maxKB 0 s)) 0.

Theorem nth_prime_model l1 maxKB : 16 <= maxKB -> maxKB <= 8192 ->
  forall primePiApprox nthPrimeApprox, (forall x, nthPrimeApprox x <= MAX64) ->
  forall n start, start <= MAX64 -> (Z.abs n <= Z.of_N max_n)%Z ->
  nth_prime primePiApprox nthPrimeApprox (cnt_model l1 maxKB) (fwd_model l1 maxKB) (bwd_model l1 maxKB) n start = of_opt (nth_spec n start).
Proof.
  intros K1 K2 ppa npa Hn n start Hs Habs. apply nth_prime_correct; [exact Hn| | | |exact Hs|exact Habs].
  - intros a b Hb. unfold cnt_model. rewrite (sieve_model_spec l1 maxKB K1 K2 a b Hb). reflexivity.
  - intros s k Hs' Hk. unfold fwd_model. rewrite (sieve_model_spec l1 maxKB K1 K2 s MAX64 (N.le_refl _)). reflexivity.
  - intros s k Hs' Hk. unfold bwd_model. rewrite (sieve_model_spec l1 maxKB K1 K2 0 s Hs'). reflexivity.
Qed.

(** generate_primes / generate_n_primes: the blocks an iterator delivers, taken from the model kernel *)
From PS Require Import Model.Store Proofs.StoreP.
Lemma blocks_of_model l1 maxKB cut start : 16 <= maxKB -> maxKB <= 8192 -> cut_spec cut ->
  blocks_of start (cut (sieve_model l1 maxKB start MAX64)).
Proof.
  intros K1 K2 HC. destruct (HC (sieve_model l1 maxKB start MAX64)) as [Hcat Hne].
  split; [rewrite Hcat; apply sieve_model_spec; [exact K1|exact K2|apply N.le_refl]|exact Hne].
Qed.

Theorem store_primes_model l1 maxKB cut maxV start stop v0 : 16 <= maxKB -> maxKB <= 8192 -> cut_spec cut ->
  largest_prime_hyp -> start <= MAX64 -> stop <= MAX64 ->
  store_primes maxV start stop (cut (sieve_model l1 maxKB start MAX64)) v0 =
    if (start <=? stop) && (start <=? MAXPRIME64) && (maxV <? stop) then SThrow v0
    else SOk (v0 ++ primes_between start stop).
Proof. intros K1 K2 HC HL. apply store_primes_spec; [exact HL|apply blocks_of_model; assumption]. Qed.

(** the assumption-free instances: the iterator / PrimeGenerator theorems with the model kernel plugged in *)
From Coq Require Import NArith List Lia.
From PS Require Import Spec.Primes Spec.Cursor Model.Iterator Model.PrimeGen Model.CrossOff
  Proofs.PrimeGenP Proofs.IteratorCor Proofs.KernelListP.
Import ListNotations.
Local Open Scope N_scope.

Theorem erat_model_erat_spec l1 maxKB : 16 <= maxKB -> maxKB <= 8192 -> erat_spec (erat_model l1 maxKB).
Proof. intros K1 K2 s e H1 H2 H3 _. apply erat_model_spec; [exact K1|exact K2|lia|exact H2|exact H3]. Qed.

(** PrimeGenerator over the model kernel generates exactly the primes of [start, stop] *)
Theorem pg_model_spec l1 maxKB : 16 <= maxKB -> maxKB <= 8192 ->
  forall a b, a <= b -> b <= MAX64 -> pg_primes (erat_model l1 maxKB) a b = primes_between a b.
Proof. intros K1 K2. apply pg_primes_spec. apply erat_model_erat_spec; assumption. Qed.

(** forward / backward iteration over the complete model (iterator + PrimeGenerator + model kernel): no kernel
    hypothesis left *)
Theorem next_calls_model l1 maxKB nextDist prevDist maxGap cut : 16 <= maxKB -> maxKB <= 8192 -> cut_spec cut ->
  forall fuel s h k it' rs,
    s <= MAX64 ->
    run nextDist prevDist maxGap (pg_primes (erat_model l1 maxKB)) cut fuel (fresh_iter s h) (repeat Next k) = Done (it', rs) ->
    let P := primes_between s MAX64 in
    rs = map Val (firstn k P) ++ repeat Err (k - length P).
Proof. intros K1 K2 HC. apply next_calls_spec_pg; [apply erat_model_erat_spec; assumption|exact HC]. Qed.

Theorem prev_calls_model l1 maxKB nextDist prevDist maxGap cut : 16 <= maxKB -> maxKB <= 8192 -> cut_spec cut ->
  forall fuel s h k it' rs,
    s <= MAX64 ->
    run nextDist prevDist maxGap (pg_primes (erat_model l1 maxKB)) cut fuel (fresh_iter s h) (repeat Prev k) = Done (it', rs) ->
    let P := rev (primes_between 0 s) in
    rs = map Val (firstn k P) ++ repeat (Val 0) (k - length P).
Proof. intros K1 K2 HC. apply prev_calls_spec_pg; [apply erat_model_erat_spec; assumption|exact HC]. Qed.

(** L3: the segment theorem of the sieve kernel at the level of the cross-off specification.
    If every prime p with 7 <= p and p*p <= high is a sieving prime whose first crossed-off cofactor q0 is
    coprime to 30, at least p, and minimal for this segment, then a number n of the segment (coprime to 30,
    low + 7 <= n <= high) is NOT crossed off iff it is prime.  Plus: which (byte, mask) pairs the
    specification [spec_cross] of the loop produces. *)
From Coq Require Import NArith ZArith List Bool Lia Znumtheory.
From PS Require Import Spec.Primes Gen.Tables Model.Count Model.CrossOff Proofs.TablesP Proofs.CrossOffP.
Import ListNotations.
Local Open Scope N_scope.
Ltac Zify.zify_post_hook ::= Z.to_euclidean_division_equations.

(** ---- residues coprime to 30 *)
Lemma cop30_mul_sweep : forallb (fun a => forallb (fun b =>
    implb (existsb (N.eqb ((a * b) mod 30)) cop30) (existsb (N.eqb a) cop30 && existsb (N.eqb b) cop30)) (Nseq 30)) (Nseq 30) = true.
Proof. vm_compute. reflexivity. Qed.

Lemma coprime30_mul a b : coprime30 (a * b) -> coprime30 a /\ coprime30 b.
Proof.
  unfold coprime30. intros H. rewrite N.mul_mod in H by lia.
  pose proof cop30_mul_sweep as T. rewrite forallb_forall in T.
  assert (Ha : a mod 30 < N.of_nat 30) by (change (N.of_nat 30) with 30; apply N.mod_lt; lia).
  assert (Hb : b mod 30 < N.of_nat 30) by (change (N.of_nat 30) with 30; apply N.mod_lt; lia).
  specialize (T _ (In_Nseq 30 _ Ha)). rewrite forallb_forall in T. specialize (T _ (In_Nseq 30 _ Hb)).
  apply existsb_eqb_In in H. rewrite H in T. cbn [implb] in T. apply andb_true_iff in T. destruct T as [T1 T2].
  split; apply existsb_eqb_In; assumption.
Qed.

Lemma coprime30_ge7 p : coprime30 p -> 2 <= p -> 7 <= p.
Proof.
  unfold coprime30, cop30. cbn [In]. intros H H2. destruct (N.lt_ge_cases p 7) as [Hlt|]; [|assumption].
  rewrite N.mod_small in H by lia. lia.
Qed.

(** offb / maskof identify a number of the segment *)
Lemma offb_range n : coprime30 n -> 7 <= offb n <= 31 /\ (offb n) mod 30 = n mod 30.
Proof.
  unfold coprime30, cop30, offb. cbn [In]. intros H.
  destruct (N.eqb_spec (n mod 30) 1) as [E|E]; [rewrite E; split; [lia|reflexivity]|].
  assert (n mod 30 < 30) by (apply N.mod_lt; lia). split; [lia|]. apply N.mod_small. lia.
Qed.

Lemma position n low : low mod 30 = 0 -> coprime30 n -> low + 7 <= n -> n = low + 30 * byteof low n + offb n.
Proof.
  intros Hl Hc Hn. destruct (offb_range n Hc) as [Ho Hm]. unfold byteof.
  assert (E : (n - low) mod 30 = n mod 30) by lia.
  assert (Hc' : n mod 30 = 1 \/ 7 <= n mod 30) by (unfold coprime30, cop30 in Hc; cbn [In] in Hc; lia).
  unfold offb in *. destruct (n mod 30 =? 1) eqn:E1; [apply N.eqb_eq in E1|apply N.eqb_neq in E1]; lia.
Qed.

Lemma maskof_inj_sweep : forallb (fun a => forallb (fun b => implb (maskof a =? maskof b) (offb a =? offb b)) cop30) cop30 = true.
Proof. vm_compute. reflexivity. Qed.

Lemma maskof_inj a b : coprime30 a -> coprime30 b -> maskof a = maskof b -> offb a = offb b.
Proof.
  intros Ha Hb H. pose proof maskof_inj_sweep as T. rewrite forallb_forall in T. specialize (T _ Ha).
  rewrite forallb_forall in T. specialize (T _ Hb).
  rewrite (maskof_mod (a mod 30) a), (maskof_mod (b mod 30) b), (offb_mod (a mod 30) a), (offb_mod (b mod 30) b) in T by (apply N.mod_mod; lia).
  rewrite H, N.eqb_refl in T. cbn [implb] in T. apply N.eqb_eq. exact T.
Qed.

Lemma pair_inj low a b : low mod 30 = 0 -> coprime30 a -> coprime30 b -> low + 7 <= a -> low + 7 <= b ->
  byteof low a = byteof low b -> maskof a = maskof b -> a = b.
Proof.
  intros Hl Ha Hb La Lb Eb Em. pose proof (maskof_inj a b Ha Hb Em) as Eo.
  rewrite (position a low Hl Ha La), (position b low Hl Hb Lb). rewrite Eb, Eo. reflexivity.
Qed.

(** ---- number theory: a composite number has a prime factor whose square does not exceed it *)
Lemma small_prime_factor : forall n : Z, (2 <= n)%Z ->
  exists p : Z, Znumtheory.prime p /\ (p | n)%Z /\ (Znumtheory.prime n \/ p * p <= n)%Z.
Proof.
  intros n Hn0. assert (H0 : (0 <= n)%Z) by lia. revert Hn0. pattern n. apply Z_lt_induction; [|exact H0]. clear n H0. intros n IH Hn.
  destruct (prime_dec n) as [Hp|Hnp].
  - exists n. split; [exact Hp|]. split; [apply Z.divide_refl|left; exact Hp].
  - apply not_prime_divide in Hnp; [|lia]. destruct Hnp as (d & [Hd1 Hd2] & (e & He)).
    assert (He1 : (1 < e < n)%Z) by nia.
    destruct (Z.le_gt_cases d e) as [Hle|Hgt].
    + destruct (IH d ltac:(lia) ltac:(lia)) as (p & Hp & Hpd & _).
      exists p. split; [exact Hp|]. split; [apply Z.divide_trans with d; [exact Hpd|exists e; lia]|].
      right. assert (p <= d)%Z by (apply Z.divide_pos_le; [lia|exact Hpd]). pose proof (Znumtheory.prime_ge_2 p Hp). nia.
    + destruct (IH e ltac:(lia) ltac:(lia)) as (p & Hp & Hpe & _).
      exists p. split; [exact Hp|]. split; [apply Z.divide_trans with e; [exact Hpe|exists d; lia]|].
      right. assert (p <= e)%Z by (apply Z.divide_pos_le; [lia|exact Hpe]). pose proof (Znumtheory.prime_ge_2 p Hp). nia.
Qed.

Lemma composite_factor n : 2 <= n -> ~ prime n ->
  exists p q, prime p /\ n = p * q /\ p * p <= n /\ p <= q.
Proof.
  intros Hn Hnp. destruct (small_prime_factor (Z.of_N n) ltac:(lia)) as (p & Hp & (e & He) & Hor).
  destruct Hor as [Habs|Hsq]; [exfalso; apply Hnp; exact Habs|].
  pose proof (Znumtheory.prime_ge_2 p Hp) as Hp2.
  exists (Z.to_N p), (Z.to_N e). unfold prime. rewrite Z2N.id by lia.
  assert (0 <= e)%Z by nia.
  split; [exact Hp|]. split; [lia|]. split; [lia|]. nia.
Qed.

(** ---- the segment theorem at specification level *)
Section Segment.
Variables low size high stop : N.
Hypothesis Hlow : low mod 30 = 0.
(** the sieving primes with their first cofactor in this segment *)
Variable sps : list (N * N).
Hypothesis sps_ok : forall p q0, In (p, q0) sps ->
  prime p /\ 7 <= p /\ coprime30 q0 /\ p <= q0 /\
  (forall q, p <= q -> coprime30 q -> low + 7 <= p * q -> q0 <= q).
(** every prime that may be needed is a sieving prime, unless none of its multiples p*q (q >= p coprime to 30)
    from this segment on lies below stop (then addSievingPrime did not store it) *)
Hypothesis sps_complete : forall p, prime p -> 7 <= p -> p * p <= high ->
  (exists q0, In (p, q0) sps) \/ (forall q, p <= q -> coprime30 q -> low + 7 <= p * q -> stop < p * q).

Definition in_segment (n : N) : Prop := coprime30 n /\ low + 7 <= n /\ byteof low n < size.
Definition crossed (n : N) : Prop :=
  exists p q0 q, In (p, q0) sps /\ q0 <= q /\ coprime30 q /\ n = p * q.

Theorem segment_spec n : in_segment n -> 7 <= n -> n <= high -> n <= stop -> (~ crossed n <-> prime n).
Proof.
  intros (Hc & Hn & Hb) H7 Hnh Hns. split.
  - (* not crossed -> prime *)
    intros Hnc. destruct (prime_dec_N n) as [Hp|Hnp]; [exact Hp|exfalso]. apply Hnc.
    destruct (composite_factor n ltac:(lia) Hnp) as (p & q & Hp & E & Hsq & Hpq).
    assert (Hcp : coprime30 p /\ coprime30 q) by (apply coprime30_mul; rewrite <- E; exact Hc).
    pose proof (prime_ge_2 p Hp) as Hp2. pose proof (coprime30_ge7 p (proj1 Hcp) Hp2) as Hp7.
    destruct (sps_complete p Hp Hp7 ltac:(lia)) as [(q0 & Hin)|Hdead].
    + destruct (sps_ok p q0 Hin) as (_ & _ & _ & _ & Hmin).
      exists p, q0, q. split; [exact Hin|]. split; [apply Hmin; [exact Hpq|exact (proj2 Hcp)|lia]|]. split; [exact (proj2 Hcp)|exact E].
    + exfalso. specialize (Hdead q Hpq (proj2 Hcp) ltac:(lia)). lia.
  - (* prime -> not crossed *)
    intros Hp (p & q0 & q & Hin & Hq & Hcq & E).
    destruct (sps_ok p q0 Hin) as (Hpp & Hp7 & _ & Hpq0 & _).
    assert (Hdiv : (Z.of_N p | Z.of_N n)%Z) by (exists (Z.of_N q); lia).
    destruct (prime_divisors _ Hp _ Hdiv) as [H1|[H1|[H1|H1]]]; nia.
Qed.
End Segment.

(** the same with a lower bound pmin for the sieving primes (pmin = 7: all of them; pmin = 164: the primes above
    the pre-sieve): a number of the segment is crossed off iff it is p*q for a prime p >= pmin and a cofactor q >= p *)
Definition bigfactor (pmin n : N) : Prop :=
  exists p q, prime p /\ pmin <= p /\ p <= q /\ coprime30 q /\ n = p * q.

Section SegmentG.
Variables low size high stop pmin : N.
Hypothesis Hlow : low mod 30 = 0.
Variable sps : list (N * N).
Hypothesis sps_ok : forall p q0, In (p, q0) sps ->
  prime p /\ 7 <= p /\ coprime30 q0 /\ p <= q0 /\
  (forall q, p <= q -> coprime30 q -> low + 7 <= p * q -> q0 <= q).
Hypothesis sps_min : forall p q0, In (p, q0) sps -> pmin <= p.
Hypothesis sps_complete : forall p, prime p -> pmin <= p -> p * p <= high ->
  (exists q0, In (p, q0) sps) \/ (forall q, p <= q -> coprime30 q -> low + 7 <= p * q -> stop < p * q).

Theorem segment_crossed n : low + 7 <= n -> n <= high -> n <= stop -> (crossed sps n <-> bigfactor pmin n).
Proof.
  intros Hn Hnh Hns. split.
  - intros (p & q0 & q & Hin & Hq & Hcq & E). destruct (sps_ok p q0 Hin) as (Hp & _ & _ & Hpq0 & _).
    exists p, q. split; [exact Hp|]. split; [exact (sps_min p q0 Hin)|]. split; [lia|]. split; [exact Hcq|exact E].
  - intros (p & q & Hp & Hpm & Hpq & Hcq & E).
    assert (Hsq : p * p <= high) by (subst n; nia).
    destruct (sps_complete p Hp Hpm Hsq) as [(q0 & Hin)|Hdead].
    + destruct (sps_ok p q0 Hin) as (_ & _ & _ & _ & Hmin).
      exists p, q0, q. split; [exact Hin|]. split; [apply Hmin; [exact Hpq|exact Hcq|lia]|]. split; [exact Hcq|exact E].
    + exfalso. specialize (Hdead q Hpq Hcq ltac:(lia)). lia.
Qed.
End SegmentG.

Lemma bigfactor7_prime n : coprime30 n -> 7 <= n -> (~ bigfactor 7 n <-> prime n).
Proof.
  intros Hc H7. split.
  - intros Hnb. destruct (prime_dec_N n) as [Hp|Hnp]; [exact Hp|exfalso]. apply Hnb.
    destruct (composite_factor n ltac:(lia) Hnp) as (p & q & Hp & E & Hsq & Hpq).
    assert (Hcp : coprime30 p /\ coprime30 q) by (apply coprime30_mul; rewrite <- E; exact Hc).
    pose proof (prime_ge_2 p Hp) as Hp2. pose proof (coprime30_ge7 p (proj1 Hcp) Hp2) as Hp7.
    exists p, q. split; [exact Hp|]. split; [exact Hp7|]. split; [exact Hpq|]. split; [exact (proj2 Hcp)|exact E].
  - intros Hp (p & q & Hpp & Hp7 & Hpq & Hcq & E).
    assert (Hdiv : (Z.of_N p | Z.of_N n)%Z) by (exists (Z.of_N q); lia).
    destruct (prime_divisors _ Hp _ Hdiv) as [H1|[H1|[H1|H1]]]; nia.
Qed.


(** ---- what the loop specification produces *)
Lemma byteof_mono low a b : a <= b -> byteof low a <= byteof low b.
Proof. intros H. unfold byteof. apply N.div_le_mono; lia. Qed.

Lemma spec_cross_mem : forall fuel low size p q l qe,
  0 < p -> coprime30 q ->
  spec_cross fuel low size p q = Some (l, qe) ->
  coprime30 qe /\ q <= qe /\ size <= byteof low (p * qe) /\
  (forall q', q <= q' -> q' < qe -> coprime30 q' -> byteof low (p * q') < size) /\
  (forall b m, In (b, m) l <-> exists q', q <= q' /\ q' < qe /\ coprime30 q' /\ b = byteof low (p * q') /\ m = maskof (p * q')).
Proof.
  induction fuel as [|f IH]; intros low size p q l qe Hp Hq H; cbn [spec_cross] in H; [discriminate|].
  destruct (N.leb_spec size (byteof low (p * q))) as [Hge|Hlt].
  - injection H as <- <-. split; [exact Hq|]. split; [lia|]. split; [exact Hge|]. split; [intros; lia|].
    intros b m. split; [intros []|intros (q' & ? & ? & _); lia].
  - destruct (spec_cross f low size p (nextc q)) as [[l0 qe0]|] eqn:E; [|discriminate]. injection H as <- <-.
    destruct (nextc_spec q Hq) as (Hnc & Hnlt & Hgap).
    destruct (IH _ _ _ _ _ _ Hp Hnc E) as (Hce & Hle & Hsz & Hin & Hmem).
    split; [exact Hce|]. split; [lia|]. split; [exact Hsz|]. split.
    + intros q' H1 H2 H3. destruct (N.lt_ge_cases q' (nextc q)) as [Hlt'|Hge'].
      * destruct (N.eq_dec q' q) as [->|Hne]; [exact Hlt|]. exfalso. apply (Hgap q'); [lia|exact H3].
      * apply Hin; assumption.
    + intros b m. cbn [In]. rewrite Hmem. split.
      * intros [E1|(q' & A & B & C & D1 & D2)].
        -- injection E1 as <- <-. exists q. repeat split; try lia; assumption.
        -- exists q'. repeat split; try lia; assumption.
      * intros (q' & A & B & C & D1 & D2). destruct (N.eq_dec q' q) as [->|Hne].
        -- left. subst. reflexivity.
        -- right. exists q'. repeat split; try assumption.
           destruct (N.lt_ge_cases q' (nextc q)) as [Hlt'|]; [|assumption].
           exfalso. apply (Hgap q'); [lia|exact C].
Qed.

(** ---- the loop level: EratSmall's cross-off of a whole segment *)
Section Kernel.
Variable steps : list (N * N * N).
Hypothesis Hsteps : forallb (entry_ok2 steps) (Nseq 64) = true.

(** a sieving prime's state with its witnesses: (sp, ri, qi, q, i) stands for prime 30*sp + pres8[ri], next
    multiple prime*q at byte i, wheel index 8*ri + qi *)
Definition wstate := (N * N * N * N * N)%type.
Definition w_prime (x : wstate) : N := let '(sp, ri, _, _, _) := x in sprime sp ri.
Definition w_q (x : wstate) : N := let '(_, _, _, q, _) := x in q.
Definition w_state (x : wstate) : N * N * N := let '(sp, ri, qi, _, i) := x in (sp, i, 8 * ri + qi).

Definition w_ok (low : N) (x : wstate) : Prop :=
  let '(sp, ri, qi, q, i) := x in
  Inv low sp ri qi q i /\ prime (sprime sp ri) /\ 7 <= sprime sp ri /\ sprime sp ri <= q /\
  (forall q', sprime sp ri <= q' -> coprime30 q' -> low + 7 <= sprime sp ri * q' -> q <= q').

Lemma inv_coprime low sp ri qi q i : Inv low sp ri qi q i -> coprime30 q.
Proof.
  intros (_ & Hq & Hm & _). unfold coprime30. rewrite Hm.
  assert (T : forallb (fun k => existsb (N.eqb (nthd cop30 k)) cop30) (Nseq 8) = true) by (vm_compute; reflexivity).
  rewrite forallb_forall in T. apply existsb_eqb_In. apply T. apply In_Nseq. exact Hq.
Qed.

Lemma inv_ge low sp ri qi q i : Inv low sp ri qi q i -> low + 7 <= sprime sp ri * q.
Proof. intros HI. pose proof (inv_off steps Hsteps _ _ _ _ _ _ HI) as (_ & _ & Ho). destruct HI as (_ & _ & _ & Hp). lia. Qed.

(** one sieving prime: cleared pairs and the state for the next segment *)
Lemma cross_one fuel low size x cl i' w' : low mod 30 = 0 ->
  w_ok low x -> (let '(sp, i, w) := w_state x in cross fuel steps size sp i w) = Some (cl, i', w') ->
  (forall b m, In (b, m) cl <-> exists q', w_q x <= q' /\ coprime30 q' /\ byteof low (w_prime x * q') < size /\
                                     b = byteof low (w_prime x * q') /\ m = maskof (w_prime x * q')) /\
  exists x', w_ok (low + 30 * size) x' /\ w_prime x' = w_prime x /\ w_state x' = (let '(sp, _, _) := w_state x in sp, i', w').
Proof.
  intros Hl. destruct x as [[[[sp ri] qi] q] i]. cbn [w_ok w_state w_q w_prime]. intros (HI & Hpr & Hp7 & Hpq & Hmin) H.
  destruct (cross_refines steps Hsteps _ _ _ _ _ _ _ _ _ _ _ HI H) as (qe & qie & Hs & HI' & Hw).
  pose proof (inv_coprime _ _ _ _ _ _ HI) as Hcq.
  assert (Hp0 : 0 < sprime sp ri) by lia.
  destruct (spec_cross_mem _ _ _ _ _ _ _ Hp0 Hcq Hs) as (Hce & Hle & Hsz & Hin & Hmem).
  split.
  - intros b m. rewrite Hmem. split.
    + intros (q' & A & B & C & D1 & D2). exists q'. repeat split; try assumption. apply Hin; assumption.
    + intros (q' & A & C & Hb & D1 & D2). exists q'. repeat split; try assumption.
      destruct (N.lt_ge_cases q' qe) as [|Hge]; [assumption|exfalso].
      pose proof (byteof_mono low (sprime sp ri * qe) (sprime sp ri * q') ltac:(nia)). lia.
  - exists (sp, ri, qie, qe, i'). cbn [w_ok w_state w_prime]. split; [|split; [reflexivity|rewrite Hw; reflexivity]].
    split; [exact HI'|]. split; [exact Hpr|]. split; [exact Hp7|]. split; [lia|].
    intros q' Hq' Hc' Hge. destruct (N.lt_ge_cases q' qe) as [Hlt|]; [exfalso|assumption].
    destruct (N.lt_ge_cases q' q) as [Hlq|Hgq].
    + (* below the old first cofactor: the multiple lay below the old segment *)
      destruct (N.lt_ge_cases (sprime sp ri * q') (low + 7)) as [|Hge2]; [lia|]. specialize (Hmin q' Hq' Hc' Hge2). lia.
    + (* inside the old segment *)
      pose proof (Hin q' Hgq Hlt Hc') as Hb. unfold byteof in Hb. lia.
Qed.

Theorem cross_all_spec fuel low size : low mod 30 = 0 -> forall (ws : list wstate) cleared sts',
  Forall (w_ok low) ws ->
  cross_all fuel steps size (map w_state ws) = Some (cleared, sts') ->
  (forall b m, In (b, m) cleared <-> exists x q', In x ws /\ w_q x <= q' /\ coprime30 q' /\ byteof low (w_prime x * q') < size /\
                                          b = byteof low (w_prime x * q') /\ m = maskof (w_prime x * q')) /\
  exists ws', Forall (w_ok (low + 30 * size)) ws' /\ map w_prime ws' = map w_prime ws /\ map w_state ws' = sts'.
Proof.
  intros Hl. induction ws as [|x ws IH]; intros cleared sts' Hok H; cbn [map cross_all] in H.
  - injection H as <- <-. split; [|exists []; repeat split; constructor].
    intros b m. split; [intros []|intros (x & q' & [] & _)].
  - inversion Hok as [|? ? Hx Hws]; subst.
    destruct (w_state x) as [[sp i] w] eqn:Ex.
    destruct (cross fuel steps size sp i w) as [[[cl i'] w']|] eqn:E1; [|discriminate].
    destruct (cross_all fuel steps size (map w_state ws)) as [[cls r']|] eqn:E2; [|discriminate].
    injection H as <- <-.
    assert (E1' : (let '(sp, i, w) := w_state x in cross fuel steps size sp i w) = Some (cl, i', w')) by (rewrite Ex; exact E1).
    destruct (cross_one fuel low size x cl i' w' Hl Hx E1') as (Hm1 & x' & Hx' & Hp' & Hs').
    destruct (IH cls r' Hws eq_refl) as (Hm2 & ws' & Hws' & Hps & Hss).
    split.
    + intros b m. rewrite in_app_iff, Hm1, Hm2. split.
      * intros [(q' & A)|(y & q' & Hy & A)]; [exists x, q'; split; [left; reflexivity|exact A]|exists y, q'; split; [right; exact Hy|exact A]].
      * intros (y & q' & [<-|Hy] & A); [left; exists q'; exact A|right; exists y, q'; split; [exact Hy|exact A]].
    + exists (x' :: ws'). split; [constructor; assumption|]. cbn [map]. rewrite Hp', Hps, Hs', Hss, Ex. split; reflexivity.
Qed.

(** the kernel theorem for one segment: after crossing off with every prime 7 <= p, p*p <= high as a sieving
    prime in a correct, minimal state, the bit of a number of the segment is still set iff the number is prime *)
Theorem kernel_segment_g fuel low size high stop pmin (ws : list wstate) cleared sts' :
  low mod 30 = 0 ->
  Forall (w_ok low) ws -> (forall x, In x ws -> pmin <= w_prime x) ->
  (forall p, prime p -> pmin <= p -> p * p <= high ->
     In p (map w_prime ws) \/ (forall q, p <= q -> coprime30 q -> low + 7 <= p * q -> stop < p * q)) ->
  cross_all fuel steps size (map w_state ws) = Some (cleared, sts') ->
  forall n, coprime30 n -> low + 7 <= n -> byteof low n < size -> n <= high -> n <= stop ->
  (In (byteof low n, maskof n) cleared <-> bigfactor pmin n).
Proof.
  intros Hl Hok Hmin_ws Hcomplete H n Hc Hn Hb Hnh Hns.
  destruct (cross_all_spec fuel low size Hl ws cleared sts' Hok H) as (Hmem & _).
  set (sps := map (fun x => (w_prime x, w_q x)) ws).
  assert (sps_ok : forall p q0, In (p, q0) sps -> prime p /\ 7 <= p /\ coprime30 q0 /\ p <= q0 /\
            (forall q, p <= q -> coprime30 q -> low + 7 <= p * q -> q0 <= q)).
  { intros p q0 Hin. apply in_map_iff in Hin. destruct Hin as (x & E & Hx). rewrite Forall_forall in Hok. specialize (Hok x Hx).
    destruct x as [[[[sp ri] qi] q] i]. cbn [w_prime w_q] in E. injection E as <- <-. cbn [w_ok] in Hok.
    destruct Hok as (HI & Hpr & Hp7 & Hpq & Hmin).
    split; [exact Hpr|split; [exact Hp7|split; [exact (inv_coprime _ _ _ _ _ _ HI)|split; [exact Hpq|exact Hmin]]]]. }
  assert (sps_min : forall p q0, In (p, q0) sps -> pmin <= p).
  { intros p q0 Hin. apply in_map_iff in Hin. destruct Hin as (x & E & Hx). injection E as <- _. apply Hmin_ws. exact Hx. }
  assert (sps_complete : forall p, prime p -> pmin <= p -> p * p <= high ->
            (exists q0, In (p, q0) sps) \/ (forall q, p <= q -> coprime30 q -> low + 7 <= p * q -> stop < p * q)).
  { intros p Hp Hp7 Hsq. destruct (Hcomplete p Hp Hp7 Hsq) as [Hin|Hdead]; [left|right; exact Hdead].
    apply in_map_iff in Hin. destruct Hin as (x & E & Hx).
    exists (w_q x). apply in_map_iff. exists x. split; [rewrite E; reflexivity|exact Hx]. }
  rewrite <- (segment_crossed low high stop pmin Hl sps sps_ok sps_min sps_complete n Hn Hnh Hns).
  assert (Hiff : In (byteof low n, maskof n) cleared <-> crossed sps n).
  { rewrite Hmem. split.
    - intros (x & q' & Hx & A & C & Hb' & D1 & D2). exists (w_prime x), (w_q x), q'.
      split; [apply in_map_iff; exists x; split; [reflexivity|exact Hx]|]. split; [exact A|]. split; [exact C|].
      rewrite Forall_forall in Hok. specialize (Hok x Hx). destruct x as [[[[sp ri] qi] q] i]. cbn [w_prime w_q w_ok] in *.
      destruct Hok as (HI & Hpr & Hp7 & Hpq & Hmin). pose proof (inv_ge _ _ _ _ _ _ HI) as Hge.
      assert (Hc' : coprime30 (sprime sp ri * q')).
      { unfold coprime30. rewrite N.mul_mod by lia.
        pose proof (inv_coprime _ _ _ _ _ _ HI) as Hcq.
        (* the prime is coprime to 30 because its multiple prime*q is a number of the segment *)
        pose proof (inv_off steps Hsteps _ _ _ _ _ _ HI) as (_ & _ & Ho).
        assert (T : forallb (fun a => forallb (fun b => implb (existsb (N.eqb a) cop30 && existsb (N.eqb b) cop30) (existsb (N.eqb ((a * b) mod 30)) cop30)) (Nseq 30)) (Nseq 30) = true) by (vm_compute; reflexivity).
        rewrite forallb_forall in T.
        assert (Ha : sprime sp ri mod 30 < N.of_nat 30) by (change (N.of_nat 30) with 30; apply N.mod_lt; lia).
        assert (Hb2 : q' mod 30 < N.of_nat 30) by (change (N.of_nat 30) with 30; apply N.mod_lt; lia).
        specialize (T _ (In_Nseq 30 _ Ha)). rewrite forallb_forall in T. specialize (T _ (In_Nseq 30 _ Hb2)).
        assert (Hcp : coprime30 (sprime sp ri)).
        { destruct HI as (Hr & _). unfold coprime30, sprime. rewrite N.add_comm, N.mul_comm, N.mod_add by lia.
          assert (T2 : forallb (fun k => existsb (N.eqb (nthd pres8 k mod 30)) cop30) (Nseq 8) = true) by (vm_compute; reflexivity).
          rewrite forallb_forall in T2. apply existsb_eqb_In. apply T2. apply In_Nseq. exact Hr. }
        apply existsb_eqb_In in Hcp. apply existsb_eqb_In in C. rewrite Hcp, C in T. cbn [andb implb] in T. apply existsb_eqb_In. exact T. }
      symmetry. apply (pair_inj low _ _ Hl Hc' Hc); [nia|exact Hn|congruence|congruence].
    - intros (p & q0 & q' & Hin & A & C & E). apply in_map_iff in Hin. destruct Hin as (x & Ex & Hx). injection Ex as <- <-.
      exists x, q'. subst n. repeat split; assumption. }
  exact Hiff.
Qed.

Theorem kernel_segment fuel low size high stop (ws : list wstate) cleared sts' :
  low mod 30 = 0 ->
  Forall (w_ok low) ws ->
  (forall p, prime p -> 7 <= p -> p * p <= high ->
     In p (map w_prime ws) \/ (forall q, p <= q -> coprime30 q -> low + 7 <= p * q -> stop < p * q)) ->
  cross_all fuel steps size (map w_state ws) = Some (cleared, sts') ->
  forall n, coprime30 n -> low + 7 <= n -> byteof low n < size -> 7 <= n -> n <= high -> n <= stop ->
  (~ In (byteof low n, maskof n) cleared <-> prime n).
Proof.
  intros Hl Hok Hcomplete H n Hc Hn Hb H7 Hnh Hns.
  assert (Hmin_ws : forall x, In x ws -> 7 <= w_prime x).
  { intros x Hx. rewrite Forall_forall in Hok. specialize (Hok x Hx). destruct x as [[[[sp ri] qi] q] i]. cbn [w_ok w_prime] in *. tauto. }
  rewrite (kernel_segment_g fuel low size high stop 7 ws cleared sts' Hl Hok Hmin_ws Hcomplete H n Hc Hn Hb Hnh Hns).
  apply bigfactor7_prime; assumption.
Qed.
End Kernel.

(** C14: frame theorem - the outputs object j sees in any interleaving with other objects are
    the outputs of its own operations run alone. *)
From Coq Require Import List Arith Lia.
From PS Require Import Model.Frame.
Import ListNotations.

Section FrameP.
  Variables (St Op Rs : Type).
  Variable stepf : St -> Op -> St * Rs.
  Notation run_multi := (run_multi St Op Rs stepf).
  Notation run_solo := (run_solo St Op Rs stepf).

  Lemma nth_error_upd_same j x (l : list St) : j < length l -> nth_error (upd_nth St j x l) j = Some x.
  Proof. revert j. induction l as [|y l IH]; intros [|j] H; cbn in *; try lia; [reflexivity|]. apply IH. lia. Qed.

  Lemma nth_error_upd_other j k x (l : list St) : j <> k -> nth_error (upd_nth St j x l) k = nth_error l k.
  Proof.
    revert j k. induction l as [|y l IH]; intros [|j] [|k] H; cbn; try reflexivity; try congruence.
    apply IH. congruence.
  Qed.

  Theorem interleave_frame : forall ops sts j s,
    nth_error sts j = Some s ->
    proj_out Rs j (snd (run_multi sts ops)) = snd (run_solo s (proj_ops Op j ops)) /\
    nth_error (fst (run_multi sts ops)) j = Some (fst (run_solo s (proj_ops Op j ops))).
  Proof.
    induction ops as [|[k o] ops IH]; intros sts j s Hj; cbn [Frame.run_multi Frame.run_solo proj_ops proj_out filter map fst snd].
    - split; [reflexivity|exact Hj].
    - destruct (nth_error sts k) as [sk|] eqn:Ek.
      + destruct (stepf sk o) as [s' r] eqn:Est.
        destruct (Nat.eqb_spec k j) as [->|Hne].
        * rewrite Hj in Ek. injection Ek as <-.
          assert (Hlen : j < length sts) by (apply nth_error_Some; congruence).
          specialize (IH (upd_nth St j s' sts) j s' (nth_error_upd_same j s' sts Hlen)).
          destruct (run_multi (upd_nth St j s' sts) ops) as [fin rs] eqn:Er.
          cbn [fst snd proj_out filter map Nat.eqb]. rewrite Nat.eqb_refl. cbn [map snd Frame.run_solo].
          rewrite Est. destruct (run_solo s' _) as [fin' rs'] eqn:Es. cbn [fst snd] in *.
          destruct IH as [I1 I2]. split; [f_equal; exact I1|exact I2].
        * specialize (IH (upd_nth St k s' sts) j s). rewrite nth_error_upd_other in IH by exact Hne. specialize (IH Hj).
          destruct (run_multi (upd_nth St k s' sts) ops) as [fin rs] eqn:Er.
          cbn [fst snd proj_out filter map]. destruct (Nat.eqb_spec k j); [congruence|]. exact IH.
      + destruct (Nat.eqb_spec k j) as [->|Hne]; [congruence|]. apply IH. exact Hj.
  Qed.
End FrameP.

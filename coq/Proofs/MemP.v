(** C17: a forward iterator's buffer never exceeds 1024 primes; C12: whenever the sieve is going to
    run, the buffer has at least 64 free slots beyond the table primes (the slack the fill loop needs),
    and a round of the fill loop that is allowed to start cannot write past the buffer. *)
From Coq Require Import NArith List Bool Lia.
From PS Require Import Spec.Primes Gen.Tables Model.Pmath Model.PrimeGen Model.Mem Proofs.PmathP Proofs.TablesP.
Local Open Scope N_scope.

Lemma size_le_128 start stop : getStopIdx stop - getStartIdx start <= 128.
Proof.
  unfold getStopIdx. rewrite maxCachedPrime_ok.
  destruct (N.ltb_spec stop 719) as [H|H].
  - rewrite primePi_ok by lia.
    assert (count_primes_spec 0 stop <= 128).
    { replace 128 with (count_primes_spec 0 719) by (vm_compute; reflexivity).
      unfold count_primes_spec. rewrite (primes_between_split 0 stop 719) by lia. rewrite app_length.
      generalize (length (primes_between 0 stop)) (length (primes_between (stop + 1) 719)). intros; lia. }
    lia.
  - rewrite smallPrimes_length. change (N.of_nat 128) with 128. generalize (getStartIdx start). intros; lia.
Qed.

Theorem next_buffer_bounds pcu start stop :
  let '(cap, size) := next_buffer pcu start stop in
  cap <= 1024 /\ size <= cap /\
  (* the sieve runs iff max(start, 721) <= stop: then 64 slots are free *)
  (maxCachedPrime + 2 <= stop -> size + 64 <= cap).
Proof.
  unfold next_buffer, next_max_size. pose proof (size_le_128 start stop) as Hs.
  destruct (N.leb_spec start maxCachedPrime).
  - destruct (N.ltb_spec stop (maxCachedPrime + 2)).
    + split; [lia|]. split; [lia|]. lia.
    + unfold inBetween. destruct (N.ltb_spec (pcu + 64) (getStopIdx stop - getStartIdx start + 64)); [lia|].
      destruct (N.ltb_spec 1024 (pcu + 64)); lia.
  - unfold inBetween. destruct (N.ltb_spec (pcu + 64) 64); [lia|]. destruct (N.ltb_spec 1024 (pcu + 64)); lia.
Qed.

(** a fill round that may start at index i (i <= cap - 64, cap >= 64) writes only indices < cap *)
Theorem fill_round_in_bounds i cap : 64 <= cap -> fill_may_continue i cap = true -> i + 63 < cap.
Proof. unfold fill_may_continue. intros H1 H2. apply N.leb_le in H2. lia. Qed.

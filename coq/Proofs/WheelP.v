(** L2 / C10: table lemmas for the wheel-init tables and the no-wrap theorem of addSievingPrime. *)
From Coq Require Import NArith ZArith List Bool Lia.
From PS Require Import Spec.Primes Gen.Tables Model.Wheel Proofs.TablesP Proofs.PmathP.
Import ListNotations.
Local Open Scope N_scope.

(** wheel30Init[q] / wheel210Init[q] = (least f >= 0 with gcd(q + f, M) = 1, rank of (q + f) among the
    residues coprime to M) *)
Fixpoint least_coprime (fuel : nat) (modulo q : N) : N :=
  match fuel with O => 0 | S f => if coprime_to modulo q then 0 else 1 + least_coprime f modulo (q + 1) end.
Definition rank_coprime (modulo r : N) : N :=
  N.of_nat (length (filter (fun x => coprime_to modulo x) (Nseq (N.to_nat r)))).
Definition init_entry_ok (modulo : N) (init : list (N * N)) (q : N) : bool :=
  let e := nth (N.to_nat q) init (0, 0) in
  let f := least_coprime 12 modulo q in
  (fst e =? f) && (snd e =? rank_coprime modulo ((q + f) mod modulo)).

Lemma wheel30Init_ok : length wheel30Init = 30%nat /\ forallb (init_entry_ok 30 wheel30Init) (Nseq 30) = true.
Proof. vm_compute. split; reflexivity. Qed.
Lemma wheel210Init_ok : length wheel210Init = 210%nat /\ forallb (init_entry_ok 210 wheel210Init) (Nseq 210) = true.
Proof. vm_compute. split; reflexivity. Qed.

(** the next-multiple factors are small: the products prime * factor cannot wrap for prime < 2^32 *)
Lemma init_factor_bounds :
  forallb (fun e => fst e <=? 6) wheel30Init = true /\ forallb (fun e => fst e <=? 10) wheel210Init = true /\
  wheel30_maxfactor = 6 /\ wheel210_maxfactor = 10 /\ wheel30_modulo = 30 /\ wheel210_modulo = 210.
Proof. vm_compute. repeat split; reflexivity. Qed.

Lemma nth_factor_le (init : list (N * N)) b i :
  forallb (fun e => fst e <=? b) init = true -> fst (nth i init (0, 0)) <= b.
Proof.
  intros H. rewrite forallb_forall in H. destruct (Nat.lt_ge_cases i (length init)) as [Hi|Hi].
  - apply N.leb_le. apply H. apply nth_In. exact Hi.
  - rewrite nth_overflow by exact Hi. cbn. lia.
Qed.

Ltac Zify.zify_post_hook ::= Z.to_euclidean_division_equations.

Lemma wrap64_small x : x < U64 -> wrap64 x = x.
Proof. intros H. unfold wrap64. apply N.mod_small. exact H. Qed.

(** C10: for a sieving prime < 2^32 (all sieving primes are <= sqrt(2^64)) the modular products are
    either exact or rejected by the guards: whenever addSievingPrime stores a multiple, that multiple
    is the true product prime * (quotient + factor), it lies in (segmentLow + 6, stop], and the stored
    index is its byte distance from the segment base *)
Theorem addSievingPrime_no_wrap modulo init offsets bound stop prime segmentLow mi wi :
  forallb (fun e => fst e <=? bound) init = true -> bound <= 10 ->
  1 <= prime -> prime < 2 ^ 32 -> stop <= MAX64 -> segmentLow + 6 <= MAX64 ->
  addSievingPrime modulo init offsets stop prime segmentLow = Some (mi, wi) ->
  let quotient := N.max prime ((segmentLow + 6) / prime + 1) in
  let f := fst (nth (N.to_nat (quotient mod modulo)) init (0, 0)) in
  let m := prime * (quotient + f) in
  segmentLow + 6 < m /\ m <= stop /\ mi = (m - (segmentLow + 6)) / 30 /\ prime <= quotient.
Proof.
  intros Hb Hb10 Hp1 Hp32 Hstop Hlow H. cbn zeta.
  unfold addSievingPrime in H.
  assert (Hsl : segmentLow + 6 < U64) by (clear - Hlow; unfold U64, MAX64 in *; lia).
  rewrite (wrap64_small (segmentLow + 6)) in H by exact Hsl.
  set (sl := segmentLow + 6) in *.
  set (q := N.max prime (sl / prime + 1)) in *.
  pose proof (nth_factor_le init bound (N.to_nat (q mod modulo)) Hb) as Hf.
  set (f := fst (nth (N.to_nat (q mod modulo)) init (0, 0))) in *.
  change (2 ^ 32) with 4294967296 in Hp32.
  assert (Hq : prime <= q) by (subst q; lia).
  assert (Hdm : sl < prime * (sl / prime + 1) /\ prime * (sl / prime) <= sl).
  { pose proof (N.div_mod sl prime ltac:(lia)) as E. pose proof (N.mod_lt sl prime ltac:(lia)) as L.
    generalize dependent (sl / prime). generalize dependent (sl mod prime). intros; nia. }
  assert (Hprod : sl < prime * q).
  { subst q. destruct (N.max_spec prime (sl / prime + 1)) as [[Hm ->]|[Hm ->]]; [lia|].
    generalize dependent (sl / prime). intros; nia. }
  (* the product is below 2^64 + 2^32; if it wrapped, the wrapped value is < 2^32 <= segmentLow and is rejected *)
  assert (Hpq : prime * q < U64 + 4294967296).
  { subst q. destruct (N.max_spec prime (sl / prime + 1)) as [[_ ->]|[_ ->]].
    - generalize dependent (sl / prime). intros. unfold U64, MAX64 in *. nia.
    - unfold U64. nia. }
  destruct (N.lt_ge_cases (prime * q) U64) as [Hnw|Hw].
  - rewrite (wrap64_small (prime * q)) in H by exact Hnw.
    destruct (N.ltb_spec stop (prime * q)); [discriminate|]. destruct (N.ltb_spec (prime * q) sl); [lia|]. cbn [orb] in H.
    assert (Hnm : prime * f < U64) by (u64; nia).
    rewrite (wrap64_small (prime * f)) in H by exact Hnm.
    destruct (N.ltb_spec (stop - prime * q) (prime * f)); [discriminate|].
    rewrite (wrap64_small (prime * q + prime * f)) in H by (u64; lia).
    injection H as <- <-. replace (prime * (q + f)) with (prime * q + prime * f) by lia.
    repeat split; try lia.
  - exfalso. assert (Hwv : wrap64 (prime * q) = prime * q - U64) by (unfold wrap64; u64; lia).
    rewrite Hwv in H.
    assert (sl >= 4294967296).
    { subst q. destruct (N.max_spec prime (sl / prime + 1)) as [[_ E]|[_ E]]; rewrite E in *; u64; nia. }
    destruct (N.ltb_spec (prime * q - U64) sl) as [_|Hc]; [|u64; lia].
    rewrite orb_true_r in H. discriminate.
Qed.

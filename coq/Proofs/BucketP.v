(** L2: the packing of SievingPrime is lossless exactly on the asserted ranges, and every multiple index the three
    cross-off algorithms store lies in that range, for every configuration:
    - EratBig stores index mod sieveSize, sieveSize <= 2^23;
    - EratSmall / EratMedium store what the wheel-30 loop leaves: at most 6 * sievingPrime + 6 ([cross_index_bound]), and
      sievingPrime = prime / 30 <= maxEratMedium_ / 30 with maxEratMedium_ <= 3 * 8 MiB ([medium_index_fits]);
    - wheel indices are below 64 resp. 384 <= 2^9. *)
From Coq Require Import NArith ZArith List Bool Lia.
From PS Require Import Spec.Primes Gen.Tables Model.Pmath Model.Count Model.Config Model.CrossOff Model.BucketM Proofs.TablesP Proofs.CrossOffP.
Import ListNotations.
Local Open Scope N_scope.
Ltac Zify.zify_post_hook ::= Z.to_euclidean_division_equations.

Lemma lor_disjoint mi wi : mi < 2 ^ 23 -> N.lor mi (N.shiftl wi 23) = mi + wi * 2 ^ 23.
Proof.
  intros Hmi. rewrite N.shiftl_mul_pow2.
  assert (Hl : N.land mi (wi * 2 ^ 23) = 0).
  { apply N.bits_inj. intros n. rewrite N.land_spec, N.bits_0.
    destruct (N.lt_ge_cases n 23) as [Hn|Hn].
    - rewrite (N.mul_pow2_bits_low wi 23 n Hn). apply andb_false_r.
    - assert (Hb : N.testbit mi n = false).
      { destruct (N.eq_dec mi 0) as [->|Hne]; [apply N.bits_0|]. apply N.bits_above_log2.
        apply N.lt_le_trans with 23; [apply N.log2_lt_pow2; lia|exact Hn]. }
      rewrite Hb. reflexivity. }
  rewrite <- N.lxor_lor by exact Hl. symmetry. apply N.add_nocarry_lxor. exact Hl.
Qed.

Theorem pack_roundtrip mi wi : mi <= MAX_MULTIPLEINDEX -> wi <= MAX_WHEELINDEX ->
  sp_mi (sp_pack mi wi) = mi /\ sp_wi (sp_pack mi wi) = wi.
Proof.
  unfold sp_mi, sp_wi, sp_pack, MAX_MULTIPLEINDEX, MAX_WHEELINDEX, sp_index_bits. change (32 - 23) with 9.
  assert (E1 : 2 ^ 23 - 1 = N.ones 23) by (vm_compute; reflexivity).
  assert (E2 : 2 ^ 23 = 8388608) by (vm_compute; reflexivity).
  assert (E3 : 2 ^ 32 = 4294967296) by (vm_compute; reflexivity).
  assert (E4 : 2 ^ 9 - 1 = 511) by (vm_compute; reflexivity).
  intros Hmi Hwi. rewrite lor_disjoint by (rewrite E2; rewrite E1 in Hmi; change (N.ones 23) with 8388607 in Hmi; lia).
  rewrite E1, N.land_ones, N.shiftr_div_pow2. rewrite E1 in Hmi. change (N.ones 23) with 8388607 in Hmi.
  rewrite E4 in Hwi. rewrite E2, E3. lia.
Qed.

(** an index above the range loses its top bits (what the ASSERTs exclude) *)
Example pack_truncates : sp_mi (sp_pack (2 ^ 23 + 5) 3) = 5.
Proof. vm_compute. reflexivity. Qed.

(** ---- the wheel-30 loop leaves an index of at most 6 * sievingPrime + 6 *)
Definition step_small (steps : list (N * N * N)) (w : N) : bool := let '(mask, a, b) := step_of steps w in (a <=? 6) && (b <=? 6).
Lemma eratSmallSteps_small : forallb (step_small eratSmallSteps) (Nseq 64) = true.
Proof. vm_compute. reflexivity. Qed.
Lemma eratMediumSteps_small : forallb (step_small eratMediumSteps) (Nseq 64) = true.
Proof. vm_compute. reflexivity. Qed.

Section Bound.
Variable steps : list (N * N * N).
Hypothesis Hsmall : forallb (step_small steps) (Nseq 64) = true.

Lemma step_le6 w : w < 64 -> let '(mask, a, b) := step_of steps w in a <= 6 /\ b <= 6.
Proof.
  intros Hw. pose proof Hsmall as T. rewrite forallb_forall in T. specialize (T w (In_Nseq 64 _ Hw)). unfold step_small in T.
  destruct (step_of steps w) as [[mask a] b]. apply andb_true_iff in T. destruct T as [T1 T2]. apply N.leb_le in T1, T2. split; assumption.
Qed.

(** whatever the loop starts from within one step beyond the segment, it stores at most 6 * sp + 6 *)
Theorem cross_index_bound : forall fuel size sp i w cl i' w',
  w < 64 -> i <= size + (6 * sp + 6) -> cross fuel steps size sp i w = Some (cl, i', w') -> i' <= 6 * sp + 6 /\ w' < 64.
Proof.
  induction fuel as [|f IH]; intros size sp i w cl i' w' Hw Hi H; cbn [cross] in H; [discriminate|].
  destruct (N.leb_spec size i) as [Hge|Hlt].
  - injection H as _ <- <-. split; [lia|exact Hw].
  - pose proof (step_le6 w Hw) as B. destruct (step_of steps w) as [[mask a] b]. destruct B as (Ha & Hb).
    destruct (cross f steps size sp (i + sp * a + b) (next_w w)) as [[[cl0 i0] w0]|] eqn:E; [|discriminate].
    injection H as _ <- <-. eapply IH; [| |exact E]; [unfold next_w; lia|].
    assert (sp * a <= sp * 6) by (apply N.mul_le_mono_l; exact Ha). lia.
Qed.
End Bound.

(** ---- for every configuration, 6 * (maxEratMedium_ / 30) + 6 fits into the 23 index bits (the ASSERT of EratMedium::init),
    so every index EratSmall / EratMedium store is packed without loss *)
Lemma floorPow2_le x : floorPow2 x <= x.
Proof.
  unfold floorPow2. destruct (N.eqb_spec x 0) as [->|Hne]; [lia|]. apply N.log2_spec. lia.
Qed.

Lemma ceil8_le x m : x <= m -> m mod 8 = 0 -> ceil8 x <= m.
Proof. unfold ceil8, ceilDiv. intros H Hm. lia. Qed.

Lemma inBetween_hi lo x hi : lo <= hi -> inBetween lo x hi <= hi.
Proof. unfold inBetween. intros H. destruct (N.ltb_spec x lo); [lia|]. destruct (N.ltb_spec hi x); lia. Qed.

Theorem medium_index_fits l1 maxKB start stop :
  6 * (a_maxMedium (initAlgorithms l1 maxKB start stop) / 30) + 6 <= MAX_MULTIPLEINDEX.
Proof.
  unfold initAlgorithms. cbv zeta. cbn [a_maxMedium].
  set (sq := N.sqrt stop).
  set (s0 := ceil8 (inBetween (16 * 1024) _ (8192 * 1024))).
  assert (Hs0 : s0 <= 8192 * 1024).
  { subst s0. apply ceil8_le; [|reflexivity]. apply inBetween_hi. lia. }
  set (mm0 := s0 * cfg_FACTOR_ERATMEDIUM_num / cfg_FACTOR_ERATMEDIUM_den) in *.
  set (s1 := if mm0 <? sq then floorPow2 s0 else s0).
  assert (Hs1 : s1 <= 8192 * 1024) by (subst s1; destruct (mm0 <? sq); [pose proof (floorPow2_le s0); lia|exact Hs0]).
  set (mm1 := if mm0 <? sq then s1 * cfg_FACTOR_ERATMEDIUM_num / cfg_FACTOR_ERATMEDIUM_den else mm0).
  assert (Hmm : mm1 <= 3 * (8192 * 1024)).
  { subst mm1 mm0. unfold cfg_FACTOR_ERATMEDIUM_num, cfg_FACTOR_ERATMEDIUM_den. destruct (_ <? sq); lia. }
  unfold MAX_MULTIPLEINDEX, sp_index_bits. change (2 ^ 23 - 1) with 8388607.
  assert (N.min mm1 sq <= 3 * (8192 * 1024)) by lia.
  clearbody mm1. lia.
Qed.

(** L3: termination of the three-algorithm segment loop: with enough fuel (linear in the largest segment and in the number
    of sieving primes times EratBig's sieve size) [sieve_loop3] returns a result - no per-prime loop runs forever, EratBig's
    crossOff terminates, and no store leaves buckets_ ([None] of the models) - for every configuration and interval.  So
    the theorems about its results (Erat3LoopP / Erat3TopP) are not vacuous for any input. *)
From Coq Require Import NArith ZArith List Bool Lia Permutation Sorted.
From PS Require Import Spec.Primes Gen.Tables Model.Count Model.Wheel Model.CrossOff Model.EratMediumM Model.EratBigM Model.Erat3M
  Proofs.TablesP Proofs.CrossOffP Proofs.KernelP Proofs.KernelLoopP Proofs.KernelTotalP
  Proofs.EratBigP Proofs.EratBigSegP Proofs.EratMediumP Proofs.Erat3SegP Proofs.Erat3LoopP.
Import ListNotations.
Local Open Scope N_scope.

Definition biglen (log2 : N) (s : e3) : nat := length (abs_of log2 (e_big s)).

Lemma mu_le log2 b : mu log2 b <= N.of_nat (length (abs_of log2 b)) * EratBigP.size log2.
Proof.
  destruct b as [|l r]; [apply N.le_0_l|]. unfold abs_of. cbn [abs_from mu]. rewrite app_length, map_length.
  assert (H : fold_right (fun (e : entry) acc => let '(_, i, _) := e in EratBigP.size log2 - i + acc) 0 l <= N.of_nat (length l) * EratBigP.size log2).
  { induction l as [|[[sp i] w] l IH]; cbn [fold_right length]; [lia|]. rewrite Nat2N.inj_succ, N.mul_succ_l. lia. }
  rewrite Nat2N.inj_add, N.mul_add_distr_r. eapply N.le_trans; [exact H|]. apply N.le_add_r.
Qed.

Lemma eb_store_len log2 b p mi wi b' : eb_store log2 b p mi wi = Some b' -> length (abs_of log2 b') = S (length (abs_of log2 b)).
Proof.
  unfold eb_store. intros H. pose proof (push_at_abs log2 _ _ _ _ 0 H) as P. apply Permutation_length in P.
  unfold abs_of. rewrite P. cbn [length]. rewrite grow_abs. reflexivity.
Qed.

Lemma add_prime3_biglen stop low maxSmall maxMedium log2 s p s1 :
  add_prime3 stop low maxSmall maxMedium log2 s p = Some s1 -> (biglen log2 s1 <= S (biglen log2 s))%nat.
Proof.
  unfold add_prime3, biglen. intros H. destruct (maxMedium <? p).
  - destruct (addSievingPrime210 stop p low) as [[mi wi]|]; [|injection H as <-; lia].
    destruct (eb_store log2 (e_big s) p mi wi) as [b'|] eqn:E; [|discriminate]. injection H as <-. cbn [e_big].
    rewrite (eb_store_len _ _ _ _ _ _ E). lia.
  - destruct (maxSmall <? p).
    + destruct (addSievingPrime30 stop p low) as [[mi wi]|]; [|injection H as <-; lia].
      destruct (em_store (e_med s) p mi wi); [|discriminate]. injection H as <-. cbn [e_big]. lia.
    + destruct (addSievingPrime30 stop p low) as [[mi wi]|]; injection H as <-; cbn [e_big]; lia.
Qed.

Lemma add_primes3_biglen stop low maxSmall maxMedium log2 : forall ps s s1,
  add_primes3 stop low maxSmall maxMedium log2 s ps = Some s1 -> (biglen log2 s1 <= biglen log2 s + length ps)%nat.
Proof.
  induction ps as [|p r IH]; intros s s1 H; cbn [add_primes3] in H; [injection H as <-; cbn; lia|].
  destruct (add_prime3 stop low maxSmall maxMedium log2 s p) as [s0|] eqn:E; [|discriminate].
  pose proof (add_prime3_biglen _ _ _ _ _ _ _ _ E). specialize (IH _ _ H). cbn [length]. lia.
Qed.

Section Total3.
Variables (stop maxSmall maxMedium log2 pmin : N).
Hypothesis Hstop : stop <= MAX64.
Hypothesis Hpmin : 31 <= pmin.
Variable fuel : nat.
Hypothesis H1 : (1 <= fuel)%nat.

Lemma add_primes3_total low : low mod 30 = 0 -> low + 6 <= MAX64 -> forall ps s w, st_ok log2 low s w -> Forall (sp_ok3 stop pmin) ps ->
  (forall p, In p ps -> maxMedium < p -> p * p <= low + 30 * EratBigP.size log2 + 6) ->
  exists s1, add_primes3 stop low maxSmall maxMedium log2 s ps = Some s1.
Proof.
  intros Hl Hl6. induction ps as [|p r IH]; intros s w Hst Hps Hbig; cbn [add_primes3]; [eexists; reflexivity|].
  inversion Hps as [|? ? Hp Hr]; subst.
  destruct (add_prime3_total stop maxSmall maxMedium log2 pmin Hstop Hpmin low s w p Hl Hl6 Hst Hp (Hbig p (or_introl eq_refl))) as (s0 & E).
  rewrite E.
  destruct (add_prime3_ok stop maxSmall maxMedium log2 pmin Hstop Hpmin low s w p s0 Hl Hl6 Hst Hp (Hbig p (or_introl eq_refl)) E) as (w0 & Hst0 & _).
  exact (IH s0 w0 Hst0 Hr (fun p' Hp' => Hbig p' (or_intror Hp'))).
Qed.

Lemma em_cross_total low size b ws : low mod 30 = 0 -> 30 * size + 38 <= 14 * N.of_nat fuel ->
  length b = 64%nat -> Forall (w_ok low) ws -> Permutation (em_abs b) (map w_state ws) ->
  exists cl nb, em_cross fuel size b = Some (cl, nb).
Proof.
  intros Hl Hf Hlen Hok P. apply em_cross_safe; [exact Hlen|]. intros sp i w Hin.
  apply (Permutation_in _ P) in Hin. apply in_map_iff in Hin. destruct Hin as (x & E & Hx).
  rewrite Forall_forall in Hok. specialize (Hok x Hx). destruct x as [[[[sp0 ri] qi] q] i0]. cbn [w_state] in E. injection E as <- <- <-.
  cbn [w_ok] in Hok. destruct Hok as (HI & _ & H7 & _ & _).
  pose proof (inv_ge eratMediumSteps eratMediumSteps_entries _ _ _ _ _ _ HI) as Hge.
  apply (cross_total eratMediumSteps eratMediumSteps_entries fuel size low sp0 ri qi q i0 HI H7 H1). lia.
Qed.

Lemma cross3_total low size s w : low mod 30 = 0 -> 30 * size + 38 <= 14 * N.of_nat fuel ->
  N.of_nat (biglen log2 s) * EratBigP.size log2 < N.of_nat fuel ->
  st_ok log2 low s w -> exists cl s', cross3 fuel size log2 s = Some (cl, s').
Proof.
  intros Hl Hf Hbigf (Es & Hs & Hlen & Pm & Hm & Hwf & Pb & Hb). unfold cross3. rewrite Es.
  pose proof (cross_all_total eratSmallSteps eratSmallSteps_entries fuel low size Hl H1 Hf (w_s w) Hs) as Hc.
  destruct (cross_all fuel eratSmallSteps size (map w_state (w_s w))) as [[cs s1]|]; [|congruence].
  destruct (em_cross_total low size (e_med s) (w_m w) Hl Hf Hlen Hm Pm) as (cm & m1 & ->).
  destruct (e_big s) as [|l0 r0] eqn:Eb; [eexists; eexists; reflexivity|].
  destruct (eb_cross_total log2 fuel (l0 :: r0) [] Hwf ltac:(discriminate)) as (cb & b1 & ->); [|eexists; eexists; reflexivity].
  unfold biglen in Hbigf. rewrite Eb in Hbigf. pose proof (mu_le log2 (l0 :: r0)). lia.
Qed.

Theorem sieve_loop3_total : forall segs low pending s w,
  segs_ok3 stop low segs -> (nobig stop maxMedium pmin \/ szs_ok log2 segs) -> st_ok log2 low s w -> (nobig stop maxMedium pmin -> e_big s = []) ->
  Forall (sp_ok3 stop pmin) pending ->
  Forall (fun sg => 30 * k_size sg + 38 <= 14 * N.of_nat fuel) segs ->
  N.of_nat (biglen log2 s + length pending) * EratBigP.size log2 < N.of_nat fuel ->
  sieve_loop3 fuel stop maxSmall maxMedium log2 segs pending s <> None.
Proof.
  induction segs as [|sg rest IH]; intros low pending s w Hsegs Hszs Hst Hnb Hpend Hfuel Hbigf; cbn [sieve_loop3]; [discriminate|].
  inversion Hfuel as [|? ? Hf Hfr]; subst.
  destruct Hsegs as (Hlow & Hl30 & Hl6 & Hhigh & Hgeo & Hrest). subst low.
  destruct (span_sq (k_high sg) pending) as [now later] eqn:Esp.
  destruct (span_sq_spec _ _ _ _ Esp) as (Epend & Hnow & _).
  assert (Hnow_ok : Forall (sp_ok3 stop pmin) now) by (rewrite Epend in Hpend; apply Forall_app in Hpend; tauto).
  assert (Hlater_ok : Forall (sp_ok3 stop pmin) later) by (rewrite Epend in Hpend; apply Forall_app in Hpend; tauto).
  assert (Hbigsq : forall p, In p now -> maxMedium < p -> p * p <= k_low sg + 30 * EratBigP.size log2 + 6).
  { intros p Hin Hgt. rewrite Forall_forall in Hnow, Hnow_ok. specialize (Hnow p Hin). specialize (Hnow_ok p Hin).
    destruct Hszs as [Hn|(Hsz & _)]; [specialize (Hn p Hnow_ok); lia|]. nia. }
  destruct (add_primes3_total (k_low sg) Hl30 Hl6 now s w Hst Hnow_ok Hbigsq) as (s1 & Ea). rewrite Ea.
  destruct (add_primes3_ok stop maxSmall maxMedium log2 pmin Hstop Hpmin (k_low sg) Hl30 Hl6 now s w s1 Hst Hnow_ok Hbigsq Ea) as (w1 & Hst1 & _ & _ & _ & Hb1).
  pose proof (add_primes3_biglen _ _ _ _ _ _ _ _ Ea) as Hlen1.
  assert (Elen : length pending = (length now + length later)%nat) by (rewrite Epend, app_length; reflexivity).
  pose proof (size_pos log2) as Hsp.
  assert (Hbigf1 : N.of_nat (biglen log2 s1) * EratBigP.size log2 < N.of_nat fuel) by nia.
  destruct (cross3_total (k_low sg) (k_size sg) s1 w1 Hl30 Hf Hbigf1 Hst1) as (cleared & s2 & Ec). rewrite Ec.
  assert (Hnb1 : nobig stop maxMedium pmin -> e_big s1 = []).
  { intros Hn. apply Hb1; [exact (Hnb Hn)|]. intros p Hin. apply Hn. rewrite Forall_forall in Hnow_ok. exact (Hnow_ok p Hin). }
  destruct rest as [|sg2 rest2]; [cbn [sieve_loop3]; discriminate|].
  assert (Hsz1 : k_size sg <= EratBigP.size log2 \/ e_big s1 = []).
  { destruct Hszs as [Hn|(Hsz & _)]; [right; exact (Hnb1 Hn)|left; exact Hsz]. }
  assert (Hsz2 : k_size sg = EratBigP.size log2 \/ e_big s1 = []).
  { destruct Hszs as [Hn|(_ & Hsz & _)]; [right; exact (Hnb1 Hn)|left; apply Hsz; discriminate]. }
  destruct (cross3_spec fuel log2 (k_low sg) (k_size sg) Hl30 s1 w1 cleared s2 Hst1 Hsz1 Ec) as (_ & Hnext).
  destruct (Hnext Hsz2) as (w' & Hst' & _ & _ & Pb & Hbig').
  assert (Hlen2 : biglen log2 s2 = biglen log2 s1).
  { unfold biglen. destruct Hst' as (_ & _ & _ & _ & _ & _ & P2 & _). destruct Hst1 as (_ & _ & _ & _ & _ & _ & P1 & _).
    rewrite (Permutation_length P2), (Permutation_length P1), !map_length.
    rewrite <- (map_length w_prime (w_b w')), Pb, map_length. reflexivity. }
  specialize (IH (k_low sg + 30 * k_size sg) later s2 w' Hrest).
  assert (G : sieve_loop3 fuel stop maxSmall maxMedium log2 (sg2 :: rest2) later s2 <> None).
  { apply IH; [destruct Hszs as [Hn|(_ & _ & Hsz)]; [left; exact Hn|right; exact Hsz]|exact Hst'|intros Hn; apply Hbig'; exact (Hnb1 Hn)|exact Hlater_ok|exact Hfr|].
    rewrite Hlen2. nia. }
  destruct (sieve_loop3 fuel stop maxSmall maxMedium log2 (sg2 :: rest2) later s2); [discriminate|congruence].
Qed.
End Total3.

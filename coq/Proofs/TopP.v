(** C10: statements at the top of the range. *)
From Coq Require Import NArith List Bool Lia.
From PS Require Import Spec.Primes Spec.Cursor Model.Pmath Proofs.PmathP Proofs.StoreP.
Import ListNotations.
Local Open Scope N_scope.

(** after the largest 64-bit prime has been returned, next_prime can only report an error *)
Lemma next_after_largest h c' r :
  largest_prime_hyp -> cursor_step (MAXPRIME64 + 1, h) Next c' r -> r = Err /\ c' = (MAXPRIME64 + 1, h).
Proof.
  intros (Hp & Hmax) H. cbn [cursor_step] in H. destruct H as [(p & (Hpp & Hle & _) & Hlt & _)|(_ & -> & ->)]; [exfalso|split; reflexivity].
  specialize (Hmax p Hpp ltac:(u64; lia)). lia.
Qed.

(** the largest prime any forward walk yields is the largest 64-bit prime *)
Lemma next_never_wraps lo h c' v : cursor_step (lo, h) Next c' (Val v) -> lo <= v /\ v < U64 /\ prime v.
Proof.
  cbn [cursor_step]. intros [(p & (Hp & Hle & _) & Hlt & E & _)|(_ & E & _)]; [|discriminate].
  injection E as <-. auto.
Qed.

(** prev_prime never yields a value above its position *)
Lemma prev_never_wraps lo hi1 c' v : cursor_step (lo, hi1) Prev c' (Val v) -> v < hi1 \/ v = 0.
Proof.
  cbn [cursor_step]. intros [(p & (Hp & Hlt & _) & E & _)|(_ & E & _)]; injection E as <-; auto.
Qed.

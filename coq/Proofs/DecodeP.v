(** L3: bit decoding.  bitValues[i] = 30*(i/8) + bv[i mod 8]; the De Bruijn hash of a word whose lowest set bit is i
    selects bruijnBitValues[...] = bitValues[i] (both variants of nextPrime agree); the loop
    "bits &= bits - 1" enumerates the numbers of the set bits of the word in ascending order. *)
From Coq Require Import NArith ZArith List Bool Lia.
From PS Require Import Spec.Primes Gen.Tables Model.Count Model.Decode Proofs.TablesP.
Import ListNotations.
Local Open Scope N_scope.
Ltac Zify.zify_post_hook ::= Z.to_euclidean_division_equations.

Lemma bitValues_ok : forallb (fun i => tbl bitValues i =? 30 * (i / 8) + nth (N.to_nat (i mod 8)) bv 0) (Nseq 64) = true.
Proof. vm_compute. reflexivity. Qed.

(** for a word whose lowest set bit is i, bits ^ (bits - 1) = 2^(i+1) - 1; the hash of that value indexes the same number *)
Lemma bruijn_ok : forallb (fun i =>
    tbl bruijnBitValues (N.shiftr (((2 ^ (i + 1) - 1) * debruijn64) mod U64) 58) =? tbl bitValues i) (Nseq 64) = true.
Proof. vm_compute. reflexivity. Qed.

(** ---- bits of a - 1 when the lowest set bit of a is i *)
Lemma pred_bits (i : nat) : forall a,
  N.testbit a (N.of_nat i) = true -> (forall j, (j < i)%nat -> N.testbit a (N.of_nat j) = false) ->
  forall j : nat, N.testbit (a - 1) (N.of_nat j) =
    if (j <? i)%nat then true else if (j =? i)%nat then false else N.testbit a (N.of_nat j).
Proof.
  induction i as [|i IH]; intros a Hi Hlow j.
  - (* a is odd: a = 2d + 1, a - 1 = 2d *)
    change (N.of_nat 0) with 0 in Hi. apply N.bit0_odd in Hi || rewrite N.bit0_odd in Hi.
    destruct (N.Even_or_Odd a) as [[d Hd]|[d Hd]]; [subst a; rewrite N.odd_mul, N.odd_2 in Hi; discriminate|].
    subst a. replace (2 * d + 1 - 1) with (2 * d) by lia.
    destruct j as [|j]; [change (N.of_nat 0) with 0; rewrite N.testbit_even_0; reflexivity|].
    rewrite Nat2N.inj_succ, N.testbit_even_succ, N.testbit_odd_succ by lia. reflexivity.
  - (* a is even and non-zero: a = 2d, a - 1 = 2(d - 1) + 1 *)
    pose proof (Hlow 0%nat ltac:(lia)) as H0. change (N.of_nat 0) with 0 in H0. rewrite N.bit0_odd in H0.
    destruct (N.Even_or_Odd a) as [[d Hd]|[d Hd]]; [|subst a; rewrite N.add_comm, N.odd_add_mul_2 in H0; discriminate].
    subst a. rewrite Nat2N.inj_succ, N.testbit_even_succ in Hi by lia.
    assert (Hd0 : d <> 0) by (intros ->; rewrite N.bits_0 in Hi; discriminate).
    replace (2 * d - 1) with (2 * (d - 1) + 1) by lia.
    destruct j as [|j]; [change (N.of_nat 0) with 0; rewrite N.testbit_odd_0; reflexivity|].
    rewrite Nat2N.inj_succ, N.testbit_odd_succ, N.testbit_even_succ by lia.
    rewrite (IH d Hi); [reflexivity|]. intros k Hk. specialize (Hlow (S k) ltac:(lia)).
    rewrite Nat2N.inj_succ, N.testbit_even_succ in Hlow by lia. exact Hlow.
Qed.

Definition lowest (a : N) (i : nat) : Prop :=
  N.testbit a (N.of_nat i) = true /\ forall j, (j < i)%nat -> N.testbit a (N.of_nat j) = false.

Lemma lxor_pred a i : lowest a i -> N.lxor a (a - 1) = 2 ^ N.of_nat (S i) - 1.
Proof.
  intros [Hi Hlow]. replace (2 ^ N.of_nat (S i) - 1) with (N.ones (N.of_nat (S i))) by (rewrite N.ones_equiv, N.sub_1_r; reflexivity).
  apply N.bits_inj. intros n.
  rewrite N.lxor_spec. rewrite <- (N2Nat.id n). set (j := N.to_nat n).
  rewrite (pred_bits i a Hi Hlow j).
  destruct (Nat.ltb_spec j i) as [Hlt|Hge].
  - rewrite (Hlow j Hlt). rewrite N.ones_spec_low by lia. reflexivity.
  - destruct (Nat.eqb_spec j i) as [->|Hne].
    + rewrite Hi. rewrite N.ones_spec_low by lia. reflexivity.
    + rewrite xorb_nilpotent. rewrite N.ones_spec_high by lia. reflexivity.
Qed.

Lemma land_pred a i : lowest a i -> forall j : nat,
  N.testbit (N.land a (a - 1)) (N.of_nat j) = N.testbit a (N.of_nat j) && negb (j =? i)%nat.
Proof.
  intros [Hi Hlow] j. rewrite N.land_spec, (pred_bits i a Hi Hlow j).
  destruct (Nat.ltb_spec j i) as [Hlt|Hge].
  - rewrite (Hlow j Hlt). reflexivity.
  - destruct (Nat.eqb_spec j i) as [->|Hne]; [rewrite Hi; reflexivity|]. cbn [negb]. rewrite andb_diag, andb_true_r. reflexivity.
Qed.

Lemma ctz_from_spec a i : lowest a i -> forall n k, (k <= i)%nat -> (i < k + n)%nat -> ctz_from n (N.of_nat k) a = N.of_nat i.
Proof.
  intros [Hi Hlow]. induction n as [|n IH]; intros k Hk Hn; [lia|]. cbn [ctz_from].
  destruct (Nat.eq_dec k i) as [->|Hne]; [rewrite Hi; reflexivity|].
  rewrite (Hlow k ltac:(lia)). replace (N.of_nat k + 1) with (N.of_nat (S k)) by lia. apply IH; lia.
Qed.

(** both variants of nextPrime return low + bitValues[i] for a word whose lowest set bit is i < 64 *)
Theorem nextPrime_variants_agree a i low : lowest a i -> (i < 64)%nat ->
  nextPrime_ctz a low = low + tbl bitValues (N.of_nat i) /\ nextPrime_bruijn a low = low + tbl bitValues (N.of_nat i).
Proof.
  intros Hl Hi. split.
  - unfold nextPrime_ctz, ctz64. change 0 with (N.of_nat 0). rewrite (ctz_from_spec a i Hl 64 0 ltac:(lia) ltac:(lia)). reflexivity.
  - unfold nextPrime_bruijn, bruijn_hash. rewrite (lxor_pred a i Hl).
    pose proof bruijn_ok as T. rewrite forallb_forall in T.
    assert (Hi64 : N.of_nat i < N.of_nat 64) by lia.
    specialize (T (N.of_nat i) (In_Nseq 64 _ Hi64)). apply N.eqb_eq in T.
    replace (N.of_nat (S i)) with (N.of_nat i + 1) by lia. rewrite T. reflexivity.
Qed.

(** the positions of the set bits of a 64-bit word, ascending *)
Definition set_bits (a : N) : list nat := filter (fun j => N.testbit a (N.of_nat j)) (seq 0 64).

Lemma filter_false {A} (f : A -> bool) l : (forall x, In x l -> f x = false) -> filter f l = [].
Proof. induction l as [|a r IH]; intros H; [reflexivity|]. cbn [filter]. rewrite (H a (or_introl eq_refl)). apply IH. intros x Hx. apply H. right. exact Hx. Qed.

Lemma set_bits_lowest a i : lowest a i -> (i < 64)%nat ->
  set_bits a = i :: set_bits (N.land a (a - 1)).
Proof.
  intros Hl Hi. unfold set_bits.
  assert (Hseq : seq 0 64 = seq 0 i ++ i :: seq (S i) (63 - i)).
  { replace 64%nat with (i + S (63 - i))%nat at 1 by lia. rewrite seq_app. reflexivity. }
  rewrite Hseq.
  rewrite !filter_app. cbn [filter]. destruct Hl as [Hbi Hlow].
  rewrite (filter_false _ (seq 0 i)) by (intros x Hx; apply in_seq in Hx; apply Hlow; lia).
  rewrite Hbi. cbn [app]. f_equal.
  rewrite (filter_false _ (seq 0 i)).
  2:{ intros x Hx. apply in_seq in Hx. rewrite (land_pred a i (conj Hbi Hlow) x), (Hlow x ltac:(lia)). reflexivity. }
  rewrite (land_pred a i (conj Hbi Hlow) i), Nat.eqb_refl, andb_false_r. cbn [app].
  apply filter_ext_in. intros x Hx. apply in_seq in Hx. rewrite (land_pred a i (conj Hbi Hlow) x).
  destruct (Nat.eqb_spec x i); [lia|]. rewrite andb_true_r. reflexivity.
Qed.

Lemma set_bits_0 : set_bits 0 = [].
Proof. unfold set_bits. apply filter_false. intros x _. apply N.bits_0. Qed.

Lemma seq_sorted : forall len s, Sorted.StronglySorted lt (seq s len).
Proof.
  induction len as [|len IH]; intros s; cbn [seq]; constructor; [apply IH|]. apply Forall_forall. intros y Hy. apply in_seq in Hy. lia.
Qed.
Lemma set_bits_sorted a : Sorted.StronglySorted lt (set_bits a).
Proof. unfold set_bits. apply Spec.Primes.StronglySorted_filter. apply seq_sorted. Qed.

Lemma In_set_bits a j : In j (set_bits a) <-> (j < 64)%nat /\ N.testbit a (N.of_nat j) = true.
Proof. unfold set_bits. rewrite filter_In, in_seq. split; intros [H1 H2]; (split; [lia|exact H2]). Qed.

Definition W64 : N := 18446744073709551616.

Lemma set_bits_nil a : a < W64 -> set_bits a = [] -> a = 0.
Proof.
  intros Hlt E. apply N.bits_inj. intros n. rewrite N.bits_0.
  destruct (N.lt_ge_cases n 64) as [Hn|Hn].
  - destruct (N.testbit a n) eqn:Eb; [|reflexivity]. exfalso.
    assert (Hin : In (N.to_nat n) (set_bits a)) by (apply In_set_bits; split; [lia|rewrite N2Nat.id; exact Eb]).
    rewrite E in Hin. destruct Hin.
  - destruct (N.eq_dec a 0) as [->|Hne]; [apply N.bits_0|].
    apply N.bits_above_log2. apply N.lt_le_trans with 64; [|exact Hn]. apply N.log2_lt_pow2; [lia|exact Hlt].
Qed.

Lemma exists_lowest a : a <> 0 -> a < W64 -> exists i, lowest a i /\ (i < 64)%nat.
Proof.
  intros Hne Hlt. destruct (set_bits a) as [|i r] eqn:E; [exfalso; apply Hne; apply set_bits_nil; assumption|].
  exists i. assert (Hin : In i (set_bits a)) by (rewrite E; left; reflexivity).
  apply In_set_bits in Hin. destruct Hin as [Hs Hb]. split; [|exact Hs].
  split; [exact Hb|]. intros j Hj. destruct (N.testbit a (N.of_nat j)) eqn:Ej; [|reflexivity]. exfalso.
  assert (Hjin : In j (set_bits a)) by (apply In_set_bits; split; [lia|exact Ej]).
  pose proof (set_bits_sorted a) as Hsorted.
  rewrite E in Hsorted, Hjin. inversion Hsorted as [|? ? _ Hall]; subst. destruct Hjin as [->|Hjr]; [lia|].
  rewrite Forall_forall in Hall. specialize (Hall j Hjr). lia.
Qed.

Lemma land_pred_le a : N.land a (a - 1) <= a.
Proof.
  apply N.ldiff_le. apply N.bits_inj. intros n. rewrite N.ldiff_spec, N.land_spec, N.bits_0.
  destruct (N.testbit a n), (N.testbit (a - 1) n); reflexivity.
Qed.

(** the loop "for (; bits != 0; bits &= bits - 1) nextPrime(bits, low)" yields, in ascending order, low + bitValues[i]
    = low + 30*(i/8) + bv[i mod 8] for exactly the set bits i of the word - with either variant of nextPrime *)
Theorem decode_word_spec next : (next = nextPrime_ctz \/ next = nextPrime_bruijn) -> forall fuel a low,
  a < W64 -> (length (set_bits a) < fuel)%nat ->
  decode_word fuel next a low = map (fun i => low + tbl bitValues (N.of_nat i)) (set_bits a).
Proof.
  intros Hnext. induction fuel as [|f IH]; intros a low Ha Hf; [exfalso; exact (Nat.nlt_0_r _ Hf)|].
  change (decode_word (S f) next a low) with (if a =? 0 then [] else next a low :: decode_word f next (N.land a (a - 1)) low).
  destruct (N.eqb_spec a 0) as [->|Hne]; [rewrite set_bits_0; reflexivity|].
  destruct (exists_lowest a Hne Ha) as (i & Hl & Hi).
  pose proof (set_bits_lowest a i Hl Hi) as Es. rewrite Es. rewrite Es in Hf.
  rewrite map_cons. f_equal.
  - destruct (nextPrime_variants_agree a i low Hl Hi) as [E1 E2]. destruct Hnext as [->| ->]; assumption.
  - apply IH; [exact (N.le_lt_trans _ _ _ (land_pred_le a) Ha)|]. apply Nat.succ_lt_mono. exact Hf.
Qed.

(** ---- words of 8 bytes *)
Lemma byte_high_bits b i : b < 256 -> 8 <= i -> N.testbit b i = false.
Proof.
  intros Hb Hi. destruct (N.eq_dec b 0) as [->|Hne]; [apply N.bits_0|]. apply N.bits_above_log2.
  apply N.lt_le_trans with 8; [|exact Hi]. apply N.log2_lt_pow2; [lia|exact Hb].
Qed.

Lemma word_bit bs : Forall (fun b => b < 256) bs -> forall i : nat,
  N.testbit (word_of_bytes bs) (N.of_nat i) = N.testbit (nth (i / 8) bs 0) (N.of_nat (i mod 8)).
Proof.
  induction bs as [|b r IH]; intros Hb i; cbn [word_of_bytes].
  - rewrite N.bits_0. destruct (i / 8)%nat; cbn [nth]; rewrite N.bits_0; reflexivity.
  - inversion Hb as [|? ? Hb1 Hbr]; subst. rewrite N.lor_spec.
    destruct (Nat.lt_ge_cases i 8) as [Hlt|Hge].
    + rewrite N.shiftl_spec_low by lia. rewrite orb_false_r. rewrite (Nat.div_small i 8 Hlt), (Nat.mod_small i 8 Hlt). reflexivity.
    + rewrite (byte_high_bits b (N.of_nat i) Hb1 ltac:(lia)), orb_false_l. rewrite N.shiftl_spec_high by lia.
      replace (N.of_nat i - 8) with (N.of_nat (i - 8)) by lia. rewrite (IH Hbr (i - 8)%nat).
      assert (E : i = (i - 8 + 1 * 8)%nat) by lia. rewrite E at 3 4. rewrite Nat.div_add, Nat.mod_add by lia.
      replace ((i - 8) / 8 + 1)%nat with (S ((i - 8) / 8)) by lia. reflexivity.
Qed.

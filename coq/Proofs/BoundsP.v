(** C12: index bounds for the source tables and the iterator buffer. *)
From Coq Require Import NArith ZArith List Bool Lia.
From PS Require Import Spec.Primes Spec.Cursor Gen.Tables Model.PrimeGen Model.Iterator Proofs.TablesP Proofs.IteratorP.
Import ListNotations.
Local Open Scope N_scope.
Ltac Zify.zify_post_hook ::= Z.to_euclidean_division_equations.

Lemma table_lengths :
  length unsetSmaller = 37%nat /\ length unsetLarger = 37%nat /\ length wheel30Init = 30%nat /\
  length wheel210Init = 210%nat /\ length primePi = 720%nat /\ length bitValues = 65%nat.
Proof. vm_compute. repeat split; reflexivity. Qed.

Lemma table_indices_in_range :
  (forall n, 7 <= n -> 7 <= (n - 7) mod 30 + 7 < N.of_nat (length unsetSmaller) /\ (n - 7) mod 30 + 7 < N.of_nat (length unsetLarger)) /\
  (forall q, q mod 30 < N.of_nat (length wheel30Init) /\ q mod 210 < N.of_nat (length wheel210Init)) /\
  (forall s, 1 < s -> s <= 719 -> s - 1 < N.of_nat (length primePi)) /\
  (forall s, s < 719 -> s < N.of_nat (length primePi)) /\
  length bitValues = 65%nat.
Proof.
  destruct table_lengths as (L1 & L2 & L3 & L4 & L5 & L6). rewrite L1, L2, L3, L4, L5.
  change (N.of_nat 37) with 37. change (N.of_nat 30) with 30. change (N.of_nat 210) with 210. change (N.of_nat 720) with 720.
  repeat split; try lia; try exact L6.
Qed.

Lemma iterator_index_in_range it c : R it c -> it_buf it <> [] -> (it_i it < length (it_buf it))%nat.
Proof. unfold R. intros H Hne. destruct (it_buf it); [congruence|]. tauto. Qed.

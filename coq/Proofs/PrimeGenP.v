(** L6: the primes a PrimeGenerator(start, stop) produces are exactly
    primes_between start stop, given that the sieve proper ([erat]) is exact
    above the cached-prime table.  Uses the table lemmas of TablesP (re-proved
    against the current source tables). *)
From Coq Require Import NArith List Bool Lia Arith.
From PS Require Import Spec.Primes Gen.Tables Model.PrimeGen Proofs.PmathP Proofs.TablesP.
Import ListNotations.
Local Open Scope N_scope.

Definition erat_spec (erat : N -> N -> list N) : Prop :=
  forall s e, 721 <= s -> s <= e -> e <= MAX64 -> s < MAX64 -> erat s e = primes_between s e.

Lemma primes_between_0_1 : primes_between 0 1 = [].
Proof. vm_compute. reflexivity. Qed.

Lemma primes_between_lo a b : a <= 2 -> primes_between a b = primes_between 0 b.
Proof.
  intros Ha. destruct (N.le_gt_cases 1 b) as [Hb|Hb].
  - destruct (N.eq_dec a 2) as [->|Hne].
    + rewrite (primes_between_split 0 1 b) by lia. rewrite primes_between_0_1. reflexivity.
    + destruct (N.eq_dec a 0) as [->|Hne0]; [reflexivity|]. assert (a = 1) by lia. subst a.
      rewrite (primes_between_split 0 0 b) by lia.
      replace (primes_between 0 0) with (@nil N) by (vm_compute; reflexivity). reflexivity.
  - assert (b = 0) by lia. subst b.
    replace (primes_between 0 0) with (@nil N) by (vm_compute; reflexivity).
    apply primes_between_nil_iff. intros q Hq _ H. pose proof (prime_ge_2 _ Hq). lia.
Qed.

Lemma skipn_count a : 1 <= a -> a <= 720 ->
  skipn (N.to_nat (count_primes_spec 0 (a - 1))) (primes_between 0 719) = primes_between a 719.
Proof.
  intros H1 H2. rewrite (primes_between_split 0 (a - 1) 719) by lia.
  unfold count_primes_spec. rewrite Nat2N.id. replace (a - 1 + 1) with a by lia.
  rewrite skipn_app, skipn_all, Nat.sub_diag. reflexivity.
Qed.

Lemma firstn_len_app {A} (l1 l2 : list A) : firstn (length l1) (l1 ++ l2) = l1.
Proof. rewrite firstn_app, Nat.sub_diag, firstn_all. cbn. apply app_nil_r. Qed.

Lemma count_diff a b : a <= b + 1 ->
  count_primes_spec 0 b - count_primes_spec 0 (a - 1) = N.of_nat (length (primes_between a b)).
Proof.
  intros H. destruct (N.eq_dec a 0) as [->|Hne].
  - cbn [N.sub]. replace (count_primes_spec 0 0) with 0 by (vm_compute; reflexivity). unfold count_primes_spec. lia.
  - unfold count_primes_spec. rewrite (primes_between_split 0 (a - 1) b) by lia.
    replace (a - 1 + 1) with a by lia. rewrite app_length. lia.
Qed.

Lemma small_part_spec a b : a <= 719 -> a <= b -> small_part a b = primes_between a (N.min b 719).
Proof.
  intros Ha Hab. unfold small_part. rewrite maxCachedPrime_ok.
  destruct (N.leb_spec a 719) as [_|]; [|lia].
  unfold slice, getStartIdx, getStopIdx. rewrite maxCachedPrime_ok, smallPrimes_ok.
  assert (Hskip : skipn (N.to_nat (if 1 <? a then nthN primePi (a - 1) else 0)) (primes_between 0 719) = primes_between a 719).
  { destruct (N.ltb_spec 1 a) as [H1|H1].
    - rewrite primePi_ok by lia. apply skipn_count; lia.
    - cbn [N.to_nat skipn]. symmetry. apply primes_between_lo. lia. }
  rewrite Hskip.
  assert (Hidx : (if 1 <? a then nthN primePi (a - 1) else 0) = count_primes_spec 0 (a - 1)).
  { destruct (N.ltb_spec 1 a) as [H1|H1]; [apply primePi_ok; lia|].
    replace (a - 1) with 0 by lia. vm_compute. reflexivity. }
  rewrite Hidx.
  destruct (N.ltb_spec b 719) as [Hb|Hb].
  - rewrite primePi_ok by lia. rewrite count_diff by lia. rewrite Nat2N.id.
    replace (N.min b 719) with b by lia.
    rewrite (primes_between_split a b 719) by lia. apply firstn_len_app.
  - replace (N.min b 719) with 719 by lia.
    replace (length (primes_between 0 719)) with 128%nat by (rewrite <- smallPrimes_ok; symmetry; exact smallPrimes_length).
    assert (E : 128 - count_primes_spec 0 (a - 1) = N.of_nat (length (primes_between a 719))).
    { rewrite <- count_diff by lia. replace (count_primes_spec 0 719) with 128 by (vm_compute; reflexivity). reflexivity. }
    change (N.of_nat 128) with 128. rewrite E, Nat2N.id. apply firstn_all.
Qed.

Lemma primes_between_skip_720 b : 720 <= b -> primes_between 720 b = primes_between 721 b.
Proof.
  intros H. rewrite (primes_between_split 720 720 b) by lia.
  rewrite primes_between_one, not_prime_720. reflexivity.
Qed.

Theorem pg_primes_spec erat :
  erat_spec erat -> forall a b, a <= b -> b <= MAX64 -> pg_primes erat a b = primes_between a b.
Proof.
  intros HE a b Hab Hb. unfold pg_primes, erat_range. rewrite maxCachedPrime_ok.
  change (719 + 2) with 721.
  set (s := N.max 721 a).
  assert (Herat : (if (s <=? b) && (s <? MAX64) then erat s b else []) = primes_between s b).
  { destruct (N.leb_spec s b) as [H1|H1]; cbn [andb].
    - destruct (N.ltb_spec s MAX64) as [H2|H2].
      + apply HE; lia.
      + assert (s = MAX64) by lia. assert (b = MAX64) by lia. subst b. rewrite H.
        symmetry. rewrite primes_between_one. destruct (is_prime MAX64) eqn:E; [|reflexivity].
        apply is_prime_spec in E. exfalso. exact (not_prime_MAX64 E).
    - symmetry. apply primes_between_empty. lia. }
  replace (match (if (s <=? b) && (s <? MAX64) then Some (s, b) else None) with Some (s0, e) => erat s0 e | None => [] end)
    with (if (s <=? b) && (s <? MAX64) then erat s b else []) by (destruct ((s <=? b) && (s <? MAX64)); reflexivity).
  rewrite Herat. subst s.
  destruct (N.le_gt_cases a 719) as [Ha|Ha].
  - rewrite small_part_spec by assumption. replace (N.max 721 a) with 721 by lia.
    destruct (N.le_gt_cases b 719) as [Hb2|Hb2].
    + replace (N.min b 719) with b by lia. rewrite (primes_between_empty 721 b) by lia. apply app_nil_r.
    + replace (N.min b 719) with 719 by lia. rewrite (primes_between_split a 719 b) by lia.
      change (719 + 1) with 720. rewrite primes_between_skip_720 by lia. reflexivity.
  - unfold small_part. rewrite maxCachedPrime_ok. destruct (N.leb_spec a 719) as [|_]; [lia|]. cbn [app].
    destruct (N.eq_dec a 720) as [->|Hne].
    + change (N.max 721 720) with 721. symmetry. apply primes_between_skip_720. lia.
    + replace (N.max 721 a) with a by lia. reflexivity.
Qed.

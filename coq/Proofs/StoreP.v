(** C06: generate_primes / generate_n_primes store exactly the requested primes. *)
From Coq Require Import NArith List Bool Lia Sorted Arith.
From PS Require Import Spec.Primes Model.Store Proofs.PmathP Proofs.IteratorP Proofs.CountAddP.
Import ListNotations.
Local Open Scope N_scope.

(** what C01 establishes about the blocks of iterator(start, hint) *)
Definition blocks_of (start : N) (blocks : list (list N)) : Prop :=
  concat blocks = primes_between start MAX64 /\ Forall nonempty blocks.

(** 18446744073709551557 is the largest prime below 2^64 (a fact the code relies on as a literal;
    not re-derived here: visible hypothesis of the top-of-range statements) *)
Definition largest_prime_hyp : Prop :=
  prime MAXPRIME64 /\ forall q, prime q -> q <= MAX64 -> q <= MAXPRIME64.

Lemma sorted_last_max (b : list N) x : StronglySorted N.lt b -> In x b -> x <= last b 0.
Proof.
  intros Hs Hin. destruct b as [|y b]; [destruct Hin|].
  rewrite (split_last (y :: b) 0) in Hs, Hin by discriminate.
  apply (sorted_last_greatest _ _ _ Hs Hin).
Qed.

Lemma filter_all_true {A} (f : A -> bool) l : (forall x, In x l -> f x = true) -> filter f l = l.
Proof. induction l as [|a l IH]; intros H; cbn; [reflexivity|]. rewrite (H a (or_introl eq_refl)). f_equal. apply IH. intros x Hx. apply H. right. exact Hx. Qed.

Lemma filter_all_false {A} (f : A -> bool) l : (forall x, In x l -> f x = false) -> filter f l = [].
Proof. induction l as [|a l IH]; intros H; cbn; [reflexivity|]. rewrite (H a (or_introl eq_refl)). apply IH. intros x Hx. apply H. right. exact Hx. Qed.

Lemma takewhile_spec limit : forall b,
  StronglySorted N.lt b -> (exists x, In x b /\ limit < x) ->
  takewhile_le limit b = Some (filter (fun x => x <=? limit) b).
Proof.
  induction b as [|x b IH]; intros Hs (y & Hy & Hlt); [destruct Hy|].
  cbn [takewhile_le filter]. inversion Hs as [|? ? Hs' Hall]; subst. rewrite Forall_forall in Hall.
  destruct (N.leb_spec x limit) as [Hle|Hgt].
  - destruct Hy as [<-|Hy]; [lia|]. rewrite IH; [reflexivity|exact Hs'|exists y; auto].
  - f_equal. symmetry. apply filter_all_false. intros z Hz. specialize (Hall z Hz). apply N.leb_gt. lia.
Qed.

Lemma store_blocks_spec limit : forall blocks v,
  StronglySorted N.lt (concat blocks) -> Forall nonempty blocks ->
  (exists x, In x (concat blocks) /\ limit < x) ->
  store_blocks limit blocks v = SOk (v ++ filter (fun x => x <=? limit) (concat blocks)).
Proof.
  induction blocks as [|b rest IH]; intros v Hs Hne (y & Hy & Hlt); [destruct Hy|].
  cbn [store_blocks concat] in *. apply Forall_cons_iff in Hne. destruct Hne as [Hb Hrest].
  destruct (sorted_app_inv _ _ Hs) as (Sb & Srest & Hcross).
  rewrite filter_app.
  destruct (N.leb_spec (last b 0) limit) as [Hle|Hgt].
  - rewrite (filter_all_true _ b).
    + rewrite IH; [rewrite app_assoc; reflexivity|exact Srest|exact Hrest|].
      apply in_app_or in Hy. destruct Hy as [Hy|Hy]; [|exists y; auto].
      pose proof (sorted_last_max b y Sb Hy). lia.
    + intros x Hx. pose proof (sorted_last_max b x Sb Hx). apply N.leb_le. lia.
  - rewrite (takewhile_spec limit b Sb).
    + rewrite (filter_all_false _ (concat rest)); [rewrite app_nil_r; reflexivity|].
      intros z Hz. apply N.leb_gt. assert (Hl : In (last b 0) b) by (apply In_last; exact Hb).
      specialize (Hcross _ _ Hl Hz). lia.
    + exists (last b 0). split; [apply In_last; exact Hb|exact Hgt].
Qed.

Lemma filter_le_primes start limit :
  limit <= MAX64 -> filter (fun x => x <=? limit) (primes_between start MAX64) = primes_between start limit.
Proof.
  intros Hl. apply sorted_ext.
  - apply StronglySorted_filter, primes_between_sorted.
  - apply primes_between_sorted.
  - intros x. rewrite filter_In, !In_primes_between, N.leb_le. split.
    + intros ((H1 & H2 & H3) & H4). split; [exact H1|split; [exact H4|exact H3]].
    + intros (H1 & H2 & H3). split; [split; [exact H1|split; [lia|exact H3]]|exact H2].
Qed.

(** C06: store_primes appends exactly the primes of [start, stop], leaves the old elements alone,
    does nothing for an empty request and throws (vector untouched) when stop does not fit the type *)
Theorem store_primes_spec maxV start stop blocks v0 :
  largest_prime_hyp -> blocks_of start blocks -> start <= MAX64 -> stop <= MAX64 ->
  store_primes maxV start stop blocks v0 =
    if (start <=? stop) && (start <=? MAXPRIME64) && (maxV <? stop) then SThrow v0
    else SOk (v0 ++ primes_between start stop).
Proof.
  intros (Hmp & Hmax) (Hcat & Hne) Hs1 Hs2. unfold store_primes.
  destruct (N.ltb_spec stop start) as [Hlt|Hge].
  { destruct (N.leb_spec start stop); [lia|]. cbn [andb]. rewrite primes_between_empty by lia. rewrite app_nil_r. reflexivity. }
  destruct (N.leb_spec start stop) as [_|]; [|lia]. cbn [andb].
  destruct (N.ltb_spec MAXPRIME64 start) as [Hbig|Hsmall].
  { destruct (N.leb_spec start MAXPRIME64); [lia|]. cbn [andb].
    assert (E : primes_between start stop = []).
    { apply primes_between_nil_iff. intros q Hq H1 H2. specialize (Hmax q Hq ltac:(lia)). lia. }
    rewrite E, app_nil_r. reflexivity. }
  destruct (N.leb_spec start MAXPRIME64) as [_|]; [|lia]. cbn [andb].
  destruct (N.ltb_spec maxV stop) as [Hnarrow|Hfits]; [reflexivity|].
  set (limit := N.min stop (MAXPRIME64 - 1)).
  assert (Hlim : limit <= MAX64) by (subst limit; lia).
  rewrite store_blocks_spec.
  - rewrite Hcat, filter_le_primes by exact Hlim.
    destruct (N.leb_spec MAXPRIME64 stop) as [Htop|Hlow].
    + rewrite <- app_assoc. do 2 f_equal. subst limit. replace (N.min stop (MAXPRIME64 - 1)) with (MAXPRIME64 - 1) by lia.
      pose proof (prime_ge_2 _ Hmp).
      rewrite (primes_between_split start (MAXPRIME64 - 1) stop) by lia. f_equal.
      replace (MAXPRIME64 - 1 + 1) with MAXPRIME64 by lia.
      apply sorted_ext; [repeat constructor|apply primes_between_sorted|].
      intros x. rewrite In_primes_between. cbn [In]. split.
      * intros [<-|[]]. split; [lia|split; [lia|exact Hmp]].
      * intros (H1 & H2 & H3). left. specialize (Hmax x H3 ltac:(lia)). lia.
    + subst limit. replace (N.min stop (MAXPRIME64 - 1)) with stop by lia. reflexivity.
  - rewrite Hcat. apply primes_between_sorted.
  - exact Hne.
  - exists MAXPRIME64. split; [rewrite Hcat; apply In_primes_between; split; [lia|split; [u64; lia|exact Hmp]]|subst limit; pose proof (prime_ge_2 _ Hmp); lia].
Qed.

(** nothing stored by store_primes exceeds the element type's maximum (no truncating cast) *)
Corollary store_primes_no_truncation maxV start stop blocks v0 v :
  largest_prime_hyp -> blocks_of start blocks -> start <= MAX64 -> stop <= MAX64 ->
  store_primes maxV start stop blocks v0 = SOk v -> exists l, v = v0 ++ l /\ Forall (fun x => x <= maxV) l.
Proof.
  intros H1 H2 H3 H4 H. rewrite (store_primes_spec maxV start stop blocks v0 H1 H2 H3 H4) in H.
  destruct ((start <=? stop) && (start <=? MAXPRIME64) && (maxV <? stop)) eqn:E; [discriminate|].
  injection H as <-. exists (primes_between start stop). split; [reflexivity|].
  apply Forall_forall. intros x Hx. apply In_primes_between in Hx.
  destruct (N.leb_spec start stop) as [Hss|]; [|lia]. cbn [andb] in E.
  destruct (N.leb_spec start MAXPRIME64) as [Hsm|Hsm]; cbn [andb] in E.
  - apply N.ltb_ge in E. lia.
  - exfalso. destruct H1 as [_ Hmax]. destruct Hx as (Ha & Hb & Hp). specialize (Hmax x Hp ltac:(lia)). lia.
Qed.

(* ---------- store_n_primes ---------- *)

Lemma firstn_app_le {A} (l1 l2 : list A) n : (n <= length l1)%nat -> firstn n (l1 ++ l2) = firstn n l1.
Proof. intros H. rewrite firstn_app. replace (n - length l1)%nat with 0%nat by lia. cbn. apply app_nil_r. Qed.

Lemma firstn_app_ge {A} (l1 l2 : list A) n : (length l1 <= n)%nat -> firstn n (l1 ++ l2) = l1 ++ firstn (n - length l1) l2.
Proof. intros H. rewrite firstn_app. rewrite firstn_all2 by lia. reflexivity. Qed.

(** success: the n-th prime exists and fits the type -> exactly the first n primes are appended *)
Lemma store_n_ok maxV : forall blocks n v,
  (1 <= n)%nat -> StronglySorted N.lt (concat blocks) -> Forall nonempty blocks ->
  (n <= length (concat blocks))%nat -> nth (n - 1) (concat blocks) 0 <= maxV ->
  store_n_blocks maxV n blocks v = SOk (v ++ firstn n (concat blocks)).
Proof.
  induction blocks as [|b rest IH]; intros n v Hn Hs Hne Hlen Hfit; [cbn in Hlen; lia|].
  cbn [store_n_blocks concat] in *. apply Forall_cons_iff in Hne. destruct Hne as [Hb Hrest].
  destruct (sorted_app_inv _ _ Hs) as (Sb & Srest & Hcross).
  assert (Hbl : (1 <= length b)%nat) by (destruct b; [exfalso; apply Hb; reflexivity|cbn; lia]).
  rewrite app_length in Hlen.
  destruct (Nat.leb_spec (length b) n) as [Hle|Hgt].
  - assert (Hlast : last b 0 <= maxV).
    { destruct (Nat.eq_dec (n - 1) (length b - 1)) as [E|E].
      - rewrite app_nth1 in Hfit by lia. rewrite E in Hfit. rewrite <- nth_last in * by exact Hb.
        replace (pred (length b)) with (length b - 1)%nat by lia. exact Hfit.
      - rewrite app_nth2 in Hfit by lia.
        assert (Hin : In (nth (n - 1 - length b) (concat rest) 0) (concat rest)) by (apply nth_In; lia).
        specialize (Hcross _ _ (In_last b Hb) Hin). lia. }
    destruct (N.ltb_spec maxV (last b 0)) as [|_]; [lia|].
    destruct (Nat.eqb_spec (n - length b) 0) as [E0|E0].
    + rewrite firstn_app_ge by lia. rewrite E0. cbn [firstn]. rewrite app_nil_r. reflexivity.
    + rewrite IH; try assumption; try lia.
      * rewrite firstn_app_ge by lia. rewrite app_assoc. reflexivity.
      * rewrite app_nth2 in Hfit by lia. replace (n - length b - 1)%nat with (n - 1 - length b)%nat by lia. exact Hfit.
  - rewrite app_nth1 in Hfit by lia. destruct (N.ltb_spec maxV (nth (n - 1) b 0)) as [|_]; [lia|].
    rewrite firstn_app_le by lia. reflexivity.
Qed.

(** every outcome: on success exactly the first n primes were appended; on a throw an exact prefix
    (fewer than n) of them; never undefined behaviour *)
Lemma store_n_any maxV : forall blocks n v,
  (1 <= n)%nat -> Forall nonempty blocks ->
  match store_n_blocks maxV n blocks v with
  | SOk w => w = v ++ firstn n (concat blocks) /\ (n <= length (concat blocks))%nat
  | SThrow w => exists k, (k < n)%nat /\ w = v ++ firstn k (concat blocks)
  | SCrash => False
  end.
Proof.
  induction blocks as [|b rest IH]; intros n v Hn Hne; cbn [store_n_blocks concat].
  - exists 0%nat. split; [lia|]. cbn. rewrite app_nil_r. reflexivity.
  - apply Forall_cons_iff in Hne. destruct Hne as [Hb Hrest].
    assert (Hbl : (1 <= length b)%nat) by (destruct b; [exfalso; apply Hb; reflexivity|cbn; lia]).
    destruct (Nat.leb_spec (length b) n) as [Hle|Hgt].
    + destruct (N.ltb_spec maxV (last b 0)).
      { exists 0%nat. split; [lia|]. cbn. rewrite app_nil_r. reflexivity. }
      destruct (Nat.eqb_spec (n - length b) 0) as [E0|E0].
      * rewrite firstn_app_ge by lia. rewrite E0. cbn [firstn]. rewrite app_nil_r, app_length. split; [reflexivity|lia].
      * specialize (IH (n - length b)%nat (v ++ b) ltac:(lia) Hrest).
        destruct (store_n_blocks maxV (n - length b) rest (v ++ b)) as [w|w|]; [| |exact IH].
        -- destruct IH as [-> Hl]. rewrite firstn_app_ge by lia. rewrite app_assoc, app_length. split; [reflexivity|lia].
        -- destruct IH as (k & Hk & ->). exists (length b + k)%nat. split; [lia|].
           rewrite firstn_app_ge by lia. replace (length b + k - length b)%nat with k by lia. rewrite app_assoc. reflexivity.
    + destruct (N.ltb_spec maxV (nth (n - 1) b 0)).
      * exists 0%nat. split; [lia|]. cbn. rewrite app_nil_r. reflexivity.
      * rewrite firstn_app_le by lia. rewrite app_length. split; [reflexivity|lia].
Qed.

(** C06: generate_n_primes *)
Theorem store_n_primes_spec maxV n start blocks v0 :
  blocks_of start blocks ->
  let P := primes_between start MAX64 in
  ((n <= length P)%nat -> (n = 0%nat \/ nth (n - 1) P 0 <= maxV) ->
     store_n_primes maxV n blocks v0 = SOk (v0 ++ firstn n P)) /\
  match store_n_primes maxV n blocks v0 with
  | SOk w => w = v0 ++ firstn n P
  | SThrow w => exists k, (k < n)%nat /\ w = v0 ++ firstn k P
  | SCrash => False
  end.
Proof.
  intros (Hcat & Hne) P. subst P. rewrite <- Hcat. unfold store_n_primes. destruct n as [|n].
  - split; [intros; cbn; rewrite app_nil_r; reflexivity|cbn; rewrite app_nil_r; reflexivity].
  - split.
    + intros Hlen [Hz|Hfit]; [discriminate|]. apply store_n_ok; try assumption; try lia.
      rewrite Hcat. apply primes_between_sorted.
    + pose proof (store_n_any maxV blocks (S n) v0 ltac:(lia) Hne) as H.
      destruct (store_n_blocks maxV (S n) blocks v0); [destruct H; assumption|exact H|exact H].
Qed.

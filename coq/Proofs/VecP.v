From Coq Require Import ZArith NArith List Bool Lia ZifyBool ZifyN.
From PS Require Import Model.VecM.
Local Open Scope N_scope.
Ltac Zify.zify_post_hook ::= Z.div_mod_to_equations.

(** one step: size <= capacity is kept, and the capacity stays within twice the demand *)
Lemma vec_step_inv : forall s o h,
  fst s <= snd s -> snd s <= 2 * h ->
  fst (vec_step s o) <= snd (vec_step s o) /\
  snd (vec_step s o) <= 2 * N.max h (vec_demand s o) /\
  snd s <= snd (vec_step s o).
Proof.
  intros [size cap] o h Hs Hc; cbn [fst snd] in *.
  destruct o as [|n|n|k|]; cbn [vec_step vec_demand fst snd];
    unfold vec_reserve, vec_reserve_unchecked.
  - destruct (size =? cap) eqn:?; cbn [fst snd]; lia.
  - destruct (cap <? n) eqn:?; cbn [fst snd]; lia.
  - destruct (size <? n) eqn:?; [destruct (cap <? n) eqn:?|]; cbn [fst snd]; lia.
  - destruct (0 <? k) eqn:?; [destruct (cap <? size + k) eqn:?|]; cbn [fst snd]; lia.
  - cbn [fst snd]; lia.
Qed.

Lemma vec_fold_inv : forall ops s h,
  fst s <= snd s -> snd s <= 2 * h ->
  let s' := fold_left vec_step ops s in
  fst s' <= snd s' /\ snd s' <= 2 * N.max h (vec_high s ops) /\ snd s <= snd s'.
Proof.
  induction ops as [|o r IH]; intros s h Hs Hc; cbn [fold_left vec_high].
  - cbn zeta. lia.
  - destruct (vec_step_inv s o h Hs Hc) as (H1 & H2 & H3).
    specialize (IH (vec_step s o) (N.max h (vec_demand s o)) H1 H2). cbn zeta in *.
    destruct IH as (I1 & I2 & I3). split; [exact I1|]. split; [|lia].
    replace (N.max h (N.max (vec_demand s o) (vec_high (vec_step s o) r)))
      with (N.max (N.max h (vec_demand s o)) (vec_high (vec_step s o) r)) by lia. exact I2.
Qed.

(** for every history of operations on a Vector that starts empty: size() <= capacity() and the
    capacity is at most twice the largest size / reservation the caller ever asked for *)
Theorem vec_capacity_bounded : forall ops,
  fst (vec_run ops) <= snd (vec_run ops) /\ snd (vec_run ops) <= 2 * vec_high (0, 0) ops.
Proof.
  intros ops. unfold vec_run.
  destruct (vec_fold_inv ops (0, 0) 0) as (H1 & H2 & _); cbn [fst snd]; try lia.
Qed.

(** growth is geometric: n push_backs from empty end with capacity < 2 n (n >= 1): the number of
    reallocations is logarithmic and the slack is below the size *)
Lemma vec_push_only : forall n s, fst s <= snd s -> (snd s = 0 \/ snd s < 2 * fst s \/ snd s <= 1) ->
  let s' := fold_left vec_step (repeat VPush n) s in
  fst s' = fst s + N.of_nat n /\ (n <> 0%nat -> snd s' < 2 * fst s' \/ snd s' <= 1 \/ snd s' = snd s).
Proof.
  induction n as [|n IH]; intros [size cap] Hs Hc; cbn [repeat fold_left fst snd] in *.
  - cbn zeta. split; [lia|congruence].
  - cbn [vec_step]. unfold vec_reserve_unchecked.
    destruct (size =? cap) eqn:E.
    + match goal with |- context [fold_left vec_step _ ?st] => specialize (IH st) end.
      cbn [fst snd] in IH. cbn zeta in *.
      destruct IH as (I1 & I2); [lia|lia|]. split; [lia|]. intros _.
      destruct n as [|n']; [cbn [repeat fold_left fst snd]; lia|].
      specialize (I2 ltac:(discriminate)). lia.
    + match goal with |- context [fold_left vec_step _ ?st] => specialize (IH st) end.
      cbn [fst snd] in IH. cbn zeta in *.
      destruct IH as (I1 & I2); [lia|lia|]. split; [lia|]. intros _.
      destruct n as [|n']; [cbn [repeat fold_left fst snd]; lia|].
      specialize (I2 ltac:(discriminate)). lia.
Qed.

(** C09 (2): for every interleaving of the workers over the shared counter,
    every piece index is taken exactly once and the sum of the workers' local
    counts equals the sum over all pieces. *)
From Coq Require Import NArith List Bool Arith Lia.
From PS Require Import Model.Sched.
Import ListNotations.
Local Open Scope N_scope.

Lemma upd_length {A} n (x : A) l : length (upd n x l) = length l.
Proof. revert n. induction l as [|y l IH]; intros [|n]; cbn; auto. Qed.

Lemma sum_upd w x (l : list N) : (w < length l)%nat ->
  fold_right N.add 0 (upd w (nth w l 0 + x) l) = fold_right N.add 0 l + x.
Proof.
  revert w. induction l as [|y l IH]; intros [|w] H; cbn in *; try lia.
  rewrite IH by lia. lia.
Qed.

Lemma nth_upd_true w (l : list bool) v : (v < length l)%nat ->
  nth v (upd w true l) true = if Nat.eqb v w then true else nth v l true.
Proof.
  revert w v. induction l as [|y l IH]; intros [|w] [|v] H; cbn in *; try lia; try reflexivity.
  apply IH. lia.
Qed.

Section SchedP.
  Variable iters : nat.
  Variable f : nat -> N.
  Notation step := (sched_step iters f).
  Notation run := (sched_run iters f).

  (** invariant: the local sums add up to the pieces handed out so far; a worker
      is finished only after the counter has passed [iters] *)
  Definition Inv (s : sched_state) : Prop :=
    length (sums s) = length (finished s) /\
    total s = sum_f f (Nat.min (ctr s) iters) /\
    (forall w, (w < length (finished s))%nat -> nth w (finished s) true = true -> (iters < ctr s)%nat).

  Lemma Inv_init n : Inv (init_state n).
  Proof.
    unfold Inv, init_state, total. cbn [ctr sums finished]. rewrite !repeat_length. split; [reflexivity|]. split.
    - cbn. induction n; cbn; auto.
    - intros w Hw Hn. exfalso. revert w Hw Hn. induction n as [|n IH]; intros [|w] Hw Hn; cbn in *; try lia; try discriminate.
      apply (IH w); [lia|exact Hn].
  Qed.

  Lemma Inv_step s w : Inv s -> Inv (step s w).
  Proof.
    intros (HL & HT & HF). unfold sched_step.
    destruct (nth w (finished s) true) eqn:Efin; [repeat split; assumption|].
    assert (Hw : (w < length (finished s))%nat).
    { destruct (Nat.lt_ge_cases w (length (finished s))) as [|Hge]; [assumption|].
      rewrite nth_overflow in Efin by exact Hge. discriminate. }
    destruct (Nat.ltb_spec (ctr s) iters) as [Hlt|Hge]; unfold Inv, total in *; cbn [ctr sums finished].
    - rewrite upd_length. split; [exact HL|]. split.
      + rewrite sum_upd by lia. rewrite HT.
        replace (Nat.min (ctr s) iters) with (ctr s) by lia.
        replace (Nat.min (S (ctr s)) iters) with (S (ctr s)) by lia. reflexivity.
      + intros v Hv Hn. specialize (HF v Hv Hn). lia.
    - rewrite upd_length. split; [exact HL|]. split.
      + rewrite HT. replace (Nat.min (ctr s) iters) with iters by lia.
        replace (Nat.min (S (ctr s)) iters) with iters by lia. reflexivity.
      + intros v Hv Hn. rewrite nth_upd_true in Hn by exact Hv.
        destruct (Nat.eqb v w); [lia|]. specialize (HF v Hv Hn). lia.
  Qed.

  Lemma run_length : forall sch st, length (finished (run sch st)) = length (finished st).
  Proof.
    unfold sched_run. induction sch as [|x sch IH]; intros st; cbn [fold_left]; [reflexivity|]. rewrite IH. unfold sched_step.
    destruct (nth x (finished st) true); [reflexivity|]. destruct (Nat.ltb (ctr st) iters); cbn [finished]; [reflexivity|apply upd_length].
  Qed.

  Lemma Inv_run sch : forall s, Inv s -> Inv (run sch s).
  Proof. unfold sched_run. induction sch as [|w sch IH]; intros s H; cbn [fold_left]; [exact H|]. apply IH, Inv_step, H. Qed.

  (** every schedule: whenever at least one worker has finished (in particular when
      all have), the total of the local sums is the sum over all pieces 0..iters-1 *)
  Theorem schedule_irrelevant workers sch :
    let s := run sch (init_state workers) in
    (exists w, (w < workers)%nat /\ nth w (finished s) true = true) ->
    total s = sum_f f iters.
  Proof.
    intros s (w & Hw & Hfin).
    destruct (Inv_run sch _ (Inv_init workers)) as (HL & HT & HF). fold s in HL, HT, HF.
    assert (Hlen : length (finished s) = workers).
    { subst s. rewrite run_length. cbn [init_state finished]. apply repeat_length. }
    specialize (HF w ltac:(lia) Hfin). rewrite HT. f_equal. lia.
  Qed.

  (** pieces are never handed out twice: the counter only grows by one per fetch *)
  Theorem indices_unique sch s w : (ctr (step (run sch s) w) <= S (ctr (run sch s)))%nat.
  Proof. unfold sched_step. destruct (nth w _ true); [lia|]. destruct (Nat.ltb _ _); cbn; lia. Qed.
End SchedP.

Example sched_example :
  total (sched_run 5 (fun i => N.of_nat (10 * i + 1)) [0;1;1;0;2;1;0;2;1;0]%nat (init_state 3))
  = sum_f (fun i => N.of_nat (10 * i + 1)) 5.
Proof. vm_compute. reflexivity. Qed.

(** C05 top level over the model kernel: counting / printing the k-tuplets of [start, stop] byte by byte, over the byte
    array that represents what the kernel model delivers, yields exactly the constellations of primes of the interval. *)
From Coq Require Import NArith ZArith List Bool Lia Sorted.
From PS Require Import Spec.Primes Gen.Tables Model.Pmath Model.Config Model.Count Model.CrossOff
  Proofs.TablesP Proofs.CountP Proofs.CountAddP Proofs.CrossOffP Proofs.KernelInitP Proofs.KernelListP Proofs.TupletsP.
Import ListNotations.
Local Open Scope N_scope.
Ltac Zify.zify_post_hook ::= Z.to_euclidean_division_equations.

Lemma cop30_bool_sweep : forallb (fun r => CountP.coprime30 r) cop30 = true.
Proof. vm_compute. reflexivity. Qed.

Lemma prime_coprime30_bool p : prime p -> 7 <= p -> CountP.coprime30 p = true.
Proof.
  intros Hp H7. rewrite CountP.coprime30_mod. pose proof cop30_bool_sweep as T. rewrite forallb_forall in T.
  apply T. exact (prime_coprime30 p Hp H7).
Qed.

Theorem ktuplets_model l1 maxKB idx start stop :
  16 <= maxKB -> maxKB <= 8192 -> (1 <= idx <= 5)%nat -> 7 <= start -> start <= stop -> stop <= MAX64 ->
  let low := start - byteRemainder start in
  let size := N.to_nat ((stop - low) / 30 + 1) in
  segment_tuplets (nth idx kBitmasks []) low (bytes_of_set (erat_self l1 maxKB start stop) low size)
  = tuplets_of_set idx (primes_between start stop).
Proof.
  intros K1 K2 Hi S1 S2 S3 low size.
  rewrite (erat_self_spec l1 maxKB K1 K2 start stop S1 S2 S3).
  assert (Hl : low mod 30 = 0) by (unfold low, byteRemainder; lia).
  assert (Hl7 : low + 7 <= start) by (unfold low, byteRemainder; lia).
  apply ktuplets_of_bytes; [exact Hi|exact Hl|apply primes_between_sorted|].
  intros x Hx. apply In_primes_between in Hx. destruct Hx as (H1 & H2 & Hp).
  split; [lia|]. split; [|apply prime_coprime30_bool; [exact Hp|lia]].
  unfold size. rewrite N2Nat.id. lia.
Qed.

(** Finite facts about the source tables (Gen/Tables.v is regenerated from
    /repo on every run, so these are re-proved against the current source). *)
From Coq Require Import NArith List Bool Lia.
From PS Require Import Spec.Primes Gen.Tables Model.PrimeGen.
Import ListNotations.
Local Open Scope N_scope.

Definition Nseq (n : nat) : list N := map N.of_nat (seq 0 n).

Lemma In_Nseq n x : x < N.of_nat n -> In x (Nseq n).
Proof. intros H. unfold Nseq. apply in_map_iff. exists (N.to_nat x). split; [lia|]. apply in_seq. lia. Qed.

(** smallPrimes[128] are exactly the primes <= 719 *)
Lemma smallPrimes_ok : smallPrimes = primes_between 0 719.
Proof. vm_compute. reflexivity. Qed.

Lemma maxCachedPrime_ok : maxCachedPrime = 719.
Proof. vm_compute. reflexivity. Qed.

Lemma smallPrimes_length : length smallPrimes = 128%nat.
Proof. vm_compute. reflexivity. Qed.

(** primePi[n] = number of primes <= n, for every n < 720: checked as
    primePi[0] = 0 and primePi[n+1] = primePi[n] + [n+1 prime], then lifted *)
Definition primePi_step_ok (n : N) : bool :=
  nthN primePi (n + 1) =? nthN primePi n + (if is_prime (n + 1) then 1 else 0).
Lemma primePi_steps_ok : nthN primePi 0 = 0 /\ forallb primePi_step_ok (Nseq 719) = true.
Proof. vm_compute. split; reflexivity. Qed.

Lemma primes_between_one n : primes_between n n = if is_prime n then [n] else [].
Proof.
  unfold primes_between. replace (n + 1 - n) with 1 by lia.
  unfold Nrange. change (N.to_nat 1) with 1%nat. cbn [seq map N.of_nat filter]. rewrite N.add_0_r. reflexivity.
Qed.

Lemma count_succ n : count_primes_spec 0 (n + 1) = count_primes_spec 0 n + (if is_prime (n + 1) then 1 else 0).
Proof.
  unfold count_primes_spec. rewrite (primes_between_split 0 n (n + 1)) by lia.
  rewrite app_length, primes_between_one. destruct (is_prime (n + 1)); cbn [length]; lia.
Qed.

Lemma primePi_ok n : n < 720 -> nthN primePi n = count_primes_spec 0 n.
Proof.
  destruct primePi_steps_ok as [H0 HS]. rewrite forallb_forall in HS.
  induction n as [|n IH] using N.peano_ind; intros Hn.
  - rewrite H0. vm_compute. reflexivity.
  - rewrite <- N.add_1_r. rewrite count_succ, <- IH by lia.
    specialize (HS n (In_Nseq 719 n ltac:(lia))). apply N.eqb_eq in HS. exact HS.
Qed.

Lemma primePi_length : length primePi = 720%nat.
Proof. vm_compute. reflexivity. Qed.

Lemma not_prime_720 : is_prime 720 = false.
Proof. vm_compute. reflexivity. Qed.

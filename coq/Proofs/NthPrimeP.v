(** C07: the model of nth_prime returns exactly the documented prime or throws,
    whatever the approximations return. *)
From Coq Require Import ZArith NArith List Bool Lia Arith.
From PS Require Import Spec.Primes Model.Pmath Model.NthPrime Proofs.PmathP Proofs.PrimeGenP.
Import ListNotations.
Local Open Scope N_scope.

Definition of_opt (o : option N) : nres := match o with Some p => NOk p | None => NThrow end.

Lemma primes_nonzero a b p : In p (primes_between a b) -> p <> 0.
Proof. intros H. apply In_primes_between in H. destruct H as (_ & _ & Hp). pose proof (prime_ge_2 _ Hp). lia. Qed.

Lemma nth_error_nth_in (l : list N) i : (i < length l)%nat -> nth_error l i = Some (nth i l 0).
Proof. intros H. apply nth_error_nth'. exact H. Qed.

Lemma nth_in_nonzero a b i : (i < length (primes_between a b))%nat -> nth i (primes_between a b) 0 <> 0.
Proof. intros H. apply (primes_nonzero a b). apply nth_In. exact H. Qed.

Lemma nth_rev_nonzero a b i : (i < length (primes_between a b))%nat -> nth i (rev (primes_between a b)) 0 <> 0.
Proof. intros H. apply (primes_nonzero a b). apply in_rev. apply nth_In. rewrite rev_length. exact H. Qed.

Lemma filter_len_le {A} (f : A -> bool) l : (length (filter f l) <= length l)%nat.
Proof. induction l as [|x l IH]; cbn; [lia|]. destruct (f x); cbn; lia. Qed.

Lemma primes_above_max : primes_between (MAX64 + 1) MAX64 = [] /\ primes_between MAX64 MAX64 = [].
Proof.
  split; [apply primes_between_empty; lia|]. apply primes_between_nil_iff. intros q Hq H1 H2.
  assert (q = MAX64) by lia. subst q. exact (not_prime_MAX64 Hq).
Qed.

(** value of a backward walk: nth with default 0 against nth_error *)
Lemma bwd_result (l : list N) i :
  (forall j, (j < length l)%nat -> nth j l 0 <> 0) ->
  (if nth i l 0 =? 0 then NThrow else NOk (nth i l 0)) = of_opt (nth_error l i).
Proof.
  intros Hnz. destruct (Nat.lt_ge_cases i (length l)) as [H|H].
  - rewrite nth_error_nth_in by exact H. cbn. destruct (N.eqb_spec (nth i l 0) 0) as [E|_]; [exfalso; exact (Hnz i H E)|reflexivity].
  - rewrite nth_overflow by exact H. apply nth_error_None in H. rewrite H. reflexivity.
Qed.

Section NthP.
  Variables primePiApprox nthPrimeApprox avgGap : N -> N.
  Variable cnt : N -> N -> N.
  Variable fwd : N -> N -> option N.
  Variable bwd : N -> N -> N.
  Hypothesis H_nth : forall x, nthPrimeApprox x <= MAX64.
  Hypothesis H_cnt : forall a b, b <= MAX64 -> cnt a b = N.of_nat (length (primes_between a b)).
  Hypothesis H_fwd : forall s k, s <= MAX64 -> 1 <= k -> fwd s k = nth_error (primes_between s MAX64) (N.to_nat (k - 1)).
  Hypothesis H_bwd : forall s k, s <= MAX64 -> 1 <= k -> bwd s k = nth (N.to_nat (k - 1)) (rev (primes_between 0 s)) 0.

  Notation nth_pos := (nth_pos primePiApprox nthPrimeApprox cnt fwd bwd).
  Notation nth_neg := (nth_neg primePiApprox nthPrimeApprox cnt fwd bwd).

  Lemma fwd_after s k : s <= MAX64 -> 1 <= k ->
    fwd (checkedAdd s 1) k = nth_error (primes_between (s + 1) MAX64) (N.to_nat (k - 1)).
  Proof.
    intros Hs Hk. rewrite H_fwd by (try apply checkedAdd_le; assumption).
    destruct (N.eq_dec s MAX64) as [->|Hne].
    - rewrite checkedAdd_sat; [|apply N.le_refl|apply N.le_add_r]. destruct primes_above_max as [E1 E2]. rewrite E1, E2. reflexivity.
    - rewrite checkedAdd_min by assumption. replace (N.min (s + 1) MAX64) with (s + 1) by lia. reflexivity.
  Qed.

  Theorem nth_pos_spec n start :
    1 <= n -> n <= max_n -> start <= MAX64 ->
    nth_pos n start = of_opt (nth_error (primes_between (start + 1) MAX64) (N.to_nat (n - 1))).
  Proof.
    intros Hn Hmax Hs. unfold NthPrime.nth_pos.
    destruct (N.ltb_spec max_n n) as [|_]; [lia|].
    set (pa := N.max (nthPrimeApprox _) start).
    assert (Hpa : start <= pa /\ pa <= MAX64) by (subst pa; pose proof (H_nth (N.min (checkedAdd (primePiApprox start) n) max_n)); lia).
    destruct (N.ltb_spec (N.sqrt pa / 10) (pa - start)) as [Hbig|Hsmall].
    - (* bulk count, then walk *)
      assert (Hlt : start < MAX64) by (pose proof (N.le_0_l (N.sqrt pa / 10)); lia).
      rewrite (checkedAdd_min start 1) by assumption. replace (N.min (start + 1) MAX64) with (start + 1) by lia.
      set (pa' := N.max (start + 1) pa). assert (Hpa' : start + 1 <= pa' /\ pa' <= MAX64) by (subst pa'; u64; lia).
      rewrite H_cnt by lia.
      set (L1 := primes_between (start + 1) pa').
      assert (HP : primes_between (start + 1) MAX64 = L1 ++ primes_between (pa' + 1) MAX64)
        by (apply primes_between_split; lia).
      destruct (N.ltb_spec (N.of_nat (length L1)) n) as [Hc|Hc].
      + rewrite fwd_after by lia. rewrite HP.
        rewrite nth_error_app2 by lia.
        replace (N.to_nat (n - 1) - length L1)%nat with (N.to_nat (n - N.of_nat (length L1) - 1)) by lia. reflexivity.
      + rewrite H_bwd by lia.
        assert (H0 : primes_between 0 pa' = primes_between 0 start ++ L1) by (apply primes_between_split; lia).
        rewrite H0, rev_app_distr.
        replace (N.to_nat (N.of_nat (length L1) - n + 1 - 1)) with (length L1 - N.to_nat n)%nat by lia.
        rewrite app_nth1 by (rewrite rev_length; lia).
        rewrite rev_nth by lia.
        replace (length L1 - S (length L1 - N.to_nat n))%nat with (N.to_nat (n - 1)) by lia.
        rewrite HP. rewrite nth_error_app1 by lia. rewrite nth_error_nth_in by lia. cbn [of_opt].
        destruct (N.eqb_spec (nth (N.to_nat (n - 1)) L1 0) 0) as [E|_]; [|reflexivity].
        exfalso. apply (nth_in_nonzero (start + 1) pa' (N.to_nat (n - 1))); [fold L1; lia|exact E].
    - destruct (N.ltb_spec 0 n) as [_|]; [|lia].
      rewrite fwd_after by lia. rewrite N.sub_0_r. reflexivity.
  Qed.

  Theorem nth_neg_spec m start :
    1 <= m -> start <= MAX64 ->
    (max_n < m -> nth_neg m start = NThrow) /\
    (m <= max_n -> nth_neg m start = of_opt (nth_error (rev (primes_between 0 (start - 1))) (N.to_nat (m - 1)))).
  Proof.
    intros Hm Hs. unfold NthPrime.nth_neg. split.
    { intros H. destruct (start <=? m); [reflexivity|]. destruct (N.ltb_spec max_n m); [reflexivity|lia]. }
    intros Hmax. destruct (N.leb_spec start m) as [Hsm|Hsm].
    { (* fewer than m numbers below start *)
      symmetry. replace (nth_error _ _) with (@None N); [reflexivity|]. symmetry. apply nth_error_None. rewrite rev_length.
      assert (Hlen : (length (primes_between 0 (start - 1)) <= N.to_nat (start - 1))%nat).
      { destruct (N.eq_dec start 0) as [->|Hne]; [vm_compute; lia|].
        rewrite <- (primes_between_lo 2 (start - 1)) by lia.
        unfold primes_between. etransitivity; [apply filter_len_le|]. rewrite Nrange_length. lia. }
      lia. }
    destruct (N.ltb_spec max_n m) as [|_]; [lia|].
    set (pa := N.min (nthPrimeApprox _) start).
    assert (Hpa : pa <= start) by (subst pa; lia).
    destruct (N.ltb_spec (N.sqrt start / 10) (start - pa)) as [Hbig|Hsmall].
    - rewrite (checkedSub_sub start 1).
      set (s1 := start - 1). set (pa' := N.min pa s1).
      assert (Hpa' : pa' <= s1 /\ s1 < MAX64) by (subst pa' s1; lia).
      rewrite H_cnt by lia.
      set (L1 := primes_between pa' s1).
      assert (H0 : primes_between 0 s1 = primes_between 0 (pa' - 1) ++ L1).
      { destruct (N.le_gt_cases pa' 2) as [Hle|Hgt].
        - assert (E : primes_between 0 (pa' - 1) = []).
          { apply primes_between_nil_iff. intros q Hq _ H2. pose proof (prime_ge_2 _ Hq). lia. }
          rewrite E. cbn [app]. subst L1. symmetry. apply primes_between_lo. exact Hle.
        - rewrite (primes_between_split 0 (pa' - 1) s1) by lia. subst L1. do 2 f_equal. lia. }
      destruct (N.leb_spec m (N.of_nat (length L1))) as [Hc|Hc].
      + rewrite H_fwd by lia.
        assert (HP : primes_between pa' MAX64 = L1 ++ primes_between (s1 + 1) MAX64) by (apply primes_between_split; lia).
        rewrite HP. rewrite nth_error_app1 by lia. rewrite nth_error_nth_in by lia. cbn [of_opt].
        fold s1. rewrite H0, rev_app_distr. rewrite nth_error_app1 by (rewrite rev_length; lia).
        rewrite nth_error_nth_in by (rewrite rev_length; lia). cbn [of_opt]. f_equal.
        rewrite rev_nth by lia. f_equal. lia.
      + rewrite checkedSub_sub. rewrite H_bwd by lia.
        fold s1. rewrite H0, rev_app_distr. rewrite nth_error_app2 by (rewrite rev_length; lia). rewrite rev_length.
        replace (N.to_nat (m - N.of_nat (length L1) - 1)) with (N.to_nat (m - 1) - length L1)%nat by lia.
        apply bwd_result. intros j Hj. rewrite rev_length in Hj. apply nth_rev_nonzero. exact Hj.
    - destruct (N.leb_spec m 0) as [|_]; [lia|].
      rewrite checkedSub_sub. rewrite H_bwd by lia. rewrite N.sub_0_r.
      apply bwd_result. intros j Hj. rewrite rev_length in Hj. apply nth_rev_nonzero. exact Hj.
  Qed.
End NthP.

Section NthTop.
  Variables primePiApprox nthPrimeApprox avgGap : N -> N.
  Variable cnt : N -> N -> N.
  Variable fwd : N -> N -> option N.
  Variable bwd : N -> N -> N.
  Hypothesis H_nth : forall x, nthPrimeApprox x <= MAX64.
  Hypothesis H_cnt : forall a b, b <= MAX64 -> cnt a b = N.of_nat (length (primes_between a b)).
  Hypothesis H_fwd : forall s k, s <= MAX64 -> 1 <= k -> fwd s k = nth_error (primes_between s MAX64) (N.to_nat (k - 1)).
  Hypothesis H_bwd : forall s k, s <= MAX64 -> 1 <= k -> bwd s k = nth (N.to_nat (k - 1)) (rev (primes_between 0 s)) 0.
  Notation nth_prime := (nth_prime primePiApprox nthPrimeApprox cnt fwd bwd).

  (** C07: for |n| <= pi(2^64) the model returns exactly the documented prime, or throws
      when that prime does not exist - whatever the approximation functions return *)
  Theorem nth_prime_correct n start :
    start <= MAX64 -> (Z.abs n <= Z.of_N max_n)%Z ->
    nth_prime n start = of_opt (nth_spec n start).
  Proof.
    intros Hs Hn. destruct n as [|k|k]; unfold NthPrime.nth_prime, nth_spec.
    - rewrite (nth_pos_spec _ _ cnt fwd bwd H_nth H_cnt H_fwd H_bwd 1 (checkedSub start 1)); try (rewrite ?checkedSub_sub; unfold max_n; u64; lia).
      rewrite checkedSub_sub. change (N.to_nat (1 - 1)) with 0%nat.
      destruct (N.eq_dec start 0) as [->|Hne].
      + change (0 - 1 + 1) with 1. rewrite (primes_between_lo 1 MAX64) by lia. reflexivity.
      + replace (start - 1 + 1) with start by lia. reflexivity.
    - apply (nth_pos_spec _ _ cnt fwd bwd H_nth H_cnt H_fwd H_bwd); [lia| |exact Hs]. cbn [Z.abs] in Hn. lia.
    - destruct (Z.eqb_spec (Z.neg k) (-9223372036854775808)) as [E|_].
      + exfalso. rewrite E in Hn. unfold max_n in Hn. cbn in Hn. lia.
      + destruct (nth_neg_spec primePiApprox nthPrimeApprox cnt fwd bwd H_cnt H_fwd H_bwd (N.pos k) start ltac:(lia) Hs) as [_ G].
        apply G. cbn [Z.abs Z.opp] in Hn. lia.
  Qed.

  (** |n| > max_n = 425656284035217743 (the code's constant for pi(2^64)): always an error *)
  Theorem nth_prime_large n start :
    start <= MAX64 -> (Z.of_N max_n < Z.abs n)%Z -> nth_prime n start = NThrow.
  Proof.
    intros Hs Hn. destruct n as [|k|k]; unfold NthPrime.nth_prime.
    - cbn in Hn. lia.
    - unfold NthPrime.nth_pos. destruct (N.ltb_spec max_n (N.pos k)) as [_|H]; [reflexivity|]. cbn [Z.abs] in Hn. lia.
    - destruct (Z.eqb (Z.neg k) (-9223372036854775808)); [reflexivity|].
      destruct (nth_neg_spec primePiApprox nthPrimeApprox cnt fwd bwd H_cnt H_fwd H_bwd (N.pos k) start ltac:(lia) Hs) as [G _].
      apply G. cbn [Z.abs Z.opp] in Hn. lia.
  Qed.
End NthTop.

(** non-vacuity: the hypotheses are satisfied by the specification functions themselves *)
Definition spec_cnt (a b : N) : N := N.of_nat (length (primes_between a b)).
Definition spec_fwd (s k : N) : option N := nth_error (primes_between s MAX64) (N.to_nat (k - 1)).
Definition spec_bwd (s k : N) : N := nth (N.to_nat (k - 1)) (rev (primes_between 0 s)) 0.

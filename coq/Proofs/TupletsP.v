(** C05, segment level: counting / printing k-tuplets byte by byte with the bit masks of the source finds exactly the
    constellations all of whose members are among the numbers of the set bits of the segment (no constellation spans
    two bytes, every byte contributes exactly its own). *)
From Coq Require Import NArith ZArith List Bool Lia.
From PS Require Import Spec.Primes Gen.Tables Model.Count Proofs.TablesP Proofs.CountP Proofs.CountAddP Proofs.KernelListP.
Import ListNotations.
Local Open Scope N_scope.
Ltac Zify.zify_post_hook ::= Z.to_euclidean_division_equations.

(** the numbers of all set bits of a segment (bytes in order, base low) *)
Fixpoint seg_numbers (low : N) (bytes : list N) : list N :=
  match bytes with
  | [] => []
  | j :: bs => byte_numbers low j ++ seg_numbers (low + 30) bs
  end.

Lemma mem_In x S : mem x S = true <-> In x S.
Proof.
  unfold mem. rewrite existsb_exists. split; [intros (y & Hy & E); apply N.eqb_eq in E; subst; exact Hy|].
  intros H. exists x. split; [exact H|apply N.eqb_refl].
Qed.

Lemma bv_values : forall i, (i < 8)%nat -> 7 <= nth i bv 0 <= 31 /\ coprime30 (nth i bv 0) = true.
Proof. intros i Hi. do 8 (destruct i as [|i]; [cbn; split; [lia|reflexivity]|]). lia. Qed.

Lemma byte_numbers_range low j x : low mod 30 = 0 -> In x (byte_numbers low j) ->
  low + 7 <= x <= low + 31 /\ coprime30 x = true.
Proof.
  intros Hl H. unfold byte_numbers in H. apply in_map_iff in H. destruct H as (i & <- & Hi). apply filter_In in Hi.
  destruct Hi as [Hi _]. apply in_seq in Hi. destruct (bv_values i ltac:(lia)) as [Hr Hc]. split; [lia|].
  rewrite coprime30_mod. rewrite <- Hc. rewrite (coprime30_mod (nth i bv 0)). f_equal.
  rewrite N.add_mod by lia. rewrite Hl. cbn [N.add]. apply N.mod_mod. lia.
Qed.

Lemma seg_numbers_range bytes : forall low x, low mod 30 = 0 -> In x (seg_numbers low bytes) ->
  low + 7 <= x /\ coprime30 x = true.
Proof.
  induction bytes as [|j bs IH]; intros low x Hl H; cbn [seg_numbers] in H; [destruct H|].
  apply in_app_iff in H. destruct H as [H|H].
  - destruct (byte_numbers_range low j x Hl H) as [Hr Hc]. split; [lia|exact Hc].
  - destruct (IH (low + 30) x ltac:(lia) H) as [Hr Hc]. split; [lia|exact Hc].
Qed.

Lemma forallb_eq_iff {A} (f g : A -> bool) l : (forallb f l = true <-> forallb g l = true) -> forallb f l = forallb g l.
Proof. intros H. destruct (forallb f l), (forallb g l); try reflexivity; destruct H as [H1 H2]; [symmetry; apply H1; reflexivity|apply H2; reflexivity]. Qed.

Lemma forallb_ext_in'' {A} (f g : A -> bool) l : (forall x, In x l -> f x = g x) -> forallb f l = forallb g l.
Proof.
  induction l as [|a r IH]; intros H; cbn [forallb]; [reflexivity|].
  rewrite (H a (or_introl eq_refl)), IH; [reflexivity|]. intros x Hx. apply H. right. exact Hx.
Qed.
Lemma forallb_map {A B} (f : B -> bool) (g : A -> B) l : forallb f (map g l) = forallb (fun x => f (g x)) l.
Proof. induction l as [|a r IH]; cbn [map forallb]; [reflexivity|]. rewrite IH. reflexivity. Qed.

Lemma flat_map_ext_in' {A B} (f g : A -> list B) l : (forall x, In x l -> f x = g x) -> flat_map f l = flat_map g l.
Proof.
  induction l as [|a r IH]; intros H; cbn [flat_map]; [reflexivity|].
  rewrite (H a (or_introl eq_refl)), IH; [reflexivity|]. intros x Hx. apply H. right. exact Hx.
Qed.

(** tuplets_of_set splits over a concatenation whose parts do not share constellations *)
Lemma tos_app idx A B :
  (forall p sh, In p A -> In sh (shapes idx) ->
     forallb (fun x => mem x (A ++ B)) (map (N.add p) sh) = forallb (fun x => mem x A) (map (N.add p) sh)) ->
  (forall p sh, In p B -> In sh (shapes idx) ->
     forallb (fun x => mem x (A ++ B)) (map (N.add p) sh) = forallb (fun x => mem x B) (map (N.add p) sh)) ->
  tuplets_of_set idx (A ++ B) = tuplets_of_set idx A ++ tuplets_of_set idx B.
Proof.
  intros H1 H2. unfold tuplets_of_set. rewrite flat_map_app. f_equal.
  - apply flat_map_ext_in'. intros p Hp. apply flat_map_ext_in'. intros sh Hsh. cbv zeta. rewrite (H1 p sh Hp Hsh). reflexivity.
  - apply flat_map_ext_in'. intros p Hp. apply flat_map_ext_in'. intros sh Hsh. cbv zeta. rewrite (H2 p sh Hp Hsh). reflexivity.
Qed.

(** shifting the set shifts the constellations *)
Lemma mem_shift low x S : mem (low + x) (map (N.add low) S) = mem x S.
Proof.
  destruct (mem x S) eqn:E.
  - apply mem_In. apply mem_In in E. apply in_map. exact E.
  - destruct (mem (low + x) (map (N.add low) S)) eqn:E2; [|reflexivity]. apply mem_In in E2. apply in_map_iff in E2.
    destruct E2 as (y & Ey & Hy). assert (y = x) by lia. subst y. apply mem_In in Hy. congruence.
Qed.

(** the constellations of kind idx that start at p and lie in T *)
Definition cand (idx : nat) (T : list N) (p : N) : list (list N) :=
  flat_map (fun sh => let t := map (N.add p) sh in if forallb (fun x => mem x T) t then [t] else []) (shapes idx).
Lemma tos_cand idx S : tuplets_of_set idx S = flat_map (cand idx S) S.
Proof. reflexivity. Qed.

Lemma cand_shift idx low T p : cand idx (map (N.add low) T) (low + p) = map (map (N.add low)) (cand idx T p).
Proof.
  unfold cand. induction (shapes idx) as [|sh shs IH]; [reflexivity|].
  change (flat_map ?f (sh :: shs)) with (f sh ++ flat_map f shs). rewrite IH, map_app. f_equal. cbv beta zeta.
  assert (E : forallb (fun x => mem x (map (N.add low) T)) (map (N.add (low + p)) sh) = forallb (fun x => mem x T) (map (N.add p) sh)).
  { rewrite !forallb_map. apply forallb_ext_in''. intros d _. replace (low + p + d) with (low + (p + d)) by lia. apply mem_shift. }
  rewrite E. destruct (forallb (fun x => mem x T) (map (N.add p) sh)); [|reflexivity].
  cbn [map]. f_equal. rewrite !map_map. apply map_ext. intros d. lia.
Qed.

Lemma tos_shift idx low S : tuplets_of_set idx (map (N.add low) S) = map (map (N.add low)) (tuplets_of_set idx S).
Proof.
  rewrite !tos_cand. generalize S at 1 3 as T. intros T.
  induction S as [|p r IH]; [reflexivity|].
  change (map (N.add low) (p :: r)) with ((low + p) :: map (N.add low) r).
  change (flat_map ?f (?a :: ?l)) with (f a ++ flat_map f l). rewrite IH, map_app, cand_shift. reflexivity.
Qed.

Lemma byte_tuplets_spec idx low j : (1 <= idx <= 5)%nat -> j < 256 ->
  byte_tuplets (nth idx kBitmasks []) low j = tuplets_of_set idx (byte_numbers low j).
Proof.
  intros Hi Hj. rewrite (byte_numbers_shift low j), tos_shift, <- (mask_lemma idx j Hi Hj).
  unfold byte_tuplets. rewrite map_map. apply map_ext. intros m. apply byte_numbers_shift.
Qed.

Lemma shapes_last : forall idx sh d, In sh (shapes idx) -> In d sh -> d <= last sh 0.
Proof.
  intros idx sh d Hsh Hd. destruct idx as [|[|[|[|[|[|idx]]]]]]; cbn [shapes] in Hsh;
    repeat (destruct Hsh as [<-|Hsh]; [cbn in Hd |- *; lia|]); destruct Hsh.
Qed.

Lemma in_app_mem x A B : mem x (A ++ B) = mem x A || mem x B.
Proof. unfold mem. apply existsb_app. Qed.

(** counting / printing k-tuplets byte by byte = the constellations within the set bits of the whole segment *)
Theorem segment_tuplets_spec idx : (1 <= idx <= 5)%nat -> forall bytes low,
  low mod 30 = 0 -> Forall (fun j => j < 256) bytes ->
  segment_tuplets (nth idx kBitmasks []) low bytes = tuplets_of_set idx (seg_numbers low bytes).
Proof.
  intros Hi. induction bytes as [|j bs IH]; intros low Hl Hb; cbn [segment_tuplets seg_numbers]; [reflexivity|].
  inversion Hb as [|? ? Hj Hbs]; subst.
  rewrite (IH (low + 30) ltac:(lia) Hbs), (byte_tuplets_spec idx low j Hi Hj). symmetry. apply tos_app.
  - (* a constellation that starts in this byte and lies in the segment lies in this byte *)
    intros p sh Hp Hsh. apply forallb_eq_iff. rewrite !forallb_forall. split.
    + intros HA x Hx. pose proof (HA x Hx) as H. rewrite in_app_mem in H. apply orb_true_iff in H. destruct H as [H|H]; [exact H|exfalso].
      apply mem_In in H. destruct (seg_numbers_range bs (low + 30) x ltac:(lia) H) as [Hr _].
      (* all members are coprime to 30, so the constellation ends inside the byte of p *)
      destruct (byte_numbers_range low j p Hl Hp) as [Hpr _].
      assert (Hco : forall d, In d sh -> CountP.coprime30 (p + d) = true).
      { intros d Hd. pose proof (HA (p + d) (in_map (N.add p) sh d Hd)) as Hmem.
        rewrite in_app_mem in Hmem. apply orb_true_iff in Hmem. destruct Hmem as [Hm1|Hm1]; apply mem_In in Hm1.
        - exact (proj2 (byte_numbers_range low j _ Hl Hm1)).
        - exact (proj2 (seg_numbers_range bs (low + 30) _ ltac:(lia) Hm1)). }
      pose proof (tuplet_one_byte idx sh p Hi Hsh ltac:(lia) Hco) as T. cbv zeta in T. destruct T as (_ & _ & T).
      apply in_map_iff in Hx. destruct Hx as (d & <- & Hd). pose proof (shapes_last idx sh d Hsh Hd). lia.
    + intros H x Hx. rewrite in_app_mem, (H x Hx). reflexivity.
  - (* a constellation that starts in a later byte has no member in this byte *)
    intros p sh Hp Hsh. apply forallb_ext_in''. intros x Hx. rewrite in_app_mem.
    destruct (mem x (byte_numbers low j)) eqn:E; [exfalso|reflexivity].
    apply mem_In in E. destruct (byte_numbers_range low j x Hl E) as [Hr _].
    destruct (seg_numbers_range bs (low + 30) p ltac:(lia) Hp) as [Hpr _].
    apply in_map_iff in Hx. destruct Hx as (d & <- & _). lia.
Qed.

(** ---- the byte array that represents a set of numbers: bit i of byte j is set iff low + 30*j + bv[i] is in S *)
Definition set_byte (S : list N) (low : N) : N :=
  fold_right (fun i acc => (if mem (low + nth i bv 0) S then 2 ^ N.of_nat i else 0) + acc) 0 (seq 0 8).
Fixpoint bytes_of_set (S : list N) (low : N) (size : nat) : list N :=
  match size with O => [] | Datatypes.S k => set_byte S low :: bytes_of_set S (low + 30) k end.

Definition bits_byte (bs : list bool) : N :=
  fold_right (fun (ib : nat * bool) acc => (if snd ib then 2 ^ N.of_nat (fst ib) else 0) + acc) 0 (combine (seq 0 8) bs).
Fixpoint all_bools (n : nat) : list (list bool) :=
  match n with O => [[]] | S k => flat_map (fun l : list bool => [true :: l; false :: l]) (all_bools k) end.
Lemma bits_byte_sweep : forallb (fun bs => (bits_byte bs <? 256) &&
    forallb (fun i => Bool.eqb (N.testbit (bits_byte bs) (N.of_nat i)) (nth i bs false)) (seq 0 8)) (all_bools 8) = true.
Proof. vm_compute. reflexivity. Qed.

Lemma all_bools_complete n : forall l, length l = n -> In l (all_bools n).
Proof.
  induction n as [|n IH]; intros l Hl.
  - destruct l; [left; reflexivity|discriminate].
  - destruct l as [|b l]; [discriminate|]. cbn [all_bools]. apply in_flat_map. exists l. split; [apply IH; cbn in Hl; lia|].
    destruct b; [left; reflexivity|right; left; reflexivity].
Qed.

Lemma set_byte_bits S low : set_byte S low = bits_byte (map (fun i => mem (low + nth i bv 0) S) (seq 0 8)).
Proof. reflexivity. Qed.

Lemma set_byte_spec S low : set_byte S low < 256 /\
  forall i, (i < 8)%nat -> N.testbit (set_byte S low) (N.of_nat i) = mem (low + nth i bv 0) S.
Proof.
  rewrite set_byte_bits. set (bs := map (fun i => mem (low + nth i bv 0) S) (seq 0 8)).
  pose proof bits_byte_sweep as T. rewrite forallb_forall in T.
  specialize (T bs (all_bools_complete 8 bs ltac:(unfold bs; rewrite map_length, seq_length; reflexivity))).
  apply andb_true_iff in T. destruct T as [T1 T2]. split; [apply N.ltb_lt; exact T1|].
  intros i Hi. rewrite forallb_forall in T2. specialize (T2 i ltac:(apply in_seq; lia)). apply eqb_prop in T2. rewrite T2.
  unfold bs. rewrite (nth_indep _ false (mem (low + nth 0%nat bv 0) S)) by (rewrite map_length, seq_length; exact Hi).
  change (mem (low + nth 0%nat bv 0) S) with ((fun i => mem (low + nth i bv 0) S) 0%nat). rewrite map_nth, seq_nth by exact Hi. reflexivity.
Qed.

Lemma byte_numbers_set_byte S low :
  byte_numbers low (set_byte S low) = filter (fun x => mem x S) (map (fun i => low + nth i bv 0) (seq 0 8)).
Proof.
  unfold byte_numbers. destruct (set_byte_spec S low) as [_ Hb].
  (* filter commutes with map; the two filters agree on seq 0 8 *)
  rewrite (filter_ext_in _ (fun i => mem (low + nth i bv 0) S) (seq 0 8)).
  - induction (seq 0 8) as [|i r IH]; [reflexivity|]. cbn [filter map]. destruct (mem (low + nth i bv 0) S); cbn [map]; rewrite IH; reflexivity.
  - intros i Hi. apply in_seq in Hi. apply Hb. lia.
Qed.

(** all numbers a segment of [size] bytes based at low can represent, ascending *)
Fixpoint cands (low : N) (size : nat) : list N :=
  match size with O => [] | Datatypes.S k => map (fun i => low + nth i bv 0) (seq 0 8) ++ cands (low + 30) k end.

Lemma seg_numbers_of_set S : forall size low, seg_numbers low (bytes_of_set S low size) = filter (fun x => mem x S) (cands low size).
Proof.
  induction size as [|k IH]; intros low; cbn [bytes_of_set seg_numbers cands]; [reflexivity|].
  rewrite filter_app, IH, byte_numbers_set_byte. reflexivity.
Qed.

Lemma bytes_of_set_lt S : forall size low, Forall (fun j => j < 256) (bytes_of_set S low size).
Proof. induction size as [|k IH]; intros low; cbn [bytes_of_set]; constructor; [exact (proj1 (set_byte_spec S low))|apply IH]. Qed.

Lemma cands_range : forall size low x, In x (cands low size) -> low + 7 <= x /\ x <= low + 30 * N.of_nat size + 1.
Proof.
  induction size as [|k IH]; intros low x H; cbn [cands] in H; [destruct H|].
  apply in_app_iff in H. destruct H as [H|H].
  - apply in_map_iff in H. destruct H as (i & <- & Hi). apply in_seq in Hi. destruct (bv_values i ltac:(lia)) as [Hr _]. lia.
  - specialize (IH _ _ H). lia.
Qed.

Lemma cands_sorted : forall size low, Sorted.StronglySorted N.lt (cands low size).
Proof.
  induction size as [|k IH]; intros low; cbn [cands]; [constructor|].
  apply Proofs.KernelListP.sorted_app; [|apply IH|].
  - cbn. repeat constructor; lia.
  - intros x y Hx Hy. apply in_map_iff in Hx. destruct Hx as (i & <- & Hi). apply in_seq in Hi. destruct (bv_values i ltac:(lia)) as [Hr _].
    destruct (cands_range _ _ _ Hy). lia.
Qed.

Lemma In_cands : forall size low x, low mod 30 = 0 -> low + 7 <= x -> x <= low + 30 * N.of_nat size + 1 -> coprime30 x = true -> In x (cands low size).
Proof.
  induction size as [|k IH]; intros low x Hl H1 H2 Hc; [exfalso; cbn in H2|].
  - (* x in (low+7 .. low+1]: impossible *) lia.
  - cbn [cands]. apply in_app_iff. destruct (N.le_gt_cases x (low + 31)) as [Hle|Hgt].
    + left. (* x = low + bv_i for the residue of x *)
      assert (T : forallb (fun r => negb (coprime30 r) || existsb (N.eqb (if r =? 1 then 31 else r)) bv) (Nseq 30) = true) by (vm_compute; reflexivity).
      rewrite forallb_forall in T. assert (Hr : x mod 30 < N.of_nat 30) by (change (N.of_nat 30) with 30; apply N.mod_lt; lia).
      specialize (T _ (In_Nseq 30 _ Hr)). rewrite <- coprime30_mod, Hc in T. cbn [negb orb] in T.
      apply existsb_exists in T. destruct T as (v & Hv & Ev). apply N.eqb_eq in Ev.
      destruct (In_nth _ _ 0 Hv) as (i & Hi & Ei). apply in_map_iff. exists i. split; [|apply in_seq; cbn in Hi; lia].
      assert (H0 : x mod 30 <> 0) by (intros E0; rewrite coprime30_mod, E0 in Hc; discriminate).
      rewrite Ei, <- Ev. destruct (N.eqb_spec (x mod 30) 1); lia.
    + right.
      assert (T : forallb (fun r => negb (coprime30 r) || (r =? 1) || (7 <=? r)) (Nseq 30) = true) by (vm_compute; reflexivity).
      rewrite forallb_forall in T. assert (Hr : x mod 30 < N.of_nat 30) by (change (N.of_nat 30) with 30; apply N.mod_lt; lia).
      specialize (T _ (In_Nseq 30 _ Hr)). rewrite <- coprime30_mod, Hc in T. cbn [negb orb] in T.
      apply orb_true_iff in T. assert (Hres : x mod 30 = 1 \/ 7 <= x mod 30) by (destruct T as [T|T]; [left; apply N.eqb_eq; exact T|right; apply N.leb_le; exact T]).
      apply IH; [lia|lia|lia|exact Hc].
Qed.

(** the byte array of a sorted set of numbers of the segment represents exactly that set *)
Lemma seg_numbers_bytes_of_set S low size : low mod 30 = 0 -> Sorted.StronglySorted N.lt S ->
  (forall x, In x S -> low + 7 <= x /\ x <= low + 30 * N.of_nat size + 1 /\ coprime30 x = true) ->
  seg_numbers low (bytes_of_set S low size) = S.
Proof.
  intros Hl Hs Hin. rewrite seg_numbers_of_set. apply Proofs.CountAddP.sorted_ext.
  - apply Spec.Primes.StronglySorted_filter. apply cands_sorted.
  - exact Hs.
  - intros x. rewrite filter_In, mem_In. split; [tauto|]. intros H. split; [|exact H].
    destruct (Hin x H) as (H1 & H2 & H3). apply In_cands; assumption.
Qed.

(** top level: counting k-tuplets byte by byte over the array that represents the set S = the constellations of S *)
Theorem ktuplets_of_bytes idx S low size : (1 <= idx <= 5)%nat -> low mod 30 = 0 -> Sorted.StronglySorted N.lt S ->
  (forall x, In x S -> low + 7 <= x /\ x <= low + 30 * N.of_nat size + 1 /\ coprime30 x = true) ->
  segment_tuplets (nth idx kBitmasks []) low (bytes_of_set S low size) = tuplets_of_set idx S.
Proof.
  intros Hi Hl Hs Hin. rewrite (segment_tuplets_spec idx Hi _ low Hl (bytes_of_set_lt S size low)).
  rewrite (seg_numbers_bytes_of_set S low size Hl Hs Hin). reflexivity.
Qed.

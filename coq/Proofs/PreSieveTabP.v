(** L3 (finite checks, computed once): the 16 pre-sieve tables of the source (123 KB) are exact: bit b of byte k of the AND of all tables is set iff
    the number 30k + bv[b] is divisible by none of the primes 7..163; the restored primeBits are the primes <= 241. *)
From Coq Require Import NArith ZArith List Bool Lia.
From PS Require Import Spec.Primes Gen.Tables Gen.PreSieveTables Model.Count Model.PreSieveM Proofs.TablesP.
Import ListNotations.
Local Open Scope N_scope.
Ltac Zify.zify_post_hook ::= Z.to_euclidean_division_equations.

Definition nthb (i : N) : N := nth (N.to_nat i) bv 0.
Definition no_divisor (ps : list N) (n : N) : bool := forallb (fun p => negb (n mod p =? 0)) ps.

(** one table against its prime set: length = product of the primes (so that the table is periodic in the
    byte index), every bit = "not divisible by any prime of the set" (checked by one pass over the table) *)
Fixpoint table_rows (ps : list N) (k : N) (t : list N) : bool :=
  match t with
  | [] => true
  | x :: r => forallb (fun b => Bool.eqb (N.testbit x b) (no_divisor ps (30 * k + nthb b))) (Nseq 8) && table_rows ps (k + 1) r
  end.
Definition table_ok (t : list N) (ps : list N) : bool :=
  (N.of_nat (length t) =? fold_right N.mul 1 ps) && forallb (fun p => 1 <? p) ps && table_rows ps 0 t.

Lemma table_rows_nth ps : forall t k0, table_rows ps k0 t = true -> forall i, (i < length t)%nat -> forall b, b < 8 ->
  N.testbit (nth i t 255) b = no_divisor ps (30 * (k0 + N.of_nat i) + nthb b).
Proof.
  induction t as [|x r IH]; intros k0 H i Hi b Hb; cbn [length] in Hi; [lia|].
  cbn [table_rows] in H. apply andb_true_iff in H. destruct H as [H1 H2].
  destruct i as [|i'].
  - cbn [nth]. rewrite forallb_forall in H1. specialize (H1 b (In_Nseq 8 _ Hb)). apply eqb_prop in H1.
    rewrite H1. replace (k0 + N.of_nat 0) with k0 by lia. reflexivity.
  - cbn [nth]. rewrite (IH (k0 + 1) H2 i' ltac:(lia) b Hb). f_equal. lia.
Qed.

Lemma tables_ok : forallb (fun tp => table_ok (fst tp) (snd tp)) (combine preSieveTables preSievePrimeSets) = true.
Proof. vm_compute. reflexivity. Qed.

Lemma tables_count : length preSieveTables = 16%nat /\ length preSievePrimeSets = 16%nat.
Proof. split; reflexivity. Qed.

(** the prime sets together are exactly the primes 7..163 *)
Lemma prime_sets_ok : forall p, In p (concat preSievePrimeSets) <-> In p (primes_between 7 163).
Proof.
  assert (E : forallb (fun p => existsb (N.eqb p) (primes_between 7 163)) (concat preSievePrimeSets) &&
              forallb (fun p => existsb (N.eqb p) (concat preSievePrimeSets)) (primes_between 7 163) = true) by (vm_compute; reflexivity).
  apply andb_true_iff in E. destruct E as [E1 E2]. rewrite forallb_forall in E1, E2.
  intros p. split; intros H.
  - specialize (E1 p H). apply existsb_exists in E1. destruct E1 as (y & Hy & Ey). apply N.eqb_eq in Ey. subst. exact Hy.
  - specialize (E2 p H). apply existsb_exists in E2. destruct E2 as (y & Hy & Ey). apply N.eqb_eq in Ey. subst. exact Hy.
Qed.

(** the restored first bytes: bit b of primeBits[k] is set iff 30k + bv[b] is prime (k < 8: the numbers 7..241) *)
Lemma primeBits_ok : forallb (fun k => forallb (fun b => Bool.eqb (N.testbit (nth (N.to_nat k) primeBits 255) b) (is_prime (30 * k + nthb b))) (Nseq 8)) (Nseq 8) = true.
Proof. vm_compute. reflexivity. Qed.

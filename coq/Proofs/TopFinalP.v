(** the top-of-range and store theorems with [largest_prime_hyp] discharged by the primality certificate (PockCert) *)
From Coq Require Import NArith List Bool.
From PS Require Import Spec.Primes Spec.Cursor Model.Store Model.CrossOff Proofs.StoreP Proofs.TopP Proofs.IteratorCor Proofs.KernelInstP Proofs.PockCert.
Import ListNotations.
Local Open Scope N_scope.

Theorem next_after_largest_proved h c' r :
  cursor_step (MAXPRIME64 + 1, h) Next c' r -> r = Err /\ c' = (MAXPRIME64 + 1, h).
Proof. exact (next_after_largest h c' r largest_prime_proved). Qed.

Theorem store_primes_final l1 maxKB cut maxV start stop v0 : 16 <= maxKB -> maxKB <= 8192 -> cut_spec cut ->
  start <= MAX64 -> stop <= MAX64 ->
  store_primes maxV start stop (cut (sieve_model l1 maxKB start MAX64)) v0 =
    if (start <=? stop) && (start <=? MAXPRIME64) && (maxV <? stop) then SThrow v0
    else SOk (v0 ++ primes_between start stop).
Proof. intros K1 K2 HC. exact (store_primes_model l1 maxKB cut maxV start stop v0 K1 K2 HC largest_prime_proved). Qed.

(** L3/L4: the three-algorithm kernel over the segments and thresholds the geometry model (Erat::init / initAlgorithms)
    produces for any configuration and interval, with the sieving primes = the primes 164 <= p <= sqrt(stop) in ascending
    order (what SievingPrimes delivers above the pre-sieve): EratSmall gets the primes <= maxEratSmall_, EratMedium those
    <= maxEratMedium_, EratBig the rest, and EratBig's log2SieveSize_ is ilog2 of the (power-of-two) sieve size. *)
From Coq Require Import NArith ZArith List Bool Lia Sorted.
From PS Require Import Spec.Primes Gen.Tables Model.Pmath Model.Config Model.EratGeom Model.Count Model.Wheel Model.CrossOff
  Model.EratMediumM Model.EratBigM Model.Erat3M Model.KernelPs
  Proofs.TablesP Proofs.PmathP Proofs.ConfigP Proofs.EratGeomP Proofs.CrossOffP Proofs.KernelP Proofs.KernelTopP Proofs.KernelListP
  Proofs.BytesTopP Proofs.EratBigP Proofs.Erat3LoopP Proofs.Erat3TotalP.
Import ListNotations.
Local Open Scope N_scope.

(** no segment is longer than the sieve array *)
Lemma segments_loop_sizes_le stop : stop <= MAX64 -> forall fuel low high size l,
  geom_inv stop low high size -> segments_loop fuel stop low high size = Some l ->
  Forall (fun sg => s_bytes sg <= size) l.
Proof.
  intros Hstop. induction fuel as [|f IH]; intros low high size l Hinv H; cbn [segments_loop] in H; [discriminate|].
  destruct (N.ltb_spec low stop) as [Hlt|]; [|injection H as <-; constructor].
  pose proof (sieve_segment_spec stop low high size Hstop Hinv) as HS.
  unfold sieve_segment in *. destruct (N.ltb_spec high stop) as [Hh|Hh].
  - destruct HS as (Hok & Hl & Hnext). cbn [s_last] in Hnext. destruct Hnext as (Hinv' & _ & _ & _).
    match type of H with option_map _ ?x = _ => destruct x as [rest|] eqn:Er; [|discriminate] end.
    cbn in H. injection H as <-. constructor; [cbn; lia|]. apply (IH _ _ _ _ Hinv' Er).
  - destruct HS as (Hok & Hl & Hnext). cbn [s_last] in Hnext.
    match type of H with option_map _ ?x = _ => destruct x as [rest|] eqn:Er; [|discriminate] end.
    cbn in H. injection H as <-.
    destruct f as [|f']; [discriminate|]. cbn [segments_loop] in Er. rewrite N.ltb_irrefl in Er. injection Er as <-.
    constructor; [|constructor].
    destruct Hok as (_ & Hb & _ & Hlast). cbn [s_last s_low s_bytes] in *. destruct Hinv as (_ & H7s & _ & Hhi).
    set (bytes := wrap_sz (wrap_sz (stop + U64 - byteRemainder stop) + U64 - low) / 30 + 1) in *.
    assert (7 <= byteRemainder stop /\ byteRemainder stop <= stop) by (unfold byteRemainder; lia). clearbody bytes. lia.
Qed.

Lemma isPow2_log2 x : isPow2 x = true -> x = 2 ^ N.log2 x.
Proof. unfold isPow2. intros H. apply andb_true_iff in H. destruct H as [_ H]. apply N.eqb_eq in H. exact H. Qed.

(** the geometric hypotheses of the loop theorems hold for the segments of the geometry model *)
Lemma erat3_geometry l1 maxKB start stop fuelg l :
  16 <= maxKB -> maxKB <= 8192 -> 7 <= start -> start <= stop -> stop <= MAX64 ->
  segments fuelg l1 maxKB start stop = Some l ->
  let a := initAlgorithms l1 maxKB start stop in
  exists sg0 r0, l = sg0 :: r0 /\ segs_ok3 stop (s_low sg0) (map to_kseg l) /\
    (nobig stop (a_maxMedium a) 164 \/ szs_ok (N.log2 (a_sieveSize a)) (map to_kseg l)) /\
    Forall (fun sg => s_bytes sg <= a_sieveSize a) l.
Proof.
  intros K1 K2 S1 S2 S3 Hsegs a.
  destruct (segments_ok l1 maxKB start stop fuelg l K1 K2 S1 S2 S3 Hsegs) as (Hne & Hall & Hadj & _).
  pose proof (initAlgorithms_admissible l1 maxKB start stop K1 K2 S1 S2 S3) as A. cbn zeta in A. fold a in A.
  destruct A as (A1 & A2 & A3 & A4 & A5 & A6 & A7 & A8 & A9 & A10 & A11).
  assert (Hinv : geom_inv stop (a_segLow a) (a_segHigh a) (a_sieveSize a)) by (unfold geom_inv; repeat split; try assumption; lia).
  unfold segments in Hsegs. fold a in Hsegs.
  pose proof (segments_loop_high stop _ _ _ _ _ A10 Hsegs) as Hhigh.
  pose proof (segments_loop_sizes stop S3 fuelg _ _ _ l Hinv Hsegs) as Hsz_eq.
  pose proof (segments_loop_sizes_le stop S3 fuelg _ _ _ l Hinv Hsegs) as Hsz_le.
  destruct l as [|sg0 r0]; [congruence|]. exists sg0, r0. split; [reflexivity|].
  assert (Hsegs3 : forall l' low, Forall (seg_ok stop) l' -> adjacent l' -> Forall (fun sg => s_high sg <= stop) l' ->
            (match l' with [] => True | sg :: _ => s_low sg = low end) -> segs_ok3 stop low (map to_kseg l')).
  { induction l' as [|sg r IH]; intros low Hok Hadj' Hhi Hlow; cbn [map segs_ok3]; [exact I|].
    inversion Hok as [|? ? Hsg Hr]; subst. inversion Hhi as [|? ? Hh1 Hhr]; subst.
    destruct Hsg as (H30 & Hb & H7 & Hcase). cbn [to_kseg k_low k_size k_high].
    split; [reflexivity|]. split; [exact H30|]. split; [unfold MAX64 in *; lia|]. split; [exact Hh1|]. split.
    - destruct (s_last sg); [|lia]. assert (byteRemainder stop <= 36) by (unfold byteRemainder; lia). lia.
    - destruct r as [|sg' r']; [cbn; exact I|]. cbn [adjacent] in Hadj'. destruct Hadj' as (_ & Hnext & Hadj'').
      apply IH; [exact Hr|exact Hadj''|exact Hhr|exact Hnext]. }
  split; [exact (Hsegs3 (sg0 :: r0) (s_low sg0) Hall Hadj Hhigh eq_refl)|]. split; [|exact Hsz_le].
  destruct (a_bigUsed a) eqn:Eb.
  - right. destruct (A6 eq_refl) as (Hpow & _). pose proof (isPow2_log2 _ Hpow) as E2.
    assert (G : forall l', Forall (fun sg => s_last sg = false -> s_bytes sg = a_sieveSize a) l' -> Forall (fun sg => s_bytes sg <= a_sieveSize a) l' ->
                adjacent l' -> szs_ok (N.log2 (a_sieveSize a)) (map to_kseg l')).
    { induction l' as [|sg r IH]; intros He Hle Hadj'; cbn [map szs_ok]; [exact I|].
      inversion He as [|? ? He1 Her]; subst. inversion Hle as [|? ? Hle1 Hler]; subst. cbn [to_kseg k_size].
      unfold EratBigP.size. rewrite <- E2. split; [exact Hle1|]. split.
      - intros Hne'. destruct r as [|sg' r']; [cbn in Hne'; congruence|]. cbn [adjacent] in Hadj'. apply He1. tauto.
      - apply IH; [exact Her|exact Hler|]. destruct r as [|sg' r']; [exact I|]. cbn [adjacent] in Hadj'. tauto. }
    exact (G _ Hsz_eq Hsz_le Hadj).
  - left. intros p (Hp & _ & Hsq). apply sqrt_sq_le in Hsq.
    assert (Hbu : a_bigUsed a = (a_maxMedium a <? N.sqrt stop)).
    { unfold a, initAlgorithms. cbv zeta. cbn [a_bigUsed a_maxMedium]. reflexivity. }
    rewrite Hbu in Eb. apply N.ltb_ge in Eb. lia.
Qed.

Lemma pending_spec stop p : In p (primes_between 164 (N.sqrt stop)) <-> sp_ok3 stop 164 p.
Proof. rewrite In_primes_between. unfold sp_ok3. rewrite sqrt_sq_le. tauto. Qed.

Theorem erat3_model_correct l1 maxKB start stop fuelg fuel l result :
  16 <= maxKB -> maxKB <= 8192 -> 7 <= start -> start <= stop -> stop <= MAX64 ->
  segments fuelg l1 maxKB start stop = Some l ->
  let a := initAlgorithms l1 maxKB start stop in
  sieve_loop3 fuel stop (a_maxSmall a) (a_maxMedium a) (N.log2 (a_sieveSize a)) (map to_kseg l)
              (primes_between 164 (N.sqrt stop)) e3_init = Some result ->
  Forall (fun r : kseg * list (N * N) => let '(sg, cleared) := r in
            forall n, coprime30 n -> k_low sg + 7 <= n -> byteof (k_low sg) n < k_size sg -> 7 <= n -> n <= k_high sg ->
            (presieve_bit (k_low sg) n = true /\ ~ In (byteof (k_low sg) n, maskof n) cleared <-> prime n)) result.
Proof.
  intros K1 K2 S1 S2 S3 Hsegs a Hloop.
  destruct (erat3_geometry l1 maxKB start stop fuelg l K1 K2 S1 S2 S3 Hsegs) as (sg0 & r0 & El & Hs3 & Hszs & _). fold a in Hszs.
  apply (erat3_kernel_spec fuel stop (a_maxSmall a) (a_maxMedium a) (N.log2 (a_sieveSize a)) (map to_kseg l) (s_low sg0)
           (primes_between 164 (N.sqrt stop)) result S3 Hs3 Hszs).
  - apply primes_between_sorted.
  - intros p. apply pending_spec.
  - exact Hloop.
Qed.

(** ... and the run always returns with enough fuel: for every configuration and interval *)
Theorem erat3_model_total l1 maxKB start stop fuelg l :
  16 <= maxKB -> maxKB <= 8192 -> 7 <= start -> start <= stop -> stop <= MAX64 ->
  segments fuelg l1 maxKB start stop = Some l ->
  let a := initAlgorithms l1 maxKB start stop in
  exists fuel, sieve_loop3 fuel stop (a_maxSmall a) (a_maxMedium a) (N.log2 (a_sieveSize a)) (map to_kseg l)
                           (primes_between 164 (N.sqrt stop)) e3_init <> None.
Proof.
  intros K1 K2 S1 S2 S3 Hsegs a.
  destruct (erat3_geometry l1 maxKB start stop fuelg l K1 K2 S1 S2 S3 Hsegs) as (sg0 & r0 & El & Hs3 & Hszs & Hle). fold a in Hszs, Hle.
  set (pend := primes_between 164 (N.sqrt stop)).
  set (F := 30 * a_sieveSize a + 38 + N.of_nat (length pend) * EratBigP.size (N.log2 (a_sieveSize a)) + 1).
  exists (N.to_nat F).
  assert (H31 : 31 <= 164) by lia.
  apply (Erat3TotalP.sieve_loop3_total stop (a_maxSmall a) (a_maxMedium a) (N.log2 (a_sieveSize a)) 164 S3 H31 (N.to_nat F) ltac:(subst F; lia)
           (map to_kseg l) (s_low sg0) pend e3_init (mkW [] [] []) Hs3 Hszs (st_ok_init _ _) (fun _ => eq_refl)).
  - apply Forall_forall. intros p Hp. apply pending_spec. exact Hp.
  - apply Forall_forall. intros sg Hin. apply in_map_iff in Hin. destruct Hin as (x & <- & Hx). rewrite Forall_forall in Hle. specialize (Hle x Hx).
    cbn [to_kseg k_size]. rewrite N2Nat.id. subst F. lia.
  - rewrite N2Nat.id. subst F. cbn [Erat3TotalP.biglen e3_init e_big EratBigP.abs_of EratBigP.abs_from length plus]. unfold EratBigP.size. lia.
Qed.

(** the hypotheses are satisfiable: a run of the model that returns (sieving primes 167..199 in EratSmall); runs in which all
    three algorithms hold sieving primes are executed by the correspondence check (LEAF kernel3) *)
Example erat3_runs :
  (let a := initAlgorithms 32768 16 7 40000 in
   match segments 5001 32768 16 7 40000 with
   | Some l => match sieve_loop3 4000 40000 (a_maxSmall a) (a_maxMedium a) (N.log2 (a_sieveSize a)) (map to_kseg l)
                                  (primes_between 164 (N.sqrt 40000)) e3_init with
               | Some r => (length r =? 1)%nat
               | None => false
               end
   | None => false
   end) = true.
Proof. vm_compute. reflexivity. Qed.

(** L3: from the byte array to the list of primes.  Decoding a zero-padded byte array word by word (8 bytes, little endian;
    for each word the loop "bits &= bits - 1" with either variant of nextPrime) yields exactly the numbers of the set bits
    in ascending order; applied to the byte arrays of the model kernel: exactly primes_between start stop. *)
From Coq Require Import NArith ZArith List Bool Lia Sorted.
From PS Require Import Spec.Primes Gen.Tables Model.Pmath Model.Config Model.EratGeom Model.Count Model.CrossOff Model.Decode
  Proofs.TablesP Proofs.CountP Proofs.TupletsP Proofs.DecodeP Proofs.KernelTopP Proofs.BytesTopP.
Import ListNotations.
Local Open Scope N_scope.

Lemma seq_shift_k k : forall n s, map (Nat.add k) (seq s n) = seq (k + s) n.
Proof. induction n as [|n IH]; intros s; cbn [seq map]; [reflexivity|]. rewrite IH. f_equal. f_equal. lia. Qed.

Definition gnum (low : N) (i : nat) : N := low + 30 * N.of_nat (i / 8) + nth (i mod 8) bv 0.

(** the numbers of the set bits of the word formed by a list of bytes = the numbers of the set bits of the bytes *)
Lemma word_numbers : forall bs low, Forall (fun b => b < 256) bs ->
  map (gnum low) (filter (fun i => N.testbit (word_of_bytes bs) (N.of_nat i)) (seq 0 (8 * length bs))) = seg_numbers low bs.
Proof.
  induction bs as [|b r IH]; intros low Hb; [reflexivity|]. inversion Hb as [|? ? Hb1 Hbr]; subst.
  replace (8 * length (b :: r))%nat with (8 + 8 * length r)%nat by (cbn [length]; lia).
  rewrite seq_app, filter_app, map_app. cbn [seg_numbers]. f_equal.
  - (* the first byte *)
    unfold byte_numbers. 
    rewrite (filter_ext_in _ (fun i => N.testbit b (N.of_nat i)) (seq 0 8)).
    2:{ intros i Hi. apply in_seq in Hi. rewrite (word_bit (b :: r) Hb i). rewrite (Nat.div_small i 8 ltac:(lia)), (Nat.mod_small i 8 ltac:(lia)). reflexivity. }
    apply map_ext_in. intros i Hi. apply filter_In in Hi. destruct Hi as [Hi _]. apply in_seq in Hi.
    unfold gnum. rewrite (Nat.div_small i 8 ltac:(lia)), (Nat.mod_small i 8 ltac:(lia)). change (N.of_nat 0) with 0. lia.
  - (* the remaining bytes: positions shifted by 8 *)
    rewrite <- (IH (low + 30) Hbr). change (0 + 8)%nat with (8 + 0)%nat. rewrite <- (seq_shift_k 8 (8 * length r) 0).
    rewrite (BytesEndP.map_filter_comm (Nat.add 8)), map_map.
    rewrite (filter_ext_in _ (fun i => N.testbit (word_of_bytes r) (N.of_nat i)) (seq 0 (8 * length r))).
    2:{ intros i _. rewrite (word_bit (b :: r) Hb (8 + i)), (word_bit r Hbr i).
        replace (8 + i)%nat with (i + 1 * 8)%nat by lia. rewrite Nat.div_add, Nat.mod_add by lia.
        replace (i / 8 + 1)%nat with (S (i / 8)) by lia. reflexivity. }
    apply map_ext. intros i. unfold gnum. replace (8 + i)%nat with (i + 1 * 8)%nat by lia. rewrite Nat.div_add, Nat.mod_add by lia.
    rewrite Nat2N.inj_add. change (N.of_nat 1) with 1. lia.
Qed.

Lemma word_lt bs : Forall (fun b => b < 256) bs -> (length bs <= 8)%nat -> word_of_bytes bs < W64.
Proof.
  intros Hb Hlen. destruct (N.eq_dec (word_of_bytes bs) 0) as [->|Hne]; [reflexivity|].
  change W64 with (2 ^ 64). apply N.log2_lt_pow2; [lia|].
  destruct (N.lt_ge_cases (N.log2 (word_of_bytes bs)) 64) as [|Hge]; [assumption|exfalso].
  pose proof (N.bit_log2 _ Hne) as Hbit. rewrite <- (N2Nat.id (N.log2 (word_of_bytes bs))) in Hbit.
  rewrite (word_bit bs Hb) in Hbit. rewrite nth_overflow in Hbit; [rewrite N.bits_0 in Hbit; discriminate|].
  apply Nat.le_trans with 8%nat; [exact Hlen|]. apply Nat.div_le_lower_bound; lia.
Qed.

Lemma filter_len_le {A} (f : A -> bool) l : (length (filter f l) <= length l)%nat.
Proof. induction l as [|a r IH]; [apply Nat.le_refl|]. cbn [filter]. destruct (f a); cbn [length]; lia. Qed.

(** one word of 8 bytes *)
Lemma decode_word8 next bs low : (next = nextPrime_ctz \/ next = nextPrime_bruijn) ->
  Forall (fun b => b < 256) bs -> length bs = 8%nat ->
  decode_word 65 next (word_of_bytes bs) low = seg_numbers low bs.
Proof.
  intros Hn Hb Hlen. rewrite (decode_word_spec next Hn 65 _ low (word_lt bs Hb ltac:(lia))).
  - rewrite <- (word_numbers bs low Hb). unfold set_bits. rewrite Hlen. change (8 * 8)%nat with 64%nat.
    apply map_ext_in. intros i Hi. apply filter_In in Hi. destruct Hi as [Hi _]. apply in_seq in Hi.
    pose proof bitValues_ok as T. rewrite forallb_forall in T.
    assert (Hi64 : N.of_nat i < N.of_nat 64) by lia. specialize (T _ (In_Nseq 64 _ Hi64)). apply N.eqb_eq in T. rewrite T.
    unfold gnum. rewrite <- Nat2N.inj_div || idtac.
    replace (N.of_nat i / 8) with (N.of_nat (i / 8)) by (change 8 with (N.of_nat 8); rewrite <- Nat2N.inj_div; reflexivity).
    replace (N.to_nat (N.of_nat i mod 8)) with (i mod 8)%nat by (change 8 with (N.of_nat 8); rewrite <- Nat2N.inj_mod, Nat2N.id; reflexivity).
    lia.
  - unfold set_bits. apply Nat.le_lt_trans with (length (seq 0 64)); [apply filter_len_le|rewrite seq_length; lia].
Qed.

Lemma Forall_firstn {A} (P : A -> Prop) n l : Forall P l -> Forall P (firstn n l).
Proof. revert l. induction n as [|n IH]; intros l H; [constructor|]. destruct l as [|a r]; [constructor|]. inversion H; subst. cbn [firstn]. constructor; [assumption|apply IH; assumption]. Qed.
Lemma Forall_skipn {A} (P : A -> Prop) n l : Forall P l -> Forall P (skipn n l).
Proof. revert l. induction n as [|n IH]; intros l H; [exact H|]. destruct l as [|a r]; [constructor|]. inversion H; subst. cbn [skipn]. apply IH. assumption. Qed.

(** a byte array of 8*k bytes, decoded word by word *)
Theorem decode_array_spec next : (next = nextPrime_ctz \/ next = nextPrime_bruijn) -> forall k bytes low,
  Forall (fun b => b < 256) bytes -> length bytes = (8 * k)%nat ->
  decode_array k next bytes low = seg_numbers low bytes.
Proof.
  intros Hn. induction k as [|k IH]; intros bytes low Hb Hlen.
  - destruct bytes; [reflexivity|discriminate].
  - cbn [decode_array]. rewrite <- (firstn_skipn 8 bytes) at 3. rewrite seg_numbers_app.
    assert (Hl8 : length (firstn 8 bytes) = 8%nat) by (rewrite firstn_length; lia).
    rewrite (decode_word8 next _ low Hn (Forall_firstn _ 8 bytes Hb) Hl8).
    rewrite (IH (skipn 8 bytes) (low + 240) (Forall_skipn _ 8 bytes Hb) ltac:(rewrite skipn_length; lia)).
    rewrite Hl8. reflexivity.
Qed.

Lemma seg_numbers_zeros : forall n low, seg_numbers low (repeat 0 n) = [].
Proof. induction n as [|n IH]; intros low; [reflexivity|]. cbn [repeat seg_numbers]. rewrite IH. reflexivity. Qed.

Lemma pad8_spec bytes : Forall (fun b => b < 256) bytes ->
  Forall (fun b => b < 256) (pad8 bytes) /\ (exists k, length (pad8 bytes) = (8 * k)%nat) /\
  forall low, seg_numbers low (pad8 bytes) = seg_numbers low bytes.
Proof.
  intros Hb. unfold pad8. set (z := ((8 - length bytes mod 8) mod 8)%nat). split; [|split].
  - apply Forall_app. split; [exact Hb|]. apply Forall_forall. intros x Hx. apply repeat_spec in Hx. subst x. reflexivity.
  - exists ((length bytes + z) / 8)%nat. rewrite app_length, repeat_length.
    assert (Hm : ((length bytes + z) mod 8 = 0)%nat).
    { unfold z. pose proof (Nat.mod_upper_bound (length bytes) 8 ltac:(lia)) as Hu.
      pose proof (Nat.div_mod (length bytes) 8 ltac:(lia)) as Hd.
      destruct (Nat.eq_dec (length bytes mod 8) 0) as [E0|Hne].
      - rewrite E0. change ((8 - 0) mod 8)%nat with 0%nat. rewrite Nat.add_0_r. exact E0.
      - rewrite (Nat.mod_small (8 - length bytes mod 8) 8) by lia.
        rewrite Hd at 1. replace (8 * (length bytes / 8) + length bytes mod 8 + (8 - length bytes mod 8))%nat with (0 + (length bytes / 8 + 1) * 8)%nat by lia.
        rewrite Nat.mod_add by lia. reflexivity. }
    pose proof (Nat.div_mod (length bytes + z) 8 ltac:(lia)) as Hd. lia.
  - intros low. rewrite seg_numbers_app, seg_numbers_zeros, app_nil_r. reflexivity.
Qed.

(** printing / iterating over the model kernel's byte arrays: exactly the primes of [start, stop], ascending *)
Theorem kernel_decode_spec next l1 maxKB start stop fuelg fuel l result k : (next = nextPrime_ctz \/ next = nextPrime_bruijn) ->
  16 <= maxKB -> maxKB <= 8192 -> 7 <= start -> start <= stop -> stop <= MAX64 ->
  segments fuelg l1 maxKB start stop = Some l ->
  sieve_loop fuel eratSmallSteps stop (map to_kseg l) (primes_between 7 (N.sqrt stop)) [] = Some result ->
  length (pad8 (run_bytes start stop result)) = (8 * k)%nat ->
  decode_array k next (pad8 (run_bytes start stop result)) (a_segLow (initAlgorithms l1 maxKB start stop)) = primes_between start stop.
Proof.
  intros Hn K1 K2 S1 S2 S3 Hsegs Hloop Hk.
  destruct (kernel_bytes_spec l1 maxKB start stop fuelg fuel l result K1 K2 S1 S2 S3 Hsegs Hloop) as [Hnum _]. cbn zeta in Hnum.
  destruct (pad8_spec _ (run_bytes_lt start stop result)) as (Hlt & _ & Hpad).
  rewrite (decode_array_spec next Hn k _ _ Hlt Hk), Hpad. exact Hnum.
Qed.

(** L3, bit level at the interval ends: the first byte of the first segment AND unsetSmaller[rem(start)], the last byte of
    the last segment AND unsetLarger[rem(stop)] keep exactly the numbers >= start resp. <= stop. *)
From Coq Require Import NArith ZArith List Bool Lia Sorted.
From PS Require Import Spec.Primes Gen.Tables Model.Pmath Model.Config Model.Count Model.CrossOff
  Proofs.TablesP Proofs.CountP Proofs.WheelStepsP Proofs.TupletsP.
Import ListNotations.
Local Open Scope N_scope.
Ltac Zify.zify_post_hook ::= Z.to_euclidean_division_equations.

Lemma smaller_bit r i : r < 37 -> (i < 8)%nat -> N.testbit (nthN' unsetSmaller r) (N.of_nat i) = (r <=? nth i bv 0).
Proof.
  intros Hr Hi. destruct end_masks_ok as (_ & _ & T). rewrite forallb_forall in T. specialize (T r (In_Nseq 37 _ Hr)).
  rewrite forallb_forall in T. specialize (T i ltac:(apply in_seq; lia)). apply andb_true_iff in T. destruct T as [T _]. apply eqb_prop in T. exact T.
Qed.
Lemma larger_bit r i : r < 37 -> (i < 8)%nat -> N.testbit (nthN' unsetLarger r) (N.of_nat i) = (nth i bv 0 <=? r).
Proof.
  intros Hr Hi. destruct end_masks_ok as (_ & _ & T). rewrite forallb_forall in T. specialize (T r (In_Nseq 37 _ Hr)).
  rewrite forallb_forall in T. specialize (T i ltac:(apply in_seq; lia)). apply andb_true_iff in T. destruct T as [_ T]. apply eqb_prop in T. exact T.
Qed.

Lemma map_filter_comm {A B} (g : A -> B) (p : B -> bool) l : filter p (map g l) = map g (filter (fun x => p (g x)) l).
Proof. induction l as [|a r IH]; [reflexivity|]. cbn [map filter]. destruct (p (g a)); cbn [map]; rewrite IH; reflexivity. Qed.
Lemma filter_filter {A} (p q : A -> bool) l : filter p (filter q l) = filter (fun x => q x && p x) l.
Proof. induction l as [|a r IH]; [reflexivity|]. cbn [filter]. destruct (q a); cbn [filter andb]; [destruct (p a)|]; rewrite IH; reflexivity. Qed.

(** masking the byte based at low with unsetSmaller[r] keeps the numbers >= low + r, with unsetLarger[r] those <= low + r *)
Lemma byte_numbers_smaller low b r : r < 37 ->
  byte_numbers low (N.land b (nthN' unsetSmaller r)) = filter (fun n => low + r <=? n) (byte_numbers low b).
Proof.
  intros Hr. unfold byte_numbers. rewrite map_filter_comm, filter_filter. f_equal.
  apply filter_ext_in. intros i Hi. apply in_seq in Hi. rewrite N.land_spec, (smaller_bit r i Hr ltac:(lia)).
  f_equal. destruct (N.leb_spec r (nth i bv 0)), (N.leb_spec (low + r) (low + nth i bv 0)); try reflexivity; lia.
Qed.
Lemma byte_numbers_larger low b r : r < 37 ->
  byte_numbers low (N.land b (nthN' unsetLarger r)) = filter (fun n => n <=? low + r) (byte_numbers low b).
Proof.
  intros Hr. unfold byte_numbers. rewrite map_filter_comm, filter_filter. f_equal.
  apply filter_ext_in. intros i Hi. apply in_seq in Hi. rewrite N.land_spec, (larger_bit r i Hr ltac:(lia)).
  f_equal. destruct (N.leb_spec (nth i bv 0) r), (N.leb_spec (low + nth i bv 0) (low + r)); try reflexivity; lia.
Qed.

Lemma seg_numbers_ge : forall bytes low x, low mod 30 = 0 -> In x (seg_numbers low bytes) -> low + 7 <= x.
Proof. intros bytes low x Hl H. exact (proj1 (seg_numbers_range bytes low x Hl H)). Qed.

Lemma seg_numbers_le : forall bytes low x, low mod 30 = 0 -> In x (seg_numbers low bytes) -> x <= low + 30 * N.of_nat (length bytes) + 1.
Proof.
  induction bytes as [|j bs IH]; intros low x Hl H; cbn [seg_numbers] in H; [destruct H|].
  apply in_app_iff in H. destruct H as [H|H].
  - destruct (byte_numbers_range low j x Hl H) as [Hr _]. cbn [length]. lia.
  - specialize (IH (low + 30) x ltac:(lia) H). cbn [length]. lia.
Qed.

Lemma filter_true_in {A} (p : A -> bool) l : (forall x, In x l -> p x = true) -> filter p l = l.
Proof. induction l as [|a r IH]; intros H; [reflexivity|]. cbn [filter]. rewrite (H a (or_introl eq_refl)), IH; [reflexivity|]. intros x Hx. apply H. right. exact Hx. Qed.

(** masking the first byte keeps the numbers >= low + r (7 <= r <= 36) *)
Lemma seg_numbers_and_first low r bytes : low mod 30 = 0 -> r < 37 ->
  seg_numbers low (and_first (nthN' unsetSmaller r) bytes) = filter (fun n => low + r <=? n) (seg_numbers low bytes).
Proof.
  intros Hl Hr. destruct bytes as [|b bs]; [reflexivity|]. cbn [and_first seg_numbers].
  rewrite filter_app, (byte_numbers_smaller low b r Hr). f_equal.
  symmetry. apply filter_true_in. intros x Hx. apply N.leb_le. pose proof (seg_numbers_ge bs (low + 30) x ltac:(lia) Hx). lia.
Qed.

(** masking the last byte keeps the numbers <= (base of the last byte) + r (7 <= r) *)
Lemma seg_numbers_and_last r : r < 37 -> 7 <= r -> forall bytes low, low mod 30 = 0 -> bytes <> [] ->
  seg_numbers low (and_last (nthN' unsetLarger r) bytes)
  = filter (fun n => n <=? low + 30 * N.of_nat (length bytes - 1) + r) (seg_numbers low bytes).
Proof.
  intros Hr H7. induction bytes as [|b bs IH]; intros low Hl Hne; [congruence|].
  destruct bs as [|b2 bs].
  - cbn [and_last seg_numbers length]. rewrite !app_nil_r, (byte_numbers_larger low b r Hr).
    apply filter_ext. intros n. replace (low + 30 * N.of_nat (1 - 1) + r) with (low + r) by (cbn; lia). reflexivity.
  - change (and_last (nthN' unsetLarger r) (b :: b2 :: bs)) with (b :: and_last (nthN' unsetLarger r) (b2 :: bs)).
    change (seg_numbers low (b :: and_last (nthN' unsetLarger r) (b2 :: bs)))
      with (byte_numbers low b ++ seg_numbers (low + 30) (and_last (nthN' unsetLarger r) (b2 :: bs))).
    change (seg_numbers low (b :: b2 :: bs)) with (byte_numbers low b ++ seg_numbers (low + 30) (b2 :: bs)).
    rewrite (IH (low + 30) ltac:(lia) ltac:(discriminate)). set (T := seg_numbers (low + 30) (b2 :: bs)).
    rewrite filter_app. f_equal.
    + symmetry. apply filter_true_in. intros x Hx. apply N.leb_le. destruct (byte_numbers_range low b x Hl Hx) as [Hrg _].
      cbn [length]. lia.
    + apply filter_ext. intros n. f_equal. cbn [length]. lia.
Qed.

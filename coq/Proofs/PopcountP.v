(** L3: counting.  The number of set bits of the model kernel's byte arrays (what popcount sums up, whatever instruction
    or bit trick computes it) is the number of primes of [start, stop]. *)
From Coq Require Import NArith ZArith List Bool Lia.
From PS Require Import Spec.Primes Gen.Tables Model.Pmath Model.Config Model.EratGeom Model.Count Model.CrossOff
  Proofs.TablesP Proofs.TupletsP Proofs.KernelTopP Proofs.BytesTopP.
Import ListNotations.
Local Open Scope N_scope.

(** number of set bits among the 8 bits of a byte *)
Definition popcount8 (b : N) : nat := length (filter (fun i => N.testbit b (N.of_nat i)) (seq 0 8)).
Definition popcount_bytes (bytes : list N) : nat := fold_right (fun b acc => (popcount8 b + acc)%nat) 0%nat bytes.

Lemma byte_numbers_length low b : length (byte_numbers low b) = popcount8 b.
Proof. unfold byte_numbers, popcount8. apply map_length. Qed.

Lemma seg_numbers_length : forall bytes low, length (seg_numbers low bytes) = popcount_bytes bytes.
Proof.
  induction bytes as [|b r IH]; intros low; [reflexivity|]. cbn [seg_numbers popcount_bytes fold_right].
  rewrite app_length, byte_numbers_length, IH. reflexivity.
Qed.

(** count_primes over the model kernel's byte arrays *)
Theorem kernel_popcount_spec l1 maxKB start stop fuelg fuel l result :
  16 <= maxKB -> maxKB <= 8192 -> 7 <= start -> start <= stop -> stop <= MAX64 ->
  segments fuelg l1 maxKB start stop = Some l ->
  sieve_loop fuel eratSmallSteps stop (map to_kseg l) (primes_between 7 (N.sqrt stop)) [] = Some result ->
  N.of_nat (popcount_bytes (run_bytes start stop result)) = count_primes_spec start stop.
Proof.
  intros K1 K2 S1 S2 S3 Hsegs Hloop.
  destruct (kernel_bytes_spec l1 maxKB start stop fuelg fuel l result K1 K2 S1 S2 S3 Hsegs Hloop) as [Hnum _]. cbn zeta in Hnum.
  rewrite <- (seg_numbers_length _ (a_segLow (initAlgorithms l1 maxKB start stop))), Hnum. reflexivity.
Qed.

(** L3, bit level: the byte values of the sieve array after the cross-off (AND of the unset masks) have exactly the
    bits of the numbers that were not crossed off; for a full segment the numbers of the set bits are the primes of
    the segment and the k-tuplet masks find exactly their constellations. *)
From Coq Require Import NArith ZArith List Bool Lia Sorted.
From PS Require Import Spec.Primes Gen.Tables Model.Count Model.CrossOff
  Proofs.TablesP Proofs.CountP Proofs.CountAddP Proofs.CrossOffP Proofs.KernelP Proofs.KernelInitP Proofs.KernelLoopP Proofs.KernelTopP
  Proofs.KernelListP Proofs.KernelPsP Proofs.PreSieveP Proofs.TupletsP Proofs.TupletsTopP.
Import ListNotations.
Local Open Scope N_scope.
Ltac Zify.zify_post_hook ::= Z.to_euclidean_division_equations.

Definition bitmask (k : N) : N := nth (N.to_nat k) BITS 0.

Lemma bits_sweep : forallb (fun k => forallb (fun b => Bool.eqb (N.testbit (bitmask k) b) (negb (b =? k))) (Nseq 8)) (Nseq 8) = true.
Proof. vm_compute. reflexivity. Qed.
Lemma bitmask_bit k b : k < 8 -> b < 8 -> N.testbit (bitmask k) b = negb (b =? k).
Proof.
  intros Hk Hb. pose proof bits_sweep as T. rewrite forallb_forall in T. specialize (T k (In_Nseq 8 _ Hk)).
  rewrite forallb_forall in T. specialize (T b (In_Nseq 8 _ Hb)). apply eqb_prop in T. exact T.
Qed.
Lemma bitmask_inj k k' : k < 8 -> k' < 8 -> bitmask k = bitmask k' -> k = k'.
Proof.
  intros Hk Hk' E. pose proof (bitmask_bit k k Hk Hk) as B1. rewrite E, (bitmask_bit k' k Hk' Hk), N.eqb_refl in B1. cbn in B1.
  destruct (N.eqb_spec k k'); [assumption|discriminate].
Qed.

Lemma maskof_bitmask n : maskof n = bitmask (rankb (offb n)).
Proof. reflexivity. Qed.

(** every mask is one of the eight unset masks *)
Definition masks_are_bits (cleared : list (N * N)) : Prop := forall j m, In (j, m) cleared -> exists k, k < 8 /\ m = bitmask k.

Lemma byte_val_bit cleared j b : masks_are_bits cleared -> b < 8 ->
  N.testbit (byte_val cleared j) b = negb (pair_mem j (bitmask b) cleared).
Proof.
  intros Hm Hb. unfold byte_val. rewrite testbit_fold_land.
  assert (H255 : N.testbit 255 b = true).
  { assert (T : forallb (N.testbit 255) (Nseq 8) = true) by (vm_compute; reflexivity). rewrite forallb_forall in T. apply T. apply In_Nseq. exact Hb. }
  rewrite H255. cbn [andb]. unfold pair_mem.
  induction cleared as [|[j' m] r IH]; [reflexivity|].
  assert (Hm' : masks_are_bits r) by (intros j0 m0 H0; apply (Hm j0 m0); right; exact H0).
  cbn [filter existsb fst snd]. destruct (j' =? j) eqn:Ej.
  - cbn [map forallb fst snd andb]. rewrite (IH Hm'). destruct (Hm j' m (or_introl eq_refl)) as (k & Hk & ->).
    rewrite (bitmask_bit k b Hk Hb).
    destruct (N.eqb_spec b k) as [->|Hbk].
    + rewrite N.eqb_refl. reflexivity.
    + destruct (N.eqb_spec (bitmask k) (bitmask b)) as [E|_]; [exfalso; apply Hbk; symmetry; apply (bitmask_inj k b Hk Hb E)|]. reflexivity.
  - cbn [andb orb]. apply (IH Hm').
Qed.

Lemma bv_mask_sweep : forallb (fun i => (rankb (offb (nth i bv 0)) =? N.of_nat i) && (nth i bv 0 mod 30 =? offb (nth i bv 0) mod 30)) (seq 0 8) = true.
Proof. vm_compute. reflexivity. Qed.

Lemma maskof_bv low i : low mod 30 = 0 -> (i < 8)%nat -> maskof (low + nth i bv 0) = bitmask (N.of_nat i).
Proof.
  intros Hl Hi. rewrite maskof_bitmask. pose proof bv_mask_sweep as T. rewrite forallb_forall in T.
  specialize (T i ltac:(apply in_seq; lia)). apply andb_true_iff in T. destruct T as [T _]. apply N.eqb_eq in T.
  rewrite (offb_mod (low + nth i bv 0) (nth i bv 0)); [rewrite T; reflexivity|].
  rewrite N.add_mod by lia. rewrite Hl. cbn [N.add]. apply N.mod_mod. lia.
Qed.

(** the numbers of the set bits of one computed byte *)
Lemma byte_numbers_byte_val cleared j low : masks_are_bits cleared -> low mod 30 = 0 ->
  byte_numbers low (byte_val cleared j)
  = filter (fun n => negb (pair_mem j (maskof n) cleared)) (map (fun i => low + nth i bv 0) (seq 0 8)).
Proof.
  intros Hm Hl. unfold byte_numbers.
  rewrite (filter_ext_in _ (fun i => negb (pair_mem j (bitmask (N.of_nat i)) cleared)) (seq 0 8)).
  - assert (G : forall l, (forall i, In i l -> (i < 8)%nat) ->
        map (fun i => low + nth i bv 0) (filter (fun i => negb (pair_mem j (bitmask (N.of_nat i)) cleared)) l)
        = filter (fun n => negb (pair_mem j (maskof n) cleared)) (map (fun i => low + nth i bv 0) l)).
    { induction l as [|i r IH]; intros Hlt; [reflexivity|]. cbn [filter map].
      rewrite (maskof_bv low i Hl (Hlt i (or_introl eq_refl))).
      destruct (negb (pair_mem j (bitmask (N.of_nat i)) cleared)); cbn [map]; rewrite IH; try reflexivity; intros k Hk; apply Hlt; right; exact Hk. }
    apply G. intros i Hi. apply in_seq in Hi. lia.
  - intros i Hi. apply in_seq in Hi. apply byte_val_bit; [exact Hm|lia].
Qed.

Lemma cands_in : forall size low x, low mod 30 = 0 -> In x (cands low size) ->
  CrossOffP.coprime30 x /\ low + 7 <= x /\ byteof low x < N.of_nat size.
Proof.
  induction size as [|k IH]; intros low x Hl H; cbn [cands] in H; [destruct H|].
  apply in_app_iff in H. destruct H as [H|H].
  - apply in_map_iff in H. destruct H as (i & <- & Hi). apply in_seq in Hi.
    assert (T : forallb (fun i => existsb (N.eqb (nth i bv 0 mod 30)) cop30 && (7 <=? nth i bv 0) && (nth i bv 0 <=? 31)) (seq 0 8) = true) by (vm_compute; reflexivity).
    rewrite forallb_forall in T. specialize (T i ltac:(apply in_seq; lia)).
    apply andb_true_iff in T. destruct T as [T T3]. apply andb_true_iff in T. destruct T as [T1 T2].
    apply existsb_eqb_In in T1. apply N.leb_le in T2, T3.
    split; [|split; [lia|unfold byteof; lia]].
    unfold CrossOffP.coprime30. rewrite N.add_mod by lia. rewrite Hl. cbn [N.add]. rewrite N.mod_mod by lia. exact T1.
  - destruct (IH (low + 30) x ltac:(lia) H) as (Hc & Hr & Hb). split; [exact Hc|]. split; [lia|]. unfold byteof in *. lia.
Qed.

(** the numbers of the set bits of the computed byte array: everything of the segment that was not crossed off *)
Lemma sieve_bytes_numbers cleared : masks_are_bits cleared -> forall size j0 low, low mod 30 = 0 ->
  seg_numbers low (map (fun j => byte_val cleared (N.of_nat j)) (seq j0 size))
  = filter (fun n => negb (pair_mem (N.of_nat j0 + byteof low n) (maskof n) cleared)) (cands low size).
Proof.
  intros Hm. induction size as [|k IH]; intros j0 low Hl; [reflexivity|].
  cbn [cands]. change (seq j0 (Datatypes.S k)) with (j0 :: seq (Datatypes.S j0) k). rewrite map_cons. cbn [seg_numbers].
  rewrite filter_app, (IH (Datatypes.S j0) (low + 30) ltac:(lia)), (byte_numbers_byte_val cleared (N.of_nat j0) low Hm Hl). f_equal.
  - apply filter_ext_in. intros n Hn. apply in_map_iff in Hn. destruct Hn as (i & <- & Hi). apply in_seq in Hi.
    destruct (bv_values i ltac:(lia)) as [Hr _]. replace (byteof low (low + nth i bv 0)) with 0 by (unfold byteof; lia).
    rewrite N.add_0_r. reflexivity.
  - apply filter_ext_in. intros n Hn. assert (Hl30 : (low + 30) mod 30 = 0) by lia.
    destruct (cands_in k (low + 30) n Hl30 Hn) as (_ & Hr & _).
    rewrite Nat2N.inj_succ. replace (N.succ (N.of_nat j0) + byteof (low + 30) n) with (N.of_nat j0 + byteof low n) by (unfold byteof; lia). reflexivity.
Qed.

(** the masks produced by the cross-off are unset masks *)
Lemma cross_all_masks steps (Hsteps : forallb (entry_ok2 steps) (Nseq 64) = true) fuel low size (ws : list wstate) cleared sts' :
  low mod 30 = 0 -> Forall (w_ok low) ws -> cross_all fuel steps size (map w_state ws) = Some (cleared, sts') -> masks_are_bits cleared.
Proof.
  intros Hl Hok H j m Hin.
  destruct (cross_all_spec steps Hsteps fuel low size Hl ws cleared sts' Hok H) as (Hmem & _).
  apply Hmem in Hin. destruct Hin as (x & q' & Hx & _ & Hc & _ & _ & ->).
  rewrite maskof_bitmask. exists (rankb (offb (w_prime x * q'))). split; [|reflexivity].
  apply offb_nthb. apply coprime30_prod; [|exact Hc].
  rewrite Forall_forall in Hok. specialize (Hok x Hx). destruct x as [[[[sp ri] qi] q] i]. cbn [w_ok w_prime] in *.
  destruct Hok as (_ & Hpr & H7 & _). apply prime_coprime30; assumption.
Qed.

(** a full segment (all its numbers are <= segmentHigh): the computed bytes hold exactly the primes of the segment, and
    the k-tuplet masks find exactly their constellations *)
Theorem full_segment_bytes sg cleared : k_low sg mod 30 = 0 -> seg_result_ok (sg, cleared) -> masks_are_bits cleared ->
  k_low sg + 30 * k_size sg + 1 <= k_high sg ->
  seg_numbers (k_low sg) (sieve_bytes sg cleared) = primes_between (k_low sg + 7) (k_low sg + 30 * k_size sg + 1).
Proof.
  intros Hl Hok Hm Hfull. unfold sieve_bytes. rewrite (sieve_bytes_numbers cleared Hm _ 0%nat (k_low sg) Hl).
  apply sorted_ext.
  - apply StronglySorted_filter. apply cands_sorted.
  - apply primes_between_sorted.
  - intros n. rewrite filter_In, In_primes_between. cbn [seg_result_ok] in Hok. split.
    + intros (Hc & Hnb). destruct (cands_in _ _ _ Hl Hc) as (Hcop & Hr & Hb). rewrite N2Nat.id in Hb.
      destruct (cands_range _ _ _ Hc) as [_ Hup]. rewrite N2Nat.id in Hup.
      split; [exact Hr|]. split; [exact Hup|].
      apply (Hok n Hcop Hr Hb ltac:(lia) ltac:(lia)). intros Hin. apply pair_mem_In in Hin.
      change (N.of_nat 0) with 0 in Hnb. rewrite N.add_0_l, Hin in Hnb. discriminate.
    + intros (H1 & H2 & Hp).
      assert (Hcb : CountP.coprime30 n = true) by (apply prime_coprime30_bool; [exact Hp|lia]).
      assert (Hc : In n (cands (k_low sg) (N.to_nat (k_size sg)))) by (apply In_cands; [exact Hl|exact H1|rewrite N2Nat.id; exact H2|exact Hcb]).
      split; [exact Hc|]. destruct (cands_in _ _ _ Hl Hc) as (Hcop & Hr & Hb). rewrite N2Nat.id in Hb.
      change (N.of_nat 0) with 0. rewrite N.add_0_l. apply negb_true_iff.
      destruct (pair_mem (byteof (k_low sg) n) (maskof n) cleared) eqn:E; [|reflexivity]. apply pair_mem_In in E.
      exfalso. apply (proj2 (Hok n Hcop Hr Hb ltac:(lia) ltac:(lia)) Hp). exact E.
Qed.

Theorem full_segment_tuplets idx sg cleared : (1 <= idx <= 5)%nat ->
  k_low sg mod 30 = 0 -> seg_result_ok (sg, cleared) -> masks_are_bits cleared -> k_low sg + 30 * k_size sg + 1 <= k_high sg ->
  segment_tuplets (nth idx kBitmasks []) (k_low sg) (sieve_bytes sg cleared)
  = tuplets_of_set idx (primes_between (k_low sg + 7) (k_low sg + 30 * k_size sg + 1)).
Proof.
  intros Hi Hl Hok Hm Hfull. rewrite (segment_tuplets_spec idx Hi _ (k_low sg) Hl).
  - rewrite (full_segment_bytes sg cleared Hl Hok Hm Hfull). reflexivity.
  - unfold sieve_bytes. apply Forall_forall. intros x Hx. apply in_map_iff in Hx. destruct Hx as (j & <- & _).
    (* a byte value is an AND with 255 *)
    unfold byte_val. generalize (map snd (filter (fun c => fst c =? N.of_nat j) cleared)). intros l.
    assert (G : forall l a, a < 256 -> fold_left N.land l a < 256).
    { clear. induction l as [|m r IH]; intros a Ha; cbn [fold_left]; [exact Ha|]. apply IH.
      destruct (N.eq_dec (N.land a m) 0) as [->|Hz]; [lia|]. change 256 with (2 ^ 8). apply N.log2_lt_pow2; [lia|].
      pose proof (N.log2_land a m) as Hl2. pose proof (N.le_min_l (N.log2 a) (N.log2 m)) as Hmin.
      assert (Ha0 : a <> 0) by (intros ->; apply Hz; apply N.land_0_l).
      assert (N.log2 a < 8) by (apply N.log2_lt_pow2; [lia|exact Ha]). lia. }
    apply G. lia.
Qed.

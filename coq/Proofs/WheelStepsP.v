(** L2: the cross-off step tables of EratSmall / EratMedium (64 entries, wheel 30) and EratBig (384
    entries, wheel 210), extracted from the source, are exact: for the wheel index w = SIZE*ri + qi
    (ri: residue class of the sieving prime, qi: rank of the current cofactor q among the residues
    coprime to the modulus) the entry clears exactly the bit of r*q, advances the cofactor to the next
    residue q' coprime to the modulus, and its (factor, correction) move the byte index from the multiple
    p*q to the multiple p*q' - for EVERY sieving prime p = 30*sp + r and every byte index (lifting lemma). *)
From Coq Require Import NArith ZArith List Bool Lia.
From PS Require Import Spec.Primes Gen.Tables Model.Count Proofs.TablesP.
Import ListNotations.
Local Open Scope N_scope.

Definition pres : list N := [7; 11; 13; 17; 19; 23; 29; 1].          (* prime mod 30 in wheelOffsets_ order *)
Definition off (x : N) : N := if x mod 30 =? 1 then 31 else x mod 30.  (* position inside the byte: 7..31 *)
Definition rank_bv (o : N) : N := N.of_nat (length (filter (fun b => b <? o) bv)).
Definition coprimes (m : N) : list N := filter (fun x => N.gcd x m =? 1) (map N.of_nat (seq 1 (N.to_nat m - 1))).
Definition nthN' (l : list N) (i : N) : N := nth (N.to_nat i) l 0.

(** one table entry: (mask, factor a, correction c) at wheel index w, for modulus m with k = |coprimes m| *)
Definition step_entry_ok (m k : N) (w : N) (mask a c : N) : bool :=
  let r := nthN' pres (w / k) in
  let qs := coprimes m in
  let q := nthN' qs (w mod k) in
  let q' := nthN' qs ((w mod k + 1) mod k) in
  let gap := if q' <? q then q' + m - q else q' - q in
  (mask =? nthN' BITS (rank_bv (off (r * q)))) && (a =? gap) &&
  (off (r * q) + gap * r =? 30 * c + off (r * q')).

Definition steps30_ok (steps : list (N * N * N)) : bool :=
  (length steps =? 64)%nat &&
  forallb (fun w => let '(mask, a, c) := nth (N.to_nat w) steps (0, 0, 0) in step_entry_ok 30 8 w mask a c) (Nseq 64).

Lemma eratSmallSteps_ok : steps30_ok eratSmallSteps = true.
Proof. vm_compute. reflexivity. Qed.
Lemma eratMediumSteps_ok : steps30_ok eratMediumSteps = true.
Proof. vm_compute. reflexivity. Qed.

(** EratMedium dispatches wheelIndex / 8 = k to crossOff_<residue k> *)
Lemma eratMediumDispatch_ok : eratMediumDispatch = combine (Nseq 8) [7; 11; 13; 17; 19; 23; 29; 31].
Proof. vm_compute. reflexivity. Qed.

(** EratBig: (unsetBit, nextMultipleFactor, correct, next) *)
Definition steps210_ok (steps : list (N * N * N * N)) : bool :=
  (length steps =? 384)%nat &&
  forallb (fun w => let '(mask, a, c, nxt) := nth (N.to_nat w) steps (0, 0, 0, 0) in
                    step_entry_ok 210 48 w mask a c && (nxt =? 48 * (w / 48) + (w mod 48 + 1) mod 48)) (Nseq 384).
Lemma eratBigWheel_ok : steps210_ok eratBigWheel = true.
Proof. vm_compute. reflexivity. Qed.

(** the 8-way unrolled loops of EratSmall are eight consecutive single steps: the k-th statement of the
    body for residue class ri uses the accumulated (factor, correction) of steps 8*ri .. 8*ri+k-1 and the mask
    of step 8*ri+k; the loop stride is the sum over all eight (= sievingPrime*30 + r), and maxOffset is the
    offset of the last statement *)
Fixpoint prefix_sums (l : list (N * N * N)) (a c : N) : list (N * N * N) :=
  match l with [] => [] | (mask, da, dc) :: l' => (a, c, mask) :: prefix_sums l' (a + da) (c + dc) end.
Definition triple_eqb (x y : N * N * N) : bool :=
  let '(a, b, c) := x in let '(a', b', c') := y in (a =? a') && (b =? b') && (c =? c').
Definition unrolled_ok : bool :=
  (length eratSmallUnrolled =? 8)%nat &&
  forallb (fun ri =>
    let '(case, moa, mob, sa, sb, body) := nth (N.to_nat ri) eratSmallUnrolled (0, 0, 0, 0, 0, []) in
    let steps := firstn 8 (skipn (N.to_nat (8 * ri)) eratSmallSteps) in
    let sums := prefix_sums steps 0 0 in
    (case =? 8 * ri) &&
    (length body =? 8)%nat && forallb (fun p => triple_eqb (fst p) (snd p)) (combine body sums) &&
    (sa =? fold_right (fun s acc => snd (fst s) + acc) 0 steps) &&
    (sb =? fold_right (fun s acc => snd s + acc) 0 steps) &&
    (sa =? 30) && (sb =? nthN' pres ri) &&
    (let '(la, lc, _) := last sums (0, 0, 0) in (moa =? la) && (mob =? lc))) (Nseq 8).
Lemma eratSmallUnrolled_ok : unrolled_ok = true.
Proof. vm_compute. reflexivity. Qed.

(** lifting: one table step moves from the multiple p*q to the multiple p*q', for every sieving prime and
    every position *)
Ltac Zify.zify_post_hook ::= Z.to_euclidean_division_equations.
Lemma step_lift low i sp r o gap c o' :
  o + gap * r = 30 * c + o' ->
  (low + 30 * i + o) + gap * (30 * sp + r) = low + 30 * (i + gap * sp + c) + o'.
Proof. intros H. nia. Qed.

(** and [off] is the position of a number coprime to 30 inside its byte: n = 30*((n-7)/30) + off n for n >= 7 *)
Lemma coprime_residues_30 : forallb (fun r => if N.gcd r 30 =? 1 then (r =? 1) || (7 <=? r) else true) (Nseq 30) = true.
Proof. vm_compute. reflexivity. Qed.

Lemma off_position n : 7 <= n -> N.gcd n 30 = 1 -> n = 30 * ((n - 7) / 30) + off n /\ 7 <= off n <= 31.
Proof.
  intros H7 Hg. unfold off.
  assert (Hr : n mod 30 = 1 \/ 7 <= n mod 30).
  { pose proof coprime_residues_30 as T. rewrite forallb_forall in T.
    assert (Hlt : n mod 30 < N.of_nat 30) by (change (N.of_nat 30) with 30; apply N.mod_lt; lia).
    specialize (T (n mod 30) (In_Nseq 30 _ Hlt)).
    rewrite N.gcd_mod in T by lia. rewrite N.gcd_comm, Hg in T. cbn [N.eqb Pos.eqb] in T.
    apply orb_true_iff in T. destruct T as [T|T]; [left; apply N.eqb_eq; exact T|right; apply N.leb_le; exact T]. }
  destruct (N.eqb_spec (n mod 30) 1) as [E1|E1]; lia.
Qed.

(** the end masks of Erat::sieveSegment / sieveLastSegment: unsetSmaller[r] keeps exactly the bits of the numbers
    base + bv[b] with bv[b] >= r, unsetLarger[r] those with bv[b] <= r (r = byteRemainder of start resp. stop, 0..36) *)
Lemma end_masks_ok :
  length unsetSmaller = 37%nat /\ length unsetLarger = 37%nat /\
  forallb (fun r => forallb (fun b =>
      Bool.eqb (N.testbit (nthN' unsetSmaller r) (N.of_nat b)) (r <=? nth b bv 0) &&
      Bool.eqb (N.testbit (nthN' unsetLarger r) (N.of_nat b)) (nth b bv 0 <=? r)) (seq 0 8)) (Nseq 37) = true.
Proof. vm_compute. repeat split; reflexivity. Qed.

(** the 58 numbers between 18446744073709551557 and 2^64 are composite (a factor of each is checked by computation):
    [largest_prime_hyp] reduces to the primality of 18446744073709551557 alone *)
From Coq Require Import NArith ZArith List Bool Lia Znumtheory.
From PS Require Import Spec.Primes Proofs.StoreP.
Import ListNotations.
Local Open Scope N_scope.

Definition top_factors : list (N * N) :=
  [(18446744073709551558, 2); (18446744073709551559, 41); (18446744073709551560, 2); (18446744073709551561, 3); (18446744073709551562, 2); (18446744073709551563, 29); (18446744073709551564, 2); (18446744073709551565, 5); (18446744073709551566, 2); (18446744073709551567, 3); (18446744073709551568, 2); (18446744073709551569, 31); (18446744073709551570, 2); (18446744073709551571, 11071); (18446744073709551572, 2); (18446744073709551573, 3); (18446744073709551574, 2); (18446744073709551575, 5); (18446744073709551576, 2); (18446744073709551577, 139646831); (18446744073709551578, 2); (18446744073709551579, 3); (18446744073709551580, 2); (18446744073709551581, 17); (18446744073709551582, 2); (18446744073709551583, 827); (18446744073709551584, 2); (18446744073709551585, 3); (18446744073709551586, 2); (18446744073709551587, 13); (18446744073709551588, 2); (18446744073709551589, 11); (18446744073709551590, 2); (18446744073709551591, 3); (18446744073709551592, 2); (18446744073709551593, 7); (18446744073709551594, 2); (18446744073709551595, 5); (18446744073709551596, 2); (18446744073709551597, 3); (18446744073709551598, 2); (18446744073709551599, 19); (18446744073709551600, 2); (18446744073709551601, 53); (18446744073709551602, 2); (18446744073709551603, 3); (18446744073709551604, 2); (18446744073709551605, 5); (18446744073709551606, 2); (18446744073709551607, 7); (18446744073709551608, 2); (18446744073709551609, 3); (18446744073709551610, 2); (18446744073709551611, 11); (18446744073709551612, 2); (18446744073709551613, 13); (18446744073709551614, 2); (18446744073709551615, 3)].

Lemma top_factors_ok :
  forallb (fun nf => (1 <? snd nf) && (snd nf <? fst nf) && (fst nf mod snd nf =? 0)) top_factors = true /\
  map fst top_factors = map (fun i => MAXPRIME64 + 1 + N.of_nat i) (seq 0 58).
Proof. vm_compute. split; reflexivity. Qed.

Theorem no_prime_above_maxprime q : MAXPRIME64 < q -> q <= MAX64 -> ~ prime q.
Proof.
  intros H1 H2 Hp. destruct top_factors_ok as [Hf Hm].
  assert (Hin : In q (map fst top_factors)).
  { rewrite Hm. apply in_map_iff. exists (N.to_nat (q - MAXPRIME64 - 1)). split; [unfold MAXPRIME64, MAX64 in *; lia|].
    apply in_seq. unfold MAXPRIME64, MAX64 in *. lia. }
  apply in_map_iff in Hin. destruct Hin as ([n f] & E & Hin). cbn [fst] in E. subst n.
  rewrite forallb_forall in Hf. specialize (Hf _ Hin). cbn [fst snd] in Hf.
  apply andb_true_iff in Hf. destruct Hf as [Hf H3]. apply andb_true_iff in Hf. destruct Hf as [Hf1 Hf2].
  apply N.ltb_lt in Hf1, Hf2. apply N.eqb_eq in H3.
  assert (Hdiv : (Z.of_N f | Z.of_N q)%Z).
  { exists (Z.of_N (q / f)). pose proof (N.div_mod q f ltac:(lia)) as D. rewrite H3 in D. lia. }
  destruct (prime_divisors _ Hp _ Hdiv) as [H|[H|[H|H]]]; lia.
Qed.

Theorem largest_prime_reduced : prime MAXPRIME64 -> largest_prime_hyp.
Proof.
  intros Hp. split; [exact Hp|]. intros q Hq Hle. destruct (N.le_gt_cases q MAXPRIME64) as [|Hgt]; [assumption|exfalso].
  exact (no_prime_above_maxprime q Hgt Hle Hq).
Qed.

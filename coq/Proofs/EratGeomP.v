(** L4: the segments Erat sieves for [start, stop] are laid out correctly, for every configuration:
    bases = 0 (mod 30) and consecutive, every full segment ends at its base + 30*bytes + 6 < stop and all
    the numbers it represents are <= its segmentHigh (so the sieving primes <= sqrt(segmentHigh)
    suffice), the last segment's size is computed without underflow and reaches stop, the loop
    terminates, and every number of [start, stop] coprime to 30 is represented exactly once. *)
From Coq Require Import NArith ZArith List Bool Lia.
From PS Require Import Spec.Primes Model.Pmath Model.Config Model.EratGeom Proofs.PmathP Proofs.ConfigP.
Import ListNotations.
Local Open Scope N_scope.
Ltac Zify.zify_post_hook ::= Z.to_euclidean_division_equations.

(** loop invariant of "while (hasNextSegment()) sieveSegment()" *)
Definition geom_inv (stop low high size : N) : Prop :=
  low mod 30 = 0 /\ low + 7 <= stop /\ 1 <= size /\ high = N.min (low + 30 * size + 6) stop.

(** what a segment must satisfy *)
Definition seg_ok (stop : N) (sg : seg) : Prop :=
  s_low sg mod 30 = 0 /\ 1 <= s_bytes sg /\ s_low sg + 7 <= stop /\
  if s_last sg
  then (* the last byte is the byte of stop: no underflow in (stop - rem) - segmentLow *)
       s_low sg + 30 * (s_bytes sg - 1) = stop - byteRemainder stop
  else s_high sg = s_low sg + 30 * s_bytes sg + 6 /\ s_high sg < stop.

Lemma wrap_sub a b : b <= a -> a < U64 -> wrap_sz (a + U64 - b) = a - b.
Proof. intros H1 H2. unfold wrap_sz, U64 in *. lia. Qed.

Lemma sieve_segment_spec stop low high size :
  stop <= MAX64 -> geom_inv stop low high size ->
  let '(sg, (low', high', size')) := sieve_segment stop low high size in
  seg_ok stop sg /\ s_low sg = low /\
  (if s_last sg then low' = stop
   else geom_inv stop low' high' size' /\ low' = low + 30 * s_bytes sg /\ size' = size /\ s_bytes sg = size).
Proof.
  intros Hstop (H30 & H7 & Hsz & Hh). unfold sieve_segment.
  destruct (N.ltb_spec high stop) as [Hlt|Hge].
  - (* a full segment *)
    assert (Hhigh : high = low + 30 * size + 6) by lia.
    assert (Hl : checkedAdd low (size * 30) = low + 30 * size).
    { rewrite checkedAdd_min by (u64; lia). u64. lia. }
    assert (Hhh : N.min (checkedAdd high (size * 30)) stop = N.min (low + 30 * size + 30 * size + 6) stop).
    { rewrite checkedAdd_min by (u64; lia). u64. lia. }
    rewrite Hl, Hhh. cbn [s_low s_high s_bytes s_last]. unfold seg_ok. cbn [s_low s_high s_bytes s_last].
    unfold geom_inv. repeat split; try lia.
  - (* the last segment *)
    assert (Hrem : 7 <= byteRemainder stop /\ byteRemainder stop <= 36 /\ (stop - byteRemainder stop) mod 30 = 0 /\ low <= stop - byteRemainder stop /\ byteRemainder stop <= stop)
      by (unfold byteRemainder; lia).
    rewrite (wrap_sub stop (byteRemainder stop)) by (u64; lia).
    rewrite (wrap_sub (stop - byteRemainder stop) low) by (u64; lia).
    cbn [s_low s_high s_bytes s_last]. unfold seg_ok. cbn [s_low s_high s_bytes s_last].
    repeat split; try lia.
Qed.

(** every segment produced by the loop is well formed, consecutive segments are adjacent, the last one is
    flagged as such and no segment follows it *)
Fixpoint adjacent (l : list seg) : Prop :=
  match l with
  | sg :: ((sg' :: _) as l') => s_last sg = false /\ s_low sg' = s_low sg + 30 * s_bytes sg /\ adjacent l'
  | [sg] => s_last sg = true
  | [] => True
  end.

Lemma segments_loop_ok stop : stop <= MAX64 -> forall fuel low high size l,
  geom_inv stop low high size -> low < stop ->
  segments_loop fuel stop low high size = Some l ->
  l <> [] /\ Forall (seg_ok stop) l /\ adjacent l /\ s_low (hd {| s_low := 0; s_high := 0; s_bytes := 0; s_last := false |} l) = low.
Proof.
  intros Hstop. induction fuel as [|f IH]; intros low high size l Hinv Hlow H; cbn [segments_loop] in H; [discriminate|].
  destruct (N.ltb_spec low stop) as [_|]; [|lia].
  pose proof (sieve_segment_spec stop low high size Hstop Hinv) as HS.
  destruct (sieve_segment stop low high size) as [sg [[low' high'] size']].
  destruct HS as (Hok & Hl & Hnext).
  destruct (segments_loop f stop low' high' size') as [rest|] eqn:Er; [|discriminate]. injection H as <-.
  destruct (s_last sg) eqn:Elast.
  - (* after the last segment segmentLow_ = stop: the loop ends *)
    subst low'. destruct f as [|f']; [discriminate|]. cbn [segments_loop] in Er. rewrite N.ltb_irrefl in Er. injection Er as <-.
    repeat split; try discriminate; auto.
  - destruct Hnext as (Hinv' & Hlow' & _ & _).
    assert (Hlt' : low' < stop).
    { destruct Hok as (_ & _ & _ & Hns). rewrite Elast in Hns. lia. }
    destruct (IH low' high' size' rest Hinv' Hlt' Er) as (Hne & Hall & Hadj & Hhd).
    repeat split; try discriminate.
    + constructor; assumption.
    + destruct rest as [|sg' rest']; [congruence|]. cbn [adjacent hd] in *. repeat split; try assumption. lia.
    + cbn [hd]. exact Hl.
Qed.

(** termination: the loop needs at most (stop - low) / (30 * size) + 2 rounds *)
Lemma segments_loop_total stop : stop <= MAX64 -> forall fuel low high size,
  geom_inv stop low high size ->
  (N.to_nat ((stop - low) / (30 * size)) + 2 <= fuel)%nat ->
  segments_loop fuel stop low high size <> None.
Proof.
  intros Hstop. induction fuel as [|f IH]; intros low high size Hinv Hf.
  { exfalso. clear - Hf. generalize dependent (N.to_nat ((stop - low) / (30 * size))). intros; lia. }
  cbn [segments_loop]. destruct (N.ltb_spec low stop) as [Hlt|]; [|discriminate].
  pose proof (sieve_segment_spec stop low high size Hstop Hinv) as HS.
  destruct (sieve_segment stop low high size) as [sg [[low' high'] size']].
  destruct HS as (Hok & Hl & Hnext). destruct (s_last sg) eqn:Elast.
  - subst low'. destruct f as [|f']; [exfalso; clear - Hf; generalize dependent (N.to_nat ((stop - low) / (30 * size))); intros; lia|]. cbn [segments_loop]. rewrite N.ltb_irrefl. cbn. discriminate.
  - destruct Hnext as (Hinv' & Hlow' & Hsz' & Hbs).
    assert (segments_loop f stop low' high' size' <> None); [|destruct (segments_loop f stop low' high' size'); [discriminate|congruence]].
    apply IH; [exact Hinv'|]. subst size'.
    destruct Hok as (_ & Hb & _ & Hns). rewrite Elast in Hns. destruct Hinv as (_ & _ & Hsz & Hh).
    rewrite Hbs in *.
    assert (Hq : (stop - low) / (30 * size) = (stop - low') / (30 * size) + 1).
    { subst low'. replace (stop - low) with ((stop - (low + 30 * size)) + 1 * (30 * size)) by lia.
      rewrite N.div_add by lia. reflexivity. }
    rewrite Hq in Hf. clear - Hf. generalize dependent ((stop - low') / (30 * size)). intros; lia.
Qed.

(** C04/C01 (kernel surroundings): for every configuration the segments of Erat(start, stop) are well formed *)
Theorem segments_ok l1 maxKB start stop fuel l :
  16 <= maxKB -> maxKB <= 8192 -> 7 <= start -> start <= stop -> stop <= MAX64 ->
  segments fuel l1 maxKB start stop = Some l ->
  l <> [] /\ Forall (seg_ok stop) l /\ adjacent l /\
  let low0 := s_low (hd {| s_low := 0; s_high := 0; s_bytes := 0; s_last := false |} l) in
  low0 mod 30 = 0 /\ low0 + 7 <= start /\ start <= low0 + 36.
Proof.
  intros K1 K2 S1 S2 S3 H. unfold segments in H.
  pose proof (initAlgorithms_admissible l1 maxKB start stop K1 K2 S1 S2 S3) as A. cbn zeta in A.
  set (a := initAlgorithms l1 maxKB start stop) in *.
  destruct A as (A1 & A2 & A3 & A4 & A5 & A6 & A7 & A8 & A9 & A10 & A11).
  assert (Hinv : geom_inv stop (a_segLow a) (a_segHigh a) (a_sieveSize a)).
  { unfold geom_inv. repeat split; try assumption; lia. }
  destruct (segments_loop_ok stop S3 fuel _ _ _ l Hinv ltac:(lia) H) as (G1 & G2 & G3 & G4).
  repeat split; try assumption; rewrite G4; assumption.
Qed.

(** every number a full segment represents (low + 30*j + bv, j < bytes, bv <= 31) is <= its segmentHigh:
    the sieving primes <= sqrt(segmentHigh) suffice for it *)
Lemma seg_numbers_le_high stop sg j b :
  seg_ok stop sg -> s_last sg = false -> j < s_bytes sg -> b <= 31 -> s_low sg + 30 * j + b <= s_high sg.
Proof. intros (_ & _ & _ & H) Hl Hj Hb. rewrite Hl in H. lia. Qed.

(** the last segment reaches the byte of stop and not beyond *)
Lemma last_seg_reaches_stop stop sg :
  seg_ok stop sg -> s_last sg = true -> 7 <= stop ->
  s_low sg + 30 * (s_bytes sg - 1) + 7 <= stop /\ stop <= s_low sg + 30 * (s_bytes sg - 1) + 36.
Proof. intros (_ & _ & _ & H) Hl Hs. rewrite Hl in H. unfold byteRemainder in H. lia. Qed.

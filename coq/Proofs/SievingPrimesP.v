(** L3: SievingPrimes::tinySieve is exact on the odd numbers - tinySieve_[m] is true iff m is prime, for every odd
    3 <= m <= n and every n ([tiny_sieve_spec]) - and every read of tinySieve_ in SievingPrimes::sieveSegment is inside the
    table, which exists whenever it is read ([tiny_read_in_range]). *)
From Coq Require Import NArith ZArith List Bool Lia Znumtheory.
From PS Require Import Spec.Primes Model.SievingPrimesM Proofs.KernelP.
Import ListNotations.
Local Open Scope N_scope.

Lemma setf_length : forall j l, length (setf j l) = length l.
Proof. induction j as [|j IH]; intros [|b r]; cbn [setf length]; try reflexivity. rewrite IH. reflexivity. Qed.

Lemma nth_setf_eq : forall j l, (j < length l)%nat -> nth j (setf j l) false = false.
Proof.
  induction j as [|j IH]; intros [|b r] H; cbn [setf nth length] in *; try lia; try reflexivity.
  apply IH. lia.
Qed.

Lemma nth_setf_neq : forall j l m, m <> j -> nth m (setf j l) false = nth m l false.
Proof.
  induction j as [|j IH]; intros [|b r] m H; cbn [setf]; try reflexivity.
  - destruct m; [congruence|reflexivity].
  - destruct m; [reflexivity|]. cbn [nth]. apply IH. congruence.
Qed.

Definition at_ (sv : list bool) (m : N) : bool := nth (N.to_nat m) sv false.

(** the inner loop: clears exactly j, j + step, j + 2 step, ... <= n *)
Lemma mark_spec : forall fuel n step j sv, 0 < step -> (N.to_nat n + 1)%nat = length sv -> (N.to_nat (n + 1 - j) <= fuel)%nat ->
  length (mark fuel n step j sv) = length sv /\
  forall m, m <= n -> (at_ (mark fuel n step j sv) m = false <-> at_ sv m = false \/ exists k, m = j + k * step).
Proof.
  induction fuel as [|f IH]; intros n step j sv Hs Hlen Hf; cbn [mark].
  - split; [reflexivity|]. intros m Hm. split; [auto|]. intros [H|(k & ->)]; [exact H|]. lia.
  - destruct (N.ltb_spec n j) as [Hgt|Hle].
    + split; [reflexivity|]. intros m Hm. split; [auto|]. intros [H|(k & ->)]; [exact H|]. lia.
    + destruct (IH n step (j + step) (setf (N.to_nat j) sv) Hs ltac:(rewrite setf_length; exact Hlen) ltac:(lia)) as (L & S).
      split; [rewrite L; apply setf_length|]. intros m Hm. rewrite (S m Hm). unfold at_.
      destruct (N.eq_dec m j) as [->|Hne].
      * rewrite nth_setf_eq by lia. split; [intros _; right; exists 0; lia|intros _; left; reflexivity].
      * rewrite nth_setf_neq by lia. split.
        -- intros [H|(k & ->)]; [left; exact H|right; exists (k + 1); nia].
        -- intros [H|(k & E)]; [left; exact H|]. right. destruct (N.eq_dec k 0) as [->|Hk]; [subst m; lia|]. exists (k - 1). nia.
Qed.

Definition composite3 (m : N) : Prop := exists d k, 3 <= d /\ d <= k /\ m = d * k.
Definition sound (n : N) (sv : list bool) : Prop := forall m, m <= n -> at_ sv m = false -> composite3 m.
Definition complete (n i : N) (sv : list bool) : Prop :=
  forall m d, m <= n -> m mod 2 = 1 -> prime d -> 3 <= d -> d < i -> d * d <= m -> m mod d = 0 -> at_ sv m = false.

Lemma composite3_not_prime m : composite3 m -> ~ prime m.
Proof.
  intros (d & k & Hd & Hk & ->) Hp.
  assert (Hdiv : (Z.of_N d | Z.of_N (d * k))%Z) by (exists (Z.of_N k); lia).
  destruct (prime_divisors _ Hp _ Hdiv) as [H|[H|[H|H]]]; nia.
Qed.

Lemma tiny_loop_spec : forall fuel n i sv, i mod 2 = 1 -> 3 <= i -> (N.to_nat n + 1)%nat = length sv ->
  (N.to_nat (n + 2 - i) <= fuel)%nat -> sound n sv -> complete n i sv ->
  let sv' := tiny_loop fuel n i sv in
  sound n sv' /\ exists i', n < i' * i' /\ complete n i' sv'.
Proof.
  induction fuel as [|f IH]; intros n i sv Hodd H3 Hlen Hf Hs Hc; cbn [tiny_loop]; cbv zeta.
  - split; [exact Hs|]. exists i. split; [nia|exact Hc].
  - destruct (N.ltb_spec n (i * i)) as [Hgt|Hle]; [split; [exact Hs|exists i; split; [exact Hgt|exact Hc]]|].
    set (sv1 := if nth (N.to_nat i) sv false then mark (N.to_nat n + 1) n (2 * i) (i * i) sv else sv).
    assert (H1 : length sv1 = length sv /\ sound n sv1 /\ complete n (i + 2) sv1).
    { subst sv1. destruct (nth (N.to_nat i) sv false) eqn:Ei.
      - destruct (mark_spec (N.to_nat n + 1) n (2 * i) (i * i) sv ltac:(lia) Hlen ltac:(lia)) as (L & S).
        split; [exact L|]. split.
        + intros m Hm Hf0. apply (S m Hm) in Hf0. destruct Hf0 as [A|(k & ->)]; [exact (Hs m Hm A)|].
          exists i, (i + 2 * k). split; [exact H3|]. split; lia.
        + intros m d Hm Hmo Hp Hd3 Hdi Hdd Hdiv. apply (S m Hm).
          destruct (N.lt_ge_cases d i) as [Hlt|Hge]; [left; exact (Hc m d Hm Hmo Hp Hd3 Hlt Hdd Hdiv)|].
          assert (d = i).
          { destruct (N.eq_dec d i) as [E|Hne]; [exact E|exfalso]. assert (d = i + 1) by lia. subst d.
            assert (Hdiv2 : (2 | Z.of_N (i + 1))%Z) by (exists (Z.of_N ((i + 1) / 2)); lia).
            destruct (prime_divisors _ Hp _ Hdiv2) as [A|[A|[A|A]]]; lia. }
          subst d. right.
          (* m = i * q with q odd, q >= i *)
          set (q := m / i). assert (Eq : m = i * q) by (subst q; pose proof (N.div_mod m i ltac:(lia)); lia).
          assert (Hqi : i <= q) by (apply (N.mul_le_mono_pos_l i q i); [clear - H3; lia|]; rewrite <- Eq; exact Hdd).
          assert (Hqodd : q mod 2 = 1).
          { destruct (N.eq_dec (q mod 2) 1) as [E|E]; [exact E|exfalso]. assert (q mod 2 = 0) by lia.
            assert (m mod 2 = 0); [|lia]. rewrite Eq, N.mul_mod by lia. rewrite H. rewrite N.mul_0_r. reflexivity. }
          exists ((q - i) / 2). assert (Hq2 : q = i + 2 * ((q - i) / 2)) by (clear - Hqi Hodd Hqodd; lia). rewrite Eq. rewrite Hq2 at 1. ring.
      - split; [reflexivity|]. split; [exact Hs|].
        intros m d Hm Hmo Hp Hd3 Hdi Hdd Hdiv.
        destruct (N.lt_ge_cases d i) as [Hlt|Hge]; [exact (Hc m d Hm Hmo Hp Hd3 Hlt Hdd Hdiv)|exfalso].
        assert (d = i).
        { destruct (N.eq_dec d i) as [E|Hne]; [exact E|exfalso]. assert (d = i + 1) by lia. subst d.
          assert (Hdiv2 : (2 | Z.of_N (i + 1))%Z) by (exists (Z.of_N ((i + 1) / 2)); lia).
          destruct (prime_divisors _ Hp _ Hdiv2) as [A|[A|[A|A]]]; lia. }
        subst d. apply (composite3_not_prime i); [|exact Hp]. apply (Hs i); [nia|exact Ei]. }
    destruct H1 as (L1 & S1 & C1).
    apply (IH n (i + 2) sv1); [| lia | rewrite L1; exact Hlen | lia | exact S1 | exact C1].
    rewrite N.add_mod by lia. rewrite Hodd. reflexivity.
Qed.

Lemma nth_repeat_true : forall n k, (k < n)%nat -> nth k (repeat true n) false = true.
Proof. induction n as [|n IH]; intros k H; [lia|]. cbn [repeat nth]. destruct k; [reflexivity|]. apply IH. lia. Qed.

Lemma at_repeat n m : m <= n -> at_ (repeat true (N.to_nat n + 1)) m = true.
Proof. intros H. unfold at_. apply nth_repeat_true. lia. Qed.

Theorem tiny_sieve_spec n m : m mod 2 = 1 -> 3 <= m -> m <= n -> (at_ (tiny_sieve n) m = true <-> prime m).
Proof.
  intros Hodd H3 Hm. unfold tiny_sieve.
  destruct (tiny_loop_spec (N.to_nat n + 1) n 3 (repeat true (N.to_nat n + 1)) eq_refl ltac:(lia)
              ltac:(rewrite repeat_length; reflexivity) ltac:(lia)) as (Hs & i' & Hi' & Hc).
  - intros x Hx Hf. rewrite (at_repeat n x Hx) in Hf. discriminate.
  - intros x d _ _ _ Hd3 Hd _ _. lia.
  - split.
    + intros Ht. destruct (prime_dec_N m) as [Hp|Hnp]; [exact Hp|exfalso].
      destruct (composite_factor m ltac:(lia) Hnp) as (p & q & Hp & E & Hsq & Hpq).
      assert (Hp3 : 3 <= p).
      { pose proof (prime_ge_2 p Hp). destruct (N.eq_dec p 2) as [->|]; [|lia]. exfalso. rewrite E in Hodd. rewrite N.mul_comm, N.mod_mul in Hodd by lia. lia. }
      assert (Hf : at_ (tiny_loop (N.to_nat n + 1) n 3 (repeat true (N.to_nat n + 1))) m = false).
      { apply (Hc m p Hm Hodd Hp Hp3); [nia|lia|]. rewrite E, N.mul_comm. apply N.mod_mul. lia. }
      congruence.
    + intros Hp. destruct (at_ (tiny_loop (N.to_nat n + 1) n 3 (repeat true (N.to_nat n + 1))) m) eqn:E; [reflexivity|exfalso].
      exact (composite3_not_prime m (Hs m Hm E) Hp).
Qed.

(** the table has n + 1 entries ... *)
Lemma mark_length : forall fuel n step j sv, length (mark fuel n step j sv) = length sv.
Proof. induction fuel as [|f IH]; intros; cbn [mark]; [reflexivity|]. destruct (n <? j); [reflexivity|]. rewrite IH. apply setf_length. Qed.
Lemma tiny_loop_length : forall fuel n i sv, length (tiny_loop fuel n i sv) = length sv.
Proof.
  induction fuel as [|f IH]; intros; cbn [tiny_loop]; [reflexivity|]. destruct (n <? i * i); [reflexivity|]. rewrite IH.
  destruct (nth (N.to_nat i) sv false); [apply mark_length|reflexivity].
Qed.
Lemma tiny_sieve_length n : length (tiny_sieve n) = (N.to_nat n + 1)%nat.
Proof. unfold tiny_sieve. rewrite tiny_loop_length, repeat_length. reflexivity. Qed.

(** ... and SievingPrimes::sieveSegment only reads it where it exists and inside it: the loop reads tinySieve_[i] for
    start <= i, i * i <= high <= stop = the SievingPrimes object's stop, and n = isqrt(stop) *)
Theorem tiny_read_in_range start stop high i : start <= i -> i * i <= high -> high <= stop ->
  tiny_built start stop = true /\ (N.to_nat i < length (tiny_sieve (N.sqrt stop)))%nat.
Proof.
  intros Hs Hi Hh. split.
  - unfold tiny_built. apply N.leb_le. nia.
  - rewrite tiny_sieve_length. assert (i <= N.sqrt stop); [|lia].
    apply N.sqrt_le_square. nia.
Qed.

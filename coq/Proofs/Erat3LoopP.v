(** L3: the kernel theorem over the whole segment loop with the three cross-off algorithms of Erat (model Model/Erat3M.v):
    sieving primes delivered in ascending order, added when prime^2 <= segmentHigh and dispatched by size to EratSmall
    (<= maxEratSmall_), EratMedium (<= maxEratMedium_) or EratBig; after every segment a number n <= segmentHigh of that
    segment has its bit cleared, or is a multiple of 7 (pre-sieved), iff it is p*q for a sieving prime p and q >= p coprime
    to 30, or a multiple of 7 ([sieve_loop3_spec]).  No store ever leaves buckets_ ([None] of the model is excluded: the
    theorem is stated for every run that returns, and [add_prime3_total] shows that the stores succeed). *)
From Coq Require Import NArith ZArith List Bool Lia Permutation Sorted Znumtheory.
From PS Require Import Spec.Primes Gen.Tables Model.Count Model.Wheel Model.CrossOff Model.EratMediumM Model.EratBigM Model.Erat3M
  Proofs.TablesP Proofs.PmathP Proofs.WheelP Proofs.CrossOffP Proofs.KernelP Proofs.KernelInitP Proofs.KernelLoopP
  Proofs.CrossOff210P Proofs.EratBigP Proofs.EratBigSegP Proofs.EratBigInitP Proofs.EratMediumP Proofs.Erat3SegP.
Import ListNotations.
Local Open Scope N_scope.

Definition dead210 (stop low p : N) : Prop := forall q, p <= q -> coprime210 q -> low + 7 <= p * q -> stop < p * q.

Lemma dead_mono' stop low low' p : low <= low' -> dead stop low p -> dead stop low' p.
Proof. intros H D q H1 H2 H3. apply D; [assumption|assumption|lia]. Qed.

Lemma dead210_mono stop low low' p : low <= low' -> dead210 stop low p -> dead210 stop low' p.
Proof. intros H D q H1 H2 H3. apply D; [assumption|assumption|lia]. Qed.

(** the mixed segment theorem with the second kind of unneeded prime *)
Section Mix2.
Variables low high stop pmin : N.
Variable sps30 sps210 : list (N * N).
Hypothesis sps30_ok : forall p q0, In (p, q0) sps30 ->
  prime p /\ 7 <= p /\ coprime30 q0 /\ p <= q0 /\ (forall q, p <= q -> coprime30 q -> low + 7 <= p * q -> q0 <= q).
Hypothesis sps210_ok : forall p q0, In (p, q0) sps210 ->
  prime p /\ 7 <= p /\ coprime210 q0 /\ p <= q0 /\ (forall q, p <= q -> coprime210 q -> low + 7 <= p * q -> q0 <= q).
Hypothesis sps_min : forall p q0, In (p, q0) sps30 \/ In (p, q0) sps210 -> pmin <= p.
Hypothesis sps_complete : forall p, prime p -> pmin <= p -> p * p <= high ->
  (exists q0, In (p, q0) sps30) \/ (exists q0, In (p, q0) sps210) \/ dead stop low p \/ dead210 stop low p.

Theorem segment_crossed_mix2 n : low + 7 <= n -> n <= high -> n <= stop ->
  (crossed sps30 n \/ crossed210 sps210 n -> bigfactor pmin n) /\
  (bigfactor pmin n -> (crossed sps30 n \/ crossed210 sps210 n) \/ n mod 7 = 0).
Proof.
  intros Hn Hnh Hns. split.
  - intros [(p & q0 & q & Hin & Hq & Hcq & E)|(p & q0 & q & Hin & Hq & Hcq & E)].
    + destruct (sps30_ok p q0 Hin) as (Hp & _ & _ & Hpq0 & _).
      exists p, q. split; [exact Hp|]. split; [apply (sps_min p q0); left; exact Hin|]. split; [lia|]. split; [exact Hcq|exact E].
    + destruct (sps210_ok p q0 Hin) as (Hp & _ & _ & Hpq0 & _).
      exists p, q. split; [exact Hp|]. split; [apply (sps_min p q0); right; exact Hin|]. split; [lia|].
      split; [apply coprime210_30; exact Hcq|exact E].
  - intros (p & q & Hp & Hpm & Hpq & Hcq & E).
    assert (Hsq : p * p <= high) by (subst n; nia).
    destruct (N.eq_dec (q mod 7) 0) as [Hq7|Hq7].
    { right. subst n. rewrite N.mul_mod by lia. rewrite Hq7, N.mul_0_r. reflexivity. }
    pose proof (coprime30_210 q Hcq Hq7) as Hc2.
    destruct (sps_complete p Hp Hpm Hsq) as [(q0 & Hin)|[(q0 & Hin)|[Hdead|Hdead]]].
    + left. left. destruct (sps30_ok p q0 Hin) as (_ & _ & _ & _ & Hmin).
      exists p, q0, q. split; [exact Hin|]. split; [apply Hmin; [exact Hpq|exact Hcq|lia]|]. split; [exact Hcq|exact E].
    + left. right. destruct (sps210_ok p q0 Hin) as (_ & _ & _ & _ & Hmin).
      exists p, q0, q. split; [exact Hin|]. split; [apply Hmin; [exact Hpq|exact Hc2|lia]|]. split; [exact Hc2|exact E].
    + exfalso. specialize (Hdead q Hpq Hcq ltac:(lia)). lia.
    + exfalso. specialize (Hdead q Hpq Hc2 ltac:(lia)). lia.
Qed.
End Mix2.

(** ---- the state of the three algorithms and its witnesses *)
Record W := mkW { w_s : list wstate; w_m : list wstate; w_b : list wstate }.
Definition primes_of (w : W) : list N := map w_prime (w_s w ++ w_m w ++ w_b w).

Definition st_ok (log2 low : N) (s : e3) (w : W) : Prop :=
  e_small s = map w_state (w_s w) /\ Forall (w_ok low) (w_s w) /\
  length (e_med s) = 64%nat /\ Permutation (em_abs (e_med s)) (map w_state (w_m w)) /\ Forall (w_ok low) (w_m w) /\
  wf log2 (e_big s) /\ Permutation (abs_of log2 (e_big s)) (map w_state210 (w_b w)) /\ Forall (w_ok210 low) (w_b w).

Lemma st_ok_nobig log2 low s w : st_ok log2 low s w -> e_big s = [] -> w_b w = [].
Proof.
  intros (_ & _ & _ & _ & _ & _ & P & _) E. rewrite E in P. cbn in P. apply Permutation_nil in P.
  destruct (w_b w); [reflexivity|discriminate].
Qed.

Lemma in_primes_of w p : In p (primes_of w) <-> In p (map w_prime (w_s w)) \/ In p (map w_prime (w_m w)) \/ In p (map w_prime (w_b w)).
Proof. unfold primes_of. rewrite !map_app, !in_app_iff. tauto. Qed.

(** EratBig always works with its full sieve size 2^log2, also in a shorter last segment *)
Lemma mem_crossed210_le low size log2 (ws : list wstate) (cl : list (N * N)) : low mod 30 = 0 -> size <= EratBigP.size log2 ->
  Forall (w_ok210 low) ws ->
  (forall b m, In (b, m) cl <-> clears log2 low ws b m) ->
  forall n, coprime30 n -> low + 7 <= n -> byteof low n < size ->
  (In (byteof low n, maskof n) cl <-> crossed210 (sps_of ws) n).
Proof.
  intros Hl Hsz Hok Hmem n Hc Hn Hb.
  apply (mem_crossed210 low (EratBigP.size log2) Hl log2 ws cl eq_refl Hok Hmem n Hc Hn). lia.
Qed.

Section Cross3.
Variables (fuel : nat) (log2 low size : N).
Hypothesis Hl : low mod 30 = 0.

Theorem cross3_spec s w cleared s' : st_ok log2 low s w -> (size <= EratBigP.size log2 \/ e_big s = []) ->
  cross3 fuel size log2 s = Some (cleared, s') ->
  (forall n, coprime30 n -> low + 7 <= n -> byteof low n < size ->
     (In (byteof low n, maskof n) cleared <-> crossed (sps_of (w_s w ++ w_m w)) n \/ crossed210 (sps_of (w_b w)) n)) /\
  ((size = EratBigP.size log2 \/ e_big s = []) ->
   exists w', st_ok log2 (low + 30 * size) s' w' /\ map w_prime (w_s w') = map w_prime (w_s w) /\
              map w_prime (w_m w') = map w_prime (w_m w) /\ map w_prime (w_b w') = map w_prime (w_b w) /\
              (e_big s = [] -> e_big s' = [])).
Proof.
  intros (Es & Hs & Hlen & Pm & Hm & Hwf & Pb & Hb) Hsz H. unfold cross3 in H. rewrite Es in H.
  destruct (cross_all fuel eratSmallSteps size (map w_state (w_s w))) as [[cs s1]|] eqn:Ecs; [|discriminate].
  destruct (em_cross fuel size (e_med s)) as [[cm m1]|] eqn:Ecm; [|discriminate].
  destruct (cross_all_spec eratSmallSteps eratSmallSteps_entries fuel low size Hl (w_s w) cs s1 Hs Ecs) as (Mem_s & ws' & Hws' & Hps & Hss).
  destruct (em_segment_spec fuel low size (e_med s) (w_m w) cm m1 Hl Hlen Hm Pm Ecm) as (Mem_m & wm' & Hwm' & Hpm & Pm' & Hlen').
  assert (E30 : forall n, crossed (sps_of (w_s w ++ w_m w)) n <-> crossed (sps_of (w_s w)) n \/ crossed (sps_of (w_m w)) n).
  { intros n. unfold crossed, sps_of. rewrite map_app. split.
    - intros (p & q0 & q & Hin & R). apply in_app_or in Hin. destruct Hin as [Hin|Hin]; [left|right]; exists p, q0, q; split; assumption.
    - intros [(p & q0 & q & Hin & R)|(p & q0 & q & Hin & R)]; exists p, q0, q; (split; [apply in_or_app; auto|exact R]). }
  destruct (e_big s) as [|l0 r0] eqn:Eb.
  - (* EratBig holds nothing *)
    injection H as <- <-.
    assert (Hwb : w_b w = []).
    { cbn in Pb. apply Permutation_nil in Pb. destruct (w_b w); [reflexivity|discriminate]. }
    split.
    + intros n Hc Hn Hbn. rewrite !in_app_iff, (mem_crossed30 low size Hl (w_s w) cs Hs Mem_s n Hc Hn Hbn),
        (mem_crossed30 low size Hl (w_m w) cm Hm Mem_m n Hc Hn Hbn), E30, Hwb.
      split; [intros [A|[A|[]]]; tauto|intros [A|(p & q0 & q & [] & _)]; tauto].
    + intros _. exists (mkW ws' wm' []).
      split; [|split; [exact Hps|split; [exact Hpm|split; [rewrite Hwb; reflexivity|intros _; reflexivity]]]].
      unfold st_ok. change (e_small (mk3 s1 m1 [])) with s1. change (e_med (mk3 s1 m1 [])) with m1. change (e_big (mk3 s1 m1 [])) with (@nil (list entry)).
      change (w_s (mkW ws' wm' [])) with ws'. change (w_m (mkW ws' wm' [])) with wm'. change (w_b (mkW ws' wm' [])) with (@nil wstate).
      repeat split; try assumption; [symmetry; exact Hss|apply perm_nil|constructor].
  - destruct (eb_cross fuel log2 (l0 :: r0) []) as [[cb b1]|] eqn:Ecb; [|discriminate]. injection H as <- <-.
    destruct (eratbig_segment_spec log2 low Hl fuel (l0 :: r0) (w_b w) cb b1 Hwf Hb Pb Ecb) as (Mem_b & wb' & Hwb' & Hpb & Pb' & Hwf').
    assert (Hle : size <= EratBigP.size log2) by (destruct Hsz as [A|A]; [exact A|discriminate A]).
    split.
    + intros n Hc Hn Hbn. rewrite !in_app_iff, (mem_crossed30 low size Hl (w_s w) cs Hs Mem_s n Hc Hn Hbn),
        (mem_crossed30 low size Hl (w_m w) cm Hm Mem_m n Hc Hn Hbn),
        (mem_crossed210_le low size log2 (w_b w) cb Hl Hle Hb Mem_b n Hc Hn Hbn), E30. tauto.
    + intros [Heq|A]; [|discriminate A]. rewrite <- Heq in Hwb'. exists (mkW ws' wm' wb').
      split; [|split; [exact Hps|split; [exact Hpm|split; [exact Hpb|intros A; discriminate A]]]].
      unfold st_ok. change (e_small (mk3 s1 m1 b1)) with s1. change (e_med (mk3 s1 m1 b1)) with m1. change (e_big (mk3 s1 m1 b1)) with b1.
      change (w_s (mkW ws' wm' wb')) with ws'. change (w_m (mkW ws' wm' wb')) with wm'. change (w_b (mkW ws' wm' wb')) with wb'.
      repeat split; try assumption. symmetry. exact Hss.
Qed.
End Cross3.

Section Loop3.
Variables (stop maxSmall maxMedium log2 pmin : N).
Hypothesis Hstop : stop <= MAX64.
Hypothesis Hpmin : 31 <= pmin.
Definition sp_ok3 (p : N) : Prop := prime p /\ pmin <= p /\ p * p <= stop.

Lemma sq_lt32' p : p * p <= stop -> p < 2 ^ 32.
Proof. intros H. change (2 ^ 32) with 4294967296. unfold MAX64 in Hstop. nia. Qed.

Lemma add_prime3_ok low s w p s1 : low mod 30 = 0 -> low + 6 <= MAX64 -> st_ok log2 low s w -> sp_ok3 p ->
  (maxMedium < p -> p * p <= low + 30 * EratBigP.size log2 + 6) ->
  add_prime3 stop low maxSmall maxMedium log2 s p = Some s1 ->
  exists w1, st_ok log2 low s1 w1 /\
    (forall p', In p' (primes_of w) -> In p' (primes_of w1)) /\
    (forall p', In p' (primes_of w1) -> In p' (primes_of w) \/ p' = p) /\
    (In p (primes_of w1) \/ dead stop low p \/ dead210 stop low p) /\
    (e_big s = [] -> p <= maxMedium -> e_big s1 = []).
Proof.
  intros Hl Hl6 Hst (Hp & Hpm & Hsq) Hbig H.
  assert (H7 : 7 <= p) by lia. assert (H11 : 11 <= p) by lia. pose proof (sq_lt32' p Hsq) as H32.
  destruct Hst as (Es & Hs & Hlen & Pm & Hm & Hwf & Pb & Hb).
  unfold add_prime3 in H. destruct (N.ltb_spec maxMedium p) as [Hgt|Hle].
  - (* EratBig *)
    destruct (addSievingPrime210 stop p low) as [[mi wi]|] eqn:E.
    + destruct (eb_store log2 (e_big s) p mi wi) as [b'|] eqn:Est; [|discriminate]. injection H as <-.
      destruct (asp210_state_ok stop p low mi wi Hp H11 H32 Hl Hstop Hl6 E) as (ri & qi & q & Hwi & Hspr & Hwok & _ & Hw384 & Hidx).
      pose proof (size_pos log2) as Hsz.
      destruct (eb_store_ok log2 (e_big s) p mi wi Hwf ltac:(lia) Hw384 (Hidx (EratBigP.size log2) ltac:(lia) (Hbig Hgt))) as (b'' & Eb'' & Hwf'' & Pb'').
      rewrite Est in Eb''. injection Eb'' as <-.
      exists (mkW (w_s w) (w_m w) ((p / 30, ri, qi, q, mi) :: w_b w)).
      split; [|split; [|split; [|split]]].
      * unfold st_ok. cbn [e_small e_med e_big w_s w_m w_b]. repeat split; try assumption.
        -- cbn [map w_state210]. rewrite <- Hwi. eapply perm_trans; [exact Pb''|]. apply perm_skip. exact Pb.
        -- constructor; assumption.
      * intros p'. rewrite !in_primes_of. cbn [w_s w_m w_b map In]. tauto.
      * intros p'. rewrite !in_primes_of. cbn [w_s w_m w_b map w_prime]. rewrite Hspr. intros [A|[A|[A|A]]]; auto.
      * left. rewrite in_primes_of. cbn [w_b map w_prime]. rewrite Hspr. right. right. left. reflexivity.
      * intros _ Hc. lia.
    + injection H as <-. exists w. split; [unfold st_ok; repeat split; assumption|]. split; [auto|]. split; [auto|]. split; [|auto].
      right. right. exact (asp210_none_dead stop p low Hp H11 H32 Hl Hstop Hl6 E).
  - destruct (N.ltb_spec maxSmall p) as [Hgt2|Hle2].
    + (* EratMedium *)
      destruct (addSievingPrime30 stop p low) as [[mi wi]|] eqn:E.
      * destruct (em_store (e_med s) p mi wi) as [b'|] eqn:Est; [|discriminate]. injection H as <-.
        destruct (asp30_state_ok stop p low mi wi Hp H7 H32 Hl Hstop Hl6 E) as (ri & qi & q & Hwi & Hspr & Hwok & _).
        assert (Hw64 : wi < 64) by (cbn [w_ok] in Hwok; destruct Hwok as ((Hr & Hq & _) & _); lia).
        destruct (em_store_ok (e_med s) p mi wi (or_intror Hlen) Hw64) as (b'' & Eb'' & Hlen'' & Pb'').
        rewrite Est in Eb''. injection Eb'' as <-.
        exists (mkW (w_s w) ((p / 30, ri, qi, q, mi) :: w_m w) (w_b w)).
        split; [|split; [|split; [|split]]].
        -- unfold st_ok. cbn [e_small e_med e_big w_s w_m w_b]. repeat split; try assumption.
           ++ cbn [map w_state]. rewrite <- Hwi. eapply perm_trans; [exact Pb''|]. apply perm_skip. exact Pm.
           ++ constructor; assumption.
        -- intros p'. rewrite !in_primes_of. cbn [w_s w_m w_b map In]. tauto.
        -- intros p'. rewrite !in_primes_of. cbn [w_s w_m w_b map w_prime]. rewrite Hspr. intros [A|[[A|A]|A]]; auto.
        -- left. rewrite in_primes_of. cbn [w_m map w_prime]. rewrite Hspr. right. left. left. reflexivity.
        -- intros A _. exact A.
      * injection H as <-. exists w. split; [unfold st_ok; repeat split; assumption|]. split; [auto|]. split; [auto|]. split; [|auto].
        right. left. exact (asp30_none_dead stop p low Hp H7 H32 Hl Hstop Hl6 E).
    + (* EratSmall *)
      destruct (addSievingPrime30 stop p low) as [[mi wi]|] eqn:E.
      * injection H as <-.
        destruct (asp30_state_ok stop p low mi wi Hp H7 H32 Hl Hstop Hl6 E) as (ri & qi & q & Hwi & Hspr & Hwok & _).
        exists (mkW (w_s w ++ [(p / 30, ri, qi, q, mi)]) (w_m w) (w_b w)).
        split; [|split; [|split; [|split]]].
        -- unfold st_ok. cbn [e_small e_med e_big w_s w_m w_b]. repeat split; try assumption.
           ++ rewrite map_app, Es. cbn [map w_state]. rewrite Hwi. reflexivity.
           ++ apply Forall_app. split; [exact Hs|constructor; [exact Hwok|constructor]].
        -- intros p'. rewrite !in_primes_of. cbn [w_s w_m w_b]. rewrite map_app, in_app_iff. tauto.
        -- intros p'. rewrite !in_primes_of. cbn [w_s w_m w_b]. rewrite map_app, in_app_iff. cbn [map w_prime In]. rewrite Hspr.
           intros [[A|[A|[]]]|[A|A]]; auto.
        -- left. rewrite in_primes_of. cbn [w_s]. rewrite map_app, in_app_iff. cbn [map w_prime In]. rewrite Hspr. left. right. left. reflexivity.
        -- intros A _. exact A.
      * injection H as <-. exists w. split; [unfold st_ok; repeat split; assumption|]. split; [auto|]. split; [auto|]. split; [|auto].
        right. left. exact (asp30_none_dead stop p low Hp H7 H32 Hl Hstop Hl6 E).
Qed.

(** the stores never fail: no write outside buckets_ in either bucket algorithm *)
Lemma add_prime3_total low s w p : low mod 30 = 0 -> low + 6 <= MAX64 -> st_ok log2 low s w -> sp_ok3 p ->
  (maxMedium < p -> p * p <= low + 30 * EratBigP.size log2 + 6) ->
  exists s1, add_prime3 stop low maxSmall maxMedium log2 s p = Some s1.
Proof.
  intros Hl Hl6 Hst (Hp & Hpm & Hsq) Hbig.
  assert (H7 : 7 <= p) by lia. assert (H11 : 11 <= p) by lia. pose proof (sq_lt32' p Hsq) as H32.
  destruct Hst as (Es & Hs & Hlen & Pm & Hm & Hwf & Pb & Hb).
  unfold add_prime3. destruct (N.ltb_spec maxMedium p) as [Hgt|Hle].
  - destruct (addSievingPrime210 stop p low) as [[mi wi]|] eqn:E; [|eexists; reflexivity].
    destruct (asp210_state_ok stop p low mi wi Hp H11 H32 Hl Hstop Hl6 E) as (ri & qi & q & _ & _ & _ & _ & Hw384 & Hidx).
    pose proof (size_pos log2) as Hsz.
    destruct (eb_store_ok log2 (e_big s) p mi wi Hwf ltac:(lia) Hw384 (Hidx (EratBigP.size log2) ltac:(lia) (Hbig Hgt))) as (b'' & -> & _).
    eexists. reflexivity.
  - destruct (N.ltb_spec maxSmall p) as [Hgt2|Hle2].
    + destruct (addSievingPrime30 stop p low) as [[mi wi]|] eqn:E; [|eexists; reflexivity].
      destruct (asp30_state_ok stop p low mi wi Hp H7 H32 Hl Hstop Hl6 E) as (ri & qi & q & Hwi & _ & Hwok & _).
      assert (Hw64 : wi < 64) by (cbn [w_ok] in Hwok; destruct Hwok as ((Hr & Hq & _) & _); lia).
      destruct (em_store_ok (e_med s) p mi wi (or_intror Hlen) Hw64) as (b'' & -> & _). eexists. reflexivity.
    + destruct (addSievingPrime30 stop p low) as [[mi wi]|]; eexists; reflexivity.
Qed.

Lemma add_primes3_ok low : low mod 30 = 0 -> low + 6 <= MAX64 -> forall ps s w s1, st_ok log2 low s w -> Forall sp_ok3 ps ->
  (forall p, In p ps -> maxMedium < p -> p * p <= low + 30 * EratBigP.size log2 + 6) ->
  add_primes3 stop low maxSmall maxMedium log2 s ps = Some s1 ->
  exists w1, st_ok log2 low s1 w1 /\
    (forall p', In p' (primes_of w) -> In p' (primes_of w1)) /\
    (forall p', In p' (primes_of w1) -> In p' (primes_of w) \/ In p' ps) /\
    (forall p, In p ps -> In p (primes_of w1) \/ dead stop low p \/ dead210 stop low p) /\
    (e_big s = [] -> (forall p, In p ps -> p <= maxMedium) -> e_big s1 = []).
Proof.
  intros Hl Hl6. induction ps as [|p r IH]; intros s w s1 Hst Hps Hbig H; cbn [add_primes3] in H.
  - injection H as <-. exists w. split; [exact Hst|]. split; [auto|]. split; [auto|]. split; [intros p []|auto].
  - inversion Hps as [|? ? Hp Hr]; subst.
    destruct (add_prime3 stop low maxSmall maxMedium log2 s p) as [s0|] eqn:E; [|discriminate].
    destruct (add_prime3_ok low s w p s0 Hl Hl6 Hst Hp (Hbig p (or_introl eq_refl)) E) as (w0 & Hst0 & Hin0 & Hout0 & Hcov0 & Hb0).
    destruct (IH s0 w0 s1 Hst0 Hr (fun p' Hp' => Hbig p' (or_intror Hp')) H) as (w1 & Hst1 & Hin1 & Hout1 & Hcov1 & Hb1).
    exists w1. split; [exact Hst1|]. split; [intros p' A; apply Hin1, Hin0, A|]. split; [|split].
    + intros p' A. destruct (Hout1 p' A) as [B|B]; [destruct (Hout0 p' B) as [C|C]; [left; exact C|right; left; symmetry; exact C]|right; right; exact B].
    + intros p' [<-|A]; [|exact (Hcov1 p' A)]. destruct Hcov0 as [B|B]; [left; apply Hin1; exact B|right; exact B].
    + intros A B. apply Hb1; [apply Hb0; [exact A|apply B; left; reflexivity]|intros p' C; apply B; right; exact C].
Qed.

Fixpoint segs_ok3 (low : N) (segs : list kseg) : Prop :=
  match segs with
  | [] => True
  | sg :: r => k_low sg = low /\ low mod 30 = 0 /\ low + 6 <= MAX64 /\ k_high sg <= stop /\
               k_high sg <= low + 30 * k_size sg + 6 /\ segs_ok3 (low + 30 * k_size sg) r
  end.
(** EratBig needs a power-of-two sieve array: every segment but the last has 2^log2 bytes *)
Fixpoint szs_ok (segs : list kseg) : Prop :=
  match segs with
  | [] => True
  | sg :: r => k_size sg <= EratBigP.size log2 /\ (r <> [] -> k_size sg = EratBigP.size log2) /\ szs_ok r
  end.
Definition nobig : Prop := forall p, sp_ok3 p -> p <= maxMedium.

Definition seg_result3 (r : kseg * list (N * N)) : Prop :=
  let '(sg, cleared) := r in
  k_low sg mod 30 = 0 /\
  forall n, coprime30 n -> k_low sg + 7 <= n -> byteof (k_low sg) n < k_size sg -> n <= k_high sg ->
  (In (byteof (k_low sg) n, maskof n) cleared -> bigfactor pmin n) /\
  (bigfactor pmin n -> In (byteof (k_low sg) n, maskof n) cleared \/ n mod 7 = 0).

Lemma sorted_tail (now later : list N) : StronglySorted N.lt (now ++ later) -> StronglySorted N.lt later.
Proof. induction now as [|a now IHn]; intros H; [exact H|]. cbn in H. inversion H; subst. apply IHn. assumption. Qed.

Theorem sieve_loop3_spec fuel : forall segs low pending s w result,
  segs_ok3 low segs -> (nobig \/ szs_ok segs) -> st_ok log2 low s w -> (nobig -> e_big s = []) ->
  Forall (fun p => pmin <= p) (primes_of w) ->
  StronglySorted N.lt pending -> Forall sp_ok3 pending ->
  (forall p, sp_ok3 p -> In p (primes_of w) \/ In p pending \/ dead stop low p \/ dead210 stop low p) ->
  sieve_loop3 fuel stop maxSmall maxMedium log2 segs pending s = Some result ->
  Forall seg_result3 result.
Proof.
  induction segs as [|sg rest IH]; intros low pending s w result Hsegs Hszs Hst Hnb Hwmin Hsorted Hpend Hcover H; cbn [sieve_loop3] in H.
  - injection H as <-. constructor.
  - destruct Hsegs as (Hlow & Hl30 & Hl6 & Hhigh & Hgeo & Hrest). subst low.
    destruct (span_sq (k_high sg) pending) as [now later] eqn:Esp.
    destruct (span_sq_spec _ _ _ _ Esp) as (Epend & Hnow & Hlater).
    assert (Hnow_ok : Forall sp_ok3 now) by (rewrite Epend in Hpend; apply Forall_app in Hpend; tauto).
    assert (Hlater_ok : Forall sp_ok3 later) by (rewrite Epend in Hpend; apply Forall_app in Hpend; tauto).
    destruct (add_primes3 stop (k_low sg) maxSmall maxMedium log2 s now) as [s1|] eqn:Ea; [|discriminate].
    destruct (cross3 fuel (k_size sg) log2 s1) as [[cleared s2]|] eqn:Ec; [|discriminate].
    destruct (sieve_loop3 fuel stop maxSmall maxMedium log2 rest later s2) as [r|] eqn:Er; [|discriminate]. injection H as <-.
    assert (Hbigsq : forall p, In p now -> maxMedium < p -> p * p <= k_low sg + 30 * EratBigP.size log2 + 6).
    { intros p Hin Hgt. rewrite Forall_forall in Hnow, Hnow_ok. specialize (Hnow p Hin). specialize (Hnow_ok p Hin).
      destruct Hszs as [Hn|(Hsz & _)]; [specialize (Hn p Hnow_ok); lia|]. nia. }
    destruct (add_primes3_ok (k_low sg) Hl30 Hl6 now s w s1 Hst Hnow_ok Hbigsq Ea) as (w1 & Hst1 & Hin1 & Hout1 & Hcov1 & Hb1).
    assert (Hnb1 : nobig -> e_big s1 = []).
    { intros Hn. apply Hb1; [exact (Hnb Hn)|]. intros p Hin. apply Hn. rewrite Forall_forall in Hnow_ok. exact (Hnow_ok p Hin). }
    assert (Hsz1 : k_size sg <= EratBigP.size log2 \/ e_big s1 = []).
    { destruct Hszs as [Hn|(Hsz & _)]; [right; exact (Hnb1 Hn)|left; exact Hsz]. }
    destruct (cross3_spec fuel log2 (k_low sg) (k_size sg) Hl30 s1 w1 cleared s2 Hst1 Hsz1 Ec) as (Hmem & Hnext).
    assert (Hw1min : Forall (fun p => pmin <= p) (primes_of w1)).
    { apply Forall_forall. intros p Hp. destruct (Hout1 p Hp) as [A|A].
      - rewrite Forall_forall in Hwmin. exact (Hwmin p A).
      - rewrite Forall_forall in Hnow_ok. destruct (Hnow_ok p A) as (_ & B & _). exact B. }
    assert (Hlater_sq : forall p, In p later -> k_high sg < p * p).
    { intros p Hp. destruct later as [|p0 l0]; [destruct Hp|].
      assert (Hs : StronglySorted N.lt (p0 :: l0)) by (rewrite Epend in Hsorted; exact (sorted_tail _ _ Hsorted)).
      destruct Hp as [<-|Hp]; [exact Hlater|]. inversion Hs as [|? ? _ Hall]; subst. rewrite Forall_forall in Hall. specialize (Hall p Hp). nia. }
    constructor.
    + cbn [seg_result3]. split; [exact Hl30|]. intros n Hc Hn Hb Hnh.
      destruct Hst1 as (_ & Hs1 & _ & _ & Hm1 & _ & _ & Hbb1).
      rewrite (Hmem n Hc Hn Hb).
      apply (segment_crossed_mix2 (k_low sg) (k_high sg) stop pmin (sps_of (w_s w1 ++ w_m w1)) (sps_of (w_b w1))).
      * apply sps_ok30. apply Forall_app. split; assumption.
      * apply sps_ok210. exact Hbb1.
      * intros p q0 Hin. rewrite Forall_forall in Hw1min. apply Hw1min. rewrite in_primes_of.
        destruct Hin as [Hin|Hin]; apply in_map_iff in Hin; destruct Hin as (x & E & Hx); injection E as <- _.
        -- apply in_app_or in Hx. destruct Hx as [Hx|Hx]; [left|right; left]; apply in_map; exact Hx.
        -- right. right. apply in_map. exact Hx.
      * intros p Hp Hpm Hsq. assert (Hsp : sp_ok3 p) by (split; [exact Hp|split; [exact Hpm|lia]]).
        assert (Hin_w1 : In p (primes_of w1) -> (exists q0, In (p, q0) (sps_of (w_s w1 ++ w_m w1))) \/ (exists q0, In (p, q0) (sps_of (w_b w1)))).
        { rewrite in_primes_of. intros [A|[A|A]]; apply in_map_iff in A; destruct A as (x & E & Hx).
          - left. exists (w_q x). apply in_map_iff. exists x. split; [rewrite E; reflexivity|apply in_or_app; left; exact Hx].
          - left. exists (w_q x). apply in_map_iff. exists x. split; [rewrite E; reflexivity|apply in_or_app; right; exact Hx].
          - right. exists (w_q x). apply in_map_iff. exists x. split; [rewrite E; reflexivity|exact Hx]. }
        destruct (Hcover p Hsp) as [A|[A|[A|A]]].
        -- destruct (Hin_w1 (Hin1 p A)) as [B|B]; [left; exact B|right; left; exact B].
        -- rewrite Epend in A. apply in_app_iff in A. destruct A as [A|A].
           ++ destruct (Hcov1 p A) as [B|[B|B]]; [destruct (Hin_w1 B) as [C|C]; [left; exact C|right; left; exact C]|right; right; left; exact B|right; right; right; exact B].
           ++ specialize (Hlater_sq p A). lia.
        -- right. right. left. exact A.
        -- right. right. right. exact A.
      * exact Hn.
      * exact Hnh.
      * lia.
    + destruct rest as [|sg2 rest2]; [cbn [sieve_loop3] in Er; injection Er as <-; constructor|].
      assert (Hsz2 : k_size sg = EratBigP.size log2 \/ e_big s1 = []).
      { destruct Hszs as [Hn|(_ & Hsz & _)]; [right; exact (Hnb1 Hn)|left; apply Hsz; discriminate]. }
      destruct (Hnext Hsz2) as (w' & Hst' & Ps & Pm & Pb & Hbig').
      assert (Eprimes : primes_of w' = primes_of w1) by (unfold primes_of; rewrite !map_app, Ps, Pm, Pb; reflexivity).
      apply (IH (k_low sg + 30 * k_size sg) later s2 w' r Hrest).
      * destruct Hszs as [Hn|(_ & _ & Hsz)]; [left; exact Hn|right; exact Hsz].
      * exact Hst'.
      * intros Hn. apply Hbig'. exact (Hnb1 Hn).
      * rewrite Eprimes. exact Hw1min.
      * rewrite Epend in Hsorted. exact (sorted_tail _ _ Hsorted).
      * exact Hlater_ok.
      * intros p Hsp. rewrite Eprimes.
        destruct (Hcover p Hsp) as [A|[A|[A|A]]].
        -- left. exact (Hin1 p A).
        -- rewrite Epend in A. apply in_app_iff in A. destruct A as [A|A].
           ++ destruct (Hcov1 p A) as [B|[B|B]]; [left; exact B|right; right; left; apply (dead_mono' stop (k_low sg)); [lia|exact B]|right; right; right; apply (dead210_mono stop (k_low sg)); [lia|exact B]].
           ++ right. left. exact A.
        -- right. right. left. apply (dead_mono' stop (k_low sg)); [lia|exact A].
        -- right. right. right. apply (dead210_mono stop (k_low sg)); [lia|exact A].
      * exact Er.
Qed.
End Loop3.

(** ---- with the pre-sieve: bit still set iff prime *)
From PS Require Import Model.PreSieveM Model.KernelPs Proofs.KernelPsP.

Lemma st_ok_init log2 low : st_ok log2 low e3_init (mkW [] [] []).
Proof.
  unfold st_ok, e3_init. cbn [e_small e_med e_big w_s w_m w_b map].
  repeat split; try constructor. all: try apply perm_nil.
Qed.

Theorem presieved_segment3 sg cleared : seg_result3 164 (sg, cleared) ->
  forall n, coprime30 n -> k_low sg + 7 <= n -> byteof (k_low sg) n < k_size sg -> 7 <= n -> n <= k_high sg ->
  (presieve_bit (k_low sg) n = true /\ ~ In (byteof (k_low sg) n, maskof n) cleared <-> prime n).
Proof.
  intros Hr n Hc Hn Hb H7 Hnh. cbn [seg_result3] in Hr. destruct Hr as (Hl & Hr). destruct (Hr n Hc Hn Hb Hnh) as (Hsound & Hcompl).
  rewrite (presieve_bit_spec _ _ Hl Hc Hn). split.
  - intros [[Hp|[Hbig Hns]] Hnb]; [exact Hp|].
    destruct (prime_dec_N n) as [Hp|Hnp]; [exact Hp|exfalso].
    destruct (composite_factor n ltac:(lia) Hnp) as (p & q & Hp & E & Hsq & Hpq).
    assert (Hcp : coprime30 p /\ coprime30 q) by (apply coprime30_mul; rewrite <- E; exact Hc).
    pose proof (prime_ge_2 p Hp) as Hp2. pose proof (coprime30_ge7 p (proj1 Hcp) Hp2) as Hp7.
    destruct (N.le_gt_cases p 163) as [Hsmall|Hlarge].
    + apply (Hns p); [apply In_primes_between; split; [exact Hp7|split; [exact Hsmall|exact Hp]]|].
      subst n. rewrite N.mul_comm. apply N.mod_mul. lia.
    + assert (Hbf : bigfactor 164 n).
      { exists p, q. split; [exact Hp|]. split; [lia|]. split; [exact Hpq|]. split; [exact (proj2 Hcp)|exact E]. }
      destruct (Hcompl Hbf) as [A|A]; [exact (Hnb A)|].
      apply (Hns 7); [apply In_primes_between; split; [lia|split; [lia|]]|exact A].
      apply is_prime_spec. vm_compute. reflexivity.
  - intros Hp. split; [left; exact Hp|].
    intros Hin. destruct (Hsound Hin) as (p & q & Hpp & Hpm & Hpq & Hcq & E).
    assert (Hdiv : (Z.of_N p | Z.of_N n)%Z) by (exists (Z.of_N q); lia).
    destruct (prime_divisors _ Hp _ Hdiv) as [H1|[H1|[H1|H1]]]; nia.
Qed.

(** the three-algorithm kernel with the pre-sieve, from the empty state: after every segment a bit is still set iff its
    number is prime - for every split of the sieving primes by maxEratSmall_ / maxEratMedium_, every sieve size and every
    interval (the segments as hypotheses: adjacent, based at multiples of 30, high <= low + 30 * size + 6, and of the
    power-of-two size 2^log2 except the last when a prime exceeds maxEratMedium_) *)
Theorem erat3_kernel_spec fuel stop maxSmall maxMedium log2 segs low pending result :
  stop <= MAX64 -> segs_ok3 stop low segs -> (nobig stop maxMedium 164 \/ szs_ok log2 segs) ->
  StronglySorted N.lt pending -> (forall p, In p pending <-> sp_ok3 stop 164 p) ->
  sieve_loop3 fuel stop maxSmall maxMedium log2 segs pending e3_init = Some result ->
  Forall (fun r : kseg * list (N * N) => let '(sg, cleared) := r in
            forall n, coprime30 n -> k_low sg + 7 <= n -> byteof (k_low sg) n < k_size sg -> 7 <= n -> n <= k_high sg ->
            (presieve_bit (k_low sg) n = true /\ ~ In (byteof (k_low sg) n, maskof n) cleared <-> prime n)) result.
Proof.
  intros Hstop Hsegs Hsz Hsorted Hpend H.
  assert (H31 : 31 <= 164) by lia.
  pose proof (sieve_loop3_spec stop maxSmall maxMedium log2 164 Hstop H31 fuel segs low pending e3_init (mkW [] [] []) result
                Hsegs Hsz (st_ok_init log2 low) (fun _ => eq_refl) (Forall_nil _) Hsorted) as G.
  assert (Hp1 : Forall (sp_ok3 stop 164) pending) by (apply Forall_forall; intros p Hp; apply Hpend; exact Hp).
  specialize (G Hp1 (fun p Hp => or_intror (or_introl (proj2 (Hpend p) Hp))) H).
  eapply Forall_impl; [|exact G]. intros [sg cleared] Hr. exact (presieved_segment3 sg cleared Hr).
Qed.

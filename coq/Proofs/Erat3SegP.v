(** L3: Erat::crossOff() for one segment with all three algorithms - EratSmall (plain per-prime loop), EratMedium (64 lists)
    and EratBig (bucket lists, wheel 210): with every sieving prime p >= pmin, p^2 <= segmentHigh held by exactly one of the
    three in a correct, minimal state, a number of the segment has its bit cleared by one of them, or is a multiple of 7
    (cleared by the pre-sieve), iff it is p*q for a prime p >= pmin and a cofactor q >= p coprime to 30, or a multiple of 7
    ([erat3_segment]). *)
From Coq Require Import NArith ZArith List Bool Lia Permutation Znumtheory.
From PS Require Import Spec.Primes Gen.Tables Model.Count Model.CrossOff Model.EratMediumM Model.EratBigM Proofs.TablesP
     Proofs.CrossOffP Proofs.KernelP Proofs.KernelInitP Proofs.CrossOff210P Proofs.EratBigP Proofs.EratBigSegP Proofs.EratMediumP.
Import ListNotations.
Local Open Scope N_scope.
Ltac Zify.zify_post_hook ::= Z.to_euclidean_division_equations.

Definition sps_of (ws : list wstate) : list (N * N) := map (fun x => (w_prime x, w_q x)) ws.

Lemma sprime_coprime30 sp ri : ri < 8 -> coprime30 (sprime sp ri).
Proof.
  intros Hr. unfold coprime30, sprime. rewrite N.add_comm, N.mul_comm, N.mod_add by lia.
  assert (T2 : forallb (fun k => existsb (N.eqb (nthd pres8 k mod 30)) cop30) (Nseq 8) = true) by (vm_compute; reflexivity).
  rewrite forallb_forall in T2. apply existsb_eqb_In. apply T2. apply In_Nseq. exact Hr.
Qed.

(** a cleared (byte, mask) pair that is the pair of a number n of the segment is the multiple n itself *)
Lemma pair_is_multiple low P q0 q' n : low mod 30 = 0 -> coprime30 P -> coprime30 q' -> low + 7 <= P * q0 -> q0 <= q' ->
  coprime30 n -> low + 7 <= n -> byteof low n = byteof low (P * q') -> maskof n = maskof (P * q') -> n = P * q'.
Proof.
  intros Hl HP Hq Hge Hle Hn Hn7 Eb Em.
  assert (Hc : coprime30 (P * q')) by (apply coprime30_prod; assumption).
  symmetry. apply (pair_inj low _ _ Hl Hc Hn); [nia|exact Hn7|congruence|congruence].
Qed.

Section Seg3.
Variables (low size : N).
Hypothesis Hl : low mod 30 = 0.

Lemma mem_crossed30 (ws : list wstate) (cl : list (N * N)) :
  Forall (w_ok low) ws ->
  (forall b m, In (b, m) cl <-> exists x q', In x ws /\ w_q x <= q' /\ coprime30 q' /\ byteof low (w_prime x * q') < size /\
                                      b = byteof low (w_prime x * q') /\ m = maskof (w_prime x * q')) ->
  forall n, coprime30 n -> low + 7 <= n -> byteof low n < size ->
  (In (byteof low n, maskof n) cl <-> crossed (sps_of ws) n).
Proof.
  intros Hok Hmem n Hc Hn Hb. rewrite Hmem. split.
  - intros (x & q' & Hx & A & C & Hb' & D1 & D2). exists (w_prime x), (w_q x), q'.
    split; [apply in_map_iff; exists x; split; [reflexivity|exact Hx]|]. split; [exact A|]. split; [exact C|].
    rewrite Forall_forall in Hok. specialize (Hok x Hx). destruct x as [[[[sp ri] qi] q] i]. cbn [w_prime w_q w_ok] in *.
    destruct Hok as (HI & Hpr & Hp7 & Hpq & Hmin).
    pose proof (inv_ge eratSmallSteps eratSmallSteps_entries _ _ _ _ _ _ HI) as Hge.
    apply (pair_is_multiple low (sprime sp ri) q q' n Hl); try assumption.
    destruct HI as (Hr & _). apply sprime_coprime30. exact Hr.
  - intros (p & q0 & q' & Hin & A & C & E). apply in_map_iff in Hin. destruct Hin as (x & Ex & Hx). injection Ex as <- <-.
    exists x, q'. subst n. repeat split; assumption.
Qed.

Lemma inv210_ge sp ri qi q i : Inv210 low sp ri qi q i -> low + 7 <= sprime sp ri * q.
Proof. intros HI. pose proof (inv_off210 _ _ _ _ _ _ HI) as (_ & _ & Ho). destruct HI as (_ & _ & _ & Hp). lia. Qed.

Lemma mem_crossed210 log2 (ws : list wstate) (cl : list (N * N)) : size = EratBigP.size log2 ->
  Forall (w_ok210 low) ws ->
  (forall b m, In (b, m) cl <-> clears log2 low ws b m) ->
  forall n, coprime30 n -> low + 7 <= n -> byteof low n < size ->
  (In (byteof low n, maskof n) cl <-> crossed210 (sps_of ws) n).
Proof.
  intros Hsz Hok Hmem n Hc Hn Hb. rewrite Hmem. unfold clears. rewrite <- Hsz. split.
  - intros (x & q' & Hx & A & C & Hb' & D1 & D2). exists (w_prime x), (w_q x), q'.
    split; [apply in_map_iff; exists x; split; [reflexivity|exact Hx]|]. split; [exact A|]. split; [exact C|].
    rewrite Forall_forall in Hok. specialize (Hok x Hx). destruct x as [[[[sp ri] qi] q] i]. cbn [w_prime w_q w_ok210] in *.
    destruct Hok as (HI & Hpr & Hp7 & Hpq & Hmin).
    pose proof (inv210_ge _ _ _ _ _ HI) as Hge.
    apply (pair_is_multiple low (sprime sp ri) q q' n Hl); try assumption; [|apply coprime210_30; exact C].
    destruct HI as (Hr & _). apply sprime_coprime30. exact Hr.
  - intros (p & q0 & q' & Hin & A & C & E). apply in_map_iff in Hin. destruct Hin as (x & Ex & Hx). injection Ex as <- <-.
    exists x, q'. subst n. repeat split; assumption.
Qed.

Lemma sps_ok30 ws : Forall (w_ok low) ws -> forall p q0, In (p, q0) (sps_of ws) ->
  prime p /\ 7 <= p /\ coprime30 q0 /\ p <= q0 /\ (forall q, p <= q -> coprime30 q -> low + 7 <= p * q -> q0 <= q).
Proof.
  intros Hok p q0 Hin. apply in_map_iff in Hin. destruct Hin as (x & E & Hx). rewrite Forall_forall in Hok. specialize (Hok x Hx).
  destruct x as [[[[sp ri] qi] q] i]. cbn [w_prime w_q] in E. injection E as <- <-. cbn [w_ok] in Hok.
  destruct Hok as (HI & Hpr & Hp7 & Hpq & Hmin).
  split; [exact Hpr|split; [exact Hp7|split; [exact (inv_coprime _ _ _ _ _ _ HI)|split; [exact Hpq|exact Hmin]]]].
Qed.

Lemma sps_ok210 ws : Forall (w_ok210 low) ws -> forall p q0, In (p, q0) (sps_of ws) ->
  prime p /\ 7 <= p /\ coprime210 q0 /\ p <= q0 /\ (forall q, p <= q -> coprime210 q -> low + 7 <= p * q -> q0 <= q).
Proof.
  intros Hok p q0 Hin. apply in_map_iff in Hin. destruct Hin as (x & E & Hx). rewrite Forall_forall in Hok. specialize (Hok x Hx).
  destruct x as [[[[sp ri] qi] q] i]. cbn [w_prime w_q] in E. injection E as <- <-. cbn [w_ok210] in Hok.
  destruct Hok as (HI & Hpr & Hp7 & Hpq & Hmin).
  split; [exact Hpr|split; [exact Hp7|split; [exact (inv_coprime210 _ _ _ _ _ _ HI)|split; [exact Hpq|exact Hmin]]]].
Qed.

(** Erat::crossOff(): eratSmall_.crossOff(sieve); eratMedium_.crossOff(sieve); eratBig_.crossOff(sieve) *)
Theorem erat3_segment fuel log2 high stop pmin
    (ws_s ws_m ws_b : list wstate) (bm : em_buckets) (bb : buckets) cl_s sts_s cl_m bm' cl_b bb' :
  size = EratBigP.size log2 \/ ws_b = [] ->
  Forall (w_ok low) ws_s -> Forall (w_ok low) ws_m -> Forall (w_ok210 low) ws_b ->
  length bm = 64%nat -> Permutation (em_abs bm) (map w_state ws_m) ->
  wf log2 bb -> Permutation (abs_of log2 bb) (map w_state210 ws_b) ->
  (forall x, In x (ws_s ++ ws_m ++ ws_b) -> pmin <= w_prime x) ->
  (forall p, prime p -> pmin <= p -> p * p <= high ->
     In p (map w_prime (ws_s ++ ws_m ++ ws_b)) \/ (forall q, p <= q -> coprime30 q -> low + 7 <= p * q -> stop < p * q)) ->
  cross_all fuel eratSmallSteps size (map w_state ws_s) = Some (cl_s, sts_s) ->
  em_cross fuel size bm = Some (cl_m, bm') ->
  (ws_b = [] -> cl_b = []) -> (size = EratBigP.size log2 -> eb_cross fuel log2 bb [] = Some (cl_b, bb')) ->
  forall n, coprime30 n -> low + 7 <= n -> byteof low n < size -> n <= high -> n <= stop ->
  (In (byteof low n, maskof n) (cl_s ++ cl_m ++ cl_b) \/ n mod 7 = 0 <-> bigfactor pmin n \/ n mod 7 = 0).
Proof.
  intros Hbig Hs Hm Hb Hlen Pm Hwf Pb Hmin Hcomplete Hcs Hcm Hnob Hcb n Hc Hn Hbn Hnh Hns.
  destruct (cross_all_spec eratSmallSteps eratSmallSteps_entries fuel low size Hl ws_s cl_s sts_s Hs Hcs) as (Mem_s & _).
  destruct (em_segment_spec fuel low size bm ws_m cl_m bm' Hl Hlen Hm Pm Hcm) as (Mem_m & _).
  pose proof (mem_crossed30 ws_s cl_s Hs Mem_s n Hc Hn Hbn) as Is.
  pose proof (mem_crossed30 ws_m cl_m Hm Mem_m n Hc Hn Hbn) as Im.
  assert (Ib : In (byteof low n, maskof n) cl_b <-> crossed210 (sps_of ws_b) n).
  { destruct Hbig as [Hsz|Hnil].
    - destruct (eratbig_segment_spec log2 low Hl fuel bb ws_b cl_b bb' Hwf Hb Pb (Hcb Hsz)) as (Mem_b & _).
      exact (mem_crossed210 log2 ws_b cl_b Hsz Hb Mem_b n Hc Hn Hbn).
    - rewrite (Hnob Hnil), Hnil. split; [intros []|intros (p & q0 & q & [] & _)]. }
  pose proof (segment_crossed_mix low high stop pmin (sps_of (ws_s ++ ws_m)) (sps_of ws_b)) as Mix.
  assert (E30 : crossed (sps_of (ws_s ++ ws_m)) n <-> crossed (sps_of ws_s) n \/ crossed (sps_of ws_m) n).
  { unfold crossed, sps_of. rewrite map_app. split.
    - intros (p & q0 & q & Hin & R). apply in_app_or in Hin. destruct Hin as [Hin|Hin]; [left|right]; exists p, q0, q; split; assumption.
    - intros [(p & q0 & q & Hin & R)|(p & q0 & q & Hin & R)]; exists p, q0, q; (split; [apply in_or_app; auto|exact R]). }
  rewrite <- Mix; [| | | | |exact Hn|exact Hnh|exact Hns].
  - rewrite !in_app_iff, Is, Im, Ib, E30. tauto.
  - apply sps_ok30. apply Forall_app. split; assumption.
  - apply sps_ok210. exact Hb.
  - intros p q0 [Hin|Hin]; apply in_map_iff in Hin; destruct Hin as (x & E & Hx); injection E as <- _; apply Hmin.
    + rewrite app_assoc. apply in_or_app. left. exact Hx.
    + apply in_or_app. right. apply in_or_app. right. exact Hx.
  - intros p Hp Hpm Hsq. destruct (Hcomplete p Hp Hpm Hsq) as [Hin|Hdead]; [|right; right; exact Hdead].
    apply in_map_iff in Hin. destruct Hin as (x & E & Hx). rewrite app_assoc in Hx. apply in_app_or in Hx. destruct Hx as [Hx|Hx].
    + left. exists (w_q x). apply in_map_iff. exists x. split; [rewrite E; reflexivity|exact Hx].
    + right. left. exists (w_q x). apply in_map_iff. exists x. split; [rewrite E; reflexivity|exact Hx].
Qed.
End Seg3.

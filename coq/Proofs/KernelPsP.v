(** L3: the kernel theorem with the pre-sieve.  Starting from the pre-sieved array and crossing off only with the
    sieving primes above 163, the bit of a number of a segment is set at the end iff the number is prime. *)
From Coq Require Import NArith ZArith List Bool Lia Sorted Znumtheory.
From PS Require Import Spec.Primes Gen.Tables Gen.PreSieveTables Model.Pmath Model.Config Model.EratGeom Model.Count Model.Wheel Model.CrossOff
  Model.PreSieveM Model.KernelPs
  Proofs.TablesP Proofs.PmathP Proofs.ConfigP Proofs.EratGeomP Proofs.CrossOffP Proofs.KernelP Proofs.KernelInitP Proofs.KernelLoopP Proofs.KernelTopP
  Proofs.PreSieveTabP Proofs.PreSieveP.
Import ListNotations.
Local Open Scope N_scope.
Ltac Zify.zify_post_hook ::= Z.to_euclidean_division_equations.

Definition nosmall (n : N) : Prop := forall p, In p (primes_between 7 163) -> n mod p <> 0.

Lemma offb_nthb_sweep : forallb (fun r => (rankb (offb r) <? 8) && (nthb (rankb (offb r)) =? offb r)) cop30 = true.
Proof. vm_compute. reflexivity. Qed.

Lemma offb_nthb n : coprime30 n -> rankb (offb n) < 8 /\ nthb (rankb (offb n)) = offb n.
Proof.
  intros Hc. pose proof offb_nthb_sweep as T. rewrite forallb_forall in T. specialize (T _ Hc).
  rewrite (offb_mod (n mod 30) n) in T by (apply N.mod_mod; lia).
  apply andb_true_iff in T. destruct T as [T1 T2]. split; [apply N.ltb_lt; exact T1|apply N.eqb_eq; exact T2].
Qed.

(** a number without prime factor in 7..163 that is at most 163 (and coprime to 30) is prime; a prime above 163 has none *)
Lemma nosmall_small_prime n : coprime30 n -> 7 <= n -> n <= 163 * 163 -> nosmall n -> prime n.
Proof.
  intros Hc H7 Hle Hns. destruct (prime_dec_N n) as [Hp|Hnp]; [exact Hp|exfalso].
  destruct (composite_factor n ltac:(lia) Hnp) as (p & q & Hp & E & Hsq & Hpq).
  assert (Hcp : coprime30 p /\ coprime30 q) by (apply coprime30_mul; rewrite <- E; exact Hc).
  pose proof (prime_ge_2 p Hp) as Hp2. pose proof (coprime30_ge7 p (proj1 Hcp) Hp2) as Hp7.
  assert (Hp163 : p <= 163) by nia.
  apply (Hns p); [apply In_primes_between; split; [exact Hp7|split; [exact Hp163|exact Hp]]|].
  subst n. rewrite N.mul_comm. apply N.mod_mul. lia.
Qed.

Lemma prime_nosmall n : prime n -> 163 < n -> nosmall n.
Proof.
  intros Hp Hn p Hin E. apply In_primes_between in Hin. destruct Hin as (H7 & H163 & Hpp).
  assert (Hdiv : (Z.of_N p | Z.of_N n)%Z).
  { exists (Z.of_N (n / p)). pose proof (N.div_mod n p ltac:(lia)). lia. }
  destruct (prime_divisors _ Hp _ Hdiv) as [H1|[H1|[H1|H1]]]; lia.
Qed.

Lemma primeBits_bit k b : k < 8 -> b < 8 -> N.testbit (nth (N.to_nat k) primeBits 255) b = is_prime (30 * k + nthb b).
Proof.
  intros Hk Hb. pose proof primeBits_ok as T. rewrite forallb_forall in T. specialize (T k (In_Nseq 8 _ Hk)).
  rewrite forallb_forall in T. specialize (T b (In_Nseq 8 _ Hb)). apply eqb_prop in T. exact T.
Qed.

Theorem presieve_bit_spec low n : low mod 30 = 0 -> coprime30 n -> low + 7 <= n ->
  (presieve_bit low n = true <-> prime n \/ (163 < n /\ nosmall n)).
Proof.
  intros Hl Hc Hn. destruct (offb_nthb n Hc) as [Hb Hnb]. pose proof (position n low Hl Hc Hn) as P.
  set (j := byteof low n) in *. set (b := rankb (offb n)) in *.
  assert (En : n = 30 * (low / 30 + j) + nthb b) by (rewrite Hnb; lia).
  unfold presieve_bit. fold j b. unfold presieve_byte.
  assert (Hpb : length primeBits = 8%nat) by reflexivity. rewrite Hpb. change (N.of_nat 8) with 8.
  assert (Hmp : presieve_maxprime = 163) by reflexivity. rewrite Hmp.
  destruct ((low <=? 163) && (low / 30 + j <? 8)) eqn:Ecase.
  - (* the restored bytes: the numbers 7..241 *)
    apply andb_true_iff in Ecase. destruct Ecase as [E1 E2]. apply N.leb_le in E1. apply N.ltb_lt in E2.
    rewrite (primeBits_bit _ _ E2 Hb), <- En, is_prime_spec.
    assert (Ho : 7 <= offb n <= 31) by (apply offb_range; exact Hc).
    split; [intros H; left; exact H|]. intros [H|[H1 H2]]; [exact H|].
    apply (nosmall_small_prime n Hc); [lia|lia|exact H2].
  - (* the AND of the tables *)
    rewrite (presieve_and_spec _ _ Hb), <- En. fold (nosmall n).
    assert (Hbig : 163 < n).
    { apply andb_false_iff in Ecase. destruct Ecase as [E|E]; [apply N.leb_gt in E; lia|apply N.ltb_ge in E].
      assert (Ho : 7 <= offb n <= 31) by (apply offb_range; exact Hc). lia. }
    split; [intros H; right; split; [exact Hbig|exact H]|].
    intros [H|[_ H]]; [apply prime_nosmall; assumption|exact H].
Qed.

(** per segment: with the sieving primes above 163, pre-sieved bit and not crossed off iff prime *)
Theorem presieved_segment_spec sg cleared : k_low sg mod 30 = 0 -> seg_result_ok_g 164 (sg, cleared) ->
  forall n, coprime30 n -> k_low sg + 7 <= n -> byteof (k_low sg) n < k_size sg -> 7 <= n -> n <= k_high sg ->
  (presieve_bit (k_low sg) n = true /\ ~ In (byteof (k_low sg) n, maskof n) cleared <-> prime n).
Proof.
  intros Hl Hr n Hc Hn Hb H7 Hnh. cbn [seg_result_ok_g] in Hr. specialize (Hr n Hc Hn Hb Hnh).
  rewrite (presieve_bit_spec _ _ Hl Hc Hn), Hr. split.
  - intros [[Hp|[Hbig Hns]] Hnb]; [exact Hp|].
    destruct (prime_dec_N n) as [Hp|Hnp]; [exact Hp|exfalso].
    destruct (composite_factor n ltac:(lia) Hnp) as (p & q & Hp & E & Hsq & Hpq).
    assert (Hcp : coprime30 p /\ coprime30 q) by (apply coprime30_mul; rewrite <- E; exact Hc).
    pose proof (prime_ge_2 p Hp) as Hp2. pose proof (coprime30_ge7 p (proj1 Hcp) Hp2) as Hp7.
    destruct (N.le_gt_cases p 163) as [Hsmall|Hlarge].
    + apply (Hns p); [apply In_primes_between; split; [exact Hp7|split; [exact Hsmall|exact Hp]]|].
      subst n. rewrite N.mul_comm. apply N.mod_mul. lia.
    + apply Hnb. exists p, q. split; [exact Hp|]. split; [lia|]. split; [exact Hpq|]. split; [exact (proj2 Hcp)|exact E].
  - intros Hp. split; [left; exact Hp|].
    intros (p & q & Hpp & Hpm & Hpq & Hcq & E).
    assert (Hdiv : (Z.of_N p | Z.of_N n)%Z) by (exists (Z.of_N q); lia).
    destruct (prime_divisors _ Hp _ Hdiv) as [H1|[H1|[H1|H1]]]; nia.
Qed.

(** the whole loop, for every configuration and interval *)
Theorem erat_kernel_presieved l1 maxKB start stop fuelg fuel l result :
  16 <= maxKB -> maxKB <= 8192 -> 7 <= start -> start <= stop -> stop <= MAX64 ->
  segments fuelg l1 maxKB start stop = Some l ->
  sieve_loop fuel eratSmallSteps stop (map to_kseg l) (primes_between 164 (N.sqrt stop)) [] = Some result ->
  Forall (fun r => k_low (fst r) mod 30 = 0 /\ seg_result_ok_g 164 r) result.
Proof.
  intros K1 K2 S1 S2 S3 Hsegs Hloop.
  destruct (segments_ok l1 maxKB start stop fuelg l K1 K2 S1 S2 S3 Hsegs) as (Hne & Hall & Hadj & _).
  assert (Hhigh : Forall (fun sg => s_high sg <= stop) l).
  { unfold segments in Hsegs.
    assert (Hh0 : a_segHigh (initAlgorithms l1 maxKB start stop) <= stop).
    { pose proof (initAlgorithms_admissible l1 maxKB start stop K1 K2 S1 S2 S3) as A. cbn zeta in A.
      destruct A as (_ & _ & _ & _ & _ & _ & _ & _ & _ & _ & A11). rewrite A11. apply N.le_min_r. }
    exact (segments_loop_high stop _ _ _ _ _ Hh0 Hsegs). }
  destruct l as [|sg0 r0]; [congruence|].
  pose proof (segs_ok_of_segments stop S3 (sg0 :: r0) Hall Hadj Hhigh (s_low sg0) eq_refl) as Hsok.
  assert (G : Forall (seg_result_ok_g 164) result).
  { apply (sieve_loop_spec_g eratSmallSteps eratSmallSteps_entries stop S3 164 ltac:(lia) fuel (map to_kseg (sg0 :: r0)) (s_low sg0)
             (primes_between 164 (N.sqrt stop)) [] result Hsok (Forall_nil _) (Forall_nil _)).
    - apply primes_between_sorted.
    - apply Forall_forall. intros p Hp. apply In_primes_between in Hp. destruct Hp as (H7 & Hs & Hpr).
      split; [exact Hpr|]. split; [exact H7|]. apply sqrt_sq_le. exact Hs.
    - intros p (Hpr & H7 & Hsq). right. left. apply In_primes_between. split; [exact H7|]. split; [apply sqrt_sq_le; exact Hsq|exact Hpr].
    - exact Hloop. }
  (* the bases of the segments in the result are multiples of 30 *)
  assert (Hbases : forall fuel' segs pending sts res, sieve_loop fuel' eratSmallSteps stop segs pending sts = Some res ->
            map fst res = segs).
  { clear. intros fuel'. induction segs as [|sg rest IH]; intros pending sts res H; cbn [sieve_loop] in H.
    - injection H as <-. reflexivity.
    - destruct (span_sq (k_high sg) pending) as [now later].
      destruct (cross_all fuel' eratSmallSteps (k_size sg) (sts ++ add_primes stop (k_low sg) now)) as [[cl st2]|]; [|discriminate].
      destruct (sieve_loop fuel' eratSmallSteps stop rest later st2) as [r|] eqn:E; [|discriminate]. injection H as <-.
      cbn [map fst]. rewrite (IH _ _ _ E). reflexivity. }
  pose proof (Hbases _ _ _ _ _ Hloop) as Hb.
  apply Forall_forall. intros r Hr. split; [|rewrite Forall_forall in G; exact (G r Hr)].
  assert (Hin : In (fst r) (map to_kseg (sg0 :: r0))) by (rewrite <- Hb; apply in_map; exact Hr).
  apply in_map_iff in Hin. destruct Hin as (sg & E & Hsg). rewrite <- E. cbn [to_kseg k_low].
  rewrite Forall_forall in Hall. destruct (Hall sg Hsg) as (H30 & _). exact H30.
Qed.

(** non-vacuity: the pre-sieved model kernel evaluated inside the assistant on [27000, 29000]: 27889 = 167^2 is removed
    by the only sieving prime (167), every other composite by the pre-sieve *)
Example kernel_run_ps_small :
  option_map (filter (fun n => 27000 <=? n)) (kernel_run_ps 10 400 32768 16 27000 29000 (primes_between 164 (N.sqrt 29000)))
  = Some (primes_between 27000 29000).
Proof. vm_compute. reflexivity. Qed.

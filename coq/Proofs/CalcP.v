(** C16: whenever the (overflow-checked) evaluator accepts an expression, the
    value it returns is the exact mathematical value of the expression in
    unbounded integer arithmetic - for every input string.  Proved by
    parametricity of the parser in the value algebra. *)
From Coq Require Import ZArith NArith List Bool Lia.
From PS Require Import Model.Calc.
Import ListNotations.
Local Open Scope Z_scope.

Section Param.
  Variables A B : alg.
  Hypothesis H_lit : forall v b d r, a_lit A v b d = Some r -> a_lit B v b d = Some r.
  Hypothesis H_neg : forall v r, a_neg A v = Some r -> a_neg B v = Some r.
  Hypothesis H_not : forall v r, a_not A v = Some r -> a_not B v = Some r.
  Hypothesis H_bin : forall k x y r, a_bin A k x y = Some r -> a_bin B k x y = Some r.

  Lemma parse_digits_ref base : forall s v r rest,
    parse_digits A base v s = POk r rest -> parse_digits B base v s = POk r rest.
  Proof.
    induction s as [|c s IH]; intros v r rest H; cbn [parse_digits] in *; [exact H|].
    destruct (N.ltb (to_integer c) base); [|exact H].
    destruct (a_lit A v (Z.of_N base) (Z.of_N (to_integer c))) as [v'|] eqn:E; [|discriminate].
    rewrite (H_lit _ _ _ _ E). apply IH. exact H.
  Qed.

  Lemma reduce_ref op : forall stack value x,
    reduce A op stack value = Some x -> reduce B op stack value = Some x.
  Proof.
    induction stack as [|[top tv] rest IH]; intros value x H; cbn [reduce] in *; [exact H|].
    destruct ((o_prec op <? o_prec top)%N || ((o_prec op =? o_prec top)%N && o_left op)); [|exact H].
    destruct (o_kind top) eqn:Ek; try exact H;
      try (destruct (a_bin A _ tv value) as [v'|] eqn:E; [|discriminate]; rewrite (H_bin _ _ _ _ E); apply IH; exact H).
    - destruct (value =? 0); [discriminate|].
      destruct (a_bin A ODiv tv value) as [v'|] eqn:E; [|discriminate]. rewrite (H_bin _ _ _ _ E). apply IH. exact H.
    - destruct (value =? 0); [discriminate|].
      destruct (a_bin A OMod tv value) as [v'|] eqn:E; [|discriminate]. rewrite (H_bin _ _ _ _ E). apply IH. exact H.
  Qed.

  Lemma parse_ref : forall fuel,
    (forall s v rest, parse_value A fuel s = POk v rest -> parse_value B fuel s = POk v rest) /\
    (forall stack cur s v rest, parse_loop A fuel stack cur s = POk v rest -> parse_loop B fuel stack cur s = POk v rest).
  Proof.
    unfold parse_value, parse_loop.
    induction fuel as [|f [IHv IHl]]; [split; intros; discriminate|]. cbn [parse_both fst snd]. split.
    - intros s v rest H. unfold value_step in *.
      destruct (eat_spaces s) as [|c r]; [discriminate|].
      destruct (c =? 48)%N.
      { destruct (is_hex (c :: r)); apply parse_digits_ref; exact H. }
      destruct ((49 <=? c)%N && (c <=? 57)%N); [apply parse_digits_ref; exact H|].
      destruct (c =? 40)%N.
      { destruct (snd (parse_both A f) [(null_op, 0)] None r) as [v' r'|e] eqn:E; [|discriminate].
        rewrite (IHl _ _ _ _ _ E). exact H. }
      destruct (c =? 126)%N.
      { destruct (fst (parse_both A f) r) as [v' r'|e] eqn:E; [|discriminate]. rewrite (IHv _ _ _ E).
        destruct (a_not A v') as [v''|] eqn:E2; [|discriminate]. rewrite (H_not _ _ E2). exact H. }
      destruct (c =? 43)%N; [apply IHv; exact H|].
      destruct (c =? 45)%N; [|discriminate].
      destruct (fst (parse_both A f) r) as [v' r'|e] eqn:E; [|discriminate]. rewrite (IHv _ _ _ E).
      destruct (a_neg A v') as [v''|] eqn:E2; [|discriminate]. rewrite (H_neg _ _ E2). exact H.
    - intros stack cur s v rest H. unfold loop_step in *. destruct cur as [value|].
      + destruct (parse_op s) as [op r|e]; [|discriminate].
        destruct (reduce A op stack value) as [[[[v'|] st'] val']|] eqn:E; [| |discriminate];
          rewrite (reduce_ref _ _ _ _ E); [exact H|apply IHl; exact H].
      + destruct (fst (parse_both A f) s) as [v' r|e] eqn:E; [|discriminate]. rewrite (IHv _ _ _ E). apply IHl. exact H.
  Qed.

  Theorem eval_ref s v rest : eval A s = POk v rest -> eval B s = POk v rest.
  Proof.
    unfold eval. intros H.
    destruct (parse_loop A (3 * length s + 3) [(null_op, 0)] None s) as [v' r'|e] eqn:E; [|discriminate].
    rewrite (proj2 (parse_ref _) _ _ _ _ _ E). exact H.
  Qed.
End Param.

(* ---------- the checked algebra refines the exact one ---------- *)

Opaque pow_fuel.

Lemma chk_some ty z r : chk ty z = Some r -> r = z.
Proof. unfold chk. destruct (in_range ty z); congruence. Qed.

Ltac Zify.zify_post_hook ::= Z.to_euclidean_division_equations.

Lemma pow_split x n : 0 <= n ->
  x ^ n = (x * x) ^ (n / 2) * (if Z.odd n then x else 1).
Proof.
  intros Hn. pose proof (Zmod_odd n) as Hm. pose proof (Z.div_mod n 2 ltac:(lia)) as Hd.
  rewrite Hd at 1. rewrite Z.pow_add_r by (try lia; destruct (Z.odd n); lia).
  rewrite Z.pow_mul_r by lia. rewrite Z.pow_2_r. f_equal.
  rewrite Hm. destruct (Z.odd n); [apply Z.pow_1_r|apply Z.pow_0_r].
Qed.

Lemma pow_loop_exact ty : forall fuel res x n r,
  pow_loop (cmul ty) fuel res x n = Some r -> r = res * (if n <=? 0 then 1 else x ^ n).
Proof.
  induction fuel as [|f IH]; intros res x n r H; cbn [pow_loop] in H; [discriminate|].
  destruct (Z.leb_spec n 0) as [Hn|Hn]; [injection H as <-; lia|].
  rewrite (pow_split x n) by lia.
  assert (Hn' : (if Z.odd n then n - 1 else n) / 2 = n / 2).
  { pose proof (Zmod_odd n) as Hm. destruct (Z.odd n); lia. }
  rewrite Hn' in H.
  destruct (Z.odd n) eqn:Eo.
  - destruct (cmul ty res x) as [res'|] eqn:E1; [|discriminate]. apply chk_some in E1. subst res'.
    destruct (Z.ltb_spec 0 (n / 2)) as [Hp|Hp].
    + destruct (cmul ty x x) as [x'|] eqn:E2; [|discriminate]. apply chk_some in E2. subst x'.
      apply IH in H. destruct (Z.leb_spec (n / 2) 0); [lia|]. rewrite H. ring.
    + injection H as <-. replace (n / 2) with 0 by lia. rewrite Z.pow_0_r. ring.
  - destruct (Z.ltb_spec 0 (n / 2)) as [Hp|Hp].
    + destruct (cmul ty x x) as [x'|] eqn:E2; [|discriminate]. apply chk_some in E2. subst x'.
      apply IH in H. destruct (Z.leb_spec (n / 2) 0); [lia|]. rewrite H. ring.
    + exfalso. pose proof (Zmod_odd n) as Hm. rewrite Eo in Hm. lia.
Qed.

Lemma checked_refines_exact ty :
  (forall v b d r, a_lit (checked ty) v b d = Some r -> a_lit (exact ty) v b d = Some r) /\
  (forall v r, a_neg (checked ty) v = Some r -> a_neg (exact ty) v = Some r) /\
  (forall v r, a_not (checked ty) v = Some r -> a_not (exact ty) v = Some r) /\
  (forall k x y r, a_bin (checked ty) k x y = Some r -> a_bin (exact ty) k x y = Some r).
Proof.
  repeat split.
  - intros v b d r H. cbn in *. unfold cmul in H. destruct (chk ty (v * b)) as [m|] eqn:E; [|discriminate].
    apply chk_some in E. apply chk_some in H. subst. reflexivity.
  - intros v r H. cbn in *. apply chk_some in H. subst. reflexivity.
  - intros v r H. exact H.
  - intros k x y r H. destruct k; cbn [a_bin checked exact checked_bin exact_bin] in *; try exact H.
    + destruct ((y <? 0) || (t_digits ty <=? y)); [discriminate|]. unfold cmul in H. apply chk_some in H. subst. reflexivity.
    + apply chk_some in H. subst. reflexivity.
    + apply chk_some in H. subst. reflexivity.
    + unfold cmul in H. apply chk_some in H. subst. reflexivity.
    + apply chk_some in H. subst. reflexivity.
    + apply pow_loop_exact in H. unfold zpow. rewrite H. f_equal. ring.
    + destruct (pow_loop (cmul ty) pow_fuel 1 10 y) as [p|] eqn:E; [|discriminate].
      apply pow_loop_exact in E. unfold cmul in H. apply chk_some in H. subst. unfold zpow. f_equal.
      destruct (y <=? 0); ring.
Qed.

(** C16 (1): an accepted expression evaluates to its exact integer value *)
Theorem checked_exact ty s v rest :
  eval (checked ty) s = POk v rest -> eval (exact ty) s = POk v rest.
Proof.
  destruct (checked_refines_exact ty) as (H1 & H2 & H3 & H4).
  apply eval_ref; assumption.
Qed.

(** every arithmetic result of the checked algebra lies in the range of the type *)
Lemma checked_arith_in_range ty k x y r :
  In k [OAdd; OSub; OMul; ODiv; OShl] -> a_bin (checked ty) k x y = Some r -> in_range ty r = true.
Proof.
  intros Hk H. assert (G : forall z, chk ty z = Some r -> in_range ty r = true).
  { intros z Hz. unfold chk in Hz. destruct (in_range ty z) eqn:E; [|discriminate]. injection Hz as <-. exact E. }
  cbn [In] in Hk. destruct Hk as [<-|[<-|[<-|[<-|[<-|[]]]]]]; cbn [a_bin checked checked_bin] in H; try (eapply G; exact H).
  destruct ((y <? 0) || (t_digits ty <=? y)); [discriminate|]. eapply G. exact H.
Qed.

Transparent pow_fuel.
(* non-vacuity and the behaviour the fix removed *)
Local Open Scope N_scope.
Definition str (l : list N) := l.
Example calc_accepts : eval (checked ty_u64) [49; 101; 49; 48; 43; 50; 94; 51; 50]  (* "1e10+2^32" *)
                       = POk 14294967296%Z [].
Proof. vm_compute. reflexivity. Qed.
Example calc_rejects_2_64 : eval (checked ty_u64) [50; 94; 54; 52] = PErr EOverflow      (* "2^64" *)
                         /\ eval (exact ty_u64) [50; 94; 54; 52] = POk 18446744073709551616%Z [].
Proof. vm_compute. split; reflexivity. Qed.
Example calc_rejects_1_minus_2 : eval (checked ty_u64) [49; 45; 50] = PErr EOverflow.     (* "1-2" *)
Proof. vm_compute. reflexivity. Qed.
Example calc_precedence : eval (checked ty_u64) [50; 94; 51; 94; 50] = POk 512%Z []       (* "2^3^2" right assoc *)
                       /\ eval (checked ty_u64) [50; 43; 51; 42; 52] = POk 14%Z [].         (* "2+3*4" *)
Proof. vm_compute. split; reflexivity. Qed.

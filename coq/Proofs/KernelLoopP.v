(** L3: the kernel theorem over the whole segment loop.  For adjacent segments based at multiples of 30, sieving
    primes delivered in ascending order and added when prime^2 <= segmentHigh through addSievingPrime, and
    EratSmall's cross-off, after every segment the bit of a number n <= segmentHigh of that segment is still set
    iff n is prime. *)
From Coq Require Import NArith ZArith List Bool Lia Sorted.
From PS Require Import Spec.Primes Gen.Tables Model.Count Model.Wheel Model.CrossOff
  Proofs.TablesP Proofs.PmathP Proofs.WheelP Proofs.CrossOffP Proofs.KernelP Proofs.KernelInitP.
Import ListNotations.
Local Open Scope N_scope.

Section Loop.
Variable steps : list (N * N * N).
Hypothesis Hsteps : forallb (entry_ok2 steps) (Nseq 64) = true.
Variable stop : N.
Hypothesis Hstop : stop <= MAX64.
(** lower bound of the sieving primes: 7 (all of them) or 164 (above the pre-sieve) *)
Variable pmin : N.
Hypothesis Hpmin : 7 <= pmin.

Fixpoint segs_ok (low : N) (segs : list kseg) : Prop :=
  match segs with
  | [] => True
  | sg :: r => k_low sg = low /\ low mod 30 = 0 /\ low + 6 <= MAX64 /\ k_high sg <= stop /\ segs_ok (low + 30 * k_size sg) r
  end.

Definition dead (low p : N) : Prop := forall q, p <= q -> coprime30 q -> low + 7 <= p * q -> stop < p * q.
Definition sp_ok (p : N) : Prop := prime p /\ pmin <= p /\ p * p <= stop.

Lemma dead_mono low low' p : low <= low' -> dead low p -> dead low' p.
Proof. intros H D q H1 H2 H3. apply D; [assumption|assumption|lia]. Qed.

Lemma sq_lt32 p : p * p <= stop -> p < 2 ^ 32.
Proof. intros H. change (2 ^ 32) with 4294967296. unfold MAX64 in Hstop. nia. Qed.

Lemma span_sq_spec high ps : forall now later, span_sq high ps = (now, later) ->
  ps = now ++ later /\ Forall (fun p => p * p <= high) now /\ match later with [] => True | p :: _ => high < p * p end.
Proof.
  induction ps as [|p r IH]; intros now later H; cbn [span_sq] in H.
  - injection H as <- <-. repeat split; constructor.
  - destruct (N.leb_spec (p * p) high) as [Hle|Hgt].
    + destruct (span_sq high r) as [a b]. injection H as <- <-. destruct (IH a b eq_refl) as (E & F & L).
      split; [cbn; rewrite <- E; reflexivity|]. split; [constructor; assumption|exact L].
    + injection H as <- <-. split; [reflexivity|]. split; [constructor|exact Hgt].
Qed.

(** the states addSievingPrime creates for a batch of new sieving primes *)
Lemma add_primes_ok low ps : low mod 30 = 0 -> low + 6 <= MAX64 -> Forall sp_ok ps ->
  exists wsn, Forall (w_ok low) wsn /\ map w_state wsn = add_primes stop low ps /\
              Forall (fun p => pmin <= p) (map w_prime wsn) /\
              forall p, In p ps -> In p (map w_prime wsn) \/ dead low p.
Proof.
  intros Hl Hl6. induction ps as [|p r IH]; intros Hps.
  - exists []. repeat split; [constructor|constructor|intros p []].
  - inversion Hps as [|? ? (Hp & Hpm & Hsq) Hr]; subst. assert (H7 : 7 <= p) by lia. destruct (IH Hr) as (wsn & Hok & Hst & Hmin & Hcov).
    unfold add_primes. cbn [flat_map]. fold (add_primes stop low r).
    destruct (addSievingPrime30 stop p low) as [[mi wi]|] eqn:E.
    + destruct (asp30_state_ok stop p low mi wi Hp H7 (sq_lt32 p Hsq) Hl Hstop Hl6 E) as (ri & qi & q & Hwi & Hspr & Hwok & _).
      exists ((p / 30, ri, qi, q, mi) :: wsn). split; [constructor; assumption|]. split; [|split].
      * cbn [map w_state app]. rewrite Hst, Hwi. reflexivity.
      * cbn [map w_prime]. constructor; [rewrite Hspr; exact Hpm|exact Hmin].
      * intros p' [<-|Hin]; [left; cbn [map w_prime]; left; exact Hspr|].
        destruct (Hcov p' Hin) as [H|H]; [left; right; exact H|right; exact H].
    + exists wsn. split; [exact Hok|]. split; [cbn [app]; exact Hst|]. split; [exact Hmin|].
      intros p' [<-|Hin]; [right; exact (asp30_none_dead stop p low Hp H7 (sq_lt32 p Hsq) Hl Hstop Hl6 E)|exact (Hcov p' Hin)].
Qed.

Definition seg_result_ok_g (r : kseg * list (N * N)) : Prop :=
  let '(sg, cleared) := r in
  forall n, coprime30 n -> k_low sg + 7 <= n -> byteof (k_low sg) n < k_size sg -> n <= k_high sg ->
  (In (byteof (k_low sg) n, maskof n) cleared <-> bigfactor pmin n).

Theorem sieve_loop_spec_g fuel : forall segs low pending (ws : list wstate) result,
  segs_ok low segs ->
  Forall (w_ok low) ws -> Forall (fun p => pmin <= p) (map w_prime ws) ->
  StronglySorted N.lt pending -> Forall sp_ok pending ->
  (forall p, sp_ok p -> In p (map w_prime ws) \/ In p pending \/ dead low p) ->
  sieve_loop fuel steps stop segs pending (map w_state ws) = Some result ->
  Forall seg_result_ok_g result.
Proof.
  induction segs as [|sg rest IH]; intros low pending ws result Hsegs Hws Hwmin Hsorted Hpend Hcover H; cbn [sieve_loop] in H.
  - injection H as <-. constructor.
  - destruct Hsegs as (Hlow & Hl30 & Hl6 & Hhigh & Hrest). subst low.
    destruct (span_sq (k_high sg) pending) as [now later] eqn:Esp.
    destruct (span_sq_spec _ _ _ _ Esp) as (Epend & Hnow & Hlater).
    assert (Hnow_ok : Forall sp_ok now) by (rewrite Epend in Hpend; apply Forall_app in Hpend; tauto).
    assert (Hlater_ok : Forall sp_ok later) by (rewrite Epend in Hpend; apply Forall_app in Hpend; tauto).
    destruct (add_primes_ok (k_low sg) now Hl30 Hl6 Hnow_ok) as (wsn & Hwsn & Hstn & Hminn & Hcovn).
    rewrite <- Hstn, <- map_app in H.
    destruct (cross_all fuel steps (k_size sg) (map w_state (ws ++ wsn))) as [[cleared sts2]|] eqn:Ec; [|discriminate].
    destruct (sieve_loop fuel steps stop rest later sts2) as [r|] eqn:Er; [|discriminate]. injection H as <-.
    assert (Hws1 : Forall (w_ok (k_low sg)) (ws ++ wsn)) by (apply Forall_app; split; assumption).
    (* every element of later has a square above segmentHigh *)
    assert (Hlater_sq : forall p, In p later -> k_high sg < p * p).
    { intros p Hp. destruct later as [|p0 l0]; [destruct Hp|].
      assert (Hs : StronglySorted N.lt (p0 :: l0)).
      { rewrite Epend in Hsorted. clear - Hsorted. induction now as [|a now IHn]; [exact Hsorted|]. cbn in Hsorted. inversion Hsorted; subst. apply IHn. assumption. }
      destruct Hp as [<-|Hp]; [exact Hlater|]. inversion Hs as [|? ? _ Hall]; subst. rewrite Forall_forall in Hall. specialize (Hall p Hp). nia. }
    assert (Hws1min : Forall (fun p => pmin <= p) (map w_prime (ws ++ wsn))) by (rewrite map_app; apply Forall_app; split; assumption).
    assert (Hcomplete : forall p, prime p -> pmin <= p -> p * p <= k_high sg ->
              In p (map w_prime (ws ++ wsn)) \/ (forall q, p <= q -> coprime30 q -> k_low sg + 7 <= p * q -> stop < p * q)).
    { intros p Hp H7 Hsq. assert (Hsp : sp_ok p) by (split; [exact Hp|split; [exact H7|lia]]).
      rewrite map_app, in_app_iff.
      destruct (Hcover p Hsp) as [Hin|[Hin|Hd]]; [left; left; exact Hin| |right; exact Hd].
      rewrite Epend in Hin. apply in_app_iff in Hin. destruct Hin as [Hin|Hin].
      - destruct (Hcovn p Hin) as [H1|H1]; [left; right; exact H1|right; exact H1].
      - specialize (Hlater_sq p Hin). lia. }
    constructor.
    + cbn [seg_result_ok_g]. intros n Hc Hn Hb Hnh.
      assert (Hxmin : forall x, In x (ws ++ wsn) -> pmin <= w_prime x).
      { intros x Hx. rewrite Forall_forall in Hws1min. apply Hws1min. apply in_map. exact Hx. }
      apply (kernel_segment_g steps Hsteps fuel (k_low sg) (k_size sg) (k_high sg) stop pmin (ws ++ wsn) cleared sts2 Hl30 Hws1 Hxmin Hcomplete Ec n Hc Hn Hb Hnh). lia.
    + destruct (cross_all_spec steps Hsteps fuel (k_low sg) (k_size sg) Hl30 (ws ++ wsn) cleared sts2 Hws1 Ec) as (_ & ws' & Hws' & Hprimes & Hstates).
      rewrite <- Hstates in Er.
      apply (IH (k_low sg + 30 * k_size sg) later ws' r Hrest Hws'); [rewrite Hprimes; exact Hws1min| | exact Hlater_ok | | exact Er].
      * rewrite Epend in Hsorted. clear - Hsorted. induction now as [|a now IHn]; [exact Hsorted|]. cbn in Hsorted. inversion Hsorted; subst. apply IHn. assumption.
      * intros p Hsp. rewrite Hprimes, map_app, in_app_iff.
        destruct (Hcover p Hsp) as [Hin|[Hin|Hd]].
        -- left. left. exact Hin.
        -- rewrite Epend in Hin. apply in_app_iff in Hin. destruct Hin as [Hin|Hin].
           ++ destruct (Hcovn p Hin) as [H1|H1]; [left; right; exact H1|right; right; apply (dead_mono (k_low sg)); [lia|exact H1]].
           ++ right. left. exact Hin.
        -- right. right. apply (dead_mono (k_low sg)); [lia|exact Hd].
Qed.
End Loop.

(** all sieving primes (pmin = 7): bit set iff prime *)
Definition seg_result_ok (r : kseg * list (N * N)) : Prop :=
  let '(sg, cleared) := r in
  forall n, coprime30 n -> k_low sg + 7 <= n -> byteof (k_low sg) n < k_size sg -> 7 <= n -> n <= k_high sg ->
  (~ In (byteof (k_low sg) n, maskof n) cleared <-> prime n).

Theorem sieve_loop_spec steps (Hsteps : forallb (entry_ok2 steps) (Nseq 64) = true) stop (Hstop : stop <= MAX64) fuel :
  forall segs low pending (ws : list wstate) result,
  segs_ok stop low segs ->
  Forall (w_ok low) ws ->
  StronglySorted N.lt pending -> Forall (sp_ok stop 7) pending ->
  (forall p, sp_ok stop 7 p -> In p (map w_prime ws) \/ In p pending \/ dead stop low p) ->
  sieve_loop fuel steps stop segs pending (map w_state ws) = Some result ->
  Forall seg_result_ok result.
Proof.
  intros segs low pending ws result Hsegs Hws Hsorted Hpend Hcover H.
  assert (Hwmin : Forall (fun p => 7 <= p) (map w_prime ws)).
  { apply Forall_forall. intros p Hp. apply in_map_iff in Hp. destruct Hp as (x & <- & Hx). rewrite Forall_forall in Hws. specialize (Hws x Hx).
    destruct x as [[[[sp ri] qi] q] i]. cbn [w_ok w_prime] in *. tauto. }
  pose proof (sieve_loop_spec_g steps Hsteps stop Hstop 7 (N.le_refl 7) fuel segs low pending ws result Hsegs Hws Hwmin Hsorted Hpend Hcover H) as G.
  eapply Forall_impl; [|exact G]. intros [sg cleared] Hr. cbn [seg_result_ok seg_result_ok_g] in *.
  intros n Hc Hn Hb H7 Hnh. rewrite (Hr n Hc Hn Hb Hnh). apply bigfactor7_prime; assumption.
Qed.

(** L3: termination of the model kernel: with enough fuel the cross-off loop, the cross-off of a whole segment and
    the segment loop return a result (so the theorems about their results are not vacuous for any input). *)
From Coq Require Import NArith ZArith List Bool Lia Sorted.
From PS Require Import Spec.Primes Gen.Tables Model.Count Model.Wheel Model.CrossOff
  Proofs.TablesP Proofs.PmathP Proofs.WheelP Proofs.CrossOffP Proofs.KernelP Proofs.KernelInitP Proofs.KernelLoopP.
Import ListNotations.
Local Open Scope N_scope.

Section Total.
Variable steps : list (N * N * N).
Hypothesis Hsteps : forallb (entry_ok2 steps) (Nseq 64) = true.

Lemma gap30_ge2 : forallb (fun r => 2 <=? gap30 r) cop30 = true.
Proof. vm_compute. reflexivity. Qed.

(** every step moves the multiple forward by at least 2 * prime >= 14 *)
Lemma cross_total : forall fuel size low sp ri qi q i,
  Inv low sp ri qi q i -> 7 <= sprime sp ri -> (1 <= fuel)%nat ->
  low + 30 * size + 45 <= sprime sp ri * q + 14 * N.of_nat fuel ->
  cross fuel steps size sp i (8 * ri + qi) <> None.
Proof.
  induction fuel as [|f IH]; intros size low sp ri qi q i HI H7 H1 Hf; [lia|]. cbn [cross].
  destruct (N.leb_spec size i) as [Hge|Hlt]; [discriminate|].
  pose proof (inv_off steps Hsteps _ _ _ _ _ _ HI) as (_ & _ & Ho).
  pose proof (cross_step steps Hsteps _ _ _ _ _ _ HI) as S.
  pose proof (entry_facts steps Hsteps ri qi ltac:(destruct HI; tauto) ltac:(destruct HI as (_ & ? & _); assumption)) as F.
  destruct (step_of steps (8 * ri + qi)) as [[mask a] b]. cbv zeta in F. destruct S as (_ & Sn & SI). destruct F as (Fa & _).
  assert (Ha : 2 <= a).
  { rewrite Fa. pose proof gap30_ge2 as T. rewrite forallb_forall in T. apply N.leb_le. apply T.
    destruct HI as (_ & Hq & _). assert (T8 : forallb (fun k => existsb (N.eqb (nthd cop30 k)) cop30) (Nseq 8) = true) by (vm_compute; reflexivity).
    rewrite forallb_forall in T8. apply existsb_eqb_In. apply T8. apply In_Nseq. exact Hq. }
  destruct HI as (Hr & Hq & Hm & Hp).
  rewrite (next_w_eq ri qi Hr Hq).
  assert (Hpos : sprime sp ri * q <= low + 30 * size + 1) by lia.
  assert (Hnext : sprime sp ri * q + 14 <= sprime sp ri * nextc q).
  { rewrite Sn, N.mul_add_distr_l. assert (sprime sp ri * 2 <= sprime sp ri * a) by (apply N.mul_le_mono_l; exact Ha). lia. }
  assert (Hf1 : (1 <= f)%nat) by lia.
  specialize (IH size low sp ri ((qi + 1) mod 8) (nextc q) (i + sp * a + b) SI H7 Hf1 ltac:(lia)).
  destruct (cross f steps size sp (i + sp * a + b) (8 * ri + (qi + 1) mod 8)) as [[[cl i'] w']|]; [discriminate|congruence].
Qed.

Lemma cross_all_total fuel low size : low mod 30 = 0 -> (1 <= fuel)%nat -> 30 * size + 38 <= 14 * N.of_nat fuel ->
  forall ws : list wstate, Forall (w_ok low) ws -> cross_all fuel steps size (map w_state ws) <> None.
Proof.
  intros Hl H1 Hf. induction ws as [|x ws IH]; intros Hok; cbn [map cross_all]; [discriminate|].
  inversion Hok as [|? ? Hx Hws]; subst. specialize (IH Hws).
  destruct x as [[[[sp ri] qi] q] i]. cbn [w_state]. cbn [w_ok] in Hx. destruct Hx as (HI & _ & H7 & _ & _).
  pose proof (inv_ge steps Hsteps _ _ _ _ _ _ HI) as Hge.
  pose proof (cross_total fuel size low sp ri qi q i HI H7 H1 ltac:(lia)) as Hc.
  destruct (cross fuel steps size sp i (8 * ri + qi)) as [[[cl i'] w']|]; [|congruence].
  destruct (cross_all fuel steps size (map w_state ws)) as [[cls r']|]; [discriminate|congruence].
Qed.

Variable stop : N.
Hypothesis Hstop : stop <= MAX64.
Variable pmin : N.
Hypothesis Hpmin : 7 <= pmin.

Theorem sieve_loop_total fuel : forall segs low pending (ws : list wstate),
  (1 <= fuel)%nat -> Forall (fun sg => 30 * k_size sg + 38 <= 14 * N.of_nat fuel) segs ->
  segs_ok stop low segs -> Forall (w_ok low) ws -> Forall (sp_ok stop pmin) pending ->
  sieve_loop fuel steps stop segs pending (map w_state ws) <> None.
Proof.
  intros segs low pending ws H1. revert low pending ws.
  induction segs as [|sg rest IH]; intros low pending ws Hfuel Hsegs Hws Hpend; cbn [sieve_loop]; [discriminate|].
  inversion Hfuel as [|? ? Hf Hfr]; subst.
  destruct Hsegs as (Hlow & Hl30 & Hl6 & Hhigh & Hrest). subst low.
  destruct (span_sq (k_high sg) pending) as [now later] eqn:Esp.
  destruct (span_sq_spec _ _ _ _ Esp) as (Epend & _ & _).
  assert (Hnow_ok : Forall (sp_ok stop pmin) now) by (rewrite Epend in Hpend; apply Forall_app in Hpend; tauto).
  assert (Hlater_ok : Forall (sp_ok stop pmin) later) by (rewrite Epend in Hpend; apply Forall_app in Hpend; tauto).
  destruct (add_primes_ok stop Hstop pmin Hpmin (k_low sg) now Hl30 Hl6 Hnow_ok) as (wsn & Hwsn & Hstn & _ & _).
  rewrite <- Hstn, <- map_app.
  assert (Hws1 : Forall (w_ok (k_low sg)) (ws ++ wsn)) by (apply Forall_app; split; assumption).
  pose proof (cross_all_total fuel (k_low sg) (k_size sg) Hl30 H1 Hf (ws ++ wsn) Hws1) as Hc.
  destruct (cross_all fuel steps (k_size sg) (map w_state (ws ++ wsn))) as [[cleared sts2]|] eqn:Ec; [|congruence].
  destruct (cross_all_spec steps Hsteps fuel (k_low sg) (k_size sg) Hl30 (ws ++ wsn) cleared sts2 Hws1 Ec) as (_ & ws' & Hws' & _ & Hstates).
  rewrite <- Hstates.
  specialize (IH (k_low sg + 30 * k_size sg) later ws' Hfr Hrest Hws' Hlater_ok).
  destruct (sieve_loop fuel steps stop rest later (map w_state ws')) as [r|]; [discriminate|congruence].
Qed.
End Total.

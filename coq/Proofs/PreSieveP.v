(** L3: the pre-sieve theorem, lifted from the finite table checks of PreSieveTabP by periodicity. *)
From Coq Require Import NArith ZArith List Bool Lia.
From PS Require Import Spec.Primes Gen.Tables Gen.PreSieveTables Model.Count Model.PreSieveM Proofs.TablesP Proofs.PreSieveTabP.
Import ListNotations.
Local Open Scope N_scope.
Ltac Zify.zify_post_hook ::= Z.to_euclidean_division_equations.

(** divisibility of 30k + o by p only depends on k modulo a multiple of p *)
Lemma mod_period p L k o : p <> 0 -> L mod p = 0 -> L <> 0 -> (30 * (k mod L) + o) mod p = (30 * k + o) mod p.
Proof.
  intros Hp HL HL0.
  assert (E : k = L * (k / L) + k mod L) by (apply N.div_mod; exact HL0).
  assert (D : exists c, L = p * c) by (exists (L / p); pose proof (N.div_mod L p Hp); lia).
  destruct D as (c & ->).
  set (r := k mod (p * c)) in *. set (d := k / (p * c)) in *.
  replace (30 * k + o) with (30 * r + o + (30 * c * d) * p) by (rewrite E at 1; lia).
  rewrite N.mod_add by exact Hp. reflexivity.
Qed.

Lemma prod_mod ps p : p <> 0 -> In p ps -> (fold_right N.mul 1 ps) mod p = 0.
Proof.
  intros Hp. induction ps as [|a r IH]; intros H; [destruct H|]. cbn [fold_right]. destruct H as [->|H].
  - rewrite N.mul_comm. apply N.mod_mul. exact Hp.
  - rewrite N.mul_mod by exact Hp. rewrite (IH H). rewrite N.mul_0_r. apply N.mod_0_l. exact Hp.
Qed.

Lemma forallb_ext_in' {A} (f g : A -> bool) l : (forall x, In x l -> f x = g x) -> forallb f l = forallb g l.
Proof.
  induction l as [|a r IH]; intros H; cbn [forallb]; [reflexivity|].
  rewrite (H a (or_introl eq_refl)), IH; [reflexivity|]. intros x Hx. apply H. right. exact Hx.
Qed.

Lemma table_bit t ps k b : table_ok t ps = true -> b < 8 ->
  N.testbit (table_byte t k) b = no_divisor ps (30 * k + nthb b).
Proof.
  intros H Hb. unfold table_ok in H. apply andb_true_iff in H. destruct H as [H H3]. apply andb_true_iff in H. destruct H as [H1 H2].
  apply N.eqb_eq in H1. rewrite forallb_forall in H2.
  assert (Hlen : N.of_nat (length t) <> 0).
  { rewrite H1. clear - H2. induction ps as [|a r IH]; cbn [fold_right]; [discriminate|].
    assert (1 < a) by (apply N.ltb_lt; apply H2; left; reflexivity).
    assert (fold_right N.mul 1 r <> 0) by (apply IH; intros x Hx; apply H2; right; exact Hx). lia. }
  set (L := N.of_nat (length t)) in *.
  assert (Hk : k mod L < N.of_nat (length t)) by (apply N.mod_lt; exact Hlen).
  pose proof (table_rows_nth ps t 0 H3 (N.to_nat (k mod L)) ltac:(lia) b Hb) as H4.
  unfold table_byte. fold L. rewrite H4. replace (0 + N.of_nat (N.to_nat (k mod L))) with (k mod L) by lia.
  unfold no_divisor. apply forallb_ext_in'. intros p Hp.
  assert (Hp1 : 1 < p) by (apply N.ltb_lt; apply H2; exact Hp).
  rewrite (mod_period p L k (nthb b)); [reflexivity|lia| |exact Hlen].
  rewrite H1. apply prod_mod; [lia|exact Hp].
Qed.

Lemma testbit_fold_land l : forall acc b,
  N.testbit (fold_left N.land l acc) b = N.testbit acc b && forallb (fun x => N.testbit x b) l.
Proof.
  induction l as [|x r IH]; intros acc b; cbn [fold_left forallb]; [rewrite andb_true_r; reflexivity|].
  rewrite IH, N.land_spec, andb_assoc. reflexivity.
Qed.

(** the pre-sieve theorem *)
Theorem presieve_and_spec k b : b < 8 ->
  (N.testbit (presieve_and k) b = true <-> forall p, In p (primes_between 7 163) -> (30 * k + nthb b) mod p <> 0).
Proof.
  intros Hb. unfold presieve_and. rewrite testbit_fold_land.
  assert (H255 : N.testbit 255 b = true).
  { assert (T : forallb (N.testbit 255) (Nseq 8) = true) by (vm_compute; reflexivity). rewrite forallb_forall in T. apply T. apply In_Nseq. exact Hb. }
  rewrite H255. cbn [andb]. rewrite forallb_forall.
  pose proof tables_ok as T. rewrite forallb_forall in T.
  split.
  - intros H p Hp. apply prime_sets_ok in Hp. apply in_concat in Hp. destruct Hp as (ps & Hps & Hpin).
    (* the table that belongs to this prime set *)
    destruct (In_nth _ _ [] Hps) as (i & Hi & Ei).
    assert (Hit : (i < length preSieveTables)%nat) by (destruct tables_count as [A B]; rewrite A, <- B; exact Hi).
    set (t := nth i preSieveTables []).
    assert (Hin : In (t, ps) (combine preSieveTables preSievePrimeSets)).
    { rewrite <- Ei. unfold t. rewrite <- combine_nth by (destruct tables_count as [A B]; rewrite A, B; reflexivity).
      apply nth_In. rewrite combine_length. destruct tables_count as [A B]. rewrite A, B in *. lia. }
    specialize (T _ Hin). cbn [fst snd] in T.
    assert (Hx : In (table_byte t k) (map (fun t => table_byte t k) preSieveTables)) by exact (in_map (fun t0 => table_byte t0 k) preSieveTables t (nth_In _ _ Hit)).
    specialize (H _ Hx). rewrite (table_bit t ps k b T Hb) in H. unfold no_divisor in H. rewrite forallb_forall in H.
    specialize (H p Hpin). apply negb_true_iff in H. apply N.eqb_neq in H. exact H.
  - intros H x Hx. apply in_map_iff in Hx. destruct Hx as (t & <- & Ht).
    destruct (In_nth _ _ [] Ht) as (i & Hi & Ei).
    assert (Hip : (i < length preSievePrimeSets)%nat) by (destruct tables_count as [A B]; rewrite B, <- A; exact Hi).
    set (ps := nth i preSievePrimeSets []).
    assert (Hin : In (t, ps) (combine preSieveTables preSievePrimeSets)).
    { rewrite <- Ei. unfold ps. rewrite <- combine_nth by (destruct tables_count as [A B]; rewrite A, B; reflexivity).
      apply nth_In. rewrite combine_length. destruct tables_count as [A B]. rewrite A, B in *. lia. }
    specialize (T _ Hin). cbn [fst snd] in T. rewrite (table_bit t ps k b T Hb).
    unfold no_divisor. rewrite forallb_forall. intros p Hp. apply negb_true_iff. apply N.eqb_neq.
    apply H. apply prime_sets_ok. apply in_concat. exists ps. split; [unfold ps; apply nth_In; exact Hip|exact Hp].
Qed.

